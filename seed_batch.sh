#!/bin/sh
# usage: seed_batch.sh <parallelism> <seed ids...> : confirm each seeded change and run the quick check against it
P=$1; shift
cd "$(dirname "$0")"
printf '%s\n' "$@" | xargs -P "$P" --process-slot-var=SEED_SLOT -I{} sh -c 'export SEED_SLOT; [ -f seeded/{}/confirm.json ] && [ "$(jq -r .confirmed seeded/{}/confirm.json)" = true ] || python3 tools_seed.py confirm seeded/{} > seeded/{}/confirm.log 2>&1; python3 tools_seed.py run seeded/{} quick > seeded/{}/detect.log 2>&1; echo "{} $(jq -c "{confirmed,applies,tests_pass,demo_fails_with_change,demo_passes_without}" seeded/{}/confirm.json) detected=$(jq -c .detected seeded/{}/detect-quick.json)"'
