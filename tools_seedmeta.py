#!/usr/bin/env python3
"""Folds what the orchestrator ran (confirm.json, detect-*.json) into each seeded/<id>/meta.json under "verified_by_orchestrator"."""
import glob, json, os
V = os.path.dirname(os.path.abspath(__file__))
for d in sorted(glob.glob(os.path.join(V, "seeded", "C*-*"))):
    mp = os.path.join(d, "meta.json")
    if not os.path.exists(mp):
        continue
    m = json.load(open(mp))
    ran = {"how": "python3 tools_seed.py confirm seeded/<id>  (fresh worktree of /repo HEAD: git apply, go build, full go test -vet=off ./..., demo with and without the change); "
                  "python3 tools_seed.py run seeded/<id> quick  (same worktree with the change applied: B6_REPO=<worktree> ./check <property> --tier quick)"}
    for f, k in (("confirm.json", "confirm"), ("detect-quick.json", "detect_quick"), ("detect-thorough.json", "detect_thorough")):
        p = os.path.join(d, f)
        if os.path.exists(p):
            j = json.load(open(p))
            ran[k] = {x: j[x] for x in j if not x.endswith("_tail") and x not in ("output",)}
            if "output" in j:
                ran[k]["check_output"] = [l[:300] for l in j["output"] if l.startswith(("VIOLATION", "OK"))]
    m["verified_by_orchestrator"] = ran
    m.setdefault("breaks_property", m.get("property"))
    json.dump(m, open(mp, "w"), indent=1)
print("updated", len(glob.glob(os.path.join(V, "seeded", "C*-*"))))
