#!/usr/bin/env python3
"""Seeded-change bookkeeping (DESIGN.md §0.2).

  tools_seed.py confirm <dir>      confirm a seeded change in a scratch worktree of /repo HEAD:
                                   patch applies, builds, existing tests pass, demo fails with it and passes without
  tools_seed.py run <dir> [tier]   apply the change in a scratch worktree and run ./check <property> against it

<dir> holds patch.diff, demo_test.go (or demo/), meta.json {"property", "demo_cmd", ...}.  Results are written to
<dir>/confirm.json and <dir>/detect.json.  Nothing is ever applied to /repo itself by this script.
"""
import json, os, re, shutil, subprocess, sys, tempfile, time

ENV = dict(os.environ, GOFLAGS="-mod=mod", GOPROXY="off", GOSUMDB="off", GOTOOLCHAIN="local")
SKIP = {"cmd/b6-ingest-gb-codepoint", "cmd/b6-ingest-gdal", "cmd/b6-ingest-terrain", "ingest/gdal"}


def sh(cmd, cwd=None, timeout=5400, env=ENV):
    p = subprocess.run(cmd, cwd=cwd, env=env, shell=isinstance(cmd, str), stdout=subprocess.PIPE,
                       stderr=subprocess.STDOUT, text=True, errors="replace", timeout=timeout)
    return p.returncode, p.stdout


def worktree():
    """A scratch worktree of /repo's HEAD. With SEED_SLOT=<k> the worktree /tmp/b6seedw-<k> is reused across
    calls (reset to HEAD each time) so that Go's build and test caches stay warm for unchanged packages."""
    slot = os.environ.get("SEED_SLOT")
    head = sh(["git", "-C", "/repo", "rev-parse", "HEAD"])[1].strip()
    if slot is not None:
        d = f"/tmp/b6seedw-{slot}"
        if not os.path.exists(os.path.join(d, ".git")):
            shutil.rmtree(d, ignore_errors=True)
            sh(["git", "-C", "/repo", "worktree", "prune"])
            rc, o = sh(["git", "-C", "/repo", "worktree", "add", "--detach", d, head])
            if rc != 0:
                raise SystemExit(o)
        else:
            sh(["git", "-C", d, "reset", "-q", "--hard"])
            sh(["git", "-C", d, "clean", "-fdq"])
            sh(["git", "-C", d, "checkout", "-q", "--detach", head])
        return d
    d = tempfile.mkdtemp(prefix="b6seed-")
    os.rmdir(d)
    rc, o = sh(["git", "-C", "/repo", "worktree", "add", "--detach", d, head])
    if rc != 0:
        raise SystemExit(o)
    return d


def drop(d):
    if os.environ.get("SEED_SLOT") is not None:
        sh(["git", "-C", d, "reset", "-q", "--hard"])
        sh(["git", "-C", d, "clean", "-fdq"])
        return
    sh(["git", "-C", "/repo", "worktree", "remove", "--force", d])
    shutil.rmtree(d, ignore_errors=True)


def apply(wt, patch):
    rc, o = sh(["git", "-C", wt, "apply", patch])
    if rc != 0:
        rc, o2 = sh(["git", "-C", wt, "apply", "--3way", patch])
        o += o2
    return rc, o


def demo_info(d, meta):
    cmd = meta.get("demo_cmd", "")
    m = re.search(r"-run\s+'?\"?([^'\"\s]+)", cmd)
    run = m.group(1) if m else "."
    pk = [t for t in re.findall(r"(?<![\w/])\./[\w/]*", cmd)]
    pkg = pk[-1].rstrip("/") if pk else "."
    return run, pkg


def test_pkgs(wt):
    rc, o = sh("go list ./... 2>/dev/null", cwd=os.path.join(wt, "src/diagonal.works/b6"))
    pk = []
    for l in o.split():
        rel = l.replace("diagonal.works/b6", "").lstrip("/")
        if rel not in SKIP and l.startswith("diagonal.works/b6"):
            pk.append("./" + rel if rel else ".")
    return pk


def confirm(d):
    d = os.path.abspath(d)
    meta = json.load(open(os.path.join(d, "meta.json")))
    res = {"property": meta["property"], "repo_head": sh(["git", "-C", "/repo", "rev-parse", "HEAD"])[1].strip()}
    wt = worktree()
    mod = os.path.join(wt, "src/diagonal.works/b6")
    try:
        run, pkg = demo_info(d, meta)
        demo_src = os.path.join(d, "demo_test.go")
        dst = os.path.join(mod, pkg, "zz_seed_demo_test.go")

        def demo():
            shutil.copy(demo_src, dst)
            race = ["-race"] if "-race" in meta.get("demo_cmd", "") else []
            rc, o = sh(["go", "test", "-vet=off", "-count=1", "-timeout", "30m"] + race + ["-run", run, pkg], cwd=mod)
            os.remove(dst)
            return rc, o[-1500:]
        rc, o = demo()
        res["demo_passes_without"] = rc == 0
        res["demo_without_tail"] = o[-400:]
        rc, o = apply(wt, os.path.join(d, "patch.diff"))
        res["applies"] = rc == 0
        if rc != 0:
            res["apply_out"] = o[-800:]
            return res
        pkgs = test_pkgs(wt)
        rc, o = sh(["go", "build"] + pkgs, cwd=mod)
        res["builds"] = rc == 0
        t0 = time.time()
        # in a reused slot, packages whose inputs are unchanged report the cached result of an identical earlier run
        cnt = [] if os.environ.get("SEED_SLOT") is not None else ["-count=1"]
        rc, o = sh(["go", "test", "-vet=off"] + cnt + ["-timeout", "60m"] + pkgs, cwd=mod)
        res["tests_cached_pkgs"] = o.count("(cached)")
        res["tests_pass"] = rc == 0
        res["tests_s"] = round(time.time() - t0)
        if rc != 0:
            res["tests_tail"] = "\n".join(l for l in o.splitlines() if l.startswith(("FAIL", "--- FAIL", "panic")))[-1500:]
        rc, o = demo()
        res["demo_fails_with_change"] = rc != 0
        res["demo_with_tail"] = o[-400:]
        res["confirmed"] = all(res.get(k) for k in ("applies", "builds", "tests_pass", "demo_fails_with_change", "demo_passes_without"))
        return res
    finally:
        drop(wt)
        json.dump(res, open(os.path.join(d, "confirm.json"), "w"), indent=1)
        print(json.dumps({k: v for k, v in res.items() if not k.endswith("tail")}))


def run(d, tier="quick"):
    d = os.path.abspath(d)
    meta = json.load(open(os.path.join(d, "meta.json")))
    pid = meta["property"]
    wt = worktree()
    res = {"property": pid, "tier": tier, "repo_head": sh(["git", "-C", "/repo", "rev-parse", "HEAD"])[1].strip()}
    try:
        rc, o = apply(wt, os.path.join(d, "patch.diff"))
        if rc != 0:
            res["applies"] = False
            res["out"] = o[-500:]
            return res
        env = dict(ENV, B6_REPO=wt)
        t0 = time.time()
        rc, o = sh(["./check", pid, "--tier", tier], cwd=os.path.dirname(os.path.abspath(__file__)), env=env, timeout=7200)
        res.update({"exit": rc, "detected": rc != 0 and "VIOLATION" in o, "wall_s": round(time.time() - t0),
                    "output": [l for l in o.splitlines() if l.startswith(("VIOLATION", "KNOWN", "OK"))]})
        m = re.search(r"replay=(\S+)", o)
        if m and os.path.exists(m.group(1)):
            rp = json.load(open(m.group(1)))
            res["replay_kind"] = rp.get("kind")
            res["replay_excerpt"] = {k: rp.get(k) for k in ("clause", "failing_op", "broken") if rp.get(k)}
        return res
    finally:
        drop(wt)
        json.dump(res, open(os.path.join(d, f"detect-{tier}.json"), "w"), indent=1)
        print(json.dumps(res)[:1500])


if __name__ == "__main__":
    if sys.argv[1] == "confirm":
        confirm(sys.argv[2])
    else:
        run(sys.argv[2], sys.argv[3] if len(sys.argv) > 3 else "quick")
