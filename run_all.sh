#!/bin/sh
# Runs every registered check (quick by default) in parallel and prints one line each.
#   ./run_all.sh [quick|thorough] [parallelism]
cd "$(dirname "$0")"
TIER=${1:-quick}; P=${2:-6}
mkdir -p logs
jq -r '.checks[].property_id' MANIFEST.json | xargs -P "$P" -I{} sh -c "./check {} --tier $TIER > logs/{}.out 2>&1; echo \"{} exit=\$? \$(grep -E '^(OK|VIOLATION|KNOWN)' logs/{}.out | head -3 | tr '\n' ' ')\""
