#!/usr/bin/env python3
"""Rewrites the generated parts of DESIGN.md (between <!-- GEN:x --> … <!-- /GEN:x --> markers):
  status   — per-property table from props/*.json, evidence/*.json, KNOWN_FINDINGS.txt, seeded/*/ results
  notes    — the per-property builder notes (notes/Cxx.md) concatenated
Run after checks / seeded runs; hand-written text outside the markers is untouched."""
import glob, json, os, re
V = os.path.dirname(os.path.abspath(__file__))
props = [json.loads(l) for l in open(os.path.join(V, "properties.jsonl"))]
known = open(os.path.join(V, "KNOWN_FINDINGS.txt")).read().splitlines()


def seeded(pid):
    out = []
    for d in sorted(glob.glob(os.path.join(V, "seeded", pid + "-*"))):
        name = os.path.basename(d)
        c = json.load(open(os.path.join(d, "confirm.json"))) if os.path.exists(os.path.join(d, "confirm.json")) else {}
        q = json.load(open(os.path.join(d, "detect-quick.json"))) if os.path.exists(os.path.join(d, "detect-quick.json")) else {}
        t = json.load(open(os.path.join(d, "detect-thorough.json"))) if os.path.exists(os.path.join(d, "detect-thorough.json")) else {}
        if not c.get("confirmed"):
            st = "not confirmed"
        elif q.get("detected"):
            st = "caught (quick" + (", " + q.get("replay_kind", "") if q.get("replay_kind") else "") + ")"
        elif t.get("detected"):
            st = "caught (thorough only)"
        elif q or t:
            st = "MISSED"
        else:
            st = "confirmed, not yet run"
        out.append(f"{name}: {st}")
    return out


rows = []
for p in props:
    pid = p["id"]
    f = os.path.join(V, "props", pid + ".json")
    if not os.path.exists(f):
        rows.append(f"| {pid} | not built | | | | | |")
        continue
    cfg = json.load(open(f))
    ev = {}
    ef = os.path.join(V, "evidence", pid + ".json")
    if os.path.exists(ef):
        try:
            ev = json.load(open(ef))
        except Exception:
            ev = {}
    cov = ev.get("coverage", {})
    fixed = len([l for l in known if l.startswith("fixed:") and f"property={pid} " in l])
    finds = [re.search(r"class=(\S+)", l).group(1) for l in known if l.startswith("finding:") and f"property={pid} " in l]
    rows.append("| {} | {} | {} + {} cex | {}/{} | {} ops, {} non-trivial | {} fixed; findings: {} | {} |".format(
        pid, cfg.get("level", "proof") if cfg.get("claimed", True) else "not claimed",
        len(cfg.get("theorems", [])), len(cfg.get("counterexamples", [])),
        cov.get("discharged", "?"), cov.get("obligations", "?"),
        cov.get("evaluations", "?"), cov.get("distinct_nontrivial", "?"),
        fixed, ", ".join(finds) if finds else "none", "; ".join(seeded(pid)) or "-"))
status = ("| id | level | obligations (theorems + counterexample theorems) | discharged | last run (quick/thorough as recorded in evidence) | defects | seeded changes |\n"
          "|---|---|---|---|---|---|---|\n" + "\n".join(rows))

notes = []
for p in props:
    nf = os.path.join(V, "notes", p["id"] + ".md")
    if os.path.exists(nf):
        txt = open(nf).read().strip()
        txt = re.sub(r"^#+ ", lambda m: "#### ", txt, flags=re.M)      # demote headings
        notes.append(f"### {p['id']} — {p['title']}\n\n{txt}\n")
notes = "\n".join(notes)

dp = os.path.join(V, "DESIGN.md")
s = open(dp).read()
for key, body in (("status", status), ("notes", notes)):
    a, b = f"<!-- GEN:{key} -->", f"<!-- /GEN:{key} -->"
    if a in s and b in s:
        s = s[:s.index(a) + len(a)] + "\n" + body + "\n" + s[s.index(b):]
open(dp, "w").write(s)
print("DESIGN.md regenerated:", len(rows), "rows,", len(notes.splitlines()), "note lines")
