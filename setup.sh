#!/bin/sh
# setup_cmd: build the framework offline from files on disk (Lean models, proofs, drivers; Go harness cache).
set -e
cd "$(dirname "$0")"
export GOFLAGS=-mod=mod GOPROXY=off GOSUMDB=off GOTOOLCHAIN=local
cp /repo/src/diagonal.works/b6/go.sum harness/go.sum
[ -d tools ] && cp /repo/src/diagonal.works/b6/go.sum tools/go.sum || true
# T2/T3: regenerate lean/B6/Gen/*.lean from /repo for the properties that use generated definitions
for f in props/*.json; do
  if grep -q '"gen"' "$f"; then ./check "$(basename "$f" .json)" --regen-only || echo "setup: regeneration failed for $f (reported per check)"; fi
done
# Lean: every module of the library (models, specs, proofs) and every driver executable
EXES=$(sed -n 's/^name = "\(c[0-9][0-9][a-z0-9]*\)"$/\1/p' lean/lakefile.toml | tr '\n' ' ')
(cd lean && (lake build B6 $EXES || for t in B6 $EXES; do lake build $t || echo "setup: lean target $t failed (reported per check)"; done))
# Go: warm the build cache for every harness command (checks rebuild incrementally from /repo)
(cd harness && go build -tags verif -o /dev/null ./... ) || echo "setup: some harness commands failed to build (reported per check)"
[ -d tools ] && (cd tools && go build -o /dev/null ./... ) || true
echo setup done
