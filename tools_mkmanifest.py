#!/usr/bin/env python3
"""Regenerates MANIFEST.json from props/*.json and properties.jsonl (run after editing a props file)."""
import json, os, glob
V = os.path.dirname(os.path.abspath(__file__))
props = [json.loads(l) for l in open(os.path.join(V, "properties.jsonl"))]
checks, na = [], []
for p in props:
    pid = p["id"]
    f = os.path.join(V, "props", pid + ".json")
    cfg = json.load(open(f)) if os.path.exists(f) else None
    if not cfg or not cfg.get("claimed", True):
        na.append({"property_id": pid, "reason": (cfg or {}).get("na_reason", "check not built yet (planned in DESIGN.md §5); nothing is claimed for this property")})
        continue
    checks.append({
        "property_id": pid,
        "quick_cmd": f"./check {pid} --tier quick",
        "thorough_cmd": f"./check {pid} --tier thorough",
        "evidence_file": f"/verif/evidence/{pid}.json",
        "replay_cmd_template": f"./check {pid} --replay {{path}}",
        "engine": "lean4-model+go-correspondence",
        "level_claimed": {"category": cfg.get("level", "proof"), "text": cfg["level_text"], "design_ref": cfg.get("design_ref", f"DESIGN.md §5 {pid}")},
        "level_note": cfg["level_note"],
        "technique": cfg.get("technique", "Lean 4 theorems about a hand-written executable model + differential correspondence check (Go harness vs Lean driver)"),
    })
m = {
    "version": 1,
    "setup_cmd": "./setup.sh",
    "hooks": {
        "guard": "verif",
        "enable": "go build -tags verif (the harness module replaces diagonal.works/b6 with /repo/src/diagonal.works/b6)",
        "baseline_off_cmd": "cd /repo/src/diagonal.works/b6 && GOFLAGS=-mod=mod GOPROXY=off GOSUMDB=off go test -vet=off -count=1 -timeout 25m ./...",
        "source_commits": json.load(open(os.path.join(V, "hooks_commits.json"))) if os.path.exists(os.path.join(V, "hooks_commits.json")) else [],
        "add_only": True,
    },
    "engines": [{"name": "lean4-model+go-correspondence", "path": "/verif/check",
                 "serves_properties": [c["property_id"] for c in checks],
                 "kind_free_text": "Lean 4 (core) executable models + theorems in /verif/lean; per-property Go harness in /verif/harness drives the real code; ./check builds both, audits axioms, diffs model vs implementation and evaluates the property predicate on the implementation's answers"}],
    "checks": checks,
    "not_applicable": na,
    "notes": "See DESIGN.md. KNOWN_FINDINGS.txt lists recorded findings and fixed defects.",
}
json.dump(m, open(os.path.join(V, "MANIFEST.json"), "w"), indent=1)
print(len(checks), "checks,", len(na), "not claimed")
