/-! Feasibility prototype (phase 1, not framework code): a Go-slice model precise enough to reproduce
`b6.Tags.RemoveTags` as written in world.go — `for i, tag := range *t { for _, key := range keys {
if tag.Key == key { *t = append((*t)[:i], (*t)[i+1:]...) } } }` — including the stale tail of the
backing array and the slice-bounds panic. Both behaviours below were observed on the real code. -/

structure GoSlice (α : Type) where
  back : Array α
  len  : Nat
deriving Repr

namespace GoSlice
def toList {α} (s : GoSlice α) : List α := s.back.toList.take s.len

/-- `append(s[:i], s[j:]...)`; `none` = Go's slice-bounds panic (`j > len` or `i > cap`). -/
def cut {α} (s : GoSlice α) (i j : Nat) : Option (GoSlice α) :=
  if j > s.len ∨ i > s.back.size then none else
  let tail := (s.back.toList.drop j).take (s.len - j)
  let newBack := s.back.toList.take i ++ tail ++ s.back.toList.drop (i + tail.length)
  some { back := newBack.toArray, len := i + tail.length }
end GoSlice

/-- range over the ORIGINAL length; element i is read from the CURRENT backing array. -/
def removeTags (t : GoSlice String) (keys : List String) : Option (GoSlice String) :=
  (List.range t.len).foldlM (fun (s : GoSlice String) i =>
    let tag := s.back[i]!
    keys.foldlM (fun (s : GoSlice String) k => if tag == k then s.cut i (i+1) else some s) s) t

def spec (t keys : List String) : List String := t.filter (fun k => !keys.contains k)

theorem remove_tags_adjacent_counterexample :
    (removeTags ⟨#["a","b","c"], 3⟩ ["a","b"]).map GoSlice.toList = some ["b","c"]
    ∧ spec ["a","b","c"] ["a","b"] = ["c"] := by decide

theorem remove_tags_panics_counterexample :
    removeTags ⟨#["a","b","c"], 3⟩ ["a","c"] = none := by decide

#print axioms remove_tags_adjacent_counterexample
