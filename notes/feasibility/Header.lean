import Std.Tactic.BVDecide
/-! Feasibility prototype (phase 1): encoding.uint64MapBucketHeader pack/unpack with the layout
SYMBOLIC (b = BucketBits, t = TagBits). One theorem covers every layout with t ≤ b ≤ 63. The
builder creates (b,t) = (1,2) for point blocks with ≤ 2 points, which is outside this hypothesis;
`hdr_1_2_counterexample` is the failing instance (confirmed on the real code). -/

def pack (id tag b t : BitVec 64) : BitVec 64 := ((id >>> b) <<< t) ||| tag
def unpackId (bucket v b t : BitVec 64) : BitVec 64 := bucket ||| ((v >>> t) <<< b)
def unpackTag (v t : BitVec 64) : BitVec 64 := v &&& ((1#64 <<< t) - 1#64)
def bucketFor (id b : BitVec 64) : BitVec 64 := id &&& ((1#64 <<< b) - 1#64)

theorem header_roundtrip (id tag b t : BitVec 64) (hb : b ≤ 63#64) (htb : t ≤ b)
    (htag : tag < (1#64 <<< t)) :
    unpackId (bucketFor id b) (pack id tag b t) b t = id ∧ unpackTag (pack id tag b t) t = tag := by
  unfold unpackId bucketFor pack unpackTag
  bv_decide

theorem hdr_1_2_counterexample :
    unpackId (bucketFor (0x8000000000000005#64) 1#64) (pack (0x8000000000000005#64) 1#64 1#64 2#64) 1#64 2#64
      ≠ 0x8000000000000005#64 := by decide

#print axioms header_roundtrip
#print axioms hdr_1_2_counterexample
