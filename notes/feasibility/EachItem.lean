/-! Feasibility prototype (phase 1, not framework code): `encoding.Uint64Map.EachItem` as an interleaving
transition system, faithful to uint64map.go:

  feeder:  for bucket := 0; bucket < B; bucket++ { select { case buckets <- bucket: ; case <-cancel: break } }
           close(buckets); wg.Wait(); return cause          -- `break` leaves only the select
  worker:  for bucket := range buckets { if f(bucket) fails { cause = err; cancel <- {}; exit } }; exit

`buckets` is unbuffered (send = rendezvous with a worker blocked in receive), `cancel` has capacity g
(a worker sends at most once, so the send never blocks). `fails k` says whether the callback fails on
bucket k. A schedule is a list of choices among the enabled steps. -/

inductive W | idle | busy (k : Nat) | exited
deriving DecidableEq, Repr

structure St where
  next    : Nat          -- feeder's loop variable
  closed  : Bool         -- close(buckets) executed
  ws      : List W       -- workers
  tokens  : Nat          -- items in `cancel`
  cause   : Bool         -- an error was recorded
  ret     : Option Bool  -- feeder returned (some cause)
deriving DecidableEq, Repr

def setAt (ws : List W) (i : Nat) (w : W) : List W := ws.set i w

/-- all successors of a state for B buckets and failure predicate `fails` -/
def step (B : Nat) (fails : Nat → Bool) (s : St) : List St :=
  if s.ret.isSome then [] else
  -- feeder, in the loop
  (if s.next < B ∧ !s.closed then
     -- arm 1: hand bucket to any idle worker
     ((List.range s.ws.length).filterMap fun i =>
        if s.ws[i]? = some W.idle then some { s with next := s.next + 1, ws := setAt s.ws i (W.busy s.next) } else none)
     -- arm 2: a cancel token is available; consume it, `break` out of the select only
     ++ (if s.tokens > 0 then [{ s with next := s.next + 1, tokens := s.tokens - 1 }] else [])
   else [])
  -- feeder, after the loop: close
  ++ (if s.next ≥ B ∧ !s.closed then [{ s with closed := true }] else [])
  -- feeder: wg.Wait() returns when all workers exited
  ++ (if s.closed ∧ s.ws.all (· == W.exited) then [{ s with ret := some s.cause }] else [])
  -- workers
  ++ ((List.range s.ws.length).filterMap fun i =>
        match s.ws[i]? with
        | some (W.busy k) =>
            if fails k then some { s with ws := setAt s.ws i W.exited, cause := true, tokens := s.tokens + 1 }
            else some { s with ws := setAt s.ws i W.idle }
        | some W.idle => if s.closed then some { s with ws := setAt s.ws i W.exited } else none
        | _ => none)

def init (g : Nat) : St := { next := 0, closed := false, ws := List.replicate g W.idle, tokens := 0, cause := false, ret := none }

def run (B : Nat) (fails : Nat → Bool) : St → List Nat → Option St
  | s, [] => some s
  | s, c :: cs => match (step B fails s)[c]? with
      | some s' => run B fails s' cs
      | none => none

def deadlocked (B : Nat) (fails : Nat → Bool) (s : St) : Bool := (step B fails s).isEmpty && s.ret.isNone

/-- g = 1 goroutine, B = 3 buckets, the callback fails on bucket 0: the only worker exits, the feeder
eats the single cancel token for bucket 1 and blocks forever offering bucket 2. (Observed on the real
code as a hang.) -/
theorem eachitem_deadlock :
    ∃ sched s, run 3 (· == 0) (init 1) sched = some s ∧ deadlocked 3 (· == 0) s = true :=
  ⟨[0, 0, 0], _, rfl, by decide⟩

/-- with two buckets the same failure is reported: the property is not vacuously false of the model -/
theorem eachitem_two_buckets_ok :
    ∃ sched s, run 2 (· == 0) (init 1) sched = some s ∧ s.ret = some true :=
  ⟨[0, 0, 0, 0, 0], _, rfl, by decide⟩

#print axioms eachitem_deadlock
