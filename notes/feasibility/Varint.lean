/-! Feasibility prototype (phase 1, not framework code): Go's binary.PutUvarint / Uvarint on Nat < 2^64 and the
prefix-code lemma every codec proof (C08, C09, C11, C27) rests on. Kernel-only: propext, Classical.choice, Quot.sound. -/

def putUvarint (v : Nat) : List UInt8 :=
  if h : v < 128 then [v.toUInt8]
  else (v % 128 + 128).toUInt8 :: putUvarint (v / 128)
termination_by v
decreasing_by omega

/-- mirrors binary.Uvarint: returns (value, bytes consumed); none on truncation/overflow -/
def uvarintAux : List UInt8 → (shift : Nat) → (acc : Nat) → (i : Nat) → Option (Nat × Nat)
  | [], _, _, _ => none
  | b :: bs, s, x, i =>
    if i = 10 then none
    else if b.toNat < 128 then
      if i = 9 ∧ b.toNat > 1 then none else some (x + b.toNat * 2^s, i + 1)
    else uvarintAux bs (s + 7) (x + (b.toNat - 128) * 2^s) (i + 1)

def uvarint (bs : List UInt8) : Option (Nat × Nat) := uvarintAux bs 0 0 0

#eval putUvarint 300
#eval uvarint (putUvarint 300 ++ [1,2,3])
#eval uvarint (putUvarint (2^64-1))
#eval (putUvarint (2^64-1)).length

theorem putUvarint_len (v : Nat) : (putUvarint v).length ≥ 1 := by
  unfold putUvarint; split <;> simp

theorem aux_put (v : Nat) : ∀ (s x i : Nat) (rest : List UInt8), v < 2^(64 - 7*i) → i < 10 → (i = 9 → v ≤ 1) →
    uvarintAux (putUvarint v ++ rest) s x i = some (x + v * 2^s, i + (putUvarint v).length) := by
  induction v using Nat.strongRecOn with
  | _ v ih =>
    intro s x i rest hv hi h9
    unfold putUvarint
    split
    · rename_i hlt
      simp [uvarintAux]
      have h1 : i ≠ 10 := by omega
      have hb : (v.toUInt8).toNat = v := by
        simp [Nat.toUInt8, UInt8.toNat_ofNat']; omega
      have hm : v % 256 = v := by omega
      simp only [hm, hlt, if_true]
      have : ¬ (i = 9 ∧ 1 < v) := by
        intro ⟨h, h2⟩; have := h9 h; omega
      simp [this, h1]
    · rename_i hge
      have hge : 128 ≤ v := by omega
      have hb : ((v % 128 + 128).toUInt8).toNat = v % 128 + 128 := by
        simp [Nat.toUInt8, UInt8.toNat_ofNat']; omega
      have h1 : i ≠ 10 := by omega
      have hi9 : i ≠ 9 := by intro h; have := h9 h; omega
      simp only [List.cons_append, uvarintAux, h1, if_false, hb]
      have : ¬ (v % 128 + 128 < 128) := by omega
      simp only [this, if_false]
      have hlt : v / 128 < v := by omega
      have hpow : v / 128 < 2 ^ (64 - 7 * (i + 1)) := by
        have : 2 ^ (64 - 7 * i) = 2 ^ (64 - 7 * (i+1)) * 128 := by
          have : 64 - 7 * i = (64 - 7 * (i+1)) + 7 := by omega
          rw [this, Nat.pow_add]
        rw [this] at hv
        exact Nat.div_lt_of_lt_mul (by rw [Nat.mul_comm]; exact hv)
      have h9' : i + 1 = 9 → v / 128 ≤ 1 := by
        intro h
        have : i = 8 := by omega
        subst this
        simp at hpow
        omega
      rw [ih (v / 128) hlt (s + 7) _ (i + 1) rest hpow (by omega) h9']
      simp
      constructor
      · have : 2 ^ (s + 7) = 2 ^ s * 128 := by rw [Nat.pow_add]
        rw [this]
        have hv' : v = v % 128 + 128 * (v / 128) := (Nat.mod_add_div v 128).symm
        generalize v / 128 = q at *
        generalize v % 128 = r at *
        generalize 2 ^ s = p at *
        subst hv'
        have e2 : q * (p * 128) = 128 * (q * p) := by
          rw [Nat.mul_comm p 128, ← Nat.mul_assoc, Nat.mul_comm q 128, Nat.mul_assoc]
        have e3 : (r + 128 * q) * p = r * p + 128 * (q * p) := by
          rw [Nat.add_mul, Nat.mul_assoc]
        rw [e2, e3]; omega
      · omega

theorem uvarint_put (v : Nat) (hv : v < 2^64) (rest : List UInt8) :
    uvarint (putUvarint v ++ rest) = some (v, (putUvarint v).length) := by
  have := aux_put v 0 0 0 rest (by simpa using hv) (by omega) (by omega)
  simpa [uvarint] using this

#print axioms uvarint_put
