// locksets — T3 fact extractor for C35 (standard library only: go/parser, go/ast).
//
// From the current source of the b6 module it regenerates lean/B6/Gen/Locksets.lean:
//
//   table          every access (read / write / addr / call:<method>) to the configured cache-cell fields made by
//                  ANY method of the struct that owns the cell, with the methods it calls on the same receiver
//                  inlined, and whether the struct's own mutex is held at that point (Lock()/Unlock() pairs and
//                  `defer Unlock()` followed through if/else, switch, loops and early returns);
//   foreign        accesses to a cell field from anywhere else in the package (selector or composite-literal key);
//   unlistedWrites writes / address-taking of any OTHER field of a mutex-bearing struct outside the configured
//                  writer methods (a new lazily cached field shows up here);
//   irregular      constructs the walker could not follow (lock state differs at a join, loop body not balanced,
//                  lock through a non-receiver expression …) — expected empty;
//   closure*       for BasicWorldBuilder.Finish: what the worker closures started with `go` write or call on
//                  captured variables and whether the local mutex is held; the feature-type filter of each
//                  stage; accesses of the function body to closure-written variables between a `go` statement
//                  and the next wg.Wait();
//   inPlace        element assignments through a parameter in invertPoints (the in-place reversal) and who calls it.
//
// Purely syntactic: receiver-name based, no aliasing, no types.  What that does and does not buy is stated in
// notes/C35.md.
package main

import (
	"flag"
	"fmt"
	"go/ast"
	"go/parser"
	"go/printer"
	"go/token"
	"os"
	"path/filepath"
	"sort"
	"strings"
)

var cells = map[string]bool{
	"FeaturesByID.cache":                        true,
	"wrappedMarshalledPhysicalFeature.polyline": true,
	"marshalledArea.geometry":                   true,
	"marshalledArea.polygons":                   true,
}

// methods that are writers by contract (the property is about readers with no writers)
var writers = map[string]bool{
	"FeaturesByID.Merge": true,
	"World.Merge":        true,
}

type row struct {
	typ, method, field, kind string
	locked                   bool
}

type structInfo struct {
	fields  map[string]bool
	mutexes map[string]bool
}

type pkg struct {
	fset    *token.FileSet
	files   []*ast.File
	structs map[string]*structInfo
	methods map[string]map[string]*ast.FuncDecl // type -> name -> decl
}

func exprString(fset *token.FileSet, e ast.Expr) string {
	var sb strings.Builder
	printer.Fprint(&sb, fset, e)
	return strings.Join(strings.Fields(sb.String()), " ")
}

func recvType(fd *ast.FuncDecl) (typ string, name string) {
	if fd.Recv == nil || len(fd.Recv.List) == 0 {
		return "", ""
	}
	f := fd.Recv.List[0]
	t := f.Type
	if s, ok := t.(*ast.StarExpr); ok {
		t = s.X
	}
	if id, ok := t.(*ast.Ident); ok {
		typ = id.Name
	}
	if len(f.Names) > 0 {
		name = f.Names[0].Name
	}
	return
}

func isMutexType(e ast.Expr) bool {
	if s, ok := e.(*ast.SelectorExpr); ok {
		if x, ok := s.X.(*ast.Ident); ok && x.Name == "sync" && (s.Sel.Name == "Mutex" || s.Sel.Name == "RWMutex") {
			return true
		}
	}
	return false
}

func load(dir string, only map[string]bool) *pkg {
	p := &pkg{fset: token.NewFileSet(), structs: map[string]*structInfo{}, methods: map[string]map[string]*ast.FuncDecl{}}
	entries, err := os.ReadDir(dir)
	if err != nil {
		fail(err.Error())
	}
	var names []string
	for _, e := range entries {
		n := e.Name()
		if !strings.HasSuffix(n, ".go") || strings.HasSuffix(n, "_test.go") || strings.HasPrefix(n, "verif_hooks") {
			continue
		}
		if only != nil && !only[n] {
			continue
		}
		names = append(names, n)
	}
	sort.Strings(names)
	for _, n := range names {
		f, err := parser.ParseFile(p.fset, filepath.Join(dir, n), nil, 0)
		if err != nil {
			fail(err.Error())
		}
		p.files = append(p.files, f)
		for _, d := range f.Decls {
			switch d := d.(type) {
			case *ast.GenDecl:
				for _, s := range d.Specs {
					ts, ok := s.(*ast.TypeSpec)
					if !ok {
						continue
					}
					st, ok := ts.Type.(*ast.StructType)
					if !ok {
						continue
					}
					si := &structInfo{fields: map[string]bool{}, mutexes: map[string]bool{}}
					for _, fl := range st.Fields.List {
						for _, nm := range fl.Names {
							si.fields[nm.Name] = true
							if isMutexType(fl.Type) {
								si.mutexes[nm.Name] = true
							}
						}
					}
					p.structs[ts.Name.Name] = si
				}
			case *ast.FuncDecl:
				if t, _ := recvType(d); t != "" {
					if p.methods[t] == nil {
						p.methods[t] = map[string]*ast.FuncDecl{}
					}
					p.methods[t][d.Name.Name] = d
				}
			}
		}
	}
	return p
}

func fail(msg string) {
	fmt.Fprintln(os.Stderr, "locksets:", msg)
	os.Exit(1)
}

// ---- the walker ------------------------------------------------------------------------------------

type state struct {
	held map[string]bool // normalised lock expressions ("recv.lock", "lock")
	dead bool
}

func (s state) clone() state {
	h := map[string]bool{}
	for k, v := range s.held {
		if v {
			h[k] = true
		}
	}
	return state{held: h, dead: s.dead}
}

func sameHeld(a, b state) bool {
	for k, v := range a.held {
		if v && !b.held[k] {
			return false
		}
	}
	for k, v := range b.held {
		if v && !a.held[k] {
			return false
		}
	}
	return true
}

type walker struct {
	p         *pkg
	typ       string // owning struct ("" for plain functions / closures)
	root      string // method the rows are attributed to
	recv      string // receiver identifier in the body being walked
	depth     int
	stack     map[string]bool
	rows      *[]row
	irregular *[]string
	// closure mode: accesses to captured identifiers
	closure  bool
	declared map[string]bool
	onAccess func(name, kind string, locked bool)
}

func (w *walker) note(msg string) {
	*w.irregular = append(*w.irregular, fmt.Sprintf("%s.%s: %s", w.typ, w.root, msg))
}

func (w *walker) norm(e ast.Expr) string {
	s := exprString(w.p.fset, e)
	if w.recv != "" && strings.HasPrefix(s, w.recv+".") {
		return "recv." + strings.TrimPrefix(s, w.recv+".")
	}
	return s
}

func (w *walker) ownLockHeld(st state) bool {
	if w.typ == "" {
		for _, v := range st.held {
			if v {
				return true
			}
		}
		return false
	}
	si := w.p.structs[w.typ]
	for m := range si.mutexes {
		if st.held["recv."+m] {
			return true
		}
	}
	return false
}

func (w *walker) access(field, kind string, st state) {
	*w.rows = append(*w.rows, row{typ: w.typ, method: w.root, field: field, kind: kind, locked: w.ownLockHeld(st)})
}

// recvField: e is `<recv>.<field>` for a field of the owning struct
func (w *walker) recvField(e ast.Expr) (string, bool) {
	s, ok := e.(*ast.SelectorExpr)
	if !ok || w.typ == "" {
		return "", false
	}
	x, ok := s.X.(*ast.Ident)
	if !ok || x.Name != w.recv {
		return "", false
	}
	if !w.p.structs[w.typ].fields[s.Sel.Name] {
		return "", false
	}
	return s.Sel.Name, true
}

func baseIdent(e ast.Expr) (*ast.Ident, bool) {
	for {
		switch x := e.(type) {
		case *ast.Ident:
			return x, true
		case *ast.SelectorExpr:
			e = x.X
		case *ast.IndexExpr:
			e = x.X
		case *ast.SliceExpr:
			e = x.X
		case *ast.StarExpr:
			e = x.X
		case *ast.ParenExpr:
			e = x.X
		default:
			return nil, false
		}
	}
}

// lvalue: the expression is assigned to (or ++/--): the receiver field underneath it is written
func (w *walker) lvalue(e ast.Expr, st state) {
	switch x := e.(type) {
	case *ast.ParenExpr:
		w.lvalue(x.X, st)
	case *ast.IndexExpr:
		w.lvalue(x.X, st)
		w.expr(x.Index, st)
	case *ast.SliceExpr:
		w.lvalue(x.X, st)
	case *ast.StarExpr:
		w.lvalue(x.X, st)
	case *ast.SelectorExpr:
		if f, ok := w.recvField(x); ok {
			w.access(f, "write", st)
			return
		}
		w.lvalue(x.X, st)
	case *ast.Ident:
		if w.closure && !w.declared[x.Name] && x.Name != "_" {
			w.onAccess(x.Name, "write", w.ownLockHeld(st))
		}
	default:
		w.expr(e, st)
	}
}

func (w *walker) expr(e ast.Expr, st state) {
	switch x := e.(type) {
	case nil:
	case *ast.ParenExpr:
		w.expr(x.X, st)
	case *ast.SelectorExpr:
		if f, ok := w.recvField(x); ok {
			w.access(f, "read", st)
			return
		}
		w.expr(x.X, st)
	case *ast.UnaryExpr:
		if x.Op == token.AND {
			if f, ok := w.recvField(x.X); ok {
				w.access(f, "addr", st)
				return
			}
		}
		w.expr(x.X, st)
	case *ast.CallExpr:
		if s, ok := x.Fun.(*ast.SelectorExpr); ok {
			if f, ok := w.recvField(s.X); ok { // method call on a field value
				w.access(f, "call:"+s.Sel.Name, st)
			} else if id, ok := s.X.(*ast.Ident); ok && w.typ != "" && id.Name == w.recv { // call on the same receiver
				if callee := w.p.methods[w.typ][s.Sel.Name]; callee != nil && callee.Body != nil {
					w.access(s.Sel.Name, "selfcall", st)
					w.inline(callee, st)
				}
			} else {
				if w.closure {
					if b, ok := baseIdent(s.X); ok && !w.declared[b.Name] {
						n := s.Sel.Name
						if n != "Lock" && n != "Unlock" && n != "RLock" && n != "RUnlock" {
							w.onAccess(exprString(w.p.fset, s.X), "call:"+n, w.ownLockHeld(st))
						}
					}
				}
				w.expr(s.X, st)
			}
		} else {
			w.expr(x.Fun, st)
		}
		if id, ok := x.Fun.(*ast.Ident); ok && id.Name == "delete" && len(x.Args) == 2 {
			w.lvalue(x.Args[0], st) // delete(m.field, k) writes the map
			w.expr(x.Args[1], st)
			return
		}
		for _, a := range x.Args {
			w.expr(a, st)
		}
	case *ast.IndexExpr:
		w.expr(x.X, st)
		w.expr(x.Index, st)
	case *ast.SliceExpr:
		w.expr(x.X, st)
		w.expr(x.Low, st)
		w.expr(x.High, st)
		w.expr(x.Max, st)
	case *ast.StarExpr:
		w.expr(x.X, st)
	case *ast.BinaryExpr:
		w.expr(x.X, st)
		w.expr(x.Y, st)
	case *ast.KeyValueExpr:
		w.expr(x.Value, st)
	case *ast.CompositeLit:
		for _, el := range x.Elts {
			w.expr(el, st)
		}
	case *ast.TypeAssertExpr:
		w.expr(x.X, st)
	case *ast.FuncLit:
		// a closure defined inside a method: walked with the lock state at the point of definition
		w.block(x.Body.List, st.clone())
	case *ast.Ident, *ast.BasicLit, *ast.ArrayType, *ast.MapType, *ast.ChanType, *ast.FuncType, *ast.StructType, *ast.InterfaceType, *ast.Ellipsis:
	default:
		w.note(fmt.Sprintf("expression %T not followed", e))
	}
}

func (w *walker) inline(callee *ast.FuncDecl, st state) {
	key := callee.Name.Name
	if w.depth >= 10 || w.stack[key] {
		w.note("call of " + key + " not inlined (depth/recursion)")
		return
	}
	_, rn := recvType(callee)
	sub := *w
	sub.recv = rn
	sub.depth = w.depth + 1
	sub.stack = map[string]bool{key: true}
	for k := range w.stack {
		sub.stack[k] = true
	}
	end := sub.block(callee.Body.List, st.clone())
	if !end.dead && !sameHeld(end, st) {
		// the callee changes the lock state of the caller
		for k := range st.held {
			delete(st.held, k)
		}
		for k, v := range end.held {
			if v {
				st.held[k] = true
			}
		}
		w.note("callee " + key + " returns with a different lock state")
	}
}

func lockCall(e ast.Expr) (recv ast.Expr, op string, ok bool) {
	c, ok2 := e.(*ast.CallExpr)
	if !ok2 {
		return nil, "", false
	}
	s, ok2 := c.Fun.(*ast.SelectorExpr)
	if !ok2 {
		return nil, "", false
	}
	switch s.Sel.Name {
	case "Lock", "RLock":
		return s.X, "lock", true
	case "Unlock", "RUnlock":
		return s.X, "unlock", true
	}
	return nil, "", false
}

func (w *walker) join(branches []state, where string) state {
	var live []state
	for _, b := range branches {
		if !b.dead {
			live = append(live, b)
		}
	}
	if len(live) == 0 {
		return state{held: map[string]bool{}, dead: true}
	}
	out := live[0].clone()
	for _, b := range live[1:] {
		if !sameHeld(out, b) {
			w.note("lock state differs at the join after " + where)
			for k := range out.held {
				if !b.held[k] {
					delete(out.held, k)
				}
			}
		}
	}
	return out
}

func (w *walker) block(list []ast.Stmt, st state) state {
	for _, s := range list {
		if st.dead {
			break
		}
		st = w.stmt(s, st)
	}
	return st
}

func (w *walker) declare(e ast.Expr) {
	if id, ok := e.(*ast.Ident); ok && w.declared != nil {
		w.declared[id.Name] = true
	}
}

func (w *walker) stmt(s ast.Stmt, st state) state {
	switch x := s.(type) {
	case *ast.ExprStmt:
		if r, op, ok := lockCall(x.X); ok {
			k := w.norm(r)
			if op == "lock" {
				st.held[k] = true
			} else {
				delete(st.held, k)
			}
			return st
		}
		w.expr(x.X, st)
	case *ast.DeferStmt:
		if _, op, ok := lockCall(x.Call); ok && op == "unlock" {
			return st // held until the function returns
		}
		w.expr(x.Call, st)
	case *ast.GoStmt:
		w.expr(x.Call, st)
	case *ast.AssignStmt:
		for _, r := range x.Rhs {
			w.expr(r, st)
		}
		for _, l := range x.Lhs {
			if x.Tok == token.DEFINE {
				w.declare(l)
				continue
			}
			w.lvalue(l, st)
		}
	case *ast.IncDecStmt:
		w.lvalue(x.X, st)
	case *ast.DeclStmt:
		if g, ok := x.Decl.(*ast.GenDecl); ok {
			for _, sp := range g.Specs {
				if vs, ok := sp.(*ast.ValueSpec); ok {
					for _, n := range vs.Names {
						w.declare(n)
					}
					for _, v := range vs.Values {
						w.expr(v, st)
					}
				}
			}
		}
	case *ast.ReturnStmt:
		for _, r := range x.Results {
			w.expr(r, st)
		}
		st.dead = true
	case *ast.BlockStmt:
		return w.block(x.List, st)
	case *ast.IfStmt:
		if x.Init != nil {
			st = w.stmt(x.Init, st)
		}
		w.expr(x.Cond, st)
		a := w.block(x.Body.List, st.clone())
		b := st.clone()
		if x.Else != nil {
			b = w.stmt(x.Else, st.clone())
		}
		return w.join([]state{a, b}, "if")
	case *ast.ForStmt:
		if x.Init != nil {
			st = w.stmt(x.Init, st)
		}
		w.expr(x.Cond, st)
		end := w.block(x.Body.List, st.clone())
		if x.Post != nil {
			w.stmt(x.Post, st.clone())
		}
		if !end.dead && !sameHeld(end, st) {
			w.note("loop body does not restore the lock state")
		}
	case *ast.RangeStmt:
		w.expr(x.X, st)
		if x.Tok == token.DEFINE {
			w.declare(x.Key)
			w.declare(x.Value)
		}
		end := w.block(x.Body.List, st.clone())
		if !end.dead && !sameHeld(end, st) {
			w.note("loop body does not restore the lock state")
		}
	case *ast.SwitchStmt:
		if x.Init != nil {
			st = w.stmt(x.Init, st)
		}
		w.expr(x.Tag, st)
		return w.clauses(x.Body.List, st, "switch")
	case *ast.TypeSwitchStmt:
		if x.Init != nil {
			st = w.stmt(x.Init, st)
		}
		if a, ok := x.Assign.(*ast.AssignStmt); ok {
			for _, r := range a.Rhs {
				w.expr(r, st)
			}
			for _, l := range a.Lhs {
				w.declare(l)
			}
		} else if e, ok := x.Assign.(*ast.ExprStmt); ok {
			w.expr(e.X, st)
		}
		return w.clauses(x.Body.List, st, "type switch")
	case *ast.SelectStmt:
		return w.clauses(x.Body.List, st, "select")
	case *ast.SendStmt:
		w.expr(x.Chan, st)
		w.expr(x.Value, st)
	case *ast.LabeledStmt:
		return w.stmt(x.Stmt, st)
	case *ast.BranchStmt, *ast.EmptyStmt:
	default:
		w.note(fmt.Sprintf("statement %T not followed", s))
	}
	return st
}

func (w *walker) clauses(list []ast.Stmt, st state, where string) state {
	var outs []state
	hasDefault := false
	for _, c := range list {
		switch cc := c.(type) {
		case *ast.CaseClause:
			if cc.List == nil {
				hasDefault = true
			}
			for _, e := range cc.List {
				w.expr(e, st)
			}
			outs = append(outs, w.block(cc.Body, st.clone()))
		case *ast.CommClause:
			if cc.Comm == nil {
				hasDefault = true
			} else {
				w.stmt(cc.Comm, st.clone())
			}
			outs = append(outs, w.block(cc.Body, st.clone()))
		}
	}
	if !hasDefault {
		outs = append(outs, st.clone())
	}
	return w.join(outs, where)
}

// ---- output ------------------------------------------------------------------------------------------

func q(s string) string { return "\"" + strings.ReplaceAll(strings.ReplaceAll(s, "\\", "\\\\"), "\"", "\\\"") + "\"" }

func leanStrings(xs []string) string {
	if len(xs) == 0 {
		return "[]"
	}
	qs := make([]string, len(xs))
	for i, x := range xs {
		qs[i] = q(x)
	}
	return "[\n  " + strings.Join(qs, ",\n  ") + "]"
}

func leanRows(rs []row) string {
	if len(rs) == 0 {
		return "[]"
	}
	xs := make([]string, len(rs))
	for i, r := range rs {
		xs[i] = fmt.Sprintf("⟨%s, %s, %s, %s, %v⟩", q(r.typ), q(r.method), q(r.field), q(r.kind), r.locked)
	}
	return "[\n  " + strings.Join(xs, ",\n  ") + "]"
}

func dedup(rs []row) []row {
	seen := map[row]bool{}
	var out []row
	for _, r := range rs {
		if !seen[r] {
			seen[r] = true
			out = append(out, r)
		}
	}
	sort.Slice(out, func(i, j int) bool {
		a, b := out[i], out[j]
		if a.typ != b.typ {
			return a.typ < b.typ
		}
		if a.method != b.method {
			return a.method < b.method
		}
		if a.field != b.field {
			return a.field < b.field
		}
		if a.kind != b.kind {
			return a.kind < b.kind
		}
		return !a.locked && b.locked
	})
	return out
}

func dedupStrings(xs []string) []string {
	sort.Strings(xs)
	var out []string
	for i, x := range xs {
		if i == 0 || x != xs[i-1] {
			out = append(out, x)
		}
	}
	return out
}

// wide: every method of every mutex-carrying struct of a package, all accesses to the struct's other fields
func wide(repo, rel, prefix string, irregular *[]string) (rows []row, types []string, selfCalls []row, foreignCalls []string) {
	p := load(filepath.Join(repo, rel), nil)
	for t, si := range p.structs {
		if len(si.mutexes) > 0 {
			types = append(types, prefix+"."+t)
		}
	}
	sort.Strings(types)
	var all []row
	for _, pt := range types {
		t := strings.TrimPrefix(pt, prefix+".")
		names := []string{}
		for n := range p.methods[t] {
			names = append(names, n)
		}
		sort.Strings(names)
		for _, n := range names {
			fd := p.methods[t][n]
			if fd.Body == nil {
				continue
			}
			_, rn := recvType(fd)
			if rn == "" || rn == "_" {
				continue
			}
			var irr []string
			w := &walker{p: p, typ: t, root: n, recv: rn, stack: map[string]bool{n: true}, rows: &all, irregular: &irr}
			w.block(fd.Body.List, state{held: map[string]bool{}})
			for _, m := range irr {
				*irregular = append(*irregular, prefix+"."+m)
			}
		}
	}
	for _, r := range dedup(all) {
		if r.kind == "selfcall" {
			r.typ = prefix + "." + r.typ
			selfCalls = append(selfCalls, r)
			continue
		}
		if p.structs[r.typ].mutexes[r.field] {
			continue
		}
		r.typ = prefix + "." + r.typ
		rows = append(rows, r)
	}
	// calls of unexported methods of these structs from outside the struct's own methods
	owner := map[string]string{}
	for _, pt := range types {
		t := strings.TrimPrefix(pt, prefix+".")
		for n := range p.methods[t] {
			if n[0] >= 'a' && n[0] <= 'z' {
				owner[n] = t
			}
		}
	}
	for _, f := range p.files {
		fname := filepath.Base(p.fset.Position(f.Pos()).Filename)
		for _, d := range f.Decls {
			fd, ok := d.(*ast.FuncDecl)
			if !ok || fd.Body == nil {
				continue
			}
			rt, rn := recvType(fd)
			ast.Inspect(fd.Body, func(n ast.Node) bool {
				c, ok := n.(*ast.CallExpr)
				if !ok {
					return true
				}
				s, ok := c.Fun.(*ast.SelectorExpr)
				if !ok {
					return true
				}
				o, isU := owner[s.Sel.Name]
				if !isU {
					return true
				}
				if id, ok := s.X.(*ast.Ident); ok && id.Name == rn && (rt == o || p.methods[rt][s.Sel.Name] != nil) {
					return true
				}
				foreignCalls = append(foreignCalls, fmt.Sprintf("%s.%s called in %s:%s as %s", prefix, o+"."+s.Sel.Name, fname, fd.Name.Name, exprString(p.fset, s)))
				return true
			})
		}
	}
	return rows, types, selfCalls, foreignCalls
}

func main() {
	repo := flag.String("repo", "", "b6 module directory")
	out := flag.String("o", "", "output Lean file")
	flag.Parse()
	if *repo == "" || *out == "" {
		fail("usage: locksets -repo <b6 module dir> -o <file>")
	}

	// 1. the cache cells of the compact world
	cp := load(filepath.Join(*repo, "ingest/compact"), nil)
	var all []row
	var irregular []string
	mutexTypes := []string{}
	for t, si := range cp.structs {
		if len(si.mutexes) > 0 {
			mutexTypes = append(mutexTypes, t)
		}
	}
	sort.Strings(mutexTypes)
	for c := range cells {
		t := strings.SplitN(c, ".", 2)
		si := cp.structs[t[0]]
		if si == nil || !si.fields[t[1]] {
			irregular = append(irregular, "configured cell "+c+" does not exist")
		} else if len(si.mutexes) == 0 {
			irregular = append(irregular, "struct of cell "+c+" has no mutex")
		}
	}
	for _, t := range mutexTypes {
		names := []string{}
		for n := range cp.methods[t] {
			names = append(names, n)
		}
		sort.Strings(names)
		for _, n := range names {
			fd := cp.methods[t][n]
			if fd.Body == nil {
				continue
			}
			_, rn := recvType(fd)
			w := &walker{p: cp, typ: t, root: n, recv: rn, stack: map[string]bool{n: true}, rows: &all, irregular: &irregular}
			w.block(fd.Body.List, state{held: map[string]bool{}})
		}
	}
	var table, unlisted, selfCalls []row
	cellTypes := map[string]bool{}
	for c := range cells {
		cellTypes[strings.SplitN(c, ".", 2)[0]] = true
	}
	for _, r := range dedup(all) {
		if r.kind == "selfcall" {
			if cellTypes[r.typ] {
				selfCalls = append(selfCalls, r)
			}
			continue
		}
		if cells[r.typ+"."+r.field] {
			table = append(table, r)
		} else if (r.kind == "write" || r.kind == "addr") && !writers[r.typ+"."+r.method] && !cp.structs[r.typ].mutexes[r.field] {
			unlisted = append(unlisted, r)
		}
	}
	// foreign accesses to cell fields
	cellField := map[string]string{}
	for c := range cells {
		t := strings.SplitN(c, ".", 2)
		cellField[t[1]] = t[0]
	}
	var foreign []string
	for _, f := range cp.files {
		fname := filepath.Base(cp.fset.Position(f.Pos()).Filename)
		for _, d := range f.Decls {
			fd, ok := d.(*ast.FuncDecl)
			if !ok || fd.Body == nil {
				continue
			}
			rt, rn := recvType(fd)
			ast.Inspect(fd.Body, func(n ast.Node) bool {
				switch x := n.(type) {
				case *ast.SelectorExpr:
					owner, isCell := cellField[x.Sel.Name]
					if !isCell {
						return true
					}
					if id, ok := x.X.(*ast.Ident); ok && id.Name == rn && rt == owner {
						return true // covered by the table
					}
					foreign = append(foreign, fmt.Sprintf("%s:%s:%s", fname, fd.Name.Name, exprString(cp.fset, x)))
				case *ast.CompositeLit:
					tn := ""
					if id, ok := x.Type.(*ast.Ident); ok {
						tn = id.Name
					}
					for _, el := range x.Elts {
						if kv, ok := el.(*ast.KeyValueExpr); ok {
							if k, ok := kv.Key.(*ast.Ident); ok {
								if owner, isCell := cellField[k.Name]; isCell && owner == tn {
									foreign = append(foreign, fmt.Sprintf("%s:%s:literal %s{%s: …}", fname, fd.Name.Name, tn, k.Name))
								}
							}
						}
					}
				}
				return true
			})
		}
	}

	// internal methods: methods of a cell-owning struct that touch a cell without holding the lock themselves
	// (helpers meant to be called with the lock held); calls of them, from their own type and from elsewhere
	var foreignCalls, internalMethods []string
	unexported := map[string]string{}
	for _, r := range table {
		if !r.locked {
			unexported[r.method] = r.typ
		}
	}
	for n, t := range unexported {
		internalMethods = append(internalMethods, t+"."+n)
	}
	sort.Strings(internalMethods)
	{
		var kept []row
		for _, r := range selfCalls {
			if unexported[r.field] == r.typ {
				kept = append(kept, r)
			}
		}
		selfCalls = kept
	}
	for _, f := range cp.files {
		fname := filepath.Base(cp.fset.Position(f.Pos()).Filename)
		for _, d := range f.Decls {
			fd, ok := d.(*ast.FuncDecl)
			if !ok || fd.Body == nil {
				continue
			}
			rt, rn := recvType(fd)
			ast.Inspect(fd.Body, func(n ast.Node) bool {
				c, ok := n.(*ast.CallExpr)
				if !ok {
					return true
				}
				s, ok := c.Fun.(*ast.SelectorExpr)
				if !ok {
					return true
				}
				owner, isU := unexported[s.Sel.Name]
				if !isU {
					return true
				}
				if id, ok := s.X.(*ast.Ident); ok && id.Name == rn && rt == owner {
					return true
				}
				if _, sameName := cp.methods[rt][s.Sel.Name]; sameName && rt != owner {
					if id, ok := s.X.(*ast.Ident); ok && id.Name == rn {
						return true // the caller's own method of the same name
					}
				}
				foreignCalls = append(foreignCalls, fmt.Sprintf("%s:%s:%s", fname, fd.Name.Name, exprString(cp.fset, s)))
				return true
			})
		}
	}

	// 2. BasicWorldBuilder.Finish and invertPoints
	ip := load(filepath.Join(*repo, "ingest"), map[string]bool{"basic.go": true, "validate.go": true})
	var closureRows []row
	var stageFilters, unjoined, inPlace, inPlaceCallers []string
	finish := ip.methods["BasicWorldBuilder"]["Finish"]
	if finish == nil || finish.Body == nil {
		irregular = append(irregular, "BasicWorldBuilder.Finish not found")
	} else {
		closures := map[string]*ast.FuncLit{}
		launched := map[string]bool{}
		ast.Inspect(finish.Body, func(n ast.Node) bool {
			switch x := n.(type) {
			case *ast.AssignStmt:
				if len(x.Lhs) == 1 && len(x.Rhs) == 1 {
					if id, ok := x.Lhs[0].(*ast.Ident); ok {
						if fl, ok := x.Rhs[0].(*ast.FuncLit); ok {
							closures[id.Name] = fl
						}
						if id.Name == "stages" {
							if cl, ok := x.Rhs[0].(*ast.CompositeLit); ok {
								for _, el := range cl.Elts {
									filter := "?"
									ast.Inspect(el, func(m ast.Node) bool {
										if b, ok := m.(*ast.BinaryExpr); ok {
											if exprString(ip.fset, b.Y) == "b6.FeatureTypeArea" && (b.Op == token.EQL || b.Op == token.NEQ) {
												filter = b.Op.String() + "FeatureTypeArea"
											}
										}
										return true
									})
									stageFilters = append(stageFilters, filter)
								}
							}
						}
					}
				}
			case *ast.GoStmt:
				if id, ok := x.Call.Fun.(*ast.Ident); ok {
					launched[id.Name] = true
				} else {
					irregular = append(irregular, "Finish: go statement that does not call a named closure")
				}
			}
			return true
		})
		written := map[string]bool{}
		names := []string{}
		for n := range launched {
			names = append(names, n)
		}
		sort.Strings(names)
		for _, n := range names {
			fl := closures[n]
			if fl == nil {
				irregular = append(irregular, "Finish: go "+n+" is not a closure defined in Finish")
				continue
			}
			declared := map[string]bool{}
			for _, p := range fl.Type.Params.List {
				for _, nm := range p.Names {
					declared[nm.Name] = true
				}
			}
			var rows []row
			w := &walker{p: ip, typ: "", root: n, rows: &rows, irregular: &irregular, closure: true, declared: declared,
				stack: map[string]bool{}}
			w.onAccess = func(name, kind string, locked bool) {
				closureRows = append(closureRows, row{typ: "Finish", method: n, field: name, kind: kind, locked: locked})
				if kind == "write" {
					written[name] = true
				}
				if strings.HasPrefix(kind, "call:") {
					written[name] = true
				}
			}
			w.block(fl.Body.List, state{held: map[string]bool{}})
		}
		// accesses of the function body itself to closure-written variables while workers may run
		pending := false
		var scan func(list []ast.Stmt)
		check := func(n ast.Node) {
			ast.Inspect(n, func(m ast.Node) bool {
				if _, ok := m.(*ast.FuncLit); ok {
					return false
				}
				if id, ok := m.(*ast.Ident); ok && written[id.Name] && pending {
					unjoined = append(unjoined, fmt.Sprintf("%s at %s", id.Name, ip.fset.Position(id.Pos())))
				}
				if s, ok := m.(*ast.SelectorExpr); ok && written[exprString(ip.fset, s)] && pending {
					unjoined = append(unjoined, fmt.Sprintf("%s at %s", exprString(ip.fset, s), ip.fset.Position(s.Pos())))
				}
				return true
			})
		}
		scan = func(list []ast.Stmt) {
			for _, s := range list {
				switch x := s.(type) {
				case *ast.GoStmt:
					pending = true
				case *ast.ExprStmt:
					if exprString(ip.fset, x.X) == "wg.Wait()" {
						pending = false
					} else {
						check(x)
					}
				case *ast.ForStmt:
					scan(x.Body.List)
					if pending {
						irregular = append(irregular, "Finish: a loop body ends with workers still running")
					}
				case *ast.RangeStmt:
					before := pending
					scan(x.Body.List)
					// `for i := 0; i < cores; i++ { go … }` leaves workers running on purpose; a range over stages must join
					if pending && !before && exprString(ip.fset, x.X) == "stages" {
						irregular = append(irregular, "Finish: the stage loop ends an iteration with workers still running")
					}
				case *ast.IfStmt:
					check(x.Cond)
					scan(x.Body.List)
					if b, ok := x.Else.(*ast.BlockStmt); ok {
						scan(b.List)
					}
				case *ast.BlockStmt:
					scan(x.List)
				default:
					check(s)
				}
			}
		}
		// the counting loop `for i := 0; i < cores; i++ { go validate(c) }` is a ForStmt: handle it without the
		// "still running" complaint by pre-marking
		var scanTop func(list []ast.Stmt)
		scanTop = func(list []ast.Stmt) {
			for _, s := range list {
				if f, ok := s.(*ast.ForStmt); ok {
					onlyGo := len(f.Body.List) > 0
					for _, b := range f.Body.List {
						if _, ok := b.(*ast.GoStmt); !ok {
							onlyGo = false
						}
					}
					if onlyGo {
						pending = true
						continue
					}
				}
				if r, ok := s.(*ast.RangeStmt); ok {
					before := pending
					scanTop(r.Body.List)
					if pending && !before {
						irregular = append(irregular, "Finish: the stage loop ends an iteration with workers still running")
					}
					continue
				}
				scan([]ast.Stmt{s})
			}
		}
		scanTop(finish.Body.List)
	}
	for _, f := range ip.files {
		for _, d := range f.Decls {
			fd, ok := d.(*ast.FuncDecl)
			if !ok || fd.Body == nil {
				continue
			}
			if fd.Name.Name == "invertPoints" && fd.Recv == nil {
				ast.Inspect(fd.Body, func(n ast.Node) bool {
					if a, ok := n.(*ast.AssignStmt); ok && a.Tok == token.ASSIGN {
						for _, l := range a.Lhs {
							if ix, ok := l.(*ast.IndexExpr); ok {
								inPlace = append(inPlace, exprString(ip.fset, ix.X))
							}
						}
					}
					if c, ok := n.(*ast.CallExpr); ok {
						if s, ok := c.Fun.(*ast.SelectorExpr); ok {
							if id, ok := s.X.(*ast.Ident); ok && id.Name == "f" {
								inPlace = append(inPlace, "f."+s.Sel.Name+"()")
							}
						}
					}
					return true
				})
			}
			ast.Inspect(fd.Body, func(n ast.Node) bool {
				if c, ok := n.(*ast.CallExpr); ok {
					if id, ok := c.Fun.(*ast.Ident); ok && id.Name == "invertPoints" {
						inPlaceCallers = append(inPlaceCallers, fd.Name.Name)
					}
				}
				return true
			})
		}
	}

	// 3. the wide table: ingest, ingest/compact, search
	var wideRows, wideSelf []row
	var wideTypes, wideForeign []string
	for _, pk := range [][2]string{{"ingest", "ingest"}, {"ingest/compact", "compact"}, {"search", "search"}} {
		rs, ts, sc, fc := wide(*repo, pk[0], pk[1], &irregular)
		wideRows = append(wideRows, rs...)
		wideTypes = append(wideTypes, ts...)
		wideSelf = append(wideSelf, sc...)
		wideForeign = append(wideForeign, fc...)
	}

	var sb strings.Builder
	sb.WriteString("import B6.Model.Locksets\n")
	sb.WriteString("/-! GENERATED by /verif/tools/locksets from the current source of the b6 module — do not edit.\n")
	sb.WriteString("Lock regions and accesses to the lazily cached fields of ingest/compact/world.go, the worker closures of\n")
	sb.WriteString("BasicWorldBuilder.Finish, the in-place writes of invertPoints. -/\n")
	sb.WriteString("namespace B6.Gen.Locksets\nopen B6.Model.Locksets\n\n")
	fmt.Fprintf(&sb, "def table : List Access := %s\n\n", leanRows(table))
	fmt.Fprintf(&sb, "def unlistedWrites : List Access := %s\n\n", leanRows(unlisted))
	fmt.Fprintf(&sb, "def internalMethods : List String := %s\n\n", leanStrings(internalMethods))
	fmt.Fprintf(&sb, "def selfCalls : List Access := %s\n\n", leanRows(selfCalls))
	fmt.Fprintf(&sb, "def foreign : List String := %s\n\n", leanStrings(dedupStrings(foreign)))
	fmt.Fprintf(&sb, "def foreignCalls : List String := %s\n\n", leanStrings(dedupStrings(foreignCalls)))
	fmt.Fprintf(&sb, "def irregular : List String := %s\n\n", leanStrings(dedupStrings(irregular)))
	fmt.Fprintf(&sb, "def mutexStructs : List String := %s\n\n", leanStrings(mutexTypes))
	fmt.Fprintf(&sb, "def wideStructs : List String := %s\n\n", leanStrings(wideTypes))
	fmt.Fprintf(&sb, "def wideTable : List Access := %s\n\n", leanRows(wideRows))
	fmt.Fprintf(&sb, "def wideSelfCalls : List Access := %s\n\n", leanRows(wideSelf))
	fmt.Fprintf(&sb, "def wideForeignCalls : List String := %s\n\n", leanStrings(dedupStrings(wideForeign)))
	fmt.Fprintf(&sb, "def closureAccesses : List Access := %s\n\n", leanRows(dedup(closureRows)))
	fmt.Fprintf(&sb, "def finishStageFilters : List String := %s\n\n", leanStrings(stageFilters))
	fmt.Fprintf(&sb, "def unjoinedMainAccesses : List String := %s\n\n", leanStrings(dedupStrings(unjoined)))
	fmt.Fprintf(&sb, "def invertPointsInPlace : List String := %s\n\n", leanStrings(dedupStrings(inPlace)))
	fmt.Fprintf(&sb, "def invertPointsCallers : List String := %s\n\n", leanStrings(dedupStrings(inPlaceCallers)))
	sb.WriteString("end B6.Gen.Locksets\n")
	if err := os.WriteFile(*out, []byte(sb.String()), 0o644); err != nil {
		fail(err.Error())
	}
}
