// go2lean — T2 translator of DESIGN.md §1.1: re-extracts the bodies of the straight-line integer
// functions named in the C10 anchors from the b6 source tree and prints them as Lean `BitVec`
// definitions (lean/B6/Gen/Bits.lean). Standard library only (go/ast, go/parser, go/token).
//
//	go run ./go2lean -repo /repo/src/diagonal.works/b6 -o ../lean/B6/Gen/Bits.lean
//
// It supports exactly the forms those functions use and exits non-zero on anything else:
//
//	integer types of width 8/16/32/64 (named types are resolved from the package's own `type` decls),
//	untyped / typed integer constants (const decls incl. iota are evaluated),
//	+ - * & | ^ &^ << >> (>> arithmetic on signed operands), unary - ^, conversions (truncate,
//	zero-extend, sign-extend by the signedness of the SOURCE type), comparisons, && || !,
//	:= / = / op= on locals and parameters, var x T, if/else (with init), expression switch on
//	constants, return of several values, panic(...) (the definition then returns an Option),
//	struct fields of parameters (free variables `<param>_<Field>`), projections of a returned
//	composite literal (`Layout.BucketBits`), and per-target opaque expressions (calls into other
//	packages such as ll.Lat.E7()) that become free variables of a declared type.
//
// Two modes: `full` executes the whole body symbolically; `assign` extracts the right-hand side of
// the single assignment to a named variable / field inside a function whose other statements are not
// integer code (binary.PutUvarint, …) — every variable such an expression mentions must be assigned
// exactly once in the function (or never, for parameters), otherwise the tool refuses.
package main

import (
	"bytes"
	"flag"
	"fmt"
	"go/ast"
	"go/parser"
	"go/printer"
	"go/token"
	"math/big"
	"os"
	"path/filepath"
	"sort"
	"strings"
)

// ---- kinds ------------------------------------------------------------------------------------

type kind struct {
	w      int
	signed bool
	isBool bool
}

func (k kind) lean() string {
	if k.isBool {
		return "Bool"
	}
	return fmt.Sprintf("BitVec %d", k.w)
}

var builtin = map[string]kind{
	"uint64": {64, false, false}, "int64": {64, true, false}, "uint": {64, false, false}, "int": {64, true, false},
	"uint32": {32, false, false}, "int32": {32, true, false}, "rune": {32, true, false},
	"uint16": {16, false, false}, "int16": {16, true, false},
	"uint8": {8, false, false}, "int8": {8, true, false}, "byte": {8, false, false},
	"uintptr": {64, false, false}, "bool": {0, false, true},
}

// ---- packages ---------------------------------------------------------------------------------

type constDecl struct {
	expr ast.Expr // nil: impossible (implicit repetition is resolved when loading)
	typ  ast.Expr
	iota int64
}

type pkg struct {
	dir     string
	fset    *token.FileSet
	files   []*ast.File
	types   map[string]ast.Expr // named type -> underlying type expression
	consts  map[string]constDecl
	funcs   map[string]*ast.FuncDecl // "Name" or "Recv.Name"
	vars    map[string]ast.Expr      // package-level var initialisers
	imports map[string]string        // alias -> dir (relative to module), only b6-internal packages
}

const modulePath = "diagonal.works/b6"

var repo string
var pkgs = map[string]*pkg{}

func fail(format string, a ...interface{}) {
	fmt.Fprintf(os.Stderr, "go2lean: "+format+"\n", a...)
	os.Exit(1)
}

func loadPkg(dir string) *pkg {
	if p, ok := pkgs[dir]; ok {
		return p
	}
	p := &pkg{dir: dir, fset: token.NewFileSet(), types: map[string]ast.Expr{}, consts: map[string]constDecl{},
		funcs: map[string]*ast.FuncDecl{}, vars: map[string]ast.Expr{}, imports: map[string]string{}}
	pkgs[dir] = p
	ents, err := os.ReadDir(filepath.Join(repo, dir))
	if err != nil {
		fail("cannot read package %s: %v", dir, err)
	}
	for _, e := range ents {
		n := e.Name()
		if e.IsDir() || !strings.HasSuffix(n, ".go") || strings.HasSuffix(n, "_test.go") || strings.HasPrefix(n, "verif_hooks") {
			continue
		}
		f, err := parser.ParseFile(p.fset, filepath.Join(repo, dir, n), nil, parser.ParseComments)
		if err != nil {
			fail("parse %s/%s: %v", dir, n, err)
		}
		p.files = append(p.files, f)
		for _, im := range f.Imports {
			path := strings.Trim(im.Path.Value, `"`)
			if path == modulePath || strings.HasPrefix(path, modulePath+"/") {
				rel := strings.TrimPrefix(strings.TrimPrefix(path, modulePath), "/")
				if rel == "" {
					rel = "."
				}
				alias := filepath.Base(path)
				if im.Name != nil {
					alias = im.Name.Name
				}
				p.imports[alias] = rel
			}
		}
		for _, d := range f.Decls {
			switch d := d.(type) {
			case *ast.FuncDecl:
				name := d.Name.Name
				if d.Recv != nil && len(d.Recv.List) == 1 {
					name = recvTypeName(d.Recv.List[0].Type) + "." + name
				}
				p.funcs[name] = d
			case *ast.GenDecl:
				switch d.Tok {
				case token.TYPE:
					for _, s := range d.Specs {
						ts := s.(*ast.TypeSpec)
						p.types[ts.Name.Name] = ts.Type
					}
				case token.VAR:
					for _, s := range d.Specs {
						vs := s.(*ast.ValueSpec)
						for i, nm := range vs.Names {
							if i < len(vs.Values) {
								p.vars[nm.Name] = vs.Values[i]
							}
						}
					}
				case token.CONST:
					var lastVals []ast.Expr
					var lastTyp ast.Expr
					for i, s := range d.Specs {
						vs := s.(*ast.ValueSpec)
						vals, typ := vs.Values, vs.Type
						if len(vals) == 0 {
							vals, typ = lastVals, lastTyp
						} else {
							lastVals, lastTyp = vals, typ
						}
						for j, nm := range vs.Names {
							if j < len(vals) {
								p.consts[nm.Name] = constDecl{expr: vals[j], typ: typ, iota: int64(i)}
							}
						}
					}
				}
			}
		}
	}
	return p
}

func recvTypeName(e ast.Expr) string {
	switch e := e.(type) {
	case *ast.StarExpr:
		return recvTypeName(e.X)
	case *ast.Ident:
		return e.Name
	}
	return "?"
}

func src(p *pkg, n ast.Node) string {
	var b bytes.Buffer
	printer.Fprint(&b, p.fset, n)
	return strings.Join(strings.Fields(b.String()), " ")
}

// resolveType: type expression -> integer kind, or a struct type (returned as *ast.StructType with its package).
func resolveType(p *pkg, e ast.Expr) (kind, *ast.StructType, *pkg, bool) {
	switch e := e.(type) {
	case *ast.Ident:
		if k, ok := builtin[e.Name]; ok {
			return k, nil, nil, true
		}
		if u, ok := p.types[e.Name]; ok {
			return resolveType(p, u)
		}
	case *ast.StarExpr:
		return resolveType(p, e.X)
	case *ast.ParenExpr:
		return resolveType(p, e.X)
	case *ast.StructType:
		return kind{}, e, p, true
	case *ast.SelectorExpr:
		if x, ok := e.X.(*ast.Ident); ok {
			if dir, ok := p.imports[x.Name]; ok {
				q := loadPkg(dir)
				if u, ok := q.types[e.Sel.Name]; ok {
					return resolveType(q, u)
				}
			}
		}
	}
	return kind{}, nil, nil, false
}

// ---- values -----------------------------------------------------------------------------------

type val struct {
	term    string   // Lean term (non-constant values)
	k       kind     // valid unless untyped
	c       *big.Int // constant value (nil: not constant)
	untyped bool
}

func lit(c *big.Int, k kind) string {
	m := new(big.Int).Lsh(big.NewInt(1), uint(k.w))
	v := new(big.Int).Mod(c, m)
	return fmt.Sprintf("%s#%d", v.String(), k.w)
}

func fits(c *big.Int, k kind) bool {
	lo, hi := big.NewInt(0), new(big.Int).Lsh(big.NewInt(1), uint(k.w))
	if k.signed {
		hi = new(big.Int).Lsh(big.NewInt(1), uint(k.w-1))
		lo = new(big.Int).Neg(hi)
	}
	return c.Cmp(lo) >= 0 && c.Cmp(hi) < 0
}

// ---- translation context ----------------------------------------------------------------------

type variable struct {
	term string // current Lean term
	k    kind
}

type ctx struct {
	p       *pkg
	fn      *ast.FuncDecl
	name    string
	env     map[string]variable
	structs map[string]structInfo // parameter name -> struct type
	opaque  map[string]string     // source text -> "name:type"
	free    map[string]kind       // free variables of the generated definition (name -> kind)
	params  []string              // integer parameters in declared order
	assigns map[string]int        // assignment counts (assign mode: single-assignment discipline)
	lenient bool
}

type structInfo struct {
	st *ast.StructType
	p  *pkg
}

func (c *ctx) errorf(n ast.Node, format string, a ...interface{}) {
	pos := c.p.fset.Position(n.Pos())
	fail("%s:%d (%s): %s  [%s]", pos.Filename, pos.Line, c.name, fmt.Sprintf(format, a...), src(c.p, n))
}

var leanKeywords = map[string]bool{"end": true, "from": true, "at": true, "in": true, "do": true, "then": true, "else": true,
	"if": true, "fun": true, "let": true, "have": true, "show": true, "open": true, "local": true, "where": true,
	"with": true, "match": true, "by": true, "Type": true, "Prop": true, "def": true, "theorem": true, "instance": true}

func leanName(s string) string {
	if leanKeywords[s] {
		return s + "_"
	}
	return s
}

func (c *ctx) useFree(name string, k kind) string {
	name = leanName(name)
	if old, ok := c.free[name]; ok && old != k {
		fail("%s: free variable %s used at two types", c.name, name)
	}
	c.free[name] = k
	return name
}

// constValue evaluates a constant expression; ok=false when the expression is not constant.
func (c *ctx) constValue(p *pkg, e ast.Expr, iota int64) (v *big.Int, k kind, untyped bool, ok bool) {
	switch e := e.(type) {
	case *ast.BasicLit:
		if e.Kind == token.INT {
			n, good := new(big.Int).SetString(e.Value, 0)
			if !good {
				return nil, kind{}, false, false
			}
			return n, kind{}, true, true
		}
		if e.Kind == token.CHAR {
			r := []rune(strings.Trim(e.Value, "'"))
			if len(r) == 1 {
				return big.NewInt(int64(r[0])), kind{}, true, true
			}
		}
		return nil, kind{}, false, false
	case *ast.ParenExpr:
		return c.constValue(p, e.X, iota)
	case *ast.Ident:
		if e.Name == "iota" && iota >= 0 {
			return big.NewInt(iota), kind{}, true, true
		}
		if c != nil && p == c.p {
			if _, shadow := c.env[e.Name]; shadow {
				return nil, kind{}, false, false
			}
		}
		if d, found := p.consts[e.Name]; found {
			v, k, ut, ok := c.constValue(p, d.expr, d.iota)
			if !ok {
				return nil, kind{}, false, false
			}
			if d.typ != nil {
				tk, st, _, good := resolveType(p, d.typ)
				if !good || st != nil {
					return nil, kind{}, false, false
				}
				return v, tk, false, true
			}
			return v, k, ut, true
		}
		return nil, kind{}, false, false
	case *ast.SelectorExpr:
		if x, isId := e.X.(*ast.Ident); isId {
			if dir, imp := p.imports[x.Name]; imp {
				q := loadPkg(dir)
				return c.constValue(q, &ast.Ident{Name: e.Sel.Name}, -1)
			}
		}
		return nil, kind{}, false, false
	case *ast.CallExpr:
		if len(e.Args) != 1 {
			return nil, kind{}, false, false
		}
		tk, st, _, isType := resolveType(p, e.Fun)
		if !isType || st != nil || tk.isBool {
			return nil, kind{}, false, false
		}
		v, _, _, ok := c.constValue(p, e.Args[0], iota)
		if !ok {
			return nil, kind{}, false, false
		}
		if !fits(v, tk) {
			fail("constant %s overflows its type", src(p, e))
		}
		return v, tk, false, true
	case *ast.UnaryExpr:
		v, k, ut, ok := c.constValue(p, e.X, iota)
		if !ok {
			return nil, kind{}, false, false
		}
		switch e.Op {
		case token.SUB:
			return new(big.Int).Neg(v), k, ut, true
		case token.ADD:
			return v, k, ut, true
		case token.XOR:
			if ut || k.signed {
				return new(big.Int).Not(v), k, ut, true
			}
			m := new(big.Int).Sub(new(big.Int).Lsh(big.NewInt(1), uint(k.w)), big.NewInt(1))
			return new(big.Int).Xor(v, m), k, ut, true
		}
		return nil, kind{}, false, false
	case *ast.BinaryExpr:
		a, ka, ua, ok1 := c.constValue(p, e.X, iota)
		b, kb, ub, ok2 := c.constValue(p, e.Y, iota)
		if !ok1 || !ok2 {
			return nil, kind{}, false, false
		}
		k, ut := ka, ua
		if e.Op != token.SHL && e.Op != token.SHR && ua && !ub {
			k, ut = kb, false
		}
		r := new(big.Int)
		switch e.Op {
		case token.ADD:
			r.Add(a, b)
		case token.SUB:
			r.Sub(a, b)
		case token.MUL:
			r.Mul(a, b)
		case token.AND:
			r.And(a, b)
		case token.OR:
			r.Or(a, b)
		case token.XOR:
			r.Xor(a, b)
		case token.AND_NOT:
			r.AndNot(a, b)
		case token.SHL:
			r.Lsh(a, uint(b.Int64()))
		case token.SHR:
			r.Rsh(a, uint(b.Int64()))
		default:
			return nil, kind{}, false, false
		}
		if !ut && !fits(r, k) {
			fail("constant expression %s overflows its type", src(p, e))
		}
		return r, k, ut, true
	}
	return nil, kind{}, false, false
}

// typeOf: static kind of an expression; typed=false for untyped constant expressions (incl. `1 << n`).
func (c *ctx) typeOf(e ast.Expr) (kind, bool) {
	if _, k, ut, ok := c.constValue(c.p, e, -1); ok {
		return k, !ut
	}
	switch e := e.(type) {
	case *ast.ParenExpr:
		return c.typeOf(e.X)
	case *ast.Ident:
		if v, ok := c.env[e.Name]; ok {
			return v.k, true
		}
		if c.lenient {
			if spec, ok := c.opaque[e.Name]; ok {
				return c.opaqueKind(spec), true
			}
		}
	case *ast.SelectorExpr:
		if spec, ok := c.opaque[src(c.p, e)]; ok {
			return c.opaqueKind(spec), true
		}
		if k, ok := c.fieldKind(e); ok {
			return k, true
		}
	case *ast.CallExpr:
		if spec, ok := c.opaque[src(c.p, e)]; ok {
			return c.opaqueKind(spec), true
		}
		if k, st, _, ok := resolveType(c.p, e.Fun); ok && st == nil {
			return k, true
		}
	case *ast.UnaryExpr:
		if e.Op == token.NOT {
			return kind{isBool: true}, true
		}
		return c.typeOf(e.X)
	case *ast.BinaryExpr:
		switch e.Op {
		case token.SHL, token.SHR:
			return c.typeOf(e.X)
		case token.EQL, token.NEQ, token.LSS, token.LEQ, token.GTR, token.GEQ, token.LAND, token.LOR:
			return kind{isBool: true}, true
		}
		if k, ok := c.typeOf(e.X); ok {
			return k, true
		}
		return c.typeOf(e.Y)
	}
	return kind{}, false
}

func (c *ctx) opaqueKind(spec string) kind {
	parts := strings.SplitN(spec, ":", 2)
	k, ok := builtin[parts[1]]
	if !ok {
		fail("%s: bad opaque type %s", c.name, spec)
	}
	return k
}

func (c *ctx) fieldKind(e *ast.SelectorExpr) (kind, bool) {
	// x.F or x.A.F where x is a struct-typed parameter / receiver
	path := []string{e.Sel.Name}
	cur := e.X
	for {
		if s, ok := cur.(*ast.SelectorExpr); ok {
			path = append([]string{s.Sel.Name}, path...)
			cur = s.X
			continue
		}
		break
	}
	id, ok := cur.(*ast.Ident)
	if !ok {
		return kind{}, false
	}
	si, ok := c.structs[id.Name]
	if !ok {
		return kind{}, false
	}
	st, p := si.st, si.p
	for i, f := range path {
		var ft ast.Expr
		for _, fld := range st.Fields.List {
			for _, nm := range fld.Names {
				if nm.Name == f {
					ft = fld.Type
				}
			}
		}
		if ft == nil {
			return kind{}, false
		}
		k, st2, p2, ok := resolveType(p, ft)
		if !ok {
			return kind{}, false
		}
		if i == len(path)-1 {
			if st2 != nil {
				return kind{}, false
			}
			return k, true
		}
		if st2 == nil {
			return kind{}, false
		}
		st, p = st2, p2
	}
	return kind{}, false
}

func (c *ctx) materialise(n ast.Node, v val, want *kind) (string, kind) {
	if v.c != nil {
		k := v.k
		if v.untyped {
			if want == nil {
				c.errorf(n, "untyped constant without a type context")
			}
			k = *want
		}
		if k.isBool {
			c.errorf(n, "boolean constant")
		}
		if !fits(v.c, k) {
			c.errorf(n, "constant %s does not fit %s", v.c, k.lean())
		}
		return "(" + lit(v.c, k) + ")", k
	}
	return v.term, v.k
}

// tr translates an expression; `want` is the type an untyped constant operand would assume.
func (c *ctx) tr(e ast.Expr, want *kind) val {
	if v, k, ut, ok := c.constValue(c.p, e, -1); ok {
		return val{c: v, k: k, untyped: ut}
	}
	switch e := e.(type) {
	case *ast.ParenExpr:
		return c.tr(e.X, want)
	case *ast.Ident:
		if v, ok := c.env[e.Name]; ok {
			if c.lenient && c.assigns[e.Name] > 1 {
				c.errorf(e, "variable %s is assigned %d times (assign mode needs single assignment)", e.Name, c.assigns[e.Name])
			}
			return val{term: v.term, k: v.k}
		}
		if c.lenient {
			if spec, ok := c.opaque[e.Name]; ok {
				if c.assigns[e.Name] != 1 {
					c.errorf(e, "opaque local %s must be assigned exactly once", e.Name)
				}
				k := c.opaqueKind(spec)
				return val{term: c.useFree(strings.SplitN(spec, ":", 2)[0], k), k: k}
			}
		}
		c.errorf(e, "unknown identifier")
	case *ast.SelectorExpr:
		s := src(c.p, e)
		if spec, ok := c.opaque[s]; ok {
			k := c.opaqueKind(spec)
			return val{term: c.useFree(strings.SplitN(spec, ":", 2)[0], k), k: k}
		}
		if k, ok := c.fieldKind(e); ok {
			if c.assigns[s] > 0 && !c.lenient {
				c.errorf(e, "struct field is assigned in the function")
			}
			return val{term: c.useFree(strings.ReplaceAll(s, ".", "_"), k), k: k}
		}
		c.errorf(e, "unsupported selector")
	case *ast.CallExpr:
		s := src(c.p, e)
		if spec, ok := c.opaque[s]; ok {
			k := c.opaqueKind(spec)
			return val{term: c.useFree(strings.SplitN(spec, ":", 2)[0], k), k: k}
		}
		tk, st, _, isType := resolveType(c.p, e.Fun)
		if !isType || st != nil || len(e.Args) != 1 || tk.isBool {
			c.errorf(e, "unsupported call (only integer conversions and declared opaque expressions)")
		}
		x := c.tr(e.Args[0], &tk)
		if x.c != nil {
			if !fits(x.c, tk) {
				c.errorf(e, "constant conversion overflows")
			}
			return val{c: x.c, k: tk}
		}
		if x.k.isBool {
			c.errorf(e, "conversion of a boolean")
		}
		switch {
		case x.k.w == tk.w:
			return val{term: x.term, k: tk}
		case x.k.w < tk.w && x.k.signed:
			return val{term: fmt.Sprintf("(BitVec.signExtend %d %s)", tk.w, x.term), k: tk}
		default: // zero-extension of an unsigned source, or truncation
			return val{term: fmt.Sprintf("(BitVec.setWidth %d %s)", tk.w, x.term), k: tk}
		}
	case *ast.UnaryExpr:
		if e.Op == token.NOT {
			x := c.tr(e.X, nil)
			return val{term: "(!" + x.term + ")", k: kind{isBool: true}}
		}
		x := c.tr(e.X, want)
		t, k := c.materialise(e.X, x, want)
		switch e.Op {
		case token.SUB:
			return val{term: "(-" + t + ")", k: k}
		case token.XOR:
			return val{term: "(~~~" + t + ")", k: k}
		case token.ADD:
			return val{term: t, k: k}
		}
		c.errorf(e, "unsupported unary operator")
	case *ast.BinaryExpr:
		switch e.Op {
		case token.SHL, token.SHR:
			x := c.tr(e.X, want)
			xt, xk := c.materialise(e.X, x, want)
			if xk.isBool {
				c.errorf(e, "shift of a boolean")
			}
			y := c.tr(e.Y, nil)
			var yt string
			if y.c != nil {
				if y.c.Sign() < 0 {
					c.errorf(e, "negative shift count")
				}
				yt = y.c.String() // Nat literal
			} else {
				yt = y.term // BitVec count: `x <<< y` = `x <<< y.toNat` (Go: count ≥ width gives 0 / sign fill; negative signed counts panic — outside the modelled domain)
			}
			switch {
			case e.Op == token.SHL:
				return val{term: fmt.Sprintf("(%s <<< %s)", xt, yt), k: xk}
			case xk.signed && y.c != nil:
				return val{term: fmt.Sprintf("(BitVec.sshiftRight %s %s)", xt, yt), k: xk}
			case xk.signed:
				return val{term: fmt.Sprintf("(BitVec.sshiftRight' %s %s)", xt, yt), k: xk}
			default:
				return val{term: fmt.Sprintf("(%s >>> %s)", xt, yt), k: xk}
			}
		case token.LAND, token.LOR:
			x, y := c.tr(e.X, nil), c.tr(e.Y, nil)
			op := map[token.Token]string{token.LAND: "&&", token.LOR: "||"}[e.Op]
			return val{term: fmt.Sprintf("(%s %s %s)", x.term, op, y.term), k: kind{isBool: true}}
		}
		// the operand type: the typed side decides, untyped constants adapt (Go spec, "Operators")
		var kk *kind
		if k, ok := c.typeOf(e.X); ok {
			kk = &k
		} else if k, ok := c.typeOf(e.Y); ok {
			kk = &k
		} else {
			kk = want
		}
		isCmp := false
		switch e.Op {
		case token.EQL, token.NEQ, token.LSS, token.LEQ, token.GTR, token.GEQ:
			isCmp = true
		}
		x, y := c.tr(e.X, kk), c.tr(e.Y, kk)
		xt, xk := c.materialise(e.X, x, kk)
		yt, yk := c.materialise(e.Y, y, kk)
		if xk != yk {
			c.errorf(e, "operands of different types %s / %s", xk.lean(), yk.lean())
		}
		if isCmp {
			var t string
			switch e.Op {
			case token.EQL:
				t = fmt.Sprintf("(%s == %s)", xt, yt)
			case token.NEQ:
				t = fmt.Sprintf("(%s != %s)", xt, yt)
			default:
				if xk.isBool {
					c.errorf(e, "ordering of booleans")
				}
				f := map[bool]map[token.Token]string{
					false: {token.LSS: "BitVec.ult %s %s", token.LEQ: "BitVec.ule %s %s", token.GTR: "BitVec.ult %[2]s %[1]s", token.GEQ: "BitVec.ule %[2]s %[1]s"},
					true:  {token.LSS: "BitVec.slt %s %s", token.LEQ: "BitVec.sle %s %s", token.GTR: "BitVec.slt %[2]s %[1]s", token.GEQ: "BitVec.sle %[2]s %[1]s"},
				}[xk.signed][e.Op]
				t = "(" + fmt.Sprintf(f, xt, yt) + ")"
			}
			return val{term: t, k: kind{isBool: true}}
		}
		if xk.isBool {
			c.errorf(e, "arithmetic on booleans")
		}
		op, ok := map[token.Token]string{token.ADD: "+", token.SUB: "-", token.MUL: "*", token.AND: "&&&", token.OR: "|||", token.XOR: "^^^"}[e.Op]
		if e.Op == token.AND_NOT {
			return val{term: fmt.Sprintf("(%s &&& ~~~%s)", xt, yt), k: xk}
		}
		if !ok {
			c.errorf(e, "unsupported operator %s", e.Op)
		}
		return val{term: fmt.Sprintf("(%s %s %s)", xt, op, yt), k: xk}
	}
	c.errorf(e, "unsupported expression form %T", e)
	return val{}
}

// ---- symbolic execution (full mode) ------------------------------------------------------------

type tree struct {
	cond       string
	then, els  *tree
	rets       []string // leaf: returned terms
	kinds      []kind
	panics     bool
	incomplete bool
}

func copyEnv(m map[string]variable) map[string]variable {
	n := make(map[string]variable, len(m))
	for k, v := range m {
		n[k] = v
	}
	return n
}

var assignOps = map[token.Token]token.Token{token.ADD_ASSIGN: token.ADD, token.SUB_ASSIGN: token.SUB, token.MUL_ASSIGN: token.MUL,
	token.AND_ASSIGN: token.AND, token.OR_ASSIGN: token.OR, token.XOR_ASSIGN: token.XOR, token.SHL_ASSIGN: token.SHL,
	token.SHR_ASSIGN: token.SHR, token.AND_NOT_ASSIGN: token.AND_NOT}

func (c *ctx) execAssign(s *ast.AssignStmt) {
	if len(s.Lhs) != len(s.Rhs) {
		c.errorf(s, "unsupported multi-value assignment")
	}
	type upd struct {
		name string
		v    variable
	}
	var ups []upd
	for i := range s.Lhs {
		id, ok := s.Lhs[i].(*ast.Ident)
		if !ok {
			c.errorf(s, "assignment to a non-variable")
		}
		var rhs ast.Expr = s.Rhs[i]
		if op, isOp := assignOps[s.Tok]; isOp {
			rhs = &ast.BinaryExpr{X: s.Lhs[i], Op: op, Y: s.Rhs[i], OpPos: s.Pos()}
		} else if s.Tok != token.ASSIGN && s.Tok != token.DEFINE {
			c.errorf(s, "unsupported assignment operator")
		}
		var want *kind
		if old, ok := c.env[id.Name]; ok && s.Tok != token.DEFINE {
			k := old.k
			want = &k
		}
		v := c.tr(rhs, want)
		if v.c != nil && v.untyped && want == nil {
			k := builtin["int"]
			want = &k // `x := 0` declares an int
		}
		t, k := c.materialise(rhs, v, want)
		if old, ok := c.env[id.Name]; ok && s.Tok != token.DEFINE && old.k != k {
			c.errorf(s, "assignment changes the type of %s", id.Name)
		}
		ups = append(ups, upd{id.Name, variable{term: t, k: k}})
	}
	for _, u := range ups {
		if u.name != "_" {
			c.env[u.name] = u.v
		}
	}
}

func (c *ctx) retLeaf(s *ast.ReturnStmt, project [][]string) *tree {
	results := c.fn.Type.Results
	var resTypes []ast.Expr
	if results != nil {
		for _, f := range results.List {
			n := len(f.Names)
			if n == 0 {
				n = 1
			}
			for i := 0; i < n; i++ {
				resTypes = append(resTypes, f.Type)
			}
		}
	}
	t := &tree{}
	if project != nil {
		if len(s.Results) != 1 {
			c.errorf(s, "projection needs a single returned composite literal")
		}
		for _, path := range project {
			e := findField(s.Results[0], path)
			if e == nil {
				c.errorf(s, "returned literal has no field %s", strings.Join(path, "."))
			}
			v := c.tr(e, nil)
			term, k := c.materialise(e, v, nil)
			t.rets = append(t.rets, term)
			t.kinds = append(t.kinds, k)
		}
		return t
	}
	if len(s.Results) != len(resTypes) {
		c.errorf(s, "return arity mismatch")
	}
	for i, e := range s.Results {
		k, st, _, ok := resolveType(c.p, resTypes[i])
		if !ok || st != nil {
			c.errorf(s, "non-integer result type")
		}
		v := c.tr(e, &k)
		term, vk := c.materialise(e, v, &k)
		if vk != k {
			c.errorf(e, "returned value has type %s, declared %s", vk.lean(), k.lean())
		}
		t.rets = append(t.rets, term)
		t.kinds = append(t.kinds, k)
	}
	return t
}

func findField(e ast.Expr, path []string) ast.Expr {
	if len(path) == 0 {
		return e
	}
	switch x := e.(type) {
	case *ast.UnaryExpr:
		if x.Op == token.AND {
			return findField(x.X, path)
		}
	case *ast.ParenExpr:
		return findField(x.X, path)
	case *ast.CompositeLit:
		for _, el := range x.Elts {
			if kv, ok := el.(*ast.KeyValueExpr); ok {
				if id, ok := kv.Key.(*ast.Ident); ok && id.Name == path[0] {
					return findField(kv.Value, path[1:])
				}
			}
		}
	}
	return nil
}

// exec runs the statements, then the continuation `rest` (statements following the enclosing block).
func (c *ctx) exec(stmts []ast.Stmt, rest [][]ast.Stmt, project [][]string) *tree {
	for i, s := range stmts {
		after := append([][]ast.Stmt{stmts[i+1:]}, rest...)
		switch s := s.(type) {
		case *ast.ReturnStmt:
			return c.retLeaf(s, project)
		case *ast.ExprStmt:
			if call, ok := s.X.(*ast.CallExpr); ok {
				if id, ok := call.Fun.(*ast.Ident); ok && id.Name == "panic" {
					return &tree{panics: true}
				}
			}
			c.errorf(s, "unsupported statement")
		case *ast.AssignStmt:
			c.execAssign(s)
		case *ast.DeclStmt:
			gd, ok := s.Decl.(*ast.GenDecl)
			if !ok || gd.Tok != token.VAR {
				c.errorf(s, "unsupported declaration")
			}
			for _, sp := range gd.Specs {
				vs := sp.(*ast.ValueSpec)
				if vs.Type == nil || len(vs.Values) != 0 {
					c.errorf(s, "only `var x T` is supported")
				}
				k, st, _, ok := resolveType(c.p, vs.Type)
				if !ok || st != nil || k.isBool {
					c.errorf(s, "non-integer variable")
				}
				for _, nm := range vs.Names {
					c.env[nm.Name] = variable{term: "(" + lit(big.NewInt(0), k) + ")", k: k}
				}
			}
		case *ast.BlockStmt:
			return c.exec(s.List, after, project)
		case *ast.IfStmt:
			saved := c.env
			c.env = copyEnv(saved)
			if s.Init != nil {
				as, ok := s.Init.(*ast.AssignStmt)
				if !ok {
					c.errorf(s, "unsupported if-initialiser")
				}
				c.execAssign(as)
			}
			cond := c.tr(s.Cond, nil)
			if cond.c != nil || !cond.k.isBool {
				c.errorf(s.Cond, "condition is not a boolean expression")
			}
			envAtCond := c.env
			c.env = copyEnv(envAtCond)
			th := c.exec(s.Body.List, after, project)
			c.env = copyEnv(envAtCond)
			var el *tree
			switch e := s.Else.(type) {
			case nil:
				el = c.exec(nil, after, project)
			case *ast.BlockStmt:
				el = c.exec(e.List, after, project)
			case *ast.IfStmt:
				el = c.exec([]ast.Stmt{e}, after, project)
			default:
				c.errorf(s, "unsupported else")
			}
			c.env = saved
			return &tree{cond: cond.term, then: th, els: el}
		case *ast.SwitchStmt:
			if s.Init != nil || s.Tag == nil {
				c.errorf(s, "only `switch tag { case const: … }` is supported")
			}
			tk, ok := c.typeOf(s.Tag)
			if !ok {
				c.errorf(s, "untyped switch tag")
			}
			tag := c.tr(s.Tag, nil)
			tagT, _ := c.materialise(s.Tag, tag, &tk)
			var def *ast.CaseClause
			type arm struct {
				cond string
				body []ast.Stmt
			}
			var arms []arm
			for _, cl := range s.Body.List {
				cc := cl.(*ast.CaseClause)
				for _, st := range cc.Body {
					if b, ok := st.(*ast.BranchStmt); ok {
						c.errorf(b, "break/fallthrough in switch is not supported")
					}
				}
				if cc.List == nil {
					def = cc
					continue
				}
				var conds []string
				for _, ce := range cc.List {
					v := c.tr(ce, &tk)
					if v.c == nil {
						c.errorf(ce, "case label is not constant")
					}
					t, _ := c.materialise(ce, v, &tk)
					conds = append(conds, fmt.Sprintf("(%s == %s)", tagT, t))
				}
				arms = append(arms, arm{strings.Join(conds, " || "), cc.Body})
			}
			saved := c.env
			var build func(i int) *tree
			build = func(i int) *tree {
				c.env = copyEnv(saved)
				if i == len(arms) {
					if def != nil {
						return c.exec(def.Body, after, project)
					}
					return c.exec(nil, after, project)
				}
				th := c.exec(arms[i].body, after, project)
				el := build(i + 1)
				return &tree{cond: "(" + arms[i].cond + ")", then: th, els: el}
			}
			t := build(0)
			c.env = saved
			return t
		default:
			c.errorf(s, "unsupported statement %T", s)
		}
	}
	if len(rest) > 0 {
		return c.exec(rest[0], rest[1:], project)
	}
	return &tree{incomplete: true}
}

func (t *tree) walk(f func(*tree)) {
	if t == nil {
		return
	}
	if t.then != nil {
		t.then.walk(f)
		t.els.walk(f)
		return
	}
	f(t)
}

func (t *tree) render(opt bool, indent string) string {
	if t.then != nil {
		return fmt.Sprintf("if %s then\n%s  %s\n%selse\n%s  %s", t.cond, indent, t.then.render(opt, indent+"  "), indent, indent, t.els.render(opt, indent+"  "))
	}
	if t.panics {
		return "none"
	}
	r := strings.Join(t.rets, ", ")
	if len(t.rets) > 1 {
		r = "(" + r + ")"
	}
	if opt {
		return "some " + paren(r)
	}
	return r
}

func paren(s string) string {
	if strings.HasPrefix(s, "(") {
		return s
	}
	return "(" + s + ")"
}

// ---- targets ----------------------------------------------------------------------------------

type target struct {
	dir     string
	fn      string
	lean    string
	mode    string // "full" | "assign"
	lhs     string // assign mode: source text of the assigned variable / field
	project [][]string
	opaque  map[string]string
	doc     string
}

var targets = []target{
	{dir: "encoding", fn: "ZigzagEncode", lean: "ZigzagEncode", mode: "full"},
	{dir: "encoding", fn: "ZigzagDecode", lean: "ZigzagDecode", mode: "full"},
	{dir: "renderer", fn: "zigzagEncode", lean: "rendererZigzagEncode", mode: "full"},
	{dir: "renderer", fn: "zigzagDecode", lean: "rendererZigzagDecode", mode: "full"},
	{dir: "ingest/compact", fn: "CombineTypeAndNamespace", lean: "CombineTypeAndNamespace", mode: "full"},
	{dir: "ingest/compact", fn: "TypeAndNamespace.Split", lean: "TypeAndNamespace_Split", mode: "full"},
	{dir: "ingest/compact", fn: "EncodeValueType", lean: "EncodeValueType", mode: "full"},
	{dir: "ingest/compact", fn: "DecodeValue", lean: "DecodeValue_value", mode: "assign", lhs: "return#0",
		opaque: map[string]string{"v": "v:uint64"}},
	{dir: "ingest/compact", fn: "EncodeGeometry", lean: "EncodeGeometry", mode: "full"},
	{dir: "ingest/compact", fn: "DecodeGeometryLen", lean: "DecodeGeometryLen", mode: "full"},
	{dir: "ingest/compact", fn: "DecodeGeometryEncoding", lean: "DecodeGeometryEncoding", mode: "full"},
	{dir: "encoding", fn: "uint64MapBucketHeader.Marshal", lean: "Header_Marshal_idAndTag", mode: "assign", lhs: "idAndTag"},
	{dir: "encoding", fn: "uint64MapBucketHeader.Unmarshal", lean: "Header_Unmarshal_Tag", mode: "assign", lhs: "u.Tag",
		opaque: map[string]string{"idAndTag": "idAndTag:uint64"}},
	{dir: "encoding", fn: "uint64MapBucketHeader.Unmarshal", lean: "Header_Unmarshal_ID", mode: "assign", lhs: "u.ID",
		opaque: map[string]string{"idAndTag": "idAndTag:uint64"}},
	{dir: "encoding", fn: "Uint64MapLayout.BucketForID", lean: "BucketForID", mode: "full"},
	{dir: "encoding", fn: "NewUint64MapBuilder", lean: "NewUint64MapBuilder_Layout", mode: "full",
		project: [][]string{{"Layout", "BucketBits"}, {"Layout", "TagBits"}}},
	{dir: ".", fn: "TileIDFromXYZ", lean: "TileIDFromXYZ", mode: "full"},
	{dir: ".", fn: "TileID.ToXYZ", lean: "TileID_ToXYZ", mode: "full"},
	{dir: "ingest", fn: "NewLatLngID", lean: "NewLatLngID_id", mode: "assign", lhs: "id",
		opaque: map[string]string{"ll.Lat.E7()": "latE7:int32", "ll.Lng.E7()": "lngE7:int32"}},
	{dir: "ingest", fn: "LatLngFromID", lean: "LatLngFromID_latE7", mode: "assign", lhs: "latE7"},
	{dir: "ingest", fn: "LatLngFromID", lean: "LatLngFromID_lngE7", mode: "assign", lhs: "lngE7"},
}

// constants the hand-written string models (postcode, ONS) and the builder theorem depend on
var constTargets = []struct{ dir, name string }{
	{"ingest/compact", "ValueTypeBits"}, {".", "tileIDZBits"}, {".", "FeatureTypeBits"},
	{".", "gbPostcodeElementBits"}, {".", "gbPostcodeMinLength"}, {".", "gbPostcodeMaxLength"}, {".", "gbPostcodeLengthBits"},
	{".", "ukONSCodeShift"}, {".", "ukONSYearShift"}, {".", "ukONSYearMask"}, {".", "ukONSLetterMask"}, {".", "ukONSNumberMask"},
	{"ingest/compact", "GeometryEncodingReferences"}, {"ingest/compact", "GeometryEncodingLatLngs"}, {"ingest/compact", "GeometryEncodingMixed"},
	{".", "FeatureTypePoint"}, {".", "FeatureTypePath"}, {".", "FeatureTypeArea"}, {".", "FeatureTypeRelation"}, {".", "FeatureTypeInvalid"},
}

func newCtx(p *pkg, fn *ast.FuncDecl, t target) *ctx {
	c := &ctx{p: p, fn: fn, name: t.lean, env: map[string]variable{}, structs: map[string]structInfo{}, opaque: t.opaque,
		free: map[string]kind{}, assigns: map[string]int{}, lenient: t.mode == "assign"}
	if c.opaque == nil {
		c.opaque = map[string]string{}
	}
	add := func(f *ast.Field) {
		k, st, sp, ok := resolveType(p, f.Type)
		for _, nm := range f.Names {
			switch {
			case ok && st != nil:
				c.structs[nm.Name] = structInfo{st, sp}
			case ok && !k.isBool:
				c.env[nm.Name] = variable{term: leanName(nm.Name), k: k}
				c.params = append(c.params, nm.Name)
			}
		}
	}
	if fn.Recv != nil {
		for _, f := range fn.Recv.List {
			add(f)
		}
	}
	for _, f := range fn.Type.Params.List {
		add(f)
	}
	ast.Inspect(fn.Body, func(n ast.Node) bool {
		switch s := n.(type) {
		case *ast.AssignStmt:
			for _, l := range s.Lhs {
				c.assigns[src(p, l)]++
			}
		case *ast.IncDecStmt:
			c.assigns[src(p, s.X)]++
		case *ast.RangeStmt:
			if s.Key != nil {
				c.assigns[src(p, s.Key)] += 2
			}
			if s.Value != nil {
				c.assigns[src(p, s.Value)] += 2
			}
		case *ast.UnaryExpr:
			if s.Op == token.AND {
				c.assigns[src(p, s.X)] += 2 // address taken: not single-assignment
			}
		}
		return true
	})
	return c
}

type gen struct {
	t      target
	sig    string
	body   string
	source string
	pos    string
}

func usedWord(body, name string) bool {
	isId := func(r byte) bool {
		return r == '_' || r == '\'' || (r >= '0' && r <= '9') || (r >= 'a' && r <= 'z') || (r >= 'A' && r <= 'Z')
	}
	for i := 0; i+len(name) <= len(body); i++ {
		if body[i:i+len(name)] == name && (i == 0 || !isId(body[i-1])) && (i+len(name) == len(body) || !isId(body[i+len(name)])) {
			return true
		}
	}
	return false
}

func translate(t target) gen {
	p := loadPkg(t.dir)
	fn, ok := p.funcs[t.fn]
	if !ok || fn.Body == nil {
		fail("function %s not found in %s", t.fn, t.dir)
	}
	c := newCtx(p, fn, t)
	var body, resType, source string
	switch t.mode {
	case "full":
		tr := c.exec(fn.Body.List, nil, t.project)
		opt, bad := false, false
		var kinds []kind
		tr.walk(func(l *tree) {
			if l.panics {
				opt = true
			} else if l.incomplete {
				bad = true
			} else if kinds == nil {
				kinds = l.kinds
			} else if fmt.Sprint(kinds) != fmt.Sprint(l.kinds) {
				bad = true
			}
		})
		if bad || kinds == nil {
			fail("%s: a path ends without return, or returns differ in type", t.lean)
		}
		var ks []string
		for _, k := range kinds {
			ks = append(ks, k.lean())
		}
		resType = strings.Join(ks, " × ")
		if opt {
			resType = "Option (" + resType + ")"
		}
		body = tr.render(opt, "  ")
		source = src(p, fn.Body)
	case "assign":
		var rhs ast.Expr
		var want *kind
		n := 0
		if strings.HasPrefix(t.lhs, "return#") {
			idx := int(t.lhs[len("return#")] - '0')
			ast.Inspect(fn.Body, func(nd ast.Node) bool {
				if r, ok := nd.(*ast.ReturnStmt); ok {
					n++
					if idx < len(r.Results) {
						rhs = r.Results[idx]
					}
				}
				return true
			})
		} else {
			ast.Inspect(fn.Body, func(nd ast.Node) bool {
				if as, ok := nd.(*ast.AssignStmt); ok {
					for i, l := range as.Lhs {
						if src(p, l) == t.lhs {
							n++
							if len(as.Lhs) == len(as.Rhs) && (as.Tok == token.ASSIGN || as.Tok == token.DEFINE) {
								rhs = as.Rhs[i]
							}
							if se, ok := l.(*ast.SelectorExpr); ok {
								if k, ok := c.fieldKind(se); ok {
									want = &k
								}
							}
						}
					}
				}
				return true
			})
		}
		if n != 1 || rhs == nil {
			fail("%s: expected exactly one plain assignment to %s in %s, found %d", t.lean, t.lhs, t.fn, n)
		}
		// bind single-assignment integer locals defined by translatable expressions, in source order
		ast.Inspect(fn.Body, func(nd ast.Node) bool {
			if as, ok := nd.(*ast.AssignStmt); ok && as.Tok == token.DEFINE && len(as.Lhs) == len(as.Rhs) {
				for i, l := range as.Lhs {
					id, ok := l.(*ast.Ident)
					if !ok || c.assigns[id.Name] != 1 || src(p, l) == t.lhs {
						continue
					}
					if _, isOpaque := c.opaque[id.Name]; isOpaque {
						continue
					}
					if k, typed := c.typeOf(as.Rhs[i]); typed && !k.isBool && translatable(c, as.Rhs[i]) {
						v := c.tr(as.Rhs[i], nil)
						term, kk := c.materialise(as.Rhs[i], v, &k)
						c.env[id.Name] = variable{term: term, k: kk}
					}
				}
			}
			return true
		})
		v := c.tr(rhs, want)
		if v.c != nil && v.untyped && want == nil {
			fail("%s: extracted expression is an untyped constant", t.lean)
		}
		term, k := c.materialise(rhs, v, want)
		body, resType, source = term, k.lean(), t.lhs+" = "+src(p, rhs)
	default:
		fail("bad mode")
	}
	// signature: referenced integer parameters in declared order, then the other free variables sorted
	var sig []string
	seen := map[string]bool{}
	for _, pn := range c.params {
		ln := leanName(pn)
		if usedWord(body, ln) {
			sig = append(sig, fmt.Sprintf("(%s : %s)", ln, c.env[pn].k.lean()))
			seen[ln] = true
		}
	}
	var fv []string
	for n := range c.free {
		if !seen[n] {
			fv = append(fv, n)
		}
	}
	sort.Strings(fv)
	for _, n := range fv {
		sig = append(sig, fmt.Sprintf("(%s : %s)", n, c.free[n].lean()))
	}
	pos := p.fset.Position(fn.Pos())
	rel, _ := filepath.Rel(repo, pos.Filename)
	return gen{t: t, sig: strings.Join(sig, " ") + " : " + resType, body: body, source: source, pos: rel + ":" + t.fn}
}

// translatable reports whether tr would succeed (used only to decide which helper locals to bind).
func translatable(c *ctx, e ast.Expr) bool {
	ok := true
	ast.Inspect(e, func(n ast.Node) bool {
		switch x := n.(type) {
		case *ast.CallExpr:
			if _, isOpaque := c.opaque[src(c.p, x)]; isOpaque {
				return false
			}
			if _, st, _, isType := resolveType(c.p, x.Fun); !isType || st != nil {
				ok = false
			}
		case *ast.SelectorExpr:
			if _, isOpaque := c.opaque[src(c.p, x)]; isOpaque {
				return false
			}
			if _, good := c.fieldKind(x); !good {
				if _, _, _, isConst := c.constValue(c.p, x, -1); !isConst {
					if _, _, _, isType := resolveType(c.p, x); !isType {
						ok = false
					}
				}
			}
			return false
		case *ast.Ident:
			if _, known := c.env[x.Name]; !known {
				if _, isOpaque := c.opaque[x.Name]; !isOpaque {
					if _, _, _, isConst := c.constValue(c.p, x, -1); !isConst {
						if _, _, _, isType := resolveType(c.p, x); !isType {
							ok = false
						}
					}
				}
			}
		case *ast.IndexExpr, *ast.SliceExpr, *ast.CompositeLit, *ast.FuncLit, *ast.TypeAssertExpr, *ast.StarExpr:
			ok = false
		case *ast.BasicLit:
			if x.Kind != token.INT && x.Kind != token.CHAR {
				ok = false
			}
		}
		return ok
	})
	return ok
}

// tagBits map of ingest/compact/build.go: `var tagBits = map[b6.FeatureType]int{ b6.FeatureTypePoint: 2, … }`
func tagBitsTable() []string {
	p := loadPkg("ingest/compact")
	e, ok := p.vars["tagBits"]
	if !ok {
		fail("ingest/compact: var tagBits not found")
	}
	cl, ok := e.(*ast.CompositeLit)
	if !ok {
		fail("ingest/compact: tagBits is not a composite literal")
	}
	c := &ctx{p: p, name: "tagBits", env: map[string]variable{}}
	var rows []string
	for _, el := range cl.Elts {
		kv, ok := el.(*ast.KeyValueExpr)
		if !ok {
			fail("tagBits: unsupported element")
		}
		k, _, _, ok1 := c.constValue(p, kv.Key, -1)
		v, _, _, ok2 := c.constValue(p, kv.Value, -1)
		if !ok1 || !ok2 {
			fail("tagBits: non-constant entry %s", src(p, kv))
		}
		rows = append(rows, fmt.Sprintf("(%s, %s)", k, v))
	}
	return rows
}

func main() {
	out := flag.String("o", "", "output Lean file")
	flag.StringVar(&repo, "repo", "", "b6 module directory (…/src/diagonal.works/b6)")
	flag.Parse()
	if repo == "" || *out == "" {
		fail("usage: go2lean -repo <b6 module dir> -o <Bits.lean>")
	}
	var b strings.Builder
	b.WriteString("/-! GENERATED by /verif/tools/go2lean from the b6 source tree — do not edit.\n")
	b.WriteString("Each definition is the body of the named Go function translated to `BitVec` terms (T2 tie, DESIGN §1.1).\n")
	b.WriteString("Go `int`/`uint` are 64-bit; signed `>>` is `sshiftRight`; conversions extend by the signedness of the source. -/\n")
	b.WriteString("namespace B6.Gen.Bits\n\n")
	for _, ct := range constTargets {
		p := loadPkg(ct.dir)
		c := &ctx{p: p, name: ct.name, env: map[string]variable{}}
		v, _, _, ok := c.constValue(p, &ast.Ident{Name: ct.name}, -1)
		if !ok {
			fail("constant %s not found (or not an integer constant) in %s", ct.name, ct.dir)
		}
		if v.Sign() < 0 {
			fail("constant %s is negative", ct.name)
		}
		fmt.Fprintf(&b, "/-- const %s (%s) -/\ndef %s : Nat := %s\n\n", ct.name, ct.dir, ct.name, v.String())
	}
	fmt.Fprintf(&b, "/-- ingest/compact/build.go: var tagBits (feature type ↦ tag bits) -/\ndef tagBits : List (Nat × Nat) := [%s]\n\n", strings.Join(tagBitsTable(), ", "))
	for _, t := range targets {
		g := translate(t)
		fmt.Fprintf(&b, "/-- %s\n  `%s` -/\ndef %s %s :=\n  %s\n\n", g.pos, strings.ReplaceAll(g.source, "-/", "- /"), t.lean, g.sig, g.body)
	}
	b.WriteString("end B6.Gen.Bits\n")
	if err := os.WriteFile(*out, []byte(b.String()), 0o644); err != nil {
		fail("%v", err)
	}
}
