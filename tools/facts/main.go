// facts — T3 fact extractor (standard library only: go/ast, go/parser, go/token, go/constant).
//
// Re-extracts, from the CURRENT source of the b6 module, the constants and small tables that the hand-written
// Lean models under lean/B6/Model hard-code, and prints them as Lean definitions:
//
//	go run ./facts -repo <b6 module dir> -prop C08 -o lean/B6/Gen/Facts/C08.lean   (one property; what ./check runs)
//	go run ./facts -repo <b6 module dir>            -o lean/B6/Gen/Facts.lean       (every property, one file)
//	go run ./facts -list                                                            (the fact table)
//
// Every fact becomes `def <name> : <type> := <literal>` inside `namespace B6.Gen.Facts.<prop>`, preceded by a
// comment giving the file:line it was read from.  lean/B6/Props/Facts/<prop>.lean states, per fact, that the
// extracted value equals what the model assumes (`rfl` / `decide`), so a changed constant breaks a named
// obligation of the property whose theorems depend on it.
//
// A fact that cannot be found (constant renamed or removed, function gone, pattern no longer matches, match
// ambiguous) is an ERROR: the tool prints every problem and exits non-zero without writing the output file.
//
// The fact table is in table.go; this file is the engine:
//   - a package loader (all non-test, non-`verif`-tagged files of one directory);
//   - a constant evaluator over go/constant (literals, iota, implicit repetition in const blocks, unary/binary
//     operators, shifts, conversions T(x), references to other constants incl. pkg.Name across b6 packages);
//   - a structural pattern matcher for expressions inside one function (`len(points) > HOLE`: identifiers
//     starting with HOLE capture, identifiers starting with ANY match anything);
//   - readers for map / slice composite literals and `switch` tables.
//
// Purely syntactic; no type checking.  Part of the trusted base (DESIGN §3).
package main

import (
	"bytes"
	"flag"
	"fmt"
	"go/ast"
	"go/constant"
	"go/parser"
	"go/printer"
	"go/token"
	"math/big"
	"os"
	"path/filepath"
	"sort"
	"strconv"
	"strings"
)

const modulePath = "diagonal.works/b6"

// ---------------------------------------------------------------------------------------------------------
// errors: a fact that cannot be produced panics with factErr; main recovers per fact.

type factErr struct{ msg string }

func failf(format string, a ...interface{}) { panic(factErr{fmt.Sprintf(format, a...)}) }

// ---------------------------------------------------------------------------------------------------------
// package loader

type constDecl struct {
	name  string
	expr  ast.Expr // nil: no value at all (should not happen after implicit repetition)
	iota  int
	file  *ast.File
	pos   token.Pos
	typ   ast.Expr
	block *ast.GenDecl
	busy  bool
}

type pkg struct {
	dir    string // relative to the module root ("" = root package)
	files  []*ast.File
	consts map[string]*constDecl
	vars   map[string]*ast.ValueSpec
	varFil map[string]*ast.File
	funcs  map[string]*ast.FuncDecl // "Name" or "Recv.Name"
	funFil map[string]*ast.File
	types  map[string]*ast.TypeSpec
}

type ctx struct {
	repo string
	fset *token.FileSet
	pkgs map[string]*pkg
}

func newCtx(repo string) *ctx {
	return &ctx{repo: repo, fset: token.NewFileSet(), pkgs: map[string]*pkg{}}
}

func isVerifTagged(src []byte) bool {
	// hooks are `//go:build verif` files; they are not part of the code under verification
	for _, line := range strings.Split(string(src), "\n") {
		t := strings.TrimSpace(line)
		if strings.HasPrefix(t, "//go:build") || strings.HasPrefix(t, "// +build") {
			return strings.Contains(t, "verif")
		}
		if strings.HasPrefix(t, "package ") {
			return false
		}
	}
	return false
}

func (c *ctx) pkg(dir string) *pkg {
	if p, ok := c.pkgs[dir]; ok {
		return p
	}
	abs := filepath.Join(c.repo, dir)
	ents, err := os.ReadDir(abs)
	if err != nil {
		failf("package directory %s: %v", dir, err)
	}
	p := &pkg{dir: dir, consts: map[string]*constDecl{}, vars: map[string]*ast.ValueSpec{}, varFil: map[string]*ast.File{},
		funcs: map[string]*ast.FuncDecl{}, funFil: map[string]*ast.File{}, types: map[string]*ast.TypeSpec{}}
	var names []string
	for _, e := range ents {
		n := e.Name()
		if e.IsDir() || !strings.HasSuffix(n, ".go") || strings.HasSuffix(n, "_test.go") {
			continue
		}
		names = append(names, n)
	}
	sort.Strings(names)
	for _, n := range names {
		src, err := os.ReadFile(filepath.Join(abs, n))
		if err != nil {
			failf("%s/%s: %v", dir, n, err)
		}
		if isVerifTagged(src) {
			continue
		}
		f, err := parser.ParseFile(c.fset, filepath.Join(abs, n), src, parser.ParseComments)
		if err != nil {
			failf("%s/%s does not parse: %v", dir, n, err)
		}
		p.files = append(p.files, f)
		for _, d := range f.Decls {
			switch d := d.(type) {
			case *ast.FuncDecl:
				key := d.Name.Name
				if r := recvName(d); r != "" {
					key = r + "." + key
				}
				p.funcs[key] = d
				p.funFil[key] = f
			case *ast.GenDecl:
				switch d.Tok {
				case token.CONST:
					var prev *ast.ValueSpec
					for i, s := range d.Specs {
						vs := s.(*ast.ValueSpec)
						eff := vs
						if len(vs.Values) == 0 && prev != nil { // implicit repetition of the previous expression list
							eff = &ast.ValueSpec{Names: vs.Names, Type: prev.Type, Values: prev.Values}
						} else {
							prev = vs
						}
						for j, nm := range vs.Names {
							cd := &constDecl{name: nm.Name, iota: i, file: f, pos: nm.Pos(), typ: eff.Type, block: d}
							if j < len(eff.Values) {
								cd.expr = eff.Values[j]
							}
							p.consts[nm.Name] = cd
						}
					}
				case token.VAR:
					for _, s := range d.Specs {
						vs := s.(*ast.ValueSpec)
						for _, nm := range vs.Names {
							p.vars[nm.Name] = vs
							p.varFil[nm.Name] = f
						}
					}
				case token.TYPE:
					for _, s := range d.Specs {
						ts := s.(*ast.TypeSpec)
						p.types[ts.Name.Name] = ts
					}
				}
			}
		}
	}
	if len(p.files) == 0 {
		failf("package directory %s has no Go files", dir)
	}
	c.pkgs[dir] = p
	return p
}

func recvName(fd *ast.FuncDecl) string {
	if fd.Recv == nil || len(fd.Recv.List) == 0 {
		return ""
	}
	t := fd.Recv.List[0].Type
	for {
		switch x := t.(type) {
		case *ast.StarExpr:
			t = x.X
			continue
		case *ast.IndexExpr:
			t = x.X
			continue
		case *ast.Ident:
			return x.Name
		}
		return ""
	}
}

func (c *ctx) where(pos token.Pos) string {
	p := c.fset.Position(pos)
	rel, err := filepath.Rel(c.repo, p.Filename)
	if err != nil {
		rel = p.Filename
	}
	return fmt.Sprintf("%s:%d", rel, p.Line)
}

func (c *ctx) src(n ast.Node) string {
	var b bytes.Buffer
	printer.Fprint(&b, c.fset, n)
	return strings.Join(strings.Fields(b.String()), " ")
}

// importDir resolves a package qualifier used in file f to a directory of the b6 module ("" if it is not a
// b6 package).
func importDir(f *ast.File, qual string) (string, bool) {
	for _, im := range f.Imports {
		path, _ := strconv.Unquote(im.Path.Value)
		name := path[strings.LastIndex(path, "/")+1:]
		if im.Name != nil {
			name = im.Name.Name
		}
		if name != qual {
			continue
		}
		if path == modulePath {
			return "", true
		}
		if strings.HasPrefix(path, modulePath+"/") {
			return strings.TrimPrefix(path, modulePath+"/"), true
		}
		return "", false
	}
	return "", false
}

func (c *ctx) fn(p *pkg, key string) (*ast.FuncDecl, *ast.File) {
	fd, ok := p.funcs[key]
	if !ok || fd.Body == nil {
		failf("function %s not found in package %q", key, p.dir)
	}
	return fd, p.funFil[key]
}

// ---------------------------------------------------------------------------------------------------------
// constant evaluator

var basicTypes = map[string]bool{"int": true, "int8": true, "int16": true, "int32": true, "int64": true, "uint": true,
	"uint8": true, "uint16": true, "uint32": true, "uint64": true, "uintptr": true, "byte": true, "rune": true,
	"float32": true, "float64": true, "string": true}

func (c *ctx) constOf(p *pkg, name string) (constant.Value, token.Pos) {
	cd, ok := p.consts[name]
	if !ok {
		failf("constant %s not found in package %q", name, p.dir)
	}
	if cd.expr == nil {
		failf("constant %s in package %q has no value expression", name, p.dir)
	}
	if cd.busy {
		failf("constant %s: cyclic definition", name)
	}
	cd.busy = true
	defer func() { cd.busy = false }()
	return c.eval(p, cd.file, cd.expr, cd.iota), cd.pos
}

func (c *ctx) eval(p *pkg, f *ast.File, e ast.Expr, iota int) constant.Value {
	switch e := e.(type) {
	case *ast.BasicLit:
		v := constant.MakeFromLiteral(e.Value, e.Kind, 0)
		if v.Kind() == constant.Unknown {
			failf("%s: cannot read literal %s", c.where(e.Pos()), e.Value)
		}
		return v
	case *ast.ParenExpr:
		return c.eval(p, f, e.X, iota)
	case *ast.Ident:
		switch e.Name {
		case "iota":
			if iota < 0 {
				failf("%s: iota outside a constant declaration", c.where(e.Pos()))
			}
			return constant.MakeInt64(int64(iota))
		case "true":
			return constant.MakeBool(true)
		case "false":
			return constant.MakeBool(false)
		}
		if _, ok := p.consts[e.Name]; ok {
			v, _ := c.constOf(p, e.Name)
			return v
		}
		failf("%s: %s is not a constant of package %q", c.where(e.Pos()), e.Name, p.dir)
	case *ast.SelectorExpr:
		q, ok := e.X.(*ast.Ident)
		if !ok {
			failf("%s: %s is not a constant expression this tool understands", c.where(e.Pos()), c.src(e))
		}
		if q.Name == "math" {
			if v, ok := mathConsts[e.Sel.Name]; ok {
				return v
			}
		}
		dir, ok := importDir(f, q.Name)
		if !ok {
			failf("%s: %s: package %s is not a b6 package", c.where(e.Pos()), c.src(e), q.Name)
		}
		v, _ := c.constOf(c.pkg(dir), e.Sel.Name)
		return v
	case *ast.UnaryExpr:
		x := c.eval(p, f, e.X, iota)
		if e.Op == token.XOR && x.Kind() == constant.Int {
			failf("%s: bitwise complement needs a type; not supported", c.where(e.Pos()))
		}
		return constant.UnaryOp(e.Op, x, 0)
	case *ast.BinaryExpr:
		x := c.eval(p, f, e.X, iota)
		y := c.eval(p, f, e.Y, iota)
		switch e.Op {
		case token.SHL, token.SHR:
			s, ok := constant.Uint64Val(constant.ToInt(y))
			if !ok || s > 4096 {
				failf("%s: bad shift count in %s", c.where(e.Pos()), c.src(e))
			}
			return constant.Shift(constant.ToInt(x), e.Op, uint(s))
		case token.EQL, token.NEQ, token.LSS, token.LEQ, token.GTR, token.GEQ:
			return constant.MakeBool(constant.Compare(x, e.Op, y))
		case token.QUO:
			if x.Kind() == constant.Int && y.Kind() == constant.Int {
				if constant.Sign(y) == 0 {
					failf("%s: division by zero in %s", c.where(e.Pos()), c.src(e))
				}
				return constant.BinaryOp(x, token.QUO_ASSIGN, y) // integer division
			}
		}
		return constant.BinaryOp(x, e.Op, y)
	case *ast.CallExpr:
		// conversion T(x): only the value is kept (the tool does not model wrap-around; conversions in the
		// extracted constants are value-preserving)
		if len(e.Args) == 1 {
			switch t := e.Fun.(type) {
			case *ast.Ident:
				if basicTypes[t.Name] || p.types[t.Name] != nil {
					v := c.eval(p, f, e.Args[0], iota)
					if strings.HasPrefix(t.Name, "int") || strings.HasPrefix(t.Name, "uint") || t.Name == "byte" || t.Name == "rune" {
						if v.Kind() == constant.Float {
							iv := constant.ToInt(v)
							if iv.Kind() != constant.Int {
								failf("%s: %s truncates a non-integer constant", c.where(e.Pos()), c.src(e))
							}
							return iv
						}
					}
					return v
				}
			case *ast.SelectorExpr:
				if q, ok := t.X.(*ast.Ident); ok {
					if dir, ok := importDir(f, q.Name); ok {
						if c.pkg(dir).types[t.Sel.Name] != nil {
							return c.eval(p, f, e.Args[0], iota)
						}
					}
				}
			case *ast.ParenExpr:
				return c.eval(p, f, e.Args[0], iota)
			}
		}
	}
	failf("%s: %s is not a constant expression this tool understands", c.where(e.Pos()), c.src(e))
	return nil
}

var mathConsts = map[string]constant.Value{
	"MaxInt32":  constant.MakeInt64(1<<31 - 1),
	"MaxInt64":  constant.MakeInt64(1<<63 - 1),
	"MaxUint32": constant.MakeUint64(1<<32 - 1),
	"MaxUint64": constant.MakeUint64(1<<64 - 1),
	"MaxInt":    constant.MakeInt64(1<<63 - 1),
}

// ---------------------------------------------------------------------------------------------------------
// pattern matcher

type captures map[string]ast.Node

func isHole(name string) bool { return strings.HasPrefix(name, "HOLE") }
func isAny(name string) bool  { return strings.HasPrefix(name, "ANY") }

func (c *ctx) match(pat, e ast.Expr, caps captures) bool {
	if id, ok := pat.(*ast.Ident); ok {
		if isAny(id.Name) {
			return true
		}
		if isHole(id.Name) {
			if old, ok := caps[id.Name]; ok {
				return c.src(old) == c.src(e)
			}
			caps[id.Name] = e
			return true
		}
	}
	if pp, ok := pat.(*ast.ParenExpr); ok {
		if ep, ok := e.(*ast.ParenExpr); ok {
			return c.match(pp.X, ep.X, caps)
		}
		return false
	}
	switch pat := pat.(type) {
	case *ast.Ident:
		x, ok := e.(*ast.Ident)
		return ok && x.Name == pat.Name
	case *ast.BasicLit:
		x, ok := e.(*ast.BasicLit)
		return ok && x.Kind == pat.Kind && x.Value == pat.Value
	case *ast.BinaryExpr:
		x, ok := e.(*ast.BinaryExpr)
		return ok && x.Op == pat.Op && c.match(pat.X, x.X, caps) && c.match(pat.Y, x.Y, caps)
	case *ast.UnaryExpr:
		x, ok := e.(*ast.UnaryExpr)
		return ok && x.Op == pat.Op && c.match(pat.X, x.X, caps)
	case *ast.StarExpr:
		x, ok := e.(*ast.StarExpr)
		return ok && c.match(pat.X, x.X, caps)
	case *ast.SelectorExpr:
		x, ok := e.(*ast.SelectorExpr)
		return ok && (x.Sel.Name == pat.Sel.Name || isAny(pat.Sel.Name)) && c.match(pat.X, x.X, caps)
	case *ast.IndexExpr:
		x, ok := e.(*ast.IndexExpr)
		return ok && c.match(pat.X, x.X, caps) && c.match(pat.Index, x.Index, caps)
	case *ast.SliceExpr:
		x, ok := e.(*ast.SliceExpr)
		if !ok || (pat.Low == nil) != (x.Low == nil) || (pat.High == nil) != (x.High == nil) || pat.Max != nil || x.Max != nil {
			return false
		}
		return c.match(pat.X, x.X, caps) && (pat.Low == nil || c.match(pat.Low, x.Low, caps)) && (pat.High == nil || c.match(pat.High, x.High, caps))
	case *ast.CallExpr:
		x, ok := e.(*ast.CallExpr)
		if !ok || len(x.Args) != len(pat.Args) || !c.match(pat.Fun, x.Fun, caps) {
			return false
		}
		for i := range pat.Args {
			if !c.match(pat.Args[i], x.Args[i], caps) {
				return false
			}
		}
		return true
	}
	return c.src(pat) == c.src(e)
}

type found struct {
	caps captures
	pos  token.Pos
}

// findAll returns every sub-expression of root that matches the pattern.
func (c *ctx) findAll(root ast.Node, pattern string) []found {
	pat, err := parser.ParseExpr(pattern)
	if err != nil {
		failf("internal: pattern %q does not parse: %v", pattern, err)
	}
	var out []found
	ast.Inspect(root, func(n ast.Node) bool {
		if e, ok := n.(ast.Expr); ok {
			caps := captures{}
			if c.match(pat, e, caps) {
				out = append(out, found{caps, e.Pos()})
			}
		}
		return true
	})
	return out
}

// findOne: the pattern must match inside fn, and every match must capture the same source text for HOLE.
func (c *ctx) findOne(p *pkg, fnKey, pattern string) (ast.Expr, *ast.File, token.Pos) {
	fd, f := c.fn(p, fnKey)
	ms := c.findAll(fd.Body, pattern)
	if len(ms) == 0 {
		failf("%s: no expression of the form `%s` in %s (package %q)", c.where(fd.Pos()), pattern, fnKey, p.dir)
	}
	first, ok := ms[0].caps["HOLE"].(ast.Expr)
	if !ok {
		failf("internal: pattern %q has no HOLE", pattern)
	}
	for _, m := range ms[1:] {
		if c.src(m.caps["HOLE"]) != c.src(first) {
			failf("%s: `%s` matches several different expressions in %s: %s at %s, %s at %s", c.where(fd.Pos()), pattern, fnKey,
				c.src(first), c.where(ms[0].pos), c.src(m.caps["HOLE"]), c.where(m.pos))
		}
	}
	return first, f, ms[0].pos
}

// ---------------------------------------------------------------------------------------------------------
// Lean rendering

type out struct {
	typ string // Lean type
	val string // Lean term
	at  string // file:line (or several)
	src string // optional: the Go source text the value was read from
}

func leanString(s string) string {
	var b strings.Builder
	b.WriteByte('"')
	for _, r := range s {
		switch {
		case r == '"':
			b.WriteString("\\\"")
		case r == '\\':
			b.WriteString("\\\\")
		case r == '\n':
			b.WriteString("\\n")
		case r == '\t':
			b.WriteString("\\t")
		case r == '\r':
			b.WriteString("\\r")
		case r < 0x20 || r == 0x7f:
			fmt.Fprintf(&b, "\\x%02x", r)
		default:
			b.WriteRune(r)
		}
	}
	b.WriteByte('"')
	return b.String()
}

func leanBytes(s string) string {
	parts := make([]string, 0, len(s))
	for i := 0; i < len(s); i++ {
		parts = append(parts, strconv.Itoa(int(s[i])))
	}
	return "[" + strings.Join(parts, ", ") + "]"
}

// leanChars: a string as a `List Char` literal (models that work on `List Char`)
func leanChars(s string) string {
	var parts []string
	for _, r := range s {
		switch {
		case r == '\'':
			parts = append(parts, `'\''`)
		case r == '\\':
			parts = append(parts, `'\\'`)
		case r == '\n':
			parts = append(parts, `'\n'`)
		case r == '\t':
			parts = append(parts, `'\t'`)
		case r < 0x20 || r == 0x7f:
			parts = append(parts, fmt.Sprintf(`'\x%02x'`, r))
		default:
			parts = append(parts, "'"+string(r)+"'")
		}
	}
	return "[" + strings.Join(parts, ", ") + "]"
}

func leanList(items []string) string {
	if len(items) == 0 {
		return "[]"
	}
	var b strings.Builder
	b.WriteString("[\n  ")
	line := 2
	for i, it := range items {
		if i > 0 {
			b.WriteString(",")
			if line+len(it)+2 > 110 {
				b.WriteString("\n  ")
				line = 2
			} else {
				b.WriteString(" ")
				line++
			}
		}
		b.WriteString(it)
		line += len(it) + 1
	}
	b.WriteString("]")
	return b.String()
}

func tuple(items ...string) string { return "(" + strings.Join(items, ", ") + ")" }

func bigOf(v constant.Value, what string) *big.Int {
	iv := constant.ToInt(v)
	if iv.Kind() != constant.Int {
		failf("%s: value %s is not an integer", what, v.ExactString())
	}
	switch x := constant.Val(iv).(type) {
	case int64:
		return big.NewInt(x)
	case *big.Int:
		return new(big.Int).Set(x)
	}
	failf("%s: value %s is not an integer", what, v.ExactString())
	return nil
}

func natLit(v constant.Value, what string) string {
	b := bigOf(v, what)
	if b.Sign() < 0 {
		failf("%s: value %s is negative, a Nat was expected", what, b.String())
	}
	return b.String()
}

func intLit(v constant.Value, what string) string {
	b := bigOf(v, what)
	if b.Sign() < 0 {
		return "(" + b.String() + ")"
	}
	return b.String()
}

// ratLit renders an exact rational constant as (numerator, denominator) in lowest terms.
func ratLit(v constant.Value, what string) string {
	if v.Kind() != constant.Int && v.Kind() != constant.Float {
		failf("%s: value %s is not numeric", what, v.ExactString())
	}
	num, den := constant.Num(v), constant.Denom(v)
	if num.Kind() != constant.Int || den.Kind() != constant.Int {
		failf("%s: value %s is not an exact rational", what, v.String())
	}
	n, d := bigOf(num, what), bigOf(den, what)
	if n.Sign() < 0 {
		failf("%s: negative rational", what)
	}
	return tuple(n.String(), d.String())
}

func strOf(v constant.Value, what string) string {
	if v.Kind() != constant.String {
		failf("%s: value %s is not a string", what, v.ExactString())
	}
	return constant.StringVal(v)
}

// ---------------------------------------------------------------------------------------------------------
// generic readers used by the table

// constNat: a package-level constant with a non-negative integer value.
func constNat(dir, name string) func(*ctx) out {
	return func(c *ctx) out {
		v, pos := c.constOf(c.pkg(dir), name)
		return out{typ: "Nat", val: natLit(v, name), at: c.where(pos)}
	}
}

func constInt(dir, name string) func(*ctx) out {
	return func(c *ctx) out {
		v, pos := c.constOf(c.pkg(dir), name)
		return out{typ: "Int", val: intLit(v, name), at: c.where(pos)}
	}
}

func constStr(dir, name string) func(*ctx) out {
	return func(c *ctx) out {
		v, pos := c.constOf(c.pkg(dir), name)
		return out{typ: "String", val: leanString(strOf(v, name)), at: c.where(pos)}
	}
}

// constStrBytes: a string constant as the list of its UTF-8 bytes (models that work on `List Nat`).
func constStrBytes(dir, name string) func(*ctx) out {
	return func(c *ctx) out {
		v, pos := c.constOf(c.pkg(dir), name)
		s := strOf(v, name)
		return out{typ: "List Nat", val: leanBytes(s), at: c.where(pos), src: strconv.Quote(s)}
	}
}

// constAs: a string constant rendered as `chars` (List Char) or `bytes` (List Nat)
func constAs(dir, name, kind string) func(*ctx) out {
	return func(c *ctx) out {
		p := c.pkg(dir)
		cd, ok := p.consts[name]
		if !ok {
			failf("constant %s not found in package %q", name, dir)
		}
		v, pos := c.constOf(p, name)
		_ = v
		return out{typ: leanTypeOf(kind), val: c.render(p, cd.file, cd.expr, kind, name), at: c.where(pos), src: c.src(cd.expr)}
	}
}

// constRat: an exact rational constant as (numerator, denominator) in lowest terms.
func constRat(dir, name string) func(*ctx) out {
	return func(c *ctx) out {
		v, pos := c.constOf(c.pkg(dir), name)
		return out{typ: "Nat × Nat", val: ratLit(v, name), at: c.where(pos)}
	}
}

// inFunc*: the unique constant expression at HOLE in `pattern` inside function fnKey ("Name" or "Recv.Name").
func inFuncNat(dir, fnKey, pattern string) func(*ctx) out {
	return func(c *ctx) out {
		p := c.pkg(dir)
		e, f, pos := c.findOne(p, fnKey, pattern)
		v := c.eval(p, f, e, -1)
		return out{typ: "Nat", val: natLit(v, pattern), at: c.where(pos), src: fnKey + ": " + pattern + " with HOLE = " + c.src(e)}
	}
}

func inFuncInt(dir, fnKey, pattern string) func(*ctx) out {
	return func(c *ctx) out {
		p := c.pkg(dir)
		e, f, pos := c.findOne(p, fnKey, pattern)
		v := c.eval(p, f, e, -1)
		return out{typ: "Int", val: intLit(v, pattern), at: c.where(pos), src: fnKey + ": " + pattern + " with HOLE = " + c.src(e)}
	}
}

func inFuncRat(dir, fnKey, pattern string) func(*ctx) out {
	return func(c *ctx) out {
		p := c.pkg(dir)
		e, f, pos := c.findOne(p, fnKey, pattern)
		v := c.eval(p, f, e, -1)
		return out{typ: "Nat × Nat", val: ratLit(v, pattern), at: c.where(pos), src: fnKey + ": " + pattern + " with HOLE = " + c.src(e)}
	}
}

func inFuncStr(dir, fnKey, pattern string) func(*ctx) out {
	return func(c *ctx) out {
		p := c.pkg(dir)
		e, f, pos := c.findOne(p, fnKey, pattern)
		v := c.eval(p, f, e, -1)
		return out{typ: "String", val: leanString(strOf(v, pattern)), at: c.where(pos), src: fnKey + ": " + pattern}
	}
}

// inFuncGuardNat: the constant at HOLE in the condition of the `if` statements of fnKey whose condition matches
// condPattern and whose body contains an expression matching bodyPattern (all such statements must agree).
func inFuncGuardNat(dir, fnKey, condPattern, bodyPattern string) func(*ctx) out {
	return func(c *ctx) out {
		p := c.pkg(dir)
		fd, f := c.fn(p, fnKey)
		pat, err := parser.ParseExpr(condPattern)
		if err != nil {
			failf("internal: pattern %q: %v", condPattern, err)
		}
		var hole ast.Expr
		var at token.Pos
		ast.Inspect(fd.Body, func(n ast.Node) bool {
			s, ok := n.(*ast.IfStmt)
			if !ok {
				return true
			}
			caps := captures{}
			if !c.match(pat, s.Cond, caps) || len(c.findAll(s.Body, bodyPattern)) == 0 {
				return true
			}
			h, _ := caps["HOLE"].(ast.Expr)
			if h == nil {
				failf("internal: pattern %q has no HOLE", condPattern)
			}
			if hole != nil && c.src(hole) != c.src(h) {
				failf("%s: `if %s { … %s … }` occurs with different constants in %s: %s and %s", c.where(s.Pos()), condPattern, bodyPattern, fnKey, c.src(hole), c.src(h))
			}
			hole, at = h, s.Pos()
			return true
		})
		if hole == nil {
			failf("%s: no `if %s { … %s … }` in %s (package %q)", c.where(fd.Pos()), condPattern, bodyPattern, fnKey, dir)
		}
		v := c.eval(p, f, hole, -1)
		return out{typ: "Nat", val: natLit(v, condPattern), at: c.where(at), src: fnKey + ": if " + condPattern + " { … " + bodyPattern + " … } with HOLE = " + c.src(hole)}
	}
}

// inFuncAll: EVERY match of the pattern inside fnKey, in source order, as a list; one entry per match, a tuple
// when the pattern has several holes (HOLE1, HOLE2, … in that order).  kinds[i] says how hole i is rendered:
// "nat" | "int" | "str" | "chars" | "bytes" | "src".  At least `min` matches are required.
func inFuncAll(dir, fnKey, pattern string, holes []string, kinds []string, min int) func(*ctx) out {
	return func(c *ctx) out {
		p := c.pkg(dir)
		fd, f := c.fn(p, fnKey)
		ms := c.findAll(fd.Body, pattern)
		if len(ms) < min {
			failf("%s: expected at least %d expressions of the form `%s` in %s (package %q), found %d", c.where(fd.Pos()), min, pattern, fnKey, dir, len(ms))
		}
		var items, types []string
		for _, k := range kinds {
			types = append(types, leanTypeOf(k))
		}
		for _, m := range ms {
			var parts []string
			for i, h := range holes {
				e, ok := m.caps[h].(ast.Expr)
				if !ok {
					failf("internal: pattern %q has no %s", pattern, h)
				}
				parts = append(parts, c.render(p, f, e, kinds[i], pattern))
			}
			if len(parts) == 1 {
				items = append(items, parts[0])
			} else {
				items = append(items, tuple(parts...))
			}
		}
		return out{typ: "List " + paren(strings.Join(types, " × ")), val: leanList(items), at: c.where(fd.Pos()), src: fnKey + ": every `" + pattern + "`"}
	}
}

func paren(t string) string {
	if strings.ContainsAny(t, " ×") {
		return "(" + t + ")"
	}
	return t
}

func leanTypeOf(kind string) string {
	switch kind {
	case "nat":
		return "Nat"
	case "int":
		return "Int"
	case "str", "src":
		return "String"
	case "chars":
		return "List Char"
	case "bytes":
		return "List Nat"
	}
	failf("internal: unknown kind %q", kind)
	return ""
}

func (c *ctx) render(p *pkg, f *ast.File, e ast.Expr, kind, what string) string {
	switch kind {
	case "src":
		return leanString(c.src(e))
	case "nat":
		return natLit(c.eval(p, f, e, -1), what)
	case "int":
		return intLit(c.eval(p, f, e, -1), what)
	case "str":
		return leanString(strOf(c.eval(p, f, e, -1), what))
	case "chars":
		return leanChars(strOf(c.eval(p, f, e, -1), what))
	case "bytes":
		return leanBytes(strOf(c.eval(p, f, e, -1), what))
	}
	failf("internal: unknown kind %q", kind)
	return ""
}

// inFuncSrc: the source text at HOLE (for operands that are not constants, e.g. which variable is compared).
func inFuncSrc(dir, fnKey, pattern string) func(*ctx) out {
	return func(c *ctx) out {
		p := c.pkg(dir)
		e, _, pos := c.findOne(p, fnKey, pattern)
		return out{typ: "String", val: leanString(c.src(e)), at: c.where(pos), src: fnKey + ": " + pattern}
	}
}

// inFuncCount: how many sub-expressions of fnKey match the pattern (no HOLE needed).
func inFuncCount(dir, fnKey, pattern string) func(*ctx) out {
	return func(c *ctx) out {
		p := c.pkg(dir)
		fd, _ := c.fn(p, fnKey)
		ms := c.findAll(fd.Body, pattern)
		return out{typ: "Nat", val: strconv.Itoa(len(ms)), at: c.where(fd.Pos()), src: fnKey + ": occurrences of " + pattern}
	}
}

// enumBlock: the constants of the const block that contains `first`, in declaration order, restricted to those
// whose (explicit or repeated) type is typeName; as (name, value) pairs.
func (c *ctx) enumBlock(dir, first, typeName string) ([][2]string, token.Pos) {
	p := c.pkg(dir)
	cd, ok := p.consts[first]
	if !ok {
		failf("constant %s not found in package %q", first, dir)
	}
	var rows [][2]string
	for _, s := range cd.block.Specs {
		vs := s.(*ast.ValueSpec)
		for _, nm := range vs.Names {
			d := p.consts[nm.Name]
			if nm.Name == "_" || d == nil {
				continue
			}
			if typeName != "" {
				t, ok := d.typ.(*ast.Ident)
				if !ok || t.Name != typeName {
					continue
				}
			}
			v, _ := c.constOf(p, nm.Name)
			rows = append(rows, [2]string{nm.Name, natLit(v, nm.Name)})
		}
	}
	if len(rows) == 0 {
		failf("const block of %s has no constants of type %s", first, typeName)
	}
	return rows, cd.pos
}

func enumTable(dir, first, typeName string) func(*ctx) out {
	return func(c *ctx) out {
		rows, pos := c.enumBlock(dir, first, typeName)
		var items []string
		for _, r := range rows {
			items = append(items, tuple(leanString(r[0]), r[1]))
		}
		return out{typ: "List (String × Nat)", val: leanList(items), at: c.where(pos)}
	}
}

// compositeElts: the elements of the composite literal bound to package-level variable `name`.
func (c *ctx) compositeElts(p *pkg, name string) (*ast.CompositeLit, *ast.File) {
	vs, ok := p.vars[name]
	if !ok {
		failf("variable %s not found in package %q", name, p.dir)
	}
	for i, nm := range vs.Names {
		if nm.Name == name && i < len(vs.Values) {
			if cl, ok := vs.Values[i].(*ast.CompositeLit); ok {
				return cl, p.varFil[name]
			}
		}
	}
	failf("variable %s in package %q is not initialised by a composite literal", name, p.dir)
	return nil, nil
}

// mapStrStr: `var name = map[string]string{ "k": "v", … }` in source order.
func mapStrStr(dir, name string) func(*ctx) out {
	return func(c *ctx) out {
		p := c.pkg(dir)
		cl, f := c.compositeElts(p, name)
		var items []string
		seen := map[string]bool{}
		for _, e := range cl.Elts {
			kv, ok := e.(*ast.KeyValueExpr)
			if !ok {
				failf("%s: element of %s is not key: value", c.where(e.Pos()), name)
			}
			k := strOf(c.eval(p, f, kv.Key, -1), name)
			v := strOf(c.eval(p, f, kv.Value, -1), name)
			if seen[k] {
				failf("%s: duplicate key %q in %s", c.where(e.Pos()), k, name)
			}
			seen[k] = true
			items = append(items, tuple(leanString(k), leanString(v)))
		}
		return out{typ: "List (String × String)", val: leanList(items), at: c.where(cl.Pos())}
	}
}

// field of a struct composite literal element `{A: x, B: y}`
func fieldOf(c *ctx, cl *ast.CompositeLit, field string) ast.Expr {
	for _, e := range cl.Elts {
		if kv, ok := e.(*ast.KeyValueExpr); ok {
			if id, ok := kv.Key.(*ast.Ident); ok && id.Name == field {
				return kv.Value
			}
		}
	}
	failf("%s: composite literal has no field %s", c.where(cl.Pos()), field)
	return nil
}

// switchCases: for `switch <tag> { case a, b: … }` statements inside fnKey whose tag matches tagPattern, every
// clause as (case expressions, body).  A nil case list is `default`.
type clause struct {
	cases []ast.Expr
	body  []ast.Stmt
	pos   token.Pos
}

func (c *ctx) switchIn(p *pkg, fnKey, tagPattern string) ([]clause, *ast.File, token.Pos) {
	fd, f := c.fn(p, fnKey)
	pat, err := parser.ParseExpr(tagPattern)
	if err != nil {
		failf("internal: pattern %q: %v", tagPattern, err)
	}
	var hits []*ast.SwitchStmt
	ast.Inspect(fd.Body, func(n ast.Node) bool {
		if s, ok := n.(*ast.SwitchStmt); ok && s.Tag != nil && c.match(pat, s.Tag, captures{}) {
			hits = append(hits, s)
		}
		return true
	})
	if len(hits) != 1 {
		failf("%s: expected exactly one `switch %s` in %s, found %d", c.where(fd.Pos()), tagPattern, fnKey, len(hits))
	}
	var out []clause
	for _, s := range hits[0].Body.List {
		cc := s.(*ast.CaseClause)
		out = append(out, clause{cc.List, cc.Body, cc.Pos()})
	}
	return out, f, hits[0].Pos()
}

// returnedExpr: the body must be exactly `return <expr>`.
func returnedExpr(c *ctx, cl clause) ast.Expr {
	if len(cl.body) == 1 {
		if r, ok := cl.body[0].(*ast.ReturnStmt); ok && len(r.Results) >= 1 {
			return r.Results[0]
		}
	}
	failf("%s: case body is not a single `return <expr>`", c.where(cl.pos))
	return nil
}

// ---------------------------------------------------------------------------------------------------------
// main

type fact struct {
	prop string
	name string         // Lean identifier inside namespace B6.Gen.Facts.<prop>
	doc  string         // what it is, where the model uses it
	get  func(*ctx) out // extractor
}

func main() {
	repo := flag.String("repo", "", "b6 module directory (…/src/diagonal.works/b6)")
	outPath := flag.String("o", "", "output Lean file")
	prop := flag.String("prop", "", "only the facts of this property (namespace B6.Gen.Facts.<prop>); default: all properties")
	list := flag.Bool("list", false, "print the fact table and exit")
	flag.Parse()
	if *list {
		for _, f := range table {
			fmt.Printf("%s\t%s\t%s\n", f.prop, f.name, f.doc)
		}
		return
	}
	if *repo == "" || *outPath == "" {
		fmt.Fprintln(os.Stderr, "usage: facts -repo <b6 module dir> [-prop Cxx] -o <file.lean>")
		os.Exit(2)
	}
	if st, err := os.Stat(filepath.Join(*repo, "go.mod")); err != nil || st.IsDir() {
		fmt.Fprintf(os.Stderr, "facts: %s is not a Go module directory\n", *repo)
		os.Exit(2)
	}
	c := newCtx(*repo)
	var props []string
	byProp := map[string][]fact{}
	seen := map[string]bool{}
	for _, f := range table {
		if *prop != "" && f.prop != *prop {
			continue
		}
		if seen[f.prop+"."+f.name] {
			fmt.Fprintf(os.Stderr, "facts: internal: duplicate fact %s.%s\n", f.prop, f.name)
			os.Exit(2)
		}
		seen[f.prop+"."+f.name] = true
		if _, ok := byProp[f.prop]; !ok {
			props = append(props, f.prop)
		}
		byProp[f.prop] = append(byProp[f.prop], f)
	}
	if len(props) == 0 {
		fmt.Fprintf(os.Stderr, "facts: no facts are registered for property %q\n", *prop)
		os.Exit(1)
	}
	sort.Strings(props)
	var b strings.Builder
	b.WriteString("/-! GENERATED by /verif/tools/facts from the current source of the b6 module — do not edit.\n")
	b.WriteString("Constants and tables the hand-written models assume; lean/B6/Props/Facts/*.lean proves, per fact, that the\n")
	b.WriteString("value read from the source equals what the model uses. -/\n")
	var problems []string
	for _, pr := range props {
		fmt.Fprintf(&b, "\nnamespace B6.Gen.Facts.%s\n", pr)
		for _, f := range byProp[pr] {
			o, err := run(c, f)
			if err != "" {
				problems = append(problems, fmt.Sprintf("fact %s.%s (%s): %s", f.prop, f.name, f.doc, err))
				continue
			}
			fmt.Fprintf(&b, "\n/-- %s -/\n", strings.ReplaceAll(f.doc, "-/", "- /"))
			fmt.Fprintf(&b, "-- source: %s", o.at)
			if o.src != "" {
				fmt.Fprintf(&b, "   %s", strings.ReplaceAll(o.src, "\n", " "))
			}
			b.WriteString("\n")
			fmt.Fprintf(&b, "def %s : %s := %s\n", f.name, o.typ, o.val)
		}
		fmt.Fprintf(&b, "\nend B6.Gen.Facts.%s\n", pr)
	}
	if len(problems) > 0 {
		fmt.Fprintf(os.Stderr, "facts: %d fact(s) could not be extracted from %s:\n", len(problems), *repo)
		for _, p := range problems {
			fmt.Fprintln(os.Stderr, "  "+p)
		}
		os.Exit(1)
	}
	if err := os.MkdirAll(filepath.Dir(*outPath), 0o755); err != nil {
		fmt.Fprintln(os.Stderr, "facts:", err)
		os.Exit(1)
	}
	if err := os.WriteFile(*outPath, []byte(b.String()), 0o644); err != nil {
		fmt.Fprintln(os.Stderr, "facts:", err)
		os.Exit(1)
	}
}

func run(c *ctx, f fact) (o out, problem string) {
	defer func() {
		if r := recover(); r != nil {
			if fe, ok := r.(factErr); ok {
				problem = fe.msg
				return
			}
			panic(r)
		}
	}()
	return f.get(c), ""
}
