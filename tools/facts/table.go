package main

// The fact table: which constants / tables of the b6 source the Lean models assume, per property.
// `name` is the Lean identifier inside `namespace B6.Gen.Facts.<prop>`; the matching obligation is
// `B6.Props.Facts.<prop>_<name>` in lean/B6/Props/Facts/<prop>.lean.

import (
	"go/ast"
	"go/token"
	"strconv"
	"strings"
)

var table = []fact{
	// ---- C08 posting lists (ingest/compact/encoding.go) -------------------------------------------------
	{"C08", "postingListBlockSize", "PostingListBlockSize — Model/Posting.lean `blockSize` and the literal 64 throughout the model",
		constNat("ingest/compact", "PostingListBlockSize")},
	{"C08", "namespaceShift", "CombineTypeAndNamespace: `t << 13` — the 3+13 bit split of TypeAndNamespace (validId: tn < 65536)",
		inFuncNat("ingest/compact", "CombineTypeAndNamespace", "TypeAndNamespace(t << HOLE)")},
	{"C08", "typeAndNamespaceInvalid", "TypeAndNamespaceInvalid — the encoder's initial tn (validId: tn ≠ 0)",
		constNat("ingest/compact", "TypeAndNamespaceInvalid")},

	// ---- C21 VM (api/vm.go) -----------------------------------------------------------------------------
	{"C21", "maxArgs", "MaxArgs — Model/Interp.lean `maxArgs` (register file size; compile error at NumArgs >= MaxArgs)",
		constNat("api", "MaxArgs")},
	{"C21", "opcodes", "the `Op` constants in iota order — the instruction set Model/VM.lean `Instr` mirrors",
		enumTable("api", "OpPushValue", "Op")},

	// ---- C27 OSM PBF (osm/pbf.go) -----------------------------------------------------------------------
	{"C27", "elementsPerGroup", "elementsPerGroup — Model/Pbf.lean `elementsPerGroup`",
		constNat("osm", "elementsPerGroup")},
	{"C27", "defaultGranularity", "Default_PrimitiveBlock_Granularity (generated proto default; the writer never sets the field) — Model/Pbf.lean `defaultGranularity`",
		constNat("osm/proto", "Default_PrimitiveBlock_Granularity")},
	{"C27", "decodeAngleUnit", "decodeAngle: `.000000001 * float64(…)` as an exact rational — the model works in nano-degrees",
		inFuncRat("osm", "decodeAngle", "HOLE * float64(ANY)")},
	{"C27", "encodeAngleUnit", "encodeAngle: `int64(angle / .000000001)` as an exact rational — the model works in nano-degrees",
		inFuncRat("osm", "encodeAngle", "int64(angle / HOLE)")},

	// ---- C29 OSM → features (ingest/osm.go) -------------------------------------------------------------
	{"C29", "osmTagMapping", "osmTagMapping (17 `#` keys + 3 `@` keys), in source order — Model/Osm.lean `osmTagMapping`",
		mapStrStr("ingest", "osmTagMapping")},

	{"C29", "relationAreaKey", "isRelationArea: the tag key looked up (`relation.Tag(\"type\")`) — Model/Osm.lean `isRelationArea`",
		inFuncStr("ingest", "isRelationArea", "relation.Tag(HOLE)")},
	{"C29", "relationAreaValue", "isRelationArea: the value that makes a relation an area (`t == \"multipolygon\"`) — Model/Osm.lean `isRelationArea`",
		inFuncStr("ingest", "isRelationArea", "t == HOLE")},
	{"C29", "outerRoles", "reassembleMultiPolygon: the member roles that start a new polygon (`m.Role == …`) — Model/Osm.lean multipolygon assembly (`m.role = \"outer\" ∨ m.role = \"\"`)",
		inFuncAll("ingest", "reassembleMultiPolygon", "m.Role == HOLE", []string{"HOLE"}, []string{"str"}, 1)},
	{"C29", "pointTag", "b6.PointTag — Model/Osm.lean (`modifyOrAdd \"point\"`)", constStr("", "PointTag")},
	{"C29", "pathTag", "b6.PathTag — Model/Osm.lean (`modifyOrAdd \"path\"`)", constStr("", "PathTag")},

	// ---- C33 vector tiles (renderer/encoder.go) ---------------------------------------------------------
	{"C33", "tileExtent", "TileExtent (bits; 1<<12 = 4096 units per tile) — Model/TileEncoder.lean `tileOrigin`",
		constNat("renderer", "TileExtent")},
	{"C33", "cmdMoveTo", "TileCommandMoveTo — Model/TileEncoder.lean `cmdMoveTo`", constNat("renderer", "TileCommandMoveTo")},
	{"C33", "cmdLineTo", "TileCommandLineTo — Model/TileEncoder.lean `cmdLineTo`", constNat("renderer", "TileCommandLineTo")},
	{"C33", "cmdClosePath", "TileCommandClosePath — Model/TileEncoder.lean `cmdClosePath`", constNat("renderer", "TileCommandClosePath")},
	{"C33", "simplifyThreshold", "simplifyAndEncodePolygon: `len(points) > 1000` → Simplify (outside the model: the model covers ≤ 1000 points)",
		inFuncGuardNat("renderer", "simplifyAndEncodePolygon", "len(points) > HOLE", "Simplify(ANY1, ANY2)")},

	// ---- C01 compact index (ingest/compact/encoding.go, world.go) ---------------------------------------
	{"C01", "pointTag", "b6.PointTag as bytes — Model/CompactIndex.lean `kPoint`", constAs("", "PointTag", "bytes")},
	{"C01", "pathTag", "b6.PathTag as bytes — Model/CompactIndex.lean `kPath`", constAs("", "PathTag", "bytes")},
	{"C01", "nsOSMNode", "b6.NamespaceOSMNode as bytes — Model/CompactIndex.lean `nsOsmNode`", constAs("", "NamespaceOSMNode", "bytes")},
	{"C01", "nsOSMWay", "b6.NamespaceOSMWay as bytes — Model/CompactIndex.lean `nsOsmWay`", constAs("", "NamespaceOSMWay", "bytes")},
	{"C01", "nsOSMRelation", "b6.NamespaceOSMRelation as bytes — Model/CompactIndex.lean `nsOsmRel`", constAs("", "NamespaceOSMRelation", "bytes")},
	{"C01", "featureTypes", "the b6.FeatureType constants in iota order — `FID.typ` = 0 point, 1 path, 2 area, 3 relation, 4 invalid",
		enumTable("", "FeatureTypePoint", "FeatureType")},
	{"C01", "marshalPrimaries", "(record, field, type, namespace-of-type) of every primary namespace the record Marshal methods of encoding.go marshal a field against — the type column of Props/C01 `primaryTable`",
		recordPrimaries("Marshal")},
	{"C01", "unmarshalPrimaries", "the same for the Unmarshal methods (field = \"\" where the callee is a function, `UnmarshalAreaGeometry`)",
		recordPrimaries("Unmarshal")},

	// ---- C03 tag search (search.go, search/search.go) ---------------------------------------------------
	{"C03", "tagKeyPrefixes", "TokenForTag: the key prefixes tested with strings.HasPrefix, in order (`#k=v` ↦ `k=v`, `@k` ↦ `k`) — Model/FeatureSearch.lean `tokenForTag`",
		inFuncAll("", "TokenForTag", "strings.HasPrefix(tag.Key, HOLE)", []string{"HOLE"}, []string{"chars"}, 2)},
	{"C03", "tagTokenFormat", "TokenForTag: the Sprintf format of a `#` tag's token — Model/FeatureSearch.lean `tokenForTag` (`k ++ '=' :: v`)",
		inFuncStr("", "TokenForTag", "fmt.Sprintf(HOLE, ANY1, ANY2)")},
	{"C03", "allToken", "search.AllToken — Model/FeatureSearch.lean `allToken`", constAs("search", "AllToken", "chars")},
	{"C03", "taggedKeyPrefixes", "Tagged.Compile: the key prefix that makes a key-value query indexable — Model/FeatureSearch.lean `compile` (.tagged)",
		inFuncAll("", "Tagged.Compile", "strings.HasPrefix(t.Key, HOLE)", []string{"HOLE"}, []string{"chars"}, 1)},

	// ---- C04 spatial tokens (search/spatial.go) ---------------------------------------------------------
	{"C04", "s2CellIDTokenPrefix", "s2CellIDTokenPrefix — Model/Cells.lean `Token.s2` (\"s2:<token>\": the cell itself)", constStr("search", "s2CellIDTokenPrefix")},
	{"C04", "s2AncestorCellIDTokenPrefix", "s2AncestorCellIDTokenPrefix — Model/Cells.lean `Token.a2` (\"a2:<token>\": proper ancestor)", constStr("search", "s2AncestorCellIDTokenPrefix")},
	{"C04", "ancestorStopLevel", "cellIDAncestorTokens: `if id.Level() != 0` — Model/Cells.lean `Cell.parent?` (face cells have no parent)",
		inFuncNat("search", "cellIDAncestorTokens", "id.Level() != HOLE")},
	{"C04", "rewriteStopLevel", "RewriteSpatialQuery: `if id.Level() == 0 { break }` — Model/Cells.lean `selfAndAncestors`",
		inFuncNat("search", "RewriteSpatialQuery", "id.Level() == HOLE")},

	// ---- C05 spatial predicates (spatial.go) ------------------------------------------------------------
	{"C05", "indexUseFasterAboveVertexCount", "indexUseFasterAboveVetexCount — Model/SpatialPred.lean `indexUseFasterAboveVertexCount`",
		constNat("", "indexUseFasterAboveVetexCount")},
	{"C05", "pointToleranceMeters", "pointIntersectsFeature: `projection.Distance(point) < MetersToAngle(0.001)` as an exact rational — Model/SpatialPred.lean `.path (within)`",
		inFuncRat("", "pointIntersectsFeature", "ANY.Distance(ANY1) < MetersToAngle(HOLE)")},
	{"C05", "polylineToleranceMeters", "polylineIntersectsFeature: `projection.Distance(f.Point()) < MetersToAngle(0.001)` as an exact rational — Model/SpatialPred.lean `.point (within)`",
		inFuncRat("", "polylineIntersectsFeature", "ANY.Distance(ANY1) < MetersToAngle(HOLE)")},

	// ---- C09 binary containers (encoding/) --------------------------------------------------------------
	{"C09", "byteArraysLayoutLength", "encoding.ByteArraysLayoutLength — Model/Containers.lean `baLayoutLength`", constNat("encoding", "ByteArraysLayoutLength")},
	{"C09", "uint64MapLayoutLength", "encoding.Uint64MapLayoutLength — Model/Containers.lean `mapView` (two layout bytes `x :: y :: rest`)", constNat("encoding", "Uint64MapLayoutLength")},

	// ---- C11 record codecs (ingest/compact/encoding.go) -------------------------------------------------
	{"C11", "valueTypeBits", "ValueTypeBits — Model/Records.lean `encodeValueType` (`v * 4 + t`), `dValue` (`/ 4`), `Value.dec` (`% 4`)", constNat("ingest/compact", "ValueTypeBits")},
	{"C11", "featureTypeBits", "b6.FeatureTypeBits — Model/Records.lean `Member.word` (`role * 4 ||| type`)", constNat("", "FeatureTypeBits")},
	{"C11", "expressionTypes", "the b6.ExpressionType constants in iota order — Model/Records.lean `Value.enc`/`Value.dec` (0 string index, 1 point, 2 geometry)",
		enumTable("", "ExpressionTypeString", "ExpressionType")},
	{"C11", "geometryEncodings", "the GeometryEncoding constants in iota order — Model/Records.lean `encodeGeometry` / `geometryEncoding`",
		enumTable("ingest/compact", "GeometryEncodingReferences", "GeometryEncoding")},
	{"C11", "namespaceShift", "CombineTypeAndNamespace: `t << 13` — Model/Records.lean `memberPrimary` / Model/Bits.lean `combineTypeNs`",
		inFuncNat("ingest/compact", "CombineTypeAndNamespace", "TypeAndNamespace(t << HOLE)")},
	{"C11", "fnv64Offset", "encoding.Fnv64Offset — Model/RecordsTokenMap.lean `fnvOffset`", constNat("encoding", "Fnv64Offset")},
	{"C11", "fnv64Prime", "encoding.Fnv64Prime — Model/RecordsTokenMap.lean `fnvPrime`", constNat("encoding", "Fnv64Prime")},
	{"C11", "tokenMapMaxLoadFactor", "TokenMapMaxLoadFactor as an exact rational — Model/RecordsTokenMap.lean `add` (`(n+1)*5 > 3*len`)", constRat("ingest/compact", "TokenMapMaxLoadFactor")},
	{"C11", "tokenMapGrowth", "TokenMapEncoder.Add: `make([][]string, len(t.tokens)*2)` — Model/RecordsTokenMap.lean `grow` (`2 * buckets.length`)",
		inFuncNat("ingest/compact", "TokenMapEncoder.Add", "make(ANY, len(t.tokens)*HOLE)")},

	// ---- C12 mutable world (search.go) ------------------------------------------------------------------
	{"C12", "tagKeyPrefixes", "TokenForTag: the key prefixes tested with strings.HasPrefix, in order — Model/Mutable.lean `tokenForTag`, `searchable`",
		inFuncAll("", "TokenForTag", "strings.HasPrefix(tag.Key, HOLE)", []string{"HOLE"}, []string{"chars"}, 2)},
	{"C12", "tagTokenFormat", "TokenForTag: the Sprintf format of a `#` tag's token — Model/Mutable.lean `tokenForTag` (`r ++ '=' :: v`)",
		inFuncStr("", "TokenForTag", "fmt.Sprintf(HOLE, ANY1, ANY2)")},

	// ---- C17 merged worlds (ingest/compact/world.go, world.go) -----------------------------------------
	{"C17", "featureTypeEnd", "b6.FeatureTypeEnd — Model/Merged.lean `numTypes` (ids of type ≥ FeatureTypeEnd are never found)", constNat("", "FeatureTypeEnd")},
	{"C17", "featuresByIDTypes", "FeaturesByID.features: the array length `[b6.FeatureTypeEnd][]*featureBlock` (`int(id.Type) >= len(f.features)`) — Model/Merged.lean `numTypes`",
		structArrayLen("ingest/compact", "FeaturesByID", "features")},

	// ---- C23 request evaluation (protos.go, world.go, api/vm.go) ----------------------------------------
	{"C23", "featureTypeFromProto", "NewFeatureTypeFromProto: (pb.FeatureType number, b6.FeatureType number) per case — Model/EvalGuards.lean `featureType`",
		switchConstConst("", "NewFeatureTypeFromProto", "t")},
	{"C23", "featureTypeFromProtoDefault", "NewFeatureTypeFromProto: the final `return` for numbers outside the enum — Model/EvalGuards.lean `featureType` (`else \"invalid\"`)",
		finalReturnNat("", "NewFeatureTypeFromProto")},
	{"C23", "featureTypeNames", "FeatureType.String: (value, name) per case — the names Model/EvalGuards.lean `featureType` answers",
		switchConstStr("", "FeatureType.String", "f", false)},
	{"C23", "featureTypeDefaultName", "FeatureType.String: the default clause", switchDefaultStr("", "FeatureType.String", "f", false)},
	{"C23", "opcodes", "the `Op` constants in iota order — the instruction set of Model/VM.lean", enumTable("api", "OpPushValue", "Op")},
	{"C23", "maxArgs", "MaxArgs — Model/Interp.lean `maxArgs` (the VM model C23's driver runs)", constNat("api", "MaxArgs")},

	// ---- C18 change export (world.go) -------------------------------------------------------------------
	{"C18", "featureTypeNames", "FeatureType.String: (value, name) per case — Model/ChangeExport.lean `typeNames`",
		switchConstStr("", "FeatureType.String", "f", false)},
	{"C18", "featureTypeDefaultName", "FeatureType.String: the default clause — Model/ChangeExport.lean `typeName` (`| none => \"invalid\"`)",
		switchDefaultStr("", "FeatureType.String", "f", false)},

	// ---- C20 shell printer / lexer (api/shell.go) -------------------------------------------------------
	{"C20", "symbolRuneRanges", "isValidSymbolRune: the `r >= lo && r <= hi` ranges — Model/Shell.lean `isSymbolRune`",
		inFuncAll("api", "isValidSymbolRune", "r >= HOLE1 && r <= HOLE2", []string{"HOLE1", "HOLE2"}, []string{"nat", "nat"}, 1)},
	{"C20", "symbolRuneExtra", "isValidSymbolRune: the `r == c` characters — Model/Shell.lean `isSymbolRune`",
		inFuncAll("api", "isValidSymbolRune", "r == HOLE", []string{"HOLE"}, []string{"nat"}, 1)},
	{"C20", "lexDispatch", "lexer.Lex: `switch c` clause by clause: (case characters, what the clause returns) — Model/Shell.lean `lex` (`isPunct`, `\"`, `/`, `#`/`@`, digits `-` `.`, letters)",
		lexDispatch()},
	{"C20", "featureIDExtra", "lexFeatureIDLiteral: the `r == c` characters next to unicode.IsLetter / IsDigit — Model/Shell.lean `isIDByte`",
		inFuncAll("api", "lexer.lexFeatureIDLiteral", "r == HOLE", []string{"HOLE"}, []string{"nat"}, 1)},
	{"C20", "escapeKeyFirstRanges", "EscapeTagKey: first character outside `v[0] < lo || v[0] > hi` ranges stays bare — Model/Shell.lean `keyBare` (`isLetter`)",
		inFuncAll("api", "EscapeTagKey", "v[0] < HOLE1 || v[0] > HOLE2", []string{"HOLE1", "HOLE2"}, []string{"nat", "nat"}, 1)},
	{"C20", "escapeKeyFirstExtra", "EscapeTagKey: `v[0] != c` first characters that stay bare — Model/Shell.lean `keyBare` (`c == 35 || c == 64`)",
		inFuncAll("api", "EscapeTagKey", "v[0] != HOLE", []string{"HOLE"}, []string{"nat"}, 1)},
	{"C20", "escapeValueFirstRanges", "EscapeTagValue: first character ranges that stay bare — Model/Shell.lean `valueBare` (`isLetter`)",
		inFuncAll("api", "EscapeTagValue", "v[0] < HOLE1 || v[0] > HOLE2", []string{"HOLE1", "HOLE2"}, []string{"nat", "nat"}, 1)},
	{"C20", "escapeValueFirstExtra", "EscapeTagValue: `v[0] != c` first characters (none) — Model/Shell.lean `valueBare`",
		inFuncAll("api", "EscapeTagValue", "v[0] != HOLE", []string{"HOLE"}, []string{"nat"}, 0)},

	// ---- C31 feature IDs (world.go, api/shell.go) -------------------------------------------------------
	{"C31", "featureTypes", "the b6.FeatureType constants in iota order — Model/FeatureID.lean `FType.toNat`",
		enumTable("", "FeatureTypePoint", "FeatureType")},
	{"C31", "featureTypeNames", "FeatureType.String: (value, name bytes) per case — Model/FeatureID.lean `FType.name`",
		switchConstStr("", "FeatureType.String", "f", true)},
	{"C31", "featureTypeDefaultName", "FeatureType.String: the default clause — Model/FeatureID.lean `FType.name .invalid`",
		switchDefaultStr("", "FeatureType.String", "f", true)},
	{"C31", "aliases", "api/shell.go `aliases`: (prefix bytes, namespace bytes, feature type, FromString function) in order — Model/FeatureID.lean `aliases`",
		shellAliases()},
	{"C31", "nsOSMNode", "b6.NamespaceOSMNode — Model/FeatureID.lean `nsOSMNode`", constAs("", "NamespaceOSMNode", "bytes")},
	{"C31", "nsOSMWay", "b6.NamespaceOSMWay — Model/FeatureID.lean `nsOSMWay`", constAs("", "NamespaceOSMWay", "bytes")},
	{"C31", "nsOSMRelation", "b6.NamespaceOSMRelation — Model/FeatureID.lean `nsOSMRelation`", constAs("", "NamespaceOSMRelation", "bytes")},
	{"C31", "nsUKONSBoundaries", "b6.NamespaceUKONSBoundaries — Model/FeatureID.lean `nsUKONS`", constAs("", "NamespaceUKONSBoundaries", "bytes")},
	{"C31", "nsGBCodePoint", "b6.NamespaceGBCodePoint — Model/FeatureID.lean `nsGBCodePoint`", constAs("", "NamespaceGBCodePoint", "bytes")},
	{"C31", "nsGBUPRN", "b6.NamespaceGBUPRN — Model/FeatureID.lean `nsGBUPRN`", constAs("", "NamespaceGBUPRN", "bytes")},

	{"C31", "featureTypeFromProto", "NewFeatureTypeFromProto: (pb.FeatureType number, b6.FeatureType number) per case — Model/FeatureID.lean `ftypeFromProto` (also used by C19's WireExpr)",
		switchConstConst("", "NewFeatureTypeFromProto", "t")},
	{"C31", "featureTypeFromProtoDefault", "NewFeatureTypeFromProto: the final `return` for numbers outside the enum — Model/FeatureID.lean `ftypeFromProto` (`_ => some .invalid`)",
		finalReturnNat("", "NewFeatureTypeFromProto")},
	{"C31", "featureTypeToProto", "NewProtoFromFeatureType: (b6.FeatureType number, pb.FeatureType number) per case — Model/FeatureID.lean `FType.toProto`",
		switchConstConst("", "NewProtoFromFeatureType", "t")},

	// ---- C32 GeoJSON (geojson/geojson.go, world.go) -----------------------------------------------------
	{"C32", "unmarshalTypeCases", "geojson.Unmarshal: the case lists of `switch t.Type` — Model/GeoJSON.lean `topLevelGeometryTypes` (third clause)",
		switchCaseStrs("geojson", "Unmarshal", "t.Type")},
	{"C32", "pointTag", "b6.PointTag — Model/GeoJSON.lean `pointTag`", constStr("", "PointTag")},
	{"C32", "pathTag", "b6.PathTag — Model/GeoJSON.lean `pathTag`", constStr("", "PathTag")},

	// ---- C36 build determinism / validator (ingest/compact/build.go) ------------------------------------
	{"C36", "validationStates", "the ValidationState constants in iota order — Model/Validator.lean `VState`",
		enumTable("ingest/compact", "ValidationStateValid", "ValidationState")},
}

// ---------------------------------------------------------------------------------------------------------
// table-specific readers

// switchConstStr: `switch <tag> { case K1: return "s1"; … }` in fnKey as [(value of K, "s")], source order;
// the default clause (if any) is reported by switchDefaultStr.
func switchConstStr(dir, fnKey, tagPattern string, asBytes bool) func(*ctx) out {
	return func(c *ctx) out {
		p := c.pkg(dir)
		cls, f, pos := c.switchIn(p, fnKey, tagPattern)
		var items []string
		for _, cl := range cls {
			if cl.cases == nil {
				continue
			}
			s := strOf(c.eval(p, f, returnedExpr(c, cl), -1), fnKey)
			for _, k := range cl.cases {
				v := natLit(c.eval(p, f, k, -1), fnKey)
				if asBytes {
					items = append(items, tuple(v, leanBytes(s)))
				} else {
					items = append(items, tuple(v, leanString(s)))
				}
			}
		}
		t := "List (Nat × String)"
		if asBytes {
			t = "List (Nat × List Nat)"
		}
		return out{typ: t, val: leanList(items), at: c.where(pos)}
	}
}

func switchDefaultStr(dir, fnKey, tagPattern string, asBytes bool) func(*ctx) out {
	return func(c *ctx) out {
		p := c.pkg(dir)
		cls, f, _ := c.switchIn(p, fnKey, tagPattern)
		for _, cl := range cls {
			if cl.cases == nil {
				s := strOf(c.eval(p, f, returnedExpr(c, cl), -1), fnKey)
				if asBytes {
					return out{typ: "List Nat", val: leanBytes(s), at: c.where(cl.pos), src: strconv.Quote(s)}
				}
				return out{typ: "String", val: leanString(s), at: c.where(cl.pos)}
			}
		}
		failf("switch %s in %s has no default clause", tagPattern, fnKey)
		return out{}
	}
}

// switchConstConst: `switch <tag> { case K: return V … }` in fnKey as [(value of K, value of V)], source order.
func switchConstConst(dir, fnKey, tagPattern string) func(*ctx) out {
	return func(c *ctx) out {
		p := c.pkg(dir)
		cls, f, pos := c.switchIn(p, fnKey, tagPattern)
		var items []string
		for _, cl := range cls {
			if cl.cases == nil {
				failf("%s: %s: `switch %s` has a default clause the model does not know", c.where(cl.pos), fnKey, tagPattern)
			}
			v := natLit(c.eval(p, f, returnedExpr(c, cl), -1), fnKey)
			for _, k := range cl.cases {
				items = append(items, tuple(natLit(c.eval(p, f, k, -1), fnKey), v))
			}
		}
		return out{typ: "List (Nat × Nat)", val: leanList(items), at: c.where(pos)}
	}
}

// finalReturnNat: the function body ends in `return <constant>`.
func finalReturnNat(dir, fnKey string) func(*ctx) out {
	return func(c *ctx) out {
		p := c.pkg(dir)
		fd, f := c.fn(p, fnKey)
		n := len(fd.Body.List)
		if n > 0 {
			if r, ok := fd.Body.List[n-1].(*ast.ReturnStmt); ok && len(r.Results) == 1 {
				return out{typ: "Nat", val: natLit(c.eval(p, f, r.Results[0], -1), fnKey), at: c.where(r.Pos()), src: fnKey + ": final " + c.src(r)}
			}
		}
		failf("%s: %s does not end in `return <constant>`", c.where(fd.Pos()), fnKey)
		return out{}
	}
}

// structArrayLen: the length of the array type of field `field` of struct `typeName`.
func structArrayLen(dir, typeName, field string) func(*ctx) out {
	return func(c *ctx) out {
		p := c.pkg(dir)
		ts, ok := p.types[typeName]
		if !ok {
			failf("type %s not found in package %q", typeName, dir)
		}
		st, ok := ts.Type.(*ast.StructType)
		if !ok {
			failf("%s: %s is not a struct", c.where(ts.Pos()), typeName)
		}
		var file *ast.File
		for _, f := range p.files {
			if f.Pos() <= ts.Pos() && ts.Pos() < f.End() {
				file = f
			}
		}
		for _, fl := range st.Fields.List {
			for _, nm := range fl.Names {
				if nm.Name != field {
					continue
				}
				at, ok := fl.Type.(*ast.ArrayType)
				if !ok || at.Len == nil {
					failf("%s: %s.%s is not an array", c.where(fl.Pos()), typeName, field)
				}
				return out{typ: "Nat", val: natLit(c.eval(p, file, at.Len, -1), field), at: c.where(fl.Pos()), src: c.src(fl.Type)}
			}
		}
		failf("%s: struct %s has no field %s", c.where(ts.Pos()), typeName, field)
		return out{}
	}
}

// switchCaseStrs: the string case lists of `switch <tag>` in fnKey, clause by clause (default omitted).
func switchCaseStrs(dir, fnKey, tagPattern string) func(*ctx) out {
	return func(c *ctx) out {
		p := c.pkg(dir)
		cls, f, pos := c.switchIn(p, fnKey, tagPattern)
		var items []string
		for _, cl := range cls {
			if cl.cases == nil {
				continue
			}
			var ks []string
			for _, k := range cl.cases {
				ks = append(ks, leanString(strOf(c.eval(p, f, k, -1), fnKey)))
			}
			items = append(items, "["+strings.Join(ks, ", ")+"]")
		}
		return out{typ: "List (List String)", val: leanList(items), at: c.where(pos)}
	}
}

// lexDispatch: `switch c := l.Expression[l.Index]; c { case 'x', …: … return <expr> }` of lexer.Lex as
// [(case characters, source of the last returned expression of the clause)].
func lexDispatch() func(*ctx) out {
	return func(c *ctx) out {
		p := c.pkg("api")
		cls, f, pos := c.switchIn(p, "lexer.Lex", "c")
		var items []string
		for _, cl := range cls {
			if cl.cases == nil {
				failf("%s: lexer.Lex: `switch c` has a default clause the model does not know", c.where(cl.pos))
			}
			var ks []string
			for _, k := range cl.cases {
				ks = append(ks, natLit(c.eval(p, f, k, -1), "lexer.Lex"))
			}
			if len(cl.body) == 0 {
				failf("%s: lexer.Lex: empty case clause", c.where(cl.pos))
			}
			r, ok := cl.body[len(cl.body)-1].(*ast.ReturnStmt)
			if !ok || len(r.Results) != 1 {
				failf("%s: lexer.Lex: case clause does not end in `return <expr>`", c.where(cl.pos))
			}
			items = append(items, tuple("["+strings.Join(ks, ", ")+"]", leanString(c.src(r.Results[0]))))
		}
		return out{typ: "List (List Nat × String)", val: leanList(items), at: c.where(pos)}
	}
}

// shellAliases: `var aliases = []NamespaceAlias{{Prefix: …, Namespace: …, Type: …, FromString: …, ToString: …}, …}`
func shellAliases() func(*ctx) out {
	return func(c *ctx) out {
		p := c.pkg("api")
		cl, f := c.compositeElts(p, "aliases")
		var items []string
		for _, e := range cl.Elts {
			el, ok := e.(*ast.CompositeLit)
			if !ok {
				failf("%s: element of aliases is not a struct literal", c.where(e.Pos()))
			}
			if len(el.Elts) != 5 {
				failf("%s: alias literal has %d fields, the model knows Prefix, Namespace, Type, FromString, ToString", c.where(el.Pos()), len(el.Elts))
			}
			prefix := strOf(c.eval(p, f, fieldOf(c, el, "Prefix"), -1), "aliases")
			ns := strOf(c.eval(p, f, fieldOf(c, el, "Namespace"), -1), "aliases")
			typ := natLit(c.eval(p, f, fieldOf(c, el, "Type"), -1), "aliases")
			from := c.src(fieldOf(c, el, "FromString"))
			to := c.src(fieldOf(c, el, "ToString"))
			items = append(items, tuple(leanBytes(prefix), leanBytes(ns), typ, leanString(from), leanString(to)))
		}
		return out{typ: "List (List Nat × List Nat × Nat × String × String)", val: leanList(items), at: c.where(cl.Pos())}
	}
}

// recordPrimaries: for the record types of ingest/compact/encoding.go, every call inside <Record>.<method> whose first
// argument is `TypeAndNamespaceInvalid` or `CombineTypeAndNamespace(T, <nss.ForType(T') | nss[T']>)`, in source order:
// (record, field the callee is a method of | "", T, T') with "invalid" for TypeAndNamespaceInvalid.
func recordPrimaries(method string) func(*ctx) out {
	records := []string{"CommonPoint", "PointReferences", "FullPoint", "Path", "Area", "Relation"}
	return func(c *ctx) out {
		p := c.pkg("ingest/compact")
		var items []string
		var first token.Pos
		strip := func(s string) string { return strings.TrimPrefix(s, "b6.") }
		for _, rec := range records {
			fd, _ := c.fn(p, rec+"."+method)
			if first == token.NoPos {
				first = fd.Pos()
			}
			n := 0
			ast.Inspect(fd.Body, func(nd ast.Node) bool {
				call, ok := nd.(*ast.CallExpr)
				if !ok || len(call.Args) == 0 {
					return true
				}
				var t1, t2 string
				if id, ok := call.Args[0].(*ast.Ident); ok && id.Name == "TypeAndNamespaceInvalid" {
					t1, t2 = "invalid", "invalid"
				} else if inner, ok := call.Args[0].(*ast.CallExpr); ok {
					if fn, ok := inner.Fun.(*ast.Ident); !ok || fn.Name != "CombineTypeAndNamespace" || len(inner.Args) != 2 {
						return true
					}
					t1 = strip(c.src(inner.Args[0]))
					switch a := inner.Args[1].(type) {
					case *ast.IndexExpr:
						t2 = strip(c.src(a.Index))
					case *ast.CallExpr:
						if sel, ok := a.Fun.(*ast.SelectorExpr); ok && sel.Sel.Name == "ForType" && len(a.Args) == 1 {
							t2 = strip(c.src(a.Args[0]))
						}
					}
					if t2 == "" {
						failf("%s: %s.%s: namespace argument %s is neither nss.ForType(T) nor nss[T]", c.where(inner.Pos()), rec, method, c.src(inner.Args[1]))
					}
				} else {
					return true
				}
				field := ""
				if sel, ok := call.Fun.(*ast.SelectorExpr); ok {
					if x, ok := sel.X.(*ast.SelectorExpr); ok {
						field = x.Sel.Name
					}
				}
				items = append(items, tuple(leanString(rec), leanString(field), leanString(t1), leanString(t2)))
				n++
				return true
			})
			if n == 0 && rec != "FullPoint" {
				failf("%s: %s.%s marshals nothing against a primary namespace", c.where(fd.Pos()), rec, method)
			}
		}
		return out{typ: "List (String × String × String × String)", val: leanList(items), at: c.where(first)}
	}
}
