module veriftools

go 1.23
