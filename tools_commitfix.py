#!/usr/bin/env python3
"""Commits one proposed fix (fixes/<name>.patch, already applied in /repo's working tree by its builder) as a
separate `fix:` commit in /repo, staging only that patch's hunks, and records it in KNOWN_FINDINGS.txt.
usage: tools_commitfix.py fixes/Cxx-name.patch [--dry]"""
import re, subprocess, sys, os
patch = os.path.abspath(sys.argv[1]); dry = "--dry" in sys.argv
pid = re.match(r"(C\d+)-", os.path.basename(patch)).group(1)
lines = open(patch).read().splitlines()
hdr = []
for l in lines:
    if l.startswith("#"):
        hdr.append(l[1:].lstrip(" ") if l.startswith("# ") else l[1:])
    elif l.startswith(("diff ", "--- ", "Index")):
        break
msg = "\n".join(hdr).strip()
if not msg.startswith("fix:"):
    sys.exit(f"{patch}: header does not start with fix:")
first = msg.splitlines()[0]
body = "\n".join(msg.splitlines()[1:]).strip()
msg = first + ("\n\n" + body if body else "")
def git(*a, check=True):
    p = subprocess.run(["git", "-C", "/repo"] + list(a), stdout=subprocess.PIPE, stderr=subprocess.STDOUT, text=True)
    if check and p.returncode != 0:
        sys.exit(f"git {' '.join(a)} failed:\n{p.stdout}")
    return p.stdout
r = subprocess.run(["git", "-C", "/repo", "apply", "--cached", "--check", patch], stdout=subprocess.PIPE, stderr=subprocess.STDOUT, text=True)
if r.returncode != 0:
    sys.exit(f"{patch}: does not apply to the index:\n{r.stdout}")
if dry:
    print("ok (dry):", first); sys.exit(0)
git("apply", "--cached", patch)
git("commit", "-q", "-m", msg)
h = git("rev-parse", "--short", "HEAD").strip()
what = first[len("fix:"):].strip()
with open(os.path.join(os.path.dirname(os.path.abspath(__file__)), "KNOWN_FINDINGS.txt"), "a") as f:
    f.write(f"fixed: property={pid} {h} {what} (fixes/{os.path.basename(patch)})\n")
print(h, first)
