// Package skelx holds what the C15, C16 and C37 harnesses share: the text form of world
// skeletons (IDs, features with references / locations / a version tag) and builders that turn
// the text into real ingest features.
//
//	ID       p1 point, w10 path, a20 area, r5 relation, c7 collection        (namespace "x")
//	feature  <id>=<refs>[;<attr>…]
//	         refs   comma separated IDs; an area separates its polygons with "|"
//	         attrs  loc=<k>   point: location slot k on a small circle (default: the ID's value);
//	                          slots increase counter-clockwise, so a closed path over increasing
//	                          slots is a valid counter-clockwise loop
//	                noloc     point without a location (no point tag)
//	                v=<word>  a plain tag "v" (tells the layers' versions of a feature apart)
//	                t=<word>  a search-indexed tag "#t"
package skelx

import (
	"fmt"
	"math"
	"sort"
	"strconv"
	"strings"

	"diagonal.works/b6"
	"diagonal.works/b6/ingest"
	"github.com/golang/geo/s2"
)

const NS = b6.Namespace("x")

var typeOfChar = map[byte]b6.FeatureType{'p': b6.FeatureTypePoint, 'w': b6.FeatureTypePath, 'a': b6.FeatureTypeArea,
	'r': b6.FeatureTypeRelation, 'c': b6.FeatureTypeCollection}

func ParseID(s string) (b6.FeatureID, bool) {
	if len(s) < 2 {
		return b6.FeatureIDInvalid, false
	}
	t, ok := typeOfChar[s[0]]
	if !ok {
		return b6.FeatureIDInvalid, false
	}
	v, err := strconv.ParseUint(s[1:], 10, 64)
	if err != nil {
		return b6.FeatureIDInvalid, false
	}
	return b6.FeatureID{Type: t, Namespace: NS, Value: v}, true
}

func MustID(s string) b6.FeatureID {
	id, ok := ParseID(s)
	if !ok {
		panic("skelx: bad id " + s)
	}
	return id
}

func RenderID(id b6.FeatureID) string {
	c := "?"
	switch id.Type {
	case b6.FeatureTypePoint:
		c = "p"
	case b6.FeatureTypePath:
		c = "w"
	case b6.FeatureTypeArea:
		c = "a"
	case b6.FeatureTypeRelation:
		c = "r"
	case b6.FeatureTypeCollection:
		c = "c"
	}
	if id.Namespace != NS {
		return c + "!" + string(id.Namespace) + "!" + strconv.FormatUint(id.Value, 10)
	}
	return c + strconv.FormatUint(id.Value, 10)
}

// SortIDs orders by b6's FeatureID.Less.
func SortIDs(ids []b6.FeatureID) {
	sort.Slice(ids, func(i, j int) bool { return ids[i].Less(ids[j]) })
}

func RenderIDs(ids []b6.FeatureID) string {
	xs := make([]string, len(ids))
	for i, id := range ids {
		xs[i] = RenderID(id)
	}
	return "[" + strings.Join(xs, " ") + "]"
}

// Slots is the number of location slots on the circle.
const Slots = 24

// SlotLatLng is the location of slot k: increasing k runs counter-clockwise.
func SlotLatLng(k int) s2.LatLng {
	a := 2 * math.Pi * float64(k%Slots) / Slots
	r := 0.002 * (1 + float64(k/Slots))
	return s2.LatLngFromDegrees(51.5+r*math.Sin(a), -0.1+r*math.Cos(a)/math.Cos(51.5*math.Pi/180))
}

// SlotE7 renders a location as E7 integers.
func E7(ll s2.LatLng) string {
	return fmt.Sprintf("%d/%d", int64(math.Round(ll.Lat.Degrees()*1e7)), int64(math.Round(ll.Lng.Degrees()*1e7)))
}

// Spec is a parsed feature token.
type Spec struct {
	ID    b6.FeatureID
	Polys [][]b6.FeatureID // references; one group unless the feature is an area with several polygons
	Attrs map[string]string
	Text  string
}

func (s Spec) Refs() []b6.FeatureID {
	var out []b6.FeatureID
	for _, p := range s.Polys {
		out = append(out, p...)
	}
	return out
}

func ParseSpec(tok string) (Spec, error) {
	s := Spec{Attrs: map[string]string{}, Text: tok}
	parts := strings.Split(tok, ";")
	head := strings.SplitN(parts[0], "=", 2)
	if len(head) != 2 {
		return s, fmt.Errorf("bad feature %q", tok)
	}
	id, ok := ParseID(head[0])
	if !ok {
		return s, fmt.Errorf("bad id in %q", tok)
	}
	s.ID = id
	for _, poly := range strings.Split(head[1], "|") {
		var ids []b6.FeatureID
		for _, r := range strings.Split(poly, ",") {
			if r == "" {
				continue
			}
			rid, ok := ParseID(r)
			if !ok {
				return s, fmt.Errorf("bad ref in %q", tok)
			}
			ids = append(ids, rid)
		}
		s.Polys = append(s.Polys, ids)
	}
	for _, a := range parts[1:] {
		kv := strings.SplitN(a, "=", 2)
		if len(kv) == 2 {
			s.Attrs[kv[0]] = kv[1]
		} else {
			s.Attrs[kv[0]] = ""
		}
	}
	return s, nil
}

// Build turns a parsed token into a real ingest feature.
func Build(s Spec) ingest.Feature {
	var extra []b6.Tag
	if v, ok := s.Attrs["v"]; ok {
		extra = append(extra, b6.Tag{Key: "v", Value: b6.NewStringExpression(v)})
	}
	if v, ok := s.Attrs["t"]; ok {
		extra = append(extra, b6.Tag{Key: "#t", Value: b6.NewStringExpression(v)})
	}
	switch s.ID.Type {
	case b6.FeatureTypePoint, b6.FeatureTypePath:
		f := &ingest.GenericFeature{}
		f.SetFeatureID(s.ID)
		if s.ID.Type == b6.FeatureTypePoint {
			if _, no := s.Attrs["noloc"]; !no {
				k := int(s.ID.Value)
				if v, ok := s.Attrs["loc"]; ok {
					k, _ = strconv.Atoi(v)
				}
				f.AddTag(b6.Tag{Key: b6.PointTag, Value: b6.NewPointExpressionFromLatLng(SlotLatLng(k))})
			}
		}
		for i, r := range s.Refs() {
			f.ModifyOrAddTagAt(b6.Tag{Key: b6.PathTag, Value: b6.NewFeatureIDExpression(r)}, i)
		}
		for _, t := range extra {
			f.AddTag(t)
		}
		return f
	case b6.FeatureTypeArea:
		a := ingest.NewAreaFeature(len(s.Polys))
		a.AreaID = s.ID.ToAreaID()
		for i, p := range s.Polys {
			ids := make([]b6.FeatureID, len(p))
			copy(ids, p)
			a.SetPathIDs(i, ids)
		}
		a.Tags = extra
		return a
	case b6.FeatureTypeRelation:
		refs := s.Refs()
		r := ingest.NewRelationFeature(len(refs))
		r.RelationID = s.ID.ToRelationID()
		for i, m := range refs {
			r.Members[i] = b6.RelationMember{ID: m}
		}
		r.Tags = extra
		return r
	case b6.FeatureTypeCollection:
		c := &ingest.CollectionFeature{CollectionID: s.ID.ToCollectionID(), Tags: extra}
		for i, m := range s.Refs() {
			c.Keys = append(c.Keys, m)
			c.Values = append(c.Values, i)
		}
		return c
	}
	panic("skelx: cannot build " + s.Text)
}

func MustBuild(tok string) ingest.Feature {
	s, err := ParseSpec(tok)
	if err != nil {
		panic(err)
	}
	return Build(s)
}

// RefsToken renders "<id>=<refs>" from any b6.Feature (References() in order; an area's polygons
// are separated by "|" when polys is true).
func RefsToken(f b6.Feature, polys bool) string {
	var sb strings.Builder
	sb.WriteString(RenderID(f.FeatureID()))
	sb.WriteByte('=')
	if a, ok := f.(b6.AreaFeature); ok && polys {
		for i := 0; i < a.Len(); i++ {
			if i > 0 {
				sb.WriteByte('|')
			}
			for j, p := range a.Feature(i) {
				if j > 0 {
					sb.WriteByte(',')
				}
				sb.WriteString(RenderID(p.FeatureID()))
			}
		}
		return sb.String()
	}
	for i, r := range f.References() {
		if i > 0 {
			sb.WriteByte(',')
		}
		sb.WriteString(RenderID(r.Source()))
	}
	return sb.String()
}

// DumpWorld lists every feature of the world as RefsToken, sorted by ID.
func DumpWorld(w b6.World, token func(b6.Feature) string) []string {
	type item struct {
		id  b6.FeatureID
		tok string
	}
	var items []item
	w.EachFeature(func(f b6.Feature, g int) error {
		items = append(items, item{f.FeatureID(), token(f)})
		return nil
	}, &b6.EachFeatureOptions{Goroutines: 1})
	sort.SliceStable(items, func(i, j int) bool { return items[i].id.Less(items[j].id) })
	out := make([]string, len(items))
	for i, it := range items {
		out[i] = it.tok
	}
	return out
}

// BuildBasic builds a basic world from feature tokens (invalid features are dropped by Finish).
func BuildBasic(tokens []string, cores int) (b6.World, error) {
	b := ingest.NewBasicWorldBuilder(&ingest.BuildOptions{Cores: cores})
	for _, t := range tokens {
		b.AddFeature(MustBuild(t))
	}
	return b.Finish(&ingest.BuildOptions{Cores: cores})
}

// IDsOf drains a feature iterator into its IDs (with multiplicity), sorted.
func IDsOf(fs b6.Features) []b6.FeatureID {
	var out []b6.FeatureID
	for fs.Next() {
		out = append(out, fs.FeatureID())
	}
	SortIDs(out)
	return out
}
