// Package skelx holds what the C15, C16 and C37 harnesses share: the text form of world
// skeletons (IDs, features with references / locations / a version tag) and builders that turn
// the text into real ingest features.
//
//	ID       p1 point, w10 path, a20 area, r5 relation, c7 collection        (namespace "x")
//	feature  <id>=<refs>[;<attr>…]
//	         refs   comma separated IDs; an area separates its polygons with "|", a polygon "*" is an explicit
//	                polygon (geometry, no path IDs); a path element "@<k>" is an inline lat/lng at slot k
//	         attrs  loc=<k>   point: location slot k on a small circle (default: the ID's value);
//	                          slots increase counter-clockwise, so a closed path over increasing
//	                          slots is a valid counter-clockwise loop
//	                noloc     point without a location (no point tag)
//	                v=<word>  a plain tag "v" (tells the layers' versions of a feature apart)
//	                t=<word>  a search-indexed tag "#t"
//	                kf=<p|t|m> collection: keys are plain b6.FeatureID / typed IDs (AreaID, RelationID,
//	                          CollectionID where the kind has one) / alternating
//	                vf=i      collection: values are IDs too (typed like the keys), not integers
package skelx

import (
	"fmt"
	"math"
	"sort"
	"strconv"
	"strings"

	"diagonal.works/b6"
	"diagonal.works/b6/ingest"
	"github.com/golang/geo/s2"
)

const NS = b6.Namespace("x")

var typeOfChar = map[byte]b6.FeatureType{'p': b6.FeatureTypePoint, 'w': b6.FeatureTypePath, 'a': b6.FeatureTypeArea,
	'r': b6.FeatureTypeRelation, 'c': b6.FeatureTypeCollection}

func ParseID(s string) (b6.FeatureID, bool) {
	if len(s) < 2 {
		return b6.FeatureIDInvalid, false
	}
	t, ok := typeOfChar[s[0]]
	if !ok {
		return b6.FeatureIDInvalid, false
	}
	v, err := strconv.ParseUint(s[1:], 10, 64)
	if err != nil {
		return b6.FeatureIDInvalid, false
	}
	return b6.FeatureID{Type: t, Namespace: NS, Value: v}, true
}

func MustID(s string) b6.FeatureID {
	id, ok := ParseID(s)
	if !ok {
		panic("skelx: bad id " + s)
	}
	return id
}

func RenderID(id b6.FeatureID) string {
	c := "?"
	switch id.Type {
	case b6.FeatureTypePoint:
		c = "p"
	case b6.FeatureTypePath:
		c = "w"
	case b6.FeatureTypeArea:
		c = "a"
	case b6.FeatureTypeRelation:
		c = "r"
	case b6.FeatureTypeCollection:
		c = "c"
	}
	if id.Namespace != NS {
		return c + "!" + string(id.Namespace) + "!" + strconv.FormatUint(id.Value, 10)
	}
	return c + strconv.FormatUint(id.Value, 10)
}

// SortIDs orders by b6's FeatureID.Less.
func SortIDs(ids []b6.FeatureID) {
	sort.Slice(ids, func(i, j int) bool { return ids[i].Less(ids[j]) })
}

func RenderIDs(ids []b6.FeatureID) string {
	xs := make([]string, len(ids))
	for i, id := range ids {
		xs[i] = RenderID(id)
	}
	return "[" + strings.Join(xs, " ") + "]"
}

// Slots is the number of location slots on the circle.
const Slots = 24

// SlotLatLng is the location of slot k: increasing k runs counter-clockwise.
func SlotLatLng(k int) s2.LatLng {
	a := 2 * math.Pi * float64(k%Slots) / Slots
	r := 0.002 * (1 + float64(k/Slots))
	return s2.LatLngFromDegrees(51.5+r*math.Sin(a), -0.1+r*math.Cos(a)/math.Cos(51.5*math.Pi/180))
}

// RefLatLng is the location a world reports for a point FEATURE at slot k: the point tag goes through
// its text form, which costs the last digits (an inline path element at slot k keeps SlotLatLng(k)).
func RefLatLng(k int) s2.LatLng {
	ll, err := b6.LatLngFromString(b6.NewPointExpressionFromLatLng(SlotLatLng(k)).String())
	if err != nil {
		panic(err)
	}
	return ll
}

// InlineLatLng is the location of the inline path element "@k": slot k of an outer ring that point
// features never use, so that an inline element and a referenced point never share a location (the
// location of a point feature goes through text and may or may not keep its last digits).
func InlineLatLng(k int) s2.LatLng { return SlotLatLng(3*Slots + k) }

// SlotE7 renders a location as E7 integers.
func E7(ll s2.LatLng) string {
	return fmt.Sprintf("%d/%d", int64(math.Round(ll.Lat.Degrees()*1e7)), int64(math.Round(ll.Lng.Degrees()*1e7)))
}

// Spec is a parsed feature token.
type Spec struct {
	ID    b6.FeatureID
	Polys [][]b6.FeatureID // references; one group unless the feature is an area with several polygons
	Raw   [][]string       // the same groups as written: "@k" inline points and "*" polygons included
	Attrs map[string]string
	Text  string
}

func (s Spec) Refs() []b6.FeatureID {
	var out []b6.FeatureID
	for _, p := range s.Polys {
		out = append(out, p...)
	}
	return out
}

func ParseSpec(tok string) (Spec, error) {
	s := Spec{Attrs: map[string]string{}, Text: tok}
	parts := strings.Split(tok, ";")
	head := strings.SplitN(parts[0], "=", 2)
	if len(head) != 2 {
		return s, fmt.Errorf("bad feature %q", tok)
	}
	id, ok := ParseID(head[0])
	if !ok {
		return s, fmt.Errorf("bad id in %q", tok)
	}
	s.ID = id
	for _, poly := range strings.Split(head[1], "|") {
		var ids []b6.FeatureID
		var raw []string
		for _, r := range strings.Split(poly, ",") {
			if r == "" {
				continue
			}
			raw = append(raw, r)
			if r[0] == '@' || r == "*" {
				continue
			}
			rid, ok := ParseID(r)
			if !ok {
				return s, fmt.Errorf("bad ref in %q", tok)
			}
			ids = append(ids, rid)
		}
		s.Polys = append(s.Polys, ids)
		s.Raw = append(s.Raw, raw)
	}
	for _, a := range parts[1:] {
		kv := strings.SplitN(a, "=", 2)
		if len(kv) == 2 {
			s.Attrs[kv[0]] = kv[1]
		} else {
			s.Attrs[kv[0]] = ""
		}
	}
	return s, nil
}

// Build turns a parsed token into a real ingest feature.
func Build(s Spec) ingest.Feature {
	var extra []b6.Tag
	if v, ok := s.Attrs["v"]; ok {
		extra = append(extra, b6.Tag{Key: "v", Value: b6.NewStringExpression(v)})
	}
	if v, ok := s.Attrs["t"]; ok {
		extra = append(extra, b6.Tag{Key: "#t", Value: b6.NewStringExpression(v)})
	}
	switch s.ID.Type {
	case b6.FeatureTypePoint, b6.FeatureTypePath:
		f := &ingest.GenericFeature{}
		f.SetFeatureID(s.ID)
		if s.ID.Type == b6.FeatureTypePoint {
			if _, no := s.Attrs["noloc"]; !no {
				k := int(s.ID.Value)
				if v, ok := s.Attrs["loc"]; ok {
					k, _ = strconv.Atoi(v)
				}
				f.AddTag(b6.Tag{Key: b6.PointTag, Value: b6.NewPointExpressionFromLatLng(SlotLatLng(k))})
			}
		}
		i := 0
		for _, group := range s.Raw {
			for _, r := range group {
				if r[0] == '@' { // inline point
					k, _ := strconv.Atoi(r[1:])
					f.ModifyOrAddTagAt(b6.Tag{Key: b6.PathTag, Value: b6.NewPointExpressionFromLatLng(InlineLatLng(k))}, i)
				} else {
					f.ModifyOrAddTagAt(b6.Tag{Key: b6.PathTag, Value: b6.NewFeatureIDExpression(MustID(r))}, i)
				}
				i++
			}
		}
		for _, t := range extra {
			f.AddTag(t)
		}
		return f
	case b6.FeatureTypeArea:
		a := ingest.NewAreaFeature(len(s.Polys))
		a.AreaID = s.ID.ToAreaID()
		for i, p := range s.Polys {
			if len(s.Raw[i]) == 1 && s.Raw[i][0] == "*" { // explicit polygon
				a.SetPolygon(i, ExplicitPolygon())
				continue
			}
			ids := make([]b6.FeatureID, len(p))
			copy(ids, p)
			a.SetPathIDs(i, ids)
		}
		a.Tags = extra
		return a
	case b6.FeatureTypeRelation:
		refs := s.Refs()
		r := ingest.NewRelationFeature(len(refs))
		r.RelationID = s.ID.ToRelationID()
		for i, m := range refs {
			r.Members[i] = b6.RelationMember{ID: m}
		}
		r.Tags = extra
		return r
	case b6.FeatureTypeCollection:
		c := &ingest.CollectionFeature{CollectionID: s.ID.ToCollectionID(), Tags: extra}
		refs := s.Refs()
		for i, m := range refs {
			typed := s.Attrs["kf"] == "t" || (s.Attrs["kf"] == "m" && i%2 == 0)
			c.Keys = append(c.Keys, Flavoured(m, typed))
			if s.Attrs["vf"] == "i" {
				c.Values = append(c.Values, Flavoured(refs[len(refs)-1-i], typed))
			} else {
				c.Values = append(c.Values, i)
			}
		}
		return c
	}
	panic("skelx: cannot build " + s.Text)
}

// Flavoured returns the ID as a plain b6.FeatureID, or as the typed ID of its kind where one exists
// (b6.AreaID, b6.RelationID, b6.CollectionID): every flavour is a b6.Identifiable.
func Flavoured(id b6.FeatureID, typed bool) interface{} {
	if typed {
		switch id.Type {
		case b6.FeatureTypeArea:
			return id.ToAreaID()
		case b6.FeatureTypeRelation:
			return id.ToRelationID()
		case b6.FeatureTypeCollection:
			return id.ToCollectionID()
		}
	}
	return id
}

// ExplicitPolygon is the geometry of a "*" polygon of an area.
func ExplicitPolygon() *s2.Polygon {
	pts := []s2.Point{s2.PointFromLatLng(SlotLatLng(1)), s2.PointFromLatLng(SlotLatLng(9)), s2.PointFromLatLng(SlotLatLng(17))}
	return s2.PolygonFromLoops([]*s2.Loop{s2.LoopFromPoints(pts)})
}

// GeoToken renders "<id>=<elements>" with the geometry structure: a path lists its elements in order
// ("@<slot>" for an inline point, "@?" when the location is not a slot), an area its polygons
// separated by "|" ("*" for an explicit polygon); other features as RefsToken.
func GeoToken(f b6.Feature, slotOf func(s2.LatLng) (int, bool)) string {
	switch f.FeatureID().Type {
	case b6.FeatureTypePath:
		if p, ok := f.(b6.PhysicalFeature); ok {
			var es []string
			for i := 0; i < p.GeometryLen(); i++ {
				if r := f.Reference(i).Source(); r.IsValid() {
					es = append(es, RenderID(r))
				} else if k, ok := slotOf(s2.LatLngFromPoint(p.PointAt(i))); ok && k >= 3*Slots {
					es = append(es, fmt.Sprintf("@%d", k-3*Slots))
				} else {
					es = append(es, "@?")
				}
			}
			return RenderID(f.FeatureID()) + "=" + strings.Join(es, ",")
		}
	case b6.FeatureTypeArea:
		if a, ok := f.(interface {
			Len() int
			PathIDs(i int) ([]b6.FeatureID, bool)
		}); ok {
			var ps []string
			for i := 0; i < a.Len(); i++ {
				if ids, ok := a.PathIDs(i); ok {
					es := make([]string, len(ids))
					for j, id := range ids {
						es[j] = RenderID(id)
					}
					ps = append(ps, strings.Join(es, ","))
				} else {
					ps = append(ps, "*")
				}
			}
			return RenderID(f.FeatureID()) + "=" + strings.Join(ps, "|")
		}
	}
	return RefsToken(f, false)
}

func MustBuild(tok string) ingest.Feature {
	s, err := ParseSpec(tok)
	if err != nil {
		panic(err)
	}
	return Build(s)
}

// RefsToken renders "<id>=<refs>" from any b6.Feature (References() in order; an area's polygons
// are separated by "|" when polys is true).
func RefsToken(f b6.Feature, polys bool) string {
	var sb strings.Builder
	sb.WriteString(RenderID(f.FeatureID()))
	sb.WriteByte('=')
	if a, ok := f.(b6.AreaFeature); ok && polys {
		for i := 0; i < a.Len(); i++ {
			if i > 0 {
				sb.WriteByte('|')
			}
			for j, p := range a.Feature(i) {
				if j > 0 {
					sb.WriteByte(',')
				}
				sb.WriteString(RenderID(p.FeatureID()))
			}
		}
		return sb.String()
	}
	for i, r := range f.References() {
		if i > 0 {
			sb.WriteByte(',')
		}
		sb.WriteString(RenderID(r.Source()))
	}
	return sb.String()
}

// DumpWorld lists every feature of the world as RefsToken, sorted by ID.
func DumpWorld(w b6.World, token func(b6.Feature) string) []string {
	type item struct {
		id  b6.FeatureID
		tok string
	}
	var items []item
	w.EachFeature(func(f b6.Feature, g int) error {
		items = append(items, item{f.FeatureID(), token(f)})
		return nil
	}, &b6.EachFeatureOptions{Goroutines: 1})
	sort.SliceStable(items, func(i, j int) bool { return items[i].id.Less(items[j].id) })
	out := make([]string, len(items))
	for i, it := range items {
		out[i] = it.tok
	}
	return out
}

// BuildBasic builds a basic world from feature tokens (invalid features are dropped by Finish).
func BuildBasic(tokens []string, cores int) (b6.World, error) {
	b := ingest.NewBasicWorldBuilder(&ingest.BuildOptions{Cores: cores})
	for _, t := range tokens {
		b.AddFeature(MustBuild(t))
	}
	return b.Finish(&ingest.BuildOptions{Cores: cores})
}

// IDsOf drains a feature iterator into its IDs (with multiplicity), sorted.
func IDsOf(fs b6.Features) []b6.FeatureID {
	var out []b6.FeatureID
	for fs.Next() {
		out = append(out, fs.FeatureID())
	}
	SortIDs(out)
	return out
}
