package skelx

import (
	"strings"
	"time"

	"verifharness/hx"
)

// Batch runs op scripts in child processes (children registered by RegisterScriptChildren): all
// scripts in ONE child; when that child dies each script gets its own child, and a script whose child
// dies is re-run op by op on its prefixes, so exactly the fatal ops are answered `crash` / `hang`.
func Batch(c *hx.Ctx, scripts [][]string) [][]string {
	joined := make([]string, len(scripts))
	for i, sc := range scripts {
		joined[i] = strings.Join(sc, "\n")
	}
	split := func(res string, n int) []string {
		a := strings.Split(res, "\n")
		if res == "crash" || res == "hang" || len(a) != n {
			return nil
		}
		return a
	}
	out := make([][]string, len(scripts))
	res := hx.RunChild("batch", strings.Join(joined, "\n\n"), 180*time.Second)
	parts := strings.Split(res, "\n\n")
	if len(parts) == len(scripts) {
		ok := true
		for i := range scripts {
			if out[i] = split(parts[i], len(scripts[i])); out[i] == nil {
				ok = false
			}
		}
		if ok {
			return out
		}
	}
	c.Note("child:batch-died")
	for i, sc := range scripts {
		if out[i] = split(hx.RunChild("case", joined[i], 30*time.Second), len(sc)); out[i] != nil {
			continue
		}
		c.Note("child:case-died")
		out[i] = make([]string, len(sc))
		for j := range sc {
			out[i][j] = hx.RunChild("last", strings.Join(sc[:j+1], "\n"), 15*time.Second)
		}
	}
	return out
}

// RegisterScriptChildren registers the three child entry points over an interpreter factory:
// newExec returns a function that executes one op line against a fresh environment.
func RegisterScriptChildren(newExec func() func(op string) string) {
	runCase := func(arg string) string {
		exec := newExec()
		lines := strings.Split(arg, "\n")
		out := make([]string, len(lines))
		for i, l := range lines {
			out[i] = hx.Recover(func() string { return exec(l) })
		}
		return strings.Join(out, "\n")
	}
	hx.RegisterChild("case", runCase)
	hx.RegisterChild("batch", func(arg string) string {
		scripts := strings.Split(arg, "\n\n")
		out := make([]string, len(scripts))
		for i, sc := range scripts {
			out[i] = runCase(sc)
		}
		return strings.Join(out, "\n\n")
	})
	hx.RegisterChild("last", func(arg string) string {
		exec := newExec()
		ans := ""
		for _, l := range strings.Split(arg, "\n") {
			ans = hx.Recover(func() string { return exec(l) })
		}
		return ans
	})
}
