package skelx

import (
	"strings"
	"time"

	"verifharness/hx"
)

// maxResolved bounds the crashing cases that are resolved op by op in one run (each costs several
// child processes); further crashing cases are reported truncated to nothing and counted.
const maxResolved = 16

var resolved = 0

// Batch runs op scripts in child processes (children registered by RegisterScriptChildren): all
// scripts in ONE child. When that child dies each script gets its own child; for a script whose child
// dies the first fatal op is located by bisection over script prefixes (a prefix dies iff it
// contains a fatal op): the ops before it get their answers, the fatal op is answered `crash` (or
// `hang`) and the rest of that case is dropped — the returned answer list is shorter than the script.
func Batch(c *hx.Ctx, scripts [][]string) [][]string {
	joined := make([]string, len(scripts))
	for i, sc := range scripts {
		joined[i] = strings.Join(sc, "\n")
	}
	split := func(res string, n int) []string {
		a := strings.Split(res, "\n")
		if res == "crash" || res == "hang" || len(a) != n {
			return nil
		}
		return a
	}
	out := make([][]string, len(scripts))
	res := hx.RunChild("batch", strings.Join(joined, "\n\n"), 180*time.Second)
	parts := strings.Split(res, "\n\n")
	if len(parts) == len(scripts) {
		ok := true
		for i := range scripts {
			if out[i] = split(parts[i], len(scripts[i])); out[i] == nil {
				ok = false
			}
		}
		if ok {
			return out
		}
	}
	c.Note("child:batch-died")
	if resolved >= maxResolved {
		// enough fatal ops have been pinned down in this run: the cases of this batch are only counted
		c.Note("child:batch-died-unresolved")
		for i := range out {
			out[i] = []string{}
		}
		return out
	}
	runPrefix := func(sc []string, n int) (string, []string) {
		r := hx.RunChild("case", strings.Join(sc[:n], "\n"), 30*time.Second)
		return r, split(r, n)
	}
	for i, sc := range scripts {
		if _, a := runPrefix(sc, len(sc)); a != nil {
			out[i] = a
			continue
		}
		c.Note("child:case-died")
		if resolved >= maxResolved {
			c.Note("child:case-died-unresolved")
			out[i] = []string{}
			continue
		}
		resolved++
		// smallest n such that the prefix of length n dies: lo survives, hi dies
		lo, hi := 0, len(sc)
		var loAns []string
		how := "crash"
		for hi-lo > 1 {
			mid := (lo + hi) / 2
			if r, a := runPrefix(sc, mid); a != nil {
				lo, loAns = mid, a
			} else {
				hi = mid
				if r == "hang" {
					how = "hang"
				}
			}
		}
		out[i] = append(append([]string{}, loAns...), how)
	}
	return out
}

// RegisterScriptChildren registers the child entry points over an interpreter factory:
// newExec returns a function that executes one op line against a fresh environment.
func RegisterScriptChildren(newExec func() func(op string) string) {
	runCase := func(arg string) string {
		exec := newExec()
		lines := strings.Split(arg, "\n")
		out := make([]string, len(lines))
		for i, l := range lines {
			out[i] = hx.Recover(func() string { return exec(l) })
		}
		return strings.Join(out, "\n")
	}
	hx.RegisterChild("case", runCase)
	hx.RegisterChild("batch", func(arg string) string {
		scripts := strings.Split(arg, "\n\n")
		out := make([]string, len(scripts))
		for i, sc := range scripts {
			out[i] = runCase(sc)
		}
		return strings.Join(out, "\n\n")
	})
}
