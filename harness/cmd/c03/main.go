// C03 harness: worlds of several kinds (basic, mutable after a random edit history, mutable overlay after a
// random edit history, overlay of two basic worlds) over a small universe of points / paths / areas /
// relations in three namespaces with random searchable tags; the world's own view of every feature is dumped
// (FindFeatureByID), then random query trees are run through FindFeatures (ID list, in the order returned) and
// through Query.Matches; b6.MergeFeatures is driven with random sorted ID streams.
package main

import (
	"fmt"
	"os"
	"os/exec"
	"sort"
	"strconv"
	"strings"
	"time"

	"diagonal.works/b6"
	"diagonal.works/b6/ingest"
	"diagonal.works/b6/ingest/compact"
	"github.com/golang/geo/s2"
	"verifharness/hx"
)

// what a case writes: *hx.Ctx in the parent, a recorder in the child processes that build compact worlds
type emitter interface {
	Op(op string, answer string)
	Note(key string)
	NonTrivial()
}

// ---- universe --------------------------------------------------------------------------------

type slot struct {
	id   b6.FeatureID
	refs []int // indices into slots: points of a path, path of an area, members of a relation
}

func fid(t b6.FeatureType, ns string, v uint64) b6.FeatureID {
	return b6.FeatureID{Type: t, Namespace: b6.Namespace(ns), Value: v}
}

var coords = [][2]float64{{51.5350, -0.1250}, {51.5350, -0.1240}, {51.5358, -0.1245}, {51.5362, -0.1252}, {51.5340, -0.1260}, {51.5345, -0.1235}}

// points 0-5 (nsa/1..3, nsb/1, nsb/2, nsa/2^40+1), 6 nsc point; paths 7 (open 0-1), 8 (closed 0-1-2-0), 9 (nsb open 3-4),
// area 10 (path 8), relations 11, 12, path 13 (open 1-2-3)
var slots = []slot{
	{id: fid(b6.FeatureTypePoint, "nsa", 1)},
	{id: fid(b6.FeatureTypePoint, "nsa", 2)},
	{id: fid(b6.FeatureTypePoint, "nsa", 3)},
	{id: fid(b6.FeatureTypePoint, "nsb", 1)},
	{id: fid(b6.FeatureTypePoint, "nsb", 2)},
	{id: fid(b6.FeatureTypePoint, "nsa", 1<<40+1)},
	{id: fid(b6.FeatureTypePoint, "nsc", 0)},
	{id: fid(b6.FeatureTypePath, "nsa", 10), refs: []int{0, 1}},
	{id: fid(b6.FeatureTypePath, "nsa", 11), refs: []int{0, 1, 2, 0}},
	{id: fid(b6.FeatureTypePath, "nsb", 1), refs: []int{3, 4}},
	{id: fid(b6.FeatureTypeArea, "nsa", 20), refs: []int{8}},
	{id: fid(b6.FeatureTypeRelation, "nsa", 30), refs: []int{0, 7}},
	{id: fid(b6.FeatureTypeRelation, "nsb", 1), refs: []int{3}},
	{id: fid(b6.FeatureTypePath, "nsa", 2), refs: []int{1, 2, 5}},
	{id: fid(b6.FeatureTypeCollection, "nsa", 40)},
	{id: fid(b6.FeatureTypeCollection, "nsb", 0)},
}

// Keys include a key that is a prefix of another (#water / #waterway, #a / #amenity); values include non-ASCII UTF-8, the
// characters U+007F and U+0080 first (token bytes 0x7f / 0xc2 0x80 right after the "key=" prefix), an empty value (token
// equal to the prefix), a value containing "=" and a 300-byte value.
var searchKeys = []string{"#amenity", "#highway", "#a", "@lit", "@name", "#water", "#waterway"}
var plainKeys = []string{"name", "note"}
var values = []string{"cafe", "pub", "1", "yes", "a=b", "menity", "", "\u00c9ire", "\u6771\u4eac", "\u007fdel", "\u0080x", "\U0001f600",
	"way", strings.Repeat("v", 300)}

func randTags(r *hx.Rand, max int) []b6.Tag {
	n := r.Intn(max + 1)
	p := r.Perm(len(searchKeys) + len(plainKeys))
	var tags []b6.Tag
	for i := 0; i < n; i++ {
		var k string
		if p[i] < len(searchKeys) {
			k = searchKeys[p[i]]
		} else {
			k = plainKeys[p[i]-len(searchKeys)]
		}
		tags = append(tags, b6.Tag{Key: k, Value: b6.NewStringExpression(r.Pick(values))})
	}
	return tags
}

func build(i int, tags []b6.Tag) ingest.Feature {
	s := slots[i]
	switch s.id.Type {
	case b6.FeatureTypePoint:
		c := coords[i%len(coords)]
		g := &ingest.GenericFeature{ID: s.id, Tags: []b6.Tag{{Key: b6.PointTag, Value: b6.NewPointExpressionFromLatLng(s2.LatLngFromDegrees(c[0], c[1]))}}}
		for _, t := range tags {
			g.AddTag(t)
		}
		return g
	case b6.FeatureTypePath:
		g := &ingest.GenericFeature{ID: s.id}
		for j, p := range s.refs {
			g.ModifyOrAddTagAt(b6.Tag{Key: b6.PathTag, Value: b6.NewFeatureIDExpression(slots[p].id)}, j)
		}
		for _, t := range tags {
			g.AddTag(t)
		}
		return g
	case b6.FeatureTypeArea:
		a := ingest.NewAreaFeature(1)
		a.AreaID = s.id.ToAreaID()
		a.SetPathIDs(0, []b6.FeatureID{slots[s.refs[0]].id})
		for _, t := range tags {
			a.AddTag(t)
		}
		return a
	case b6.FeatureTypeCollection:
		col := &ingest.CollectionFeature{CollectionID: s.id.ToCollectionID(), Keys: []interface{}{"k"}, Values: []interface{}{"v"}}
		for _, t := range tags {
			col.AddTag(t)
		}
		return col
	default:
		rel := ingest.NewRelationFeature(len(s.refs))
		rel.RelationID = s.id.ToRelationID()
		for j, m := range s.refs {
			rel.Members[j] = b6.RelationMember{ID: slots[m].id, Role: "m"}
		}
		for _, t := range tags {
			rel.AddTag(t)
		}
		return rel
	}
}

// closure of a slot set under references, in dependency order
func closure(chosen map[int]bool) []int {
	var order []int
	seen := map[int]bool{}
	var visit func(i int)
	visit = func(i int) {
		if seen[i] {
			return
		}
		seen[i] = true
		for _, r := range slots[i].refs {
			visit(r)
		}
		order = append(order, i)
	}
	var keys []int
	for i := range chosen {
		keys = append(keys, i)
	}
	sort.Ints(keys)
	for _, i := range keys {
		visit(i)
	}
	return order
}

func basicWorld(r *hx.Rand, c emitter, density int, maxTags int) (b6.World, []int) {
	chosen := map[int]bool{}
	for i := range slots {
		if r.Chance(density, 4) {
			chosen[i] = true
		}
	}
	order := closure(chosen)
	b := ingest.NewBasicWorldBuilder(&ingest.BuildOptions{Cores: 1 + r.Intn(2)})
	for _, i := range order {
		tags := randTags(r, maxTags)
		if slots[i].id.Type == b6.FeatureTypePoint && r.Chance(1, 4) {
			tags = nil // a bare point: not searchable
		}
		b.AddFeature(build(i, tags))
	}
	w, err := b.Finish(&ingest.BuildOptions{Cores: 1 + r.Intn(2)})
	if err != nil {
		panic(err)
	}
	return w, order
}

// random edit history on a mutable world; returns the number of edits that succeeded
func edit(r *hx.Rand, c emitter, w ingest.MutableWorld, n int) int {
	done := 0
	for k := 0; k < n; k++ {
		i := r.Intn(len(slots))
		switch x := r.Intn(10); {
		case x < 4:
			keys := append(append([]string{}, searchKeys...), plainKeys...)
			t := b6.Tag{Key: r.Pick(keys), Value: b6.NewStringExpression(r.Pick(values))}
			if hx.Recover(func() string {
				if w.AddTag(slots[i].id, t) != nil {
					return "err"
				}
				return "ok"
			}) == "ok" {
				done++
			}
			c.Note("edit:addtag")
		case x < 7:
			keys := append(append([]string{}, searchKeys...), plainKeys...)
			if hx.Recover(func() string {
				if w.RemoveTag(slots[i].id, r.Pick(keys)) != nil {
					return "err"
				}
				return "ok"
			}) == "ok" {
				done++
			}
			c.Note("edit:rmtag")
		default:
			ok := true
			for _, ref := range slots[i].refs { // only add features whose references exist
				if !w.HasFeatureWithID(slots[ref].id) {
					ok = false
				}
			}
			if !ok {
				continue
			}
			tags := randTags(r, 3)
			if hx.Recover(func() string {
				if w.AddFeature(build(i, tags)) != nil {
					return "err"
				}
				return "ok"
			}) == "ok" {
				done++
			}
			c.Note("edit:addfeature")
		}
	}
	return done
}

// ---- rendering -------------------------------------------------------------------------------

func inAlphabet(k string) bool {
	for _, s := range searchKeys {
		if s == k {
			return true
		}
	}
	for _, s := range plainKeys {
		if s == k {
			return true
		}
	}
	return false
}

func featLine(f b6.Feature) string {
	all := f.AllTags()
	var ts []string
	for _, t := range all {
		if inAlphabet(t.Key) {
			ts = append(ts, t.Key+"="+t.Value.String())
		}
	}
	return fmt.Sprintf("feat %s n=%d %s", f.FeatureID().String(), len(all), hx.List(ts))
}

type qnode struct {
	kind     string // all empty tagged keyed typed and or
	k, v     string
	t        b6.FeatureType
	children []*qnode
}

func (q *qnode) String() string {
	switch q.kind {
	case "all", "empty":
		return "( " + q.kind + " )"
	case "tagged":
		return "( tagged " + q.k + " '" + q.v + " )"
	case "keyed":
		return "( keyed " + q.k + " )"
	case "typed":
		return "( typed " + q.t.String() + " " + q.children[0].String() + " )"
	}
	parts := []string{"(", q.kind}
	for _, c := range q.children {
		parts = append(parts, c.String())
	}
	return strings.Join(append(parts, ")"), " ")
}

func (q *qnode) query() b6.Query {
	switch q.kind {
	case "all":
		return b6.All{}
	case "empty":
		return b6.Empty{}
	case "tagged":
		return b6.Tagged{Key: q.k, Value: b6.NewStringExpression(q.v)}
	case "keyed":
		return b6.Keyed{Key: q.k}
	case "typed":
		return b6.Typed{Type: q.t, Query: q.children[0].query()}
	case "and":
		qs := make(b6.Intersection, len(q.children))
		for i, c := range q.children {
			qs[i] = c.query()
		}
		return qs
	default:
		qs := make(b6.Union, len(q.children))
		for i, c := range q.children {
			qs[i] = c.query()
		}
		return qs
	}
}

func (q *qnode) has(kind string) bool {
	if q.kind == kind {
		return true
	}
	for _, c := range q.children {
		if c.has(kind) {
			return true
		}
	}
	return false
}

func (q *qnode) taggedAt() bool {
	if q.kind == "tagged" && strings.HasPrefix(q.k, "@") {
		return true
	}
	for _, c := range q.children {
		if c.taggedAt() {
			return true
		}
	}
	return false
}

var types = []b6.FeatureType{b6.FeatureTypePoint, b6.FeatureTypePath, b6.FeatureTypeArea, b6.FeatureTypeRelation, b6.FeatureTypeCollection}

func genQuery(r *hx.Rand, depth int) *qnode {
	if depth <= 0 || r.Chance(1, 4) {
		switch x := r.Intn(20); {
		case x == 0:
			return &qnode{kind: "empty"}
		case x < 3:
			return &qnode{kind: "all"}
		case x < 12:
			k := []string{"#amenity", "#highway", "#a", "#water", "#waterway"}[r.Intn(5)] // a # key
			if r.Chance(1, 8) {
				k = searchKeys[3+r.Intn(2)] // an @ key: the known class
			}
			return &qnode{kind: "tagged", k: k, v: r.Pick(values)}
		default:
			return &qnode{kind: "keyed", k: r.Pick(searchKeys)}
		}
	}
	switch x := r.Intn(10); {
	case x < 3:
		return &qnode{kind: "typed", t: types[r.Intn(len(types))], children: []*qnode{genQuery(r, depth-1)}}
	case x < 7:
		n := 1 + r.Intn(3)
		if r.Chance(1, 25) {
			n = 0
		}
		q := &qnode{kind: "and"}
		for i := 0; i < n; i++ {
			q.children = append(q.children, genQuery(r, depth-1))
		}
		return q
	default:
		n := r.Intn(4)
		q := &qnode{kind: "or"}
		for i := 0; i < n; i++ {
			q.children = append(q.children, genQuery(r, depth-1))
		}
		return q
	}
}

func idList(ids []b6.FeatureID) string {
	xs := make([]string, len(ids))
	for i, id := range ids {
		xs[i] = id.String()
	}
	return hx.List(xs)
}

func find(w b6.World, q b6.Query) string {
	return hx.Recover(func() string {
		var ids []b6.FeatureID
		fs := w.FindFeatures(q)
		for fs.Next() {
			ids = append(ids, fs.FeatureID())
			if len(ids) > 1000 {
				return "hang"
			}
		}
		return idList(ids)
	})
}

func dumpAndQuery(c emitter, r *hx.Rand, kind string, w b6.World, nq int) {
	c.Op("world "+kind, "ok")
	var feats []b6.Feature
	bare := 0
	for _, s := range slots {
		if f := w.FindFeatureByID(s.id); f != nil {
			feats = append(feats, f)
			c.Op(featLine(f), "ok")
			if s.id.Type == b6.FeatureTypePoint && len(f.AllTags()) == 1 {
				bare++
			}
		}
	}
	c.Note(fmt.Sprintf("world:%s", kind))
	c.Note(fmt.Sprintf("features:%d", len(feats)))
	nontrivial := false
	for i := 0; i < nq; i++ {
		q := genQuery(r, r.Intn(4))
		if q.taggedAt() {
			c.Note("query:tagged-at-key")
		}
		c.Note("root:" + q.kind)
		ans := find(w, q.query())
		c.Op("find "+q.String(), ans)
		if ans != "[]" && (q.has("and") || q.has("or")) && q.has("typed") {
			nontrivial = true
		}
		if r.Chance(1, 2) {
			m := hx.Recover(func() string {
				var ids []b6.FeatureID
				for _, f := range feats {
					if q.query().Matches(f, w) {
						ids = append(ids, f.FeatureID())
					}
				}
				return idList(ids)
			})
			c.Op("matches "+q.String(), m)
		}
	}
	if nontrivial && len(feats) >= 4 {
		c.NonTrivial()
	}
}

// ---- MergeFeatures ----------------------------------------------------------------------------

type idFeatures struct {
	ids []b6.FeatureID
	i   int
}

func (f *idFeatures) Next() bool             { f.i++; return f.i < len(f.ids) }
func (f *idFeatures) FeatureID() b6.FeatureID { return f.ids[f.i] }
func (f *idFeatures) Feature() b6.Feature     { return nil }

// the number of merged sources is a dimension of its own: the heap only gets deep with many live streams
var mergeWidths = []int{0, 1, 2, 3, 4, 5, 6, 7, 8, 12, 16}

func mergeCase(c *hx.Ctx) {
	r := c.Rand
	var pool []b6.FeatureID
	dens := 1 + r.Intn(3)
	for _, t := range types {
		for _, ns := range []string{"nsa", "nsb", "nsc"} {
			for _, v := range []uint64{0, 1, 2, 3, 7, 1 << 40, 1<<40 + 1} {
				if r.Chance(dens, 4) {
					pool = append(pool, fid(t, ns, v))
				}
			}
		}
	}
	sort.Sort(b6.FeatureIDs(pool))
	k := mergeWidths[r.Intn(len(mergeWidths))]
	var streams []b6.Features
	var parts []string
	share := 1 + r.Intn(4) // how much the sources overlap
	for i := 0; i < k; i++ {
		var ids []b6.FeatureID
		for _, id := range pool {
			if r.Chance(share, 5) {
				ids = append(ids, id)
			}
		}
		if r.Chance(1, 10) {
			ids = nil // an empty source
		}
		if r.Chance(1, 10) && i > 0 {
			ids = append([]b6.FeatureID{}, streams[i-1].(*idFeatures).ids...) // an exact duplicate of the previous source
		}
		streams = append(streams, &idFeatures{ids: ids, i: -1})
		parts = append(parts, idList(ids))
	}
	ans := hx.Recover(func() string {
		var out []b6.FeatureID
		m := b6.MergeFeatures(streams...)
		for m.Next() {
			out = append(out, m.FeatureID())
			if len(out) > 1000 {
				return "hang"
			}
		}
		return idList(out)
	})
	if k == 0 {
		c.Op("merge -", ans)
	} else {
		c.Op("merge "+strings.Join(parts, " | "), ans)
	}
	c.Note(fmt.Sprintf("merge:streams=%d", k))
}

// ---- compact worlds (in child processes) ---------------------------------------------------------
//
// compact.Build allocates large scratch buffers on every pass; in a long-lived process the collector makes each
// build take seconds. The compact cases of a run are therefore generated in child processes (collector off), a
// block of case numbers per child; the child regenerates each case from (seed, case number) and sends back its
// transcript, which the parent writes out unchanged.

const compactEvery = 25 // case numbers ≡ compactAt (mod compactEvery) are compact cases
const compactAt = 7
const compactBlock = 12

func caseRand(seed uint64, no int) *hx.Rand { // as hx.Main derives it
	return hx.NewRand(seed*0x9e3779b97f4a7c15 ^ uint64(no)*0xd1342543de82ef95 ^ 0x5851f42d4c957f2d)
}

type recorder struct{ sb *strings.Builder }

func (r recorder) Op(op string, answer string) { fmt.Fprintf(r.sb, "O\t%s\t%s\n", op, answer) }
func (r recorder) Note(key string)             { fmt.Fprintf(r.sb, "N\t%s\n", key) }
func (r recorder) NonTrivial()                 { fmt.Fprintf(r.sb, "T\n") }

func compactData(feats []ingest.Feature) ([]byte, error) {
	o := compact.Options{Goroutines: 1, PointsScratchOutputType: compact.OutputTypeMemory}
	return compact.BuildInMemory(ingest.MemoryFeatureSource(feats), &o)
}

// one compact case: a single file, or 2-3 files (each closed under references; a feature present in several
// files is identical in all of them) merged into one world
func compactCase(em emitter, r *hx.Rand, no int, thorough bool) {
	tags := make([][]b6.Tag, len(slots))
	for i := range slots {
		tags[i] = randTags(r, 3)
		if slots[i].id.Type == b6.FeatureTypePoint && r.Chance(1, 4) {
			tags[i] = nil
		}
	}
	nfiles := 1
	if (no/compactEvery)%2 == 1 {
		nfiles = 2 + r.Intn(2)
		if thorough && r.Chance(1, 4) {
			nfiles = 6 + r.Intn(3)
		}
	}
	w := compact.NewWorld()
	for k := 0; k < nfiles; k++ {
		chosen := map[int]bool{}
		for i := range slots {
			den := 1 + nfiles
			if den > 4 {
				den = 4
			}
			if slots[i].id.Type != b6.FeatureTypeCollection && r.Chance(2, den) {
				chosen[i] = true
			}
		}
		var feats []ingest.Feature
		for _, i := range closure(chosen) {
			feats = append(feats, build(i, tags[i]))
		}
		data, err := compactData(feats)
		if err == nil {
			err = w.Merge(data)
		}
		if err != nil {
			em.Op("world compact", "err")
			return
		}
	}
	kind := "compact"
	if nfiles > 1 {
		kind = "compact-merged"
		em.Note(fmt.Sprintf("compact:files=%d", nfiles))
	}
	dumpAndQuery(em, r, kind, w, 3+r.Intn(6))
}

func compactChild(arg string) string {
	f := strings.Fields(arg)
	seed, _ := strconv.ParseUint(f[0], 10, 64)
	thorough := f[1] == "thorough"
	var sb strings.Builder
	for _, a := range f[2:] {
		no, _ := strconv.Atoi(a)
		fmt.Fprintf(&sb, "C\t%d\n", no)
		ans := hx.Recover(func() string { compactCase(recorder{&sb}, caseRand(seed, no), no, thorough); return "ok" })
		if ans != "ok" {
			fmt.Fprintf(&sb, "O\tworld compact\tpanic\n")
		}
	}
	return sb.String()
}

func spawn(name, arg string, timeout time.Duration) string {
	self, _ := os.Executable()
	cmd := exec.Command(self)
	cmd.Env = append(os.Environ(), "HX_CHILD="+name, "GOGC=off", "GOMAXPROCS=2")
	cmd.Stdin = strings.NewReader(arg)
	var sb strings.Builder
	cmd.Stdout = &sb
	if err := cmd.Start(); err != nil {
		return "crash"
	}
	done := make(chan error, 1)
	go func() { done <- cmd.Wait() }()
	select {
	case <-done:
	case <-time.After(timeout):
		cmd.Process.Kill()
		<-done
		return "hang"
	}
	out := sb.String()
	if i := strings.LastIndex(out, "HXRESULT "); i >= 0 {
		return out[i+len("HXRESULT "):]
	}
	return "crash"
}

// blocks of compact cases are built by up to `compactAhead` children at a time, started ahead of need
const compactAhead = 4

var compactBlocks = map[int]chan map[int][]string{} // block number -> its transcripts by case number

func blockNos(b int) []int {
	var nos []int
	for k := 0; k < compactBlock; k++ {
		nos = append(nos, compactAt+(b*compactBlock+k)*compactEvery)
	}
	return nos
}

var runTier = "quick"

func startBlock(seed uint64, b int) {
	if _, ok := compactBlocks[b]; ok {
		return
	}
	ch := make(chan map[int][]string, 1)
	compactBlocks[b] = ch
	go func() {
		nos := blockNos(b)
		args := []string{strconv.FormatUint(seed, 10), runTier}
		for _, no := range nos {
			args = append(args, strconv.Itoa(no))
		}
		out := spawn("compact", strings.Join(args, " "), 300*time.Second)
		res := map[int][]string{}
		if out == "hang" || out == "crash" {
			for _, no := range nos {
				res[no] = []string{"O\tworld compact\t" + out}
			}
		} else {
			cur := -1
			for _, line := range strings.Split(out, "\n") {
				if strings.HasPrefix(line, "C\t") {
					cur, _ = strconv.Atoi(line[2:])
					res[cur] = []string{}
				} else if line != "" && cur >= 0 {
					res[cur] = append(res[cur], line)
				}
			}
		}
		ch <- res
	}()
}

var compactDone = map[int]map[int][]string{}

func compactTranscript(c *hx.Ctx) []string {
	runTier = c.Tier
	b := (c.CaseNo - compactAt) / compactEvery / compactBlock
	for a := 0; a < compactAhead; a++ {
		startBlock(c.Seed, b+a)
	}
	if _, ok := compactDone[b]; !ok {
		compactDone[b] = <-compactBlocks[b]
		delete(compactDone, b-1)
	}
	return compactDone[b][c.CaseNo]
}

func oneCase(c *hx.Ctx) {
	if c.CaseNo%compactEvery == compactAt {
		for _, line := range compactTranscript(c) {
			f := strings.Split(line, "\t")
			switch f[0] {
			case "O":
				c.Op(f[1], f[2])
			case "N":
				c.Note(f[1])
			case "T":
				c.NonTrivial()
			}
		}
		return
	}
	r := c.Rand
	nq := 3 + r.Intn(6)
	switch c.CaseNo % 5 {
	case 0:
		w, _ := basicWorld(r, c, 3, 4)
		dumpAndQuery(c, r, "basic", w, nq)
	case 1:
		m := ingest.NewBasicMutableWorld()
		chosen := map[int]bool{}
		for i := range slots {
			if r.Chance(3, 4) {
				chosen[i] = true
			}
		}
		for _, i := range closure(chosen) {
			tags := randTags(r, 3)
			if slots[i].id.Type == b6.FeatureTypePoint && r.Chance(1, 4) {
				tags = nil
			}
			if err := m.AddFeature(build(i, tags)); err != nil {
				panic(err)
			}
		}
		n := edit(r, c, m, r.Intn(12))
		c.Note(fmt.Sprintf("edits:%d", n))
		dumpAndQuery(c, r, "mutable", m, nq)
	case 2:
		base, _ := basicWorld(r, c, 2, 3)
		m := ingest.NewMutableOverlayWorld(base)
		n := edit(r, c, m, r.Intn(14))
		c.Note(fmt.Sprintf("edits:%d", n))
		dumpAndQuery(c, r, "mutable-overlay", m, nq)
	case 3:
		base, _ := basicWorld(r, c, 3, 3)
		over, _ := basicWorld(r, c, 1, 3)
		dumpAndQuery(c, r, "overlay", ingest.NewOverlayWorld(over, base), nq)
	default:
		for i := 0; i < 6; i++ {
			mergeCase(c)
		}
	}
}

func corpus(c *hx.Ctx) {
	// DESIGN §7 C03: Tagged{@name=foo} on a point tagged @name=foo; Typed{point, keyed #nothing}.Matches
	b := ingest.NewBasicWorldBuilder(&ingest.BuildOptions{Cores: 1})
	b.AddFeature(build(0, []b6.Tag{{Key: "@name", Value: b6.NewStringExpression("yes")}}))
	b.AddFeature(build(1, []b6.Tag{{Key: "#amenity", Value: b6.NewStringExpression("cafe")}}))
	b.AddFeature(build(2, nil))
	b.AddFeature(build(7, []b6.Tag{{Key: "#highway", Value: b6.NewStringExpression("1")}}))
	w, err := b.Finish(&ingest.BuildOptions{Cores: 1})
	if err != nil {
		panic(err)
	}
	c.Op("world basic", "ok")
	var feats []b6.Feature
	for _, s := range slots {
		if f := w.FindFeatureByID(s.id); f != nil {
			feats = append(feats, f)
			c.Op(featLine(f), "ok")
		}
	}
	qs := []*qnode{
		{kind: "tagged", k: "@name", v: "yes"},
		{kind: "typed", t: b6.FeatureTypePoint, children: []*qnode{{kind: "keyed", k: "#highway"}}},
		{kind: "and"},
		{kind: "all"},
		{kind: "typed", t: b6.FeatureTypePath, children: []*qnode{{kind: "or", children: []*qnode{{kind: "keyed", k: "#highway"}, {kind: "keyed", k: "#amenity"}}}}},
	}
	for _, q := range qs {
		c.Op("find "+q.String(), find(w, q.query()))
		c.Op("matches "+q.String(), hx.Recover(func() string {
			var ids []b6.FeatureID
			for _, f := range feats {
				if q.query().Matches(f, w) {
					ids = append(ids, f.FeatureID())
				}
			}
			return idList(ids)
		}))
	}
	// fixed (C03-retokenise-on-tag-edit): a bare point gaining a tag / a point stripped back to its location;
	// fixed (C03-typed-collection-range): Typed{collection} panicked
	m := ingest.NewBasicMutableWorld()
	for _, f := range []ingest.Feature{build(0, nil), build(1, []b6.Tag{{Key: "#amenity", Value: b6.NewStringExpression("cafe")}}),
		build(14, []b6.Tag{{Key: "#amenity", Value: b6.NewStringExpression("pub")}})} {
		if err := m.AddFeature(f); err != nil {
			panic(err)
		}
	}
	m.AddTag(slots[0].id, b6.Tag{Key: "note", Value: b6.NewStringExpression("1")})
	m.RemoveTag(slots[1].id, "#amenity")
	base, err := func() (b6.World, error) {
		b := ingest.NewBasicWorldBuilder(&ingest.BuildOptions{Cores: 1})
		b.AddFeature(build(0, nil))
		b.AddFeature(build(1, []b6.Tag{{Key: "name", Value: b6.NewStringExpression("1")}}))
		return b.Finish(&ingest.BuildOptions{Cores: 1})
	}()
	if err != nil {
		panic(err)
	}
	mo := ingest.NewMutableOverlayWorld(base)
	mo.AddTag(slots[0].id, b6.Tag{Key: "note", Value: b6.NewStringExpression("1")})
	mo.RemoveTag(slots[1].id, "name")
	for _, kw := range []struct {
		kind string
		w    b6.World
	}{{"mutable", m}, {"mutable-overlay", mo}} {
		c.Op("world "+kw.kind, "ok")
		for _, s := range slots {
			if f := kw.w.FindFeatureByID(s.id); f != nil {
				c.Op(featLine(f), "ok")
			}
		}
		for _, q := range []*qnode{{kind: "all"}, {kind: "typed", t: b6.FeatureTypeCollection, children: []*qnode{{kind: "keyed", k: "#amenity"}}},
			{kind: "typed", t: b6.FeatureTypePoint, children: []*qnode{{kind: "and"}}}} {
			c.Op("find "+q.String(), find(kw.w, q.query()))
		}
	}
	c.NonTrivial()
}

func main() {
	hx.RegisterChild("compact", compactChild)
	hx.Main(hx.Family{
		Name: "c03",
		Rule: "universe of 16 features (7 points, 4 paths, 1 area, 2 relations, 2 collections; namespaces nsa/nsb/nsc; values 0..30 and 2^40+1) with 0-4 random tags from 7 searchable (#amenity #highway #a @lit @name #water #waterway; prefixes of one another) + 2 plain keys and 14 values (ASCII, non-ASCII UTF-8, U+007F / U+0080 first, one containing '=', one empty, one of 300 bytes), 1/4 of the points bare; case kinds round-robin: basic world, BasicMutableWorld after 0-11 random AddTag/RemoveTag/AddFeature edits, MutableOverlayWorld over a basic world after 0-13 edits, OverlayWorld of two basic worlds, MergeFeatures over k in {0,1,2,3,4,5,6,7,8,12,16} sorted ID streams drawn from up to 84 IDs with varying overlap, empty and exactly duplicated streams; every 25th case (built in child processes) a compact world from one file or merged from 2-3 files (thorough: 1 in 4 of the merged ones from 6-8 files) (each closed under references, shared features identical); per world 3-8 random query trees (depth <= 3) over all/empty/tagged/keyed/typed/and/or: FindFeatures ID list and (half of them) Query.Matches over every feature; non-trivial = a non-empty result of a query containing typed and (and|or) on a world with >= 4 features",
		Quick:    2500,
		Thorough: 20000,
		Corpus:   corpus,
		Case:     oneCase,
	})
}
