package main

// A persistent child process ("worker") that executes the concurrent part of a case, so that a fatal
// runtime error (concurrent map writes), a race report (the binary is built with -race and the worker runs
// with GORACE=halt_on_error=1) or a hang is attributed to the case that caused it: the parent sends one JSON
// plan per line, the worker answers one line per round and then "END".  When the worker dies or stops
// answering, the parent classifies the failure from stderr / the timeout and starts a new worker.

import (
	"bufio"
	"bytes"
	"io"
	"os"
	"os/exec"
	"strings"
	"sync"
	"time"
)

const workerEnv = "VERIF_C40_WORKER"

type worker struct {
	cmd    *exec.Cmd
	in     io.WriteCloser
	out    *bufio.Reader
	stderr *lockedBuffer
	lines  chan string
}

type lockedBuffer struct {
	mu sync.Mutex
	b  bytes.Buffer
}

func (l *lockedBuffer) Write(p []byte) (int, error) {
	l.mu.Lock()
	defer l.mu.Unlock()
	if l.b.Len() < 1<<20 {
		l.b.Write(p)
	}
	return len(p), nil
}

func (l *lockedBuffer) String() string {
	l.mu.Lock()
	defer l.mu.Unlock()
	return l.b.String()
}

func startWorker() *worker {
	self, _ := os.Executable()
	cmd := exec.Command(self)
	cmd.Env = append(os.Environ(), workerEnv+"=1", "GORACE=halt_on_error=1 exitcode=66", "GOMEMLIMIT=2GiB")
	w := &worker{cmd: cmd, stderr: &lockedBuffer{}, lines: make(chan string, 64)}
	w.in, _ = cmd.StdinPipe()
	so, _ := cmd.StdoutPipe()
	cmd.Stderr = w.stderr
	if err := cmd.Start(); err != nil {
		panic("harness: cannot start worker: " + err.Error())
	}
	w.out = bufio.NewReaderSize(so, 1<<20)
	go func() {
		for {
			line, err := w.out.ReadString('\n')
			if line != "" {
				w.lines <- strings.TrimRight(line, "\n")
			}
			if err != nil {
				close(w.lines)
				return
			}
		}
	}()
	return w
}

func (w *worker) kill() {
	w.in.Close()
	w.cmd.Process.Kill()
	w.cmd.Wait()
}

// classify maps the way the worker died to an answer word.
func classify(stderr string) string {
	switch {
	case strings.Contains(stderr, "DATA RACE"):
		return "race"
	case strings.Contains(stderr, "concurrent map"), strings.Contains(stderr, "fatal error: sync:"):
		return "fatal"
	case strings.Contains(stderr, "all goroutines are asleep"):
		return "hang"
	}
	return "crash"
}

// run sends one plan and collects the per-round answers.  ok=false: the worker is gone (killed here); the
// last answer is the failure class and the stderr text is returned for the replay comment.
func (w *worker) run(plan string, timeout time.Duration) (answers []string, ok bool, stderr string) {
	if _, err := io.WriteString(w.in, plan+"\n"); err != nil {
		w.kill()
		return []string{classify(w.stderr.String())}, false, w.stderr.String()
	}
	deadline := time.After(timeout)
	for {
		select {
		case line, open := <-w.lines:
			if !open {
				w.cmd.Wait()
				return append(answers, classify(w.stderr.String())), false, w.stderr.String()
			}
			if line == "END" {
				return answers, true, ""
			}
			if line == "HANG" { // the worker's own round timeout fired: goroutines are stuck in there
				w.kill()
				return append(answers, "hang"), false, ""
			}
			answers = append(answers, line)
		case <-deadline:
			w.kill()
			return append(answers, "hang"), false, ""
		}
	}
}
