// C40 harness: rounds of 2-4 concurrent requests (evaluate to a change / evaluate a query / delete-world /
// list-worlds) against a real in-process grpc.NewB6Service, from one goroutine per request.  The concurrent
// part runs in a worker child (worker.go) built with -race, so that a race report, a fatal runtime error or
// a hang becomes the answer of the round that caused it.
//
// World content: points p0..p3 (namespace "v"), tag keys t0..t3; model key = feature*8 + tag index, values
// are small numbers.  World IDs 0..2 are the roots /collection/r/<n>.
//
//	base {k=v,…}        => {k=v,…}        content of a fresh world (the service's base world)
//	worlds []           => []             no world exists yet
//	round [req …]       => [wid:{…} …]    the worlds after all requests of the round returned
//
// requests: q<wid> | d<wid> | l | c<wid>(rule;…), rule = [<k>? | <k>!](+k=v | -k)
//
// A change request is an expression calling a function symbol registered by the harness: it evaluates the
// rules' guards on the real world handed to it (under the service's read lock), returns the resulting
// ingest.Change (AddTags / RemoveTags / MergedChange) and — when the round's seeded plan says "rendezvous" —
// waits before returning until every change request of the round has read, which puts all of them into the
// gap between the read phase and the write phase at the same time.  Blind single-tag changes are also sent
// as the plain shell expression `add-tag`.
//
// The final worlds depend on the Go scheduler, so the answers (not the verdict classes) can differ between
// two runs with the same seed.
package main

import (
	"bufio"
	"context"
	"encoding/json"
	"fmt"
	"os"
	"sort"
	"strings"
	"sync"
	"time"

	"diagonal.works/b6"
	"diagonal.works/b6/api"
	"diagonal.works/b6/api/functions"
	"diagonal.works/b6/grpc"
	"diagonal.works/b6/ingest"
	pb "diagonal.works/b6/proto"
	"github.com/golang/geo/s2"
	"verifharness/hx"
)

const nFeatures, nTags, nWorlds = 4, 4, 3

type Rule struct {
	G   int  `json:"g"`  // guard key, -1 = none
	GP  bool `json:"gp"` // guard: key present (true) / absent (false)
	Set bool `json:"s"`
	K   int  `json:"k"`
	V   int  `json:"v"`
	// Fail > 0: an element that fails when applied — 1 add-tag on a missing point, 2 remove-tag on a missing
	// point, 3 AddFeatures with an invalid feature ID (K is then 400.., the key of nothing)
	Fail int `json:"f"`
}

type Req struct {
	Kind   string `json:"kind"` // q c d l, a = add-world-with-change (evaluated on Wid, replaces world Target)
	Wid    int    `json:"wid"`
	Target int    `json:"target"`
	Rules  []Rule `json:"rules"`
	Shell  bool   `json:"shell"` // send a blind single set as `add-tag`
	// Atomic: built as a MergedChange of one part per rule, so a failing part leaves nothing applied; in the op
	// text the failing rules are then written first (same outcome for the model's stop-at-first-failure list)
	Atomic bool `json:"atomic"`
}

type Round struct {
	Reqs       []Req `json:"reqs"`
	Rendezvous bool  `json:"rv"`
	Jitter     []int `json:"jit"` // start delay per request, microseconds
}

type Plan struct {
	Base   [][2]int `json:"base"`
	Rounds []Round  `json:"rounds"`
}

func (r Rule) text() string {
	g := ""
	if r.G >= 0 {
		if r.GP {
			g = fmt.Sprintf("%d?", r.G)
		} else {
			g = fmt.Sprintf("%d!", r.G)
		}
	}
	if r.Fail > 0 {
		return fmt.Sprintf("%s~%d", g, r.K)
	}
	if r.Set {
		return fmt.Sprintf("%s+%d=%d", g, r.K, r.V)
	}
	return fmt.Sprintf("%s-%d", g, r.K)
}

func (q Req) text() string {
	switch q.Kind {
	case "q":
		return fmt.Sprintf("q%d", q.Wid)
	case "d":
		return fmt.Sprintf("d%d", q.Wid)
	case "l":
		return "l"
	}
	var rs []string
	if q.Atomic {
		for _, r := range q.Rules {
			if r.Fail > 0 {
				rs = append(rs, r.text())
			}
		}
	}
	for _, r := range q.Rules {
		if !(q.Atomic && r.Fail > 0) {
			rs = append(rs, r.text())
		}
	}
	if q.Kind == "a" {
		return fmt.Sprintf("a%dt%d(%s)", q.Wid, q.Target, strings.Join(rs, ";"))
	}
	return fmt.Sprintf("c%d(%s)", q.Wid, strings.Join(rs, ";"))
}

func worldText(kv [][2]int) string {
	sort.Slice(kv, func(i, j int) bool { return kv[i][0] < kv[j][0] })
	xs := make([]string, len(kv))
	for i, p := range kv {
		xs[i] = fmt.Sprintf("%d=%d", p[0], p[1])
	}
	return "{" + strings.Join(xs, ",") + "}"
}

// ---- worker side: the real service ---------------------------------------------------------------

func pid(f int) b6.FeatureID {
	return b6.FeatureID{Type: b6.FeatureTypePoint, Namespace: "v", Value: uint64(f)}
}
func root(w int) b6.FeatureID {
	return b6.FeatureID{Type: b6.FeatureTypeCollection, Namespace: "r", Value: uint64(w)}
}
func tagKey(k int) string { return fmt.Sprintf("t%d", k%8) }

type roundState struct {
	reqs    []Req
	rv      bool
	mu      sync.Mutex
	arrived int
	want    int
	all     chan struct{}
}

var current *roundState

func (rs *roundState) rendezvous() {
	if !rs.rv {
		return
	}
	rs.mu.Lock()
	rs.arrived++
	if rs.arrived == rs.want {
		close(rs.all)
	}
	rs.mu.Unlock()
	select {
	case <-rs.all:
	case <-time.After(25 * time.Millisecond): // a participant is held up elsewhere: give up waiting
	}
}

func hasKey(w b6.World, k int) bool {
	f := w.FindFeatureByID(pid(k / 8))
	return f != nil && f.Get(tagKey(k)).IsValid()
}

func init() {
	functions.Functions()["verif-c40-change"] = func(c *api.Context, n int) (ingest.Change, error) {
		rs := current
		q := rs.reqs[n]
		var parts ingest.MergedChange
		plain := true // expressible as one AddTags list (sets and add-tag-on-missing only)
		var sets ingest.AddTags
		for _, r := range q.Rules {
			if r.G >= 0 && hasKey(c.World, r.G) != r.GP {
				continue
			}
			switch {
			case r.Fail == 1:
				t := ingest.AddTag{ID: pid(50 + r.K%8), Tag: b6.Tag{Key: "t0", Value: b6.NewStringExpression("x")}}
				parts = append(parts, ingest.AddTags{t})
				sets = append(sets, t)
			case r.Fail == 2:
				plain = false
				parts = append(parts, ingest.RemoveTags{ingest.RemoveTag{ID: pid(50 + r.K%8), Key: "t0"}})
			case r.Fail == 3:
				plain = false
				bad := ingest.AddFeatures([]ingest.Feature{&ingest.GenericFeature{ID: b6.FeatureIDInvalid}})
				parts = append(parts, &bad)
			case r.Set:
				t := ingest.AddTag{ID: pid(r.K / 8), Tag: b6.Tag{Key: tagKey(r.K), Value: b6.NewStringExpression(fmt.Sprintf("%d", r.V))}}
				parts = append(parts, ingest.AddTags{t})
				sets = append(sets, t)
			default:
				plain = false
				parts = append(parts, ingest.RemoveTags{ingest.RemoveTag{ID: pid(r.K / 8), Key: tagKey(r.K)}})
			}
		}
		rs.rendezvous()
		if plain && !q.Atomic {
			return sets, nil
		}
		return parts, nil
	}
	functions.Functions()["verif-c40-read"] = func(c *api.Context, n int) (int, error) {
		count := 0
		for k := 0; k < nFeatures*8; k++ {
			if k%8 < nTags && hasKey(c.World, k) {
				count++
			}
		}
		return count, nil
	}
}

func mustProto(e string) *pb.NodeProto {
	ex, err := api.ParseExpression(e)
	if err != nil {
		panic("harness: cannot parse " + e + ": " + err.Error())
	}
	p, err := ex.ToProto()
	if err != nil {
		panic(err)
	}
	return p
}

type sut struct {
	worlds *ingest.MutableWorlds
	lock   sync.RWMutex
	svc    pb.B6Server
}

func newSUT(base [][2]int) *sut {
	w := ingest.NewBasicMutableWorld()
	for f := 0; f < nFeatures; f++ {
		g := &ingest.GenericFeature{ID: pid(f)}
		g.ModifyOrAddTag(b6.Tag{Key: b6.PointTag, Value: b6.NewPointExpressionFromLatLng(s2.LatLngFromDegrees(51.5+float64(f)*0.001, -0.1))})
		for _, kv := range base {
			if kv[0]/8 == f {
				g.ModifyOrAddTag(b6.Tag{Key: tagKey(kv[0]), Value: b6.NewStringExpression(fmt.Sprintf("%d", kv[1]))})
			}
		}
		if err := w.AddFeature(g); err != nil {
			panic(err)
		}
	}
	s := &sut{worlds: &ingest.MutableWorlds{Base: w}}
	s.svc = grpc.NewB6Service(s.worlds, api.Options{Cores: 1}, &s.lock)
	return s
}

// request builds the request before the goroutines start: api.ParseExpression writes a package-level
// variable (yyErrorVerbose) and must not be called concurrently.
func request(i int, q Req) *pb.EvaluateRequestProto {
	var e string
	switch q.Kind {
	case "q":
		e = fmt.Sprintf("verif-c40-read %d", i)
	case "a":
		e = fmt.Sprintf("add-world-with-change /%s (verif-c40-change %d)", root(q.Target).String(), i)
	case "c":
		e = fmt.Sprintf("verif-c40-change %d", i)
		if shellForm(q) {
			r := q.Rules[0]
			e = fmt.Sprintf("add-tag /%s %s=\"%d\"", pid(r.K/8).String(), tagKey(r.K), r.V)
		}
	default:
		return nil
	}
	return &pb.EvaluateRequestProto{Request: mustProto(e), Version: b6.ApiVersion, Root: b6.NewProtoFromFeatureID(root(q.Wid))}
}

func mayFail(q Req) bool {
	for _, r := range q.Rules {
		if r.Fail > 0 {
			return true
		}
	}
	return false
}

// normalise makes the request expressible: a failing element inside a list that is not a pure AddTags list
// needs the atomic (MergedChange) form
func normalise(q *Req) {
	if !mayFail(*q) {
		q.Atomic = false
		return
	}
	for _, r := range q.Rules {
		if r.Fail > 1 || (r.Fail == 0 && !r.Set) {
			q.Atomic = true
		}
	}
}

func shellForm(q Req) bool {
	return q.Kind == "c" && q.Shell && len(q.Rules) == 1 && q.Rules[0].G < 0 && q.Rules[0].Set && q.Rules[0].Fail == 0
}

// decode renders an Evaluate response: e = error, i<f.f.f> = the returned feature IDs (values), n<k> = an integer
func decode(resp *pb.EvaluateResponseProto, err error) string {
	if err != nil {
		return "e"
	}
	ex, err := b6.ExpressionFromProto(resp.Result)
	if err != nil {
		return "undecodable"
	}
	switch v := ex.AnyExpression.(type) {
	case b6.IntExpression:
		return fmt.Sprintf("n%d", int(v))
	case b6.CollectionExpression:
		var xs []string
		i := v.BeginUntyped()
		for {
			ok, err := i.Next()
			if err != nil {
				return "undecodable"
			}
			if !ok {
				break
			}
			if id, ok := i.Key().(b6.FeatureID); ok {
				xs = append(xs, fmt.Sprintf("%d", id.Value))
			} else {
				return "undecodable"
			}
		}
		return "i" + strings.Join(xs, ".")
	}
	return "other"
}

// issue sends the request and renders its response (compared with the response the request has at its position in a
// serial order)
func (s *sut) issue(q Req, request *pb.EvaluateRequestProto) string {
	ctx := context.Background()
	switch q.Kind {
	case "q":
		return decode(s.svc.Evaluate(ctx, request))
	case "c", "a":
		resp, err := s.svc.Evaluate(ctx, request)
		if err != nil && !mayFail(q) {
			panic("harness: change request failed: " + err.Error())
		}
		return decode(resp, err)
	case "d":
		s.svc.DeleteWorld(ctx, &pb.DeleteWorldRequestProto{Id: b6.NewProtoFromFeatureID(root(q.Wid))})
		return "-"
	case "l":
		resp, err := s.svc.ListWorlds(ctx, &pb.ListWorldsRequestProto{})
		if err != nil {
			return "e"
		}
		var ws []int
		for _, id := range resp.Ids {
			fid := b6.NewFeatureIDFromProto(id)
			if fid == ingest.DefaultWorldFeatureID {
				return "wd"
			}
			ws = append(ws, int(fid.Value))
		}
		sort.Ints(ws)
		xs := make([]string, len(ws))
		for i, w := range ws {
			xs[i] = fmt.Sprintf("%d", w)
		}
		return "w" + strings.Join(xs, ".")
	}
	return "?"
}

func (s *sut) view() string {
	var wids []int
	for id := range s.worlds.Mutable {
		wids = append(wids, int(id.Value))
	}
	sort.Ints(wids)
	xs := make([]string, len(wids))
	for i, wid := range wids {
		w := s.worlds.Mutable[root(wid)]
		var kv [][2]int
		for k := 0; k < nFeatures*8; k++ {
			if k%8 >= nTags {
				continue
			}
			if f := w.FindFeatureByID(pid(k / 8)); f != nil {
				if t := f.Get(tagKey(k)); t.IsValid() {
					v := 0
					fmt.Sscanf(t.Value.String(), "%d", &v)
					kv = append(kv, [2]int{k, v})
				}
			}
		}
		xs[i] = fmt.Sprintf("%d:%s", wid, worldText(kv))
	}
	return hx.List(xs)
}

// runRound: nil = the round did not finish in time; otherwise the response of every request
func (s *sut) runRound(r Round) []string {
	rs := &roundState{reqs: r.Reqs, rv: r.Rendezvous, all: make(chan struct{})}
	for _, q := range r.Reqs {
		if (q.Kind == "c" || q.Kind == "a") && !shellForm(q) {
			rs.want++
		}
	}
	current = rs
	var wg sync.WaitGroup
	responses := make([]string, len(r.Reqs))
	requests := make([]*pb.EvaluateRequestProto, len(r.Reqs))
	for i, q := range r.Reqs {
		requests[i] = request(i, q)
	}
	for i, q := range r.Reqs {
		wg.Add(1)
		go func(i int, q Req) {
			defer wg.Done()
			if i < len(r.Jitter) && r.Jitter[i] > 0 {
				time.Sleep(time.Duration(r.Jitter[i]) * time.Microsecond)
			}
			responses[i] = s.issue(q, requests[i])
		}(i, q)
	}
	done := make(chan struct{})
	go func() { wg.Wait(); close(done) }()
	select {
	case <-done:
		return responses
	case <-time.After(3 * time.Second):
		return nil
	}
}

func workerLoop() {
	in := bufio.NewReaderSize(os.Stdin, 1<<20)
	out := bufio.NewWriter(os.Stdout)
	for {
		line, err := in.ReadString('\n')
		if line != "" {
			var p Plan
			if e := json.Unmarshal([]byte(line), &p); e != nil {
				panic(e)
			}
			s := newSUT(p.Base)
			for _, r := range p.Rounds {
				responses := s.runRound(r)
				if responses == nil {
					fmt.Fprintln(out, "HANG")
					out.Flush()
					select {} // the parent kills this process
				}
				fmt.Fprintln(out, s.view()+" ## "+strings.Join(responses, " "))
				out.Flush()
			}
			fmt.Fprintln(out, "END")
			out.Flush()
		}
		if err != nil {
			return
		}
	}
}

// ---- parent side: plans ------------------------------------------------------------------------------

var theWorker *worker
var hangs int

func execute(c *hx.Ctx, p Plan) {
	c.Op("base "+worldText(p.Base), worldText(p.Base))
	c.Op("worlds []", "[]")
	if hangs >= 3 {
		// the service deadlocks again and again: reported three times, do not spend the time budget on more
		c.Note("skipped-after-hangs")
		return
	}
	if theWorker == nil {
		theWorker = startWorker()
	}
	b, _ := json.Marshal(p)
	answers, ok, stderr := theWorker.run(string(b), 60*time.Second)
	if !ok {
		theWorker = nil
		if stderr != "" {
			c.Comment("worker stderr: " + firstLines(stderr, 40))
		}
	}
	for i, a := range answers {
		if i >= len(p.Rounds) {
			break
		}
		texts := make([]string, len(p.Rounds[i].Reqs))
		for j, q := range p.Rounds[i].Reqs {
			texts[j] = q.text()
		}
		op := "round "
		for _, q := range p.Rounds[i].Reqs {
			if q.Kind == "a" {
				op = "round-addworld "
			}
		}
		c.Op(op+hx.List(texts), a)
		if a == "hang" {
			hangs++
		}
		if strings.HasPrefix(a, "[") {
			c.Note("round:finished")
		} else {
			c.Note("round:" + a)
		}
	}
}

func firstLines(s string, n int) string {
	ls := strings.Split(s, "\n")
	if len(ls) > n {
		ls = ls[:n]
	}
	return strings.Join(ls, " | ")
}

func key(r *hx.Rand) int { return r.Intn(nFeatures)*8 + r.Intn(nTags) }

func randomBase(r *hx.Rand) [][2]int {
	var base [][2]int
	for f := 0; f < nFeatures; f++ {
		for t := 0; t < nTags; t++ {
			if r.Chance(1, 3) {
				base = append(base, [2]int{f*8 + t, 1 + r.Intn(9)})
			}
		}
	}
	return base
}

// conflict-free round: per world the keys are split into keys that may be written and keys that may only be
// read by guards, so no request's guard reads what another request writes.
func randomRound(c *hx.Ctx) Round {
	r := c.Rand
	n := 2 + r.Intn(3)
	var rd Round
	rd.Rendezvous = r.Chance(2, 3)
	guardOnly := map[int]bool{}
	for f := 0; f < nFeatures; f++ {
		for t := 0; t < nTags; t++ {
			if r.Chance(1, 3) {
				guardOnly[f*8+t] = true
			}
		}
	}
	writeKey := func() int {
		for {
			if k := key(r); !guardOnly[k] {
				return k
			}
		}
	}
	guardKey := func() int {
		for i := 0; i < 20; i++ {
			if k := key(r); guardOnly[k] {
				return k
			}
		}
		return -1
	}
	if len(guardOnly) == nFeatures*nTags {
		delete(guardOnly, 0)
	}
	nWids := 1 + r.Intn(2)
	for i := 0; i < n; i++ {
		q := Req{Wid: r.Intn(nWids)}
		switch k := r.Intn(10); {
		case k < 6:
			q.Kind = "c"
			nr := 1 + r.Intn(3)
			if r.Chance(1, 12) {
				nr = 0
			}
			for j := 0; j < nr; j++ {
				rule := Rule{G: -1, K: writeKey(), Set: r.Chance(2, 3), V: 1 + r.Intn(9)}
				if r.Chance(1, 2) {
					rule.G = guardKey()
					rule.GP = r.Bool()
				}
				q.Rules = append(q.Rules, rule)
			}
			if r.Chance(1, 4) { // a failing element somewhere in the change
				f := Rule{G: -1, K: 400 + r.Intn(8), Fail: 1 + r.Intn(3)}
				if r.Chance(1, 5) {
					f.G = guardKey()
					f.GP = r.Bool()
				}
				at := r.Intn(len(q.Rules) + 1)
				q.Rules = append(q.Rules[:at], append([]Rule{f}, q.Rules[at:]...)...)
				q.Atomic = r.Bool()
				c.Note(fmt.Sprintf("req:failing-element:kind=%d:at=%d/%d", f.Fail, at, len(q.Rules)))
			}
			normalise(&q)
			if q.Atomic {
				c.Note("req:failing-atomic")
			}
			q.Shell = r.Bool()
			guarded := false
			for _, rule := range q.Rules {
				if rule.G >= 0 {
					guarded = true
				}
			}
			if guarded {
				c.Note("req:change-guarded")
			} else {
				c.Note("req:change-blind")
			}
		case k < 7:
			q.Kind = "q"
			c.Note("req:query")
		case k < 9:
			q.Kind = "d"
			c.Note("req:delete")
		default:
			q.Kind = "l"
			c.Note("req:list")
		}
		rd.Reqs = append(rd.Reqs, q)
		rd.Jitter = append(rd.Jitter, r.Intn(3)*r.Intn(200))
	}
	c.Note(fmt.Sprintf("round:size=%d", n))
	if rd.Rendezvous {
		c.Note("round:rendezvous")
	}
	return rd
}

// the write-skew witness of DESIGN §5 C40: one feature with p (key 0); A: "tag q (key 1) onto features with
// p", B: "remove p from features without q".
func skewRound() Round {
	return Round{Rendezvous: true, Reqs: []Req{
		{Kind: "c", Wid: 0, Rules: []Rule{{G: 0, GP: true, Set: true, K: 1, V: 1}}},
		{Kind: "c", Wid: 0, Rules: []Rule{{G: 1, GP: false, Set: false, K: 0}}},
	}}
}

func corpus(c *hx.Ctx) {
	p := Plan{Base: [][2]int{{0, 1}}}
	for i := 0; i < 3; i++ {
		p.Rounds = append(p.Rounds, skewRound())
		// reset world 0 for the next attempt
		p.Rounds = append(p.Rounds, Round{Reqs: []Req{{Kind: "d", Wid: 0}, {Kind: "l"}}})
	}
	// the orphan: an evaluate fetched the world, a delete removed it, the change lands on the orphan
	p.Rounds = append(p.Rounds, Round{Rendezvous: true, Reqs: []Req{
		{Kind: "c", Wid: 1, Rules: []Rule{{G: -1, Set: true, K: 9, V: 3}}},
		{Kind: "d", Wid: 1}, {Kind: "q", Wid: 1}}})
	// changes that FAIL while being applied (the error path of the upgrade): alone, next to a reader and a
	// writer, as the failing second part of a merged change, as a partially applied AddTags list
	failOne := Req{Kind: "c", Wid: 0, Rules: []Rule{{G: -1, K: 400, Fail: 1}}}
	p.Rounds = append(p.Rounds, Round{Reqs: []Req{failOne}})
	p.Rounds = append(p.Rounds, Round{Reqs: []Req{failOne, {Kind: "q", Wid: 0}}})
	for i := 0; i < 3; i++ {
		p.Rounds = append(p.Rounds, Round{Rendezvous: true, Reqs: []Req{
			failOne, {Kind: "q", Wid: 0}, {Kind: "c", Wid: 0, Rules: []Rule{{G: -1, Set: true, K: 2, V: 5 + i}}}, {Kind: "q", Wid: 0}}})
	}
	merged := Req{Kind: "c", Wid: 0, Atomic: true, Rules: []Rule{{G: -1, Set: true, K: 3, V: 1}, {G: -1, K: 401, Fail: 3}, {G: -1, K: 10}}}
	partial := Req{Kind: "c", Wid: 0, Rules: []Rule{{G: -1, Set: true, K: 9, V: 4}, {G: -1, K: 402, Fail: 1}, {G: -1, Set: true, K: 10, V: 4}}}
	p.Rounds = append(p.Rounds, Round{Rendezvous: true, Reqs: []Req{merged, {Kind: "q", Wid: 0}, partial}})
	p.Rounds = append(p.Rounds, Round{Reqs: []Req{failOne, failOne, {Kind: "c", Wid: 1, Rules: []Rule{{G: -1, K: 403, Fail: 2}}}, {Kind: "l"}}})
	execute(c, p)
	// add-world-with-change: deletes, re-creates and WRITES world 2 inside the read phase (under RLock only), next
	// to readers of world 2 and of the world list — a separate plan: a race report ends the worker
	aw := Plan{Base: [][2]int{{0, 1}}}
	for i := 0; i < 6; i++ {
		aw.Rounds = append(aw.Rounds, Round{Rendezvous: false, Reqs: []Req{
			{Kind: "a", Wid: 0, Target: 2, Rules: []Rule{{G: -1, Set: true, K: 1, V: 1 + i}, {G: -1, Set: true, K: 9, V: 2}, {G: -1, Set: true, K: 17, V: 3}}},
			{Kind: "q", Wid: 2}, {Kind: "q", Wid: 2}, {Kind: "l"}}})
	}
	execute(c, aw)
	c.NonTrivial()
}

func runCase(c *hx.Ctx) {
	r := c.Rand
	p := Plan{Base: randomBase(r)}
	n := 2 + r.Intn(4)
	changes := 0
	for i := 0; i < n; i++ {
		rd := randomRound(c)
		for _, q := range rd.Reqs {
			if q.Kind == "c" {
				changes++
			}
		}
		p.Rounds = append(p.Rounds, rd)
	}
	execute(c, p)
	if changes >= 2 {
		c.NonTrivial()
	}
}

func main() {
	if os.Getenv(workerEnv) != "" {
		workerLoop()
		return
	}
	hx.Main(hx.Family{
		Name:     "c40",
		Rule:     "2-5 rounds per case, each 2-4 concurrent requests (60% evaluate-to-change with 0-3 rules, half of the rules guarded; 10% query; 20% delete-world; 10% list-worlds) on 1-2 world IDs from one goroutine per request against a real NewB6Service (-race); 2/3 of the rounds hold every change request in the gap between its read phase and its write phase until all have read; generated rounds are conflict-free (guards only read keys no request of the round writes); the corpus holds the write-skew witness and the orphaned-world case. non-trivial = at least two change requests in the case",
		Quick:    300,
		Thorough: 3000,
		Corpus:   corpus,
		Case:     runCase,
	})
	if theWorker != nil {
		theWorker.kill()
	}
}
