// C34 harness: renderer.Simplify (explicit-stack Douglas–Peucker) and the hooked recursive reference on
// random and degenerate lines. Every distance the algorithms can look at is shipped as an
// order-preserving integer (IEEE bit pattern of the non-negative float64; NaN -> 0, because `NaN > max`
// is false exactly like `0 > max`), so the Lean model runs on the comparisons the Go code saw.
//
// op line:  dp <eps> [<vid> ...] [<a>:<z>:<d>,<d>,... ...]  =>  iter=<[vid ...]|panic|hang|crash> ref=<...>
//   vid  = value class of a point (equal points share one id, numbered by first appearance)
//   row a:z = distance(points[a], points[z], points[i]) for i = a+1 .. z-1
//   eps  = hex bits of the tolerance; NaN -> bits(+Inf) (`max > NaN` is false like `max > +Inf`);
//          negative (incl. -Inf) -> -1 (`max > eps` is true for every max >= 0); -0.0 -> 0
package main

import (
	"fmt"
	"math"
	"os"
	"runtime/debug"
	"strconv"
	"strings"
	"time"

	"diagonal.works/b6/renderer"
	"github.com/golang/geo/r2"
	"verifharness/hx"
)

func encDist(d float64) string {
	if d != d || d == 0 {
		return "0"
	}
	return strconv.FormatUint(math.Float64bits(d), 16)
}

func encEps(e float64) string {
	switch {
	case e != e:
		return strconv.FormatUint(math.Float64bits(math.Inf(1)), 16)
	case e < 0:
		return "-1"
	case e == 0:
		return "0"
	}
	return strconv.FormatUint(math.Float64bits(e), 16)
}

// row a:z
func row(pts []r2.Point, a, z int) string {
	var sb strings.Builder
	fmt.Fprintf(&sb, "%d:%d:", a, z)
	for i := a + 1; i < z; i++ {
		if i > a+1 {
			sb.WriteByte(',')
		}
		sb.WriteString(encDist(renderer.VerifDistance(pts[a], pts[z], pts[i])))
	}
	return sb.String()
}

// visit lists the chords the recursion looks at, in the order of the reference implementation (a port
// of referenceDouglasPeuckerSimplify on indices [b,e), used ONLY to choose which rows to ship for long
// lines; the driver reports a model run that needs a row that was not shipped).
// walk: what the recording walk measures
type walk struct {
	rows     *[]string
	maxDepth int  // recursion depth of the reference
	maxStack int  // largest len(stack) of the explicit-stack version right after a push (pending right siblings + 2)
	ties     bool // some visited chord has its maximum attained more than once
	atTol    bool // some visited chord has its farthest point exactly at the tolerance
}

// pending = right-hand intervals waiting on the explicit stack while [b,e) is worked on
func (w *walk) visit(pts []r2.Point, eps float64, b, e int, depth int, pending int) {
	if depth > w.maxDepth {
		w.maxDepth = depth
	}
	max, maxi, hits := 0.0, 0, 0
	if e-b >= 3 && w.rows != nil {
		*w.rows = append(*w.rows, row(pts, b, e-1))
	}
	for i := b + 1; i < e-1; i++ {
		d := renderer.VerifDistance(pts[b], pts[e-1], pts[i])
		if d > max {
			max, maxi, hits = d, i, 1
		} else if d == max && maxi > 0 {
			hits++
		}
	}
	if hits > 1 {
		w.ties = true
	}
	if maxi > 0 && max == eps { // the farthest point lies exactly at the tolerance: `>` keeps the chord, `>=` would split
		w.atTol = true
	}
	if maxi > 0 && max > eps {
		if pending+2 > w.maxStack {
			w.maxStack = pending + 2
		}
		w.visit(pts, eps, b, maxi, depth+1, pending+1) // the right half waits on the stack
		w.visit(pts, eps, maxi, e, depth+1, pending)
	}
}

func vids(pts []r2.Point) (map[r2.Point]int, []string) {
	m := map[r2.Point]int{}
	out := make([]string, len(pts))
	for i, p := range pts {
		id, ok := m[p]
		if !ok {
			id = len(m)
			m[p] = id
		}
		out[i] = strconv.Itoa(id)
	}
	return m, out
}

func renderOut(m map[r2.Point]int, out []r2.Point) string {
	xs := make([]string, len(out))
	for i, p := range out {
		if id, ok := m[p]; ok {
			xs[i] = strconv.Itoa(id)
		} else {
			xs[i] = "x"
		}
	}
	return hx.List(xs)
}

// ---- child runs (negative tolerances: the unrepaired code never returns) --------------------------

func encodeArg(pts []r2.Point, eps float64) string {
	var sb strings.Builder
	fmt.Fprintf(&sb, "%x", math.Float64bits(eps))
	for _, p := range pts {
		fmt.Fprintf(&sb, " %x %x", math.Float64bits(p.X), math.Float64bits(p.Y))
	}
	return sb.String()
}

func decodeArg(arg string) ([]r2.Point, float64) {
	f := strings.Fields(arg)
	u := func(s string) float64 { v, _ := strconv.ParseUint(s, 16, 64); return math.Float64frombits(v) }
	eps := u(f[0])
	pts := []r2.Point{}
	for i := 1; i+1 < len(f); i += 2 {
		pts = append(pts, r2.Point{X: u(f[i]), Y: u(f[i+1])})
	}
	return pts, eps
}

func child(which string) func(string) string {
	return func(arg string) string {
		pts, eps := decodeArg(arg)
		debug.SetMaxStack(32 << 20) // the reference recursion overflows quickly instead of eating 1 GB
		go func() {
			time.Sleep(400 * time.Millisecond)
			fmt.Print("HXRESULT hang")
			os.Exit(0)
		}()
		m, _ := vids(pts)
		if which == "iter" {
			return renderOut(m, renderer.Simplify(pts, eps))
		}
		return renderOut(m, renderer.VerifReferenceDouglasPeuckerSimplify(pts, eps))
	}
}

// ---- one op ----------------------------------------------------------------------------------------

// Negative tolerances: the unrepaired code never returns (endless loop / fatal stack overflow), so they
// run in child processes (slow: two process starts per op). The corpus runs first; when all its
// negative-tolerance witnesses came back with a result, later negative tolerances run in-process.
// Otherwise at most maxNegChildren further ones are tried (each is a reported failure anyway).
var negInProcess = false
var negChildren = 0
var negOK = false

const maxNegChildren = 4

func isList(s string) bool { return strings.HasPrefix(s, "[") }

func runOne(c *hx.Ctx, pts []r2.Point, eps float64, epsKind string) {
	if eps < 0 && !negInProcess && epsKind != "corpus-negative" {
		if negChildren >= maxNegChildren {
			c.Note("negative-eps-skipped")
			return
		}
		negChildren++
	}
	n := len(pts)
	m, vs := vids(pts)
	var rows []string
	w := &walk{maxStack: 1}
	if n <= 12 { // every chord: the model does not depend on the port above
		for a := 0; a < n; a++ {
			for z := a + 2; z < n; z++ {
				rows = append(rows, row(pts, a, z))
			}
		}
		w.visit(pts, eps, 0, n, 0, 0)
		c.Note("rows:full")
	} else {
		w.rows = &rows
		w.visit(pts, eps, 0, n, 0, 0)
		c.Note("rows:visited")
	}
	depth, ties, atTol := w.maxDepth, w.ties, w.atTol
	switch {
	case w.maxStack <= 8:
		c.Note("stack:<=8")
	case w.maxStack <= 64:
		c.Note("stack:9-64")
	case w.maxStack <= 256:
		c.Note("stack:65-256")
	default:
		c.Note("stack:>256")
	}
	var iter, ref string
	if eps < 0 && !negInProcess {
		iter = hx.RunChild("iter", encodeArg(pts, eps), 5*time.Second)
		ref = hx.RunChild("ref", encodeArg(pts, eps), 5*time.Second)
	} else {
		iter = hx.Recover(func() string { return renderOut(m, renderer.Simplify(pts, eps)) })
		ref = hx.Recover(func() string { return renderOut(m, renderer.VerifReferenceDouglasPeuckerSimplify(pts, eps)) })
	}
	c.Op(fmt.Sprintf("dp %s %s %s", encEps(eps), hx.List(vs), hx.List(rows)), "iter="+iter+" ref="+ref)
	if eps < 0 && !(isList(iter) && isList(ref)) {
		negOK = false
	}

	// distribution
	switch {
	case n < 2:
		c.Note("n:0-1")
	case n == 2:
		c.Note("n:2")
	case n <= 8:
		c.Note("n:3-8")
	case n <= 30:
		c.Note("n:9-30")
	case n <= 80:
		c.Note("n:31-80")
	case n <= 200:
		c.Note("n:81-200")
	case n <= 600:
		c.Note("n:201-600")
	default:
		c.Note("n:601-2000")
	}
	c.Note("eps:" + epsKind)
	if len(m) < n {
		c.Note("has-repeated-points")
	}
	if n >= 2 && pts[0] == pts[n-1] {
		c.Note("closed")
	}
	if ties {
		c.Note("tie-for-max")
	}
	if atTol {
		c.Note("boundary:max-equals-tolerance")
		if eps == math.Trunc(eps) && eps > 0 {
			c.Note("boundary:max-equals-integer-tolerance")
		}
	}
	kept := strings.Count(iter, " ") + 1
	switch {
	case !strings.HasPrefix(iter, "["):
		c.Note("out:" + iter)
	case n >= 3 && kept == 2:
		c.Note("out:only-ends")
	case n >= 3 && kept == n:
		c.Note("out:all-kept")
	case n >= 3:
		c.Note("out:mixed")
		c.NonTrivial()
	}
	switch {
	case depth == 0:
		c.Note("depth:0")
	case depth <= 3:
		c.Note("depth:1-3")
	case depth <= 10:
		c.Note("depth:4-10")
	default:
		c.Note("depth:>10")
	}
}

// ---- generators ------------------------------------------------------------------------------------

func unit(r *hx.Rand) float64 { return float64(r.Uint64()>>11) / (1 << 53) }

func genPoints(c *hx.Ctx) []r2.Point {
	r := c.Rand
	var n int
	switch k := r.Intn(20); {
	case k < 7:
		n = 2 + r.Intn(7)
	case k < 14:
		n = 9 + r.Intn(22)
	case k < 18:
		n = 31 + r.Intn(50)
	default:
		n = 81 + r.Intn(120)
	}
	pts := make([]r2.Point, n)
	shape := r.Intn(8)
	switch shape {
	case 0: // small integer grid: repeated points, collinear triples, exact ties
		g := []int{2, 3, 5, 10, 100}[r.Intn(5)]
		for i := range pts {
			pts[i] = r2.Point{X: float64(r.Intn(g)), Y: float64(r.Intn(g))}
		}
		c.Note("shape:grid")
	case 1: // random floats
		s := math.Pow(10, float64(r.Intn(7)-2))
		for i := range pts {
			pts[i] = r2.Point{X: (unit(r)*2 - 1) * s, Y: (unit(r)*2 - 1) * s}
		}
		c.Note("shape:floats")
	case 2: // collinear run with a few points off the line
		dx, dy := float64(r.Intn(7)-3), float64(r.Intn(7)-3)
		t := 0
		for i := range pts {
			if r.Chance(3, 4) {
				t += r.Intn(3)
			} else {
				t -= r.Intn(2)
			}
			pts[i] = r2.Point{X: float64(t) * dx, Y: float64(t) * dy}
			if r.Chance(1, 8) {
				pts[i].Y += float64(r.Intn(5) - 2)
			}
		}
		c.Note("shape:collinear")
	case 3: // zigzag over an axis-aligned chord: many exactly equal distances
		hs := []float64{0, 1, 1, 2, 3}
		vert := r.Bool()
		for i := range pts {
			h := hs[r.Intn(len(hs))]
			if r.Bool() {
				h = -h
			}
			if i == 0 || i == n-1 {
				h = 0
			}
			if vert {
				pts[i] = r2.Point{X: h, Y: float64(i)}
			} else {
				pts[i] = r2.Point{X: float64(i), Y: h}
			}
		}
		c.Note("shape:zigzag")
	case 4: // polygon around a circle
		rad := 1 + unit(r)*100
		squash := 0.05 + unit(r)
		for i := range pts {
			a := 2 * math.Pi * float64(i) / float64(n)
			pts[i] = r2.Point{X: rad * math.Cos(a), Y: rad * math.Sin(a) * squash}
		}
		c.Note("shape:ring")
	case 5: // random walk, like a road
		x, y := 0.0, 0.0
		for i := range pts {
			x += float64(r.Intn(21)-8) * 0.5
			y += float64(r.Intn(21)-10) * 0.5
			pts[i] = r2.Point{X: x, Y: y}
		}
		c.Note("shape:walk")
	case 6: // spikes: flat with a few far points
		for i := range pts {
			pts[i] = r2.Point{X: float64(i), Y: 0}
			if r.Chance(1, 6) {
				pts[i].Y = float64(r.Intn(1000)) / 8
			}
		}
		c.Note("shape:spikes")
	default: // extreme magnitudes: overflow to Inf/NaN inside distance, denormals
		s := []float64{1e300, 1e-300, 1e154, 1e-160, 5e-324}[r.Intn(5)]
		for i := range pts {
			pts[i] = r2.Point{X: float64(r.Intn(5)-2) * s, Y: float64(r.Intn(5)-2) * s}
		}
		c.Note("shape:extreme")
	}
	if r.Chance(1, 5) { // runs of repeated points
		for i := 1; i < n; i++ {
			if r.Chance(1, 3) {
				pts[i] = pts[i-1]
			}
		}
	}
	if r.Chance(1, 40) { // all the same point
		for i := range pts {
			pts[i] = pts[0]
		}
	}
	if r.Chance(1, 5) && n >= 3 { // closed loop
		pts[n-1] = pts[0]
	}
	for i := range pts { // no negative zeros: equal points must have equal bit patterns
		pts[i].X += 0
		pts[i].Y += 0
	}
	return pts
}

// genLopsided: lines on which the farthest point is always near one end, so that one side of every split
// is tiny and the other keeps splitting: the explicit stack (inside-out shapes) or the pending left work
// (outside-in shapes) gets as deep as the line is long.
func genLopsided(c *hx.Ctx) ([]r2.Point, float64) {
	r := c.Rand
	var n int
	switch k := r.Intn(20); {
	case k < 14:
		n = 250 + r.Intn(150)
	case k < 19:
		n = 400 + r.Intn(300)
	default:
		n = 700 + r.Intn(500)
	}
	if c.Thorough() && r.Chance(1, 8) {
		n = 1200 + r.Intn(800)
	}
	pts := make([]r2.Point, 0, n)
	switch r.Intn(4) {
	case 0: // square spiral from the centre, 1..3 points per side, sides growing: stack depth ~ n/4 .. n/6
		pps := 1 + r.Intn(3)
		x, y, dx, dy, length := 0.0, 0.0, 1.0, 0.0, 1.0
		for side := 0; len(pts) < n; side++ {
			for k := 0; k < pps && len(pts) < n; k++ {
				t := float64(k) / float64(pps)
				pts = append(pts, r2.Point{X: x + dx*length*t, Y: y + dy*length*t})
			}
			x, y = x+dx*length, y+dy*length
			dx, dy = -dy, dx
			if side%2 == 1 {
				length++
			}
		}
		c.Note("shape:square-spiral")
	case 1: // Archimedean spiral from the centre; few points per turn make every split peel one or two points
		step := []float64{1.7, 1.7, 1.0, 2.2, 0.35}[r.Intn(5)]
		for i := 0; i < n; i++ {
			a := step * float64(i)
			rad := 1 + 0.3*a
			pts = append(pts, r2.Point{X: rad * math.Cos(a), Y: rad * math.Sin(a)})
		}
		c.Note("shape:smooth-spiral")
	case 2: // comb: teeth whose height grows quadratically, the farthest point is always the last tooth
		for i := 0; i < n; i++ {
			h := 0.0
			if i%2 == 1 {
				h = float64(i*i) / 64
			}
			pts = append(pts, r2.Point{X: float64(i), Y: h})
		}
		c.Note("shape:comb")
	default: // staircase with growing risers
		x, y := 0.0, 0.0
		for i := 0; i < n; i++ {
			pts = append(pts, r2.Point{X: x, Y: y})
			if i%2 == 0 {
				x++
			} else {
				y += float64(i)
			}
		}
		c.Note("shape:staircase")
	}
	if r.Chance(1, 3) { // walked from the outside in: the recursion of the reference gets deep, the stack stays flat
		for i, j := 0, n-1; i < j; i, j = i+1, j-1 {
			pts[i], pts[j] = pts[j], pts[i]
		}
		c.Note("lopsided:outside-in")
	} else {
		c.Note("lopsided:inside-out")
	}
	for i := range pts {
		pts[i].X += 0
		pts[i].Y += 0
	}
	return pts, []float64{0, 0.05, 0.3}[r.Intn(3)]
}

func genEps(c *hx.Ctx, pts []r2.Point) (float64, string) {
	r := c.Rand
	n := len(pts)
	switch k := r.Intn(40); {
	case k < 3:
		return 0, "zero"
	case k < 4:
		return float64(1 + r.Intn(3)), "small-integer" // with integer grids / zigzags: points exactly at the tolerance
	case k < 6:
		return 5.0, "five"
	case k < 22 && n >= 3: // an actual distance of some chord, or its neighbours: the `max > eps` boundary
		a := r.Intn(n - 2)
		z := a + 2 + r.Intn(n-a-2)
		i := a + 1 + r.Intn(z-a-1)
		if r.Bool() {
			a, z = 0, n-1
			i = 1 + r.Intn(n-2)
		}
		d := renderer.VerifDistance(pts[a], pts[z], pts[i])
		switch r.Intn(3) {
		case 0:
			return d, "a-distance"
		case 1:
			return math.Nextafter(d, math.Inf(1)), "a-distance+ulp"
		default:
			return math.Nextafter(d, math.Inf(-1)), "a-distance-ulp"
		}
	case k < 34:
		return math.Pow(10, float64(r.Intn(9)-5)) * unit(r), "random"
	case k < 35:
		return math.Inf(1), "+inf"
	case k < 36:
		return math.NaN(), "nan"
	case k < 37:
		return 5e-324, "denormal"
	case k < 38:
		return math.Copysign(0, -1), "-zero"
	default:
		return []float64{-1, -1e-300, math.Inf(-1), -5}[r.Intn(4)], "negative"
	}
}

func main() {
	hx.RegisterChild("iter", child("iter"))
	hx.RegisterChild("ref", child("ref"))
	hx.Main(hx.Family{
		Name: "c34",
		Rule: "one line (2..200 points, and in 1 case of 60 a lopsided line of 250..2000 points: square/smooth spirals, growing staircase, comb, walked inside-out or outside-in, so that the explicit stack or the recursion gets as deep as the line; 8 shapes: integer grid, floats, collinear runs, axis-aligned zigzag with exact ties, ring, walk, spikes, extreme magnitudes; modifiers: repeated runs, all-equal, closed loop) simplified with 1-3 tolerances (0, 1..3, 5, an actual distance +-1ulp, random, +Inf, NaN, denormal, -0, negative); non-trivial = at least 3 points and the result keeps some but not all interior points; distinct = by hash of the op text",
		Quick:    3000,
		Thorough: 50000,
		Corpus: func(c *hx.Ctx) {
			sq := []r2.Point{{0, 0}, {0.5, 0}, {1, 0}, {1, 0.5}, {1, 1}, {0.5, 1}, {0, 1}, {0, 0.5}}
			runOne(c, sq, 0.1, "corpus")
			// fixed (C34-negative-tolerance): the loop never returned, the reference overflowed the stack
			negOK = true
			runOne(c, []r2.Point{{0, 0}, {1, 1}, {2, 0}}, -1, "corpus-negative")
			runOne(c, []r2.Point{{0, 0}, {1, 0}, {2, 0}}, math.Inf(-1), "corpus-negative")
			runOne(c, []r2.Point{{0, 0}, {2, 0}}, -1, "corpus-negative")
			negInProcess = negOK
			// first maximum wins a tie
			runOne(c, []r2.Point{{0, 0}, {1, 1}, {2, -1}, {3, 1}, {4, 0}}, 0.5, "corpus")
			// split right after the first point: left part has one point
			runOne(c, []r2.Point{{0, 0}, {0, 9}, {1, 0}, {2, 0}}, 1, "corpus")
			// fewer than two points
			runOne(c, []r2.Point{{3, 4}}, 1, "corpus")
			runOne(c, []r2.Point{}, 1, "corpus")
			c.NonTrivial()
		},
		Case: func(c *hx.Ctx) {
			if c.Rand.Chance(1, 60) || c.CaseNo < 2 {
				pts, eps := genLopsided(c)
				runOne(c, pts, eps, "lopsided-small")
				return
			}
			pts := genPoints(c)
			if c.Rand.Chance(1, 200) {
				pts = pts[:c.Rand.Intn(2)]
			}
			k := 1 + c.Rand.Intn(3)
			for i := 0; i < k; i++ {
				eps, kind := genEps(c, pts)
				if eps < 0 && i > 0 {
					continue // child runs are slow: at most one per case
				}
				runOne(c, pts, eps, kind)
			}
		},
	})
}
