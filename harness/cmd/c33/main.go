// C33 harness: the real renderer.Encoder / renderer.EncodeTile on generated points, line strings and
// polygons with holes; the projected integer coordinates the encoder sees are dumped into the op text
// (projection, Simplify and the int() truncation are outside the model).
package main

import (
	"fmt"
	"io"
	"log"
	"math"
	"sort"
	"strings"

	"diagonal.works/b6"
	pb "diagonal.works/b6/proto"
	"diagonal.works/b6/renderer"
	"github.com/golang/geo/r2"
	"github.com/golang/geo/s2"
	"verifharness/hx"
)

func words(ws []uint32) string {
	xs := make([]string, len(ws))
	for i, w := range ws {
		xs[i] = fmt.Sprintf("%d", w)
	}
	return hx.List(xs)
}

func values(vs []*pb.TileProto_Value) string {
	xs := make([]string, len(vs))
	for i, v := range vs {
		switch {
		case v.StringValue != nil:
			xs[i] = "s:" + v.GetStringValue()
		case v.IntValue != nil:
			xs[i] = fmt.Sprintf("i:%d", v.GetIntValue())
		default:
			xs[i] = "?"
		}
	}
	return hx.List(xs)
}

func featureAnswer(f *pb.TileProto_Feature) string {
	id := "-"
	if f.Id != nil {
		id = fmt.Sprintf("%d", f.GetId())
	}
	t := 0
	if f.Type != nil {
		t = int(f.GetType())
	}
	return fmt.Sprintf("type=%d id=%s t=%s g=%s", t, id, words(f.Tags), words(f.Geometry))
}

// ---- zigzag ------------------------------------------------------------------------------------

var zzEdges = []int64{0, 1, -1, 2, -2, 63, 64, -64, -65, 4095, 4096, -4096, 1<<30 - 1, 1 << 30, -(1 << 30), -(1 << 30) - 1,
	1<<31 - 1, 1 << 31, -(1 << 31), -(1 << 31) - 1, 1 << 32, 1<<32 + 5, -(1 << 32), math.MaxInt64, math.MinInt64}

func zigzagCase(c *hx.Ctx) {
	r := c.Rand
	n := 6 + r.Intn(10)
	for i := 0; i < n; i++ {
		var v int64
		switch r.Intn(4) {
		case 0:
			v = zzEdges[r.Intn(len(zzEdges))]
		case 1:
			v = int64(r.Intn(8192)) - 4096
		case 2:
			v = int64(int32(r.Uint64()))
		default:
			v = int64(r.Uint64Edge())
		}
		if r.Bool() {
			ans := hx.Recover(func() string {
				enc := renderer.VerifC33ZigzagEncode(int(v))
				return fmt.Sprintf("%d %d", enc, renderer.VerifC33ZigzagDecode(enc))
			})
			c.Op(fmt.Sprintf("zz %d", v), ans)
			if v >= 1<<30 || v < -(1<<30) {
				c.Note("zz:|v|>=2^30")
			} else {
				c.Note("zz:small")
			}
		} else {
			w := uint32(v)
			ans := hx.Recover(func() string {
				dec := renderer.VerifC33ZigzagDecode(w)
				return fmt.Sprintf("%d %d", dec, renderer.VerifC33ZigzagEncode(dec))
			})
			c.Op(fmt.Sprintf("unzz %d", w), ans)
			c.Note("zz:unzz")
		}
	}
	c.Note("case:zigzag")
}

// ---- Encoder API -------------------------------------------------------------------------------

var apiKeys = []string{"class", "name", "amenity", "capacity", "k1", "k2"}
var apiStrs = []string{"fountain", "yes", "12", "name", "x", "bicycle_parking"}
var apiInts = []int64{0, 1, -1, 12, 16, 1 << 40, math.MinInt64}

func coord(r *hx.Rand, base int) int {
	switch r.Intn(10) {
	case 0:
		return int(int64(r.Uint64Edge()))
	case 1:
		return base + int(int64(int32(r.Uint64()))) // delta anywhere in int32
	case 2:
		return base + (1 << 31) - r.Intn(3) // around the int32 boundary
	case 3:
		return base - (1 << 31) - 1 + r.Intn(3)
	default:
		return base + r.Intn(8192) - 2048
	}
}

func apiCase(c *hx.Ctx) {
	r := c.Rand
	ox, oy := 0, 0
	if r.Chance(3, 4) {
		ox, oy = r.Intn(1<<20)<<12, r.Intn(1<<20)<<12
		if r.Chance(1, 8) {
			ox, oy = -ox, int(int64(r.Uint64Edge()))
		}
	}
	e := renderer.NewEncoder(ox, oy, "test", 1<<renderer.TileExtent)
	c.Op(fmt.Sprintf("new %d %d", ox, oy), "ok")
	var f *pb.TileProto_Feature
	geom := func() string { return "g=" + words(f.Geometry) }
	started := r.Chance(9, 10)
	if started {
		f = e.StartFeature()
		c.Op("start", "ok")
	}
	reused := false
	seenVals := map[string]bool{}
	n := 4 + r.Intn(20)
	for i := 0; i < n; i++ {
		k := r.Intn(12)
		if !started && k >= 8 && i < n-1 {
			k = r.Intn(5) // a Tag on a nil feature mutates the tables before it panics: only as the last op
		}
		switch k {
		case 0:
			f = e.StartFeature()
			started = true
			c.Op("start", "ok")
			c.Note("api:start")
		case 1:
			cnt := []int{0, 1, 1, 1, 2, 3, 1<<29 - 1, 1 << 29, 1<<32 - 1, 1<<32 + 3}[r.Intn(10)]
			c.Op(fmt.Sprintf("mv %d", cnt), hx.Recover(func() string { e.MoveTo(cnt); return geom() }))
			c.Note("api:mv")
		case 2:
			cnt := []int{0, 1, 2, 3, 5, 1000, 1<<29 - 1, 1 << 29, 1<<32 - 1, 1 << 33}[r.Intn(10)]
			c.Op(fmt.Sprintf("ln %d", cnt), hx.Recover(func() string { e.LineTo(cnt); return geom() }))
			c.Note("api:ln")
		case 3:
			c.Op("cp", hx.Recover(func() string { e.ClosePath(); return geom() }))
			c.Note("api:cp")
		case 4, 5, 6, 7:
			x, y := coord(r, ox), coord(r, oy)
			c.Op(fmt.Sprintf("xy %d %d", x, y), hx.Recover(func() string { e.XY(x, y); return geom() }))
			c.Note("api:xy")
		case 8:
			id := r.Uint64Edge()
			c.Op(fmt.Sprintf("id %d", id), hx.Recover(func() string { e.ID(id); return fmt.Sprintf("id=%d", f.GetId()) }))
			c.Note("api:id")
		default:
			key := r.Pick(apiKeys)
			var arg string
			var val interface{}
			switch r.Intn(6) {
			case 0, 1, 2:
				s := r.Pick(apiStrs)
				arg, val = "s:"+s, s
			case 3:
				v := apiInts[r.Intn(len(apiInts))]
				arg, val = fmt.Sprintf("i:%d", v), v
			case 4:
				v := int(apiInts[r.Intn(len(apiInts))])
				arg, val = fmt.Sprintf("n:%d", v), v
			default:
				arg, val = "f:1.5", 1.5
			}
			if seenVals[arg[1:]] {
				reused = true
			}
			seenVals[arg[1:]] = true
			ans := hx.Recover(func() string {
				e.Tag(key, val)
				l := e.Layer()
				return fmt.Sprintf("t=%s keys=%s values=%s", words(f.Tags), hx.List(l.Keys), values(l.Values))
			})
			c.Op(fmt.Sprintf("tag %s %s", key, arg), ans)
			c.Note("api:tag")
		}
	}
	if reused {
		c.NonTrivial()
	}
	c.Note("case:api")
}

// ---- EncodeTile --------------------------------------------------------------------------------

type genFeature struct {
	f    *renderer.Feature
	geom string // projected integers as the encoder will see them
	kind string
}

func pt(p r2.Point) string { return fmt.Sprintf("%d,%d", int(p.X), int(p.Y)) }

func pts(ps []r2.Point) string {
	if len(ps) == 0 {
		return "-"
	}
	xs := make([]string, len(ps))
	for i, p := range ps {
		xs[i] = pt(p)
	}
	return strings.Join(xs, ";")
}

// star-shaped loop around (cx,cy) in pixel space
func starLoop(r *hx.Rand, proj *b6.TileMercatorProjection, cx, cy, radius float64, n int, regular bool) *s2.Loop {
	ps := make([]s2.Point, n)
	phase := float64(r.Intn(360)) * math.Pi / 180
	for i := 0; i < n; i++ {
		step := 2 * math.Pi / float64(n)
		a := phase + step*float64(i)
		rad := radius
		if regular {
			a += step * 0.1 * (float64(r.Intn(200))/100 - 1)
			rad *= 0.75 + 0.25*float64(r.Intn(1000))/1000
		} else {
			a += step * 0.4 * (float64(r.Intn(200))/100 - 1)
			rad *= 0.35 + 0.65*float64(r.Intn(1000))/1000
		}
		ps[i] = s2.PointFromLatLng(proj.ToLatLng(r2.Point{X: cx + rad*math.Cos(a), Y: cy + rad*math.Sin(a)}))
	}
	l := s2.LoopFromPoints(ps)
	l.Normalize()
	return l
}

func genPolygon(c *hx.Ctx, proj *b6.TileMercatorProjection, ox, oy float64) (*s2.Polygon, int) {
	r := c.Rand
	var loops []*s2.Loop
	holes := 0
	shells := 1
	if r.Chance(1, 6) {
		shells = 2
	}
	if r.Chance(1, 40) {
		shells = 0 // an empty polygon
	}
	for s := 0; s < shells; s++ {
		radius := 40 + float64(r.Intn(1400))
		cx := ox + float64(r.Intn(4096)) + float64(s)*3.5*1500
		cy := oy + float64(r.Intn(4096))
		nh := 0
		if r.Chance(3, 5) {
			nh = 1 + r.Intn(3)
		}
		n := 3 + r.Intn(10)
		if nh > 0 && n < 6 {
			n = 6
		}
		big := r.Chance(1, 60)
		if big {
			n = []int{999, 1000, 1000, 1001, 1001 + r.Intn(300)}[r.Intn(5)] // around the Simplify threshold
			radius = 1500 + float64(r.Intn(2000))
		}
		loops = append(loops, starLoop(r, proj, cx, cy, radius, n, nh > 0 || big))
		for h := 0; h < nh; h++ {
			a := float64(h)*2*math.Pi/3 + 0.3
			hx_, hy := cx+0.3*radius*math.Cos(a), cy+0.3*radius*math.Sin(a)
			hr := radius * (0.04 + 0.08*float64(r.Intn(100))/100)
			loops = append(loops, starLoop(r, proj, hx_, hy, hr, 3+r.Intn(6), true))
			holes++
			if h == 0 && r.Chance(1, 4) { // an island inside the hole
				loops = append(loops, starLoop(r, proj, hx_, hy, hr*0.2, 3+r.Intn(3), true))
			}
		}
	}
	// S2 nests the loops whatever order they come in
	p := r.Perm(len(loops))
	shuffled := make([]*s2.Loop, len(loops))
	for i, j := range p {
		shuffled[i] = loops[j]
	}
	return s2.PolygonFromLoops(shuffled), holes
}

var tagKeys = []string{"class", "name", "type", "layer"}
var tagVals = []string{"fountain", "pedestrian", "yes", "class", "a", "b"}
var layerNames = []string{"landuse", "poi_label", "road", "building", "water"}

func tileCase(c *hx.Ctx) {
	r := c.Rand
	z := uint(r.Intn(21))
	if r.Chance(1, 10) {
		z = uint(r.Intn(3))
	}
	span := uint(1) << z
	tx, ty := uint(r.Intn(int(span))), uint(r.Intn(int(span)))
	if span > 4 { // stay off the polar rows
		ty = span/8 + uint(r.Intn(int(span-span/4)))
	}
	location := b6.Tile{Z: z, X: tx, Y: ty}
	proj := b6.NewTileMercatorProjection(z + renderer.TileExtent)
	ox, oy := float64(tx<<renderer.TileExtent), float64(ty<<renderer.TileExtent)

	nl := 1 + r.Intn(3)
	names := r.Perm(len(layerNames))
	content := &renderer.Tile{}
	gen := make([][]genFeature, nl)
	nontrivial := false
	for li := 0; li < nl; li++ {
		layer := renderer.NewLayer(layerNames[names[li]])
		nf := r.Intn(5)
		if r.Chance(1, 8) {
			nf = 0
		}
		for fi := 0; fi < nf; fi++ {
			var g genFeature
			switch r.Intn(4) {
			case 0:
				p := s2.PointFromLatLng(proj.ToLatLng(r2.Point{X: ox + float64(r.Intn(4500)) - 200 + float64(r.Intn(100))/100, Y: oy + float64(r.Intn(4500)) - 200 + float64(r.Intn(100))/100}))
				g.f = renderer.NewFeature(renderer.NewPoint(p))
				g.geom = "P " + pt(proj.Project(p))
				g.kind = "point"
			case 1:
				n := 2 + r.Intn(11)
				if r.Chance(1, 25) {
					n = 1 // degenerate: encoded as MoveTo + LineTo(0); outside the property's line strings
				}
				x, y := ox+float64(r.Intn(4096)), oy+float64(r.Intn(4096))
				line := make(s2.Polyline, n)
				proj2 := make([]r2.Point, n)
				for i := range line {
					line[i] = s2.PointFromLatLng(proj.ToLatLng(r2.Point{X: x, Y: y}))
					proj2[i] = proj.Project(line[i])
					x += float64(r.Intn(600)) - 300 + float64(r.Intn(100))/100
					y += float64(r.Intn(600)) - 300
				}
				g.f = renderer.NewFeature(renderer.NewLineString(&line))
				g.geom = "L " + pts(proj2)
				g.kind = fmt.Sprintf("line:%d", min(n, 3))
				if n >= 3 {
					nontrivial = true
				}
			default:
				poly, holes := genPolygon(c, proj, ox, oy)
				g.f = renderer.NewFeature(renderer.NewPolygon(poly))
				var ls []string
				simplified := false
				for _, loop := range poly.Loops() {
					ps := make([]r2.Point, loop.NumVertices())
					for i := range ps {
						ps[i] = proj.Project(loop.Vertex(i))
					}
					if len(ps) > 1000 {
						ps = renderer.Simplify(ps, 5.0)
						simplified = true
					}
					tag := "o:"
					if loop.IsHole() {
						tag = "h:"
					} else if len(ps) > 2 {
						// observation only: MVT 2.1 defines exterior rings by a positive surveyor area in tile coordinates
						a := 0
						for i := range ps {
							p, q := ps[i], ps[(i+1)%len(ps)]
							a += int(p.X)*int(q.Y) - int(q.X)*int(p.Y)
						}
						switch {
						case a > 0:
							c.Note(fmt.Sprintf("outer-ring-surveyor-area:positive(zoom-lt-3=%v)", z < 3))
						case a < 0:
							c.Note("outer-ring-surveyor-area:negative")
						default:
							c.Note("outer-ring-surveyor-area:zero")
						}
					}
					ls = append(ls, tag+pts(ps))
				}
				if len(ls) == 0 {
					g.geom = "G -"
				} else {
					g.geom = "G " + strings.Join(ls, "|")
				}
				g.kind = fmt.Sprintf("polygon:holes=%d", min(holes, 3))
				if simplified {
					c.Note("polygon:simplified(>1000)")
				}
				if holes > 0 {
					nontrivial = true
				}
			}
			if r.Chance(1, 2) {
				g.f.ID = r.Uint64Edge()
			}
			nt := r.Intn(4)
			kp := r.Perm(len(tagKeys))
			for i := 0; i < nt; i++ {
				g.f.Tags[tagKeys[kp[i]]] = r.Pick(tagVals)
			}
			c.Note("feature:" + g.kind)
			c.Note(fmt.Sprintf("tags:%d", nt))
			layer.AddFeature(g.f)
			gen[li] = append(gen[li], g)
		}
		content.Layers = append(content.Layers, layer)
	}

	var desc []string
	for li, l := range content.Layers {
		desc = append(desc, fmt.Sprintf("%s:%d", l.Name, len(gen[li])))
	}
	op := fmt.Sprintf("tile %d %d %d %s", z, tx, ty, hx.List(desc))
	var encoded *pb.TileProto
	if hx.Recover(func() string { encoded = renderer.EncodeTile(location, content); return "ok" }) != "ok" {
		c.Op(op, "panic")
		return
	}
	var got []string
	for _, l := range encoded.Layers {
		got = append(got, l.GetName())
	}
	c.Op(op, hx.List(got))
	if len(encoded.Layers) > 0 {
		l := encoded.Layers[0]
		ans := fmt.Sprintf("v=%d e=%d keys=%s values=%s n=%d", l.GetVersion(), l.GetExtent(), hx.List(l.Keys), values(l.Values), len(l.Features))
		if len(l.Features) > 0 {
			ans += " " + featureAnswer(l.Features[0])
		}
		c.Op("bg", ans)
	}
	ei := 1
	for li, l := range content.Layers {
		if len(gen[li]) == 0 {
			c.Note("layer:empty")
			continue
		}
		if ei >= len(encoded.Layers) {
			c.Op("layer "+l.Name, "missing")
			continue
		}
		el := encoded.Layers[ei]
		ei++
		c.Op("layer "+l.Name, fmt.Sprintf("v=%d e=%d n=%d", el.GetVersion(), el.GetExtent(), len(el.Features)))
		for fi, g := range gen[li] {
			ks := hx.SortedKeys(g.f.Tags)
			tags := make([]string, len(ks))
			for i, k := range ks {
				tags[i] = k + "=" + g.f.Tags[k]
			}
			ans := "missing"
			if fi < len(el.Features) {
				ans = featureAnswer(el.Features[fi])
			}
			c.Op(fmt.Sprintf("feat id=%d tags=%s %s", g.f.ID, hx.List(tags), g.geom), ans)
		}
		c.Op("tables", fmt.Sprintf("keys=%s values=%s", hx.List(el.Keys), values(el.Values)))
	}
	c.Note(fmt.Sprintf("zoom:%d", z/5*5))
	c.Note("case:tile")
	if nontrivial {
		c.NonTrivial()
	}
}

func corpus(c *hx.Ctx) {
	// the examples of the vector tile spec (encoder_test.go) and the fixed zigzag witness
	for _, v := range []int64{1 << 30, -(1 << 30) - 1, 1<<31 - 1, -(1 << 31)} {
		enc := renderer.VerifC33ZigzagEncode(int(v))
		c.Op(fmt.Sprintf("zz %d", v), fmt.Sprintf("%d %d", enc, renderer.VerifC33ZigzagDecode(enc)))
	}
	e := renderer.NewEncoder(0, 0, "test", 1<<renderer.TileExtent)
	c.Op("new 0 0", "ok")
	f := e.StartFeature()
	c.Op("start", "ok")
	e.MoveTo(1)
	c.Op("mv 1", "g="+words(f.Geometry))
	e.XY(2, 2)
	c.Op("xy 2 2", "g="+words(f.Geometry))
	e.LineTo(2)
	c.Op("ln 2", "g="+words(f.Geometry))
	e.XY(2, 10)
	c.Op("xy 2 10", "g="+words(f.Geometry))
	e.XY(10, 10)
	c.Op("xy 10 10", "g="+words(f.Geometry))
	e.Tag("amenity", "bicycle_parking")
	c.Op("tag amenity s:bicycle_parking", fmt.Sprintf("t=%s keys=%s values=%s", words(f.Tags), hx.List(e.Layer().Keys), values(e.Layer().Values)))
	e.Tag("capacity", 12)
	c.Op("tag capacity n:12", fmt.Sprintf("t=%s keys=%s values=%s", words(f.Tags), hx.List(e.Layer().Keys), values(e.Layer().Values)))
	e.Tag("amenity", "bicycle_parking")
	c.Op("tag amenity s:bicycle_parking", fmt.Sprintf("t=%s keys=%s values=%s", words(f.Tags), hx.List(e.Layer().Keys), values(e.Layer().Values)))
	c.NonTrivial()
}

func main() {
	_ = sort.Strings
	log.SetOutput(io.Discard) // Encoder.Tag logs unsupported value types
	hx.Main(hx.Family{
		Name: "c33",
		Rule: "65% EncodeTile on a random tile (zoom 0-20) with 1-3 layers of points / line strings / S2 polygons (0-2 shells, 0-3 holes, islands, rarely >1000 vertices) and tag maps over a small alphabet, projected integers dumped by the harness; 25% random renderer.Encoder method sequences (counts and coordinates with int32/uint29 boundary values); 10% zigzag values. Non-trivial = a tile with a polygon with a hole or a line of >= 3 points, or an Encoder sequence that re-uses a tag value; distinct = by hash of the op text",
		Quick:    2500,
		Thorough: 60000,
		Corpus:   corpus,
		Case: func(c *hx.Ctx) {
			switch k := c.Rand.Intn(20); {
			case k < 2:
				zigzagCase(c)
			case k < 7:
				apiCase(c)
			default:
				tileCase(c)
			}
		},
	})
}
