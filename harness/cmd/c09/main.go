// C09 harness: the generic binary containers of b6/encoding, through their exported API.
//
// Line formats are documented in lean/B6/Driver/C09.lean. Numbers are unsigned decimal 64-bit words
// (Go ints as two's-complement bits), byte strings are lowercase hex ("-" when empty).
package main

import (
	"fmt"
	"sort"
	"strings"
	"sync"
	"time"

	"diagonal.works/b6/encoding"
	"verifharness/hx"
)

func u(v uint64) string { return fmt.Sprintf("%d", v) }

func capped(b []byte) []byte { return b[:len(b):len(b)] } // capacity = length, so reads past the end panic

// ---- integer sequences ---------------------------------------------------------------------------

func opDelta(vs []uint64) string {
	return hx.Recover(func() string {
		buf := make([]byte, 10*len(vs)+1)
		n := encoding.MarshalDeltaCodedUint64s(vs, buf)
		out, k := encoding.UnmarshalDeltaCodedUint64(nil, len(vs), capped(buf[:n]))
		xs := make([]string, len(out))
		for i, v := range out {
			xs[i] = u(v)
		}
		return fmt.Sprintf("%s %d %s", hx.Hex(buf[:n]), k, hx.List(xs))
	})
}

func opInts(vs []uint64) string {
	return hx.Recover(func() string {
		is := make([]int, len(vs))
		for i, v := range vs {
			is[i] = int(int64(v))
		}
		buf := make([]byte, 10*len(vs)+1)
		n := encoding.MarshalDeltaCodedInts(is, buf)
		out, k := encoding.UnmarshalDeltaCodedInts(nil, len(vs), capped(buf[:n]))
		xs := make([]string, len(out))
		for i, v := range out {
			xs[i] = u(uint64(int64(v)))
		}
		return fmt.Sprintf("%s %d %s", hx.Hex(buf[:n]), k, hx.List(xs))
	})
}

func opDeltaD(n int, data []byte) string {
	return hx.Recover(func() string {
		out, k := encoding.UnmarshalDeltaCodedUint64(nil, n, capped(data))
		xs := make([]string, len(out))
		for i, v := range out {
			xs[i] = u(v)
		}
		return fmt.Sprintf("%d %s", k, hx.List(xs))
	})
}

func opFix(v uint64, l int) string {
	return hx.Recover(func() string {
		buf := make([]byte, 16)
		encoding.MarshalUint64(v, l, buf)
		back := encoding.UnmarshalUint64(l, capped(buf[:l]))
		return hx.Hex(buf[:l]) + " " + u(back)
	})
}

// opFixOwn: the fixed-width round trip exactly as ByteArraysBuilder/ByteArrays do it — the width is
// Uint64Length(v) itself.
func opFixOwn(v uint64) string {
	return hx.Recover(func() string {
		l := encoding.Uint64Length(v)
		buf := make([]byte, 16)
		encoding.MarshalUint64(v, l, buf)
		back := encoding.UnmarshalUint64(l, capped(buf[:l]))
		return fmt.Sprintf("%d %s %s", l, hx.Hex(buf[:l]), u(back))
	})
}

// opBAL: layout only — reserve the item lengths, write the header (no payload is ever written, so
// the sizes cost nothing) and read the offset table and the total length back.
func opBAL(lengths []uint64) string {
	return hx.Recover(func() string {
		b := encoding.NewByteArraysBuilder(len(lengths))
		for i, l := range lengths {
			b.Reserve(i, int(l))
		}
		var buf encoding.Buffer
		end, err := b.WriteHeader(&buf, 0)
		if err != nil {
			return "err"
		}
		data := capped(buf.Bytes())
		ba := encoding.NewByteArrays(data)
		ob := ba.Layout.OffsetBytes
		offs := make([]string, len(lengths)+1)
		for i := range offs {
			i := i
			offs[i] = hx.Recover(func() string {
				return u(encoding.UnmarshalUint64(ob, data[encoding.ByteArraysLayoutLength+i*ob:]))
			})
		}
		rlen := hx.Recover(func() string { return fmt.Sprintf("%d", ba.Length()) })
		return fmt.Sprintf("%s %d %d %s %d %s", hx.Hex(data), end, b.Length(), rlen, ba.NumItems(), hx.List(offs))
	})
}

// ---- byte arrays ---------------------------------------------------------------------------------

type reservation struct{ item, length int }
type write struct {
	item int
	bufs [][]byte
}

func opBA(n int, rs []reservation, ws []write) string {
	return hx.Recover(func() string {
		b := encoding.NewByteArraysBuilder(n)
		for _, r := range rs {
			b.Reserve(r.item, r.length)
		}
		var buf encoding.Buffer
		end, err := b.WriteHeader(&buf, 0)
		if err != nil {
			return "err"
		}
		for _, w := range ws {
			if err := b.WriteItem(&buf, w.item, w.bufs...); err != nil {
				return "err"
			}
		}
		data := capped(buf.Bytes())
		ba := encoding.NewByteArrays(data)
		items := make([]string, n)
		for i := 0; i < n; i++ {
			i := i
			items[i] = hx.Recover(func() string { return hx.Hex(ba.Item(i)) })
		}
		length := hx.Recover(func() string { return fmt.Sprintf("%d", ba.Length()) })
		return fmt.Sprintf("%s %d %d %s %s", hx.Hex(data), end, b.Length(), length, hx.List(items))
	})
}

func renderBA(n int, rs []reservation, ws []write) string {
	var a, b []string
	for _, r := range rs {
		a = append(a, fmt.Sprintf("%d:%d", r.item, r.length))
	}
	for _, w := range ws {
		hs := make([]string, len(w.bufs))
		for i, x := range w.bufs {
			hs[i] = hx.Hex(x)
		}
		b = append(b, fmt.Sprintf("%d:%s", w.item, strings.Join(hs, "+")))
	}
	dash := func(xs []string) string {
		if len(xs) == 0 {
			return "-"
		}
		return strings.Join(xs, " ")
	}
	return fmt.Sprintf("ba %d | %s | %s", n, dash(a), dash(b))
}

// ---- string table --------------------------------------------------------------------------------

func opST(adds []string) string {
	return hx.Recover(func() string {
		b := encoding.NewStringTableBuilder()
		for _, s := range adds {
			b.Add(s)
		}
		var buf encoding.Buffer
		end, err := b.Write(&buf, 0)
		if err != nil {
			return "err"
		}
		data := capped(buf.Bytes())
		st := encoding.NewStringTable(data)
		n := b.NumStrings()
		table := make([]string, n)
		for i := 0; i < n; i++ {
			table[i] = hx.Hex([]byte(st.Lookup(i)))
		}
		distinct := map[string]bool{}
		for _, s := range adds {
			distinct[s] = true
		}
		var keys []string
		for s := range distinct {
			keys = append(keys, s)
		}
		sort.Strings(keys)
		lookups := make([]string, len(keys))
		for i, s := range keys {
			lookups[i] = fmt.Sprintf("%s:%d", hx.Hex([]byte(s)), b.Lookup(s))
		}
		eq := "eq"
		for i := 0; i < n; i++ {
			s := st.Lookup(i)
			if !st.Equal(i, s) || st.Equal(i, s+"x") || (len(s) > 0 && st.Equal(i, s[:len(s)-1]+string([]byte{s[len(s)-1] ^ 1}))) {
				eq = "neq"
			}
		}
		return fmt.Sprintf("%s %d %d %s %s %s", hx.Hex(data), end, b.Length(), hx.List(table), hx.List(lookups), eq)
	})
}

// ---- uint64 map ----------------------------------------------------------------------------------

type entry struct {
	id   uint64
	tag  int
	data []byte
}

func renderTagged(t encoding.Tagged) string { return fmt.Sprintf("%d:%s", int(t.Tag), hx.Hex(t.Data)) }

type builtMap struct {
	m    *encoding.Uint64Map
	data []byte
}

func opMap(b, t int, es []entry, reserveOrder []int) (string, *builtMap) {
	var built *builtMap
	ans := hx.Recover(func() string {
		mb := encoding.NewUint64MapBuilder(b, t)
		for _, k := range reserveOrder {
			mb.Reserve(es[k].id, encoding.Tag(es[k].tag), len(es[k].data))
		}
		mb.FinishReservation()
		var buf encoding.Buffer
		end, err := mb.WriteHeader(&buf, 0)
		if err != nil {
			return "err"
		}
		for _, e := range es {
			if err := mb.WriteItem(e.id, encoding.Tag(e.tag), e.data, &buf); err != nil {
				return "err"
			}
		}
		data := capped(buf.Bytes())
		m := encoding.NewUint64Map(data)
		built = &builtMap{m: m, data: data}
		return fmt.Sprintf("%d %d %s %d %d %d", mb.Layout.BucketBits, mb.Layout.TagBits, hx.Hex(data), end, mb.Length(), m.Length())
	})
	return ans, built
}

func opFill(m *encoding.Uint64Map, id uint64) string {
	return hx.Recover(func() string {
		ts := m.FillTagged(id, nil)
		xs := make([]string, len(ts))
		for i, t := range ts {
			xs[i] = renderTagged(t)
		}
		return hx.List(xs)
	})
}

func opFirst(m *encoding.Uint64Map, id uint64) string {
	return hx.Recover(func() string {
		t, ok := m.FindFirst(id)
		if !ok {
			return "none"
		}
		return renderTagged(t)
	})
}

func opFirstTag(m *encoding.Uint64Map, id uint64, tag int) string {
	return hx.Recover(func() string {
		d := m.FindFirstWithTag(id, encoding.Tag(tag))
		if d == nil {
			return "none"
		}
		return hx.Hex(d)
	})
}

func renderGroup(id uint64, ts []string) string {
	sort.Strings(ts) // the order inside one id is not promised (unstable sort): canonicalise
	return u(id) + "{" + strings.Join(ts, ",") + "}"
}

func opIter(m *encoding.Uint64Map) string {
	return hx.Recover(func() string {
		var gs []string
		for it := m.Begin(); it.Next(); {
			ts := make([]string, it.Len())
			for i := 0; i < it.Len(); i++ {
				ts[i] = fmt.Sprintf("%d:%s", int(it.Tag(i)), hx.Hex(it.Data(i)))
			}
			gs = append(gs, renderGroup(it.ID(), ts))
		}
		return hx.List(gs)
	})
}

func opEach(m *encoding.Uint64Map, goroutines int) string {
	done := make(chan string, 1)
	go func() {
		done <- hx.Recover(func() string {
			var lock sync.Mutex
			type group struct {
				id uint64
				s  string
			}
			var gs []group
			err := m.EachItem(func(id uint64, tagged []encoding.Tagged, goroutine int) error {
				ts := make([]string, len(tagged))
				for i, t := range tagged {
					ts[i] = renderTagged(t)
				}
				lock.Lock()
				gs = append(gs, group{id, renderGroup(id, ts)})
				lock.Unlock()
				return nil
			}, goroutines)
			if err != nil {
				return "err"
			}
			sort.SliceStable(gs, func(i, j int) bool { return gs[i].id < gs[j].id })
			xs := make([]string, len(gs))
			for i, g := range gs {
				xs[i] = g.s
			}
			return hx.List(xs)
		})
	}()
	select {
	case s := <-done:
		return s
	case <-time.After(20 * time.Second):
		return "hang"
	}
}

// ---- generators ----------------------------------------------------------------------------------

var pivots = []uint64{0, 1, 1 << 62, 1<<62 - 1, 1 << 63, 1<<63 - 1, 1<<63 + 5, 3 << 62, 1<<64 - 1, 1 << 32, 127, 128, 16383, 16384}

func word(r *hx.Rand) uint64 {
	switch r.Intn(4) {
	case 0:
		return pivots[r.Intn(len(pivots))] + uint64(r.Intn(5)) - 2
	case 1:
		return uint64(r.Intn(1000))
	}
	return r.Uint64Edge()
}

func bytesN(r *hx.Rand, n int) []byte {
	b := make([]byte, n)
	for i := range b {
		switch r.Intn(4) {
		case 0:
			b[i] = 0
		case 1:
			b[i] = byte(0x80 + r.Intn(0x80))
		default:
			b[i] = byte(r.Intn(256))
		}
	}
	return b
}

func seq(r *hx.Rand) []uint64 {
	n := r.Intn(9)
	vs := make([]uint64, n)
	mode := r.Intn(4)
	var cur uint64 = word(r)
	for i := range vs {
		switch mode {
		case 0: // sorted ids with small gaps
			cur += uint64(r.Intn(300))
			vs[i] = cur
		case 1: // extremes, wrap-around deltas
			vs[i] = pivots[r.Intn(len(pivots))] + uint64(r.Intn(3)) - 1
		default:
			vs[i] = word(r)
		}
	}
	return vs
}

func words(vs []uint64) string {
	xs := make([]string, len(vs))
	for i, v := range vs {
		xs[i] = u(v)
	}
	return hx.List(xs)
}

func hasBigDelta(vs []uint64) bool {
	last := uint64(0)
	for _, v := range vs {
		d := v - last
		if d >= 1<<62 && d < 3<<62 {
			return true
		}
		last = v
	}
	return false
}

// boundaryWord: 2^(8k)-1, 2^(8k), 2^(8k)+1, samples of [2^32, 2^33), or a random word
func boundaryWord(r *hx.Rand) uint64 {
	switch r.Intn(4) {
	case 0:
		return uint64(1)<<uint(8*(1+r.Intn(7))) + uint64(r.Intn(3)) - 1
	case 1:
		return 1<<32 + r.Uint64()%(1<<32)
	case 2:
		return uint64(1)<<uint(1+r.Intn(63)) + uint64(r.Intn(3)) - 1
	}
	return word(r)
}

func genInts(c *hx.Ctx) {
	r := c.Rand
	if r.Chance(1, 4) {
		v := boundaryWord(r)
		c.Op("fixown "+u(v), opFixOwn(v))
		c.Note("op:fixown")
		if v >= 1<<32 {
			c.NonTrivial()
		}
		return
	}
	switch r.Intn(6) {
	case 0, 1:
		vs := seq(r)
		c.Op("delta "+words(vs), opDelta(vs))
		c.Note("op:delta")
		if hasBigDelta(vs) {
			c.Note("delta:|d|>=2^62")
			c.NonTrivial()
		}
	case 2:
		vs := seq(r)
		c.Op("ints "+words(vs), opInts(vs))
		c.Note("op:ints")
		if hasBigDelta(vs) {
			c.NonTrivial()
		}
	case 3:
		// decode-only: a valid encoding, possibly truncated / mutated / read with the wrong count
		vs := seq(r)
		buf := make([]byte, 10*len(vs)+1)
		k := encoding.MarshalDeltaCodedUint64s(vs, buf)
		data := append([]byte{}, buf[:k]...)
		n := len(vs)
		switch r.Intn(4) {
		case 0:
			if len(data) > 0 {
				data = data[:r.Intn(len(data))]
			}
		case 1:
			if len(data) > 0 {
				data[r.Intn(len(data))] ^= byte(1 << uint(r.Intn(8)))
			}
		case 2:
			n += r.Intn(3)
		}
		c.Op(fmt.Sprintf("deltad %d %s", n, hx.Hex(data)), opDeltaD(n, data))
		c.Note("op:deltad")
	case 4:
		v := word(r)
		l := encoding.Uint64Length(v) + r.Intn(3)
		if r.Chance(1, 5) {
			l = r.Intn(13)
		}
		c.Op(fmt.Sprintf("fix %s %d", u(v), l), opFix(v, l))
		c.Note(fmt.Sprintf("op:fix l=%d", l))
		if l >= encoding.Uint64Length(v) && v >= 1<<32 {
			c.NonTrivial()
		}
	case 5:
		v := word(r)
		if r.Bool() {
			v = uint64(1)<<uint(8*r.Intn(8)) - uint64(r.Intn(2))
		}
		c.Op("len "+u(v), fmt.Sprintf("%d", encoding.Uint64Length(v)))
		c.Note("op:len")
	}
}

// genBAL: reserved lengths whose sum sits on / next to a pointer-width boundary
func genBAL(c *hx.Ctx) {
	r := c.Rand
	total := uint64(1)<<uint(8*(1+r.Intn(5))) + uint64(r.Intn(3)) - 1
	if r.Chance(1, 4) {
		total = 1<<32 + r.Uint64()%(1<<32) // 4GiB..8GiB: needs 5-byte pointers
	}
	n := 1 + r.Intn(5)
	lengths := make([]uint64, n)
	left := total
	for i := 0; i < n-1; i++ {
		switch r.Intn(3) {
		case 0:
			lengths[i] = 0
		case 1:
			lengths[i] = uint64(r.Intn(8))
		default:
			lengths[i] = r.Uint64() % (left + 1)
		}
		if lengths[i] > left {
			lengths[i] = left
		}
		left -= lengths[i]
	}
	lengths[n-1] = left
	if r.Bool() { // the big item not last
		j := r.Intn(n)
		lengths[j], lengths[n-1] = lengths[n-1], lengths[j]
	}
	c.Op("bal "+words(lengths), opBAL(lengths))
	c.Note("op:bal")
	c.NonTrivial()
}

func genBA(c *hx.Ctx) {
	r := c.Rand
	if r.Chance(1, 5) {
		genBAL(c)
		return
	}
	n := r.Intn(7)
	// what each item will receive, as a list of write calls
	var ws []write
	totals := make([]int, n)
	if n > 0 {
		for k := r.Intn(2*n + 1); k > 0; k-- {
			w := write{item: r.Intn(n)}
			for j := 1 + r.Intn(2); j > 0; j-- {
				l := r.Intn(6)
				if r.Chance(1, 12) {
					l = 200 + r.Intn(200) // pushes the total past 255: two-byte pointers
				}
				w.bufs = append(w.bufs, bytesN(r, l))
				totals[w.item] += l
			}
			ws = append(ws, w)
		}
	}
	// reservations: the totals, split over several Reserve calls in random order
	var rs []reservation
	exact := true
	for i := 0; i < n; i++ {
		left := totals[i]
		switch r.Intn(10) {
		case 0:
			left += 1 + r.Intn(3) // over-reserved: the tail of the item stays zero / unwritten
			exact = false
		}
		for left > 0 && r.Bool() {
			part := r.Intn(left + 1)
			rs = append(rs, reservation{i, part})
			left -= part
		}
		rs = append(rs, reservation{i, left})
	}
	p := r.Perm(len(rs))
	shuffled := make([]reservation, len(rs))
	for i, j := range p {
		shuffled[i] = rs[j]
	}
	if r.Chance(1, 25) && len(ws) > 0 {
		ws = append(ws, write{item: ws[0].item, bufs: [][]byte{bytesN(r, 1+r.Intn(3))}}) // beyond the reservation: panic
		exact = false
	}
	c.Op(renderBA(n, shuffled, ws), opBA(n, shuffled, ws))
	c.Note("op:ba")
	c.Note(fmt.Sprintf("ba:items=%d", n))
	if exact && len(ws) >= 3 {
		c.Note("ba:exact,>=3 writes")
		c.NonTrivial()
	}
}

func genST(c *hx.Ctx) {
	r := c.Rand
	pool := []string{"", "a", "highway", "name", "amenity", "yes", "\x00", "caf\xc3\xa9", "b", "building"}
	for i := r.Intn(3); i > 0; i-- {
		pool = append(pool, string(bytesN(r, r.Intn(8))))
	}
	k := r.Intn(14)
	adds := make([]string, k)
	hs := make([]string, k)
	for i := range adds {
		adds[i] = pool[r.Intn(len(pool))]
		if r.Chance(1, 3) {
			adds[i] = pool[r.Intn(3)]
		}
		hs[i] = hx.Hex([]byte(adds[i]))
	}
	c.Op("st "+hx.List(hs), opST(adds))
	c.Note("op:st")
	if k >= 5 {
		c.NonTrivial()
	}
}

func genMap(c *hx.Ctx) {
	r := c.Rand
	b := r.Intn(7)
	if r.Chance(1, 6) {
		b = 7 + r.Intn(6)
	}
	t := r.Intn(4)
	switch r.Intn(8) {
	case 0:
		t = 4 + r.Intn(4)
	case 1:
		t = 8 + r.Intn(9) // 8..16 tag bits: the tag alone can push the header varint to 2 or 3 bytes
		if r.Chance(2, 3) {
			t = 8 + r.Intn(5)
		}
	}
	eb := b // effective bucket bits (the builder uses at least t)
	if eb < t {
		eb = t
	}
	tagOf := func() int {
		max := 1<<uint(t) - 1
		var v int
		switch r.Intn(8) {
		case 0:
			v = 0
		case 1:
			v = 1
		case 2:
			v = 127
		case 3:
			v = 128
		case 4:
			v = 255
		case 5:
			v = max
		case 6:
			v = 16383 + r.Intn(2)
		default:
			v = r.Intn(max + 1)
		}
		if v > max {
			v = max
		}
		return v
	}
	// a pool of ids: extremes, ids sharing a bucket, ids differing only in high bits
	var pool []uint64
	for i := 2 + r.Intn(5); i > 0; i-- {
		id := word(r)
		if r.Chance(1, 3) {
			id = uint64(r.Intn(1 << uint(eb))) // id < 2^bucketBits: contributes no bits to the header word
		}
		pool = append(pool, id)
		switch r.Intn(4) {
		case 0:
			pool = append(pool, id^(1<<63)) // same bucket, other top bit
		case 1:
			pool = append(pool, id+uint64(1+r.Intn(3))<<uint(b)) // same bucket, next ids
		case 2:
			pool = append(pool, id^(uint64(1)<<uint(40+r.Intn(24))))
		}
	}
	n := r.Intn(12)
	es := make([]entry, n)
	topbit, dups := false, false
	seen := map[uint64]int{}
	for i := range es {
		l := r.Intn(5)
		if r.Chance(1, 15) {
			l = 100 + r.Intn(100)
		}
		es[i] = entry{id: pool[r.Intn(len(pool))], tag: tagOf(), data: bytesN(r, l)}
		if es[i].id < 1<<uint(eb) && es[i].tag >= 128 {
			c.Note("map:small-id,tag>=128")
		}
		if es[i].id >= 1<<63 {
			topbit = true
		}
		seen[es[i].id]++
		if seen[es[i].id] > 1 {
			dups = true
		}
	}
	xs := make([]string, n)
	for i, e := range es {
		xs[i] = fmt.Sprintf("%s:%d:%s", u(e.id), e.tag, hx.Hex(e.data))
	}
	ans, built := opMap(b, t, es, r.Perm(n))
	c.Op(fmt.Sprintf("map %d %d %s", b, t, hx.List(xs)), ans)
	c.Note("op:map")
	c.Note(fmt.Sprintf("map:b=%d", min(b, 7)))
	c.Note(fmt.Sprintf("map:t=%d", min(t, 8)))
	if built == nil {
		c.Note("map:panic")
		return
	}
	if topbit && t > 0 {
		c.Note("map:topbit-id,tagged")
	}
	if t > b {
		c.Note("map:t>b requested")
	}
	if dups && topbit {
		c.NonTrivial()
	}
	q := func() uint64 {
		if r.Chance(1, 5) {
			return word(r)
		}
		id := pool[r.Intn(len(pool))]
		if r.Chance(1, 6) {
			id ^= 1 << 63
		}
		return id
	}
	for k := 2 + r.Intn(5); k > 0; k-- {
		switch r.Intn(3) {
		case 0:
			id := q()
			c.Op("fill "+u(id), opFill(built.m, id))
			c.Note("op:fill")
		case 1:
			id := q()
			c.Op("first "+u(id), opFirst(built.m, id))
			c.Note("op:first")
		case 2:
			id := q()
			tag := tagOf()
			c.Op(fmt.Sprintf("firsttag %s %d", u(id), tag), opFirstTag(built.m, id, tag))
			c.Note("op:firsttag")
		}
	}
	if r.Bool() {
		c.Op("iter", opIter(built.m))
		c.Note("op:iter")
	}
	if r.Chance(1, 3) {
		g := 1 + r.Intn(4)
		c.Op(fmt.Sprintf("each %d", g), opEach(built.m, g))
		c.Note("op:each")
	}
}

func main() {
	hx.Main(hx.Family{
		Name:     "c09",
		Rule:     "each case is one of: 3 integer ops (fixed width at the value's own Uint64Length on byte-boundary values and [2^32,2^33) samples, delta/zigzag coded sequences incl. wrap-around deltas and decode of mutated bytes, fixed-width ints, Uint64Length), one ByteArrays build (or a layout-only build whose reserved total sits next to 2^8k or in 4..8 GiB, offset table and length read back; random reservations split over several Reserve calls, writes in random order, 0-6 items) + every item read back, one StringTable build, or one Uint64Map build (requested bucket bits 0..12, tag bits 0..16 (the builder uses at least as many bucket bits), tags from edge values 0/1/127/128/255/2^t-1/16383, ids from a small pool with ids below 2^bucketBits, shared buckets, top bits and duplicates) followed by FillTagged/FindFirst/FindFirstWithTag queries on present and absent ids, a full iteration and EachItem; non-trivial = delta with |d| >= 2^62, fixed width of a value >= 2^32, an exactly-filled ByteArrays with >= 3 writes, a string table with >= 5 adds, a map with duplicate ids and a top-bit id; distinct = by hash of the op text",
		Quick:    2500,
		Thorough: 40000,
		Corpus: func(c *hx.Ctx) {
			// fixed (C10-zigzag-decode): a delta of 2^63 / 2^62 decoded to 0 / -2^62
			for _, vs := range [][]uint64{{1 << 63}, {1 << 62}, {0, 1 << 63, 0}, {1<<64 - 1, 1 << 62, 5}} {
				c.Op("delta "+words(vs), opDelta(vs))
				c.Op("ints "+words(vs), opInts(vs))
			}
			// fixed (C09-uint64map-bucket-bits): requested layout (1,2), id with the top bit set (DESIGN §7)
			es := []entry{{id: 1<<63 + 5, tag: 1, data: []byte{0xaa, 0xbb}}, {id: 5, tag: 2, data: []byte{0xcc}}, {id: 1<<63 + 5, tag: 3, data: nil}}
			ans, built := opMap(1, 2, es, []int{0, 1, 2})
			c.Op(fmt.Sprintf("map 1 2 [%s:1:aabb 5:2:cc %s:3:-]", u(1<<63+5), u(1<<63+5)), ans)
			if built != nil {
				c.Op("first "+u(1<<63+5), opFirst(built.m, 1<<63+5))
				c.Op("fill "+u(1<<63+5), opFill(built.m, 1<<63+5))
				c.Op("fill 5", opFill(built.m, 5))
				c.Op("firsttag "+u(1<<63+5)+" 3", opFirstTag(built.m, 1<<63+5, 3))
				c.Op("iter", opIter(built.m))
				c.Op("each 2", opEach(built.m, 2))
			}
			// fixed width at the value's own length, every byte boundary and the 4/5-byte one in particular
			for k := uint(1); k < 8; k++ {
				for d := uint64(0); d < 3; d++ {
					v := uint64(1)<<(8*k) + d - 1
					c.Op("fixown "+u(v), opFixOwn(v))
				}
			}
			for _, v := range []uint64{1 << 32, 1<<32 + 1, 5 << 30, 1<<33 - 1, 1 << 33, 1<<64 - 1, 0} {
				c.Op("fixown "+u(v), opFixOwn(v))
			}
			// layout-only byte arrays whose total sits on a pointer-width boundary (nothing is allocated)
			for _, total := range []uint64{1<<8 - 1, 1 << 8, 1<<8 + 1, 1<<16 - 1, 1 << 16, 1<<16 + 1, 1<<24 - 1, 1 << 24, 1<<24 + 1, 1<<32 - 1, 1 << 32, 1<<32 + 1, 5 << 30} {
				ls := []uint64{5, total - 29, 20, 0, 4}
				c.Op("bal "+words(ls), opBAL(ls))
			}
			// header varint made longer by the tag alone: 8 tag bits, id below 2^bucketBits, tag >= 128 (Reserve and
			// WriteItem must size the header identically)
			es2 := []entry{{id: 3, tag: 200, data: []byte{1}}, {id: 3, tag: 5, data: []byte{2, 3}}, {id: 1<<63 + 3, tag: 255, data: nil}, {id: 7, tag: 128, data: []byte{9}}}
			ans2, built2 := opMap(8, 8, es2, []int{3, 2, 1, 0})
			c.Op(fmt.Sprintf("map 8 8 [3:200:01 3:5:0203 %s:255:- 7:128:09]", u(1<<63+3)), ans2)
			if built2 != nil {
				c.Op("fill 3", opFill(built2.m, 3))
				c.Op("firsttag 7 128", opFirstTag(built2.m, 7, 128))
				c.Op("iter", opIter(built2.m))
			}
			c.Op("fix 18446744073709551615 8", opFix(1<<64-1, 8))
			c.Op("fix 256 1", opFix(256, 1))
			c.Op("fix 7 0", opFix(7, 0))
			c.NonTrivial()
		},
		Case: func(c *hx.Ctx) {
			switch c.Rand.Intn(8) {
			case 0, 1:
				for i := 0; i < 3; i++ {
					genInts(c)
				}
			case 2, 3:
				genBA(c)
			case 4:
				genST(c)
			default:
				genMap(c)
			}
		},
	})
}
