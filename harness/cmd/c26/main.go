// C26 harness: changes that pass or fail validation, sent through a real in-process gRPC service
// (grpc.NewB6Service, no network) and through api.Evaluator (holding the read lock, as the UI does).
//
// Each case builds a small base world (points p0..p7, paths w0..w3 in namespace "v"), then sends a
// sequence of changes.  Every change goes to the gRPC service under root r/1 and to the UI evaluator
// under root r/2 (two overlays over the same base, so both start equal and see the same sequence); after
// each request the world under that root is dumped.
//
// line protocol (ids: p<n> point, w<n> path, x0 the invalid ID; feature = id|k=v,k=v|ref,ref with `-` for empty)
//   base [feature …]                => [feature …]
//   grpc <change> / ui <change>     => err | ids [id …] (sorted, with repetitions) | plain | panic
//   grpc-plain / ui-plain           => plain                (expression evaluates to a non-change)
//   grpc-evalerr / ui-evalerr       => err                  (evaluation fails)
//   grpc-badver <change>            => err                  (incompatible client version)
//   world g / world u               => [feature …]          (sorted by id, tags sorted by key)
// change (prefix form): af N feature…  |  at N id:k=v …  |  rt N id:k …  |  mg N change…
//
// Changes are sent either as real shell expressions (add-tag, add-tags, remove-tag, remove-tags,
// merge-changes over map, add-point) or, for shapes the shell cannot express (paths, nested and mixed
// merges, invalid IDs), through a function symbol registered by this harness that returns a prepared
// ingest.Change value; both go through the evaluators' change branch.
package main

import (
	"context"
	"fmt"
	"sort"
	"strings"
	"sync"

	"diagonal.works/b6"
	"diagonal.works/b6/api"
	"diagonal.works/b6/api/functions"
	"diagonal.works/b6/grpc"
	"diagonal.works/b6/ingest"
	pb "diagonal.works/b6/proto"
	"github.com/golang/geo/s2"
	"verifharness/hx"
)

const ns = "v"

var rootG = b6.FeatureID{Type: b6.FeatureTypeCollection, Namespace: "r", Value: 1}
var rootU = b6.FeatureID{Type: b6.FeatureTypeCollection, Namespace: "r", Value: 2}

const nPoints, nPaths = 8, 4

func pid(n int) b6.FeatureID { return b6.FeatureID{Type: b6.FeatureTypePoint, Namespace: ns, Value: uint64(n)} }
func wid(n int) b6.FeatureID { return b6.FeatureID{Type: b6.FeatureTypePath, Namespace: ns, Value: uint64(n)} }

func idText(id b6.FeatureID) string {
	switch id.Type {
	case b6.FeatureTypePoint:
		return fmt.Sprintf("p%d", id.Value)
	case b6.FeatureTypePath:
		return fmt.Sprintf("w%d", id.Value)
	}
	return "x0"
}

func idRank(id b6.FeatureID) int {
	switch id.Type {
	case b6.FeatureTypePoint:
		return 1
	case b6.FeatureTypePath:
		return 2
	}
	return 0
}

func idLess(a, b b6.FeatureID) bool {
	if idRank(a) != idRank(b) {
		return idRank(a) < idRank(b)
	}
	return a.Value < b.Value
}

type tagop struct {
	id   b6.FeatureID
	k, v string
}

type feat struct {
	id   b6.FeatureID
	tags [][2]string
	refs []b6.FeatureID
}

type change struct {
	kind  string // af at rt mg
	feats []feat
	tags  []tagop
	subs  []*change
}

func featText(f feat) string {
	ts := make([]string, len(f.tags))
	for i, t := range f.tags {
		ts[i] = t[0] + "=" + t[1]
	}
	rs := make([]string, len(f.refs))
	for i, r := range f.refs {
		rs[i] = idText(r)
	}
	dash := func(s string) string {
		if s == "" {
			return "-"
		}
		return s
	}
	return idText(f.id) + "|" + dash(strings.Join(ts, ",")) + "|" + dash(strings.Join(rs, ","))
}

func (c *change) text() string {
	var sb strings.Builder
	switch c.kind {
	case "af":
		fmt.Fprintf(&sb, "af %d", len(c.feats))
		for _, f := range c.feats {
			sb.WriteString(" " + featText(f))
		}
	case "at":
		fmt.Fprintf(&sb, "at %d", len(c.tags))
		for _, t := range c.tags {
			sb.WriteString(" " + idText(t.id) + ":" + t.k + "=" + t.v)
		}
	case "rt":
		fmt.Fprintf(&sb, "rt %d", len(c.tags))
		for _, t := range c.tags {
			sb.WriteString(" " + idText(t.id) + ":" + t.k)
		}
	case "mg":
		fmt.Fprintf(&sb, "mg %d", len(c.subs))
		for _, s := range c.subs {
			sb.WriteString(" " + s.text())
		}
	}
	return sb.String()
}

func pointLL(n uint64) s2.LatLng { return s2.LatLngFromDegrees(51.5+float64(n)*0.001, -0.1+float64(n%3)*0.001) }

func buildFeature(f feat) ingest.Feature {
	g := &ingest.GenericFeature{ID: f.id}
	switch f.id.Type {
	case b6.FeatureTypePoint:
		g.ModifyOrAddTag(b6.Tag{Key: b6.PointTag, Value: b6.NewPointExpressionFromLatLng(pointLL(f.id.Value))})
	case b6.FeatureTypePath:
		refs := make([]b6.AnyExpression, 0, len(f.refs))
		for _, r := range f.refs {
			refs = append(refs, b6.FeatureIDExpression(r))
		}
		g.ModifyOrAddTag(b6.Tag{Key: b6.PathTag, Value: b6.NewExpressions(refs)})
	}
	for _, t := range f.tags {
		g.ModifyOrAddTag(b6.Tag{Key: t[0], Value: b6.NewStringExpression(t[1])})
	}
	return g
}

// build makes a fresh ingest.Change value (features are never shared between the two evaluators).
func (c *change) build() ingest.Change {
	switch c.kind {
	case "af":
		a := make(ingest.AddFeatures, 0, len(c.feats))
		for _, f := range c.feats {
			a = append(a, buildFeature(f))
		}
		return &a
	case "at":
		a := make(ingest.AddTags, 0, len(c.tags))
		for _, t := range c.tags {
			a = append(a, ingest.AddTag{ID: t.id, Tag: b6.Tag{Key: t.k, Value: b6.NewStringExpression(t.v)}})
		}
		return a
	case "rt":
		a := make(ingest.RemoveTags, 0, len(c.tags))
		for _, t := range c.tags {
			a = append(a, ingest.RemoveTag{ID: t.id, Key: t.k})
		}
		return a
	}
	m := make(ingest.MergedChange, 0, len(c.subs))
	for _, s := range c.subs {
		m = append(m, s.build())
	}
	return m
}

// shell returns the change as a b6 shell expression when the shell can express it.
func (c *change) shell() (string, bool) {
	valid := func(id b6.FeatureID) bool { return id.Type != b6.FeatureTypeInvalid }
	switch c.kind {
	case "at":
		if len(c.tags) == 0 {
			return "", false
		}
		for _, t := range c.tags {
			if !valid(t.id) {
				return "", false
			}
		}
		if len(c.tags) == 1 {
			t := c.tags[0]
			return fmt.Sprintf("add-tag %s %s=%s", "/"+t.id.String(), t.k, t.v), true
		}
		parts := make([]string, len(c.tags))
		for i, t := range c.tags {
			parts[i] = fmt.Sprintf("%s: %s=%s", "/"+t.id.String(), t.k, t.v)
		}
		return "add-tags {" + strings.Join(parts, ", ") + "}", true
	case "rt":
		if len(c.tags) == 0 {
			return "", false
		}
		for _, t := range c.tags {
			if !valid(t.id) {
				return "", false
			}
		}
		if len(c.tags) == 1 {
			t := c.tags[0]
			return fmt.Sprintf("remove-tag %s %q", "/"+t.id.String(), t.k), true
		}
		parts := make([]string, len(c.tags))
		for i, t := range c.tags {
			parts[i] = fmt.Sprintf("%s: %q", "/"+t.id.String(), t.k)
		}
		return "remove-tags {" + strings.Join(parts, ", ") + "}", true
	case "af":
		if len(c.feats) == 1 && c.feats[0].id.Type == b6.FeatureTypePoint && len(c.feats[0].tags) > 0 {
			f := c.feats[0]
			ll := pointLL(f.id.Value)
			parts := make([]string, len(f.tags))
			for i, t := range f.tags {
				parts[i] = t[0] + "=" + t[1]
			}
			return fmt.Sprintf("add-point %.7f, %.7f %s {%s}", ll.Lat.Degrees(), ll.Lng.Degrees(), "/"+f.id.String(), strings.Join(parts, ", ")), true
		}
	case "mg":
		// merge-changes (map {ids} {x -> add-tag x k=v}) when every part is one add-tag of the same tag
		if len(c.subs) < 2 {
			return "", false
		}
		var k, v string
		ids := make([]string, len(c.subs))
		for i, s := range c.subs {
			if s.kind != "at" || len(s.tags) != 1 || !valid(s.tags[0].id) {
				return "", false
			}
			if i == 0 {
				k, v = s.tags[0].k, s.tags[0].v
			} else if s.tags[0].k != k || s.tags[0].v != v {
				return "", false
			}
			ids[i] = "/" + s.tags[0].id.String()
		}
		return fmt.Sprintf("merge-changes (map {%s} {x -> add-tag x %s=%s})", strings.Join(ids, ", "), k, v), true
	}
	return "", false
}

// ---- prepared-change function symbol -------------------------------------------------------

var prepared ingest.Change

func init() {
	functions.Functions()["verif-c26-change"] = func(c *api.Context, n int) (ingest.Change, error) {
		return prepared, nil
	}
	functions.Functions()["verif-c26-fail"] = func(c *api.Context, n int) (ingest.Change, error) {
		return nil, fmt.Errorf("verif: evaluation fails")
	}
}

// ---- the system under test ---------------------------------------------------------------------

type sut struct {
	worlds ingest.Worlds
	lock   sync.RWMutex
	svc    pb.B6Server
	ev     api.Evaluator
}

// newSUT: mutable worlds, or (ro) the read-only worlds a b6 started with --read-only serves: every write to them
// fails with "World is read-only" — also when the canary overlay of a MergedChange accepted it
func newSUT(c *hx.Ctx, base b6.World, ro bool) *sut {
	s := &sut{worlds: &ingest.MutableWorlds{Base: base}}
	if ro {
		s.worlds = ingest.ReadOnlyWorlds{Base: base}
		c.Op("kind ro", "ro")
	} else {
		c.Op("kind rw", "rw")
	}
	s.svc = grpc.NewB6Service(s.worlds, api.Options{Cores: 1}, &s.lock)
	s.ev = api.Evaluator{Worlds: s.worlds, FunctionSymbols: functions.Functions(), Adaptors: functions.Adaptors(), Lock: &s.lock}
	return s
}

func sortedIDs(ids []b6.FeatureID) string {
	sort.SliceStable(ids, func(i, j int) bool { return idLess(ids[i], ids[j]) })
	xs := make([]string, len(ids))
	for i, id := range ids {
		xs[i] = idText(id)
	}
	return "ids " + hx.List(xs)
}

func (s *sut) grpcEval(expr b6.Expression, version string) string {
	return hx.Recover(func() string {
		pe, err := expr.ToProto()
		if err != nil {
			return "toproto-failed"
		}
		resp, err := s.svc.Evaluate(context.Background(), &pb.EvaluateRequestProto{Request: pe, Version: version, Root: b6.NewProtoFromFeatureID(rootG)})
		if err != nil {
			return "err"
		}
		e, err := b6.ExpressionFromProto(resp.Result)
		if err != nil {
			return "undecodable"
		}
		col, ok := e.AnyExpression.(b6.CollectionExpression)
		if !ok {
			return "plain"
		}
		var ids []b6.FeatureID
		i := col.BeginUntyped()
		for {
			ok, err := i.Next()
			if err != nil {
				return "undecodable"
			}
			if !ok {
				break
			}
			k, kok := i.Key().(b6.FeatureID)
			v, vok := i.Value().(b6.FeatureID)
			if !kok || !vok || k != v {
				return "plain"
			}
			ids = append(ids, k)
		}
		return sortedIDs(ids)
	})
}

func (s *sut) uiEval(expr b6.Expression) string {
	return hx.Recover(func() string {
		s.lock.RLock() // the UI handlers hold the read lock around EvaluateExpression
		defer s.lock.RUnlock()
		v, err := s.ev.EvaluateExpression(expr, rootU)
		if err != nil {
			return "err"
		}
		a, ok := v.(*api.AppliedChange)
		if !ok {
			return "plain"
		}
		var ids []b6.FeatureID
		i := a.Modified.Begin()
		for {
			ok, err := i.Next()
			if err != nil {
				return "undecodable"
			}
			if !ok {
				break
			}
			if i.Key() != i.Value() {
				return "undecodable"
			}
			ids = append(ids, i.Key())
		}
		return sortedIDs(ids)
	})
}

func dumpFeature(f b6.Feature) string {
	var d feat
	d.id = f.FeatureID()
	for _, t := range f.AllTags() {
		if t.Key == b6.PointTag || t.Key == b6.PathTag {
			continue
		}
		d.tags = append(d.tags, [2]string{t.Key, t.Value.String()})
	}
	sort.SliceStable(d.tags, func(i, j int) bool { return d.tags[i][0] < d.tags[j][0] })
	if d.id.Type == b6.FeatureTypePath {
		if p, ok := f.(b6.PhysicalFeature); ok {
			for i := 0; i < p.GeometryLen(); i++ {
				if r := p.Reference(i); r != nil {
					d.refs = append(d.refs, r.Source())
				} else {
					d.refs = append(d.refs, b6.FeatureIDInvalid)
				}
			}
		}
	}
	return featText(d)
}

func (s *sut) dump(root b6.FeatureID) string {
	return hx.Recover(func() string {
		s.lock.RLock()
		defer s.lock.RUnlock()
		w := s.worlds.FindOrCreateWorld(root)
		var xs []string
		for i := 0; i < nPoints; i++ {
			if f := w.FindFeatureByID(pid(i)); f != nil {
				xs = append(xs, dumpFeature(f))
			}
		}
		for i := 0; i < nPaths; i++ {
			if f := w.FindFeatureByID(wid(i)); f != nil {
				xs = append(xs, dumpFeature(f))
			}
		}
		return hx.List(xs)
	})
}

func mustParse(e string) b6.Expression {
	ex, err := api.ParseExpression(e)
	if err != nil {
		panic(fmt.Sprintf("harness: cannot parse %q: %s", e, err))
	}
	return ex
}

// send evaluates the change through both evaluators and dumps both worlds.
func (s *sut) send(c *hx.Ctx, ch *change, useShell bool) (string, string) {
	text := ch.text()
	expr := func() b6.Expression {
		if e, ok := ch.shell(); ok && useShell {
			c.Note("form:shell:" + ch.kind)
			return mustParse(e)
		}
		c.Note("form:prepared:" + ch.kind)
		prepared = ch.build()
		return mustParse("verif-c26-change 0")
	}
	ga := s.grpcEval(expr(), b6.ApiVersion)
	c.Op("grpc "+text, ga)
	c.Op("world g", s.dump(rootG))
	ua := s.uiEval(expr())
	c.Op("ui "+text, ua)
	c.Op("world u", s.dump(rootU))
	c.Note("answer:grpc:" + strings.SplitN(ga, " ", 2)[0])
	c.Note("answer:ui:" + strings.SplitN(ua, " ", 2)[0])
	return ga, ua
}

// ---- generation ------------------------------------------------------------------------------

type gen struct {
	r    *hx.Rand
	keys []string
	s    *sut
	ro   bool
}

func (g *gen) exists(id b6.FeatureID) bool {
	g.s.lock.RLock()
	defer g.s.lock.RUnlock()
	return g.s.worlds.FindOrCreateWorld(rootG).HasFeatureWithID(id)
}

// anID: mostly an existing feature, sometimes any ID of the universe, rarely the invalid ID
func (g *gen) anID(pointsOnly bool) b6.FeatureID {
	r := g.r
	pick := func() b6.FeatureID {
		if pointsOnly || r.Chance(3, 4) {
			return pid(r.Intn(nPoints))
		}
		return wid(r.Intn(nPaths))
	}
	if r.Chance(1, 40) && !pointsOnly {
		return b6.FeatureIDInvalid
	}
	if r.Chance(5, 6) {
		for i := 0; i < 6; i++ {
			if id := pick(); g.exists(id) {
				return id
			}
		}
	}
	return pick()
}

func (g *gen) val() string { return fmt.Sprintf("v%d", g.r.Intn(10)) }

func (g *gen) tags(max int) [][2]string {
	n := g.r.Intn(max + 1)
	p := g.r.Perm(len(g.keys))
	var ts [][2]string
	for i := 0; i < n && i < len(p); i++ {
		ts = append(ts, [2]string{g.keys[p[i]], g.val()})
	}
	return ts
}

func (g *gen) feature() feat {
	r := g.r
	switch {
	case r.Chance(1, 25):
		return feat{id: b6.FeatureIDInvalid, tags: g.tags(1)}
	case r.Chance(1, 2):
		return feat{id: pid(r.Intn(nPoints)), tags: g.tags(2)}
	default:
		f := feat{id: wid(r.Intn(nPaths)), tags: g.tags(2)}
		n := 2 + r.Intn(3)
		if r.Chance(1, 10) {
			n = r.Intn(2) // too short
		}
		for i := 0; i < n; i++ {
			f.refs = append(f.refs, g.anID(true))
		}
		if n >= 2 && r.Chance(1, 12) { // a reference to a path instead of a point
			f.refs[r.Intn(n)] = wid(r.Intn(nPaths))
		}
		openPath(&f)
		return f
	}
}

// openPath keeps paths open (first reference != last): closed paths are validated as S2 loops, which is
// geometry outside this property's model (C13/C37).
func openPath(f *feat) {
	n := len(f.refs)
	if n >= 2 && f.refs[0] == f.refs[n-1] {
		f.refs[n-1] = pid(int(f.refs[0].Value+1) % nPoints)
		if f.refs[0].Type != b6.FeatureTypePoint {
			f.refs[n-1] = pid(0)
		}
	}
}

// elementFree: a change without any element (the only kind a read-only world "applies")
func (g *gen) elementFree(depth int) *change {
	r := g.r
	switch r.Intn(4) {
	case 0:
		return &change{kind: "at"}
	case 1:
		return &change{kind: "rt"}
	case 2:
		return &change{kind: "af"}
	}
	c := &change{kind: "mg"}
	for i := 0; i < r.Intn(3) && depth < 2; i++ {
		c.subs = append(c.subs, g.elementFree(depth+1))
	}
	return c
}

func (g *gen) change(depth int) *change {
	r := g.r
	if g.ro && r.Chance(1, 5) {
		return g.elementFree(depth)
	}
	k := r.Intn(10)
	switch {
	case k < 3:
		c := &change{kind: "at"}
		n := 1 + r.Intn(3)
		if r.Chance(1, 20) {
			n = 0
		}
		for i := 0; i < n; i++ {
			c.tags = append(c.tags, tagop{id: g.anID(false), k: r.Pick(g.keys), v: g.val()})
		}
		return c
	case k < 5:
		c := &change{kind: "rt"}
		n := 1 + r.Intn(3)
		for i := 0; i < n; i++ {
			c.tags = append(c.tags, tagop{id: g.anID(false), k: r.Pick(g.keys)})
		}
		return c
	case k < 8 || depth >= 2:
		c := &change{kind: "af"}
		n := 1 + r.Intn(3)
		for i := 0; i < n; i++ {
			c.feats = append(c.feats, g.feature())
		}
		if n >= 2 && r.Chance(1, 4) { // the same feature twice (the Go map de-duplicates the returned IDs)
			c.feats[n-1].id = c.feats[0].id
			if c.feats[n-1].id.Type != b6.FeatureTypePath {
				c.feats[n-1].refs = nil
			} else if len(c.feats[n-1].refs) < 2 {
				c.feats[n-1].refs = []b6.FeatureID{g.anID(true), g.anID(true)}
			}
			openPath(&c.feats[n-1])
		}
		return c
	default:
		c := &change{kind: "mg"}
		n := 1 + r.Intn(3)
		if r.Chance(1, 15) {
			n = 0
		}
		if r.Chance(1, 4) { // the shape merge-changes (map …) produces
			k, v := r.Pick(g.keys), g.val()
			for i := 0; i < 2+r.Intn(2); i++ {
				c.subs = append(c.subs, &change{kind: "at", tags: []tagop{{id: g.anID(false), k: k, v: v}}})
			}
			if c.subs[0].tags[0].id.Type == b6.FeatureTypeInvalid {
				c.subs[0].tags[0].id = pid(0)
			}
			return c
		}
		for i := 0; i < n; i++ {
			c.subs = append(c.subs, g.change(depth+1))
		}
		return c
	}
}

func buildBase(c *hx.Ctx, feats []feat) b6.World {
	base := ingest.NewBasicMutableWorld()
	for _, f := range feats {
		if err := base.AddFeature(buildFeature(f)); err != nil {
			panic("harness: base feature rejected: " + err.Error())
		}
	}
	xs := make([]string, len(feats))
	for i, f := range feats {
		sort.SliceStable(f.tags, func(a, b int) bool { return f.tags[a][0] < f.tags[b][0] })
		xs[i] = featText(f)
	}
	c.Op("base "+hx.List(xs), hx.List(xs))
	return base
}

func runCase(c *hx.Ctx) {
	r := c.Rand
	g := &gen{r: r}
	if r.Bool() {
		g.keys = []string{"#a", "#b", "#c"}
		c.Note("keys:indexed")
	} else {
		g.keys = []string{"a", "b", "c"}
		c.Note("keys:plain")
	}
	// base: a random subset of the points, in id order, and sometimes a path over two of them
	var feats []feat
	var have []int
	for i := 0; i < nPoints; i++ {
		if r.Chance(1, 2) {
			feats = append(feats, feat{id: pid(i), tags: g.tags(2)})
			have = append(have, i)
		}
	}
	if len(have) >= 2 && r.Chance(1, 2) {
		feats = append(feats, feat{id: wid(r.Intn(nPaths)), tags: g.tags(1), refs: []b6.FeatureID{pid(have[0]), pid(have[len(have)-1])}})
	}
	g.ro = r.Chance(1, 4)
	if g.ro {
		c.Note("kind:read-only")
	} else {
		c.Note("kind:mutable")
	}
	s := newSUT(c, buildBase(c, feats), g.ro)
	g.s = s
	nops := 2 + r.Intn(5)
	failed, succeeded := false, false
	for i := 0; i < nops; i++ {
		switch r.Intn(14) {
		case 0:
			c.Op("grpc-plain", s.grpcEval(mustParse("42"), b6.ApiVersion))
			c.Op("ui-plain", s.uiEval(mustParse("42")))
			c.Note("op:plain")
		case 1:
			c.Op("grpc-evalerr", s.grpcEval(mustParse("verif-c26-fail 0"), b6.ApiVersion))
			c.Op("world g", s.dump(rootG))
			c.Op("ui-evalerr", s.uiEval(mustParse("verif-c26-fail 0")))
			c.Op("world u", s.dump(rootU))
			c.Note("op:evalerr")
		case 2:
			ch := g.change(0)
			prepared = ch.build()
			ver := "36.0.0"
			if r.Bool() {
				ver = ""
			}
			c.Op("grpc-badver "+ch.text(), s.grpcEval(mustParse("verif-c26-change 0"), ver))
			c.Op("world g", s.dump(rootG))
			c.Note("op:badver")
		default:
			ch := g.change(0)
			ga, ua := s.send(c, ch, r.Bool())
			if ga == "err" || ua == "err" {
				failed = true
			}
			if strings.HasPrefix(ga, "ids") || strings.HasPrefix(ua, "ids") {
				succeeded = true
			}
			c.Note("op:change:" + ch.kind)
		}
	}
	if failed && succeeded {
		c.NonTrivial()
	}
}

func main() {
	hx.Main(hx.Family{
		Name:     "c26",
		Rule:     "a base world of points/paths, then 2-6 requests: changes (AddTags/RemoveTags/AddFeatures/MergedChange, nesting <= 3, ~1/3 not applicable: missing feature, short path, missing or non-point reference, invalid ID, failing part of a merge) sent through grpc service.Evaluate and api.Evaluator.EvaluateExpression, as shell expressions or prepared Change values; plus non-change values, evaluation errors and incompatible versions. non-trivial = the case contains at least one change reported as failed and one reported as applied",
		Quick:    2500,
		Thorough: 40000,
		Corpus:   corpus,
		Case:     runCase,
	})
}

// corpus: the DESIGN §7 witness (UI evaluator, add-tag on a missing feature) and its relatives.
func corpus(c *hx.Ctx) {
	feats := []feat{{id: pid(1), tags: [][2]string{{"a", "v1"}}}}
	s := newSUT(c, buildBase(c, feats), false)
	missing := &change{kind: "at", tags: []tagop{{id: pid(5), k: "a", v: "v2"}}}
	s.send(c, missing, true)
	s.send(c, missing, false)
	partial := &change{kind: "at", tags: []tagop{{id: pid(1), k: "b", v: "v3"}, {id: pid(5), k: "a", v: "v2"}}}
	s.send(c, partial, true)
	s.send(c, &change{kind: "rt", tags: []tagop{{id: pid(5), k: "a"}}}, true)
	s.send(c, &change{kind: "mg", subs: []*change{
		{kind: "at", tags: []tagop{{id: pid(1), k: "c", v: "v4"}}},
		{kind: "af", feats: []feat{{id: wid(0), refs: []b6.FeatureID{pid(1), pid(6)}}}},
	}}, false)
	s.send(c, &change{kind: "af", feats: []feat{{id: pid(6)}, {id: wid(0), refs: []b6.FeatureID{pid(1), pid(6)}}, {id: pid(6), tags: [][2]string{{"a", "v7"}}}}}, false)
	// read-only worlds: every kind of change alone and wrapped in merge-changes — the canary overlay accepts what
	// the real world rejects, so the error can only come from the second loop of MergedChange.Apply
	ro := newSUT(c, buildBase(c, feats), true)
	one := []*change{
		{kind: "at", tags: []tagop{{id: pid(1), k: "b", v: "v3"}}},
		{kind: "rt", tags: []tagop{{id: pid(1), k: "a"}}},
		{kind: "af", feats: []feat{{id: pid(6), tags: [][2]string{{"a", "v7"}}}}},
	}
	for _, ch := range one {
		ro.send(c, ch, true)
		ro.send(c, &change{kind: "mg", subs: []*change{ch}}, false)
		ro.send(c, &change{kind: "mg", subs: []*change{{kind: "mg", subs: []*change{ch}}, {kind: "at"}}}, false)
	}
	ro.send(c, &change{kind: "mg", subs: []*change{
		{kind: "at", tags: []tagop{{id: pid(1), k: "c", v: "v4"}}},
		{kind: "at", tags: []tagop{{id: pid(1), k: "c", v: "v4"}}}}}, true) // merge-changes (map …) shell form
	ro.send(c, &change{kind: "mg"}, false)
	ro.send(c, &change{kind: "mg", subs: []*change{{kind: "at"}, {kind: "af"}}}, false)
	c.NonTrivial()
}
