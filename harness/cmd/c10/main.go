// C10 harness: every bit packing named in the property, run on the real b6 functions.
//
// One op per packing and direction (see lean/B6/Driver/C10.lean for the line formats). Numbers are
// unsigned decimal 64-bit words (Go ints are written as their two's-complement bits), strings are hex.
package main

import (
	"encoding/binary"
	"fmt"
	"strings"

	"diagonal.works/b6"
	"diagonal.works/b6/encoding"
	"diagonal.works/b6/ingest"
	"diagonal.works/b6/ingest/compact"
	"diagonal.works/b6/renderer"
	"github.com/golang/geo/s2"
	"verifharness/hx"
)

func u(v uint64) string { return fmt.Sprintf("%d", v) }

func hexs(s string) string { return hx.Hex([]byte(s)) }

// ---- one function per op: runs the real code, returns the canonical answer ----------------------

func opZZ64(x uint64) string {
	e := encoding.ZigzagEncode(int64(x))
	return u(e) + " " + u(uint64(encoding.ZigzagDecode(e)))
}

func opZD64(v uint64) string {
	d := encoding.ZigzagDecode(v)
	return u(uint64(d)) + " " + u(encoding.ZigzagEncode(d))
}

func opZZ32(x uint64) string {
	e := renderer.VerifC10ZigzagEncode(int(int64(x)))
	return u(uint64(e)) + " " + u(uint64(int64(renderer.VerifC10ZigzagDecode(e))))
}

func opZD32(v uint32) string {
	d := renderer.VerifC10ZigzagDecode(v)
	return u(uint64(int64(d))) + " " + u(uint64(renderer.VerifC10ZigzagEncode(d)))
}

func opTNS(t uint64, ns uint16) string {
	c := compact.CombineTypeAndNamespace(b6.FeatureType(int64(t)), compact.Namespace(ns))
	t2, ns2 := c.Split()
	return u(uint64(c)) + " " + u(uint64(int64(t2))) + " " + u(uint64(ns2))
}

func opTNSD(c uint16) string {
	t2, ns2 := compact.TypeAndNamespace(c).Split()
	return u(uint64(int64(t2))) + " " + u(uint64(ns2))
}

func opVT(t uint64, v uint64) string {
	return hx.Recover(func() string {
		e := compact.EncodeValueType(b6.ExpressionType(int64(t)), v)
		var buf [binary.MaxVarintLen64]byte
		binary.PutUvarint(buf[0:], e)
		v2, _ := compact.DecodeValue(buf[0:])
		return u(e) + " " + u(v2) + " " + u(e&((1<<compact.ValueTypeBits)-1))
	})
}

func opGeo(e uint8, l uint64) string {
	return hx.Recover(func() string {
		v := compact.EncodeGeometry(compact.GeometryEncoding(e), int(int64(l)))
		return u(v) + " " + u(uint64(int64(compact.DecodeGeometryLen(v)))) + " " + u(uint64(compact.DecodeGeometryEncoding(v)))
	})
}

func opGeoD(v uint64) string {
	return u(uint64(int64(compact.DecodeGeometryLen(v)))) + " " + u(uint64(compact.DecodeGeometryEncoding(v)))
}

func opHdr(b, t int, id uint64, tag uint64, length uint64) string {
	return hx.Recover(func() string {
		layout := encoding.Uint64MapLayout{BucketBits: b, TagBits: t}
		bs := encoding.VerifC10HeaderMarshal(id, encoding.Tag(int64(tag)), int(int64(length)), &layout)
		bucket := layout.BucketForID(id)
		id2, tag2, len2, n := encoding.VerifC10HeaderUnmarshal(bs, bucket, &layout)
		return fmt.Sprintf("%s %d %s %s %s %d", hx.Hex(bs), uint64(int64(bucket)), u(id2), u(uint64(int64(tag2))), u(uint64(int64(len2))), n)
	})
}

func opLay(b, t int) string {
	return hx.Recover(func() string {
		m := encoding.NewUint64MapBuilder(b, t)
		return fmt.Sprintf("%d %d", m.Layout.BucketBits, m.Layout.TagBits)
	})
}

func opBLay(count uint64, t int) string {
	return hx.Recover(func() string {
		bb, tb := compact.VerifC10BlockLayout(count, b6.FeatureType(t))
		return fmt.Sprintf("%d %d", bb, tb)
	})
}

func opBBits(count uint64) string {
	return fmt.Sprintf("%d", compact.VerifC10BucketBitsForCount(count))
}

// opBBSweep: bucketBitsForCount over [lo, hi) as change points "n:bits" (run-length form).
func opBBSweep(lo, hi uint64) string {
	var xs []string
	last := -1
	for n := lo; n < hi; n++ {
		if b := compact.VerifC10BucketBitsForCount(n); b != last {
			xs = append(xs, fmt.Sprintf("%d:%d", n, b))
			last = b
		}
	}
	return hx.List(xs)
}

func opTile(x, y, z uint64) string {
	id := b6.TileIDFromXYZ(uint(x), uint(y), uint(z))
	x2, y2, z2 := id.ToXYZ()
	return u(uint64(id)) + " " + u(uint64(x2)) + " " + u(uint64(y2)) + " " + u(uint64(z2))
}

func opTileD(id uint64) string {
	x2, y2, z2 := b6.TileID(id).ToXYZ()
	return u(uint64(x2)) + " " + u(uint64(y2)) + " " + u(uint64(z2))
}

func opLLD(v uint64) string {
	ll, ok := ingest.LatLngFromID(b6.FeatureID{Type: b6.FeatureTypePoint, Namespace: b6.NamespaceLatLng, Value: v})
	if !ok {
		return "none"
	}
	return u(uint64(uint32(ll.Lat.E7()))) + " " + u(uint64(uint32(ll.Lng.E7())))
}

func opPC(s string) string {
	id := b6.PointIDFromGBPostcode(s)
	if id == b6.FeatureIDInvalid {
		return "invalid"
	}
	back, ok := b6.PostcodeFromPointID(id)
	if !ok {
		return u(id.Value) + " none"
	}
	return u(id.Value) + " " + hexs(back)
}

func opPCD(v uint64) string {
	back, ok := b6.PostcodeFromPointID(b6.FeatureID{Type: b6.FeatureTypePoint, Namespace: b6.NamespaceGBCodePoint, Value: v})
	if !ok {
		return "none"
	}
	return hexs(back)
}

func opONS(code string, year int64) string {
	id := b6.FeatureIDFromUKONSCode(code, int(year), b6.FeatureTypeArea)
	if id == b6.FeatureIDInvalid {
		return "invalid"
	}
	back, y, ok := b6.UKONSCodeFromFeatureID(id)
	if !ok {
		return u(id.Value) + " none"
	}
	return fmt.Sprintf("%s %s %d", u(id.Value), hexs(back), y)
}

func opONSD(v uint64) string {
	back, y, ok := b6.UKONSCodeFromFeatureID(b6.FeatureID{Type: b6.FeatureTypeArea, Namespace: b6.NamespaceUKONSBoundaries, Value: v})
	if !ok {
		return "none"
	}
	return fmt.Sprintf("%s %d", hexs(back), y)
}

// ---- generators ---------------------------------------------------------------------------------

func bits(r *hx.Rand, n uint) uint64 { // random value below 2^n
	if n == 0 {
		return 0
	}
	if n >= 64 {
		return r.Uint64Edge()
	}
	v := r.Uint64Edge() & (1<<n - 1)
	if r.Chance(1, 4) {
		v = 1<<n - 1 - uint64(r.Intn(3))&(1<<n-1)
	}
	return v
}

func near(r *hx.Rand, pivot uint64) uint64 { return pivot + uint64(r.Intn(5)) - 2 }

var pivots64 = []uint64{1 << 62, 1<<62 - 1, 1 << 63, 1<<63 - 1, 3 << 62, 0, 1<<64 - 1, 1 << 61, 1 << 32, 1 << 31}

func word(r *hx.Rand) uint64 {
	if r.Chance(1, 3) {
		return near(r, pivots64[r.Intn(len(pivots64))])
	}
	return r.Uint64Edge()
}

const alnum = "0123456789ABCDEFGHIJKLMNOPQRSTUVWXYZ"

func postcode(r *hx.Rand) (string, bool) {
	n := 5 + r.Intn(3)
	valid := true
	switch r.Intn(12) {
	case 0:
		n = r.Intn(5) // too short
		valid = false
	case 1:
		n = 8 + r.Intn(3) // too long
		valid = false
	}
	var sb strings.Builder
	for i := 0; i < n; i++ {
		ch := alnum[r.Intn(len(alnum))]
		if r.Chance(1, 3) && ch >= 'A' {
			ch += 'a' - 'A'
		}
		if r.Chance(1, 40) {
			ch = "-_.@[`{/:"[r.Intn(9)]
			valid = false
		}
		if r.Chance(1, 6) {
			sb.WriteByte(' ')
		}
		sb.WriteByte(ch)
	}
	if r.Chance(1, 8) {
		sb.WriteByte(' ')
	}
	return sb.String(), valid
}

func onsCode(r *hx.Rand) (string, int64, bool) {
	valid := true
	letters := "EWSNKLMJ"
	var sb strings.Builder
	sb.WriteByte(letters[r.Intn(len(letters))])
	if r.Chance(1, 10) {
		sb.Reset()
		sb.WriteByte(byte(0x20 + r.Intn(0x5f)))
	}
	n := 8
	if r.Chance(1, 12) {
		n = r.Intn(11)
		valid = valid && n == 8
	}
	for i := 0; i < n; i++ {
		d := byte('0' + r.Intn(10))
		if r.Chance(1, 3) {
			d = "09"[r.Intn(2)]
		}
		if r.Chance(1, 60) {
			d = "+- x_"[r.Intn(5)]
			valid = false
		}
		sb.WriteByte(d)
	}
	year := int64(1900 + r.Intn(256))
	switch r.Intn(10) {
	case 0:
		year = []int64{1900, 2155, 2011, 2021}[r.Intn(4)]
	case 1:
		year = []int64{1899, 2156, 0, -1, 4000}[r.Intn(5)]
		valid = false
	}
	return sb.String(), year, valid
}

func genOp(c *hx.Ctx) {
	r := c.Rand
	switch r.Intn(22) {
	case 0:
		x := word(r)
		c.Op("zz64 "+u(x), opZZ64(x))
		c.Note("op:zz64")
		if x >= 1<<62 && x < 3<<62 {
			c.Note("zz64:|x|>=2^62")
			c.NonTrivial()
		}
	case 1:
		v := word(r)
		c.Op("zd64 "+u(v), opZD64(v))
		c.Note("op:zd64")
	case 2:
		x := uint64(int64(int32(uint32(word(r) >> uint(r.Intn(33))))))
		if r.Chance(1, 3) {
			x = uint64(int64(int32(uint32(near(r, []uint64{1 << 30, 1<<30 - 1, 1 << 31, 3 << 30, 0}[r.Intn(5)])))))
		}
		c.Op("zz32 "+u(x), opZZ32(x))
		c.Note("op:zz32")
		if uint32(x) >= 1<<30 && uint32(x) < 3<<30 {
			c.Note("zz32:|x|>=2^30")
			c.NonTrivial()
		}
	case 3:
		v := uint32(word(r) >> uint(r.Intn(33)))
		c.Op("zd32 "+u(uint64(v)), opZD32(v))
		c.Note("op:zd32")
	case 4:
		t := uint64(r.Intn(8))
		if r.Chance(1, 10) {
			t = word(r)
		}
		ns := uint16(bits(r, 13))
		if r.Chance(1, 8) {
			ns = uint16(r.Uint64())
		}
		c.Op(fmt.Sprintf("tns %d %d", t, ns), opTNS(t, ns))
		c.Note("op:tns")
		if t < 8 && ns < 8192 && ns >= 4096 {
			c.NonTrivial()
		}
	case 5:
		v := uint16(r.Uint64())
		c.Op(fmt.Sprintf("tnsd %d", v), opTNSD(v))
		c.Note("op:tnsd")
	case 6, 7:
		t := uint64(r.Intn(4))
		v := bits(r, 62)
		if r.Chance(1, 6) {
			v = word(r)
		}
		ans := opVT(t, v)
		c.Op(fmt.Sprintf("vt %d %s", t, u(v)), ans)
		c.Note("op:vt")
		if ans == "panic" {
			c.Note("vt:panic")
		} else if v >= 1<<61 {
			c.NonTrivial()
		}
	case 8, 9:
		e := uint8(r.Intn(3))
		if r.Chance(1, 12) {
			e = uint8(3 + r.Intn(253))
		}
		l := bits(r, uint(1+r.Intn(62)))
		if r.Chance(1, 8) {
			l = word(r)
		}
		ans := opGeo(e, l)
		c.Op(fmt.Sprintf("geo %d %s", e, u(l)), ans)
		c.Note(fmt.Sprintf("op:geo e=%d", min(int(e), 3)))
		if ans != "panic" && l >= 1<<60 && l < 1<<62 {
			c.NonTrivial()
		}
	case 10:
		v := word(r)
		c.Op("geod "+u(v), opGeoD(v))
		c.Note("op:geod")
	case 11, 12, 13:
		b := r.Intn(64)
		t := 0
		switch r.Intn(4) {
		case 0:
			t = r.Intn(4)
		case 1:
			t = r.Intn(b + 1)
		case 2:
			t = r.Intn(64) // may exceed b: outside the domain, compared with the model only
		}
		if r.Chance(1, 3) {
			b = 1 + r.Intn(12)
		}
		id := word(r)
		tag := bits(r, uint(t))
		if r.Chance(1, 20) {
			tag = word(r) // may not fit: outside the domain
		}
		length := bits(r, uint(r.Intn(40)))
		c.Op(fmt.Sprintf("hdr %d %d %s %s %s", b, t, u(id), u(tag), u(length)), opHdr(b, t, id, tag, length))
		c.Note("op:hdr")
		if t <= b {
			c.Note("hdr:t<=b")
			if id >= 1<<63 && t > 0 {
				c.Note("hdr:t<=b,topbit,tagged")
				c.NonTrivial()
			}
		} else {
			c.Note("hdr:t>b")
		}
	case 14:
		b, t := r.Intn(15), r.Intn(8)
		ans := opLay(b, t)
		c.Op(fmt.Sprintf("lay %d %d", b, t), ans)
		c.Note("op:lay")
		if t > b {
			c.Note("lay:t>b")
			c.NonTrivial()
			// the layout the builder really uses, then a header through it with a top-bit id
			var b2, t2 int
			fmt.Sscanf(ans, "%d %d", &b2, &t2)
			id := word(r) | 1<<63
			tag := bits(r, uint(t2))
			c.Op(fmt.Sprintf("hdr %d %d %s %s 0", b2, t2, u(id), u(tag)), opHdr(b2, t2, id, tag, 0))
		}
	case 15:
		if r.Bool() {
			k := uint(r.Intn(64))
			n := uint64(1)<<k + uint64(r.Intn(7)) - 3
			if r.Chance(1, 3) {
				n = word(r)
			}
			c.Op("bbits "+u(n), opBBits(n))
			c.Note("op:bbits")
			return
		}
		count := uint64(r.Intn(1 << uint(r.Intn(17))))
		if r.Chance(1, 4) {
			count = uint64(r.Intn(5))
		}
		t := r.Intn(4)
		ans := opBLay(count, t)
		c.Op(fmt.Sprintf("blay %d %d", count, t), ans)
		c.Note("op:blay")
		if count <= 2 && t == 0 {
			c.Note("blay:point-block<=2")
			c.NonTrivial()
			var b2, t2 int
			fmt.Sscanf(ans, "%d %d", &b2, &t2)
			id := word(r) | 1<<63
			tag := bits(r, uint(t2))
			c.Op(fmt.Sprintf("hdr %d %d %s %s 0", b2, t2, u(id), u(tag)), opHdr(b2, t2, id, tag, 0))
		}
	case 16, 17:
		z := uint64(r.Intn(30))
		if r.Chance(1, 4) {
			z = uint64(26 + r.Intn(4))
		}
		x, y := bits(r, uint(z)), bits(r, uint(z))
		switch r.Intn(12) {
		case 0:
			z = uint64(30 + r.Intn(3)) // outside the domain
		case 1:
			x = word(r)
		case 2:
			y = word(r)
		}
		c.Op(fmt.Sprintf("tile %s %s %d", u(x), u(y), z), opTile(x, y, z))
		c.Note("op:tile")
		if z >= 20 && z <= 29 {
			c.Note("tile:z20..29")
			c.NonTrivial()
		}
	case 18:
		v := word(r)
		if r.Bool() {
			v = uint64(r.Intn(32))<<59 | bits(r, 59)
		}
		c.Op("tiled "+u(v), opTileD(v))
		c.Note("op:tiled")
	case 19:
		lat := int32(uint32(word(r) >> uint(r.Intn(33))))
		lng := int32(uint32(word(r) >> uint(r.Intn(33))))
		if r.Chance(1, 3) {
			lat = int32(r.Intn(1800000001) - 900000000)
			lng = int32(r.Intn(3600000001) - 1800000000)
		}
		ll := s2.LatLngFromDegrees(float64(lat)/1e7, float64(lng)/1e7)
		id := ingest.NewLatLngID(ll)
		// the integers the code packs are what E7() returns for this LatLng
		c.Op(fmt.Sprintf("ll %d %d", uint32(ll.Lat.E7()), uint32(ll.Lng.E7())), u(id.Value)+" "+opLLD(id.Value))
		c.Note("op:ll")
		if ll.Lat.E7() < 0 {
			c.Note("ll:lat<0")
			c.NonTrivial()
		}
	case 20:
		if r.Chance(1, 4) {
			v := word(r)
			if r.Bool() {
				v = bits(r, 44)
			}
			c.Op("pcd "+u(v), opPCD(v))
			c.Note("op:pcd")
			return
		}
		s, valid := postcode(r)
		c.Op("pc "+hexs(s), opPC(s))
		c.Note("op:pc")
		if valid {
			c.Note("pc:valid")
			c.NonTrivial()
		}
	case 21:
		if r.Chance(1, 4) {
			v := word(r)
			if r.Bool() {
				v = uint64(0x41+r.Intn(26))<<40 | uint64(r.Intn(256))<<32 | uint64(r.Intn(100000000))
			}
			c.Op("onsd "+u(v), opONSD(v))
			c.Note("op:onsd")
			return
		}
		code, year, valid := onsCode(r)
		c.Op(fmt.Sprintf("ons %s %d", hexs(code), year), opONS(code, year))
		c.Note("op:ons")
		if valid {
			c.Note("ons:valid")
			c.NonTrivial()
		}
	}
}

func main() {
	hx.Main(hx.Family{
		Name:     "c10",
		Rule:     "each case = 8 random packing ops (zigzag 64/32, type+namespace, value type, geometry, bucket header for random layouts, builder layouts, tile ids, lat/lng ids, postcodes, ONS codes; encode→decode and decode-only) on boundary-heavy 64-bit values; non-trivial = the case contains an in-domain round trip on a hard value (|x| ≥ 2^62, top-bit id with tag bits, zoom ≥ 20, negative latitude, len ≥ 2^60, tagBits > requested bucketBits, a valid postcode / ONS code); distinct = by hash of the op text",
		Quick:    3000,
		Thorough: 150000,
		Corpus: func(c *hx.Ctx) {
			// fixed (C10-zigzag-decode): |x| >= 2^62 lost by the arithmetic shift
			for _, x := range []uint64{1 << 62, 1 << 63, 1<<63 - 1, 3<<62 - 1, 1<<64 - 1} {
				c.Op("zz64 "+u(x), opZZ64(x))
			}
			c.Op("zd64 "+u(1<<64-1), opZD64(1<<64-1))
			for _, x := range []uint64{1 << 30, 18446744071562067968, 1<<31 - 1} {
				c.Op("zz32 "+u(x), opZZ32(x))
			}
			c.Op("zd32 4294967295", opZD32(4294967295))
			// fixed (C09-uint64map-bucket-bits): point block with <= 2 points, id with the top bit set (DESIGN §7)
			c.Op("lay 1 2", opLay(1, 2))
			c.Op("blay 2 0", opBLay(2, 0))
			c.Op("blay 1 0", opBLay(1, 0))
			c.Op("blay 0 0", opBLay(0, 0))
			var b2, t2 int
			fmt.Sscanf(opLay(1, 2), "%d %d", &b2, &t2)
			c.Op(fmt.Sprintf("hdr %d %d %s 1 3", b2, t2, u(1<<63+5)), opHdr(b2, t2, 1<<63+5, 1, 3))
			// bucketBitsForCount (float) against the integer model: every count below 2^24 (2^28 in the thorough tier)
			top := uint64(1) << 24
			if c.Thorough() {
				top = 1 << 28
			}
			for lo := uint64(0); lo < top; lo += 1 << 22 {
				c.Op(fmt.Sprintf("bbsweep %d %d", lo, lo+1<<22), opBBSweep(lo, lo+1<<22))
			}
			for k := uint(1); k < 64; k++ {
				for _, d := range []uint64{0, 1, 1<<64 - 1} {
					c.Op("bbits "+u(uint64(1)<<k+d), opBBits(uint64(1)<<k+d))
				}
			}
			// boundaries of the stated domains
			c.Op("tile 536870911 536870911 29", opTile(536870911, 536870911, 29))
			c.Op("tile 0 0 0", opTile(0, 0, 0))
			c.Op("vt 3 4611686018427387903", opVT(3, 1<<62-1))
			c.Op("vt 0 4611686018427387904", opVT(0, 1<<62))
			c.Op("geo 2 4611686018427387903", opGeo(2, 1<<62-1))
			c.Op("geo 0 4611686018427387903", opGeo(0, 1<<62-1))
			c.Op("geo 3 1", opGeo(3, 1))
			c.Op("tns 3 8191", opTNS(3, 8191))
			c.Op("pc "+hexs("sw1a 1aa"), opPC("sw1a 1aa"))
			c.Op("pc "+hexs("ZZ99 9ZZ"), opPC("ZZ99 9ZZ"))
			c.Op("pc "+hexs("M1 1A"), opPC("M1 1A"))
			c.Op("ons "+hexs("E09000033")+" 2011", opONS("E09000033", 2011))
			c.Op("ons "+hexs("W99999999")+" 2155", opONS("W99999999", 2155))
			c.Op("ons "+hexs("E-1234567")+" 2011", opONS("E-1234567", 2011))
			c.NonTrivial()
		},
		Case: func(c *hx.Ctx) {
			for i := 0; i < 8; i++ {
				genOp(c)
			}
		},
	})
}
