// C39 harness: operation sequences on a real b6.Tags value.
//
// Cases 0..nExhaustive-1 enumerate every key-distinct list of length <= 4 over a 5-key alphabet and apply,
// each on a fresh copy (with and without spare capacity holding stale tags), every single-key Get /
// ModifyOrAddTag / RemoveTag and RemoveTags with every subset of the alphabet in two orders.  The
// remaining cases are random operation sequences over an 8-key alphabet, including Clone/MergeFrom
// aliasing probes (a second list is held aside and re-read after the first one has been mutated, and
// the other way round).  One case in ten works on a list with repeated keys: outside the property's
// domain, there the driver only compares with the Go-slice model of RemoveTag (panic / surviving tag).
package main

import (
	"fmt"
	"sort"

	"diagonal.works/b6"
	"verifharness/hx"
)

var keys = []string{"a", "b", "c", "d", "e", "f", "g", "h"}
var smallKeys = []string{"a", "b", "c", "d", "e"}

func tag(k, v string) b6.Tag { return b6.Tag{Key: k, Value: b6.NewStringExpression(v)} }

func render(t b6.Tags) string {
	xs := make([]string, len(t))
	for i, tag := range t {
		xs[i] = tag.Key + "=" + tag.Value.String()
	}
	return hx.List(xs)
}

func val(r *hx.Rand) string { return fmt.Sprintf("v%d", r.Intn(50)) }

func has(t b6.Tags, k string) bool {
	for _, tag := range t {
		if tag.Key == k {
			return true
		}
	}
	return false
}

// pickKey prefers keys that are in the list (3 in 5), so present/absent are both well covered.
func pickKey(r *hx.Rand, t b6.Tags) string {
	if len(t) > 0 && r.Chance(3, 5) {
		return t[r.Intn(len(t))].Key
	}
	return r.Pick(keys)
}

func distinct(t b6.Tags) bool {
	seen := map[string]bool{}
	for _, tag := range t {
		if seen[tag.Key] {
			return false
		}
		seen[tag.Key] = true
	}
	return true
}

// withSpare returns a copy of t whose backing array has `spare` extra slots filled with stale tags
// (keys from the same alphabet, so a loop that reads past len would match them).
func withSpare(t b6.Tags, spare int, alphabet []string) b6.Tags {
	back := make(b6.Tags, len(t)+spare)
	copy(back, t)
	for i := len(t); i < len(back); i++ {
		back[i] = tag(alphabet[(i*3+1)%len(alphabet)], "stale")
	}
	return back[:len(t)]
}

func opGet(c *hx.Ctx, t b6.Tags, k string) {
	found := t.Get(k)
	if found.IsValid() {
		c.Op("get "+k, "some "+found.Value.String())
	} else {
		c.Op("get "+k, "none")
	}
}

func opSet(c *hx.Ctx, t *b6.Tags, k, v string) string {
	ans := hx.Recover(func() string {
		modified, old := t.ModifyOrAddTag(tag(k, v))
		o := "-"
		if modified {
			o = old.String()
		}
		return fmt.Sprintf("%v %s %s", modified, o, render(*t))
	})
	c.Op("set "+k+"="+v, ans)
	return ans
}

func opRm(c *hx.Ctx, t *b6.Tags, k string) string {
	ans := hx.Recover(func() string { t.RemoveTag(k); return render(*t) })
	c.Op("rm "+k, ans)
	return ans
}

func opRms(c *hx.Ctx, t *b6.Tags, ks []string) string {
	ans := hx.Recover(func() string { t.RemoveTags(ks); return render(*t) })
	c.Op("rms "+hx.List(ks), ans)
	return ans
}

func opInit(c *hx.Ctx, t b6.Tags) { c.Op("init "+render(t), render(t)) }

// ---- bounded-exhaustive part ----------------------------------------------------------------

// all key-distinct lists of length <= 4 over smallKeys, in a fixed order
func smallLists() [][]string {
	var out [][]string
	var rec func(cur []string)
	rec = func(cur []string) {
		out = append(out, append([]string(nil), cur...))
		if len(cur) == 4 {
			return
		}
		for _, k := range smallKeys {
			used := false
			for _, x := range cur {
				if x == k {
					used = true
				}
			}
			if !used {
				rec(append(cur, k))
			}
		}
	}
	rec(nil)
	return out
}

var lists = smallLists()
var nExhaustive = len(lists)

func exhaustive(c *hx.Ctx, ks []string) {
	base := make(b6.Tags, len(ks))
	for i, k := range ks {
		base[i] = tag(k, fmt.Sprintf("%d", i+1))
	}
	fresh := func(spare int) b6.Tags {
		t := withSpare(base, spare, smallKeys)
		opInit(c, t)
		return t
	}
	for _, spare := range []int{0, 2} {
		for _, k := range smallKeys {
			t := fresh(spare)
			opGet(c, t, k)
			opRm(c, &t, k)
			opGet(c, t, k)
			t = fresh(spare)
			opSet(c, &t, k, "new")
			opGet(c, t, k)
		}
		for mask := 0; mask < 1<<len(smallKeys); mask++ {
			var sub []string
			for i, k := range smallKeys {
				if mask&(1<<i) != 0 {
					sub = append(sub, k)
				}
			}
			t := fresh(spare)
			opRms(c, &t, sub)
			rev := make([]string, 0, len(sub)+1)
			for i := len(sub) - 1; i >= 0; i-- {
				rev = append(rev, sub[i])
			}
			if len(sub) > 0 {
				rev = append(rev, sub[len(sub)-1]) // a repeated key in the key list
			}
			t = fresh(spare)
			opRms(c, &t, rev)
		}
	}
	c.Note(fmt.Sprintf("exhaustive:len=%d", len(ks)))
	if len(ks) >= 2 {
		c.NonTrivial()
	}
}

// ---- random part ----------------------------------------------------------------------------

func runOps(c *hx.Ctx, init []string, nops int, dups bool) {
	r := c.Rand
	var t b6.Tags
	for _, k := range init {
		t = append(t, tag(k, val(r)))
	}
	if r.Bool() { // a slice with spare capacity holding stale tags, as after earlier removals
		t = withSpare(t, r.Intn(4), keys)
	}
	opInit(c, t)
	var other b6.Tags
	hasOther := false
	removedMany, probed := false, false
	reinit := func() { // after a panic the list is whatever the interrupted call left
		t = t.Clone()
		opInit(c, t)
		hasOther = false
	}
	for i := 0; i < nops; i++ {
		switch r.Intn(12) {
		case 0:
			opGet(c, t, pickKey(r, t))
			c.Note("op:get")
		case 1, 2:
			k := pickKey(r, t)
			if has(t, k) {
				c.Note("set:present")
			} else {
				c.Note("set:absent")
			}
			if opSet(c, &t, k, val(r)) == "panic" {
				reinit()
			}
			c.Note("op:set")
		case 3:
			k := r.Pick(keys)
			if has(t, k) && !dups {
				continue
			}
			v := val(r)
			t.AddTag(tag(k, v))
			c.Op("add "+k+"="+v, render(t))
			c.Note("op:add")
		case 4, 5:
			k := pickKey(r, t)
			if has(t, k) {
				c.Note("rm:present")
			} else {
				c.Note("rm:absent")
			}
			if opRm(c, &t, k) == "panic" {
				c.Note("rm:panic")
				reinit()
			}
			c.Note("op:rm")
		case 6, 7:
			n := r.Intn(5)
			p := r.Perm(len(keys))
			var ks []string
			present := 0
			for j := 0; j < n; j++ {
				ks = append(ks, keys[p[j]])
				if has(t, keys[p[j]]) {
					present++
				}
			}
			if n > 0 && r.Chance(1, 5) { // repeated key in the key list
				ks = append(ks, ks[r.Intn(len(ks))])
				c.Note("rms:repeated-key")
			}
			if r.Chance(1, 4) { // the key set's own size dimension (0 .. 70 keys, repeats, orders)
				ks = keySet(c, r, t, func() string { return pickKey(r, t) })
				present = 0
				for _, k := range ks {
					if has(t, k) {
						present++
					}
				}
			}
			if present >= 2 {
				removedMany = true
				c.Note("rms:>=2-present")
			}
			if len(t) > 0 && contains(ks, t[len(t)-1].Key) && present >= 2 {
				c.Note("rms:last+earlier")
			}
			if opRms(c, &t, ks) == "panic" {
				c.Note("rms:panic")
				reinit()
			}
			c.Note("op:rms")
		case 8:
			n := r.Intn(6)
			p := r.Perm(len(keys))
			var o b6.Tags
			for j := 0; j < n; j++ {
				o = append(o, tag(keys[p[j]], val(r)))
			}
			if dups && n > 0 && r.Bool() {
				o = append(o, tag(o[0].Key, val(r)))
			}
			switch {
			case len(o) < len(t):
				c.Note("merge:shorter")
			case len(o) == len(t):
				c.Note("merge:same-len")
			case len(o) <= cap(t):
				c.Note("merge:longer-within-cap")
			default:
				c.Note("merge:longer-realloc")
			}
			arg := render(o)
			t.MergeFrom(o)
			c.Op("merge "+arg, render(t))
			// the argument is now the list held aside: later `chk`s see whether it is still what was passed
			other, hasOther = o, true
			c.Note("op:merge")
		case 9:
			if r.Bool() {
				t = t.Clone()
				c.Op("clone", render(t))
				c.Note("op:clone")
			} else {
				other = t.Clone()
				hasOther = true
				c.Op("snap", render(other))
				c.Note("op:snap")
			}
		case 10:
			if !hasOther {
				continue
			}
			if r.Bool() {
				t, other = other, t
				c.Op("swap", render(t))
				c.Note("op:swap")
			} else {
				t.MergeFrom(other)
				c.Op("mergeo", render(t))
				c.Note("op:mergeo")
			}
		case 11:
			if !hasOther {
				continue
			}
			c.Op("chk", render(other))
			probed = true
			c.Note("op:chk")
		}
	}
	if hasOther {
		c.Op("chk", render(other))
		probed = true
	}
	c.Note(fmt.Sprintf("init-len:%d", len(init)))
	if dups {
		c.Note("case:repeated-keys(out-of-domain)")
	} else if !distinct(t) {
		c.Note("case:BUG-generator-lost-distinctness")
	}
	if removedMany || probed {
		c.NonTrivial()
	}
}

// ---- the size dimension ---------------------------------------------------------------------
//
// Key-distinct lists of 60–260 tags over an alphabet of 70–300 generated keys.  Keys are aimed at the
// positions where a word-sized or block-sized shortcut would break: 0, 1, 62–66, 127–130, last-1, last
// (and absent keys), for Get / ModifyOrAddTag / RemoveTag and for RemoveTags with 2–10 keys.

func edgePosition(r *hx.Rand, n int) int {
	edges := []int{0, 1, 62, 63, 64, 65, 66, 127, 128, 129, 130, n - 2, n - 1}
	for try := 0; try < 4; try++ {
		if p := edges[r.Intn(len(edges))]; p >= 0 && p < n {
			return p
		}
	}
	return r.Intn(n)
}

func bigKey(r *hx.Rand, t b6.Tags, alphabet int) string {
	switch {
	case len(t) > 0 && r.Chance(3, 5):
		return t[edgePosition(r, len(t))].Key
	case len(t) > 0 && r.Chance(1, 2):
		return t[r.Intn(len(t))].Key
	}
	return fmt.Sprintf("k%d", r.Intn(alphabet)) // possibly absent
}

// keySet draws the argument of RemoveTags along its own size dimension: 0, 1, 2–10, 15–17 or 30–70 keys
// (by `pick`), then possibly repeats (a present key 2–3 times, an absent key twice), and orders the keys
// as drawn, in list order, in reverse list order or shuffled.
func keySet(c *hx.Ctx, r *hx.Rand, t b6.Tags, pick func() string) []string {
	var m int
	switch r.Intn(10) {
	case 0:
		m = r.Intn(2) // 0 or 1
	case 1, 2, 3, 4:
		m = 2 + r.Intn(9)
	case 5, 6:
		m = 15 + r.Intn(3)
	default:
		m = 30 + r.Intn(41)
	}
	switch {
	case m <= 1:
		c.Note("keyset:0-1")
	case m <= 10:
		c.Note("keyset:2-10")
	case m <= 17:
		c.Note("keyset:15-17")
	default:
		c.Note("keyset:30-70")
	}
	seen := map[string]bool{}
	var ks []string
	for j := 0; j < m; j++ {
		k := pick()
		if seen[k] && r.Chance(2, 3) { // mostly distinct keys; deliberate repeats are added below
			continue
		}
		seen[k] = true
		ks = append(ks, k)
	}
	pos := map[string]int{}
	for i, tg := range t {
		pos[tg.Key] = i
	}
	if len(ks) > 0 && r.Chance(1, 2) {
		var present []string
		for _, k := range ks {
			if _, ok := pos[k]; ok {
				present = append(present, k)
			}
		}
		if len(present) > 0 {
			k := present[r.Intn(len(present))]
			for j := 1 + r.Intn(2); j > 0; j-- {
				at := r.Intn(len(ks) + 1)
				ks = append(ks[:at], append([]string{k}, ks[at:]...)...)
			}
			c.Note("keyset:present-key-repeated")
		}
	}
	if r.Chance(1, 4) {
		ks = append(ks, "absent", "absent")
		c.Note("keyset:absent-key-repeated")
	}
	inList := func(a, b string) bool {
		pa, oka := pos[a]
		pb, okb := pos[b]
		if oka != okb {
			return oka
		}
		return pa < pb
	}
	switch r.Intn(4) {
	case 0:
		sort.SliceStable(ks, func(i, j int) bool { return inList(ks[i], ks[j]) })
		c.Note("keyset:list-order")
	case 1:
		sort.SliceStable(ks, func(i, j int) bool { return inList(ks[j], ks[i]) })
		c.Note("keyset:reverse-list-order")
	case 2:
		p := r.Perm(len(ks))
		sh := make([]string, len(ks))
		for i, j := range p {
			sh[i] = ks[j]
		}
		ks = sh
		c.Note("keyset:shuffled")
	default:
		c.Note("keyset:as-drawn")
	}
	return ks
}

func bigCase(c *hx.Ctx) {
	r := c.Rand
	alphabet := 70 + r.Intn(231)
	n := 60 + r.Intn(201)
	if n > alphabet {
		n = alphabet
	}
	p := r.Perm(alphabet)
	t := make(b6.Tags, 0, n+r.Intn(4))
	for i := 0; i < n; i++ {
		t = append(t, tag(fmt.Sprintf("k%d", p[i]), val(r)))
	}
	opInit(c, t)
	c.Note(fmt.Sprintf("big:len>=%d", n/64*64))
	beyond := false
	for i, nops := 0, 5+r.Intn(8); i < nops && len(t) > 0; i++ {
		switch r.Intn(6) {
		case 0:
			opGet(c, t, bigKey(r, t, alphabet))
			c.Note("big:get")
		case 1:
			opSet(c, &t, bigKey(r, t, alphabet), val(r))
			c.Note("big:set")
		case 2:
			opRm(c, &t, bigKey(r, t, alphabet))
			c.Note("big:rm")
		default:
			ks := keySet(c, r, t, func() string { return bigKey(r, t, alphabet) })
			for _, k := range ks {
				for pos, tg := range t {
					if tg.Key == k && pos >= 64 {
						beyond = true
						c.Note("big:rms-target-at-position>=64")
					}
				}
			}
			opRms(c, &t, ks)
			c.Note("big:rms")
		}
	}
	if !distinct(t) {
		c.Note("case:BUG-generator-lost-distinctness")
	}
	if beyond {
		c.NonTrivial()
	}
}

func contains(xs []string, k string) bool {
	for _, x := range xs {
		if x == k {
			return true
		}
	}
	return false
}

func main() {
	hx.Main(hx.Family{
		Name: "c39",
		Rule: fmt.Sprintf("cases 0..%d: bounded-exhaustive (every key-distinct list of length <=4 over 5 keys x every single-key get/set/rm and RemoveTags of every key subset in two orders, with and without spare capacity); 1 in 25 of the other cases: key-distinct lists of 60-260 tags over 70-300 generated keys with get/set/rm/RemoveTags aimed at positions 0,1,62-66,127-130,last-1,last (buckets big:*); RemoveTags key sets have their own size dimension: 0, 1, 2-10, 15-17 or 30-70 keys, a present key repeated 2-3 times, an absent key twice, in list / reverse / shuffled order (buckets keyset:*, also used in 1 of 4 RemoveTags calls of the small cases); the rest: random op sequences (get/set/add/rm/rms/merge/clone + snap/swap/mergeo/chk aliasing probes) over an 8-key alphabet, 1 in 10 on a list with repeated keys (outside the property's domain, model comparison only); non-trivial = exhaustive list of length >=2, or a RemoveTags call removing >=2 present keys, or an aliasing probe re-read, or a big list with a RemoveTags target at position >= 64; distinct = by hash of the op text", nExhaustive-1),
		Quick:    nExhaustive + 3000,
		Thorough: nExhaustive + 200000,
		Corpus: func(c *hx.Ctx) {
			// fixed: RemoveTags adjacent removal and tail removal (DESIGN §7)
			t := b6.Tags{tag("a", "1"), tag("b", "2"), tag("c", "3")}
			opInit(c, t)
			opRms(c, &t, []string{"a", "b"})
			t = b6.Tags{tag("a", "1"), tag("b", "2"), tag("c", "3")}
			opInit(c, t)
			opRms(c, &t, []string{"a", "c"})
			// outside the domain (repeated keys): remove_tag_duplicate_panics_counterexample,
			// remove_tag_duplicate_survives_counterexample — replayed so the model's reading of the loop is tied
			t = b6.Tags{tag("a", "1"), tag("a", "2")}
			opInit(c, t)
			opRm(c, &t, "a")
			t = b6.Tags{tag("a", "1"), tag("a", "2"), tag("b", "3")}
			opInit(c, t)
			opRm(c, &t, "a")
			// spare capacity whose hidden part repeats a visible key (example in Props/C39.lean)
			back := b6.Tags{tag("a", "1"), tag("b", "2"), tag("a", "7"), tag("b", "8")}
			t = back[:2]
			opInit(c, t)
			opRm(c, &t, "a")
			t.AddTag(tag("c", "3"))
			c.Op("add c=3", render(t))
			// aliasing: clone, mutate the original, re-read the clone; and the other way round
			t = withSpare(b6.Tags{tag("a", "1"), tag("b", "2"), tag("c", "3")}, 2, smallKeys)
			opInit(c, t)
			other := t.Clone()
			c.Op("snap", render(other))
			opSet(c, &t, "a", "x")
			opRm(c, &t, "b")
			c.Op("chk", render(other))
			t, other = other, t
			c.Op("swap", render(t))
			opSet(c, &t, "c", "y")
			opRm(c, &t, "a")
			c.Op("chk", render(other))
			t.MergeFrom(other)
			c.Op("mergeo", render(t))
			opSet(c, &t, "a", "z")
			c.Op("chk", render(other))
			c.NonTrivial()
		},
		Case: func(c *hx.Ctx) {
			if c.CaseNo < nExhaustive {
				exhaustive(c, lists[c.CaseNo])
				return
			}
			if (c.CaseNo-nExhaustive)%25 == 7 { // 4 %: the size dimension
				bigCase(c)
				return
			}
			r := c.Rand
			dups := r.Chance(1, 10)
			n := r.Intn(7)
			p := r.Perm(len(keys))
			var init []string
			for i := 0; i < n; i++ {
				init = append(init, keys[p[i]])
			}
			if dups && n > 0 { // repeat some keys
				for j := 0; j < 1+r.Intn(2); j++ {
					at := r.Intn(len(init) + 1)
					k := init[r.Intn(len(init))]
					init = append(init[:at], append([]string{k}, init[at:]...)...)
				}
			}
			runOps(c, init, 4+r.Intn(14), dups)
		},
	})
}
