// C39 harness: operation sequences on a real b6.Tags value.
package main

import (
	"fmt"
	"strings"

	"diagonal.works/b6"
	"verifharness/hx"
)

var keys = []string{"a", "b", "c", "d", "e", "f", "g", "h"}

func render(t b6.Tags) string {
	xs := make([]string, len(t))
	for i, tag := range t {
		xs[i] = tag.Key + "=" + tag.Value.String()
	}
	return hx.List(xs)
}

func val(r *hx.Rand) string { return fmt.Sprintf("v%d", r.Intn(50)) }

func has(t b6.Tags, k string) bool {
	for _, tag := range t {
		if tag.Key == k {
			return true
		}
	}
	return false
}

func runOps(c *hx.Ctx, init []string, nops int) {
	r := c.Rand
	var t b6.Tags
	for _, k := range init {
		t = append(t, b6.Tag{Key: k, Value: b6.NewStringExpression(val(r))})
	}
	if r.Bool() { // a slice with spare capacity, as after earlier appends
		t2 := make(b6.Tags, len(t), len(t)+r.Intn(4))
		copy(t2, t)
		t = t2
	}
	c.Op("init "+render(t), render(t))
	removedMany := false
	for i := 0; i < nops; i++ {
		switch r.Intn(7) {
		case 0:
			k := r.Pick(keys)
			tag := t.Get(k)
			if tag.IsValid() {
				c.Op("get "+k, "some "+tag.Value.String())
			} else {
				c.Op("get "+k, "none")
			}
			c.Note("op:get")
		case 1, 2:
			k, v := r.Pick(keys), val(r)
			ans := hx.Recover(func() string {
				modified, old := t.ModifyOrAddTag(b6.Tag{Key: k, Value: b6.NewStringExpression(v)})
				o := "-"
				if modified {
					o = old.String()
				}
				return fmt.Sprintf("%v %s %s", modified, o, render(t))
			})
			c.Op("set "+k+"="+v, ans)
			c.Note("op:set")
		case 3:
			k := r.Pick(keys)
			if has(t, k) {
				continue
			}
			v := val(r)
			t.AddTag(b6.Tag{Key: k, Value: b6.NewStringExpression(v)})
			c.Op("add "+k+"="+v, render(t))
			c.Note("op:add")
		case 4:
			k := r.Pick(keys)
			ans := hx.Recover(func() string { t.RemoveTag(k); return render(t) })
			c.Op("rm "+k, ans)
			c.Note("op:rm")
		case 5:
			n := r.Intn(4)
			p := r.Perm(len(keys))
			var ks []string
			present := 0
			for j := 0; j < n; j++ {
				ks = append(ks, keys[p[j]])
				if has(t, keys[p[j]]) {
					present++
				}
			}
			if present >= 2 {
				removedMany = true
				c.Note("rms:>=2-present")
			}
			ans := hx.Recover(func() string { t.RemoveTags(ks); return render(t) })
			if ans == "panic" {
				c.Note("rms:panic")
				t = t.Clone()
			}
			c.Op("rms "+hx.List(ks), ans)
			c.Note("op:rms")
		case 6:
			n := r.Intn(6)
			p := r.Perm(len(keys))
			var o b6.Tags
			for j := 0; j < n; j++ {
				o = append(o, b6.Tag{Key: keys[p[j]], Value: b6.NewStringExpression(val(r))})
			}
			t.MergeFrom(o)
			c.Op("merge "+render(o), render(t))
			c.Note("op:merge")
		}
	}
	c.Note(fmt.Sprintf("init-len:%d", len(init)))
	if removedMany {
		c.NonTrivial()
	}
}

func main() {
	hx.Main(hx.Family{
		Name: "c39",
		Rule: "random op sequences (get/set/add/rm/rms/merge) on a b6.Tags with distinct keys from an 8-key alphabet; non-trivial = the sequence contains a RemoveTags call that removes at least two present keys; distinct = by hash of the op text",
		Quick:    3000,
		Thorough: 200000,
		Corpus: func(c *hx.Ctx) {
			// fixed: RemoveTags adjacent removal and tail removal (DESIGN §7)
			t := b6.Tags{{Key: "a", Value: b6.NewStringExpression("1")}, {Key: "b", Value: b6.NewStringExpression("2")}, {Key: "c", Value: b6.NewStringExpression("3")}}
			c.Op("init "+render(t), render(t))
			c.Op("rms [a b]", hx.Recover(func() string { t.RemoveTags([]string{"a", "b"}); return render(t) }))
			t = b6.Tags{{Key: "a", Value: b6.NewStringExpression("1")}, {Key: "b", Value: b6.NewStringExpression("2")}, {Key: "c", Value: b6.NewStringExpression("3")}}
			c.Op("init "+render(t), render(t))
			c.Op("rms [a c]", hx.Recover(func() string { t.RemoveTags([]string{"a", "c"}); return render(t) }))
			c.NonTrivial()
		},
		Case: func(c *hx.Ctx) {
			r := c.Rand
			n := r.Intn(7)
			p := r.Perm(len(keys))
			var init []string
			for i := 0; i < n; i++ {
				init = append(init, keys[p[i]])
			}
			runOps(c, init, 4+r.Intn(12))
		},
	})
	_ = strings.TrimSpace
}
