// C24 harness: library calls on collections evaluated with api.Evaluate on constructed b6 expressions, and
// ingest.CollectionFeature.FindValue/FindValues called directly. See lean/B6/Driver/C24.lean for the line
// protocol (values i<int> f<code> s<word> p<type>/<ns>/<value> b0|b1; items key:value).
package main

import (
	"fmt"
	"math"
	"sort"
	"strings"

	"diagonal.works/b6"
	"diagonal.works/b6/api"
	"diagonal.works/b6/api/functions"
	"diagonal.works/b6/ingest"
	"verifharness/hx"
)

// ---- values ----------------------------------------------------------------------------------------

// floatCode: order-preserving integer code of a non-NaN float64 (+0, -0 -> 0).
func floatCode(x float64) int64 {
	b := math.Float64bits(x)
	if b>>63 == 1 {
		return -int64(b & (1<<63 - 1))
	}
	return int64(b)
}

func floatOfCode(c int64) float64 {
	if c < 0 {
		return math.Float64frombits(uint64(-c) | 1<<63)
	}
	return math.Float64frombits(uint64(c))
}

func tok(v any) string {
	switch v := v.(type) {
	case int:
		return fmt.Sprintf("i%d", v)
	case float64:
		return fmt.Sprintf("f%d", floatCode(v))
	case string:
		return "s" + v
	case bool:
		if v {
			return "b1"
		}
		return "b0"
	case b6.FeatureID:
		return fmt.Sprintf("p%d/%s/%d", int(v.Type), string(v.Namespace), v.Value)
	}
	return fmt.Sprintf("?%T", v)
}

func lit(v any) b6.Expression {
	switch v := v.(type) {
	case int:
		return b6.NewIntExpression(v)
	case float64:
		return b6.NewFloatExpression(v)
	case string:
		return b6.NewStringExpression(v)
	case b6.FeatureID:
		return b6.NewFeatureIDExpression(v)
	}
	panic("lit")
}

func call(f string, args ...b6.Expression) b6.Expression {
	return b6.NewCallExpression(b6.NewSymbolExpression(f), args)
}

func sym(s string) b6.Expression { return b6.NewSymbolExpression(s) }

func lambda(arg string, e b6.Expression) b6.Expression {
	return b6.NewLambdaExpression([]string{arg}, e)
}

// ---- expression trees ------------------------------------------------------------------------------

type node struct {
	kind     string // arr take filter map mapitems flatten join
	keys     []any
	vals     []any
	pairs    bool // arr built with `collection (pair k v) …` instead of a literal
	kids     []*node
	n        int
	nf       *float64 // take: the count given as a float literal (converted to int by api.Convert)
	fn       string   // token of the lambda
	fnExpr   b6.Expression
	literalO bool // flatten: outer collection is a literal ArrayCollection of collections
}

func (n *node) text() string {
	switch n.kind {
	case "arr":
		xs := make([]string, len(n.keys))
		for i := range n.keys {
			xs[i] = tok(n.keys[i]) + ":" + tok(n.vals[i])
		}
		if len(xs) == 0 {
			return "(arr )"
		}
		return "(arr " + strings.Join(xs, " ") + " )"
	case "take":
		if n.nf != nil {
			return fmt.Sprintf("(take %s %s )", n.kids[0].text(), tok(*n.nf))
		}
		return fmt.Sprintf("(take %s %d )", n.kids[0].text(), n.n)
	case "filter", "map", "mapitems":
		return fmt.Sprintf("(%s %s %s )", n.kind, n.kids[0].text(), n.fn)
	case "flatten":
		xs := make([]string, len(n.kids))
		for i, k := range n.kids {
			xs[i] = k.text()
		}
		if len(xs) == 0 {
			return "(flatten )"
		}
		return "(flatten " + strings.Join(xs, " ") + " )"
	case "join":
		return fmt.Sprintf("(join %s %s )", n.kids[0].text(), n.kids[1].text())
	}
	panic("text")
}

func (n *node) expr() b6.Expression {
	switch n.kind {
	case "arr":
		if n.pairs {
			args := make([]b6.Expression, len(n.keys))
			for i := range n.keys {
				args[i] = call("pair", lit(n.keys[i]), lit(n.vals[i]))
			}
			return call("collection", args...)
		}
		return b6.NewCollectionExpression(b6.ArrayCollection[any, any]{Keys: n.keys, Values: n.vals}.Collection())
	case "take":
		if n.nf != nil {
			return call("take", n.kids[0].expr(), b6.NewFloatExpression(*n.nf))
		}
		return call("take", n.kids[0].expr(), b6.NewIntExpression(n.n))
	case "filter":
		return call("filter", n.kids[0].expr(), n.fnExpr)
	case "map":
		return call("map", n.kids[0].expr(), n.fnExpr)
	case "mapitems":
		return call("map-items", n.kids[0].expr(), n.fnExpr)
	case "flatten":
		args := make([]b6.Expression, len(n.kids))
		for i, k := range n.kids {
			args[i] = call("pair", b6.NewIntExpression(i), k.expr())
		}
		return call("flatten", call("collection", args...))
	case "join":
		return call("join-missing", n.kids[0].expr(), n.kids[1].expr())
	}
	panic("expr")
}

func (n *node) depth() int {
	d := 0
	for _, k := range n.kids {
		if kd := k.depth(); kd > d {
			d = kd
		}
	}
	if n.kind == "arr" {
		return 0
	}
	return d + 1
}

// mayHoldFloat: some value (or, because of `swap`, key) flowing through this subtree may be a float64, so
// add-ints / to-str applied to it go through api.Convert's float64->int conversion (modelled: floatToInt).
func (n *node) mayHoldFloat() bool {
	found := false
	n.walk(func(m *node) {
		for i := range m.keys {
			if _, ok := m.keys[i].(float64); ok {
				found = true
			}
			if _, ok := m.vals[i].(float64); ok {
				found = true
			}
		}
		if strings.HasPrefix(m.fn, "konst=f") {
			found = true
		}
	})
	return found
}

func (n *node) walk(f func(*node)) {
	f(n)
	for _, k := range n.kids {
		k.walk(f)
	}
}

// ---- evaluation ------------------------------------------------------------------------------------

func drainTo(c b6.UntypedCollection, sorted bool) string {
	n, ok := c.Count()
	cnt := "-"
	if ok {
		cnt = fmt.Sprintf("%d", n)
	}
	var items []string
	end := "done"
	i := c.BeginUntyped()
	for steps := 0; ; steps++ {
		if steps > 100000 {
			end = "hang"
			break
		}
		ok, err := i.Next()
		if err != nil {
			end = "err"
			break
		}
		if !ok {
			break
		}
		items = append(items, tok(i.Key())+":"+tok(i.Value()))
	}
	if sorted {
		sort.Slice(items, func(a, b int) bool {
			return strings.SplitN(items[a], ":", 2)[0] < strings.SplitN(items[b], ":", 2)[0]
		})
	}
	return fmt.Sprintf("count=%s items=%s end=%s", cnt, hx.List(items), end)
}

func evaluate(e b6.Expression, root string) string {
	return hx.Recover(func() string {
		ctx := functions.NewContext(ingest.NewBasicMutableWorld())
		v, err := api.Evaluate(e, ctx)
		if err != nil {
			return "error"
		}
		switch v := v.(type) {
		case int:
			return fmt.Sprintf("%d", v)
		case b6.UntypedCollection:
			return drainTo(v, strings.HasPrefix(root, "sum") || strings.HasPrefix(root, "count"))
		}
		return fmt.Sprintf("?%T", v)
	})
}

var rootFns = map[string]string{"sumbykey": "sum-by-key", "countvalues": "count-values", "countkeys": "count-keys", "countvalidkeys": "count-valid-keys"}

func runEv(c *hx.Ctx, root string, n *node) string {
	e := n.expr()
	switch {
	case root == "id":
	case root == "count":
		e = call("count", e)
	case strings.HasPrefix(root, "top=f"):
		var code int64
		fmt.Sscanf(root, "top=f%d", &code)
		e = call("top", e, b6.NewFloatExpression(floatOfCode(code)))
	case strings.HasPrefix(root, "top="):
		var k int
		fmt.Sscanf(root, "top=%d", &k)
		e = call("top", e, b6.NewIntExpression(k))
	default:
		e = call(rootFns[root], e)
	}
	ans := evaluate(e, root)
	c.Op("ev "+root+" "+n.text(), ans)
	return ans
}

// ---- generators ------------------------------------------------------------------------------------

var strPool = []string{"", "a", "b", "ab", "abc", "b1", "z", "population", "k9"}
var floatPool = []float64{0, 0.5, 1, 1.5, 2, 2.5, -1.5, -0.25, 3, 1e10, -1e-5, 7.75, math.MaxFloat64, math.SmallestNonzeroFloat64, math.Inf(1), math.Inf(-1)}
var nsPool = []string{"ns", "a", "b", ""}

func genVal(r *hx.Rand, kind int) any {
	switch kind {
	case 0: // small ints: duplicates and ties
		return r.Intn(10) - 3
	case 1:
		if r.Chance(1, 4) {
			return float64(r.Intn(2000)-1000) / 8
		}
		return floatPool[r.Intn(len(floatPool))] + 0
	case 2:
		return strPool[r.Intn(len(strPool))]
	case 3:
		return b6.FeatureID{Type: b6.FeatureType(r.Intn(6)), Namespace: b6.Namespace(nsPool[r.Intn(len(nsPool))]), Value: uint64(r.Intn(4))}
	default: // edge ints over the whole int64 range (float64(int) rounding is modelled)
		return int(int64(r.Uint64Edge()))
	}
}

func kindName(k int) string { return []string{"int", "float", "string", "fid", "bigint"}[k] }

func goLess(a, b any) bool { l, _ := b6.Less(a, b); return l }

func genArr(c *hx.Ctx, keyKind, valKind int, sortKeys bool) *node {
	r := c.Rand
	var n int
	switch k := r.Intn(10); {
	case k < 1:
		n = 0
	case k < 3:
		n = 1
	case k < 8:
		n = 2 + r.Intn(5)
	default:
		n = 7 + r.Intn(12)
	}
	nd := &node{kind: "arr", pairs: r.Chance(1, 3), keys: make([]any, n), vals: make([]any, n)}
	mixed := r.Chance(1, 12)
	for i := 0; i < n; i++ {
		kk, vk := keyKind, valKind
		if mixed && r.Chance(1, 3) {
			kk = r.Intn(4)
		}
		if mixed && r.Chance(1, 3) {
			vk = r.Intn(4)
		}
		nd.keys[i] = genVal(r, kk)
		nd.vals[i] = genVal(r, vk)
	}
	if mixed {
		c.Note("arr:mixed-types")
	}
	if sortKeys && !mixed {
		idx := r.Perm(n)
		sort.SliceStable(idx, func(a, b int) bool { return goLess(nd.keys[idx[a]], nd.keys[idx[b]]) })
		ks, vs := make([]any, n), make([]any, n)
		for i, j := range idx {
			ks[i], vs[i] = nd.keys[j], nd.vals[j]
		}
		nd.keys, nd.vals = ks, vs
	}
	if n == 0 {
		c.Note("arr:empty")
	}
	return nd
}

func genN(r *hx.Rand) int {
	switch k := r.Intn(20); {
	case k < 12:
		return r.Intn(9)
	case k < 15:
		return -1 - r.Intn(3)
	case k < 17:
		return 9 + r.Intn(30)
	case k < 18:
		return math.MinInt64
	case k < 19:
		return math.MaxInt64
	default:
		return int(int64(r.Uint64Edge()))
	}
}

// genCountFloat: a float literal used where an int count is expected
func genCountFloat(r *hx.Rand) float64 {
	switch r.Intn(6) {
	case 0:
		return float64(r.Intn(8)) + 0.5
	case 1:
		return -float64(r.Intn(4)) - 0.25
	case 2:
		return float64(r.Intn(6))
	case 3:
		return floatPool[r.Intn(len(floatPool))] + 0
	case 4:
		return float64(r.Intn(2000)-300) / 8
	default:
		return 0.999
	}
}

func genFn1(r *hx.Rand, valKind int, wantBool bool, floats bool) (string, b6.Expression) {
	v := sym("v")
	k := r.Intn(10)
	if wantBool && k >= 8 && !r.Chance(1, 4) {
		k = r.Intn(8)
	}
	if !wantBool && k < 4 && r.Bool() {
		k = 4 + r.Intn(6)
	}
	_ = floats
	switch {
	case k < 2:
		cst := genVal(r, valKind)
		return "gtc=" + tok(cst), lambda("v", call("gt", v, lit(cst)))
	case k < 4:
		cst := genVal(r, valKind)
		return "cgt=" + tok(cst), lambda("v", call("gt", lit(cst), v))
	case k < 6:
		d := r.Intn(7) - 2
		if r.Chance(1, 6) {
			d = int(int64(r.Uint64Edge()))
		}
		return fmt.Sprintf("addc=%d", d), lambda("v", call("add-ints", v, b6.NewIntExpression(d)))
	case k < 7:
		return "tostr", lambda("v", call("to-str", v))
	case k < 8:
		cst := genVal(r, r.Intn(4))
		return "konst=" + tok(cst), lambda("v", lit(cst))
	default:
		return "id", lambda("v", v)
	}
}

func genFn2(r *hx.Rand, floats bool) (string, b6.Expression) {
	p := sym("p")
	k := r.Intn(8)
	_ = floats
	switch {
	case k < 4:
		return "swap", lambda("p", call("pair", call("second", p), call("first", p)))
	case k < 7:
		d := r.Intn(7) - 2
		return fmt.Sprintf("incv=%d", d), lambda("p", call("pair", call("first", p), call("add-ints", call("second", p), b6.NewIntExpression(d))))
	default:
		return "first", lambda("p", call("first", p))
	}
}

func gen(c *hx.Ctx, depth int, keyKind, valKind int) *node {
	r := c.Rand
	if depth == 0 || r.Chance(1, 4) {
		return genArr(c, keyKind, valKind, r.Chance(1, 3))
	}
	switch k := r.Intn(20); {
	case k < 4:
		nd := &node{kind: "take", kids: []*node{gen(c, depth-1, keyKind, valKind)}, n: genN(r)}
		if r.Chance(1, 6) {
			f := genCountFloat(r)
			nd.nf = &f
			c.Note("take:float-n")
		}
		return nd
	case k < 7:
		nd := &node{kind: "filter", kids: []*node{gen(c, depth-1, keyKind, valKind)}}
		nd.fn, nd.fnExpr = genFn1(r, valKind, true, nd.kids[0].mayHoldFloat())
		return nd
	case k < 10:
		nd := &node{kind: "map", kids: []*node{gen(c, depth-1, keyKind, valKind)}}
		nd.fn, nd.fnExpr = genFn1(r, valKind, false, nd.kids[0].mayHoldFloat())
		return nd
	case k < 12:
		nd := &node{kind: "mapitems", kids: []*node{gen(c, depth-1, keyKind, valKind)}}
		nd.fn, nd.fnExpr = genFn2(r, nd.kids[0].mayHoldFloat())
		return nd
	case k < 15:
		nd := &node{kind: "flatten"}
		for i, m := 0, r.Intn(4); i < m; i++ {
			nd.kids = append(nd.kids, gen(c, depth-1, keyKind, valKind))
		}
		return nd
	default:
		sorted := !r.Chance(1, 5)
		var b, j *node
		if depth > 1 && r.Chance(1, 3) {
			b, j = gen(c, depth-1, keyKind, valKind), gen(c, depth-1, keyKind, valKind)
		} else {
			b, j = genArr(c, keyKind, valKind, sorted), genArr(c, keyKind, valKind, sorted)
		}
		if sorted {
			c.Note("join:sorted-inputs")
		} else {
			c.Note("join:unsorted-inputs")
		}
		return &node{kind: "join", kids: []*node{b, j}}
	}
}

func note(c *hx.Ctx, root string, n *node, ans string) {
	c.Note("root:" + strings.SplitN(root, "=", 2)[0])
	n.walk(func(m *node) {
		c.Note("node:" + m.kind)
		if m.kind == "take" && m.n < 0 {
			c.Note("take:negative-n")
		}
		if m.kind == "take" && m.n == 0 {
			c.Note("take:zero-n")
		}
		if (strings.HasPrefix(m.fn, "addc") || m.fn == "tostr" || strings.HasPrefix(m.fn, "incv")) && m.kids[0].mayHoldFloat() {
			c.Note("convert:float-to-int-arg")
		}
	})
	c.Note(fmt.Sprintf("depth:%d", n.depth()))
	switch {
	case ans == "error" || ans == "panic":
		c.Note("answer:" + ans)
	case strings.Contains(ans, "end=err"):
		c.Note("answer:iteration-error")
	case strings.Contains(ans, "items=[]"):
		c.Note("answer:empty")
	case strings.HasPrefix(ans, "count="):
		k := strings.Count(ans, ":")
		switch {
		case k == 1:
			c.Note("answer:1-item")
		case k <= 5:
			c.Note("answer:2-5-items")
		default:
			c.Note("answer:>5-items")
		}
		if n.depth() >= 1 || root != "id" {
			c.NonTrivial()
		}
	default:
		c.Note("answer:int")
		if n.depth() >= 1 {
			c.NonTrivial()
		}
	}
	if strings.HasPrefix(ans, "count=-") {
		c.Note("count:unknown")
	} else if strings.HasPrefix(ans, "count=") {
		c.Note("count:reported")
	}
}

func genRoot(r *hx.Rand) string {
	switch k := r.Intn(100); {
	case k < 40:
		return "id"
	case k < 50:
		return "count"
	case k < 63:
		return fmt.Sprintf("top=%d", genN(r))
	case k < 66:
		return "top=" + tok(genCountFloat(r))
	case k < 76:
		return "sumbykey"
	case k < 84:
		return "countvalues"
	case k < 92:
		return "countkeys"
	default:
		return "countvalidkeys"
	}
}

// ---- CollectionFeature.FindValue / FindValues --------------------------------------------------------

func toks(vs []any) string {
	xs := make([]string, len(vs))
	for i, v := range vs {
		xs[i] = tok(v)
	}
	return hx.List(xs)
}

func runFind(c *hx.Ctx, keys, vals []any, sorted bool, probe any, all bool) {
	cf := &ingest.CollectionFeature{Keys: append([]any{}, keys...), Values: append([]any{}, vals...)}
	s := 0
	if sorted {
		cf.Sort()
		s = 1
	}
	if all {
		ans := hx.Recover(func() string { return toks(cf.FindValues(probe, nil)) })
		c.Op(fmt.Sprintf("fvs %d %s %s %s", s, toks(cf.Keys), toks(cf.Values), tok(probe)), ans)
	} else {
		ans := hx.Recover(func() string {
			v, ok := cf.FindValue(probe)
			if !ok {
				return "none"
			}
			return "some " + tok(v)
		})
		c.Op(fmt.Sprintf("fv %d %s %s %s", s, toks(cf.Keys), toks(cf.Values), tok(probe)), ans)
		if ans != "none" {
			c.Note("find:hit")
		} else {
			c.Note("find:miss")
		}
	}
	if sorted {
		c.Note("find:sorted")
	} else {
		c.Note("find:unsorted")
	}
}

func genFind(c *hx.Ctx) {
	r := c.Rand
	keyKind := r.Intn(5)
	n := r.Intn(12)
	if r.Chance(1, 8) {
		n = 12 + r.Intn(40)
	}
	keys, vals := make([]any, n), make([]any, n)
	for i := range keys {
		keys[i] = genVal(r, keyKind)
		vals[i] = fmt.Sprintf("v%d", i) // distinct values: which of several equal keys was found is visible
	}
	c.Note("find:keys-" + kindName(keyKind))
	sorted := r.Chance(2, 3)
	for q := 0; q < 2; q++ {
		var probe any
		switch k := r.Intn(10); {
		case k < 5 && n > 0:
			probe = keys[r.Intn(n)]
		case k < 9:
			probe = genVal(r, keyKind)
		default:
			probe = genVal(r, r.Intn(4)) // another type: comparisons fail
			c.Note("find:probe-other-type")
		}
		runFind(c, keys, vals, sorted, probe, q == 1)
	}
}

// ---- collection features replaced inside a mutable world ----------------------------------------------

var historyID = b6.MakeCollectionID("diagonal.works/test", 1)

func readBack(w b6.World) (b6.CollectionFeature, string) {
	cf := b6.FindCollectionByID(historyID, w)
	if cf == nil {
		return nil, "err"
	}
	var ks, vs []any
	i := cf.BeginUntyped()
	for {
		ok, err := i.Next()
		if !ok || err != nil {
			break
		}
		ks = append(ks, i.Key())
		vs = append(vs, i.Value())
	}
	flag := 0
	if cf.IsSortedByKey() {
		flag = 1
	}
	return cf, fmt.Sprintf("%d %s %s", flag, toks(ks), toks(vs))
}

// genHistory: add a collection feature to a BasicMutableWorld (optionally continuing in a MutableOverlayWorld
// on top of it), replace it several times by features with the same ID but other keys / sizes / orders, each
// Sort()ed or not, and after every step look up every key and some absent ones through the world.
func genHistory(c *hx.Ctx) {
	r := c.Rand
	base := ingest.NewBasicMutableWorld()
	var w ingest.MutableWorld = base
	c.Op("wnew", "ok")
	steps := 2 + r.Intn(4)
	overlayAt := -1
	if r.Bool() {
		overlayAt = r.Intn(steps)
	}
	keyKind := []int{0, 0, 1, 2, 4}[r.Intn(5)]
	prevSorted, sawStale := false, false
	for step := 0; step < steps; step++ {
		if step == overlayAt {
			w = ingest.NewMutableOverlayWorld(base)
			c.Op("woverlay", "ok")
			c.Note("history:overlay")
		}
		n := r.Intn(9)
		if r.Chance(1, 6) {
			n = 9 + r.Intn(20)
		}
		f := &ingest.CollectionFeature{CollectionID: historyID}
		for i := 0; i < n; i++ {
			f.Keys = append(f.Keys, genVal(r, keyKind))
			f.Values = append(f.Values, fmt.Sprintf("s%dv%d", step, i))
		}
		if r.Chance(1, 4) { // descending keys: the worst case for a stale flag
			sort.SliceStable(f.Keys, func(a, b int) bool { return goLess(f.Keys[b], f.Keys[a]) })
		}
		sorted := r.Bool()
		flag := 0
		if sorted {
			f.Sort()
			flag = 1
		}
		if prevSorted && !sorted {
			sawStale = true
			c.Note("history:sorted-replaced-by-unsorted")
		}
		prevSorted = sorted
		opText := fmt.Sprintf("wadd %d %s %s", flag, toks(f.Keys), toks(f.Values))
		keys := append([]any{}, f.Keys...)
		if err := w.AddFeature(f); err != nil {
			c.Op(opText, "err")
			return
		}
		cf, back := readBack(w)
		c.Op(opText, back)
		if cf == nil {
			return
		}
		probes := append([]any{}, keys...)
		for q := 0; q < 3; q++ {
			probes = append(probes, genVal(r, keyKind))
		}
		for _, p := range probes {
			p := p
			c.Op("wfv "+tok(p), hx.Recover(func() string {
				v, ok := cf.FindValue(p)
				if !ok {
					return "none"
				}
				return "some " + tok(v)
			}))
			c.Op("wfvs "+tok(p), hx.Recover(func() string { return toks(cf.FindValues(p, nil)) }))
		}
		c.Note("history:step")
	}
	if sawStale {
		c.NonTrivial()
	}
}

func arr(keys []any, vals []any) *node { return &node{kind: "arr", keys: keys, vals: vals} }

func main() {
	hx.Main(hx.Family{
		Name: "c24",
		Rule: "three evaluations of a random expression tree (depth <= 3) of take/filter/map/map-items/flatten/join-missing over literal collections (ints, floats, strings, feature IDs; empty, duplicates, ties, occasionally mixed types), under a root of none/count/top n/sum-by-key/count-values/count-keys/count-valid-keys, with n from {-3..8, large, min/max int}; plus two FindValue/FindValues probes on a CollectionFeature (sorted by Sort() or not); in 1 case of 3 a history on a BasicMutableWorld / MutableOverlayWorld: a collection feature is added and replaced 1-4 times by same-ID features of other sizes and key orders (Sort()ed or not) and every key plus absent keys are looked up through the world after each step; non-trivial = at least one function applied and a non-error answer; distinct = by hash of the op text",
		Quick:    2500,
		Thorough: 120000,
		Corpus: func(c *hx.Ctx) {
			abc := arr([]any{1, 2, 3}, []any{10, 30, 20})
			// fixed (C24-take-negative-count): Count() was -1 while no item is yielded
			runEv(c, "id", &node{kind: "take", kids: []*node{abc}, n: -1})
			runEv(c, "count", &node{kind: "take", kids: []*node{abc}, n: -1})
			runEv(c, "id", &node{kind: "take", kids: []*node{abc}, n: math.MinInt64})
			// fixed (C24-top-empty): nil heap on an empty collection
			runEv(c, "top=3", arr(nil, nil))
			runEv(c, "top=3", &node{kind: "arr", pairs: true})
			runEv(c, "top=0", arr(nil, nil))
			runEv(c, "top=2", &node{kind: "filter", kids: []*node{abc}, fn: "gtc=i99", fnExpr: lambda("v", call("gt", sym("v"), lit(99)))})
			// the unit tests' examples
			runEv(c, "top=2", abc)
			runEv(c, "sumbykey", arr([]any{"total", "children", "total"}, []any{100, 50, 200}))
			runEv(c, "countvalues", arr([]any{"rooms", "rooms", "rooms"}, []any{2, 3, 2}))
			runEv(c, "id", &node{kind: "join", kids: []*node{arr([]any{1, 3}, []any{"b1", "b3"}), arr([]any{0, 1, 2, 4}, []any{"j0", "j1", "j2", "j4"})}})
			runFind(c, []any{3, 1, 2, 1}, []any{"c", "a", "b", "a2"}, true, 1, false)
			runFind(c, []any{3, 1, 2, 1}, []any{"c", "a", "b", "a2"}, true, 1, true)
			c.NonTrivial()
		},
		Case: func(c *hx.Ctx) {
			r := c.Rand
			for q := 0; q < 3; q++ {
				root := genRoot(r)
				keyKind, valKind := r.Intn(4), r.Intn(4)
				switch {
				case strings.HasPrefix(root, "top") && !r.Chance(1, 8):
					valKind = r.Intn(2)
				case root == "sumbykey" && !r.Chance(1, 8):
					valKind = 0
					if r.Chance(1, 8) {
						valKind = 4
					}
				case root == "countvalidkeys" && r.Bool():
					valKind = 3
				case r.Chance(1, 2):
					valKind = 0
				}
				c.Note("keys:" + kindName(keyKind))
				c.Note("vals:" + kindName(valKind))
				n := gen(c, 1+r.Intn(3), keyKind, valKind)
				ans := runEv(c, root, n)
				note(c, root, n, ans)
			}
			genFind(c)
			if c.Rand.Chance(1, 3) {
				genHistory(c)
			}
		},
	})
}
