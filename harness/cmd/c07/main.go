// C07 harness: edit histories on a real search.treeList (through the verif hooks) and on a real
// search.TreeIndex, with open iterators stepped between the edits. After every edit the whole node
// structure (preorder, balance factors), parent-pointer validity, Validate() and Len() are reported.
package main

import (
	"bufio"
	"fmt"
	"os"
	"os/exec"
	"runtime/debug"
	"sort"
	"strconv"
	"strings"
	"time"

	"diagonal.works/b6/search"
	"verifharness/hx"
)

// ---- executor: op text -> canonical answer on the real code ------------------------------------

type state struct {
	t      *search.VerifTree
	iters  []*search.VerifIter
	ix     *search.TreeIndex
	xiters []search.Iterator
}

func newState() *state {
	return &state{t: search.NewVerifTree(), ix: search.NewTreeIndex(search.VerifValues())}
}

func b01(b bool) int {
	if b {
		return 1
	}
	return 0
}

func (s *state) listAnswer() string {
	d, par, _ := s.t.Dump()
	return fmt.Sprintf("len=%d par=%d ok=%d %s", s.t.Len(), b01(par), b01(s.t.Validate()), d)
}

func iterAnswer(ok bool, k, g int, has bool, st string) string {
	if ok {
		if has {
			return fmt.Sprintf("true %d:%d %s", k, g, st)
		}
		return "true nil " + st
	}
	return "false " + st
}

func atoi(s string) int {
	n, err := strconv.Atoi(s)
	if err != nil {
		panic("c07: bad number " + s)
	}
	return n
}

func parseToks(ws []string) []string {
	s := strings.TrimSuffix(strings.TrimPrefix(strings.Join(ws, " "), "["), "]")
	return strings.Fields(s)
}

func (s *state) exec(op string) string {
	return hx.Recover(func() string {
		ws := strings.Fields(op)
		switch ws[0] {
		case "ins":
			s.t.Insert(atoi(ws[1]), atoi(ws[2]))
			return s.listAnswer()
		case "del":
			s.t.Delete(atoi(ws[1]))
			return s.listAnswer()
		case "get":
			if g, ok := s.t.Lookup(atoi(ws[1])); ok {
				return fmt.Sprintf("some %d", g)
			}
			return "none"
		case "drain":
			var xs []string
			it := s.t.Begin()
			for n := 0; it.Next(); n++ {
				k, g, _ := it.Value()
				xs = append(xs, fmt.Sprintf("%d:%d", k, g))
				if n > 100000 {
					return "hang"
				}
			}
			return hx.List(xs)
		case "begin":
			s.iters = append(s.iters, s.t.Begin())
			return fmt.Sprintf("i=%d", len(s.iters)-1)
		case "next":
			it := s.iters[atoi(ws[1])]
			ok := it.Next()
			k, g, has := it.Value()
			return iterAnswer(ok, k, g, has, it.State())
		case "adv":
			it := s.iters[atoi(ws[1])]
			ok := it.Advance(atoi(ws[2]))
			k, g, has := it.Value()
			return iterAnswer(ok, k, g, has, it.State())
		case "xadd":
			s.ix.Add(search.VerifVal{K: atoi(ws[1]), G: atoi(ws[2])}, parseToks(ws[3:]))
			return search.VerifDumpIndex(s.ix)
		case "xrm":
			s.ix.Remove(search.VerifVal{K: atoi(ws[1])}, parseToks(ws[2:]))
			return search.VerifDumpIndex(s.ix)
		case "xtokens":
			var xs []string
			it := s.ix.Tokens()
			for n := 0; it.Next(); n++ {
				xs = append(xs, it.Token())
				if n > 100000 {
					return "hang"
				}
			}
			return hx.List(xs)
		case "xnum":
			return strconv.Itoa(s.ix.NumTokens())
		case "xbegin":
			it := s.ix.Begin(ws[1])
			s.xiters = append(s.xiters, it)
			if search.VerifIterState(it) == "empty" {
				return fmt.Sprintf("i=%d empty", len(s.xiters)-1)
			}
			return fmt.Sprintf("i=%d", len(s.xiters)-1)
		case "xnext", "xadv":
			it := s.xiters[atoi(ws[1])]
			var ok bool
			if ws[0] == "xnext" {
				ok = it.Next()
			} else {
				ok = it.Advance(atoi(ws[2]))
			}
			st := search.VerifIterState(it)
			if st == "empty" {
				if ok {
					return "true empty"
				}
				return "false empty"
			}
			if v := it.Value(); v != nil {
				vv := v.(search.VerifVal)
				return iterAnswer(ok, vv.K, vv.G, true, st)
			}
			return iterAnswer(ok, 0, 0, false, st)
		}
		panic("c07: unknown op " + op)
	})
}

// ---- guard process -------------------------------------------------------------------------------
//
// A fatal stack overflow cannot be recovered in-process and a pointer walk over a damaged structure
// may never return, so every op is first performed by a second process that mirrors the case's
// state (one long-lived process; a request is one line — `RESET` or an op text — the reply one line
// with the answer). If the guard dies the answer is `crash`, if it does not reply in time it is
// killed and the answer is `hang`; the case ends there and a new guard is started for the next one.
// Only when the guard has answered does the harness perform the op on its own copy.

type guardProc struct {
	cmd     *exec.Cmd
	in      *bufio.Writer
	out     chan string
	timer   *time.Timer
	crashes int
}

const maxCrashes = 6
const guardTimeout = 20 * time.Second

var guard guardProc

func guardServe() {
	// the real recursion depth here is a few frames; a small limit turns a runaway recursion into
	// the fatal "stack overflow" after milliseconds instead of after filling 1 GB
	debug.SetMaxStack(16 << 20)
	rd := bufio.NewReaderSize(os.Stdin, 1<<20)
	w := bufio.NewWriter(os.Stdout)
	s := newState()
	for {
		line, err := rd.ReadString('\n')
		line = strings.TrimRight(line, "\n")
		if line == "RESET" {
			s = newState()
			fmt.Fprint(w, "R ok\n")
			w.Flush()
		} else if strings.HasPrefix(line, "DFS ") {
			// dry run of one exhaustive case's whole trie
			ws := strings.Fields(line)
			exhWalk(nil, atoi(ws[1]), []int{atoi(ws[2]), atoi(ws[3])}, 0, false)
			fmt.Fprint(w, "R ok\n")
			w.Flush()
		} else if strings.HasPrefix(line, "BATCH\t") {
			// a whole fixed history on a fresh state; only success matters to the caller
			b := newState()
			for _, op := range strings.Split(line, "\t")[1:] {
				b.exec(op)
			}
			fmt.Fprint(w, "R ok\n")
			w.Flush()
		} else if line != "" {
			fmt.Fprintf(w, "R %s\n", s.exec(line))
			w.Flush()
		}
		if err != nil {
			return
		}
	}
}

func (g *guardProc) stop() {
	if g.cmd != nil {
		g.cmd.Process.Kill()
		g.cmd.Wait()
		g.cmd = nil
	}
}

func (g *guardProc) call(line string) string {
	if g.cmd == nil {
		self, _ := os.Executable()
		cmd := exec.Command(self)
		cmd.Env = append(os.Environ(), "C07_GUARD=1", "GOMEMLIMIT=2GiB")
		stdin, err1 := cmd.StdinPipe()
		stdout, err2 := cmd.StdoutPipe()
		if err1 != nil || err2 != nil || cmd.Start() != nil {
			return "crash"
		}
		g.cmd, g.in, g.out = cmd, bufio.NewWriter(stdin), make(chan string, 1)
		out := g.out
		go func() {
			sc := bufio.NewScanner(stdout)
			sc.Buffer(make([]byte, 1<<20), 1<<24)
			for sc.Scan() {
				if t := sc.Text(); strings.HasPrefix(t, "R ") {
					out <- t[2:]
				}
			}
			close(out)
		}()
	}
	fmt.Fprintf(g.in, "%s\n", line)
	g.in.Flush()
	if g.timer == nil {
		g.timer = time.NewTimer(guardTimeout)
	} else {
		g.timer.Reset(guardTimeout)
	}
	select {
	case ans, ok := <-g.out:
		if !g.timer.Stop() {
			select {
			case <-g.timer.C:
			default:
			}
		}
		if !ok {
			g.stop()
			return "crash"
		}
		return ans
	case <-g.timer.C:
		g.stop()
		return "hang"
	}
}

// ---- one case = a state, its history, and a generation-side mirror of the contents ----------------

type run struct {
	c       *hx.Ctx
	s       *state
	present map[int]bool            // treeList contents (for choosing targets only)
	xpres   map[string]map[int]bool // TreeIndex contents
	gen     int
	dead    bool // structure damaged or a crash was recorded: stop the case
	twoKid  bool
	spent   map[int]bool // iterators that have returned false
	onDel   bool
}

func newRun(c *hx.Ctx) *run {
	if guard.crashes < maxCrashes {
		guard.call("RESET")
	}
	return newRunNoReset(c)
}

func newRunNoReset(c *hx.Ctx) *run {
	return &run{c: c, s: newState(), present: map[int]bool{}, xpres: map[string]map[int]bool{}, spent: map[int]bool{}}
}

func (r *run) do(op string) string { return r.doWith(op, true) }

// doWith performs one op; guarded=false only after the guard has already survived the same fixed
// history (exhaustive cases).
func (r *run) doWith(op string, guarded bool) string {
	if r.dead {
		return ""
	}
	ws := strings.Fields(op)
	switch ws[0] {
	case "del":
		kind := r.s.t.NodeKind(atoi(ws[1]))
		r.c.Note("del:" + kind)
		if kind == "two" {
			r.twoKid = true
		}
	case "next", "adv":
		it := r.s.iters[atoi(ws[1])]
		if it.OnDeletedNode() {
			r.onDel = true
			if _, ok := r.s.t.Lookup(itKey(it)); ok {
				r.c.Note("iter:on-deleted-reinserted")
			} else {
				r.c.Note("iter:on-deleted")
			}
		}
	case "xnext", "xadv":
		if search.VerifIterOnDeletedNode(r.s.xiters[atoi(ws[1])]) {
			r.onDel = true
			r.c.Note("xiter:on-deleted")
		}
	}
	if guard.crashes >= maxCrashes {
		// the violation has been recorded maxCrashes times; each further one costs a process start
		// (and a hang its timeout), so nothing more is executed in this run
		r.dead = true
		r.c.Note("skipped-after-crashes")
		return ""
	}
	ans := ""
	if guarded {
		ans = guard.call(op)
	}
	if ans == "crash" || ans == "hang" {
		guard.crashes++
		r.c.Note("guard:" + ans)
		r.c.Op(op, ans)
		r.dead = true
		return ans
	}
	if own := r.s.exec(op); own != ans {
		if guarded {
			r.c.Note("guard:answer-differs")
		}
		ans = own
	}
	r.c.Op(op, ans)
	r.c.Note("op:" + ws[0])
	if ans == "panic" || strings.Contains(ans, "par=0") || strings.Contains(ans, "ok=0") || ans == "hang" {
		r.dead = true
	}
	switch ws[0] {
	case "ins":
		r.present[atoi(ws[1])] = true
	case "del":
		delete(r.present, atoi(ws[1]))
	case "xadd":
		for _, t := range parseToks(ws[3:]) {
			if r.xpres[t] == nil {
				r.xpres[t] = map[int]bool{}
			}
			r.xpres[t][atoi(ws[1])] = true
		}
	case "xrm":
		for _, t := range parseToks(ws[2:]) {
			if r.xpres[t] != nil {
				delete(r.xpres[t], atoi(ws[1]))
			}
		}
	case "next", "adv", "xnext", "xadv":
		if strings.HasPrefix(ans, "true") {
			r.c.Note("iter:true")
		} else {
			r.c.Note("iter:false")
			if ws[0] == "next" || ws[0] == "adv" {
				r.spent[atoi(ws[1])] = true
			}
		}
	}
	return ans
}

func itKey(it *search.VerifIter) int {
	k, _, _ := it.Value()
	return k
}

// pickIter returns an open iterator, preferring ones that have not finished; -1 = open a new one.
func (r *run) pickIter(rd *hx.Rand) int {
	var live []int
	for i := range r.s.iters {
		if !r.spent[i] {
			live = append(live, i)
		}
	}
	n := len(r.s.iters)
	switch {
	case n == 0:
		return -1
	case len(live) == 0 && n < 8:
		return -1
	case len(live) > 0 && len(live) < 3 && n < 8 && rd.Chance(1, 8):
		return -1
	case len(live) > 0 && !rd.Chance(1, 10):
		return live[rd.Intn(len(live))]
	}
	return rd.Intn(n) // sometimes a finished one: it must stay finished for Next
}

func (r *run) nextGen() int { r.gen++; return r.gen }

func (r *run) ins(k int) { r.do(fmt.Sprintf("ins %d %d", k, r.nextGen())) }
func (r *run) del(k int) { r.do(fmt.Sprintf("del %d", k)) }

func (r *run) presentKeys() []int {
	ks := make([]int, 0, len(r.present))
	for k := range r.present {
		ks = append(ks, k)
	}
	sort.Ints(ks)
	return ks
}

func (r *run) pickPresent(rd *hx.Rand, space int) int {
	ks := r.presentKeys()
	if len(ks) == 0 {
		return rd.Intn(space)
	}
	return ks[rd.Intn(len(ks))]
}

func (r *run) finish() { r.finishWith(true) }

func (r *run) finishWith(guarded bool) {
	if !r.dead {
		r.doWith("drain", guarded)
	}
	r.c.Note(fmt.Sprintf("final-size:%s", bucket(len(r.present))))
	if r.twoKid || r.onDel {
		r.c.NonTrivial()
	}
}

func bucket(n int) string {
	switch {
	case n == 0:
		return "0"
	case n <= 3:
		return "1-3"
	case n <= 7:
		return "4-7"
	case n <= 15:
		return "8-15"
	case n <= 31:
		return "16-31"
	}
	return "32+"
}

// randomOps: the general mix over a key space.
func randomOps(r *run, rd *hx.Rand, space, nops int, delBias int) {
	for i := 0; i < nops && !r.dead; i++ {
		x := rd.Intn(100)
		switch {
		case x < 34:
			r.ins(rd.Intn(space))
		case x < 34+delBias:
			if rd.Chance(3, 4) {
				r.del(r.pickPresent(rd, space))
			} else {
				r.del(rd.Intn(space))
			}
		case x < 80:
			if i := r.pickIter(rd); i < 0 {
				r.do("begin")
			} else {
				r.do(fmt.Sprintf("next %d", i))
			}
		case x < 90:
			if i := r.pickIter(rd); i < 0 {
				r.do("begin")
			} else {
				r.do(fmt.Sprintf("adv %d %d", i, rd.Intn(space+2)))
			}
		case x < 95:
			r.do(fmt.Sprintf("get %d", rd.Intn(space)))
		default:
			r.do("drain")
		}
	}
}

// chaseIterator: delete (and sometimes re-insert) exactly the keys an iterator stands on or is about
// to reach — the markDeleted repair path of Next/Advance.
func chaseIterator(r *run, rd *hx.Rand, space, rounds int) {
	r.do("begin")
	i := len(r.s.iters) - 1
	for n := 0; n < rounds && !r.dead; n++ {
		if r.spent[i] && len(r.s.iters) < 8 && rd.Chance(2, 3) {
			if len(r.present) < 2 {
				for _, k := range rd.Perm(space) {
					if rd.Chance(1, 2) {
						r.ins(k)
					}
				}
			}
			r.do("begin")
			i = len(r.s.iters) - 1
		}
		if rd.Chance(1, 6) {
			r.do(fmt.Sprintf("adv %d %d", i, rd.Intn(space+2)))
		} else {
			r.do(fmt.Sprintf("next %d", i))
		}
		if r.dead {
			return
		}
		k, _, has := r.s.iters[i].Value()
		if !has {
			k = rd.Intn(space)
		}
		switch rd.Intn(8) {
		case 0, 1:
			r.del(k)
		case 2:
			r.del(k)
			r.ins(k)
		case 3: // delete the successor as well
			r.del(k)
			r.del(k + 1)
		case 4: // delete, re-insert, delete again, re-insert: two generations of dead nodes
			r.del(k)
			r.ins(k)
			r.del(k)
			if rd.Bool() {
				r.ins(k)
			}
		case 5:
			r.ins(rd.Intn(space))
		case 6:
			for _, p := range r.presentKeys() { // empty the list under the iterator
				r.del(p)
			}
			if rd.Bool() {
				r.ins(rd.Intn(space))
			}
		default:
			r.del(r.pickPresent(rd, space))
		}
	}
}

func listCase(c *hx.Ctx) {
	rd := c.Rand
	r := newRun(c)
	spaces := []int{4, 8, 16, 16, 32}
	nmax := 60
	if c.Thorough() {
		spaces = []int{4, 8, 16, 32, 64, 64}
		nmax = 200
	}
	space := spaces[rd.Intn(len(spaces))]
	c.Note(fmt.Sprintf("space:%d", space))
	mode := rd.Intn(10)
	c.Note(fmt.Sprintf("mode:%d", mode))
	switch mode {
	case 0, 1, 2, 3:
		randomOps(r, rd, space, 8+rd.Intn(nmax), 24)
	case 4: // monotone build (every insert rotation on one side), then deletes from one end
		n := 3 + rd.Intn(space)
		asc := rd.Bool()
		for i := 0; i < n; i++ {
			if asc {
				r.ins(i)
			} else {
				r.ins(n - 1 - i)
			}
		}
		r.do("begin")
		for i := 0; i < n && !r.dead; i++ {
			switch rd.Intn(3) {
			case 0:
				r.del(i)
			case 1:
				r.del(n - 1 - i)
			default:
				r.del(r.pickPresent(rd, space))
			}
			if rd.Bool() {
				r.do("next 0")
			}
		}
	case 5: // build a full tree in random order, then delete mostly inner (two-child) nodes
		for _, k := range rd.Perm(space) {
			if rd.Chance(5, 6) {
				r.ins(k)
			}
		}
		randomOps(r, rd, space, 5+rd.Intn(nmax), 45)
	case 6, 7:
		for _, k := range rd.Perm(space) {
			if rd.Chance(2, 3) {
				r.ins(k)
			}
		}
		chaseIterator(r, rd, space, 4+rd.Intn(nmax/2))
	case 8: // tiny list that is emptied and refilled under open iterators
		for n := 0; n < 6+rd.Intn(20) && !r.dead; n++ {
			switch rd.Intn(6) {
			case 0, 1:
				r.ins(rd.Intn(3))
			case 2, 3:
				r.del(rd.Intn(3))
			case 4:
				if len(r.s.iters) < 3 {
					r.do("begin")
				} else {
					r.do(fmt.Sprintf("adv %d %d", rd.Intn(len(r.s.iters)), rd.Intn(4)))
				}
			default:
				if len(r.s.iters) == 0 {
					r.do("begin")
				} else {
					r.do(fmt.Sprintf("next %d", rd.Intn(len(r.s.iters))))
				}
			}
		}
	default: // grow, shrink, grow
		randomOps(r, rd, space, 10+rd.Intn(nmax/2), 8)
		randomOps(r, rd, space, 10+rd.Intn(nmax/2), 60)
		randomOps(r, rd, space, 5+rd.Intn(nmax/2), 20)
	}
	r.finish()
}

// Exhaustive part of the thorough tier: every history of exhLen symbols over the alphabet
// ins 0..3, del 0..3, next, adv 1, adv 3 (11 symbols) from three starting lists (empty, {1}, {0,1,2})
// with one open iterator. One case = one (starting list, first two symbols); below that the histories
// are written as a trie (`@d op`, see the driver), so every prefix is executed, dumped and judged
// once: 3 * (11^3 + ... + 11^exhLen) lines instead of 3 * exhLen * 11^exhLen.
const exhLen = 6
const exhSyms = 11

func exhCount() int { return 3 * exhSyms * exhSyms }

func symText(sym, pos int) string {
	switch {
	case sym < 4:
		return fmt.Sprintf("ins %d %d", sym, 4+pos) // payload = position in the history
	case sym < 8:
		return fmt.Sprintf("del %d", sym-4)
	case sym == 8:
		return "next 0"
	case sym == 9:
		return "adv 0 1"
	}
	return "adv 0 3"
}

// applySym performs a symbol without rendering an answer.
func (s *state) applySym(sym, pos int) {
	switch {
	case sym < 4:
		s.t.Insert(sym, 4+pos)
	case sym < 8:
		s.t.Delete(sym - 4)
	case sym == 8:
		s.iters[0].Next()
	case sym == 9:
		s.iters[0].Advance(1)
	default:
		s.iters[0].Advance(3)
	}
}

func exhStartOps(start int) []string {
	switch start {
	case 1:
		return []string{"ins 1 1", "begin"}
	case 2:
		return []string{"ins 1 1", "ins 2 2", "ins 0 3", "begin"}
	}
	return []string{"begin"}
}

// exhRebuild returns a fresh state after the starting list and the symbols of path.
func exhRebuild(start int, path []int) *state {
	s := newState()
	switch start {
	case 1:
		s.t.Insert(1, 1)
	case 2:
		s.t.Insert(1, 1)
		s.t.Insert(2, 2)
		s.t.Insert(0, 3)
	}
	s.iters = append(s.iters, s.t.Begin())
	for pos, sym := range path {
		s.applySym(sym, pos)
	}
	return s
}

func damaged(ans string) bool {
	return ans == "panic" || ans == "hang" || strings.Contains(ans, "par=0") || strings.Contains(ans, "ok=0")
}

// exhWalk enumerates the trie below path. emit == nil: only execute (the guard's dry run).
// perNode: ask the guard about every single node first (after its dry run of the whole subtree failed).
func exhWalk(c *hx.Ctx, start int, path []int, d int, perNode bool) {
	pos := len(path)
	for sym := 0; sym < exhSyms; sym++ {
		op := symText(sym, pos)
		if perNode {
			if guard.crashes >= maxCrashes {
				return
			}
			ops := exhStartOps(start)
			for p, s := range path {
				ops = append(ops, symText(s, p))
			}
			if ans := guard.call("BATCH\t" + strings.Join(append(ops, op), "\t")); ans != "ok" {
				guard.crashes++
				c.Note("guard:" + ans)
				c.Op(fmt.Sprintf("@%d %s", d, op), ans)
				continue
			}
		}
		st := exhRebuild(start, path)
		ans := st.exec(op)
		if c != nil {
			c.Op(fmt.Sprintf("@%d %s", d, op), ans)
			c.Note("op:" + strings.Fields(op)[0])
		}
		if pos+1 < exhLen && !damaged(ans) {
			exhWalk(c, start, append(path, sym), d+1, perNode)
		}
	}
}

func exhaustiveCase(c *hx.Ctx, no int) {
	start, s1, s2 := no%3, (no/3)%exhSyms, no/3/exhSyms
	c.Note("mode:exhaustive")
	r := newRun(c)
	for _, op := range exhStartOps(start) {
		r.do(op)
	}
	r.do(symText(s1, 0))
	r.do(symText(s2, 1))
	if r.dead {
		return
	}
	perNode := false
	if ans := guard.call(fmt.Sprintf("DFS %d %d %d", start, s1, s2)); ans != "ok" {
		c.Note("guard:subtree-" + ans)
		perNode = true
	}
	exhWalk(c, start, []int{s1, s2}, 0, perNode)
	c.NonTrivial()
}

func tok(n int) string { return fmt.Sprintf("t%02d", n) }

func indexCase(c *hx.Ctx) {
	rd := c.Rand
	r := newRun(c)
	ntok := []int{2, 4, 8, 16}[rd.Intn(4)]
	space := []int{4, 8, 16}[rd.Intn(3)]
	nops := 8 + rd.Intn(50)
	if c.Thorough() {
		nops = 8 + rd.Intn(150)
	}
	c.Note("mode:index")
	c.Note(fmt.Sprintf("tokens:%d", ntok))
	toks := func() string {
		n := 1 + rd.Intn(3)
		if n > ntok {
			n = ntok
		}
		p := rd.Perm(ntok)
		xs := make([]string, n)
		for i := range xs {
			xs[i] = tok(p[i])
		}
		return hx.List(xs)
	}
	for i := 0; i < nops && !r.dead; i++ {
		x := rd.Intn(100)
		switch {
		case x < 35:
			r.do(fmt.Sprintf("xadd %d %d %s", rd.Intn(space), r.nextGen(), toks()))
		case x < 60:
			r.do(fmt.Sprintf("xrm %d %s", rd.Intn(space), toks()))
		case x < 82:
			if len(r.s.xiters) == 0 || (len(r.s.xiters) < 4 && rd.Chance(1, 6)) {
				r.do("xbegin " + tok(rd.Intn(ntok)))
			} else {
				j := rd.Intn(len(r.s.xiters))
				r.do(fmt.Sprintf("xnext %d", j))
				// chase: remove the value the iterator stands on from every token
				if v := r.s.xiters[j].Value(); v != nil && rd.Chance(1, 3) && !r.dead {
					all := make([]string, ntok)
					for t := range all {
						all[t] = tok(t)
					}
					k := v.(search.VerifVal).K
					r.do(fmt.Sprintf("xrm %d %s", k, hx.List(all)))
					if rd.Chance(1, 3) {
						r.do(fmt.Sprintf("xadd %d %d %s", k, r.nextGen(), toks()))
					}
				}
			}
		case x < 90:
			if len(r.s.xiters) == 0 {
				r.do("xbegin " + tok(rd.Intn(ntok)))
			} else {
				r.do(fmt.Sprintf("xadv %d %d", rd.Intn(len(r.s.xiters)), rd.Intn(space+2)))
			}
		case x < 95:
			r.do("xtokens")
		default:
			r.do("xnum")
		}
	}
	if !r.dead {
		r.do("xtokens")
		r.do("xnum")
	}
	if r.onDel {
		c.NonTrivial()
	}
}

// again starts a fresh state inside the same case (the driver resets on `reset`).
func again(c *hx.Ctx) *run {
	c.Op("reset", "ok")
	return newRun(c)
}

func corpus(c *hx.Ctx) {
	// fixed (fixes/C07-treelist-length.patch): Len() ignored the insertion into an empty list and was
	// decremented by the deletion of an absent key.
	r := newRun(c)
	for _, op := range []string{"ins 1 1", "ins 2 2", "del 7", "del 1", "del 2", "del 2"} {
		r.do(op)
	}
	// fixed (fixes/C07-iterator-start-empty.patch): Next on an iterator whose node was deleted, the list
	// now being empty, recursed until the stack overflowed.
	c.Comment("iterator on a deleted node of an emptied list")
	r = again(c)
	for _, op := range []string{"ins 5 1", "begin", "next 0", "del 5", "next 0", "ins 6 2", "next 0"} {
		r.do(op)
	}
	r = again(c)
	for _, op := range []string{"ins 5 1", "begin", "next 0", "del 5", "adv 0 2", "ins 6 2", "adv 0 3"} {
		r.do(op)
	}
	// the same through TreeIndex: the token's list is emptied under an open iterator
	r = again(c)
	for _, op := range []string{"xadd 5 1 [t00 t01]", "xnum", "xbegin t00", "xnext 0", "xrm 5 [t00]", "xnext 0", "xrm 9 [t01 t07]", "xnum"} {
		r.do(op)
	}
	// the repo's own deletion cases (tree_test.go), with the structure compared after every op
	for _, tc := range []struct {
		in  []int
		del int
	}{
		{[]int{10, 5, 15, 4, 6, 13, 16, 17}, 13}, {[]int{10, 5, 15, 4, 6, 13, 16, 3}, 6},
		{[]int{10, 5, 15, 3, 6, 13, 16, 4}, 6}, {[]int{10, 5, 15, 4, 6, 13, 17, 16}, 13},
		{[]int{10, 5, 15, 4, 6, 13, 16, 17, 3}, 5}, {[]int{10, 5, 15, 4, 6, 13, 16}, 10},
	} {
		r = again(c)
		for _, k := range tc.in {
			r.ins(k)
		}
		r.do("begin")
		r.do("next 0")
		r.del(tc.del)
		r.do("next 0")
		r.do("drain")
	}
	c.NonTrivial()
}

func main() {
	if os.Getenv("C07_GUARD") != "" {
		guardServe()
		return
	}
	defer guard.stop()
	hx.Main(hx.Family{
		Name:     "c07",
		Rule:     "edit histories (insert / delete / re-insert, payload = a per-case counter) on a real treeList over key spaces 4..32 (thorough: ..64) with up to 8 open iterators (a finished one is usually replaced by a new one) stepped by Next/Advance between the edits; 10 shapes: general mix, monotone build + deletes from the ends, full tree + mostly inner deletions, iterator chasing (delete / re-insert exactly the key under the iterator, empty the list under it), tiny lists emptied and refilled, grow-shrink-grow; one case in five is a TreeIndex history (Add/Remove with 1..3 tokens, iterators from Begin(token)); thorough also enumerates, as a trie, every history of length <= 6 over {ins 0..3, del 0..3, next, adv 1, adv 3} from three starting lists with one open iterator. non-trivial = the history deletes a node with two children or calls an iterator standing on a deleted node; distinct = by hash of the op text",
		Quick:    2500,
		Thorough: exhCount() + 8000,
		Corpus:   corpus,
		Case: func(c *hx.Ctx) {
			if c.Thorough() && c.CaseNo < exhCount() {
				exhaustiveCase(c, c.CaseNo)
				return
			}
			if c.Rand.Intn(5) == 0 {
				indexCase(c)
			} else {
				listCase(c)
			}
		},
	})
}
