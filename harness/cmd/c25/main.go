// C25 harness: the real map-parallel, evaluated through api.Evaluate with a harness-registered function that
// logs every call, yields / sleeps per a seeded plan and fails on the listed items; the consumer logs every
// Next() call and what it returned. The same collection is also evaluated with `map`.
//
// op     : run n=<cores> mp=<GOMAXPROCS> N=<items> fail=[k …] y=<plan seed>
// answer : <ok|hang|panic> [ev …] map=<values yielded>:<nil|k|other>
//          ev: `n` the consumer calls Next() · `c<k>` f is entered on item k · `t<k>` Next() returned item k's value
//              (`t<k>!` if key or value is not item k's) · `e:nil` / `e:<k>` / `e:other` Next() returned false with
//              no error / the error of item k / some other error.
// Every run happens in a child process (batches with an in-child watchdog; a run that does not return within
// 3 s + 4 ms per core is re-run alone in a fresh child with 12 s + 4 ms per core before it is answered `hang`).
package main

import (
	"context"
	"encoding/json"
	"fmt"
	"runtime"
	"strconv"
	"strings"
	"sync"
	"time"

	"diagonal.works/b6"
	"diagonal.works/b6/api"
	"diagonal.works/b6/api/functions"
	"diagonal.works/b6/ingest"
	"verifharness/hx"
)

type Run struct {
	Cores int
	MP    int
	N     int
	Fail  []int
	Y     uint64
	Src   string // the source collection: "" / lit = a literal; map | mapitems | filter | filtermap | flatten = a lazy collection over it
	SFail int    // 1 + position at which the source's own function fails (0 = never)
}

func (r *Run) opText() string {
	fl := make([]string, len(r.Fail))
	for i, f := range r.Fail {
		fl[i] = strconv.Itoa(f)
	}
	op := fmt.Sprintf("run n=%d mp=%d N=%d fail=%s y=%d", r.Cores, r.MP, r.N, hx.List(fl), r.Y)
	if r.Src != "" && r.Src != "lit" {
		sf := "-"
		if r.SFail > 0 {
			sf = strconv.Itoa(r.SFail - 1)
		}
		op += fmt.Sprintf(" src=%s sfail=%s", r.Src, sf)
	}
	return op
}

func mix(a, b, c uint64) uint64 {
	z := a + 0x9e3779b97f4a7c15*(b+1) + 0xbf58476d1ce4e5b9*(c+1)
	z = (z ^ (z >> 30)) * 0xbf58476d1ce4e5b9
	z = (z ^ (z >> 27)) * 0x94d049bb133111eb
	return z ^ (z >> 31)
}

func perturb(x uint64) {
	switch x % 8 {
	case 4:
		runtime.Gosched()
	case 5:
		runtime.Gosched()
		runtime.Gosched()
		runtime.Gosched()
	case 6:
		time.Sleep(20 * time.Microsecond)
	case 7:
		time.Sleep(200 * time.Microsecond)
	}
}

type failure struct{ k int }

func (f failure) Error() string { return fmt.Sprintf("verif-f failed on item %d", f.k) }

type srcFailure struct{ k int }

func (f srcFailure) Error() string { return fmt.Sprintf("verif-src failed on item %d", f.k) }

type recorder struct {
	mu     sync.Mutex
	events []string
}

func (rec *recorder) log(e string) {
	rec.mu.Lock()
	rec.events = append(rec.events, e)
	rec.mu.Unlock()
}

func value(k int) int { return 7*k + 1 }

// evaluate runs `<symbol> <collection 0..N-1> verif-f` and drains the result.
func evaluate(r *Run, symbol string, rec *recorder) (yielded int, end string) {
	fails := map[int]bool{}
	for _, k := range r.Fail {
		fails[k] = true
	}
	f := func(c *api.Context, v interface{}) (interface{}, error) {
		k, ok := v.(int)
		if !ok {
			// not a value of the collection (e.g. the nil left behind by a source item that failed): answer, so that
			// what map-parallel makes of it is seen by the consumer
			k = 900000 + r.N
		}
		if rec != nil {
			rec.log(fmt.Sprintf("c%d", k))
			perturb(mix(r.Y, uint64(k), 1))
		}
		if fails[k] {
			return nil, failure{k}
		}
		return value(k), nil
	}
	fs := api.FunctionSymbols{}
	for name, fn := range functions.Functions() {
		fs[name] = fn
	}
	fs["verif-f"] = f
	// the functions of a lazy source collection; they fail on item SFail-1
	srcFails := func(k int) bool { return r.SFail > 0 && k == r.SFail-1 }
	fs["verif-g"] = func(c *api.Context, v interface{}) (interface{}, error) {
		if srcFails(v.(int)) {
			return nil, srcFailure{v.(int)}
		}
		return v, nil
	}
	fs["verif-gi"] = func(c *api.Context, p api.Pair) (interface{}, error) {
		if srcFails(p.Second().(int)) {
			return nil, srcFailure{p.Second().(int)}
		}
		return api.AnyAnyPair{p.First(), p.Second()}, nil
	}
	fs["verif-p"] = func(c *api.Context, v interface{}) (bool, error) {
		if srcFails(v.(int)) {
			return false, srcFailure{v.(int)}
		}
		return true, nil
	}
	fs["verif-keep"] = func(c *api.Context, v interface{}) (bool, error) { return true, nil }
	fs["verif-h"] = func(c *api.Context, v interface{}) (b6.UntypedCollection, error) {
		if srcFails(v.(int)) {
			return nil, srcFailure{v.(int)}
		}
		return b6.ArrayValuesCollection[int]{v.(int)}.Collection(), nil
	}
	ctx := &api.Context{
		World:           ingest.NewBasicMutableWorld(),
		FunctionSymbols: fs,
		Adaptors:        functions.Adaptors(),
		Context:         context.Background(),
		Cores:           r.Cores,
	}
	input := make(b6.ArrayValuesCollection[int], r.N)
	for i := range input {
		input[i] = i
	}
	call := func(f string, args ...b6.Expression) b6.Expression {
		return b6.NewCallExpression(b6.NewSymbolExpression(f), args)
	}
	sym := b6.NewSymbolExpression
	source := b6.NewCollectionExpression(input.Collection())
	switch r.Src {
	case "", "lit":
	case "map": // Next() reports a failing item as (true, err)
		source = call("map", source, sym("verif-g"))
	case "mapitems": // (true, err)
		source = call("map-items", source, sym("verif-gi"))
	case "filter": // (false, err)
		source = call("filter", source, sym("verif-p"))
	case "filtermap": // filter passes the (true, err) of the map under it on
		source = call("filter", call("map", source, sym("verif-g")), sym("verif-keep"))
	case "flatten": // flatten passes the (true, err) of the map under it on; keys are the inner collections'
		source = call("flatten", call("map", source, sym("verif-h")))
	default:
		panic("unknown source " + r.Src)
	}
	e := call(symbol, source, sym("verif-f"))
	result, err := api.Evaluate(e, ctx)
	if err != nil {
		panic(fmt.Sprintf("evaluate: %s", err))
	}
	c, ok := result.(b6.UntypedCollection)
	if !ok {
		panic(fmt.Sprintf("evaluate: result is a %T", result))
	}
	i := c.BeginUntyped()
	for {
		if rec != nil {
			perturb(mix(r.Y, uint64(yielded), 2))
			rec.log("n")
		}
		ok, err := i.Next()
		if !ok || err != nil { // the repo's consumers stop on `!ok || err != nil`; map returns (true, err) on a failure
			end = "nil"
			if err != nil {
				end = "other"
				// the VM may wrap the error with the expression it was evaluating: find our message in it
				if strings.Contains(err.Error(), "verif-src failed on item ") {
					end = "s"
				}
				const marker = "verif-f failed on item "
				if j := strings.Index(err.Error(), marker); j >= 0 {
					rest := err.Error()[j+len(marker):]
					d := 0
					for d < len(rest) && rest[d] >= '0' && rest[d] <= '9' {
						d++
					}
					if d > 0 {
						end = rest[:d]
					}
				}
			}
			if rec != nil {
				rec.log("e:" + end)
			}
			return yielded, end
		}
		k := -1
		if v, isint := i.Value().(int); isint && (v-1)%7 == 0 {
			k = (v - 1) / 7
		}
		mark := ""
		if key, isint := i.Key().(int); !isint || (key != k && r.Src != "flatten") || k != yielded {
			mark = "!"
		}
		if rec != nil {
			rec.log(fmt.Sprintf("t%d%s", k, mark))
		} else if mark != "" {
			return yielded, "other"
		}
		yielded++
	}
}

func runOne(r *Run) string {
	rec := &recorder{}
	evaluate(r, "map-parallel", rec)
	my, mend := evaluate(r, "map", nil)
	rec.mu.Lock()
	defer rec.mu.Unlock()
	return fmt.Sprintf("ok %s map=%d:%s", hx.List(rec.events), my, mend)
}

// ---- child side ---------------------------------------------------------------------------------

type batch struct {
	Runs      []Run
	TimeoutMs int
}

func childBatch(arg string) string {
	var b batch
	if err := json.Unmarshal([]byte(arg), &b); err != nil {
		return "badarg"
	}
	out := make([]string, len(b.Runs))
	for i := range b.Runs {
		r := &b.Runs[i]
		runtime.GOMAXPROCS(r.MP)
		done := make(chan string, 1)
		go func() { done <- hx.Recover(func() string { return runOne(r) }) }()
		select {
		case a := <-done:
			out[i] = a
		case <-time.After(time.Duration(b.TimeoutMs)*time.Millisecond + time.Duration(r.Cores)*4*time.Millisecond): // starting 16384 goroutines takes seconds under load
			out[i] = "hang"
		}
	}
	return strings.Join(out, "\n")
}

const batchSize = 40

func runBatch(runs []Run) []string {
	arg, _ := json.Marshal(batch{Runs: runs, TimeoutMs: 3000})
	res := hx.RunChild("batch", string(arg), 600*time.Second)
	lines := strings.Split(res, "\n")
	ok := res != "hang" && res != "crash" && len(lines) == len(runs)
	out := make([]string, len(runs))
	for i := range runs {
		if ok && lines[i] != "hang" {
			out[i] = lines[i]
			continue
		}
		one, _ := json.Marshal(batch{Runs: runs[i : i+1], TimeoutMs: 12000})
		a := hx.RunChild("batch", string(one), 120*time.Second)
		if a == "crash" {
			a = "panic"
		}
		out[i] = a
	}
	return out
}

// ---- generator ------------------------------------------------------------------------------------

var mps = []int{1, 2, 4, 8, 16}

func caseRand(seed uint64, no int) *hx.Rand {
	return hx.NewRand(seed*0x9e3779b97f4a7c15 ^ uint64(no)*0xd1342543de82ef95 ^ 0x5851f42d4c957f2d)
}

// the sweep: cores 1..16 × (no failure, failure at every position of a 7-item collection)
func sweep() []Run {
	var out []Run
	for n := 1; n <= 16; n++ {
		out = append(out, Run{Cores: n, N: 7})
		for k := 0; k < 7; k++ {
			out = append(out, Run{Cores: n, N: 7, Fail: []int{k}})
		}
	}
	return out
}

var lazySources = []string{"map", "mapitems", "filter", "filtermap", "flatten"}

// lazy sources: style × cores × (source fails first / middle / last / never), f failing after, before or not at all
func sweepSources() []Run {
	var out []Run
	for _, src := range lazySources {
		for _, n := range []int{2, 3, 8, 16} {
			for _, sf := range []int{1, 4, 7, 0} {
				out = append(out, Run{Cores: n, N: 7, Src: src, SFail: sf})
				out = append(out, Run{Cores: n, N: 7, Src: src, SFail: sf, Fail: []int{5}})
			}
		}
	}
	return out
}

var sweepRuns = append(sweep(), sweepSources()...)

// Many cores, a failing item among the first three: after the failure the consumer is blocked on one of the first
// `out` channels while run() still has thousands of channels to close — the window in which a misplaced
// `m.err = …` (after the closes) is read as nil. Cases bigFrom … bigFrom+bigCount-1, and every 25th case after that.
// (16384 cores cost seconds per run on a loaded machine: only every 500th case, i.e. in the thorough tier.)
var bigCores = []int{512, 1024, 4096}

const bigCount = 120

func bigRun(r *hx.Rand, i int) Run {
	run := Run{Cores: bigCores[i%3], MP: mps[1+r.Intn(len(mps)-1)], Y: r.Uint64() % 1000000}
	run.N = 3 + r.Intn(6)
	run.Fail = []int{(i / 3) % 3}
	if r.Chance(1, 4) {
		run.Fail = append(run.Fail, 1+r.Intn(run.N-1))
	}
	return run
}

func genRun(seed uint64, no int) Run {
	r := caseRand(seed, no)
	if no < len(sweepRuns) {
		run := sweepRuns[no]
		run.MP = mps[r.Intn(len(mps))]
		run.Y = r.Uint64() % 1000000
		return run
	}
	if no < len(sweepRuns)+bigCount {
		return bigRun(r, no-len(sweepRuns))
	}
	if no%25 == 0 {
		run := bigRun(r, no/25)
		if no%500 == 0 {
			run.Cores = 16384
		}
		return run
	}
	run := Run{Cores: 1 + r.Intn(16), MP: mps[r.Intn(len(mps))], Y: r.Uint64() % 1000000}
	if r.Chance(1, 3) {
		run.Cores = 2 + r.Intn(3)
	}
	switch x := r.Intn(10); {
	case x < 1:
		run.N = r.Intn(3)
	case x < 7:
		run.N = 1 + r.Intn(3*run.Cores+2)
	default:
		run.N = 20 + r.Intn(40)
	}
	switch x := r.Intn(20); {
	case run.N == 0 || x < 5: // nothing fails
	case x < 14:
		run.Fail = []int{r.Intn(run.N)}
	case x < 19:
		p := r.Perm(run.N)
		m := 2 + r.Intn(3)
		if m > run.N {
			m = run.N
		}
		run.Fail = append(run.Fail, p[:m]...)
	default:
		for k := 0; k < run.N; k++ {
			run.Fail = append(run.Fail, k)
		}
	}
	if run.N > 0 && r.Chance(2, 5) { // a lazy source collection whose own function may fail
		run.Src = lazySources[r.Intn(len(lazySources))]
		switch r.Intn(5) {
		case 0:
			run.SFail = 1
		case 1:
			run.SFail = run.N
		case 2, 3:
			run.SFail = 1 + r.Intn(run.N)
		}
	}
	return run
}

var corpus = []Run{
	{Cores: 2, MP: 4, N: 3, Fail: []int{1}},
	{Cores: 2, MP: 1, N: 5, Fail: []int{0, 1}},
	{Cores: 8, MP: 16, N: 1031 % 97, Fail: []int{47}}, // the repo's own test shape, scaled down
	{Cores: 3, MP: 2, N: 0},
	{Cores: 16, MP: 4, N: 5},
	{Cores: 2, MP: 2, N: 40, Fail: []int{39}},
	// a source iterator that reports its failing item as (true, err) / (false, err): map-parallel must stop there
	// (seeded change C25-4 carried on and yielded everything)
	{Cores: 2, MP: 4, N: 6, Src: "map", SFail: 3},
	{Cores: 4, MP: 4, N: 6, Src: "filter", SFail: 1},
	{Cores: 3, MP: 2, N: 6, Src: "mapitems", SFail: 6},
	{Cores: 8, MP: 8, N: 9, Src: "filtermap", SFail: 5, Fail: []int{7}},
	{Cores: 2, MP: 2, N: 5, Src: "flatten", SFail: 4},
}

func note(c *hx.Ctx, r *Run, ans string) {
	if r.Cores > 16 {
		c.Note(fmt.Sprintf("cores:%d", r.Cores))
		c.Note(fmt.Sprintf("many-cores-failing-item:%d", r.Fail[0]))
	} else {
		c.Note(fmt.Sprintf("cores:%d", r.Cores))
	}
	c.Note(fmt.Sprintf("mp:%d", r.MP))
	switch {
	case r.N < 8:
		c.Note(fmt.Sprintf("N:%d", r.N))
	default:
		c.Note(fmt.Sprintf("N:%d+", r.N/8*8))
	}
	switch n := len(r.Fail); {
	case n == 0:
		c.Note("fail:none")
	case n == 1:
		c.Note("fail:one")
	case n == r.N:
		c.Note("fail:all")
	default:
		c.Note("fail:some")
	}
	c.Note("outcome:" + strings.SplitN(ans, " ", 2)[0])
	if r.Src != "" {
		where := "never"
		switch {
		case r.SFail == 1:
			where = "first"
		case r.SFail == r.N:
			where = "last"
		case r.SFail > 0:
			where = "middle"
		}
		c.Note("source:" + r.Src + ":fails-" + where)
		if strings.Contains(ans, " e:s]") {
			c.Note("error:the-source's")
		}
	}
	if len(r.Fail) > 0 {
		minFail := r.Fail[0]
		for _, k := range r.Fail {
			if k < minFail {
				minFail = k
			}
		}
		took := strings.Count(ans, " t") + strings.Count(ans, "[t")
		if took < minFail {
			c.Note("prefix:shorter-than-map")
		} else {
			c.Note("prefix:same-as-map")
		}
		if i := strings.Index(ans, " e:"); i >= 0 && len(r.Fail) > 1 {
			e := strings.TrimRight(strings.SplitN(ans[i+3:], " ", 2)[0], "]")
			if e != strconv.Itoa(minFail) {
				c.Note("error:not-the-first-failing-item")
			} else {
				c.Note("error:first-failing-item")
			}
		}
	}
	if r.Cores >= 2 && r.N > r.Cores {
		c.NonTrivial()
	}
}

func main() {
	hx.RegisterChild("batch", childBatch)
	cache := map[int]string{}
	var cacheSeed uint64
	hx.Main(hx.Family{
		Name: "c25",
		Rule: "one evaluation of map-parallel (and of map) over the collection 0..N-1 with a registered function that logs, yields/sleeps per a seeded plan and fails on the listed items; cores 1..16, GOMAXPROCS 1/2/4/8/16, N from 0 to 60, failing: none 25%, one 45%, a few 25%, all 5%; a consumer that yields/sleeps between Next() calls; cases 0.." + fmt.Sprint(len(sweepRuns)-1) + " sweep cores 1..16 x every failing position of 7 items, then lazy sources (map, map-items, filter, filter over map, flatten over map) x cores 2/3/8/16 x the source's function failing first/middle/last/never; 40% of the random cases use a lazy source; the next " + fmt.Sprint(bigCount) + " cases and every 25th case after them use 512/1024/4096 cores (16384 for every 500th case) with the first failing item at position 0, 1 or 2 (the close-before-store window); non-trivial = at least 2 cores and more items than cores; distinct = by hash of the op text",
		Quick:    2000,
		Thorough: 20000,
		Corpus: func(c *hx.Ctx) {
			runs := make([]Run, 0, 2*len(corpus))
			for _, r := range corpus {
				for _, y := range []uint64{1, 2} {
					r.Y = y
					runs = append(runs, r)
				}
			}
			for i, a := range runBatch(runs) {
				c.Op(runs[i].opText(), a)
				note(c, &runs[i], a)
			}
		},
		Case: func(c *hx.Ctx) {
			if cacheSeed != c.Seed {
				cache, cacheSeed = map[int]string{}, c.Seed
			}
			if _, ok := cache[c.CaseNo]; !ok {
				runs := make([]Run, batchSize)
				for i := range runs {
					runs[i] = genRun(c.Seed, c.CaseNo+i)
				}
				for i, a := range runBatch(runs) {
					cache[c.CaseNo+i] = a
				}
			}
			r := genRun(c.Seed, c.CaseNo)
			a := cache[c.CaseNo]
			delete(cache, c.CaseNo)
			c.Op(r.opText(), a)
			note(c, &r, a)
		},
	})
}
