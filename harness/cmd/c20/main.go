// C20 harness: random expressions in (and around) the printable subset are printed with the real
// api.UnparseExpression, the text is parsed with the real api.ParseExpression (goyacc tables), and texts
// with extra white space or damage are parsed as well. Trees are written as S-expressions (see
// lean/B6/Driver/C20.lean); floats as their shortest decimal text, points at E7.
package main

import (
	"encoding/hex"
	"fmt"
	"math"
	"strconv"
	"strings"

	"diagonal.works/b6"
	"diagonal.works/b6/api"
	"github.com/golang/geo/s2"
	"verifharness/hx"
)

func xs(s string) string { return "x" + hex.EncodeToString([]byte(s)) }
func paren(xs ...string) string { return "(" + strings.Join(xs, " ") + ")" }
func b01(b bool) string {
	if b {
		return "1"
	}
	return "0"
}

// floatText is the canonical text of a float: the shortest decimal that round-trips, with a decimal point.
func floatText(f float64) string {
	s := strconv.FormatFloat(f, 'f', -1, 64)
	if !strings.Contains(s, ".") {
		s += ".0"
	}
	return s
}

func idWord(id b6.FeatureID) string {
	ns := "-"
	if len(id.Namespace) > 0 {
		ns = hex.EncodeToString([]byte(id.Namespace))
	}
	return id.Type.String() + ":" + ns + ":" + strconv.FormatUint(id.Value, 10)
}

func qOf(q b6.Query) (string, bool) {
	switch v := q.(type) {
	case b6.Keyed:
		return paren("keyed", xs(v.Key)), true
	case b6.Tagged:
		return paren("tagged", xs(v.Key), xs(v.Value.String())), true
	case b6.Intersection:
		out := []string{"and"}
		for _, c := range v {
			s, ok := qOf(c)
			if !ok {
				return "", false
			}
			out = append(out, s)
		}
		return paren(out...), true
	case b6.Union:
		out := []string{"or"}
		for _, c := range v {
			s, ok := qOf(c)
			if !ok {
				return "", false
			}
			out = append(out, s)
		}
		return paren(out...), true
	}
	return "", false
}

// kOf prints an expression; withSpans adds (E begin end …) around every node and writes points at E7,
// otherwise points are written as the two texts the printer uses.
func kOf(e b6.Expression, withSpans bool) (string, bool) {
	wrap := func(k string) string {
		if withSpans {
			return paren("E", strconv.Itoa(e.Begin), strconv.Itoa(e.End), k)
		}
		return k
	}
	switch v := e.AnyExpression.(type) {
	case b6.SymbolExpression:
		return wrap(paren("sym", xs(string(v)))), true
	case b6.StringExpression:
		return wrap(paren("str", xs(string(v)))), true
	case b6.IntExpression:
		return wrap(paren("int", strconv.Itoa(int(v)))), true
	case b6.FloatExpression:
		return wrap(paren("float", xs(floatText(float64(v))))), true
	case b6.PointExpression:
		ll := s2.LatLng(v)
		if withSpans {
			return wrap(paren("pt", fmt.Sprint(ll.Lat.E7()), fmt.Sprint(ll.Lng.E7()))), true
		}
		return wrap(paren("pt", xs(floatText(ll.Lat.Degrees())), xs(floatText(ll.Lng.Degrees())))), true
	case b6.FeatureIDExpression:
		return wrap(paren("id", idWord(b6.FeatureID(v)))), true
	case b6.TagExpression:
		return wrap(paren("tag", xs(v.Key), xs(v.Value.String()))), true
	case b6.QueryExpression:
		q, ok := qOf(v.Query)
		return wrap(paren("query", q)), ok
	case b6.CallExpression:
		f, ok := kOf(v.Function, withSpans)
		if !ok {
			return "", false
		}
		out := []string{"call", b01(v.Pipelined), f}
		for _, a := range v.Args {
			s, ok := kOf(a, withSpans)
			if !ok {
				return "", false
			}
			out = append(out, s)
		}
		return wrap(paren(out...)), true
	case b6.LambdaExpression:
		body, ok := kOf(v.Expression, withSpans)
		if !ok {
			return "", false
		}
		ps := make([]string, len(v.Args))
		for i, p := range v.Args {
			ps[i] = xs(p)
		}
		return wrap(paren("lam", paren(ps...), body)), true
	}
	return "", false
}

func parse(text string) string {
	return hx.Recover(func() string {
		e, err := api.ParseExpression(text)
		if err != nil || e.AnyExpression == nil {
			return "err"
		}
		s, ok := kOf(e, true)
		if !ok {
			return "unprintable-tree"
		}
		return s
	})
}

// ---------------------------------------------------------------------------------------------

var symbols = []string{"find", "area", "x", "y", "f", "add-tag", "all-tags", "to:str", "a_b", "gt", "count", "Filter", "p2", "t-1"}
var plainStrings = []string{"", "a", "cafe", "hello world", "it's", "a,b", "x=y", "(p)", "[q]", "{r}", "a|b", "é", "日本", "#amenity", "1st", "-5", "1.5", "  ", "a->b", "/n/1"}
var escapeStrings = []string{"a\"b", "back\\slash", "line\nbreak", "tab\t", "\x00", "\x7f", "q\"", "\\"}
var keys = []string{"#amenity", "#building", "@name", "name", "addr:street", "#shop", "#a-b", "#", "@", "ref_1", "#x:y"}
var badKeys = []string{"1st", "_x", "a b", "", "é", "#a b", "na\"me", "-k", "#caf\u00e9", "@\u6771"}
var values = []string{"cafe", "yes", "restaurant", "a-b", "x:y", "A1", "1st", "_x", "", "two words", "é", "5", "-1", "no.", "#v", "a=b"}
var nss = []string{"openstreetmap.org/node", "openstreetmap.org/way", "openstreetmap.org/relation", "diagonal.works/ns/ui", "a/b/c", "ordnancesurvey.co.uk/uprn", "x_y.z-w"}

// namespaces with letters / digits beyond ASCII: the lexer keeps them in the FEATURE_ID token (unicode.IsLetter / IsDigit)
var unicodeNss = []string{"caf\u00e9.org/x", "stra\u00dfe", "\u6771\u4eac/\u99c5", "\U0001d400b/c", "ns\u0663", "\u0414\u0430/\u03b1\u03b2", "\uff11x", "\uac00\ub098"}

// … and with runes that end the token: a combining mark, an emoticon, a multiplication sign, a no-break space
var unicodeBadNss = []string{"e\u0301", "a\U0001f600", "a\u00d7b", "a\u00a0b", "\u2003x"}
var badNss = []string{"a b", "a:b", "a+b", "a,b"}

type gen struct {
	c   *hx.Ctx
	odd bool // draw from outside the printable subset too
}

func (g *gen) sym() string {
	if g.odd && g.c.Rand.Chance(1, 12) {
		// symbols are printed bare, and the lexer only reads ASCII ones
		g.c.Note("class:symbol-not-ascii")
		return g.c.Rand.Pick([]string{"\u00e9", "na\u00efve", "f\u6771", "x\u0301"})
	}
	return g.c.Rand.Pick(symbols)
}

func (g *gen) str() string {
	if g.odd && g.c.Rand.Chance(1, 4) {
		g.c.Note("class:string-needs-escape")
		return g.c.Rand.Pick(escapeStrings)
	}
	return g.c.Rand.Pick(plainStrings)
}

func (g *gen) key() string {
	if g.odd && g.c.Rand.Chance(1, 5) {
		g.c.Note("class:key-not-symbol")
		return g.c.Rand.Pick(badKeys)
	}
	return g.c.Rand.Pick(keys)
}

func (g *gen) value() b6.Expression {
	r := g.c.Rand
	if g.odd && r.Chance(1, 6) {
		g.c.Note("class:tag-value-not-string")
		if r.Bool() {
			return b6.NewIntExpression(r.Intn(100))
		}
		return b6.NewSymbolExpression(g.sym())
	}
	if g.odd && r.Chance(1, 6) {
		g.c.Note("class:string-needs-escape")
		return b6.NewStringExpression(r.Pick(escapeStrings))
	}
	return b6.NewStringExpression(r.Pick(values))
}

func (g *gen) float() float64 {
	r := g.c.Rand
	switch r.Intn(4) {
	case 0:
		return []float64{0, 1, -1, 0.5, 0.125, 0.1, 1e-7, 123456.789, -0.001, 1e21, 1e-10, 2.5e15, math.MaxFloat64, math.SmallestNonzeroFloat64, math.Copysign(0, -1), 100}[r.Intn(16)]
	case 1:
		f := math.Float64frombits(r.Uint64())
		if math.IsNaN(f) || math.IsInf(f, 0) {
			return 1.5
		}
		return f
	default:
		return float64(int64(r.Uint64Edge()>>uint(20+r.Intn(40)))) / []float64{1, 10, 100, 1000, 1e7}[r.Intn(5)]
	}
}

func (g *gen) id() b6.FeatureID {
	r := g.c.Rand
	ts := []b6.FeatureType{b6.FeatureTypePoint, b6.FeatureTypePath, b6.FeatureTypeArea, b6.FeatureTypeRelation, b6.FeatureTypeCollection, b6.FeatureTypeExpression}
	ns := r.Pick(nss)
	if r.Chance(1, 5) {
		g.c.Note("class:id-unicode-namespace")
		ns = r.Pick(unicodeNss)
	}
	if g.odd && r.Chance(1, 5) {
		g.c.Note("class:id-not-lexable")
		ns = r.Pick(badNss)
		if r.Bool() {
			ns = r.Pick(unicodeBadNss)
		}
	}
	id := b6.FeatureID{Type: ts[r.Intn(6)], Namespace: b6.Namespace(ns), Value: r.Uint64Edge()}
	switch r.Intn(8) {
	case 0:
		return b6.PointIDFromGBPostcode("EC1A 1BB")
	case 1:
		return b6.FeatureIDFromUKONSCode("E01000953", 2011, b6.FeatureTypeArea)
	case 2:
		return b6.FeatureID{Type: b6.FeatureTypePoint, Namespace: b6.NamespaceGBCodePoint, Value: r.Uint64Edge()}
	}
	return id
}

func (g *gen) query(depth int) b6.Query {
	r := g.c.Rand
	k := r.Intn(6)
	if depth <= 0 && k >= 3 {
		k = r.Intn(3)
	}
	switch k {
	case 0:
		return b6.Keyed{Key: g.key()}
	case 1, 2:
		return b6.Tagged{Key: g.key(), Value: g.value()}
	default:
		n := 1 + r.Intn(3)
		if r.Chance(1, 6) {
			n = 1
		}
		if g.odd && r.Chance(1, 8) {
			g.c.Note("class:empty-and-or")
			n = 0
		}
		qs := make([]b6.Query, n)
		for i := range qs {
			qs[i] = g.query(depth - 1)
		}
		if k%2 == 0 {
			return b6.Intersection(qs)
		}
		return b6.Union(qs)
	}
}

func (g *gen) literal() b6.Expression {
	r := g.c.Rand
	k := r.Intn(8)
	g.c.Note(fmt.Sprintf("literal-kind:%d", k))
	switch k {
	case 0:
		return b6.NewStringExpression(g.str())
	case 1:
		if r.Chance(1, 3) {
			return b6.NewIntExpression([]int{0, -1, 1, math.MaxInt64, math.MinInt64, 42, -100}[r.Intn(7)])
		}
		return b6.NewIntExpression(int(int64(r.Uint64Edge())))
	case 2:
		return b6.NewFloatExpression(g.float())
	case 3:
		lat := float64(int32(r.Intn(1780000000))-890000000) / 1e7
		lng := float64(int32(r.Intn(3580000000))-1790000000) / 1e7
		if r.Chance(1, 5) {
			lat, lng = []float64{0, 51.5, -33.25, 90, -90}[r.Intn(5)], []float64{0, -0.125, 151.5, 180, -180}[r.Intn(5)]
		}
		return b6.NewPointExpressionFromLatLng(s2.LatLngFromDegrees(lat, lng))
	case 4:
		return b6.NewFeatureIDExpression(g.id())
	case 5:
		return b6.Expression{AnyExpression: b6.TagExpression(b6.Tag{Key: g.key(), Value: g.value()})}
	default:
		return b6.NewQueryExpression(g.query(2))
	}
}

// arg: an expression for an argument position
func (g *gen) arg(depth int) b6.Expression {
	r := g.c.Rand
	k := r.Intn(10)
	if depth <= 0 && k >= 6 {
		k = r.Intn(6)
	}
	switch {
	case k < 2:
		return b6.NewSymbolExpression(g.sym())
	case k < 6:
		return g.literal()
	case k < 8:
		return g.call(depth - 1)
	case k < 9:
		return g.pipe(depth - 1)
	default:
		return g.lambda(depth - 1)
	}
}

func (g *gen) call(depth int) b6.Expression {
	r := g.c.Rand
	f := b6.NewSymbolExpression(g.sym())
	if g.odd && r.Chance(1, 8) {
		g.c.Note("class:call-head-not-symbol")
		f = g.arg(depth - 1)
	}
	args := []b6.Expression{}
	for i := 0; i < r.Intn(4); i++ {
		args = append(args, g.arg(depth-1))
	}
	return b6.NewCallExpression(f, args)
}

// pipe: a pipelined call, in the shapes the parser builds and in the flat shape clients send
func (g *gen) pipe(depth int) b6.Expression {
	r := g.c.Rand
	left := g.member(depth - 1)
	if r.Bool() {
		// parser shape: the function is the right-hand member
		return b6.Expression{AnyExpression: b6.CallExpression{Function: g.member(depth - 1), Args: []b6.Expression{left}, Pipelined: true}}
	}
	f := b6.NewSymbolExpression(g.sym())
	if g.odd && r.Chance(1, 6) {
		g.c.Note("class:pipelined-head-not-symbol")
		f = g.literal()
	}
	args := []b6.Expression{left}
	for i := 0; i < r.Intn(3); i++ {
		args = append(args, g.arg(depth-1))
	}
	if g.odd && r.Chance(1, 10) {
		g.c.Note("class:pipelined-no-args")
		args = nil
	}
	return b6.Expression{AnyExpression: b6.CallExpression{Function: f, Args: args, Pipelined: true}}
}

// member: something that can stand in a pipeline
func (g *gen) member(depth int) b6.Expression {
	r := g.c.Rand
	k := r.Intn(8)
	if depth <= 0 && k >= 5 {
		k = r.Intn(5)
	}
	switch {
	case k < 1:
		return b6.NewSymbolExpression(g.sym())
	case k < 3:
		return g.literal()
	case k < 5:
		return g.call(depth)
	case k < 7:
		return g.pipe(depth)
	default:
		return g.lambda(depth)
	}
}

func (g *gen) lambda(depth int) b6.Expression {
	r := g.c.Rand
	ps := []string{}
	for i := 0; i < r.Intn(3); i++ {
		ps = append(ps, r.Pick([]string{"x", "y", "u", "acc", "f-1"}))
	}
	if g.odd && r.Chance(1, 8) {
		g.c.Note("class:lambda-param-not-symbol")
		ps = append(ps, r.Pick([]string{"1x", "a b", "", "\u00e9", "x\u00e9"}))
	}
	return b6.NewLambdaExpression(ps, g.member(depth-1))
}

// ---------------------------------------------------------------------------------------------

func opUp(c *hx.Ctx, e b6.Expression) string {
	k, ok := kOf(e, false)
	if !ok {
		c.Note("up:unprintable-input")
		return ""
	}
	text, ok, panicked := "", false, false
	if probe, pok := func() (t string, k bool) {
		defer func() { recover() }()
		return api.UnparseExpression(e)
	}(); pok && hasCollectionBrace(probe) {
		// "{1x -> …}" and the like read as the start of a collection literal, which the model does not cover
		c.Note("up:collection-brace")
		return ""
	}
	func() {
		defer func() {
			if r := recover(); r != nil {
				panicked = true
			}
		}()
		text, ok = api.UnparseExpression(e)
	}()
	switch {
	case panicked:
		c.Op("up "+k, "panic | -")
		return ""
	case !ok:
		c.Op("up "+k, "fail | -")
		return ""
	}
	c.Op("up "+k, xs(text)+" | "+parse(text))
	return text
}

func opWs(c *hx.Ctx, text string) {
	for i := 0; i < len(text); i++ {
		if text[i] >= 0x80 {
			// non-ASCII only occurs inside string literals in generated texts; keep it there
			break
		}
	}
	c.Op("ws "+xs(text), parse(text))
}

// hasCollectionBrace reports a '{' that is not followed by a lambda head (the model answers "unsupported" there)
func hasCollectionBrace(text string) bool {
	inString := false
	for i := 0; i < len(text); i++ {
		if text[i] == '"' {
			inString = !inString
		}
		if text[i] == '{' && !inString {
			j := i + 1
			for j < len(text) && (text[j] == ' ' || text[j] == '\t' || text[j] == '\n') {
				j++
			}
			if j >= len(text) {
				return false
			}
			ch := text[j]
			isLetter := (ch >= 'a' && ch <= 'z') || (ch >= 'A' && ch <= 'Z')
			if !(isLetter || ch == '-' || ch == '}' || ch == ')' || ch == ']' || ch == '|' || ch == ',' || ch == '&' || ch == '=' || ch == '{' || ch == '[') {
				return true
			}
			if isLetter {
				// SYMBOL '=' starts a collection of tags
				k := j
				for k < len(text) && ((text[k] >= 'a' && text[k] <= 'z') || (text[k] >= 'A' && text[k] <= 'Z') || (text[k] >= '0' && text[k] <= '9') || text[k] == '-' || text[k] == ':' || text[k] == '_') {
					k++
				}
				for k < len(text) && (text[k] == ' ' || text[k] == '\t' || text[k] == '\n') {
					k++
				}
				if k < len(text) && text[k] == '=' {
					return true
				}
			}
		}
	}
	return false
}

func variants(c *hx.Ctx, text string) {
	r := c.Rand
	wsRun := func() string { return r.Pick([]string{"  ", "\t", "\n", " \n ", "   ", "\u00a0", " \u2003", "\u3000 ", "\u0085"}) }
	// more white space where there is some, and around brackets and operators (outside string literals)
	var sb strings.Builder
	inString := false
	for i := 0; i < len(text); i++ {
		ch := text[i]
		if ch == '"' {
			inString = !inString
		}
		if !inString {
			switch {
			case ch == ' ' && r.Chance(1, 2):
				sb.WriteString(wsRun())
				continue
			case strings.IndexByte("()[]{}|&=,", ch) >= 0:
				if r.Chance(1, 3) {
					sb.WriteString(wsRun())
				}
				sb.WriteByte(ch)
				if r.Chance(1, 3) && !(ch == '-') {
					sb.WriteString(wsRun())
				}
				continue
			}
		}
		sb.WriteByte(ch)
	}
	spaced := r.Pick([]string{"", " ", "\n"}) + sb.String() + r.Pick([]string{"", " ", "\t\n"})
	c.Note("ws:spaced")
	opWs(c, spaced)
	// damage
	damaged := text
	switch r.Intn(6) {
	case 0:
		damaged = text + r.Pick([]string{")", "]", "}", " |", " zz", " 7", " =", " ->", ",", " >", " :"})
	case 1:
		damaged = r.Pick([]string{"(", "[", "| ", "= ", "-> ", "zz ", "7 "}) + text
	case 2:
		if i := strings.LastIndexAny(text, ")]}"); i >= 0 {
			damaged = text[:i] + text[i+1:]
		}
	case 3:
		if i := strings.IndexAny(text, "([{"); i >= 0 {
			damaged = text[:i] + text[i+1:]
		}
	case 4:
		damaged = strings.Replace(text, " | ", " ", 1)
	default:
		damaged = strings.Replace(text, " ", " , ", 1)
	}
	if !hasCollectionBrace(damaged) {
		c.Note("ws:damaged")
		opWs(c, damaged)
	}
}

func corpus(c *hx.Ctx) {
	// the repo's own unparse test inputs, shapes behind the fixes/C20-*.patch, and the latlng-span finding
	// ("find (intersecting 19.4008, -99.1663)": the point and the calls ending in it have End = 0)
	for _, t := range []string{"42", "/w/140633010", "[#amenity=cafe]", "[#amenity=cafe | #amenity=restaurant]", "area (find-feature /a/427900370)",
		"find-feature /a/427900370 | area", "find [#place=uprn] | filter {u -> gt (all-tags u | count) 1}",
		"add-collection /collection/test/0 (collection) (find [#boundary=ward])", "find (intersecting 19.4008, -99.1663)",
		"find [#building=yes & [#shop=supermarket | #shop=convenience]]", "a | (b | c)", "{-> 5}", "f {x, y -> x | g y}", "x", "f",
		"#ref=\"1st\"", "#name=\"\"", "0.125", "-1.5 | f", "51.5, -0.125", "f 1.0, 2.0 3.0", "f \"a b\" \"\"", "find /point/caf\u00e9.org/x/7 | f", "f /area/\u6771\u4eac/\u99c5/1 \U0001d400", "/point/e\u0301/1", "f\u00a0x", "5\u0663", "5\u00a0x", "\u00e9", "", "(", "f )", "\"open", "f +", "{a}", "1-2", "f 1.2.3", "/nope/x", "a > b", "f a=b c"} {
		opWs(c, t)
	}
	for _, e := range []b6.Expression{
		b6.NewFloatExpression(0.125), b6.NewFloatExpression(1e-7),
		b6.NewPointExpressionFromLatLng(s2.LatLngFromDegrees(51.5000001, -0.1000001)),
		{AnyExpression: b6.TagExpression(b6.Tag{Key: "#ref", Value: b6.NewStringExpression("1st")})},
		{AnyExpression: b6.TagExpression(b6.Tag{Key: "#name", Value: b6.NewStringExpression("")})},
		b6.NewQueryExpression(b6.Intersection{b6.Union{b6.Keyed{Key: "#a"}, b6.Keyed{Key: "#b"}}, b6.Keyed{Key: "#c"}}),
		b6.NewQueryExpression(b6.Intersection{b6.Keyed{Key: "#a"}, b6.Keyed{Key: "#b"}, b6.Keyed{Key: "#c"}}),
		{AnyExpression: b6.CallExpression{Function: b6.Expression{AnyExpression: b6.CallExpression{Function: b6.NewSymbolExpression("c"), Args: []b6.Expression{b6.NewSymbolExpression("b")}, Pipelined: true}},
			Args: []b6.Expression{b6.NewSymbolExpression("a")}, Pipelined: true}},
		{AnyExpression: b6.CallExpression{Function: b6.NewSymbolExpression("f"), Args: []b6.Expression{b6.NewSymbolExpression("a"), b6.NewIntExpression(1)}, Pipelined: true}},
		// finding string-needs-escape
		b6.NewStringExpression("a\"b"), b6.NewStringExpression("back\\slash"),
		b6.NewCallExpression(b6.NewSymbolExpression("f"), []b6.Expression{b6.NewStringExpression("line\nbreak")}),
	} {
		opUp(c, e)
	}
	c.NonTrivial()
}

func main() {
	hx.Main(hx.Family{
		Name: "c20",
		Rule: "per case one random expression (depth <= 5: symbols, symbol-headed calls, pipelines in the parser's and in the client's flat shape, lambdas, strings, ints, finite floats, lat/lngs at E7, feature IDs incl. aliases, tags, and/or tag queries of depth <= 2); every fourth case also draws from outside the printable subset (strings needing escapes, non-symbol keys / lambda parameters / call heads, non-string tag values, IDs the lexer cannot read, empty and/or, pipelined call without arguments); printed with UnparseExpression, the text parsed with ParseExpression, then a white-space variant and a damaged variant parsed too; non-trivial = the printed text has >= 6 tokens and contains a pipeline, a lambda or a query",
		Quick:    2500,
		Thorough: 100000,
		Corpus:   corpus,
		Case: func(c *hx.Ctx) {
			g := &gen{c: c, odd: c.Rand.Chance(1, 4)}
			if g.odd {
				c.Note("case:with-unprintable-shapes")
			} else {
				c.Note("case:printable")
			}
			e := g.member(2 + c.Rand.Intn(4))
			text := opUp(c, e)
			if text == "" {
				return
			}
			variants(c, text)
			if len(strings.Fields(text)) >= 6 && (strings.Contains(text, " | ") || strings.Contains(text, "->") || strings.Contains(text, "[")) {
				c.NonTrivial()
			}
		},
	})
}
