// C08 harness: posting lists built by the real compact.PostingList.Fill / Marshal and read back by the
// real compact.Iterator (Next / Advance), byte for byte and call for call.
//
// One case = one namespace table (FillFromNamespaces on a shuffled name list), one ID list, the
// marshalled bytes, and several iterators each driven by a call sequence:
//
//	table [names]            => [FromEncoded]                 ("" is written _)
//	fill <tokenhex> [t:ns:v …] => <hex of PostingList.Marshal> | panic    (nt.EncodeID panics on a name outside the table;
//	                              token = 0/1/12/127/128/129/255/256/16383/16384 random bytes, `-` when empty)
//	iter                     => ok | panic | hang             (compact.NewIterator on the marshalled buffer)
//	next                     => true t:ns:v | false | panic | hang
//	adv t:ns:v               => true t:ns:v | false | panic
//
// ID lists: groups (type, namespace) in table order; inside a group the values are produced by delta
// shapes that force every varint width (1..10 bytes) at every block offset (0..63), groups that end
// exactly at / one byte before / one byte after a 64-byte block end, values up to 2^64-1, lengths
// 0..5000.  Advance targets: present ids, value±1, namespace boundaries (value 0 / 2^64-1), namespaces
// that are in the table but not in the list, types without ids, targets behind the cursor, and (rarely)
// namespaces outside the table (panic on both sides).  A small share of lists is unsorted / has
// duplicates / uses point:"" (TypeAndNamespace 0): outside the property's domain, compared with the
// model only.
package main

import (
	"fmt"
	"sort"
	"strings"
	"time"

	"diagonal.works/b6"
	"diagonal.works/b6/ingest/compact"
	"verifharness/hx"
)

var pool = []string{"a", "b", "c", "d", "e", "openstreetmap.org/node", "openstreetmap.org/way",
	"openstreetmap.org/relation", "diagonal.works/ns/x", "z"}

func nsName(ns b6.Namespace) string {
	if ns == "" {
		return "_"
	}
	return string(ns)
}

func render(id b6.FeatureID) string {
	return fmt.Sprintf("%d:%s:%d", int(id.Type), nsName(id.Namespace), id.Value)
}

type sliceIter struct {
	ids []compact.FeatureID
	i   int
}

func (s *sliceIter) Next() bool                   { s.i++; return s.i <= len(s.ids) }
func (s *sliceIter) FeatureID() compact.FeatureID { return s.ids[s.i-1] }

// ---- one case --------------------------------------------------------------------------------

type pcase struct {
	c        *hx.Ctx
	nt       compact.NamespaceTable
	names    []b6.Namespace // FromEncoded (sorted)
	ids      []b6.FeatureID
	buf      []byte
	it       *compact.Iterator
	pos      int // index in ids of the last id the iterator reported (-1 = not started)
	dead     bool
	panicked bool // after a panic the iterator is abandoned (a panicking Advance may already have called Next)
	advs     int
}

func (p *pcase) table(in []b6.Namespace) {
	p.nt.FillFromNamespaces(in)
	p.names = p.nt.FromEncoded
	xs := make([]string, len(in))
	for i, n := range in {
		xs[i] = nsName(n)
	}
	out := make([]string, len(p.names))
	for i, n := range p.names {
		out[i] = nsName(n)
	}
	p.c.Op("table "+hx.List(xs), hx.List(out))
}

func (p *pcase) fill(token string) bool {
	xs := make([]string, len(p.ids))
	for i, id := range p.ids {
		xs[i] = render(id)
	}
	ans := hx.Recover(func() string {
		enc := make([]compact.FeatureID, len(p.ids))
		for i, id := range p.ids {
			enc[i] = p.nt.EncodeID(id)
		}
		var pl compact.PostingList
		pl.Fill(token, &sliceIter{ids: enc})
		buf := make([]byte, compact.PostingListHeaderMaxLength+len(token)+16*len(p.nt.FromEncoded)*8+len(pl.IDs))
		n := pl.Marshal(buf)
		p.buf = buf[0:n]
		return hx.Hex(p.buf)
	})
	p.c.Op("fill "+hx.Hex([]byte(token))+" "+hx.List(xs), ans)
	return ans != "panic"
}

func (p *pcase) iter() {
	p.pos = -1
	p.dead = false
	p.panicked = false
	ans := guarded(func() string {
		p.it = compact.NewIterator(p.buf, &p.nt)
		return "ok"
	})
	p.c.Op("iter", ans)
	if ans != "ok" {
		p.dead, p.panicked = true, true
	}
}

// guarded runs one call on the real iterator: a Go panic is the answer "panic"; a call that does not return
// within 3 s (an iterator fed a mis-parsed buffer can move backwards for ever) is the answer "hang" and the
// iterator is abandoned (the goroutine is left behind).
func guarded(f func() string) string {
	done := make(chan string, 1)
	go func() { done <- hx.Recover(f) }()
	select {
	case ans := <-done:
		return ans
	case <-time.After(3 * time.Second):
		return "hang"
	}
}

func (p *pcase) track(ans string) {
	if !strings.HasPrefix(ans, "true ") {
		p.dead = true
		p.panicked = p.panicked || ans == "panic" || ans == "hang"
		return
	}
	s := ans[5:]
	for j := 0; j < len(p.ids); j++ {
		k := j
		if p.pos >= 0 {
			k = (p.pos + j) % len(p.ids)
		}
		if render(p.ids[k]) == s {
			p.pos = k
			return
		}
	}
}

func (p *pcase) next() string {
	ans := guarded(func() string {
		if p.it.Next() {
			return "true " + render(p.it.FeatureID())
		}
		return "false"
	})
	p.c.Op("next", ans)
	p.track(ans)
	return ans
}

func (p *pcase) adv(id b6.FeatureID) string {
	ans := guarded(func() string {
		if p.it.Advance(id) {
			return "true " + render(p.it.FeatureID())
		}
		return "false"
	})
	p.c.Op("adv "+render(id), ans)
	p.track(ans)
	p.advs++
	return ans
}

// ---- generators ------------------------------------------------------------------------------

// deltaOfWidth returns a value whose uvarint encoding is exactly w bytes long (w in 1..10).
func deltaOfWidth(r *hx.Rand, w int) uint64 {
	if w <= 1 {
		return 1 + r.Uint64()%127
	}
	if w >= 10 {
		return 1<<63 + r.Uint64()%(1<<63)
	}
	lo := uint64(1) << (7 * uint(w-1))
	hi := uint64(1)<<(7*uint(w)) - 1
	switch r.Intn(4) {
	case 0:
		return lo
	case 1:
		return hi
	}
	return lo + r.Uint64()%(hi-lo+1)
}

// values produces a strictly increasing run of at most n values for one (type, namespace) group.
func values(c *hx.Ctx, n int) []uint64 {
	r := c.Rand
	var out []uint64
	add := func(v uint64) bool {
		if len(out) > 0 && v <= out[len(out)-1] {
			return false
		}
		out = append(out, v)
		return true
	}
	step := func(d uint64) bool {
		if len(out) == 0 {
			return add(d)
		}
		last := out[len(out)-1]
		if d == 0 || last+d < last { // overflow: the group ends here
			return false
		}
		return add(last + d)
	}
	if n == 0 {
		return nil
	}
	shape := r.Intn(10)
	switch {
	case shape <= 2: // every width at every block offset: first value 1 byte, o-1 one-byte deltas, then width w
		o, w := r.Intn(64), 1+r.Intn(10)
		c.Note(fmt.Sprintf("shape:offset-width w=%d", w))
		c.Note(fmt.Sprintf("offset:%d", o/8*8))
		add(r.Uint64() % 128)
		for i := 1; i < o; i++ {
			step(1 + r.Uint64()%3)
		}
		step(deltaOfWidth(r, w))
		for len(out) < n && step(deltaOfWidth(r, 1+r.Intn(3))) {
		}
	case shape <= 4: // group whose bytes end exactly at / just before / just after a block end
		k := 62 + r.Intn(5) + 64*r.Intn(3)
		c.Note("shape:block-end")
		add(r.Uint64() % 128)
		for i := 1; i < k; i++ {
			step(1 + r.Uint64()%2)
		}
		if r.Bool() {
			step(deltaOfWidth(r, 1+r.Intn(10)))
		}
	case shape == 5: // values at the top of the uint64 range
		c.Note("shape:top")
		k := 1 + r.Intn(minInt(n, 80))
		v := ^uint64(0) - uint64(k) - r.Uint64()%1000
		if r.Bool() {
			v = ^uint64(0) - uint64(k) + 1
		}
		add(v)
		for i := 1; i < k; i++ {
			step(1)
		}
		if r.Bool() {
			add(^uint64(0))
		}
	case shape == 6: // edge first value, then mixed
		c.Note("shape:edge-first")
		add(r.Uint64Edge())
		for len(out) < n && step(deltaOfWidth(r, 1+r.Intn(4))) {
		}
	default: // random widths, small ones most likely
		c.Note("shape:random")
		maxw := []int{1, 2, 2, 3, 3, 5, 10}[r.Intn(7)]
		add(deltaOfWidth(r, 1+r.Intn(maxw)) - 1)
		for len(out) < n {
			w := 1 + r.Intn(maxw)
			if r.Chance(1, 20) {
				w = 1 + r.Intn(10)
			}
			if !step(deltaOfWidth(r, w)) {
				break
			}
		}
	}
	return out
}

func minInt(a, b int) int {
	if a < b {
		return a
	}
	return b
}

func totalLen(c *hx.Ctx) int {
	r := c.Rand
	big := 60
	if c.Thorough() {
		big = 25
	}
	switch {
	case r.Chance(1, 30):
		return 0
	case r.Chance(1, big):
		return 1500 + r.Intn(3501)
	case r.Chance(1, 15):
		return 400 + r.Intn(1100)
	case r.Chance(1, 3):
		return 60 + r.Intn(340)
	case r.Chance(1, 2):
		return 6 + r.Intn(54)
	}
	return 1 + r.Intn(5)
}

func lenBucket(n int) string {
	switch {
	case n == 0:
		return "len:0"
	case n <= 5:
		return "len:1-5"
	case n <= 60:
		return "len:6-60"
	case n <= 400:
		return "len:61-400"
	case n <= 1500:
		return "len:401-1500"
	}
	return "len:1501-5000"
}

type group struct {
	t  b6.FeatureType
	ns b6.Namespace
}

// target picks an Advance target.
func (p *pcase) target() b6.FeatureID {
	r, c := p.c.Rand, p.c
	if len(p.ids) == 0 || r.Chance(1, 12) { // anything: absent types, absent namespaces of the table, edge values
		c.Note("target:anywhere")
		return b6.FeatureID{Type: b6.FeatureType(r.Intn(4)), Namespace: p.names[r.Intn(len(p.names))], Value: r.Uint64Edge()}
	}
	if r.Chance(1, 150) {
		c.Note("target:outside-table")
		return b6.FeatureID{Type: b6.FeatureType(r.Intn(4)), Namespace: "nowhere", Value: r.Uint64Edge()}
	}
	// an id of the list, mostly ahead of the cursor and near it
	j := r.Intn(len(p.ids))
	if r.Chance(4, 5) {
		span := []int{2, 8, 40, 200, len(p.ids)}[r.Intn(5)]
		j = p.pos + r.Intn(span+1)
		if r.Chance(1, 10) {
			j = p.pos - r.Intn(5)
			c.Note("target:behind")
		}
		if j < 0 {
			j = 0
		}
		if j >= len(p.ids) {
			j = len(p.ids) - 1
		}
	}
	id := p.ids[j]
	switch r.Intn(12) {
	case 0, 1, 2, 3:
		c.Note("target:present")
	case 4, 5:
		c.Note("target:value+1")
		id.Value++ // wraps to 0 at 2^64-1 on purpose
	case 6, 7:
		c.Note("target:value-1")
		id.Value--
	case 8:
		c.Note("target:ns-begin")
		id.Value = 0
	case 9:
		c.Note("target:ns-end")
		id.Value = ^uint64(0)
	default: // another namespace of the table with the same type: present or absent in the list
		k := r.Intn(len(p.names))
		id.Namespace = p.names[k]
		if r.Bool() {
			id.Value = r.Uint64Edge()
		}
		present := false
		for _, x := range p.ids {
			if x.Type == id.Type && x.Namespace == id.Namespace {
				present = true
				break
			}
		}
		if present {
			c.Note("target:other-namespace-present")
		} else {
			c.Note("target:namespace-absent-from-list")
		}
	}
	return id
}

// walk drives one iterator with a mixed call sequence; budget = number of calls.
func (p *pcase) walk(budget int) {
	r := p.c.Rand
	p.iter()
	advWeight := []int{0, 3, 6, 9, 10}[r.Intn(5)] // share of Advance calls out of 10
	for n := 0; n < budget && !p.dead; n++ {
		if r.Intn(10) < advWeight {
			ans := p.adv(p.target())
			if strings.HasPrefix(ans, "true") && r.Chance(1, 2) && n+1 < budget {
				p.next() // the call that exposes a cursor left on the value
				n++
			}
		} else {
			p.next()
		}
	}
	if p.dead && !p.panicked && r.Chance(1, 4) && p.it != nil { // calls after the first false: compared with the model only
		p.c.Note("after-false")
		func() {
			defer func() { recover() }()
			p.dead = false
			p.next()
			if len(p.ids) > 0 {
				p.dead = false
				p.adv(p.ids[r.Intn(len(p.ids))])
			}
		}()
	}
}

func (p *pcase) drain() {
	p.iter()
	for n := 0; !p.dead && n < len(p.ids)+3; n++ { // bounded: a broken iterator may never answer false
		p.next()
	}
}

func genCase(c *hx.Ctx) {
	r := c.Rand
	p := &pcase{c: c}
	// --- table
	k := 1 + r.Intn(6)
	perm := r.Perm(len(pool))
	var in []b6.Namespace
	for i := 0; i < k; i++ {
		in = append(in, b6.Namespace(pool[perm[i]]))
	}
	odd := ""
	if r.Chance(1, 60) { // duplicate name / "" in the input: ToEncoded keeps the last index (outside the domain)
		if r.Bool() {
			in = append(in, in[r.Intn(len(in))])
			odd = "table:duplicate-name"
		} else {
			in = append(in, "")
			odd = "table:empty-name"
		}
		c.Note(odd)
	}
	p.table(in)
	// --- groups present in the list: a subset of (type, table name), in table order
	var groups []group
	ntypes := []int{1, 1, 2, 4, 4}[r.Intn(5)]
	tstart := r.Intn(4)
	for ti := 0; ti < ntypes; ti++ {
		t := b6.FeatureType((tstart + ti) % 4)
		if r.Chance(1, 40) {
			t = b6.FeatureType(4 + r.Intn(3)) // invalid / collection / expression still fit the 3 type bits
			c.Note("type>=4")
		}
		for _, n := range p.names {
			if n == "" && !r.Chance(1, 50) {
				continue
			}
			if r.Chance(1, 2) {
				groups = append(groups, group{t, n})
			}
		}
	}
	sort.SliceStable(groups, func(i, j int) bool {
		if groups[i].t != groups[j].t {
			return groups[i].t < groups[j].t
		}
		return groups[i].ns < groups[j].ns
	})
	// drop duplicates (a type drawn twice)
	var gs []group
	for i, g := range groups {
		if i == 0 || g != groups[i-1] {
			gs = append(gs, g)
		}
	}
	if len(gs) == 0 { // no group drawn: take one, so that empty lists stay at the share totalLen gives them
		n := p.names[r.Intn(len(p.names))]
		if n == "" {
			n = p.names[len(p.names)-1]
		}
		gs = append(gs, group{b6.FeatureType(r.Intn(4)), n})
	}
	total := totalLen(c)
	for gi, g := range gs {
		if total == 0 {
			break
		}
		n := total / (len(gs) - gi)
		if gi+1 < len(gs) && n > 1 {
			n = 1 + r.Intn(2*n)
		}
		if n > total {
			n = total
		}
		vs := values(c, n)
		if len(vs) > n && n > 80 {
			vs = vs[:n]
		}
		for _, v := range vs {
			p.ids = append(p.ids, b6.FeatureID{Type: g.t, Namespace: g.ns, Value: v})
		}
		total -= minInt(total, len(vs))
	}
	// --- out-of-domain lists (model comparison only)
	if len(p.ids) >= 2 && r.Chance(1, 40) {
		i, j := r.Intn(len(p.ids)), r.Intn(len(p.ids))
		if r.Bool() {
			p.ids[i], p.ids[j] = p.ids[j], p.ids[i]
			c.Note("list:swapped-pair")
		} else {
			p.ids[i] = p.ids[j]
			c.Note("list:duplicate")
		}
	}
	if len(p.ids) >= 1 && r.Chance(1, 80) {
		p.ids[r.Intn(len(p.ids))].Namespace = "nowhere"
		c.Note("list:namespace-outside-table")
	}
	c.Note(lenBucket(len(p.ids)))
	nsCount := 0
	for i := range p.ids {
		if i == 0 || p.ids[i].Type != p.ids[i-1].Type || p.ids[i].Namespace != p.ids[i-1].Namespace {
			nsCount++
		}
	}
	c.Note(fmt.Sprintf("namespaces-in-list:%d", minInt(nsCount, 6)))
	if !p.fill(genToken(c)) {
		c.Note("fill:panic")
		return
	}
	c.Note(fmt.Sprintf("blocks:%s", blockBucket(len(p.buf))))
	// --- iterators
	if len(p.ids) <= 400 || r.Chance(1, 3) {
		p.drain()
	}
	walks := 2 + r.Intn(4)
	for w := 0; w < walks; w++ {
		p.walk(4 + r.Intn(40))
	}
	if (len(p.buf) > 64 || nsCount >= 2) && p.advs > 0 {
		c.NonTrivial()
	}
}

// genToken: the token is part of the marshalled header (varint length prefix + bytes) that NewIterator has to
// get past: lengths around every width change of the prefix (127/128, 16383/16384), random bytes incl. non-ASCII.
func genToken(c *hx.Ctx) string {
	r := c.Rand
	var n int
	switch {
	case r.Chance(1, 2):
		n = []int{0, 1, 12}[r.Intn(3)]
	case r.Chance(9, 10):
		n = []int{127, 128, 129, 255, 256}[r.Intn(5)]
	default:
		n = []int{16383, 16384}[r.Intn(2)]
	}
	c.Note(fmt.Sprintf("token-len:%d", n))
	b := make([]byte, n)
	for i := range b {
		if r.Chance(1, 3) {
			b[i] = byte(r.Intn(256))
		} else {
			b[i] = byte('a' + r.Intn(26))
		}
	}
	return string(b)
}

func blockBucket(n int) string {
	b := n / 64
	switch {
	case b <= 1:
		return "<=1"
	case b <= 4:
		return "2-4"
	case b <= 32:
		return "5-32"
	}
	return ">32"
}

// ---- corpus ----------------------------------------------------------------------------------

func corpus(c *hx.Ctx) {
	// DESIGN §7: {a/1, c/5, c/9}, Advance(point/b/3) then Next returned c/5 twice
	// (fixes/C08-advance-absent-namespace.patch).
	p := &pcase{c: c}
	p.table([]b6.Namespace{"c", "a", "b"})
	p.ids = []b6.FeatureID{{Type: b6.FeatureTypePoint, Namespace: "a", Value: 1},
		{Type: b6.FeatureTypePoint, Namespace: "c", Value: 5}, {Type: b6.FeatureTypePoint, Namespace: "c", Value: 9}}
	p.fill("witness")
	p.iter()
	p.adv(b6.FeatureID{Type: b6.FeatureTypePoint, Namespace: "b", Value: 3})
	p.next()
	p.next()
	// the same after the cursor has started, and towards an absent type
	p.iter()
	p.next()
	p.adv(b6.FeatureID{Type: b6.FeatureTypePoint, Namespace: "b", Value: 0})
	p.next()
	p.iter()
	p.adv(b6.FeatureID{Type: b6.FeatureTypePoint, Namespace: "a", Value: 2})
	p.next()
	p.next()
	p.drain()
	// namespace switch exactly at a block end, varint crossing a block end, value 2^64-1
	q := &pcase{c: c}
	q.table([]b6.Namespace{"a", "b"})
	for v := uint64(1); v <= 64; v++ {
		q.ids = append(q.ids, b6.FeatureID{Type: b6.FeatureTypePath, Namespace: "a", Value: v})
	}
	for v := uint64(0); v < 63; v++ {
		q.ids = append(q.ids, b6.FeatureID{Type: b6.FeatureTypePath, Namespace: "b", Value: v})
	}
	q.ids = append(q.ids, b6.FeatureID{Type: b6.FeatureTypePath, Namespace: "b", Value: 1 << 40})
	q.ids = append(q.ids, b6.FeatureID{Type: b6.FeatureTypePath, Namespace: "b", Value: ^uint64(0)})
	q.fill("blocks" + strings.Repeat("\xc3\xa9x", 41)) // 129-byte token: two-byte length prefix (seeded change C08-5)
	q.drain()
	q.iter()
	q.adv(b6.FeatureID{Type: b6.FeatureTypePath, Namespace: "a", Value: 64})
	q.adv(b6.FeatureID{Type: b6.FeatureTypePath, Namespace: "a", Value: 65})
	q.next()
	q.adv(b6.FeatureID{Type: b6.FeatureTypePath, Namespace: "b", Value: 1<<40 + 1})
	q.next()
	q.iter()
	q.adv(b6.FeatureID{Type: b6.FeatureTypePoint, Namespace: "b", Value: 7})
	q.next()
	q.adv(b6.FeatureID{Type: b6.FeatureTypeArea, Namespace: "a", Value: 0})
	c.Note("corpus")
	c.NonTrivial()
}

func main() {
	hx.Main(hx.Family{
		Name:     "c08",
		Rule:     "one namespace table + one id list (groups in table order; delta shapes forcing every varint width at every block offset, groups ending at block ends, values up to 2^64-1, lengths 0..5000; 1 in 40 unsorted/duplicate, 1 in 80 with a namespace outside the table) filled under a token of 0/1/12/127/128/129/255/256/16383/16384 random bytes (the varint length prefix NewIterator has to get past) and marshalled by compact.PostingList, then 1 drain + 2..5 mixed Next/Advance walks on compact.Iterator (targets: present ids, value±1, namespace begin/end, namespaces absent from the list, absent types, behind the cursor, outside the table); non-trivial = more than one 64-byte block or more than one namespace, and at least one Advance",
		Quick:    2500,
		Thorough: 30000,
		Corpus:   corpus,
		Case:     genCase,
	})
}
