// C22 harness: api.Simplify on constructed trees — the returned tree and the argument tree as
// Simplify's in-place writes leave it — and api.Evaluate of the original and of the simplified
// program, in a persistent child process.
//
// ops:  simplify <expr>  =>  <returned tree> ;; <argument tree afterwards>   | panic | crash | hang
//
//	evalpair <expr>  =>  <outcome of e> ;; <outcome of Simplify(e)>
package main

import (
	"fmt"
	"strconv"
	"strings"

	"diagonal.works/b6"
	"diagonal.works/b6/api"
	"verifharness/cmd/c21/lang"
	"verifharness/hx"
)

func corpus() []*lang.Node {
	S, I, C, L, St := lang.S, lang.I, lang.C, lang.L, lang.St
	k := func(s string) *lang.Q { return &lang.Q{Op: "keyed", A: s} }
	return []*lang.Node{
		// fixed C22-eta-reduction: parameters used twice / not at all / out of order / duplicated
		L([]string{"a"}, C(S("add"), S("a"), S("a"))),
		C(L([]string{"a"}, C(S("add"), S("a"), S("a"))), I(4)),
		L([]string{"a", "b"}, C(S("first"), S("a"))),
		C(S("call2"), L([]string{"a", "b"}, C(S("first"), S("a"))), C(S("pair"), I(1), I(2)), I(3)),
		L([]string{"a", "b"}, C(S("sub"), S("b"), S("a"))),
		L([]string{"a", "a"}, C(S("sub"), S("a"), S("a"))),
		C(S("first"), C(S("pair"), L([]string{"a"}, C(S("add"), S("a"), C(S("div"), I(1), I(0)))), I(5))),
		L([]string{"a"}, C(S("pair"), S("a"))),
		L([]string{"a"}, C(S("add"), S("a"), I(1), I(2))),
		// η-reductions that are right
		L([]string{"a"}, C(S("first"), S("a"))),
		L([]string{"a", "b"}, C(S("sub"), S("a"), S("b"))),
		L([]string{"a"}, C(S("mix"), S("a"), I(2), I(3))),
		C(S("call1"), L([]string{"a"}, C(S("mix"), S("a"), I(2), I(3))), I(1)),
		L([]string{"a"}, C(S("mix"), S("a"), I(2), L([]string{"a"}, S("a")))),
		// calls without arguments
		C(S("add")), C(C(S("add"))), C(L(nil, C(S("add"), I(1), I(2)))), C(L(nil, C(S("add")))),
		L(nil, C(S("add"))),
		L([]string{"x"}, C(S("pair"), C(S("add")), C(C(S("sub"))))),
		// finding shadowed-global: a parameter named like a global function captures the rewritten symbol
		C(L([]string{"add"}, C(S("pair"), C(S("add")), I(1))), I(7)),
		C(L([]string{"first"}, C(S("pair"), L([]string{"a"}, C(S("first"), S("a"))), I(1))), I(7)),
		// the same rewrites at the root of a lambda body are discarded by simplifyLambda
		C(L([]string{"add"}, C(S("add"))), I(7)),
		C(L([]string{"first"}, L([]string{"a"}, C(S("first"), S("a")))), I(7)),
		// ({-> f}) in function position: the nullary call is replaced by its body, a lambda argument
		C(S("call1"), L([]string{"f"}, C(S("pair"), C(C(L(nil, S("f"))), I(5), I(6)), I(1))), S("sub")),
		C(C(L(nil, I(5))), I(1)),
		C(S("call1"), L([]string{"x"}, C(S("pair"), C(C(L(nil, S("x")))), I(1))), I(3)),
		// query building
		C(S("and"), C(S("keyed"), St("a")), C(S("and"), C(S("keyed"), St("b")), C(S("tagged"), St("c"), St("d")))),
		C(S("or"), lang.QL(&lang.Q{Op: "or", Qs: []*lang.Q{k("a"), &lang.Q{Op: "or", Qs: []*lang.Q{k("b"), k("c")}}}}), C(S("typed"), St("area"), lang.QL(&lang.Q{Op: "and", Qs: []*lang.Q{k("x"), &lang.Q{Op: "and", Qs: []*lang.Q{k("y")}}}}))),
		C(S("typed"), St("bogus"), C(S("keyed"), St("a"))),
		C(S("keyed"), St("a"), St("b")), C(S("tagged"), St("a")), C(S("and"), C(S("keyed"), St("a"))),
		L([]string{"a"}, C(S("keyed"), S("a"), St("k"))),
		// variadic functions: a call without arguments is complete, not the function (seeded change C22-2);
		// the η-rule does not apply to them
		C(S("collection")), C(S("pair"), C(S("collection")), I(3)), C(S("first"), C(S("pair"), C(S("collection")), I(1))),
		C(S("collection"), C(S("pair"), I(1), I(2))), C(S("call")), C(S("call"), S("zero")),
		C(S("call"), S("add"), I(1), I(2)), C(C(S("call")), S("add"), I(1), I(2)),
		L([]string{"a"}, C(S("collection"), S("a"))), L([]string{"f"}, C(S("call"), S("f"))),
		C(L([]string{"x"}, C(S("pair"), S("x"), C(S("collection")))), I(1)),
		// fixed C21-convert-interface-query
		C(S("call"), C(S("first"), C(S("pair"), lang.QL(&lang.Q{Op: "keyed", A: "a"}), I(1)))),
		// seeded C22-4: the parameter survives only in the function position of a call inside the remaining argument
		L([]string{"a"}, C(S("pair"), S("a"), L([]string{"y"}, C(C(S("add"), S("a")), S("y"))))),
		C(S("call1"), L([]string{"a"}, C(S("pair"), S("a"), L([]string{"y"}, C(L([]string{"w"}, C(S("sub"), S("a"), S("w"))), S("y"))))), I(4)),
	}
}

var etaFns = []struct {
	name  string
	arity int
}{{"zero", 0}, {"add", 2}, {"sub", 2}, {"mix", 3}, {"pair", 2}, {"first", 1}, {"call1", 2}, {"keyed", 1}, {"tagged", 2}, {"and", 2}}

// etaTemplate: a lambda whose body is one call of a global function with the parameters used in
// order, reordered, repeated, omitted, mixed with literals, lambdas or calls; optionally under an
// enclosing lambda whose parameter shadows a parameter or a global.
func etaTemplate(r *hx.Rand) (*lang.Node, map[string]bool) {
	feat := map[string]bool{"eta-template": true, "lambda": true}
	f := etaFns[r.Intn(len(etaFns))]
	k := 1 + r.Intn(3)
	ps := make([]string, k)
	pool := []string{"a", "b", "c", "d"}
	perm := r.Perm(len(pool))
	for i := range ps {
		ps[i] = pool[perm[i]]
	}
	if r.Chance(1, 12) && k >= 2 {
		ps[1] = ps[0]
		feat["dup-param"] = true
	}
	if r.Chance(1, 10) {
		ps[r.Intn(k)] = f.name
		feat["shadow-global"] = true
	}
	m := f.arity
	switch r.Intn(6) {
	case 0:
		m = f.arity - 1
	case 1:
		m = f.arity + 1
	}
	if m < 0 {
		m = 0
	}
	args := make([]*lang.Node, m)
	inOrder := r.Chance(3, 5)
	for i := range args {
		switch {
		case inOrder && i < k:
			args[i] = lang.S(ps[i])
		case r.Chance(1, 3):
			args[i] = lang.S(ps[r.Intn(k)])
			feat["param-elsewhere"] = true
		case r.Chance(1, 4):
			args[i] = lang.C(lang.S("add"), lang.I(r.Intn(5)), lang.I(r.Intn(5)))
			feat["call-arg"] = true
		case r.Chance(1, 5):
			args[i] = lang.L([]string{"z"}, lang.S(r.Pick([]string{"z", ps[0]})))
		case r.Chance(1, 4):
			// a parameter that occurs only inside the FUNCTION position of a call (a partial application, a
			// lambda literal or a call of those, nested 1..3 deep), under a lambda so that the argument is not
			// itself a call: mentionsSymbol has to look into call.Function
			args[i] = lang.L([]string{"z"}, lang.C(hideInFn(r, ps[r.Intn(k)], 1+r.Intn(3)), lang.S("z")))
			feat["param-in-function-position"] = true
		case r.Chance(1, 5):
			args[i] = lang.St(r.Pick([]string{"k", "v"}))
		default:
			args[i] = lang.I(r.Intn(9))
		}
	}
	if inOrder && m >= k {
		feat["eta-shape"] = true
	}
	var n *lang.Node = lang.L(ps, lang.C(lang.S(f.name), args...))
	lits := func(cnt int) []*lang.Node {
		out := make([]*lang.Node, cnt)
		for i := range out {
			if f.name == "first" || (f.name == "call1" && i == 0) {
				out[i] = lang.C(lang.S("pair"), lang.I(r.Intn(9)), lang.I(r.Intn(9)))
				if f.name == "call1" {
					out[i] = lang.S("first")
				}
			} else if f.name == "keyed" || f.name == "tagged" {
				out[i] = lang.St(r.Pick([]string{"k", "v", "w"}))
			} else {
				out[i] = lang.I(r.Intn(9))
			}
		}
		return out
	}
	switch r.Intn(6) {
	case 0: // bare: the result is a function
	case 1:
		n = lang.C(n, lits(k)...)
	case 2:
		if k <= 2 {
			n = lang.C(lang.S(fmt.Sprintf("call%d", k)), append([]*lang.Node{n}, lits(k)...)...)
		}
	case 3:
		n = lang.C(lang.S("pair"), n, lang.I(1))
	case 4: // under a lambda that shadows one of the names involved
		outer := r.Pick([]string{ps[0], f.name, "q"})
		if outer == f.name {
			feat["shadow-global"] = true
		}
		n = lang.C(lang.L([]string{outer}, lang.C(n, lits(k)...)), lang.I(r.Intn(9)))
		feat["nested-lambda"] = true
	case 5:
		n = lang.C(lang.L(nil, n))
	}
	return n, feat
}

// hideInFn builds an expression that mentions p only below function positions: (op p) — a partial
// application —, {w -> op p w}, or a call whose function is such an expression, depth levels deep.
func hideInFn(r *hx.Rand, p string, depth int) *lang.Node {
	op := r.Pick([]string{"add", "sub", "pair"})
	if depth <= 1 {
		if r.Bool() {
			return lang.C(lang.S(op), lang.S(p))
		}
		return lang.L([]string{"w"}, lang.C(lang.S(op), lang.S(p), lang.S("w")))
	}
	// ((… p …) k): a call in function position whose own function hides p
	inner := hideInFn(r, p, depth-1)
	switch r.Intn(3) {
	case 0:
		return lang.C(lang.S("call1"), inner) // (call1 F): partial, applied to z by the caller
	case 1:
		return lang.L([]string{"v"}, lang.C(inner, lang.S("v")))
	default:
		return lang.C(lang.L([]string{"u"}, inner), lang.I(r.Intn(5))) // ({u -> F} 3)
	}
}

// noargTemplate: calls without arguments, `(f)`, `((f))`, `({-> e})`, as arguments of calls inside
// lambdas whose parameter may be named like the function.
func noargTemplate(r *hx.Rand) (*lang.Node, map[string]bool) {
	feat := map[string]bool{"noarg-template": true, "lambda": true}
	f := etaFns[r.Intn(len(etaFns))].name
	var inner *lang.Node
	switch r.Intn(4) {
	case 0:
		inner = lang.C(lang.S(f))
	case 1:
		inner = lang.C(lang.C(lang.S(f)))
	case 2:
		inner = lang.C(lang.L(nil, lang.C(lang.S(f))))
	default:
		inner = lang.C(lang.L(nil, lang.C(lang.S("add"), lang.I(r.Intn(5)), lang.C(lang.L(nil, lang.I(r.Intn(5)))))))
	}
	body := lang.C(lang.S("pair"), inner, lang.I(r.Intn(9)))
	if r.Chance(1, 5) { // a nullary lambda whose body is a parameter, called: ((-> g)) 5 6
		feat["nullary-in-function-position"] = true
		g := r.Pick([]string{"g", "sub", "h"})
		if g == "sub" {
			feat["shadow-global"] = true
		}
		app := lang.C(lang.C(lang.L(nil, lang.S(g))), lang.I(r.Intn(9)), lang.I(r.Intn(9)))
		return lang.C(lang.S("call1"), lang.L([]string{g}, lang.C(lang.S("pair"), app, lang.I(1))), lang.S(r.Pick([]string{"sub", "add", "div"}))), feat
	}
	p := r.Pick([]string{f, "x", "x"})
	if p == f {
		feat["shadow-global"] = true
	}
	switch r.Intn(3) {
	case 0:
		return body, feat
	case 1:
		return lang.C(lang.L([]string{p}, body), lang.I(r.Intn(9))), feat
	default:
		return lang.C(lang.S("call1"), lang.L([]string{p}, body), lang.I(r.Intn(9))), feat
	}
}

func generate(r *hx.Rand) (*lang.Node, map[string]bool, string) {
	if r.Chance(1, 12) { // (f) for every function of the table, variadic or not, at the root / as an argument
		fns := lang.AllBuiltins
		if r.Chance(1, 3) {
			fns = lang.VariadicBuiltins
		}
		n, feat := lang.NoargProgram(r, fns)
		return n, feat, ""
	}
	switch r.Intn(10) {
	case 0, 1, 2:
		n, feat := etaTemplate(r)
		return n, feat, ""
	case 3:
		n, feat := noargTemplate(r)
		return n, feat, ""
	}
	g := &lang.Gen{R: r, Budget: 4 + r.Intn(22), Queries: true, Variadic: r.Chance(1, 3)}
	p := g.Program()
	mut := ""
	if r.Chance(1, 6) {
		mut = lang.Mutate(r, &p)
	}
	return p, g.Feat, mut
}

func program(req string) (*lang.Node, map[string]bool, string) {
	f := strings.Fields(req)
	switch f[0] {
	case "corpus":
		i, _ := strconv.Atoi(f[1])
		return corpus()[i], map[string]bool{"lambda": true}, ""
	case "gen":
		seed, _ := strconv.ParseUint(f[1], 10, 64)
		return generate(hx.NewRand(seed))
	}
	return nil, nil, ""
}

func simplifyBoth(p *lang.Node) (ans string, simplified b6.Expression, ok bool) {
	defer func() {
		if r := recover(); r != nil {
			ans, ok = "panic", false
		}
	}()
	in := p.ToB6()
	out := api.Simplify(in, lang.Functions())
	return lang.ExprText(out) + " ;; " + lang.ExprText(in), out, true
}

func serve(req string) string {
	p, _, _ := program(req)
	if p == nil {
		return "badreq"
	}
	s, simplified, ok := simplifyBoth(p)
	if !ok {
		return s + " ## - ;; -"
	}
	return s + " ## " + lang.OutcomeFlat(p.ToB6()) + " ;; " + lang.OutcomeFlat(simplified)
}

var worker = &lang.Worker{}

func runProgram(c *hx.Ctx, req string, p *lang.Node, feat map[string]bool, mut string) {
	ans := worker.Ask(req)
	simp, pair := ans, ans
	if i := strings.Index(ans, " ## "); i >= 0 {
		simp, pair = ans[:i], ans[i+4:]
	}
	text := p.Text()
	c.Op("simplify "+text, simp)
	c.Op("evalpair "+text, pair)
	for k := range feat {
		c.Note("feat:" + k)
	}
	if mut != "" {
		c.Note("mutation:" + mut)
	} else {
		c.Note("mutation:none")
	}
	c.Note(fmt.Sprintf("size:%02d-%02d", p.Size()/5*5, p.Size()/5*5+4))
	changed := !strings.HasPrefix(simp, text+" ;; ")
	if changed {
		c.Note("simplify:changed")
		c.NonTrivial()
	} else {
		c.Note("simplify:unchanged")
	}
	if i := strings.Index(simp, " ;; "); i >= 0 && simp[i+4:] != text {
		c.Note("simplify:argument-tree-mutated")
	}
	if f := strings.Fields(pair); len(f) > 0 {
		c.Note("outcome:" + f[0])
	}
}

func main() {
	if lang.ServeIfWorker(serve) {
		return
	}
	defer worker.Close()
	hx.Main(hx.Family{
		Name:     "c22",
		Rule:     "1 in 12: a call without arguments (f) / ((f)) of any function of the table, variadic (the real collection, call) or not, at the root, as an argument, in a lambda body, passed to a lambda or called again; of the rest 1 in 10: calls without arguments ((f), ((f)), ({-> e})) inside lambdas that may shadow f; 3 in 10: a lambda over one call of a global function with its parameters used in order / reordered / repeated / omitted / next to literals, lambdas (also with the parameter only in the function position of a nested call) or calls, bare or applied or nested under a shadowing lambda; otherwise programs from the C21 generator extended with strings, query literals and the query builders (and or typed keyed tagged) and, 1 in 3, with collection values ((collection p…) with 0..3 pairs) and the variadic call f args…, 1 in 6 with an ill-typing edit. non-trivial = Simplify returned a tree different from its argument; distinct = by hash of the program text",
		Quick:    4000,
		Thorough: 60000,
		Corpus: func(c *hx.Ctx) {
			for i, p := range corpus() {
				runProgram(c, fmt.Sprintf("corpus %d", i), p, map[string]bool{"lambda": true}, "")
			}
		},
		Case: func(c *hx.Ctx) {
			seed := c.Rand.Uint64()
			p, feat, mut := generate(hx.NewRand(seed))
			runProgram(c, fmt.Sprintf("gen %d", seed), p, feat, mut)
		},
	})
}
