// Wire encodings shared by the C18 harness: tag values, features, documents, observations.
//
// value   := s:<hex>|i:<n>|f:<16 hex bits>|p:<c>:<c>|id:<type>:<nshex>:<n>|x:<hex>|l:<atom>|<atom>…   (l: = empty list)
// coord c := <E7 integer> | nan | +inf | -inf | big
// feature := <id>!<body>!<key>=<value>&<key>=<value>…
// body    := g | a:<poly>;<poly>… | r:<id>~<rolehex>,… | c:<atom>><atom>,… | cs:… (built, then Sort())
// poly    := i<id>+<id>… | p<lat>_<lng>~<lat>_<lng>…/<loop>…
// Feature ids are model numbers digit*1000+value in the namespace NS (digit 0 point, 1 path, 2 area,
// 3 relation, 4 collection); id atoms carry the raw b6.FeatureType number.
package main

import (
	"encoding/hex"
	"fmt"
	"math"
	"sort"
	"strconv"
	"strings"

	"diagonal.works/b6"
	"diagonal.works/b6/ingest"
	"github.com/golang/geo/s2"
)

const NS = b6.Namespace("diagonal.works/ns/verif")

func hx16(s string) string {
	if s == "" {
		return "-"
	}
	return hex.EncodeToString([]byte(s))
}

func unhx(s string) string {
	if s == "-" {
		return ""
	}
	b, err := hex.DecodeString(s)
	if err != nil {
		panic("bad hex " + s)
	}
	return string(b)
}

// model type digit <-> b6.FeatureType (FeatureTypeInvalid = 4 sits between relation and collection)
var typeOfDigit = []b6.FeatureType{b6.FeatureTypePoint, b6.FeatureTypePath, b6.FeatureTypeArea, b6.FeatureTypeRelation, b6.FeatureTypeCollection}

func FID(n int) b6.FeatureID {
	return b6.FeatureID{Type: typeOfDigit[n/1000], Namespace: NS, Value: uint64(n % 1000)}
}

func ModelID(id b6.FeatureID) int {
	if id.Namespace == NS && id.Value < 1000 {
		for d, t := range typeOfDigit {
			if t == id.Type {
				return d*1000 + int(id.Value)
			}
		}
	}
	return 900000
}

// ---- coordinates ----------------------------------------------------------------------------

func coordTok(deg float64) string {
	switch {
	case math.IsNaN(deg):
		return "nan"
	case math.IsInf(deg, 1):
		return "+inf"
	case math.IsInf(deg, -1):
		return "-inf"
	case math.Abs(deg) > 1e10:
		return "big"
	}
	return strconv.FormatInt(int64(math.Round(deg*1e7)), 10)
}

func coordVal(tok string) float64 {
	switch tok {
	case "nan":
		return math.NaN()
	case "+inf":
		return math.Inf(1)
	case "-inf":
		return math.Inf(-1)
	}
	n, err := strconv.ParseInt(tok, 10, 64)
	if err != nil {
		panic("bad coord " + tok)
	}
	return float64(n) / 1e7
}

func llTok(ll s2.LatLng) string {
	return coordTok(ll.Lat.Degrees()) + ":" + coordTok(ll.Lng.Degrees())
}

// ---- values ---------------------------------------------------------------------------------

// floatAtom: IEEE bits; every NaN is written f:nan
func floatAtom(f float64) string {
	if math.IsNaN(f) {
		return "f:nan"
	}
	return fmt.Sprintf("f:%016x", math.Float64bits(f))
}

func atomOf(e b6.AnyExpression) string {
	switch v := e.(type) {
	case b6.StringExpression:
		return "s:" + hx16(string(v))
	case b6.IntExpression:
		return "i:" + strconv.Itoa(int(v))
	case b6.FloatExpression:
		return floatAtom(float64(v))
	case b6.PointExpression:
		return "p:" + llTok(s2.LatLng(v))
	case b6.FeatureIDExpression:
		return fmt.Sprintf("id:%d:%s:%d", int(v.Type), hx16(string(v.Namespace)), v.Value)
	case nil:
		return "x:" + hx16("<nil>")
	}
	return "x:" + hx16(fmt.Sprintf("%T %s", e, e.String()))
}

func valOf(e b6.Expression) string {
	if l, ok := e.AnyExpression.(b6.Expressions); ok {
		parts := make([]string, len(l))
		for i, a := range l {
			if _, nested := a.(b6.Expressions); nested {
				parts[i] = "x:" + hx16("nested")
			} else {
				parts[i] = atomOf(a)
			}
		}
		return "l:" + strings.Join(parts, "|")
	}
	return atomOf(e.AnyExpression)
}

func atomExpr(w string) b6.AnyExpression {
	i := strings.Index(w, ":")
	kind, rest := w[:i], w[i+1:]
	switch kind {
	case "s":
		return b6.StringExpression(unhx(rest))
	case "i":
		n, err := strconv.Atoi(rest)
		if err != nil {
			panic(err)
		}
		return b6.IntExpression(n)
	case "f":
		if rest == "nan" {
			return b6.FloatExpression(math.NaN())
		}
		bits, err := strconv.ParseUint(rest, 16, 64)
		if err != nil {
			panic(err)
		}
		return b6.FloatExpression(math.Float64frombits(bits))
	case "p":
		cs := strings.Split(rest, ":")
		return b6.PointExpression(s2.LatLngFromDegrees(coordVal(cs[0]), coordVal(cs[1])))
	case "id":
		ps := strings.Split(rest, ":")
		t, _ := strconv.Atoi(ps[0])
		v, _ := strconv.ParseUint(ps[2], 10, 64)
		return b6.FeatureIDExpression(b6.FeatureID{Type: b6.FeatureType(t), Namespace: b6.Namespace(unhx(ps[1])), Value: v})
	case "b":
		return b6.BoolExpression(rest == "1")
	}
	panic("bad atom " + w)
}

func valExpr(w string) b6.Expression {
	if strings.HasPrefix(w, "l:") {
		l := b6.Expressions{}
		if w != "l:" {
			for _, a := range strings.Split(w[2:], "|") {
				l = append(l, atomExpr(a))
			}
		}
		return b6.Expression{AnyExpression: l}
	}
	return b6.Expression{AnyExpression: atomExpr(w)}
}

func idAtom(n int) string {
	return fmt.Sprintf("id:%d:%s:%d", int(typeOfDigit[n/1000]), hx16(string(NS)), n%1000)
}

// ---- features -------------------------------------------------------------------------------

type Tag struct{ K, V string }

type Feat struct {
	ID   int
	Body string
	Tags []Tag
}

func tagsTok(tags []Tag) string {
	xs := make([]string, len(tags))
	for i, t := range tags {
		xs[i] = t.K + "=" + t.V
	}
	return strings.Join(xs, "&")
}

func (f Feat) Tok() string { return fmt.Sprintf("%d!%s!%s", f.ID, f.Body, tagsTok(f.Tags)) }

func b6Tags(tags []Tag) b6.Tags {
	out := make(b6.Tags, 0, len(tags))
	for _, t := range tags {
		out = append(out, b6.Tag{Key: t.K, Value: valExpr(t.V)})
	}
	return out
}

func literalOf(w string) interface{} {
	switch e := atomExpr(w).(type) {
	case b6.StringExpression:
		return string(e)
	case b6.IntExpression:
		return int(e)
	case b6.FloatExpression:
		return float64(e)
	case b6.FeatureIDExpression:
		return b6.FeatureID(e)
	case b6.PointExpression:
		return b6.GeometryFromLatLng(s2.LatLng(e))
	}
	panic("bad literal " + w)
}

func literalTok(v interface{}) string {
	switch l := v.(type) {
	case string:
		return "s:" + hx16(l)
	case int:
		return "i:" + strconv.Itoa(l)
	case float64:
		return floatAtom(l)
	case b6.FeatureID:
		return fmt.Sprintf("id:%d:%s:%d", int(l.Type), hx16(string(l.Namespace)), l.Value)
	case b6.Geometry:
		if l.GeometryType() == b6.GeometryTypePoint {
			return "p:" + llTok(s2.LatLngFromPoint(l.Point()))
		}
	}
	return "x:" + hx16(fmt.Sprintf("%T", v))
}

func parsePoly(p string) (ids []b6.FeatureID, poly *s2.Polygon) {
	if strings.HasPrefix(p, "i") {
		ids = []b6.FeatureID{}
		if len(p) > 1 {
			for _, s := range strings.Split(p[1:], "+") {
				n, _ := strconv.Atoi(s)
				ids = append(ids, FID(n))
			}
		}
		return ids, nil
	}
	var loops []*s2.Loop
	for _, l := range strings.Split(p[1:], "/") {
		var pts []s2.Point
		for _, v := range strings.Split(l, "~") {
			cs := strings.Split(v, "_")
			pts = append(pts, s2.PointFromLatLng(s2.LatLngFromDegrees(coordVal(cs[0]), coordVal(cs[1]))))
		}
		loops = append(loops, s2.LoopFromPoints(pts))
	}
	return nil, s2.PolygonFromLoops(loops)
}

// Build makes the ingest feature the real code is given.
func (f Feat) Build() ingest.Feature {
	id := FID(f.ID)
	switch {
	case f.Body == "g":
		return &ingest.GenericFeature{ID: id, Tags: b6Tags(f.Tags)}
	case strings.HasPrefix(f.Body, "a:"):
		var polys []string
		if f.Body != "a:" {
			polys = strings.Split(f.Body[2:], ";")
		}
		a := ingest.NewAreaFeature(len(polys))
		a.AreaID = id.ToAreaID()
		for i, p := range polys {
			if ids, poly := parsePoly(p); poly != nil {
				a.SetPolygon(i, poly)
			} else {
				a.SetPathIDs(i, ids)
			}
		}
		a.Tags = b6Tags(f.Tags)
		return a
	case strings.HasPrefix(f.Body, "r:"):
		var ms []string
		if f.Body != "r:" {
			ms = strings.Split(f.Body[2:], ",")
		}
		r := ingest.NewRelationFeature(len(ms))
		r.RelationID = id.ToRelationID()
		for i, m := range ms {
			ps := strings.Split(m, "~")
			n, _ := strconv.Atoi(ps[0])
			r.Members[i] = b6.RelationMember{ID: FID(n), Role: unhx(ps[1])}
		}
		r.Tags = b6Tags(f.Tags)
		return r
	case strings.HasPrefix(f.Body, "c:"), strings.HasPrefix(f.Body, "cs:"):
		// cs: = the same, then CollectionFeature.Sort() (the entries are listed in key order already)
		body := f.Body[strings.Index(f.Body, ":")+1:]
		c := &ingest.CollectionFeature{CollectionID: id.ToCollectionID(), Tags: b6Tags(f.Tags)}
		if strings.HasPrefix(f.Body, "cs:") {
			defer c.Sort()
		}
		if body != "" {
			for _, e := range strings.Split(body, ",") {
				kv := strings.Split(e, ">")
				c.Keys = append(c.Keys, literalOf(kv[0]))
				c.Values = append(c.Values, literalOf(kv[1]))
			}
		}
		return c
	}
	panic("bad body " + f.Body)
}

func sortedTags(ts b6.Tags) []Tag {
	out := make([]Tag, 0, len(ts))
	for _, t := range ts {
		out = append(out, Tag{t.Key, valOf(t.Value)})
	}
	sort.SliceStable(out, func(i, j int) bool { return out[i].K < out[j].K })
	return out
}

func polygonTok(p *s2.Polygon) string {
	loops := make([]string, p.NumLoops())
	for j := range loops {
		l := p.Loop(j)
		vs := make([]string, l.NumVertices())
		for k := range vs {
			ll := s2.LatLngFromPoint(l.Vertex(k))
			vs[k] = coordTok(ll.Lat.Degrees()) + "_" + coordTok(ll.Lng.Degrees())
		}
		loops[j] = strings.Join(vs, "~")
	}
	return "p" + strings.Join(loops, "/")
}

// bodyOfWorld renders the body of a feature handed out by a world.
func bodyOfWorld(f b6.Feature) string {
	switch f.FeatureID().Type {
	case b6.FeatureTypeArea:
		a := f.(b6.AreaFeature)
		polys := make([]string, a.Len())
		for i := range polys {
			if paths := a.Feature(i); paths != nil {
				ids := make([]string, len(paths))
				for j, p := range paths {
					ids[j] = strconv.Itoa(ModelID(p.FeatureID()))
				}
				polys[i] = "i" + strings.Join(ids, "+")
			} else {
				polys[i] = polygonTok(a.Polygon(i))
			}
		}
		return "a:" + strings.Join(polys, ";")
	case b6.FeatureTypeRelation:
		r := f.(b6.RelationFeature)
		ms := make([]string, r.Len())
		for i := range ms {
			m := r.Member(i)
			ms[i] = fmt.Sprintf("%d~%s", ModelID(m.ID), hx16(m.Role))
		}
		return "r:" + strings.Join(ms, ",")
	case b6.FeatureTypeCollection:
		c := f.(b6.CollectionFeature)
		var es []string
		it := c.BeginUntyped()
		for {
			ok, err := it.Next()
			if !ok || err != nil {
				break
			}
			es = append(es, literalTok(it.Key())+">"+literalTok(it.Value()))
		}
		return "c:" + strings.Join(es, ",")
	}
	return "g"
}

// bodyOfIngest renders the body of an ingest feature (as decoded from a document).
func bodyOfIngest(f ingest.Feature) string {
	switch x := f.(type) {
	case *ingest.AreaFeature:
		polys := make([]string, x.Len())
		for i := range polys {
			if ids, ok := x.PathIDs(i); ok {
				ss := make([]string, len(ids))
				for j, id := range ids {
					ss[j] = strconv.Itoa(ModelID(id))
				}
				polys[i] = "i" + strings.Join(ss, "+")
			} else if p, ok := x.Polygon(i); ok {
				polys[i] = polygonTok(p)
			} else {
				polys[i] = "i"
			}
		}
		return "a:" + strings.Join(polys, ";")
	case *ingest.RelationFeature:
		ms := make([]string, len(x.Members))
		for i, m := range x.Members {
			ms[i] = fmt.Sprintf("%d~%s", ModelID(m.ID), hx16(m.Role))
		}
		return "r:" + strings.Join(ms, ",")
	case *ingest.CollectionFeature:
		es := make([]string, len(x.Keys))
		for i := range x.Keys {
			es[i] = literalTok(x.Keys[i]) + ">" + literalTok(x.Values[i])
		}
		return "c:" + strings.Join(es, ",")
	}
	return "g"
}

func featTokOfWorld(f b6.Feature) string {
	return Feat{ID: ModelID(f.FeatureID()), Body: bodyOfWorld(f), Tags: sortedTags(f.AllTags())}.Tok()
}
