package main

import (
	"fmt"

	"verifharness/hx"
)

// corpus: fixed witnesses, each a case of its own on the standard base (no random tags).
//  1. every tricky string as a plain and as a searchable tag value, on base and overlay features — before
//     fixes/C18-export-values-explicit.patch the lat,lng- / id- / list-looking ones came back as another kind
//     (and searchable ones under another token);
//  2. an integral float (came back as an int), a feature without tags (was dropped by the import), a literal
//     polygon with 1e-7 degree vertices (was rounded to 1e-6 by "%f");
//  2b. collections with int/float, string/int, repeated, unordered and Sort()ed keys (FindValue/FindValues probes);
//  3. a tag value, collection literal or relation role "null" / "~" — before fixes/C18-export-null-string.patch
//     the exported file was undecodable (yaml.v2);
//  4. FINDING import-intermediate-state: (a) a ring dragged east vertex by vertex — the import applies the final
//     positions one at a time to the base ring and is rejected ("ordered clockwise"); (b) a ring re-routed
//     away from a point which then loses its location — the point is imported before the ring;
//  5. relations that contain each other and themselves; stale modified tags of a copied referrer; the
//     point-with-one-tag rule on import.
func corpus(c *hx.Ctx) {
	r := hx.NewRand(18)
	all := [][]string{plainStrings, numericStrings, latlngStrings, idStrings, punctStrings, unicodeStrings, yamlStrings}

	// 1
	k := newCase(c)
	k.StandardBase(r, false)
	targets := []int{1, 6, 1007, 1008, 2009, 3010, 4011}
	n := 0
	for _, class := range all {
		for _, s := range class {
			if !modelled(s) {
				continue
			}
			id := targets[n%len(targets)]
			key := allKeys[n%len(allKeys)]
			k.AddTag(id, Tag{key, sv(s)})
			n++
			if n%9 == 0 {
				k.AddFeature(pointFeat(21+n%3, posOf(21+n%3, n), Tag{"name", sv(s)}, Tag{"#amenity", sv(s)}))
			}
		}
	}
	k.Finish()
	for _, class := range append(all, nullStrings) {
		for _, s := range class {
			if modelled(s) {
				k.Infer(s)
				k.Roundtrip(sv(s))
			}
		}
	}
	for _, v := range []string{"i:5", "i:-9223372036854775808", floatAtom(2), floatAtom(2.5), floatAtom(1e21), "f:nan", "f:7ff0000000000000",
		"p:515000000:-1200000", idAtom(4011), "l:", "l:s:61", "l:s:61|i:3", "l:s:312c32|s:78", "l:" + idAtom(1) + "|p:1:2", "l:s:6e756c6c"} {
		k.Roundtrip(v)
	}

	// 2
	c.Comment("integral float, feature without tags, literal polygon")
	k = newCase(c)
	k.StandardBase(r, false)
	k.AddTag(6, Tag{"note", floatAtom(2)})
	k.AddTag(1007, Tag{"#highway", floatAtom(3)})
	k.AddFeature(Feat{ID: 22, Body: "g"})
	k.AddFeature(Feat{ID: 5, Body: "g"})
	k.AddFeature(Feat{ID: 2027, Body: "a:p515370213_-1250817~515360127_-1251339~515359871_-1240433;i1007", Tags: []Tag{{"name", sv("1,2")}}})
	k.AddFeature(Feat{ID: 4030, Body: "c:" + sv("1,2") + ">" + floatAtom(2) + "," + sv("/point/x/1") + ">" + sv("a;b") + "," + idAtom(1) + ">" + sv("123")})
	k.Finish()

	// 3
	for _, s := range nullStrings {
		c.Comment("null strings")
		k = newCase(c)
		k.StandardBase(r, false)
		k.AddTag(6, Tag{"note", sv(s)})
		k.AddFeature(pointFeat(21, posOf(21, 0)))
		k.Finish()
	}
	k = newCase(c)
	k.StandardBase(r, false)
	k.AddFeature(pointFeat(21, posOf(21, 0), Tag{"name", sv("null")}))
	k.AddFeature(Feat{ID: 3028, Body: "r:21~" + hx16("null")})
	k.AddFeature(Feat{ID: 4030, Body: "c:" + sv("null") + ">" + sv("~") + "," + idAtom(21) + ">" + sv("null")})
	k.AddTag(1007, Tag{"#highway", sv("~")})
	k.Finish()

	// 4a
	c.Comment("finding import-intermediate-state: ring dragged east")
	k = newCase(c)
	k.StandardBase(r, false)
	pos := map[int][2]int{}
	for id := 1; id <= 4; id++ {
		pos[id] = posOf(id, 0)
	}
	for step := 0; step < 12; step++ {
		for _, id := range []int{4, 3, 1, 2} {
			p := pos[id]
			p[1] += 3000
			if k.AddFeature(pointFeat(id, p)) == "ok" {
				pos[id] = p
			}
		}
	}
	k.Finish()
	// 4b
	c.Comment("finding import-intermediate-state: ring re-routed, point loses its location")
	k = newCase(c)
	k.StandardBase(r, false)
	k.AddFeature(pathFeat(1007, idAtoms(2, 3, 4, 2)))
	k.AddFeature(Feat{ID: 1, Body: "g", Tags: []Tag{{"name", sv("gone")}}})
	k.Finish()
	c.Comment("finding import-intermediate-state: area re-pointed, its old ring opened")
	k = newCase(c)
	k.StandardBase(r, false)
	k.AddFeature(Feat{ID: 2009, Body: "a:p515304998_-1295975~515304998_-1285963~515315003_-1295975"})
	k.AddFeature(pathFeat(1007, idAtoms(1, 2, 3)))
	k.Finish()

	// 2b: collection keys and the sorted flag the import computes (FindValue / FindValues binary-search a
	// sorted collection): int then float keys passed the one-way test before
	// fixes/C18-collection-sorted-mixed-keys.patch and FindValue(1.0) missed after the round trip; string and
	// int keys are not comparable at all; repeated, unordered, Sort()ed keys
	c.Comment("collection keys")
	k = newCase(c)
	k.StandardBase(r, false)
	k.AddFeature(Feat{ID: 4030, Body: "c:i:-1>" + sv("x") + "," + floatAtom(1) + ">" + sv("y") + "," + floatAtom(2.5) + ">" + sv("z")})
	k.AddFeature(Feat{ID: 4031, Body: "c:i:1>" + sv("x") + "," + sv("a") + ">" + sv("y") + ",i:2>" + sv("z")})
	k.AddFeature(Feat{ID: 4011, Body: "cs:i:1>" + sv("p") + ",i:1>" + sv("q") + ",i:2>" + sv("r") + ",i:5>" + sv("s")})
	k.Finish()
	k = newCase(c)
	k.StandardBase(r, false)
	k.AddFeature(Feat{ID: 4030, Body: "c:i:3>" + sv("x") + ",i:1>" + sv("y") + ",i:3>" + sv("z")})
	k.AddFeature(Feat{ID: 4031, Body: "c:" + floatAtom(0.5) + ">i:1,i:1>i:2," + floatAtom(1.5) + ">i:3"})
	k.AddFeature(Feat{ID: 4011, Body: "c:" + sv("a") + ">i:1," + sv("b") + ">i:2," + idAtom(1) + ">i:3," + idAtom(2) + ">i:4"})
	k.Finish()

	// 5
	c.Comment("relation cycles, stale modified tags, point-with-one-tag rule")
	k = newCase(c)
	k.StandardBase(r, false)
	k.AddFeature(Feat{ID: 3028, Body: fmt.Sprintf("r:3028~%s,1~%s", hx16("self"), hx16("a"))})
	k.AddFeature(Feat{ID: 3029, Body: fmt.Sprintf("r:3028~%s", hx16("x"))})
	k.AddFeature(Feat{ID: 3028, Body: fmt.Sprintf("r:3029~%s,3028~%s", hx16("y"), hx16("self"))})
	k.AddFeature(Feat{ID: 4030, Body: "c:" + idAtom(4030) + ">i:1," + idAtom(3028) + ">i:2"})
	k.AddTag(1007, Tag{"note", sv("x")})
	k.AddTag(2009, Tag{"name", sv("1,2")})
	k.AddFeature(pointFeat(1, posOf(1, 1)))
	k.RemoveTag(1007, "note")
	k.AddTag(5, Tag{"note", sv("one")})
	k.AddTag(6, Tag{"note", sv("/point/ns/1")})
	k.RemoveTag(6, "ref")
	k.AddTag(2, Tag{"name", sv("a;b")})
	k.RemoveTag(2, "name")
	k.AddTag(3, Tag{"name", sv("51.5,-0.12")})
	k.AddTag(4, Tag{"#amenity", sv("51.50, -0.120")})
	k.Finish()
	c.NonTrivial()
}
