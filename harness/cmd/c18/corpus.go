package main

import "verifharness/hx"

func corpus(c *hx.Ctx) {
	k := newCase(c)
	k.StandardBase(hx.NewRand(1), false)
	k.Finish()
}
