// C18 harness: an edit history on a real ingest.MutableOverlayWorld over a small BasicMutableWorld base,
// then ExportChangesAsYAML (real) -> IngestChangesFromYAML.Apply (real) into a FRESH MutableOverlayWorld
// over the same base, and a full observation of both worlds.
//
// Lines per case (see wire.go for the encodings):
//   reset                             => ok               a new world starts
//   base <feature>                    => ok|err           the shared base world
//   addtag <id> <key>=<value>         => ok|err           history on the edited world
//   rmtag <id> <key>                  => ok|err
//   addfeature <feature>              => ok|err
//   state1                            => mods:[..] feats:[..]   overlay of the edited world (EachModifiedTag/-Feature)
//   export                            => [doc ..]|undecodable   exported documents in file order, as b6 decodes them
//   import                            => ok|err@<k>             Apply on the fresh world (k = documents applied)
//   state2                            => mods:[..] feats:[..]   overlay of the re-imported world
//   obs1 / obs2                       => per-id features + each || refs, coordinates, searches, FindValue(s) of every collection key
//   flags2                            => [id:0|1 ..]            IsSortedByKey of the re-imported world's collections
//   infer <hex>                       => <value>                b6.ExpressionFromString
//   roundtrip <value>                 => <value>|err            one tag through Tag.MarshalYAML / UnmarshalYAML
package main

import (
	"bytes"
	"fmt"
	"io"
	"math"
	"math/big"
	"sort"
	"strconv"
	"strings"

	"diagonal.works/b6"
	"diagonal.works/b6/ingest"
	"github.com/golang/geo/s2"
	yaml "gopkg.in/yaml.v2"
	"verifharness/hx"
)

// ---- the universe ---------------------------------------------------------------------------

var AllIDs = []int{1, 2, 3, 4, 5, 6, 21, 22, 23, 40, 1007, 1008, 1024, 1025, 2009, 2026, 2027, 3010, 3028, 3029, 4011, 4030, 4031}

var searchKeys = []string{"#amenity", "#highway", "@lit"}
var plainKeys = []string{"name", "note", "addr:street"}
var allKeys = append(append([]string{}, searchKeys...), plainKeys...)

// corner boxes: any choice of one position per corner gives a convex counter-clockwise 1,2,3,4
var corner = map[int][3][2]int{
	1: {{515370213, -1250817}, {515371931, -1251377}, {515369429, -1249561}},
	2: {{515360127, -1251339}, {515358893, -1249721}, {515361731, -1250893}},
	3: {{515359871, -1240433}, {515360667, -1241219}, {515358877, -1239767}},
	4: {{515371049, -1239671}, {515370711, -1240883}, {515369993, -1238859}},
}
var other = map[int][3][2]int{
	5:  {{515365541, -1245323}, {515366113, -1246417}, {515364337, -1244101}},
	6:  {{515362719, -1247981}, {515363517, -1246657}, {515361243, -1248629}},
	21: {{515380001, -1260003}, {515381117, -1261219}, {515379233, -1259871}},
	22: {{515350007, -1230011}, {515351213, -1231417}, {515349119, -1229233}},
	23: {{515390123, -1270457}, {515391011, -1271633}, {515389457, -1269211}},
}

func posOf(id, variant int) [2]int {
	if p, ok := corner[id]; ok {
		return p[variant%3]
	}
	return other[id][variant%3]
}

func pAtom(p [2]int) string { return fmt.Sprintf("p:%d:%d", p[0], p[1]) }

func sv(s string) string { return "s:" + hx16(s) }

// ---- tricky strings -------------------------------------------------------------------------

var plainStrings = []string{"cafe", "pub", "yes", "footway", "Coal Drops Yard"}
var numericStrings = []string{"5", "-1", "1.5", "1e3", "0x10", "007", ".5", "5.", "1_000", "+7", "0o17", "1e", "08"}
var latlngStrings = []string{"51.5,-0.12", "1,2", " 1 , 2 ", "+1,-0", "1e1,2", "nan,1", "inf,-inf", "Infinity,1", "1,NaN", "1.,.2", "51.50, -0.120",
	" 1,2 ", " 1,2", "1,2,3", "1,", ",2", "1 ,2e-1", "+nan,1", "1e400,1", "-90.0000001,180", "1,2 3", "1,\t2"}
var idStrings = []string{"/point/diagonal.works/ns/verif/1", "point/diagonal.works/ns/verif/21", "/path/a/b/7", "/area/ns/", "/invalid/ns/1", "/point//1", "point/ns/-1",
	"/collection/x/0", "//point/ns/1", "/expression/e/18446744073709551615", "/relation/r/18446744073709551616", "/Point/ns/1", "/point/ns/1 ", "/point/ns/010", "/path/ns/0x10", "/area/a/1_0", "point/ns/0b1", "/point/ns/+1", "/relation/diagonal.works/ns/verif/028"}
var punctStrings = []string{"a;b", ";", "a;", ";;", "1,2;3,4", "/point/ns/1;x", "a: b", "key: value", "\"q\"", "'s'", "it's", "#x", "- x", "[1,2]", "{a: b}", "a\nb", "a\tb", "", " ", "a:b", "x # y", "&a", "*a", "|", ">", "%", "@", "`", "!t", "?", ": "}
var unicodeStrings = []string{"é", "日本", "naïve café", " ", "ß;ü", "Ω,1"}
var yamlStrings = []string{"true", "yes", "no", "on", "Null", "NULL", "2001-01-01", "1:30", "<<", "=", ".inf", ".nan", "0b1", "1e+3", "nul", "~~"}

// yaml.v2 never hands these scalars to an Unmarshaler (fixes/C18-export-null-string.patch writes them explicitly)
var nullStrings = []string{"null", "~"}

var fuzzAlphabet = []string{"0", "1", "5", "9", ",", ",", ".", ";", "/", ":", "-", "+", "e", "E", " ", "n", "a", "inf", "nan", "point", "ns", "path"}

// borderline: value*1e7 (exact arithmetic) is within 1/1000 of a half, where the float path (parse,
// degrees->radians->degrees, *1e7, round) could round differently from the exact one; or the value is
// near the `big` threshold of coordTok.
func borderline(s string) bool {
	parts := strings.SplitN(s, ",", 2)
	for _, p := range parts {
		p = strings.TrimSpace(p)
		f, err := strconv.ParseFloat(p, 64)
		if err != nil || math.IsNaN(f) || math.IsInf(f, 0) {
			continue
		}
		r, ok := new(big.Rat).SetString(p)
		if !ok {
			return true
		}
		if math.Abs(f) > 1e9 && math.Abs(f) < 1e12 {
			return true
		}
		if math.Abs(f) >= 1e12 {
			continue
		}
		r.Mul(r, big.NewRat(10000000, 1))
		// distance of the fractional part from 1/2
		fl := new(big.Int).Div(r.Num(), r.Denom()) // floor for positive denominators
		frac := new(big.Rat).Sub(r, new(big.Rat).SetInt(fl))
		d := new(big.Rat).Sub(frac, big.NewRat(1, 2))
		d.Abs(d)
		if d.Cmp(big.NewRat(1, 1000)) < 0 {
			return true
		}
	}
	return false
}

// modelled reports whether the Lean text layer decides the string: a lat,lng candidate half that uses a
// digit separator or a hex prefix, overflows near the float64 limit, has a long exponent, or rounds at E7
// within 1/1000 of a half is left to `unknown` there and is not generated.
func modelled(s string) bool {
	for _, part := range strings.Split(s, ";") {
		if !strings.Contains(part, ",") {
			continue
		}
		for _, p := range strings.SplitN(part, ",", 2) {
			p = strings.TrimSpace(p)
			body := strings.ToLower(strings.TrimLeft(p, "+-"))
			if strings.Contains(p, "_") || strings.HasPrefix(body, "0x") {
				return false
			}
			if i := strings.IndexAny(body, "e"); i >= 0 && len(body)-i > 5 {
				return false
			}
			if _, err := strconv.ParseFloat(p, 64); err != nil && !strings.Contains(err.Error(), "out of range") {
				continue
			}
			if r, ok := new(big.Rat).SetString(p); ok {
				r.Abs(r)
				lo := new(big.Rat).SetInt(new(big.Int).Exp(big.NewInt(10), big.NewInt(308), nil))
				hi := new(big.Rat).SetInt(new(big.Int).Exp(big.NewInt(10), big.NewInt(310), nil))
				if r.Cmp(lo) >= 0 && r.Cmp(hi) < 0 {
					return false
				}
			}
		}
		if borderline(part) {
			return false
		}
	}
	return true
}

func randString(r *hx.Rand, c *hx.Ctx) string {
	for {
		var s string
		switch x := r.Intn(20); {
		case x < 3:
			s = r.Pick(plainStrings)
			c.Note("str:plain")
		case x < 6:
			s = r.Pick(numericStrings)
			c.Note("str:numeric")
		case x < 9:
			s = r.Pick(latlngStrings)
			c.Note("str:latlng")
		case x < 12:
			s = r.Pick(idStrings)
			c.Note("str:id")
		case x < 14:
			s = r.Pick(punctStrings)
			c.Note("str:punct")
		case x < 15:
			s = r.Pick(unicodeStrings)
			c.Note("str:unicode")
		case x < 16:
			s = r.Pick(append(yamlStrings, nullStrings...))
			c.Note("str:yaml")
		default:
			n := 1 + r.Intn(7)
			for i := 0; i < n; i++ {
				s += r.Pick(fuzzAlphabet)
			}
			c.Note("str:fuzz")
		}
		if modelled(s) {
			return s
		}
		c.Note("str:rejected-unmodelled")
	}
}

func randAtom(r *hx.Rand, c *hx.Ctx) string {
	switch x := r.Intn(20); {
	case x < 12:
		return sv(randString(r, c))
	case x < 14:
		return "i:" + strconv.Itoa(int(int64(r.Uint64Edge())>>uint(r.Intn(40))))
	case x < 16:
		fs := []float64{2, 2.5, 0, 1e21, 1e-7, 123456789, 0.1, -3, math.Inf(1), math.Inf(-1), math.NaN(), 1e15, 1e20, 4.5e15, 9007199254740993, 1e300, -2.5e-300}
		return floatAtom(fs[r.Intn(len(fs))])
	case x < 18:
		return pAtom([2]int{int(r.Intn(1800000000)) - 900000000, int(r.Intn(3600000000)) - 1800000000})
	default:
		return idAtom(AllIDs[r.Intn(len(AllIDs))])
	}
}

// stableString: a string without `;` that ExpressionFromString reads as a string (a list element that
// comes back as itself)
func stableString(r *hx.Rand, c *hx.Ctx) string {
	for {
		s := randString(r, c)
		if strings.Contains(s, ";") {
			continue
		}
		if _, ok := b6.ExpressionFromString(s).AnyExpression.(b6.StringExpression); ok {
			return s
		}
	}
}

// randValue draws a value the property speaks about: any string; ints, floats, points, feature ids; and
// lists as ExpressionFromString produces them (two or more elements that are strings, points or ids).
func randValue(r *hx.Rand, c *hx.Ctx) string {
	if r.Chance(1, 12) {
		n := 2 + r.Intn(3)
		as := make([]string, n)
		for i := range as {
			switch r.Intn(4) {
			case 0:
				as[i] = pAtom([2]int{int(r.Intn(1800000000)) - 900000000, int(r.Intn(3600000000)) - 1800000000})
			case 1:
				as[i] = idAtom(AllIDs[r.Intn(len(AllIDs))])
			default:
				as[i] = sv(stableString(r, c))
			}
		}
		c.Note("val:list")
		return "l:" + strings.Join(as, "|")
	}
	return randAtom(r, c)
}

// randAnyValue also draws lists outside that image (0 or 1 elements, int / float elements, elements
// that look like something else): used for the single-value round trips only.
func randAnyValue(r *hx.Rand, c *hx.Ctx) string {
	if r.Chance(1, 3) {
		n := r.Intn(4)
		as := make([]string, n)
		for i := range as {
			// (the %f rendering of a float inside a list is not modelled)
			for as[i] = randAtom(r, c); strings.HasPrefix(as[i], "f:"); as[i] = randAtom(r, c) {
			}
		}
		c.Note(fmt.Sprintf("val:anylist%d", n))
		return "l:" + strings.Join(as, "|")
	}
	return randAtom(r, c)
}

// ---- a running case -------------------------------------------------------------------------

type Case struct {
	c    *hx.Ctx
	base *ingest.BasicMutableWorld
	w    *ingest.MutableOverlayWorld
}

func errAns(err error) string {
	if err != nil {
		return "err"
	}
	return "ok"
}

// newCase starts a world; `reset` tells the driver to forget the previous one (the corpus runs several
// worlds inside one case block).
func newCase(c *hx.Ctx) *Case {
	c.Op("reset", "ok")
	return &Case{c: c, base: ingest.NewBasicMutableWorld()}
}

func (k *Case) Base(f Feat) {
	ans := hx.Recover(func() string { return errAns(k.base.AddFeature(f.Build())) })
	k.c.Op("base "+f.Tok(), ans)
}

func (k *Case) Start() { k.w = ingest.NewMutableOverlayWorld(k.base) }

func (k *Case) AddTag(id int, t Tag) string {
	ans := hx.Recover(func() string { return errAns(k.w.AddTag(FID(id), b6.Tag{Key: t.K, Value: valExpr(t.V)})) })
	k.c.Op(fmt.Sprintf("addtag %d %s=%s", id, t.K, t.V), ans)
	return ans
}

func (k *Case) RemoveTag(id int, key string) string {
	ans := hx.Recover(func() string { return errAns(k.w.RemoveTag(FID(id), key)) })
	k.c.Op(fmt.Sprintf("rmtag %d %s", id, key), ans)
	return ans
}

func (k *Case) AddFeature(f Feat) string {
	ans := hx.Recover(func() string { return errAns(k.w.AddFeature(f.Build())) })
	k.c.Op("addfeature "+f.Tok(), ans)
	return ans
}

func stateTok(m ingest.MutableWorld) string {
	return hx.Recover(func() string {
		mods := map[int]map[string]string{}
		m.EachModifiedTag(func(t ingest.ModifiedTag, _ int) error {
			id := ModelID(t.ID)
			if mods[id] == nil {
				mods[id] = map[string]string{}
			}
			if t.Deleted {
				mods[id][t.Tag.Key] = "-"
			} else {
				mods[id][t.Tag.Key] = valOf(t.Tag.Value)
			}
			return nil
		}, &b6.EachFeatureOptions{Goroutines: 1})
		var ids []int
		for id := range mods {
			ids = append(ids, id)
		}
		sort.Ints(ids)
		var ms []string
		for _, id := range ids {
			var kv []string
			for _, key := range hx.SortedKeys(mods[id]) {
				kv = append(kv, key+"="+mods[id][key])
			}
			ms = append(ms, fmt.Sprintf("%d!%s", id, strings.Join(kv, "&")))
		}
		var fs []string
		m.EachModifiedFeature(func(f b6.Feature, _ int) error {
			fs = append(fs, fmt.Sprintf("%07d", ModelID(f.FeatureID()))+featTokOfWorld(f))
			return nil
		}, &b6.EachFeatureOptions{Goroutines: 1})
		sort.Strings(fs)
		for i := range fs {
			fs[i] = fs[i][7:]
		}
		return "mods:" + hx.List(ms) + " feats:" + hx.List(fs)
	})
}

// ---- export documents -----------------------------------------------------------------------

type docYAML struct {
	ID         b6.FeatureID
	Add        []b6.Tag                 `yaml:",omitempty"`
	Remove     []string                 `yaml:",omitempty"`
	Area       []interface{}            `yaml:",omitempty"`
	Relation   []b6.RelationMember      `yaml:",omitempty"`
	Collection *b6.CollectionExpression `yaml:",omitempty"`
	Tags       []b6.Tag                 `yaml:",omitempty"`
}

func areaBodyOfYAML(polys []interface{}) string {
	out := make([]string, len(polys))
	for i, p := range polys {
		loops, ok := p.([]interface{})
		if !ok {
			return "a:?"
		}
		if len(loops) == 0 {
			out[i] = "i"
			continue
		}
		if _, ok := loops[0].(string); ok {
			ids := make([]string, len(loops))
			for j, l := range loops {
				s, _ := l.(string)
				ids[j] = strconv.Itoa(ModelID(b6.FeatureIDFromString(s)))
			}
			out[i] = "i" + strings.Join(ids, "+")
		} else {
			ls := make([]string, len(loops))
			for j, l := range loops {
				pts, _ := l.([]interface{})
				vs := make([]string, len(pts))
				for n, pt := range pts {
					s, _ := pt.(string)
					ll, err := b6.LatLngFromString(s)
					if err != nil {
						vs[n] = "?"
					} else {
						vs[n] = coordTok(ll.Lat.Degrees()) + "_" + coordTok(ll.Lng.Degrees())
					}
				}
				ls[j] = strings.Join(vs, "~")
			}
			out[i] = "p" + strings.Join(ls, "/")
		}
	}
	return "a:" + strings.Join(out, ";")
}

func docTok(y *docYAML) string {
	id := ModelID(y.ID)
	var body string
	switch {
	case y.Area != nil:
		body = areaBodyOfYAML(y.Area)
	case y.Relation != nil:
		ms := make([]string, len(y.Relation))
		for i, m := range y.Relation {
			ms[i] = fmt.Sprintf("%d~%s", ModelID(m.ID), hx16(m.Role))
		}
		body = "r:" + strings.Join(ms, ",")
	case y.Collection != nil:
		var es []string
		it := y.Collection.BeginUntyped()
		for {
			ok, err := it.Next()
			if !ok || err != nil {
				break
			}
			es = append(es, literalTok(it.Key())+">"+literalTok(it.Value()))
		}
		body = "c:" + strings.Join(es, ",")
	case y.Tags != nil:
		body = "g"
	}
	if body != "" {
		return "F" + Feat{ID: id, Body: body, Tags: sortedTags(y.Tags)}.Tok()
	}
	if y.Add == nil && y.Remove == nil {
		return fmt.Sprintf("E%d", id)
	}
	rm := append([]string{}, y.Remove...)
	sort.Strings(rm)
	return fmt.Sprintf("M%d!%s!%s", id, tagsTok(sortedTags(y.Add)), strings.Join(rm, "&"))
}

func decodeDocs(text []byte) string {
	return hx.Recover(func() string {
		dec := yaml.NewDecoder(bytes.NewReader(text))
		var docs []string
		for {
			var y docYAML
			if err := dec.Decode(&y); err != nil {
				if err == io.EOF {
					break
				}
				return hx.List(docs) + " undecodable"
			}
			docs = append(docs, docTok(&y))
		}
		return hx.List(docs)
	})
}

// ---- observations ---------------------------------------------------------------------------

type query struct {
	name string
	q    b6.Query
}

func collectQueries(ws ...b6.World) []query {
	seen := map[string]query{}
	for _, w := range ws {
		for _, n := range AllIDs {
			f := w.FindFeatureByID(FID(n))
			if f == nil {
				continue
			}
			for _, t := range f.AllTags() {
				if strings.HasPrefix(t.Key, "#") && t.Value.AnyExpression != nil {
					v := t.Value.String()
					name := t.Key + "=" + hx16(v)
					seen[name] = query{name, b6.Tagged{Key: t.Key, Value: b6.NewStringExpression(v)}}
				}
			}
		}
	}
	for _, key := range searchKeys {
		seen[key] = query{key, b6.Keyed{Key: key}}
	}
	var out []query
	for _, name := range hx.SortedKeys(seen) {
		out = append(out, seen[name])
	}
	return out
}

func intsTok(xs []int) string {
	sort.Ints(xs)
	ss := make([]string, len(xs))
	for i, x := range xs {
		ss[i] = strconv.Itoa(x)
	}
	return strings.Join(ss, ",")
}

// collectionKeys lists, per collection id, the keys to look up: every key either world holds, plus absent ones.
func collectionKeys(ws ...b6.World) map[int][]interface{} {
	out := map[int][]interface{}{}
	for _, n := range AllIDs {
		seen := map[string]bool{}
		for _, w := range ws {
			if cf, ok := w.FindFeatureByID(FID(n)).(b6.CollectionFeature); ok {
				it := cf.BeginUntyped()
				for {
					ok, err := it.Next()
					if !ok || err != nil {
						break
					}
					if tok := literalTok(it.Key()); !seen[tok] {
						seen[tok] = true
						out[n] = append(out[n], it.Key())
					}
				}
			}
		}
		if len(seen) > 0 || n/1000 == 4 {
			out[n] = append(out[n], "zz", "", 7, -100, 2.0, 0.25, FID(40), FID(1))
		}
	}
	return out
}

func collectionProbes(n int, cf b6.CollectionFeature, keys []interface{}) []string {
	var out []string
	for _, key := range keys {
		kt := literalTok(key)
		out = append(out, fmt.Sprintf("fv:%d:%s=%s", n, kt, hx.Recover(func() string {
			if v, ok := cf.FindValue(key); ok {
				return literalTok(v)
			}
			return "-"
		})))
		out = append(out, fmt.Sprintf("fvs:%d:%s=%s", n, kt, hx.Recover(func() string {
			var vs []string
			for _, v := range cf.FindValues(key, nil) {
				vs = append(vs, literalTok(v))
			}
			return strings.Join(vs, "+")
		})))
	}
	return out
}

// sortedFlags: IsSortedByKey of every collection (what newCollectionFeatureFromYAML computes on import)
func sortedFlags(w b6.World) string {
	var out []string
	for _, n := range AllIDs {
		if cf, ok := w.FindFeatureByID(FID(n)).(b6.CollectionFeature); ok {
			flag := 0
			if cf.IsSortedByKey() {
				flag = 1
			}
			out = append(out, fmt.Sprintf("%d:%d", n, flag))
		}
	}
	return hx.List(out)
}

func obs(w b6.World, qs []query, probes map[int][]interface{}) string {
	return hx.Recover(func() string {
		var a, b []string
		for _, n := range AllIDs {
			f := w.FindFeatureByID(FID(n))
			has := w.HasFeatureWithID(FID(n))
			if f == nil {
				a = append(a, fmt.Sprintf("%d-", n))
			} else {
				a = append(a, featTokOfWorld(f))
				// Get(key) must agree with AllTags() (modifyTag vs modifyTags)
				all := map[string]string{}
				for _, t := range f.AllTags() {
					if _, dup := all[t.Key]; !dup {
						all[t.Key] = valOf(t.Value)
					}
				}
				for _, key := range append([]string{"point", "path"}, allKeys...) {
					g := f.Get(key)
					want, ok := all[key]
					if g.IsValid() != ok || (ok && valOf(g.Value) != want) {
						b = append(b, fmt.Sprintf("!get:%d:%s", n, key))
					}
				}
				if p, ok := f.(b6.PhysicalFeature); ok && f.FeatureID().Type == b6.FeatureTypePath {
					xy := hx.Recover(func() string {
						var cs []string
						for i := 0; i < p.GeometryLen(); i++ {
							cs = append(cs, llTok(s2.LatLngFromPoint(p.PointAt(i))))
						}
						return strings.Join(cs, ";")
					})
					b = append(b, fmt.Sprintf("xy:%d=%s", n, xy))
				}
				if p, ok := f.(b6.PhysicalFeature); ok && f.FeatureID().Type == b6.FeatureTypePoint {
					b = append(b, fmt.Sprintf("pt:%d=%s", n, hx.Recover(func() string { return llTok(s2.LatLngFromPoint(p.Point())) })))
				}
			}
			if cf, ok := f.(b6.CollectionFeature); ok && f != nil {
				b = append(b, collectionProbes(n, cf, probes[n])...)
			}
			if has != (f != nil) {
				b = append(b, fmt.Sprintf("!has:%d", n))
			}
			if ll, err := w.FindLocationByID(FID(n)); err == nil {
				b = append(b, fmt.Sprintf("loc:%d=%s", n, llTok(ll)))
			}
			var rs []int
			it := w.FindReferences(FID(n))
			for it.Next() {
				rs = append(rs, ModelID(it.FeatureID()))
			}
			if len(rs) > 0 {
				b = append(b, fmt.Sprintf("refs:%d<%s", n, intsTok(rs)))
			}
		}
		var each []int
		w.EachFeature(func(f b6.Feature, _ int) error {
			each = append(each, ModelID(f.FeatureID()))
			return nil
		}, &b6.EachFeatureOptions{Goroutines: 1})
		a = append(a, "each:"+intsTok(each))
		for _, q := range qs {
			var ids []int
			fs := w.FindFeatures(q.q)
			for fs.Next() {
				ids = append(ids, ModelID(fs.FeatureID()))
			}
			b = append(b, fmt.Sprintf("q:%s=%s", q.name, intsTok(ids)))
		}
		return strings.Join(a, " ") + " || " + strings.Join(b, " ")
	})
}

// splitDocs cuts the exported text into its YAML documents (the encoder separates them by "---").
func splitDocs(text []byte) []string {
	if len(text) == 0 {
		return nil
	}
	return strings.Split(string(text), "\n---\n")
}

func docID(doc string) b6.FeatureID {
	var y struct{ ID b6.FeatureID }
	if err := yaml.Unmarshal([]byte(doc), &y); err != nil {
		return b6.FeatureIDInvalid
	}
	return y.ID
}

// importOrders: the exported file lists the modified-tag documents (Go map order) and then the feature
// documents sorted by rank with ties in map order / as sort.Slice leaves them. Every arrangement of the
// ties is a possible output of the real code; the harness tries all of them when there are at most 24,
// else the id-sorted one, its reverse and 10 drawn from the case's PRNG.
func importOrders(r *hx.Rand, feats []int, rank map[int]int) [][]int {
	sorted := append([]int{}, feats...)
	sort.SliceStable(sorted, func(i, j int) bool {
		if rank[sorted[i]] != rank[sorted[j]] {
			return rank[sorted[i]] > rank[sorted[j]]
		}
		return sorted[i] < sorted[j]
	})
	var groups [][]int
	for i, id := range sorted {
		if i > 0 && rank[id] == rank[sorted[i-1]] {
			groups[len(groups)-1] = append(groups[len(groups)-1], id)
		} else {
			groups = append(groups, []int{id})
		}
	}
	total := 1
	for _, g := range groups {
		for i := 2; i <= len(g) && total <= 24; i++ {
			total *= i
		}
	}
	var orders [][]int
	if total <= 24 {
		orders = [][]int{{}}
		for _, g := range groups {
			var next [][]int
			for _, prefix := range orders {
				for _, perm := range permutations(g) {
					next = append(next, append(append([]int{}, prefix...), perm...))
				}
			}
			orders = next
		}
		return orders
	}
	arrange := func(f func(g []int) []int) []int {
		var o []int
		for _, g := range groups {
			o = append(o, f(g)...)
		}
		return o
	}
	orders = append(orders, arrange(func(g []int) []int { return g }))
	orders = append(orders, arrange(func(g []int) []int {
		rev := make([]int, len(g))
		for i, x := range g {
			rev[len(g)-1-i] = x
		}
		return rev
	}))
	for n := 0; n < 10; n++ {
		orders = append(orders, arrange(func(g []int) []int {
			out := make([]int, len(g))
			for i, j := range r.Perm(len(g)) {
				out[i] = g[j]
			}
			return out
		}))
	}
	return orders
}

func permutations(xs []int) [][]int {
	if len(xs) <= 1 {
		return [][]int{append([]int{}, xs...)}
	}
	var out [][]int
	for i := range xs {
		rest := append(append([]int{}, xs[:i]...), xs[i+1:]...)
		for _, p := range permutations(rest) {
			out = append(out, append([]int{xs[i]}, p...))
		}
	}
	return out
}

func intsWords(xs []int) string {
	ss := make([]string, len(xs))
	for i, x := range xs {
		ss[i] = strconv.Itoa(x)
	}
	return strings.Join(ss, " ")
}

// Finish exports, re-imports into a fresh world over the same base, and dumps everything.
func (k *Case) Finish() (docs string, imp string) {
	c := k.c
	c.Op("state1", stateTok(k.w))
	var buf bytes.Buffer
	exportAns := hx.Recover(func() string { return errAns(ingest.ExportChangesAsYAML(k.w, &buf)) })
	if exportAns != "ok" {
		c.Op("export", "export-"+exportAns)
		return "", ""
	}
	// the key the export sorted the feature documents by, per document
	rank := map[int]int{}
	var modDocs []string
	featDoc := map[int]string{}
	var feats []int
	sortedByRank := true
	for _, d := range splitDocs(buf.Bytes()) {
		id := docID(d)
		if isFeat := ingest.VerifHasModifiedFeature(k.w, id); isFeat && !strings.Contains(d, "\nadd:\n") && !strings.Contains(d, "\nremove:\n") {
			n := ModelID(id)
			rank[n] = ingest.VerifExportRank(k.w, id)
			if len(feats) > 0 && rank[feats[len(feats)-1]] < rank[n] {
				sortedByRank = false
			}
			featDoc[n] = d
			feats = append(feats, n)
		} else {
			if len(feats) > 0 {
				sortedByRank = false // a modified-tag document after a feature document
			}
			modDocs = append(modDocs, d)
		}
	}
	// The file order itself depends on Go map iteration: the line shows the documents in canonical
	// order (modified tags by id, features by rank then id) and says whether the file was sorted by rank.
	canon := append([]int{}, feats...)
	sort.SliceStable(canon, func(i, j int) bool {
		if rank[canon[i]] != rank[canon[j]] {
			return rank[canon[i]] > rank[canon[j]]
		}
		return canon[i] < canon[j]
	})
	sort.Slice(modDocs, func(i, j int) bool { return docID(modDocs[i]).Less(docID(modDocs[j])) })
	var ranks []string
	parts := append([]string{}, modDocs...)
	for _, n := range canon {
		ranks = append(ranks, fmt.Sprintf("%d:%d", n, rank[n]))
		parts = append(parts, featDoc[n])
	}
	docs = decodeDocs([]byte(strings.Join(parts, "\n---\n")))
	if !sortedByRank {
		docs += " unsorted"
	}
	c.Op("export "+hx.List(ranks), docs)

	apply := func(order []int) (*ingest.MutableOverlayWorld, string) {
		parts := append([]string{}, modDocs...)
		for _, n := range order {
			parts = append(parts, featDoc[n])
		}
		text := strings.Join(parts, "\n---\n")
		w2 := ingest.NewMutableOverlayWorld(k.base)
		return w2, hx.Recover(func() string {
			applied, err := ingest.IngestChangesFromYAML(strings.NewReader(text)).Apply(w2)
			if err != nil {
				n := 0
				it := applied.Begin()
				for {
					ok, e := it.Next()
					if !ok || e != nil {
						break
					}
					n++
				}
				if n < len(modDocs) {
					return fmt.Sprintf("err@mod%d", n)
				}
				if n-len(modDocs) < len(order) {
					return fmt.Sprintf("err@%d", order[n-len(modDocs)])
				}
				return "err@end"
			}
			return "ok"
		})
	}
	orders := importOrders(c.Rand, feats, rank)
	c.Note(fmt.Sprintf("import-orders:%d", min(len(orders), 25)))
	chosen := orders[0]
	w2, imp := apply(chosen)
	for _, o := range orders[1:] {
		if imp != "ok" {
			break
		}
		if w, ans := apply(o); ans != "ok" {
			chosen, w2, imp = o, w, ans
		}
	}
	c.Op("import "+intsWords(chosen), imp)
	c.Op("state2", stateTok(w2))
	qs := collectQueries(k.w, w2)
	probes := collectionKeys(k.w, w2)
	c.Op("obs1", obs(k.w, qs, probes))
	c.Op("obs2", obs(w2, qs, probes))
	c.Op("flags2", sortedFlags(w2))
	return docs, imp
}

func (k *Case) Infer(s string) {
	k.c.Op("infer "+hx16(s), hx.Recover(func() string { return valOf(b6.ExpressionFromString(s)) }))
}

func (k *Case) Roundtrip(v string) {
	ans := hx.Recover(func() string {
		out, err := yaml.Marshal([]b6.Tag{{Key: "k", Value: valExpr(v)}})
		if err != nil {
			return "marshal-err"
		}
		var back []b6.Tag
		if err := yaml.Unmarshal(out, &back); err != nil || len(back) != 1 {
			return "err"
		}
		return valOf(back[0].Value)
	})
	k.c.Op("roundtrip "+v, ans)
}

// ---- base world -----------------------------------------------------------------------------

func pointFeat(id int, p [2]int, tags ...Tag) Feat {
	return Feat{ID: id, Body: "g", Tags: append([]Tag{{"point", pAtom(p)}}, tags...)}
}

func pathValue(elems []string) string { return "l:" + strings.Join(elems, "|") }

func pathFeat(id int, elems []string, tags ...Tag) Feat {
	return Feat{ID: id, Body: "g", Tags: append([]Tag{{"path", pathValue(elems)}}, tags...)}
}

func idAtoms(ids ...int) []string {
	out := make([]string, len(ids))
	for i, n := range ids {
		out[i] = idAtom(n)
	}
	return out
}

func randTags(r *hx.Rand, c *hx.Ctx, max int, plainOnly bool) []Tag {
	n := r.Intn(max + 1)
	var ts []Tag
	used := map[string]bool{}
	for i := 0; i < n; i++ {
		key := r.Pick(allKeys)
		if used[key] {
			continue
		}
		used[key] = true
		if plainOnly {
			ts = append(ts, Tag{key, sv(r.Pick(plainStrings))})
		} else {
			ts = append(ts, Tag{key, randValue(r, c)})
		}
	}
	return ts
}

func (k *Case) StandardBase(r *hx.Rand, vary bool) {
	v := func() int {
		if vary {
			return r.Intn(3)
		}
		return 0
	}
	tags := func(max int) []Tag {
		if vary {
			return randTags(r, k.c, max, true)
		}
		return nil
	}
	for id := 1; id <= 4; id++ {
		k.Base(pointFeat(id, posOf(id, v()), tags(2)...))
	}
	k.Base(pointFeat(5, posOf(5, v()))) // a point with its location only (not indexed)
	k.Base(pointFeat(6, posOf(6, v()), append([]Tag{{"ref", sv("six")}}, tags(2)...)...))
	k.Base(pathFeat(1007, idAtoms(1, 2, 3, 4, 1), tags(2)...))
	k.Base(pathFeat(1008, []string{idAtom(2), pAtom([2]int{515364001, -1246003}), idAtom(6)}, tags(2)...))
	k.Base(Feat{ID: 2009, Body: "a:i1007", Tags: tags(2)})
	k.Base(Feat{ID: 3010, Body: "r:1~" + hx16("stop") + ",1008~" + hx16("way"), Tags: tags(2)})
	k.Base(Feat{ID: 4011, Body: "c:" + idAtom(1) + ">" + sv("a") + "," + sv("k") + ">i:3", Tags: tags(1)})
	k.Start()
}

// ---- random features ------------------------------------------------------------------------

var baseIDs = []int{1, 2, 3, 4, 5, 6, 1007, 1008, 2009, 3010, 4011}
var pointIDs = []int{1, 2, 3, 4, 5, 6, 21, 22, 23}
var pathIDs = []int{1007, 1008, 1024, 1025}
var areaIDs = []int{2009, 2026, 2027}
var relationIDs = []int{3010, 3028, 3029}
var collectionIDs = []int{4011, 4030, 4031}

var rings = [][]int{{1, 2, 3, 4, 1}, {1, 2, 3, 1}, {2, 3, 4, 2}, {1, 3, 4, 1}, {1, 4, 3, 2, 1} /* clockwise: rejected */}

func randFeature(r *hx.Rand, c *hx.Ctx) Feat {
	tags := randTags(r, c, 3, false)
	switch x := r.Intn(20); {
	case x < 7:
		id := pointIDs[r.Intn(len(pointIDs))]
		if r.Chance(1, 15) {
			c.Note("feat:point-without-location")
			return Feat{ID: id, Body: "g", Tags: tags}
		}
		if r.Chance(1, 20) {
			c.Note("feat:point-without-tags")
			return Feat{ID: id, Body: "g"}
		}
		c.Note("feat:point")
		return pointFeat(id, posOf(id, r.Intn(3)), tags...)
	case x < 11:
		id := pathIDs[r.Intn(len(pathIDs))]
		var elems []string
		if r.Chance(2, 5) {
			elems = idAtoms(rings[r.Intn(len(rings))]...)
			c.Note("feat:path-ring")
		} else {
			n := r.Intn(5)
			for i := 0; i < n; i++ {
				if r.Chance(1, 4) {
					elems = append(elems, pAtom([2]int{515360000 + r.Intn(20000), -1250000 + r.Intn(20000)}))
				} else if r.Chance(1, 12) {
					elems = append(elems, idAtom(40))
				} else {
					elems = append(elems, idAtom(pointIDs[r.Intn(len(pointIDs))]))
				}
			}
			c.Note("feat:path-open")
		}
		return pathFeat(id, elems, tags...)
	case x < 13:
		id := areaIDs[r.Intn(len(areaIDs))]
		n := r.Intn(3)
		polys := make([]string, n)
		for i := range polys {
			if r.Chance(1, 3) {
				la, lo := 515300000+r.Intn(1000)*7, -1300000+r.Intn(1000)*7
				polys[i] = fmt.Sprintf("p%d_%d~%d_%d~%d_%d", la, lo, la, lo+10007+r.Intn(9), la+10003+r.Intn(9), lo)
			} else {
				polys[i] = "i" + strconv.Itoa(pathIDs[r.Intn(len(pathIDs))])
			}
		}
		c.Note(fmt.Sprintf("feat:area%d", n))
		return Feat{ID: id, Body: "a:" + strings.Join(polys, ";"), Tags: tags}
	case x < 17:
		id := relationIDs[r.Intn(len(relationIDs))]
		n := r.Intn(4)
		ms := make([]string, n)
		for i := range ms {
			ms[i] = fmt.Sprintf("%d~%s", AllIDs[r.Intn(len(AllIDs))], hx16(r.Pick([]string{"", "stop", "outer", "1,2", "null", "a b", "é"})))
		}
		c.Note(fmt.Sprintf("feat:relation%d", n))
		return Feat{ID: id, Body: "r:" + strings.Join(ms, ","), Tags: tags}
	default:
		id := collectionIDs[r.Intn(len(collectionIDs))]
		n := r.Intn(6)
		shape := r.Intn(8)
		keys := make([]string, n)
		for i := range keys {
			keys[i] = collectionKey(r, c, shape)
		}
		if n > 1 && r.Chance(1, 4) {
			keys[r.Intn(n)] = keys[r.Intn(n)] // a repeated key
		}
		prefix := "c:"
		if shape < 4 && r.Chance(1, 2) {
			// keys of one kind: sometimes in order, and then sometimes through CollectionFeature.Sort()
			sort.SliceStable(keys, func(i, j int) bool {
				less, _ := b6.Less(literalOf(keys[i]), literalOf(keys[j]))
				return less
			})
			if r.Chance(1, 2) {
				prefix = "cs:"
			}
		}
		es := make([]string, n)
		for i := range es {
			es[i] = keys[i] + ">" + collectionAtom(r, c)
		}
		c.Note(fmt.Sprintf("feat:collection%d", min(n, 3)))
		c.Note(fmt.Sprintf("collection-keys:shape%d%s", shape, prefix))
		return Feat{ID: id, Body: prefix + strings.Join(es, ","), Tags: tags}
	}
}

// collectionKey draws a key: shapes 0-3 are of one kind (ints, floats, strings, feature ids), 4 mixes ints and
// floats (b6.Less compares them one way round only), 5 ints and strings (not comparable), 6 anything, 7 ids and points.
func collectionKey(r *hx.Rand, c *hx.Ctx, shape int) string {
	smallInt := func() string { return "i:" + strconv.Itoa(r.Intn(9)-3) }
	smallFloat := func() string {
		return floatAtom([]float64{-2.5, -1, 0, 0.5, 1, 1.5, 2, 2.5, 3, 1e6}[r.Intn(10)])
	}
	str := func() string { return sv(r.Pick([]string{"a", "b", "B", "ab", "", "1", "10", "2", "é", "1,2", "/point/x/1", "null"})) }
	switch shape {
	case 0:
		return smallInt()
	case 1:
		return smallFloat()
	case 2:
		return str()
	case 3:
		return idAtom(AllIDs[r.Intn(len(AllIDs))])
	case 4:
		if r.Bool() {
			return smallInt()
		}
		return smallFloat()
	case 5:
		if r.Bool() {
			return smallInt()
		}
		return str()
	case 6:
		return collectionAtom(r, c)
	default:
		if r.Bool() {
			return idAtom(AllIDs[r.Intn(len(AllIDs))])
		}
		return pAtom([2]int{515360000 + r.Intn(5), -1250000 + r.Intn(5)})
	}
}

func collectionAtom(r *hx.Rand, c *hx.Ctx) string {
	for {
		// NaN never compares equal and ints beyond 2^53 lose precision against floats; not the subject here
		a := randAtom(r, c)
		if a == "f:nan" || a == "f:7ff0000000000000" || a == "f:fff0000000000000" {
			continue
		}
		if strings.HasPrefix(a, "i:") {
			if n, _ := strconv.Atoi(a[2:]); n > 1<<50 || n < -(1<<50) {
				continue
			}
		}
		return a
	}
}

func randID(r *hx.Rand) int { return AllIDs[r.Intn(len(AllIDs))] }

func runCase(c *hx.Ctx) {
	r := c.Rand
	k := newCase(c)
	k.StandardBase(r, true)
	nops := 2 + r.Intn(24)
	if c.Thorough() && r.Chance(1, 10) {
		nops = 30 + r.Intn(120)
	}
	tricky := false
	// profile: 0 = mostly tag edits (plain keys: modified-tag documents), 1 = mostly features, 2 = mixed
	profile := r.Intn(3)
	c.Note(fmt.Sprintf("profile:%d", profile))
	tagID := func() int {
		if r.Chance(3, 4) {
			return baseIDs[r.Intn(len(baseIDs))]
		}
		return randID(r)
	}
	tagKey := func() string {
		if profile == 0 && r.Chance(2, 3) {
			return r.Pick(plainKeys)
		}
		return r.Pick(allKeys)
	}
	for i := 0; i < nops; i++ {
		x := r.Intn(20)
		addtag, rmtag := 7, 11
		switch profile {
		case 0:
			addtag, rmtag = 11, 17
		case 1:
			addtag, rmtag = 3, 5
		}
		switch {
		case x < addtag:
			v := randValue(r, c)
			if !strings.HasPrefix(v, "s:") || len(v) > 12 {
				tricky = true
			}
			k.AddTag(tagID(), Tag{tagKey(), v})
			c.Note("op:addtag")
		case x < rmtag:
			k.RemoveTag(tagID(), tagKey())
			c.Note("op:rmtag")
		default:
			f := randFeature(r, c)
			ans := k.AddFeature(f)
			c.Note("op:addfeature " + ans)
		}
	}
	docs, imp := k.Finish()
	nm, nf := strings.Count(docs, "M"), strings.Count(docs, " F")+strings.Count(docs, "[F")
	c.Note(fmt.Sprintf("docs:mods=%d", min(nm, 5)))
	c.Note(fmt.Sprintf("docs:feats=%d", min(nf, 8)))
	c.Note("import:" + strings.SplitN(imp, "@", 2)[0])
	n := 2 + r.Intn(4)
	for i := 0; i < n; i++ {
		k.Infer(randString(r, c))
	}
	for i := 0; i < 2; i++ {
		k.Roundtrip(randAnyValue(r, c))
	}
	if nm >= 1 && nf >= 2 && tricky {
		c.NonTrivial()
	}
}

func main() {
	hx.Main(hx.Family{
		Name: "c18",
		Rule: "base = BasicMutableWorld (points 1-6, ring 1007, open path 1008 with a literal vertex, area 2009, relation 3010, collection 4011; varied positions and plain tags); 2-26 (thorough: up to 150) ops AddTag/RemoveTag/AddFeature over 23 ids (11 base, 11 overlay-only incl. polygon areas, relations that may contain each other, collections; 1 never existing), 3 searchable + 3 plain keys, values = strings from {plain, numeric-looking, lat,lng-looking, feature-id-looking, ;/:/quotes/yaml syntax, unicode, fuzz over the inference alphabet}, ints, floats, points, ids, lists; then export -> import into a fresh world -> full observation of both; non-trivial = at least one modified-tag document, two feature documents and a non-plain value",
		Quick:    2500,
		Thorough: 15000,
		Corpus:   corpus,
		Case:     runCase,
	})
}
