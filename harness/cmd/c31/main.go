// C31 harness: feature IDs through String/FeatureIDFromString, JSON, YAML, protobuf, the shell's
// alias tokens, Less, the compact index's order key, and the postcode / ONS codecs — on the real code.
package main

import (
	"encoding/json"
	"fmt"
	"sort"
	"strconv"
	"strings"

	"diagonal.works/b6"
	"diagonal.works/b6/api"
	"diagonal.works/b6/ingest/compact"
	pb "diagonal.works/b6/proto"
	"google.golang.org/protobuf/proto"
	"gopkg.in/yaml.v2"
	"verifharness/hx"
)

var types = []b6.FeatureType{b6.FeatureTypePoint, b6.FeatureTypePath, b6.FeatureTypeArea, b6.FeatureTypeRelation,
	b6.FeatureTypeCollection, b6.FeatureTypeExpression, b6.FeatureTypeInvalid}

var knownNamespaces = []string{
	string(b6.NamespaceOSMNode), string(b6.NamespaceOSMWay), string(b6.NamespaceOSMRelation),
	string(b6.NamespacePrivate), string(b6.NamespaceLatLng), string(b6.NamespaceMaterialised), string(b6.NamespaceUI),
	string(b6.NamespaceDiagonalEntrances), string(b6.NamespaceDiagonalAccessPaths), string(b6.NamespaceDiagonalAccessPoints),
	string(b6.NamespaceDiagonalUPRNCluster), string(b6.NamespaceUKONSBoundaries), string(b6.NamespaceGBUPRN),
	string(b6.NamespaceGBOSTerrain50Contours), string(b6.NamespaceGBOSOpenRoadsLinks), string(b6.NamespaceGBOSOpenRoadsNodes),
	string(b6.NamespaceGBOSMapBuildings), string(b6.NamespaceGBCodePoint), string(b6.NamespaceGTFS),
}

// (type, namespace) pairs that have a shell alias
var aliasPairs = []struct {
	t  b6.FeatureType
	ns b6.Namespace
}{
	{b6.FeatureTypePoint, b6.NamespaceOSMNode}, {b6.FeatureTypePath, b6.NamespaceOSMWay}, {b6.FeatureTypeArea, b6.NamespaceOSMWay},
	{b6.FeatureTypeRelation, b6.NamespaceOSMRelation}, {b6.FeatureTypeArea, b6.NamespaceUKONSBoundaries},
	{b6.FeatureTypePoint, b6.NamespaceGBCodePoint}, {b6.FeatureTypePoint, b6.NamespaceGBUPRN},
}

var oddNamespaces = []string{"a/b/c", "a", "x/", "/x", "//", "/", "a//b", "a b", "a: b", "#x", "é", "日本/語", "n/", "point", "point/a",
	"a/1", "1", "0/0", "a\tb", "a\nb", "'q'", "\"q\"", "a<b>&c", "-", "~", "null", "true", "123", "1e3", "[x]", "{x}", "a,b", "*a", "&a", "!a", "%a", "@a", "`a", "| a", "> a", " lead", "trail "}

const asciiAlphabet = "abcdefghijklmnopqrstuvwxyzABCDEFGHIJKLMNOPQRSTUVWXYZ0123456789///..--__  :#"

func randASCII(r *hx.Rand, n int) string {
	var sb strings.Builder
	for i := 0; i < n; i++ {
		sb.WriteByte(asciiAlphabet[r.Intn(len(asciiAlphabet))])
	}
	return sb.String()
}

// bytes and runes that encoders treat specially: every C0 control, DEL, C1 controls, line / paragraph separators,
// BOM, non-characters, unassigned and private-use supplementary runes, the replacement character, quotes, backslashes
var specialRunes = func() []string {
	out := []string{}
	for c := 0; c < 0x20; c++ {
		out = append(out, string(rune(c)))
	}
	return append(out, "\x7f", "\u0080", "\u0085", "\u009f", "\u00a0", "\u2028", "\u2029", "\ufeff", "\ufffe", "\uffff", "\ufdd0",
		"\U000e0020", "\U000e0001", "\U0010ffff", "\U000f0000", "\U0001f600", "\ufffd", "\"", "\\", "\\u0041", "\\n", "'", "<", ">", "&", "/", " ")
}()

// byte strings that are not UTF-8: a surrogate, an overlong form, a truncated sequence, stray bytes
var invalidUTF8 = []string{"\xed\xa0\x80", "\xed\xbf\xbf", "\xc0\x80", "\xe0\x80\x80", "\xf0\x80\x80\x80", "\xc3", "\xe6\x9d", "\xf0\x9f\x98", "\x80", "\xbf", "\xff", "\xfe", "\xf5\x80\x80\x80", "\xf4\x90\x80\x80"}

// genNamespace draws a namespace; every encoding gets every class (what each does with invalid UTF-8 is part of
// the model: JSON substitutes U+FFFD, protobuf refuses, text and YAML carry the bytes)
func genNamespace(c *hx.Ctx, utf8Only bool) string {
	r := c.Rand
	switch k := r.Intn(16); {
	case k == 10 || k == 11:
		c.Note("ns:special-runes")
		n := 1 + r.Intn(3)
		var sb strings.Builder
		for i := 0; i < n; i++ {
			sb.WriteString(r.Pick([]string{"a", "ns/", "", ".", "x y"}))
			sb.WriteString(r.Pick(specialRunes))
		}
		sb.WriteString(r.Pick([]string{"", "b", "/z"}))
		return sb.String()
	case k == 12:
		c.Note("ns:invalid-utf8")
		return r.Pick([]string{"", "a", "é/"}) + r.Pick(invalidUTF8) + r.Pick([]string{"", "b", "/語"})
	case k == 13:
		c.Note("ns:edge-spaces")
		return r.Pick([]string{" ", "  ", "\t", " a", "a ", " a/b ", "a\n", "\na"})
	case k == 14:
		if r.Chance(1, 12) {
			c.Note("ns:64KiB")
			return strings.Repeat(r.Pick([]string{"é/", "ab", "\u2028x"}), 33000)
		}
		c.Note("ns:long")
		return strings.Repeat(r.Pick([]string{"n", "é/", "a\x01"}), 130+r.Intn(200))
	case k == 15:
		c.Note("ns:known")
		return r.Pick(knownNamespaces)
	}
	switch k := r.Intn(10); {
	case k < 3:
		c.Note("ns:known")
		return r.Pick(knownNamespaces)
	case k < 5:
		c.Note("ns:odd")
		return r.Pick(oddNamespaces)
	case k < 8:
		c.Note("ns:random-ascii")
		return randASCII(r, 1+r.Intn(12))
	case k < 9:
		c.Note("ns:random-bytes")
		b := make([]byte, 1+r.Intn(8))
		for i := range b {
			b[i] = byte(r.Intn(256))
		}
		return string(b)
	default:
		c.Note("ns:empty")
		return ""
	}
}

func genType(c *hx.Ctx) b6.FeatureType {
	if c.Rand.Chance(1, 12) {
		return b6.FeatureTypeInvalid
	}
	return types[c.Rand.Intn(6)]
}

const postcodeAlphabet = "0123456789ABCDEFGHIJKLMNOPQRSTUVWXYZ"

func genPostcode(r *hx.Rand) string {
	n := 5 + r.Intn(3)
	var sb strings.Builder
	for i := 0; i < n; i++ {
		sb.WriteByte(postcodeAlphabet[r.Intn(36)])
	}
	return sb.String()
}

func genONSCode(r *hx.Rand) (string, int) {
	letter := byte('A' + r.Intn(26))
	if r.Chance(1, 6) {
		letter = byte(r.Intn(128))
		if letter == '/' {
			letter = 'E'
		}
	}
	n := r.Intn(100000000)
	if r.Chance(1, 4) {
		n = []int{0, 1, 99999999, 10000000, 9999999}[r.Intn(5)]
	}
	year := 1900 + r.Intn(256)
	if r.Chance(1, 2) {
		year = 2001 + r.Intn(25)
	}
	return fmt.Sprintf("%c%08d", letter, n), year
}

// genValue picks a value; for the codec namespaces half of them are in the codec's image.
func genValue(c *hx.Ctx, ns b6.Namespace) uint64 {
	r := c.Rand
	if ns == b6.NamespaceGBCodePoint && r.Bool() {
		c.Note("value:postcode")
		return b6.PointIDFromGBPostcode(genPostcode(r)).Value
	}
	if ns == b6.NamespaceUKONSBoundaries && r.Bool() {
		c.Note("value:ons")
		code, year := genONSCode(r)
		return b6.FeatureIDFromUKONSCode(code, year, b6.FeatureTypeArea).Value
	}
	c.Note("value:edge-or-random")
	return r.Uint64Edge()
}

func genID(c *hx.Ctx, utf8Only bool) b6.FeatureID {
	r := c.Rand
	if r.Chance(1, 3) {
		p := aliasPairs[r.Intn(len(aliasPairs))]
		c.Note("id:alias-pair")
		return b6.FeatureID{Type: p.t, Namespace: p.ns, Value: genValue(c, p.ns)}
	}
	ns := b6.Namespace(genNamespace(c, utf8Only))
	return b6.FeatureID{Type: genType(c), Namespace: ns, Value: genValue(c, ns)}
}

func typeWord(t b6.FeatureType) string {
	if t < 0 || t > b6.FeatureTypeExpression {
		return "type" + strconv.Itoa(int(t))
	}
	return t.String()
}

func idWord(id b6.FeatureID) string {
	return typeWord(id.Type) + ":" + hx.Hex([]byte(id.Namespace)) + ":" + strconv.FormatUint(id.Value, 10)
}

func bit(b bool) string {
	if b {
		return "1"
	}
	return "0"
}

func errWord(err error) string {
	if err != nil {
		return "err"
	}
	return "ok"
}

func opStr(c *hx.Ctx, id b6.FeatureID) {
	s := id.String()
	c.Op("str "+idWord(id), hx.Hex([]byte(s))+" "+idWord(b6.FeatureIDFromString(s)))
}

func opParse(c *hx.Ctx, s string) {
	c.Op("parse "+hx.Hex([]byte(s)), hx.Recover(func() string { return idWord(b6.FeatureIDFromString(s)) }))
}

func opJSON(c *hx.Ctx, id b6.FeatureID) {
	ans := hx.Recover(func() string {
		j, err := json.Marshal(id)
		if err != nil {
			return "err"
		}
		var s string
		if err := json.Unmarshal(j, &s); err != nil {
			return "err"
		}
		var back b6.FeatureID
		if err := json.Unmarshal(j, &back); err != nil {
			return "err"
		}
		return hx.Hex([]byte(s)) + " " + idWord(back)
	})
	c.Op("json "+idWord(id), ans)
}

func opYAML(c *hx.Ctx, id b6.FeatureID) {
	ans := hx.Recover(func() string {
		y, err := yaml.Marshal(id)
		if err != nil {
			return "err"
		}
		var s string
		if err := yaml.Unmarshal(y, &s); err != nil {
			return "err"
		}
		var back b6.FeatureID
		if err := yaml.Unmarshal(y, &back); err != nil {
			return "err"
		}
		return hx.Hex([]byte(s)) + " " + idWord(back)
	})
	c.Op("yaml "+idWord(id), ans)
}

func opYAMLRaw(c *hx.Ctx, s string) {
	ans := hx.Recover(func() string {
		var back b6.FeatureID
		if err := back.UnmarshalYAML(func(v interface{}) error { *(v.(*string)) = s; return nil }); err != nil {
			return "err"
		}
		return idWord(back)
	})
	c.Op("yamlraw "+hx.Hex([]byte(s)), ans)
}

func opProto(c *hx.Ctx, id b6.FeatureID) {
	ans := hx.Recover(func() string {
		p := b6.NewProtoFromFeatureID(id)
		wire, err := proto.Marshal(p)
		if err != nil {
			return "err"
		}
		var q pb.FeatureIDProto
		if err := proto.Unmarshal(wire, &q); err != nil {
			return "err"
		}
		return fmt.Sprintf("%d %s %d %s", int32(q.Type), hx.Hex([]byte(q.Namespace)), q.Value, idWord(b6.NewFeatureIDFromProto(&q)))
	})
	c.Op("proto "+idWord(id), ans)
}

func opUnparse(c *hx.Ctx, id b6.FeatureID, abbreviate bool) {
	ans := hx.Recover(func() string {
		tok := api.UnparseFeatureID(id, abbreviate)
		back, err := api.ParseFeatureIDToken(tok)
		return hx.Hex([]byte(tok)) + " " + errWord(err) + " " + idWord(back)
	})
	c.Op("unparse "+bit(abbreviate)+" "+idWord(id), ans)
}

func opToken(c *hx.Ctx, tok string) {
	ans := hx.Recover(func() string {
		back, err := api.ParseFeatureIDToken(tok)
		return errWord(err) + " " + idWord(back)
	})
	c.Op("token "+hx.Hex([]byte(tok)), ans)
}

func opLess(c *hx.Ctx, a, b, d b6.FeatureID) {
	ans := bit(a.Less(b)) + bit(b.Less(a)) + bit(b.Less(d)) + bit(d.Less(b)) + bit(a.Less(d)) + bit(d.Less(a)) + bit(a.Less(a))
	c.Op("less "+idWord(a)+" "+idWord(b)+" "+idWord(d), ans)
}

func opCompact(c *hx.Ctx, nss []b6.Namespace, a, b b6.FeatureID) {
	words := make([]string, len(nss))
	for i, ns := range nss {
		words[i] = hx.Hex([]byte(ns))
	}
	ans := hx.Recover(func() string {
		var nt compact.NamespaceTable
		in := make([]b6.Namespace, len(nss))
		copy(in, nss)
		nt.FillFromNamespaces(in)
		ea, eb := compact.EncodeFeatureID(a, &nt), compact.EncodeFeatureID(b, &nt)
		var ids compact.FeatureIDs
		ids.Append(ea)
		ids.Append(eb)
		return fmt.Sprintf("%d %d %d %d %s %s", ea.Namespace, eb.Namespace,
			compact.CombineTypeAndNamespace(ea.Type, ea.Namespace), compact.CombineTypeAndNamespace(eb.Type, eb.Namespace),
			bit(ids.Less(0, 1)), bit(a.Less(b)))
	})
	c.Op("compact "+hx.List(words)+" "+idWord(a)+" "+idWord(b), ans)
}

type encIter struct {
	ids *compact.FeatureIDs
	i   int
}

func (e *encIter) Next() bool                   { e.i++; return e.i <= e.ids.Len() }
func (e *encIter) FeatureID() compact.FeatureID { return e.ids.At(e.i - 1) }

// opPosting: the IDs are sorted the way the compact index sorts them (sort.Sort on compact.FeatureIDs), written as
// a real posting list (PostingList.Fill / Marshal) and read back with the real iterator: the order in which a
// compact world's search hands out IDs.
func opPosting(c *hx.Ctx, nss []b6.Namespace, ids []b6.FeatureID) {
	nsw := make([]string, len(nss))
	for i, ns := range nss {
		nsw[i] = hx.Hex([]byte(ns))
	}
	idw := make([]string, len(ids))
	for i, id := range ids {
		idw[i] = idWord(id)
	}
	ans := hx.Recover(func() string {
		var nt compact.NamespaceTable
		in := make([]b6.Namespace, len(nss))
		copy(in, nss)
		nt.FillFromNamespaces(in)
		var enc compact.FeatureIDs
		for _, id := range ids {
			enc.Append(nt.EncodeID(id))
		}
		sort.Sort(&enc)
		var pl compact.PostingList
		pl.Fill("t", &encIter{ids: &enc})
		buf := make([]byte, compact.PostingListHeaderMaxLength+16*len(nt.FromEncoded)*8+len(pl.IDs)+64)
		n := pl.Marshal(buf)
		it := compact.NewIterator(buf[0:n], &nt)
		out := []string{}
		for it.Next() {
			out = append(out, idWord(it.FeatureID()))
		}
		return hx.List(out)
	})
	c.Op("posting "+hx.List(nsw)+" "+hx.List(idw), ans)
}

func opPostcode(c *hx.Ctx, s string) {
	ans := hx.Recover(func() string {
		id := b6.PointIDFromGBPostcode(s)
		back := "none"
		if p, ok := b6.PostcodeFromPointID(id); ok {
			back = hx.Hex([]byte(p))
		}
		return idWord(id) + " " + back
	})
	c.Op("postcode "+hx.Hex([]byte(s)), ans)
}

func opPcid(c *hx.Ctx, id b6.FeatureID) {
	ans := hx.Recover(func() string {
		if p, ok := b6.PostcodeFromPointID(id); ok {
			return hx.Hex([]byte(p))
		}
		return "none"
	})
	c.Op("pcid "+idWord(id), ans)
}

func opONS(c *hx.Ctx, code string, year int, t b6.FeatureType) {
	ans := hx.Recover(func() string {
		id := b6.FeatureIDFromUKONSCode(code, year, t)
		back := "none -"
		if cd, y, ok := b6.UKONSCodeFromFeatureID(id); ok {
			back = hx.Hex([]byte(cd)) + " " + strconv.Itoa(y)
		}
		return idWord(id) + " " + back
	})
	c.Op(fmt.Sprintf("ons %s %d %s", hx.Hex([]byte(code)), year, typeWord(t)), ans)
}

func opONSid(c *hx.Ctx, id b6.FeatureID) {
	ans := hx.Recover(func() string {
		if cd, y, ok := b6.UKONSCodeFromFeatureID(id); ok {
			return hx.Hex([]byte(cd)) + " " + strconv.Itoa(y)
		}
		return "none -"
	})
	c.Op("onsid "+idWord(id), ans)
}

var valueTexts = []string{"", "0", "5", "007", "+5", "-1", "18446744073709551615", "18446744073709551616", "99999999999999999999999",
	"1_000", "0x10", " 5", "5 ", "5a", "٣", "1e3", "1.0"}

// mutateIDString builds strings around the grammar of FeatureIDFromString.
func mutateIDString(c *hx.Ctx) string {
	r := c.Rand
	id := genID(c, false)
	s := id.String()
	switch r.Intn(12) {
	case 0:
		return "/" + s
	case 1:
		return "//" + s
	case 2:
		return typeWord(id.Type) + "/" + string(id.Namespace) + "/" + r.Pick(valueTexts)
	case 3:
		return string(id.Namespace) + "/" + strconv.FormatUint(id.Value, 10)
	case 4:
		return typeWord(id.Type) + "/" + strconv.FormatUint(id.Value, 10)
	case 5:
		return typeWord(id.Type)
	case 6:
		return r.Pick([]string{"", "/", "//", "///", "point", "point/", "point//", "point//1", "/point//1", "invalid/a/1", "Point/a/1", "points/a/1", "poin/a/1", " point/a/1"})
	case 7:
		return s + "/"
	case 8:
		return strings.ToUpper(s)
	case 9:
		if len(s) > 0 {
			i := r.Intn(len(s))
			return s[:i] + s[i+1:]
		}
		return s
	case 10:
		i := r.Intn(len(s) + 1)
		return s[:i] + r.Pick([]string{"/", "0", "x", " "}) + s[i:]
	default:
		return s
	}
}

var tokenCorpus = []string{"", "/", "x", "/n/", "/n/123", "/n/-1", "/n/+1", "/n/1/2", "/n/18446744073709551615", "/n/18446744073709551616",
	"/w/0", "/a/5", "/r/007", "/gb/uprn/42", "/gb/uprn/", "/gb/", "/gb/codepoint", "/gb/codepoint/", "/gb/codepoint/ec1a1bb",
	"/gb/codepoint/EC1A 1BB", "/gb/codepoint/e c 1 a 1 b b", "/gb/codepoint/ec1a", "/gb/codepoint/ec1a1bbx", "/gb/codepoint/ec1a-1b",
	"/gb/codepoint/ıı1aa", "/gb/codepoint/ſſ1aa", "/gb/codepoint/ıı1aa9", "/gb/codepoint/éc1a1b", "/gb/codepoint/ec1a1\xff",
	"/uk/ons/2011/E01000953", "/uk/ons/2011/E-1234567", "/uk/ons/2011/E+1234567", "/uk/ons/+2011/E01000953", "/uk/ons/-5/E01000953",
	"/uk/ons/2011", "/uk/ons/2011/", "/uk/ons//E01000953", "/uk/ons/2011/E0100095/3", "/uk/ons/2011/E0100095", "/uk/ons/2011/E010009534",
	"/uk/ons/99999999999999999999/E01000953", "/uk/ons/9223372036854775807/E01000953", "/uk/ons/-9223372036854775808/E01000953",
	"/uk/ons/9223372036854775808/E01000953", "/uk/ons/2156/E01000953", "/uk/ons/1899/E01000953", "/uk/ons/2011/\xc801000953",
	"/uk/ons/2011/E0100095x", "/uk/ons/2011/E 1000953", "/uk/ons/20_11/E01000953",
	"/area/openstreetmap.org/way/5", "/a", "/n", "/point/a/1", "/invalid/a/1", "/point//1", "point/a/1", "/relation/r/1", "/ar/x/1"}

func genToken(c *hx.Ctx) string {
	r := c.Rand
	switch r.Intn(6) {
	case 0:
		return r.Pick(tokenCorpus)
	case 1:
		return r.Pick([]string{"/n/", "/w/", "/a/", "/r/", "/gb/uprn/"}) + r.Pick(valueTexts)
	case 2:
		p := genPostcode(r)
		switch r.Intn(5) {
		case 0:
			p = strings.ToLower(p)
		case 1:
			p = p[:3] + " " + p[3:]
		case 2:
			i := r.Intn(len(p))
			p = p[:i] + r.Pick([]string{"-", "_", "é", "ı", "ſ", "/", "."}) + p[i+1:]
		case 3:
			p = p + genPostcode(r)[:r.Intn(3)]
		}
		return "/gb/codepoint/" + p
	case 3:
		code, year := genONSCode(r)
		ys := strconv.Itoa(year)
		switch r.Intn(6) {
		case 0:
			ys = r.Pick([]string{"+", "-", "0", "00"}) + ys
		case 1:
			ys = strconv.FormatUint(r.Uint64Edge(), 10)
		case 2:
			code = code[:1] + r.Pick([]string{"-", "+", "x", " "}) + code[2:]
		case 3:
			code = code[:r.Intn(len(code))]
		}
		return "/uk/ons/" + ys + "/" + code
	case 4:
		return "/" + mutateIDString(c)
	default:
		return api.UnparseFeatureID(genID(c, false), r.Bool())
	}
}

func related(c *hx.Ctx, a b6.FeatureID) b6.FeatureID {
	r := c.Rand
	b := a
	switch r.Intn(8) {
	case 0:
		b.Value = a.Value + 1
	case 1:
		b.Value = a.Value - 1
	case 2:
		b.Namespace = a.Namespace + b6.Namespace(r.Pick([]string{"/", "a", "\x00", "\xff", "0"}))
	case 3:
		if len(a.Namespace) > 0 {
			b.Namespace = a.Namespace[:r.Intn(len(a.Namespace))]
		}
	case 4:
		b.Type = types[r.Intn(len(types))]
	case 5:
		if len(a.Namespace) > 0 {
			bs := []byte(a.Namespace)
			i := r.Intn(len(bs))
			bs[i] = byte(int(bs[i]) + []int{1, -1, 128}[r.Intn(3)])
			b.Namespace = b6.Namespace(bs)
		}
	case 6:
		return genID(c, false)
	}
	return b
}

func corpus(c *hx.Ctx) {
	// fixes/C31-unparse-alias-fallback.patch: values outside the postcode / ONS codecs' images
	for _, id := range []b6.FeatureID{
		{Type: b6.FeatureTypePoint, Namespace: b6.NamespaceGBCodePoint, Value: 3},
		{Type: b6.FeatureTypePoint, Namespace: b6.NamespaceGBCodePoint, Value: 1 << 50},
		{Type: b6.FeatureTypePoint, Namespace: b6.NamespaceGBCodePoint, Value: 63 << 2},
		{Type: b6.FeatureTypeArea, Namespace: b6.NamespaceUKONSBoundaries, Value: 1 << 50},
		{Type: b6.FeatureTypeArea, Namespace: b6.NamespaceUKONSBoundaries, Value: 200<<40 | 5},
		{Type: b6.FeatureTypeArea, Namespace: b6.NamespaceUKONSBoundaries, Value: 69<<40 | 111<<32 | 100000000},
		{Type: b6.FeatureTypeArea, Namespace: b6.NamespaceUKONSBoundaries, Value: 47<<40 | 111<<32 | 5},
		b6.PointIDFromGBPostcode("ec1a 1bb"),
		b6.FeatureIDFromUKONSCode("E01000953", 2011, b6.FeatureTypeArea),
		{Type: b6.FeatureTypeCollection, Namespace: "a/b/c", Value: 1<<64 - 1},
		{Type: b6.FeatureTypePoint, Namespace: b6.NamespaceUKONSBoundaries, Value: 5},
	} {
		opUnparse(c, id, true)
		opUnparse(c, id, false)
		opStr(c, id)
		opJSON(c, id)
		opYAML(c, id)
		opProto(c, id)
	}
	// namespaces whose Go string-literal escapes are not JSON escapes, and bytes JSON / protobuf cannot carry
	for _, ns := range []string{"a\x07b", "a\x0bb", "a\x00b", "a\x7fb", "a\U000e0020b", "a\u2028b", "a\"b\\", "a\xffb", "\xed\xa0\x80"} {
		id := b6.FeatureID{Type: b6.FeatureTypePath, Namespace: b6.Namespace(ns), Value: 7}
		opStr(c, id)
		opJSON(c, id)
		opYAML(c, id)
		opProto(c, id)
	}
	for _, t := range tokenCorpus {
		opToken(c, t)
	}
	for _, t := range types {
		for _, ns := range []string{"a/b/c", "", "x/", string(b6.NamespaceOSMWay)} {
			for _, v := range []uint64{0, 1<<63 - 1, 1 << 63, 1<<64 - 1} {
				id := b6.FeatureID{Type: t, Namespace: b6.Namespace(ns), Value: v}
				opStr(c, id)
				opJSON(c, id)
				opYAML(c, id)
				opProto(c, id)
				opUnparse(c, id, true)
			}
		}
	}
	for _, s := range []string{"", "/", "/point/a/1", "point/a/1"} {
		opYAMLRaw(c, s)
	}
	c.NonTrivial()
}

func main() {
	hx.Main(hx.Family{
		Name: "c31",
		Rule: "per case ~12 observations on IDs drawn from: 7 types x (19 known namespaces | 44 odd ones incl. a/b/c, trailing '/', YAML/JSON-hostile | random ASCII | random bytes | empty | every C0 control, DEL, C1, U+2028/9, BOM, non-characters, unassigned / private-use supplementary runes, quotes, backslashes | invalid UTF-8 (surrogates, overlong, truncated, stray bytes) | leading / trailing white space | 130-330 and, rarely, 66000+ bytes), for every encoding alike x (edge/random 64-bit values | postcode- and ONS-encoded values); string/JSON/YAML/proto round trips, mutated ID strings, alias tokens (valid, near-miss), Less on related triples, compact order on random namespace tables (FeatureIDs.Less, and the iteration order of a real posting list built from 2-12 distinct IDs), postcode and ONS codecs; non-trivial = the case contains an ID with a '/'-bearing or alias namespace AND a value >= 2^32",
		Quick:    2500,
		Thorough: 150000,
		Corpus:   corpus,
		Case: func(c *hx.Ctx) {
			r := c.Rand
			nt := false
			note := func(id b6.FeatureID) {
				if strings.Contains(string(id.Namespace), "/") && id.Value >= 1<<32 {
					nt = true
				}
				if id.IsValid() {
					c.Note("id:valid")
				} else {
					c.Note("id:invalid")
				}
			}
			id := genID(c, false)
			note(id)
			opStr(c, id)
			opUnparse(c, id, true)
			opUnparse(c, id, false)
			opYAML(c, id)
			opPcid(c, id)
			opONSid(c, id)
			id2 := genID(c, true)
			note(id2)
			opJSON(c, id2)
			opProto(c, id2)
			opYAML(c, id2)
			opUnparse(c, id2, true)
			opParse(c, mutateIDString(c))
			opYAMLRaw(c, r.Pick([]string{"", "/"})+mutateIDString(c))
			opToken(c, genToken(c))
			opToken(c, genToken(c))
			// order
			a := genID(c, false)
			b := related(c, a)
			d := related(c, b)
			if r.Chance(1, 4) {
				d = related(c, a)
			}
			opLess(c, a, b, d)
			// compact order: a table from a few namespaces (duplicates allowed), both IDs inside it
			n := 1 + r.Intn(6)
			nss := make([]b6.Namespace, 0, n+2)
			for i := 0; i < n; i++ {
				nss = append(nss, b6.Namespace(genNamespace(c, false)))
			}
			if r.Chance(1, 3) && len(nss) > 0 {
				nss = append(nss, nss[r.Intn(len(nss))])
				c.Note("compact:duplicate-ns")
			}
			if r.Chance(1, 3) && len(nss) > 0 {
				nss = append(nss, nss[r.Intn(len(nss))]+"/")
			}
			ca := b6.FeatureID{Type: types[r.Intn(len(types))], Namespace: nss[r.Intn(len(nss))], Value: r.Uint64Edge()}
			cb := b6.FeatureID{Type: types[r.Intn(len(types))], Namespace: nss[r.Intn(len(nss))], Value: r.Uint64Edge()}
			if r.Bool() {
				cb.Type = ca.Type
			}
			if r.Chance(1, 4) {
				cb.Namespace = ca.Namespace
			}
			if r.Chance(1, 20) {
				cb.Namespace = "not-in-table"
				c.Note("compact:missing-ns")
			}
			if r.Chance(1, 20) {
				ca.Namespace = ""
			}
			opCompact(c, nss, ca, cb)
			// the same order through a real posting list: distinct IDs over the table's namespaces
			pts := []b6.FeatureID{}
			seen := map[b6.FeatureID]bool{}
			for i := 0; i < 2+r.Intn(10); i++ {
				id := b6.FeatureID{Type: types[r.Intn(4)], Namespace: nss[r.Intn(len(nss))], Value: r.Uint64Edge()}
				if r.Chance(1, 3) && len(pts) > 0 {
					id = pts[r.Intn(len(pts))]
					switch r.Intn(3) {
					case 0:
						id.Value++
					case 1:
						id.Type = types[r.Intn(4)]
					default:
						id.Namespace = nss[r.Intn(len(nss))]
					}
				}
				if !seen[id] {
					seen[id] = true
					pts = append(pts, id)
				}
			}
			opPosting(c, nss, pts)
			// codecs
			p := genPostcode(r)
			switch r.Intn(6) {
			case 0:
				p = strings.ToLower(p)
			case 1:
				p = p[:2] + " " + p[2:]
			case 2:
				p = p[:r.Intn(len(p))]
			case 3:
				i := r.Intn(len(p))
				p = p[:i] + r.Pick([]string{"-", "é", "ı", "ſ", "/", "a"}) + p[i+1:]
			}
			opPostcode(c, p)
			// near-miss packed values: one 6-bit element pushed to the edge of / outside the alphabet, any length code
			pv := b6.PointIDFromGBPostcode(genPostcode(r))
			shift := uint(2 + 6*r.Intn(8))
			pv.Value = pv.Value&^(63<<shift) | uint64([]int{0, 9, 10, 35, 36, 37, 63}[r.Intn(7)])<<shift
			if r.Chance(1, 3) {
				pv.Value = pv.Value&^3 | uint64(r.Intn(4))
			}
			opPcid(c, pv)
			opUnparse(c, pv, true)
			code, year := genONSCode(r)
			switch r.Intn(8) {
			case 0:
				code = code[:1] + r.Pick([]string{"-", "+", "x"}) + code[2:]
			case 1:
				code = code[:r.Intn(len(code))]
			case 2:
				year = int(int64(r.Uint64Edge()))
			case 3:
				code = string([]byte{byte(r.Intn(256))}) + code[1:]
			}
			opONS(c, code, year, types[r.Intn(len(types))])
			if nt {
				c.NonTrivial()
			}
		},
	})
}
