// C37 harness: generated sources containing invalid features (short paths, missing or unlocated
// points, open / clockwise / self-crossing loops under areas, areas over missing paths) built with
// BasicWorldBuilder.Finish and streamed through compact.Validator, and edit histories on a
// BasicMutableWorld. What S2 says about every closed loop of a case is computed by the parent (the
// same two calls ValidatePath makes) and handed to the driver as an oracle table. Cases run in child
// processes: a validation panic inside Finish's goroutines is fatal.
package main

import (
	"fmt"
	"math"
	"sort"
	"strings"

	"diagonal.works/b6"
	"diagonal.works/b6/ingest"
	"diagonal.works/b6/ingest/compact"
	"github.com/golang/geo/s2"
	"verifharness/hx"
	"verifharness/skelx"
)

// ---- child side -------------------------------------------------------------------------------------

var slotOfE7 = func() map[string]int {
	m := map[string]int{}
	for k := 0; k < 4*skelx.Slots; k++ {
		m[skelx.E7(skelx.SlotLatLng(k))] = k
	}
	return m
}()

func slotOf(ll s2.LatLng) (int, bool) {
	k, ok := slotOfE7[skelx.E7(ll)]
	return k, ok
}

func featToken(f b6.Feature) string {
	s := skelx.GeoToken(f, slotOf)
	if f.FeatureID().Type == b6.FeatureTypePoint {
		if p, ok := f.(b6.PhysicalFeature); ok && p.GeometryType() == b6.GeometryTypePoint {
			if k, ok := slotOf(s2.LatLngFromPoint(p.Point())); ok {
				return s + fmt.Sprintf(";loc=%d", k)
			}
			return s + ";loc=999"
		}
		return s + ";noloc"
	}
	return s
}

func segment(op, key string) []string {
	i := strings.Index(op, key+"=[")
	if i < 0 {
		panic("no segment " + key)
	}
	rest := op[i+len(key)+2:]
	j := strings.Index(rest, "]")
	return strings.Fields(rest[:j])
}

type pointLocations map[b6.FeatureID]s2.LatLng

func (p pointLocations) FindLocationByID(id b6.FeatureID) (s2.LatLng, error) {
	if ll, ok := p[id]; ok {
		return ll, nil
	}
	return s2.LatLng{}, fmt.Errorf("no location for %s", id)
}

func newExec() func(string) string {
	var mw *ingest.BasicMutableWorld
	return func(op string) string {
		ws := strings.Fields(op)
		switch ws[0] {
		case "oracle":
			return "ok"
		case "build":
			invert := ws[2] == "invert=1"
			cores := 1
			if strings.HasPrefix(ws[3], "cores=") {
				fmt.Sscanf(ws[3], "cores=%d", &cores)
			}
			b := ingest.NewBasicWorldBuilder(&ingest.BuildOptions{Cores: cores})
			for _, t := range segment(op, "src") {
				b.AddFeature(skelx.MustBuild(t))
			}
			w, err := b.Finish(&ingest.BuildOptions{Cores: cores, FailClockwisePaths: !invert})
			if err != nil {
				return "err"
			}
			return hx.List(skelx.DumpWorld(w, featToken))
		case "validator":
			locs := pointLocations{}
			for _, t := range segment(op, "pts") {
				sp, _ := skelx.ParseSpec(t)
				if _, no := sp.Attrs["noloc"]; !no {
					k := int(sp.ID.Value)
					if v, ok := sp.Attrs["loc"]; ok {
						fmt.Sscanf(v, "%d", &k)
					}
					locs[sp.ID] = skelx.RefLatLng(k) // what a world would answer for the point feature
				}
			}
			v := compact.NewValidator(locs)
			var out []string
			for _, t := range segment(op, "src") {
				f := skelx.MustBuild(t)
				var emitted []ingest.Feature
				switch f.FeatureID().Type {
				case b6.FeatureTypePath:
					emitted = v.ValidatePath(f.(*ingest.GenericFeature), nil)
				case b6.FeatureTypeArea:
					emitted = v.ValidateArea(f.(*ingest.AreaFeature), nil)
				default:
					emitted = []ingest.Feature{f}
				}
				for _, e := range emitted {
					out = append(out, featToken(e))
				}
			}
			return hx.List(out)
		case "mw.new":
			mw = ingest.NewBasicMutableWorld()
			return "ok"
		case "mw.add":
			res := "ok"
			if err := mw.AddFeature(skelx.MustBuild(ws[1])); err != nil {
				res = "err"
			}
			return res + " " + hx.List(skelx.DumpWorld(mw, featToken))
		}
		panic("bad op " + op)
	}
}

// ---- parent side: generator -----------------------------------------------------------------------

type gen struct {
	r      *hx.Rand
	slots  map[string][]int    // point -> every slot it has in this case
	paths  map[string][]string // every path spec of the case: token -> elements
	script []string
	notes  []string
}

func (g *gen) note(n string) { g.notes = append(g.notes, n) }

func (g *gen) point(v int, locChance int) string {
	id := fmt.Sprintf("p%d", v)
	if g.r.Chance(1, locChance) {
		return id + "=;noloc"
	}
	k := v
	if g.r.Chance(1, 5) {
		k = v + skelx.Slots*(1+g.r.Intn(2)) // same direction, farther out
	}
	if g.r.Chance(1, 40) {
		k = g.r.Intn(skelx.Slots) // anywhere: may coincide with another point
	}
	g.slots[id] = append(g.slots[id], k)
	return fmt.Sprintf("%s=;loc=%d", id, k)
}

var pointVals = []int{1, 2, 3, 4, 5, 6, 7, 8}

func (g *gen) pathRefs() []string {
	r := g.r
	pick := func(n int) []int {
		p := r.Perm(len(pointVals))[:n]
		sort.Ints(p)
		out := make([]int, n)
		for i, x := range p {
			out[i] = pointVals[x]
		}
		return out
	}
	tok := func(vs []int) []string {
		out := make([]string, len(vs))
		for i, v := range vs {
			out[i] = fmt.Sprintf("p%d", v)
		}
		return out
	}
	inl := func(v int) string { return fmt.Sprintf("@%d", v) } // inline point at the slot of point v
	if r.Chance(1, 6) { // lengths 0 / 1 / 2 with the elements inline, by reference, mixed
		switch r.Intn(8) {
		case 0:
			return nil
		case 1:
			return tok(pick(1))
		case 2:
			return []string{inl(pick(1)[0])}
		case 3:
			vs := pick(2)
			return []string{inl(vs[0]), inl(vs[1])}
		case 4:
			vs := pick(2)
			return []string{tok(vs[:1])[0], inl(vs[1])}
		case 5:
			vs := pick(2)
			return []string{inl(vs[0]), tok(vs[1:])[0]}
		case 6:
			v := pick(1)[0]
			return []string{inl(v), inl(v)}
		default:
			return tok(pick(2))
		}
	}
	if r.Chance(1, 5) { // a longer path with some elements inline: open, "closed" by reference, closed only geometrically
		vs := pick(3 + r.Intn(3))
		es := tok(vs)
		closeHow := r.Intn(3)
		switch closeHow {
		case 1:
			es = append(es, es[0]) // closed by reference
		case 2:
			es = append(es, inl(vs[0])) // ends at the same location, but not by the same ID
		}
		for i := range es {
			if (i > 0 || closeHow != 1 || r.Chance(1, 4)) && r.Chance(1, 3) {
				var v int
				fmt.Sscanf(strings.TrimLeft(es[i], "p@"), "%d", &v)
				es[i] = inl(v)
			}
		}
		return es
	}
	switch k := r.Intn(20); {
	case k < 5: // open
		return tok(pick(2 + r.Intn(4)))
	case k < 11: // closed, counter-clockwise
		vs := pick(3 + r.Intn(3))
		return tok(append(vs, vs[0]))
	case k < 14: // closed, clockwise
		vs := pick(3 + r.Intn(3))
		sort.Sort(sort.Reverse(sort.IntSlice(vs)))
		return tok(append(vs, vs[0]))
	case k < 16: // closed, shuffled: may cross itself
		vs := pick(4 + r.Intn(2))
		p := r.Perm(len(vs))
		sh := make([]int, len(vs))
		for i, j := range p {
			sh[i] = vs[j]
		}
		return tok(append(sh, sh[0]))
	case k == 16: // too short
		return tok(pick(1))
	case k == 17: // degenerate closed
		vs := pick(1 + r.Intn(2))
		return tok(append(vs, vs[0]))
	case k == 18: // a point that does not exist anywhere
		vs := pick(3)
		return append(tok(append(vs, vs[0]))[:2], "p99", fmt.Sprintf("p%d", vs[0]))
	default: // repeated vertex
		vs := pick(3)
		return tok([]int{vs[0], vs[1], vs[0], vs[2], vs[0]})
	}
}

func (g *gen) path(v int) string {
	refs := g.pathRefs()
	inline := 0
	for _, e := range refs {
		if e[0] == '@' {
			inline++
		}
	}
	switch {
	case inline == 0:
		g.note(fmt.Sprintf("path:len%d:by-reference", min(len(refs), 3)))
	case inline == len(refs):
		g.note(fmt.Sprintf("path:len%d:inline", min(len(refs), 3)))
	default:
		g.note(fmt.Sprintf("path:len%d:mixed", min(len(refs), 3)))
	}
	tok := fmt.Sprintf("w%d=%s", v, strings.Join(refs, ","))
	g.paths[tok] = refs
	return tok
}

var pathVals = []int{10, 11, 12, 13, 14}

// area: 1..3 polygons; each is a closed-looking path, any path, a missing path, two paths (outer and
// hole) or an explicit polygon — so that a defective member can sit at any position, before or after
// explicit ones.
func (g *gen) area(v int) string {
	r := g.r
	n := 1 + r.Intn(3)
	if r.Chance(1, 2) {
		n = 1
	}
	anyPath := func() string { return fmt.Sprintf("w%d", pathVals[r.Intn(len(pathVals))]) }
	var polys []string
	for i := 0; i < n; i++ {
		switch k := r.Intn(12); {
		case k == 0:
			polys = append(polys, "w77") // no such path
		case k == 1 && n > 1:
			polys = append(polys, "*")
		case k == 2:
			polys = append(polys, anyPath()+","+anyPath())
		default:
			polys = append(polys, anyPath())
		}
	}
	g.note(fmt.Sprintf("area:polygons:%d", n))
	return fmt.Sprintf("a%d=%s", v, strings.Join(polys, "|"))
}

func (g *gen) relation(v int) string {
	r := g.r
	n := r.Intn(3)
	var refs []string
	for i := 0; i < n; i++ {
		switch r.Intn(3) {
		case 0:
			refs = append(refs, fmt.Sprintf("p%d", pointVals[r.Intn(len(pointVals))]))
		case 1:
			refs = append(refs, fmt.Sprintf("w%d", pathVals[r.Intn(len(pathVals))]))
		default:
			refs = append(refs, fmt.Sprintf("a%d", 20+r.Intn(3)))
		}
	}
	return fmt.Sprintf("r%d=%s", v, strings.Join(refs, ","))
}

// oracleTable asks S2 about the loop of every path spec of the case (all elements but the last), under
// every combination of the slots its referenced points take in the case, in both directions. Whether
// ValidatePath consults it (Tags.ClosedPath) is the model's business.
func (g *gen) oracleTable() string {
	entries := map[string]string{}
	keys := make([]string, 0, len(g.paths))
	for k := range g.paths {
		keys = append(keys, k)
	}
	sort.Strings(keys)
	for _, k := range keys {
		refs := g.paths[k]
		if len(refs) < 2 {
			continue
		}
		for _, dir := range [][]string{refs, reversed(refs)} {
			combos := [][]int{{}}
			ok := true
			for _, p := range dir {
				var ss []int
				if p[0] == '@' {
					var v int
					fmt.Sscanf(p[1:], "%d", &v)
					ss = []int{1000 + v} // inline slots are numbered from 1000 (exact coordinates)
				} else {
					ss = uniq(g.slots[p])
				}
				if len(ss) == 0 {
					ok = false
					break
				}
				var next [][]int
				for _, c := range combos {
					for _, s := range ss {
						next = append(next, append(append([]int{}, c...), s))
					}
				}
				combos = next
				if len(combos) > 256 {
					combos = combos[:256]
				}
			}
			if !ok {
				continue
			}
			for _, c := range combos {
				// a repeated point takes one slot at a time
				consistent := true
				seen := map[string]int{}
				for i, p := range dir {
					if s, ok := seen[p]; ok && s != c[i] {
						consistent = false
					}
					seen[p] = c[i]
				}
				if !consistent {
					continue
				}
				loop := c[:len(c)-1]
				key := make([]string, len(loop))
				pts := make([]s2.Point, len(loop))
				for i, s := range loop {
					key[i] = fmt.Sprint(s)
					if s >= 1000 {
						pts[i] = s2.PointFromLatLng(skelx.InlineLatLng(s - 1000))
					} else {
						pts[i] = s2.PointFromLatLng(skelx.RefLatLng(s)) // as the world locates the point feature
					}
				}
				l := s2.LoopFromPoints(pts)
				v, o := "i", "w"
				if l.Validate() == nil {
					v = "v"
				}
				if !(l.Area() > 2.0*math.Pi) {
					o = "c"
				}
				entries[strings.Join(key, ".")] = v + o
			}
		}
	}
	ks := make([]string, 0, len(entries))
	for k := range entries {
		ks = append(ks, k)
	}
	sort.Strings(ks)
	out := make([]string, len(ks))
	for i, k := range ks {
		out[i] = k + "=" + entries[k]
	}
	return hx.List(out)
}

func reversed(xs []string) []string {
	out := make([]string, len(xs))
	for i, x := range xs {
		out[len(xs)-1-i] = x
	}
	return out
}

func uniq(xs []int) []int {
	seen := map[int]bool{}
	var out []int
	for _, x := range xs {
		if !seen[x] {
			seen[x] = true
			out = append(out, x)
		}
	}
	return out
}

func (g *gen) source() (pts, rest []string) {
	r := g.r
	for _, v := range pointVals {
		if r.Chance(11, 12) {
			pts = append(pts, g.point(v, 14))
		}
	}
	for _, v := range pathVals {
		if r.Chance(3, 4) {
			rest = append(rest, g.path(v))
		}
	}
	for v := 20; v < 23; v++ {
		if r.Chance(2, 3) {
			rest = append(rest, g.area(v))
		}
	}
	for v := 1; v < 3; v++ {
		if r.Chance(1, 2) {
			rest = append(rest, g.relation(v))
		}
	}
	return
}

func shuffle(r *hx.Rand, xs []string) []string {
	p := r.Perm(len(xs))
	out := make([]string, len(xs))
	for i, j := range p {
		out[i] = xs[j]
	}
	return out
}

func genCase(r *hx.Rand) (g *gen, family string) {
	g = &gen{r: r, slots: map[string][]int{}, paths: map[string][]string{}}
	switch k := r.Intn(10); {
	case k < 4:
		family = "build"
		pts, rest := g.source()
		src := shuffle(r, append(append([]string{}, pts...), rest...))
		g.script = append(g.script, fmt.Sprintf("build basic invert=%d cores=%d src=%s", r.Intn(2), 1+3*r.Intn(2), hx.List(src)))
		g.script = append(g.script, fmt.Sprintf("build basic invert=%d cores=1 src=%s", r.Intn(2), hx.List(shuffle(r, src))))
	case k < 6:
		family = "validator"
		pts, rest := g.source()
		var stream []string
		for _, t := range rest {
			if t[0] != 'r' {
				stream = append(stream, t)
			}
		}
		g.script = append(g.script, fmt.Sprintf("validator pts=%s src=%s", hx.List(pts), hx.List(shuffle(r, stream))))
		g.script = append(g.script, fmt.Sprintf("validator pts=%s src=%s", hx.List(pts), hx.List(shuffle(r, stream))))
	default:
		family = "edits"
		g.script = append(g.script, "mw.new")
		for _, v := range pointVals {
			if r.Chance(14, 15) {
				g.script = append(g.script, "mw.add "+g.point(v, 40))
			}
		}
		n := 6 + r.Intn(12)
		for i := 0; i < n; i++ {
			switch k := r.Intn(10); {
			case k < 4:
				g.script = append(g.script, "mw.add "+g.path(pathVals[r.Intn(len(pathVals))]))
			case k < 6:
				g.script = append(g.script, "mw.add "+g.area(20+r.Intn(3)))
			case k < 9:
				g.script = append(g.script, "mw.add "+g.point(pointVals[r.Intn(len(pointVals))], 6)) // move / unlocate a point
			default:
				g.script = append(g.script, "mw.add "+g.relation(1+r.Intn(2)))
			}
		}
	}
	g.script = append([]string{"oracle " + g.oracleTable()}, g.script...)
	return
}

func emit(c *hx.Ctx, script, answers []string) {
	for i, op := range script[:len(answers)] { // a case whose child died is cut after the fatal op
		c.Op(op, answers[i])
		ws := strings.Fields(op)
		kind := ws[0]
		if kind == "build" {
			kind += ":" + ws[2]
		}
		c.Note("op:" + kind)
		a := answers[i]
		switch {
		case a == "crash" || a == "hang" || a == "panic":
			c.Note("answer:" + a)
		case strings.HasPrefix(a, "err"):
			c.Note("answer:err")
		case strings.HasPrefix(a, "ok "):
			c.Note("answer:ok")
		}
		if ws[0] == "build" || ws[0] == "validator" {
			in := len(segment(op, "src"))
			out := len(strings.Fields(strings.Trim(a, "[]")))
			if ws[0] == "validator" {
				in += 0
			}
			if out < in {
				c.Note(ws[0] + ":dropped-some")
				c.NonTrivial()
			} else {
				c.Note(ws[0] + ":kept-all")
			}
		}
		if ws[0] == "mw.add" && strings.HasPrefix(a, "err") {
			c.NonTrivial()
		}
	}
}

func corpus(c *hx.Ctx) {
	scripts := [][]string{
		// fixed (fixes/C37-finish-validate-paths-before-areas.patch): area 20 over path 10 whose point 4 is
		// missing: the path was deleted after the area had been accepted
		{"oracle [1.2.3=vc]", "build basic invert=1 cores=1 src=[p1=;loc=1 p2=;loc=2 p3=;loc=3 w10=p1,p2,p3,p4,p1 a20=w10]",
			"build basic invert=1 cores=1 src=[p1=;loc=1 p2=;loc=2 p3=;loc=3 w10=p1,p2,p3,p1 a20=w10]"},
		// … and with the FIRST point missing the validation goroutine panicked (fatal)
		{"oracle []", "build basic invert=1 cores=1 src=[p2=;loc=2 p3=;loc=3 w10=p1,p2,p3,p1 a20=w10]"},
		// clockwise loop: inverted by the builder, rejected by the mutable world
		{"oracle [1.2.3=vc 3.2.1=vw 3.1.2=vc]", "build basic invert=1 cores=1 src=[p1=;loc=1 p2=;loc=2 p3=;loc=3 w10=p3,p2,p1,p3 a20=w10]",
			"build basic invert=0 cores=1 src=[p1=;loc=1 p2=;loc=2 p3=;loc=3 w10=p3,p2,p1,p3 a20=w10]",
			"mw.new", "mw.add p1=;loc=1", "mw.add p2=;loc=2", "mw.add p3=;loc=3", "mw.add w10=p3,p2,p1,p3", "mw.add w10=p1,p2,p3,p1", "mw.add a20=w10",
			"mw.add w10=p1,p2", "mw.add p2=;noloc"},
		{"oracle [1.2.3=vc]", "validator pts=[p1=;loc=1 p2=;loc=2 p3=;loc=3] src=[a20=w10 a21=w11 w10=p1,p2,p3,p1 w11=p1,p2]"},
		// fixed (fixes/C37-validate-area-unresolved-point.patch): replacing the first point of a closed path under an
		// area by a point without location panicked when the area was re-validated before the path (map order)
		{"oracle [5.7.8=vc]", "mw.new", "mw.add p5=;loc=5", "mw.add p7=;loc=7", "mw.add p8=;loc=8", "mw.add w10=p5,p7,p8,p5", "mw.add a21=w10",
			"mw.add p5=;noloc", "mw.add p5=;noloc", "mw.add p5=;noloc", "mw.add p5=;noloc"},
		// seeded-change witnesses: the defective member is a LATER polygon of the area (before / after an explicit
		// polygon); a one-point path whose point is inline; a path that is closed only geometrically
		{"oracle [1.2.3=vc]", "build basic invert=1 cores=1 src=[p1=;loc=1 p2=;loc=2 p3=;loc=3 w10=p1,p2,p3,p1 w11=p1,p2,p3 a20=w10|w77 a21=w10|*|w11 a22=*|w10 a23=w10|w10,w11]",
			"mw.new", "mw.add p1=;loc=1", "mw.add p2=;loc=2", "mw.add p3=;loc=3", "mw.add w10=p1,p2,p3,p1", "mw.add w11=p1,p2,p3", "mw.add a20=w10|w77", "mw.add a21=w10|*|w11", "mw.add a22=*|w10"},
		{"oracle [1.2=ic 1001.2=ic 1003=ic]", "build basic invert=1 cores=1 src=[p1=;loc=1 p2=;loc=2 w12=@3 w13=p1 w14= w10=p1,p2,@1 w11=@3,@3 a20=w10]",
			"mw.new", "mw.add p1=;loc=1", "mw.add w12=@3", "mw.add w13=p1", "mw.add w14=", "mw.add w11=@3,@3",
			"validator pts=[p1=;loc=1 p2=;loc=2] src=[w12=@3 w13=p1 a20=w10 w10=p1,p2,@1]"},
		// finding degenerate_loop: points 3 and 6 coincide; S2 calls the loop valid and clockwise both ways
		{"oracle [25.6.5.6=vw]", "validator pts=[p1=;loc=25 p3=;loc=6 p5=;loc=5 p6=;loc=6] src=[w12=p1,p3,p5,p6,p1]",
			"build basic invert=1 cores=1 src=[p1=;loc=25 p3=;loc=6 p5=;loc=5 p6=;loc=6 w12=p1,p3,p5,p6,p1]"},
	}
	for i, a := range skelx.Batch(c, scripts) {
		emit(c, scripts[i], a)
	}
	c.NonTrivial()
}

const batchSize = 100

var (
	batchStart   = -1
	batchGens    []*gen
	batchFamily  []string
	batchAnswers [][]string
)

func main() {
	skelx.RegisterScriptChildren(newExec)
	hx.Main(hx.Family{
		Name: "c37",
		Rule: "generated sources (points with / without / moved / coinciding locations; paths open, closed counter-clockwise, clockwise, shuffled, too short, degenerate, through a missing point, with a repeated vertex; areas over valid, invalid, open and missing paths; relations) built by BasicWorldBuilder.Finish (invert on/off, 1 and 4 cores, shuffled order), streamed through compact.Validator in random order, and edit histories on a BasicMutableWorld (add, replace, move and unlocate points, replace paths under areas); S2's verdict on every closed loop is an oracle table computed by the harness; cases run in child processes; non-trivial = a build / validator run dropped at least one feature, or an edit was rejected; distinct = by hash of the op text",
		Quick:    2400,
		Thorough: 20000,
		Corpus:   corpus,
		Case: func(c *hx.Ctx) {
			start := c.CaseNo - c.CaseNo%batchSize
			if start != batchStart {
				batchStart = start
				batchGens, batchFamily = nil, nil
				var scripts [][]string
				for k := start; k < start+batchSize; k++ {
					g, fam := genCase(hx.NewRand(c.Seed*0x9e3779b97f4a7c15 ^ uint64(k)*0xd1342543de82ef95 ^ 0x2545f4914f6cdd1d))
					batchGens = append(batchGens, g)
					batchFamily = append(batchFamily, fam)
					scripts = append(scripts, g.script)
				}
				batchAnswers = skelx.Batch(c, scripts)
			}
			c.Note("family:" + batchFamily[c.CaseNo-start])
			for _, n := range batchGens[c.CaseNo-start].notes {
				c.Note(n)
			}
			emit(c, batchGens[c.CaseNo-start].script, batchAnswers[c.CaseNo-start])
		},
	})
}
