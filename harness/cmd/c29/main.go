// C29 harness: OSM inputs -> features, on the real ingest code.
//
//	source mem n element*            answer ok nf feature* | panic      NewFeatureSourceFromPBF(MemoryOSMSource).Read, emission order
//	source pbf cores                 answer ok nf feature* | err        same input written with osm.Writer, PBFFilesOSMSource; cores>1: sorted
//	world mem|pbf|compact c k id*    answer ok nf feature* | err        BuildWorldFromOSM / NewWorldFromPBFFile / compact.BuildInMemory,
//	                                                                    every feature of the world, sorted by ID; id* = closed ways that
//	                                                                    are clockwise (S2 loop area, computed here from the input)
//	key k                            answer k'                          KeyForOSMKey
//
// element: see harness/cmd/c27 (a node's lat/lon are E7 integers here).
// fid      pt/n/ID pa/w/ID ar/w/ID ar/r/ID re/r/ID  (type / OSM namespace / uint64)
// tag      key (S str | P latE7 lonE7 | I n fid* | X)
// feature  G fid nt tag*  |  A fid nt tag* np (n fid*)*  |  L fid nt tag* nm (fid role)*
package main

import (
	"bytes"
	"context"
	"fmt"
	"io"
	"log"
	"math"
	"os"
	"sort"
	"strconv"
	"strings"
	"sync"
	"time"

	"diagonal.works/b6"
	"diagonal.works/b6/ingest"
	"diagonal.works/b6/ingest/compact"
	"diagonal.works/b6/osm"
	"github.com/golang/geo/s2"
	"verifharness/hx"
)

type tw struct{ sb strings.Builder }

func (t *tw) w(s string) {
	if t.sb.Len() > 0 {
		t.sb.WriteByte(' ')
	}
	t.sb.WriteString(s)
}
func (t *tw) i(v int64)      { t.w(strconv.FormatInt(v, 10)) }
func (t *tw) n(v int)        { t.w(strconv.Itoa(v)) }
func (t *tw) s(v string)     { t.w(hx.Hex([]byte(v))) }
func (t *tw) String() string { return t.sb.String() }

func e7(deg float64) int64 { return int64(math.Round(deg * 1e7)) }

func writeElem(t *tw, e osm.Element) {
	tags := func(ts osm.Tags) {
		t.n(len(ts))
		for _, tag := range ts {
			t.s(tag.Key)
			t.s(tag.Value)
		}
	}
	switch e := e.(type) {
	case *osm.Node:
		t.w("N")
		t.i(int64(e.ID))
		t.i(e7(e.Location.Lat))
		t.i(e7(e.Location.Lng))
		tags(e.Tags)
	case *osm.Way:
		t.w("W")
		t.i(int64(e.ID))
		t.n(len(e.Nodes))
		for _, n := range e.Nodes {
			t.i(int64(n))
		}
		tags(e.Tags)
	case *osm.Relation:
		t.w("R")
		t.i(int64(e.ID))
		t.n(len(e.Members))
		for _, m := range e.Members {
			switch m.Type {
			case osm.ElementTypeNode:
				t.w("n")
			case osm.ElementTypeWay:
				t.w("w")
			default:
				t.w("r")
			}
			t.i(int64(m.ID))
			t.s(m.Role)
		}
		tags(e.Tags)
	}
}

func fid(id b6.FeatureID) string {
	ty := "??"
	switch id.Type {
	case b6.FeatureTypePoint:
		ty = "pt"
	case b6.FeatureTypePath:
		ty = "pa"
	case b6.FeatureTypeArea:
		ty = "ar"
	case b6.FeatureTypeRelation:
		ty = "re"
	}
	ns := "?"
	switch id.Namespace {
	case b6.NamespaceOSMNode:
		ns = "n"
	case b6.NamespaceOSMWay:
		ns = "w"
	case b6.NamespaceOSMRelation:
		ns = "r"
	}
	return ty + "/" + ns + "/" + strconv.FormatUint(id.Value, 10)
}

func writeTags(t *tw, tags b6.Tags) {
	t.n(len(tags))
	for _, tag := range tags {
		t.s(tag.Key)
		switch v := tag.Value.AnyExpression.(type) {
		case b6.StringExpression:
			t.w("S")
			t.s(string(v))
		case b6.PointExpression:
			t.w("P")
			t.i(e7(s2.LatLng(v).Lat.Degrees()))
			t.i(e7(s2.LatLng(v).Lng.Degrees()))
		case b6.Expressions:
			t.w("I")
			t.n(len(v))
			for _, x := range v {
				if id, ok := x.(b6.FeatureIDExpression); ok {
					t.w(fid(b6.FeatureID(id)))
				} else {
					t.w("?")
				}
			}
		default:
			t.w("X")
		}
	}
}

// renderIngest renders a feature as the feature source emitted it.
func renderIngest(f ingest.Feature) (string, string) {
	t := &tw{}
	switch f := f.(type) {
	case *ingest.GenericFeature:
		t.w("G")
		t.w(fid(f.FeatureID()))
		writeTags(t, f.Tags)
	case *ingest.AreaFeature:
		t.w("A")
		t.w(fid(f.FeatureID()))
		writeTags(t, f.Tags)
		t.n(f.Len())
		for i := 0; i < f.Len(); i++ {
			ids, _ := f.PathIDs(i)
			t.n(len(ids))
			for _, id := range ids {
				t.w(fid(id))
			}
		}
	case *ingest.RelationFeature:
		t.w("L")
		t.w(fid(f.FeatureID()))
		writeTags(t, f.Tags)
		t.n(len(f.Members))
		for _, m := range f.Members {
			t.w(fid(m.ID))
			t.s(m.Role)
		}
	default:
		t.w("?")
	}
	return fid(f.FeatureID()), t.String()
}

// renderWorld renders a feature as the world presents it.
func renderWorld(f b6.Feature) (string, string) {
	t := &tw{}
	switch f.FeatureID().Type {
	case b6.FeatureTypeArea:
		a := f.(b6.AreaFeature)
		t.w("A")
		t.w(fid(f.FeatureID()))
		writeTags(t, f.AllTags())
		t.n(a.Len())
		for i := 0; i < a.Len(); i++ {
			paths := a.Feature(i)
			t.n(len(paths))
			for _, p := range paths {
				t.w(fid(p.FeatureID()))
			}
		}
	case b6.FeatureTypeRelation:
		r := f.(b6.RelationFeature)
		t.w("L")
		t.w(fid(f.FeatureID()))
		writeTags(t, f.AllTags())
		t.n(r.Len())
		for i := 0; i < r.Len(); i++ {
			t.w(fid(r.Member(i).ID))
			t.s(r.Member(i).Role)
		}
	default:
		t.w("G")
		t.w(fid(f.FeatureID()))
		writeTags(t, f.AllTags())
	}
	return fid(f.FeatureID()), t.String()
}

type rendered struct{ key, text string }

func join(fs []rendered, sorted bool) string {
	if sorted {
		sort.SliceStable(fs, func(i, j int) bool {
			if fs[i].key != fs[j].key {
				return fs[i].key < fs[j].key
			}
			return fs[i].text < fs[j].text
		})
	}
	parts := []string{"ok", strconv.Itoa(len(fs))}
	for _, f := range fs {
		parts = append(parts, f.text)
	}
	return strings.Join(parts, " ")
}

type input struct {
	nodes     []osm.Node
	ways      []osm.Way
	relations []osm.Relation
	order     []osm.Element // the elements in file / emission order: nodes, ways, relations
	wf        bool          // geometrically well formed, unique IDs, no reference cycles: world ops make sense
	emptyWay  bool
	compact   bool // also build the compact world
}

func (in *input) finish() {
	in.order = nil
	for i := range in.nodes {
		in.order = append(in.order, &in.nodes[i])
	}
	for i := range in.ways {
		in.order = append(in.order, &in.ways[i])
		if len(in.ways[i].Nodes) == 0 {
			in.emptyWay = true
		}
	}
	for i := range in.relations {
		in.order = append(in.order, &in.relations[i])
	}
}

func readSource(src ingest.OSMSource, cores int) string {
	source, err := ingest.NewFeatureSourceFromPBF(src, &ingest.BuildOptions{Cores: cores}, context.Background())
	if err != nil {
		return "err"
	}
	var lock sync.Mutex
	var fs []rendered
	emit := func(f ingest.Feature, g int) error {
		k, t := renderIngest(f) // rendered before the source reuses the feature
		lock.Lock()
		fs = append(fs, rendered{k, t})
		lock.Unlock()
		return nil
	}
	if err := source.Read(ingest.ReadOptions{Goroutines: cores}, emit, context.Background()); err != nil {
		return "err"
	}
	return join(fs, cores > 1)
}

func dumpWorld(w b6.World) string {
	var lock sync.Mutex
	var fs []rendered
	err := w.EachFeature(func(f b6.Feature, g int) error {
		k, t := renderWorld(f)
		lock.Lock()
		fs = append(fs, rendered{k, t})
		lock.Unlock()
		return nil
	}, &b6.EachFeatureOptions{Goroutines: 1})
	if err != nil {
		return "err"
	}
	return join(fs, true)
}

func writePBF(in *input) (string, error) {
	f, err := os.CreateTemp(".", "c29-*.osm.pbf")
	if err != nil {
		return "", err
	}
	var buf bytes.Buffer
	w, err := osm.NewWriter(&buf)
	if err == nil {
		for _, e := range in.order {
			if err = w.WriteElement(e); err != nil {
				break
			}
		}
	}
	if err == nil {
		err = w.Flush()
	}
	if err == nil {
		_, err = f.Write(buf.Bytes())
	}
	f.Close()
	if err != nil {
		os.Remove(f.Name())
		return "", err
	}
	return f.Name(), nil
}

// clockwise returns the IDs of closed ways whose loop S2 considers clockwise (area > 2π), computed from
// the input geometry exactly as ValidatePath does.
func clockwise(in *input) []int64 {
	loc := map[osm.NodeID]s2.Point{}
	for _, n := range in.nodes {
		loc[n.ID] = s2.PointFromLatLng(s2.LatLngFromDegrees(n.Location.Lat, n.Location.Lng))
	}
	var cw []int64
	for _, w := range in.ways {
		if len(w.Nodes) >= 4 && w.Nodes[0] == w.Nodes[len(w.Nodes)-1] {
			ps := make([]s2.Point, 0, len(w.Nodes)-1)
			for _, n := range w.Nodes[:len(w.Nodes)-1] {
				ps = append(ps, loc[n])
			}
			if s2.LoopFromPoints(ps).Area() > 2*math.Pi {
				cw = append(cw, int64(w.ID))
			}
		}
	}
	return cw
}

var timing = map[string]time.Duration{}

func timed(name string, f func() string) string {
	t0 := time.Now()
	defer func() { timing[name] += time.Since(t0) }()
	return hx.Recover(f)
}

func run(c *hx.Ctx, in *input) {
	in.finish()
	t := &tw{}
	t.n(len(in.order))
	for _, e := range in.order {
		writeElem(t, e)
	}
	src := &ingest.MemoryOSMSource{Nodes: in.nodes, Ways: in.ways, Relations: in.relations}
	ans := timed("source-mem", func() string { return readSource(src, 1) })
	c.Op("source mem "+t.String(), ans)
	c.Note("source-mem:" + strings.SplitN(ans, " ", 2)[0])
	if in.emptyWay {
		return // through a PBF file the index panic would happen in a reader goroutine and kill the process
	}
	fn, err := writePBF(in)
	if err != nil {
		c.Comment("pbf write failed: " + err.Error())
		return
	}
	defer os.Remove(fn)
	for _, cores := range []int{1, 3} {
		psrc := &ingest.PBFFilesOSMSource{Glob: fn, FailWhenNoFiles: true}
		c.Op(fmt.Sprintf("source pbf %d", cores), timed("source-pbf", func() string { return readSource(psrc, cores) }))
	}
	if !in.wf {
		return
	}
	cw := clockwise(in)
	cwt := &tw{}
	cwt.n(len(cw))
	for _, id := range cw {
		cwt.i(id)
	}
	c.Note(fmt.Sprintf("world:clockwise-ways:%d", min(len(cw), 3)))
	c.Op("world mem 1 "+cwt.String(), timed("world-mem", func() string {
		w, err := ingest.BuildWorldFromOSM(in.nodes, in.ways, in.relations, &ingest.BuildOptions{Cores: 1})
		if err != nil {
			return "err"
		}
		return dumpWorld(w)
	}))
	cores := 1 + c.Rand.Intn(3)
	c.Op(fmt.Sprintf("world pbf %d %s", cores, cwt.String()), timed("world-pbf", func() string {
		w, err := ingest.NewWorldFromPBFFile(fn, &ingest.BuildOptions{Cores: cores})
		if err != nil {
			return "err"
		}
		return dumpWorld(w)
	}))
	// the compact builder allocates several 80 MB encoding buffers per build (a second on an idle machine,
	// ten on a loaded one): only the first corpus input in the quick tier, sampled in the thorough tier
	if !(in.compact || (c.Thorough() && c.Rand.Chance(1, 300))) {
		return
	}
	c.Note("world:compact")
	c.Op("world compact 1 "+cwt.String(), timed("world-compact", func() string {
		source, err := ingest.NewFeatureSourceFromPBF(src, &ingest.BuildOptions{Cores: 1}, context.Background())
		if err != nil {
			return "err"
		}
		index, err := compact.BuildInMemory(source, &compact.Options{Goroutines: 1, PointsScratchOutputType: compact.OutputTypeMemory})
		if err != nil {
			return "err"
		}
		w, err := compact.NewWorldFromData(index)
		if err != nil {
			return "err"
		}
		return dumpWorld(w)
	}))
}

// ---- generators ------------------------------------------------------------------------------

var mappedKeys = []string{"amenity", "barrier", "boundary", "bridge", "building", "highway", "landuse", "leisure", "natural",
	"network", "place", "railway", "route", "shop", "tourism", "water", "waterway", "fhrs:id", "wikidata", "wikipedia"}
var otherKeys = []string{"name", "ref", "type", "point", "path", "#amenity", "@wikidata", "amenity2", "Amenity", "", "addr:street", "hig", "highway ", "layer", "expression"}
var values = []string{"yes", "no", "cafe", "multipolygon", "route", "primary", "", "Q42", "12", "a b", "outer"}
var roles = []string{"outer", "inner", "", "stop", "forward", "Outer", "outer ", "platform"}

func genKey(r *hx.Rand) string {
	if r.Chance(1, 2) {
		return mappedKeys[r.Intn(len(mappedKeys))]
	}
	return otherKeys[r.Intn(len(otherKeys))]
}

// tags whose VALUES real OSM data uses to steer ingest-like logic (areas, linear features, directions, relation
// types on ways, empty values); none of them may change what a way or relation becomes
var semantic = []osm.Tag{
	{Key: "area", Value: "no"}, {Key: "area", Value: "yes"}, {Key: "area", Value: ""},
	{Key: "type", Value: "multipolygon"}, {Key: "type", Value: "boundary"}, {Key: "type", Value: "route"},
	{Key: "highway", Value: "pedestrian"}, {Key: "highway", Value: "residential"}, {Key: "highway", Value: "no"},
	{Key: "building", Value: "yes"}, {Key: "building", Value: "no"}, {Key: "oneway", Value: "yes"}, {Key: "oneway", Value: "-1"},
	{Key: "natural", Value: "coastline"}, {Key: "barrier", Value: "fence"}, {Key: "boundary", Value: "administrative"},
	{Key: "landuse", Value: ""}, {Key: "name", Value: ""}, {Key: "layer", Value: "-1"}, {Key: "tunnel", Value: "yes"},
	{Key: "waterway", Value: "riverbank"}, {Key: "indoor", Value: "room"}, {Key: "closed", Value: "no"},
}

func genTags(r *hx.Rand, max int) osm.Tags {
	n := r.Intn(max + 1)
	var ts osm.Tags
	for i := 0; i < n; i++ {
		if r.Chance(2, 5) {
			ts = append(ts, semantic[r.Intn(len(semantic))])
		} else {
			ts = append(ts, osm.Tag{Key: genKey(r), Value: values[r.Intn(len(values))]})
		}
	}
	if max > 0 && r.Chance(1, 8) { // exactly one semantic tag and nothing else
		ts = osm.Tags{semantic[r.Intn(len(semantic))]}
	}
	return ts
}

// relTags decides whether the relation is a multipolygon and where the deciding tag sits.
func relTags(r *hx.Rand, mp bool) osm.Tags {
	ts := genTags(r, 3)
	var out osm.Tags
	for _, t := range ts {
		if t.Key != "type" {
			out = append(out, t)
		}
	}
	if mp {
		pos := r.Intn(len(out) + 1)
		out = append(out[:pos:pos], append(osm.Tags{{Key: "type", Value: "multipolygon"}}, out[pos:]...)...)
		if r.Chance(1, 6) { // a later, shadowed type tag
			out = append(out, osm.Tag{Key: "type", Value: "route"})
		}
	} else {
		switch r.Intn(5) {
		case 0:
			out = append(out, osm.Tag{Key: "type", Value: "route"})
		case 1: // the first type tag decides: not a multipolygon
			out = append(osm.Tags{{Key: "type", Value: "boundary"}}, out...)
			out = append(out, osm.Tag{Key: "type", Value: "multipolygon"})
		case 2:
			out = append(out, osm.Tag{Key: "type", Value: "Multipolygon"})
		}
	}
	return out
}

// genWF builds a geometrically well formed input: nodes on circles (convex position), open ways with
// distinct end points, closed ways that follow the circle (either direction), unique IDs.
func genWF(c *hx.Ctx) *input {
	r := c.Rand
	in := &input{wf: true}
	nrings := 1 + r.Intn(2)
	var rings [][]osm.NodeID
	next := int64(1 + r.Intn(5))
	for k := 0; k < nrings; k++ {
		n := 3 + r.Intn(6)
		lat0 := float64(r.Intn(1200000000)-600000000) / 1e7
		lng0 := float64(r.Intn(3400000000)-1700000000) / 1e7
		rad := 0.001 + float64(r.Intn(100))/10000
		var ring []osm.NodeID
		for i := 0; i < n; i++ {
			a := 2 * math.Pi * float64(i) / float64(n)
			lat := math.Round((lat0+rad*math.Sin(a))*1e7) / 1e7
			lng := math.Round((lng0+rad*math.Cos(a))*1e7) / 1e7
			id := osm.NodeID(next)
			next += int64(1 + r.Intn(3))
			tags := osm.Tags(nil)
			if r.Chance(1, 3) {
				tags = genTags(r, 3)
			}
			in.nodes = append(in.nodes, osm.Node{ID: id, Location: osm.LatLng{Lat: lat, Lng: lng}, Tags: tags})
			ring = append(ring, id)
		}
		rings = append(rings, ring)
	}
	allNodes := func() osm.NodeID { return in.nodes[r.Intn(len(in.nodes))].ID }
	var closedIDs, openIDs []int64
	nways := r.Intn(6)
	wid := int64(1 + r.Intn(20))
	for k := 0; k < nways; k++ {
		w := osm.Way{ID: osm.WayID(wid), Tags: genTags(r, 3)}
		wid += int64(1 + r.Intn(4))
		if r.Chance(3, 5) { // closed
			ring := rings[r.Intn(len(rings))]
			m := 3 + r.Intn(len(ring)-2)
			// m ring positions in increasing order, rotated
			p := r.Perm(len(ring))[:m]
			sort.Ints(p)
			rot := r.Intn(m)
			for i := 0; i < m; i++ {
				w.Nodes = append(w.Nodes, ring[p[(i+rot)%m]])
			}
			if r.Chance(2, 5) { // clockwise
				for i, j := 0, len(w.Nodes)-1; i < j; i, j = i+1, j-1 {
					w.Nodes[i], w.Nodes[j] = w.Nodes[j], w.Nodes[i]
				}
			}
			w.Nodes = append(w.Nodes, w.Nodes[0])
			closedIDs = append(closedIDs, int64(w.ID))
		} else {
			m := 2 + r.Intn(4)
			for i := 0; i < m; i++ {
				w.Nodes = append(w.Nodes, allNodes())
			}
			for w.Nodes[0] == w.Nodes[len(w.Nodes)-1] {
				w.Nodes[len(w.Nodes)-1] = allNodes()
			}
			openIDs = append(openIDs, int64(w.ID))
		}
		in.ways = append(in.ways, w)
	}
	nrels := r.Intn(5)
	rid := int64(1 + r.Intn(20))
	var mpIDs, plainIDs []int64
	pickWay := func() int64 {
		switch {
		case len(closedIDs) > 0 && r.Chance(3, 5):
			return closedIDs[r.Intn(len(closedIDs))]
		case len(openIDs) > 0 && r.Chance(1, 2):
			return openIDs[r.Intn(len(openIDs))]
		default:
			return 900 + int64(r.Intn(5)) // not in the input
		}
	}
	for k := 0; k < nrels; k++ {
		mp := r.Chance(1, 2)
		rel := osm.Relation{ID: osm.RelationID(rid), Tags: relTags(r, mp)}
		nm := r.Intn(6)
		for i := 0; i < nm; i++ {
			var m osm.Member
			switch r.Intn(6) {
			case 0:
				m = osm.Member{Type: osm.ElementTypeNode, ID: osm.AnyID(allNodes())}
				if r.Chance(1, 5) {
					m.ID = 800
				}
			case 1: // an earlier relation (no cycles), or a missing one
				switch {
				case len(mpIDs) > 0 && r.Chance(1, 2):
					m = osm.Member{Type: osm.ElementTypeRelation, ID: osm.AnyID(mpIDs[r.Intn(len(mpIDs))])}
				case len(plainIDs) > 0 && r.Chance(1, 2):
					m = osm.Member{Type: osm.ElementTypeRelation, ID: osm.AnyID(plainIDs[r.Intn(len(plainIDs))])}
				default:
					m = osm.Member{Type: osm.ElementTypeRelation, ID: 700}
				}
			default:
				if mp && len(closedIDs) > 0 && r.Chance(4, 5) {
					m = osm.Member{Type: osm.ElementTypeWay, ID: osm.AnyID(closedIDs[r.Intn(len(closedIDs))])}
				} else {
					m = osm.Member{Type: osm.ElementTypeWay, ID: osm.AnyID(pickWay())}
				}
			}
			m.Role = roles[r.Intn(len(roles))]
			rel.Members = append(rel.Members, m)
		}
		if mp {
			mpIDs = append(mpIDs, rid)
		} else {
			plainIDs = append(plainIDs, rid)
		}
		rid += int64(1 + r.Intn(4))
		in.relations = append(in.relations, rel)
	}
	return in
}

// genAny: no geometric care at all — duplicate IDs, empty and one-node ways, self references, extreme IDs.
func genAny(c *hx.Ctx) *input {
	r := c.Rand
	in := &input{}
	id := func() int64 {
		switch r.Intn(12) {
		case 0:
			return int64(r.Uint64Edge())
		case 1:
			return -int64(r.Intn(5))
		default:
			return int64(r.Intn(12))
		}
	}
	for k := r.Intn(6); k > 0; k-- {
		in.nodes = append(in.nodes, osm.Node{ID: osm.NodeID(id()), Location: osm.LatLng{Lat: float64(r.Intn(1800000001)-900000000) / 1e7, Lng: float64(r.Intn(3600000001)-1800000000) / 1e7}, Tags: genTags(r, 4)})
	}
	for k := r.Intn(6); k > 0; k-- {
		w := osm.Way{ID: osm.WayID(id()), Tags: genTags(r, 3)}
		n := r.Intn(6)
		if r.Chance(1, 25) {
			n = 0
		}
		for i := 0; i < n; i++ {
			w.Nodes = append(w.Nodes, osm.NodeID(id()))
		}
		if n > 1 && r.Chance(1, 2) {
			w.Nodes[n-1] = w.Nodes[0]
		}
		in.ways = append(in.ways, w)
	}
	for k := r.Intn(6); k > 0; k-- {
		rel := osm.Relation{ID: osm.RelationID(id()), Tags: relTags(r, r.Chance(1, 2))}
		for i := r.Intn(6); i > 0; i-- {
			rel.Members = append(rel.Members, osm.Member{Type: osm.ElementType(r.Intn(3)), ID: osm.AnyID(id()), Role: roles[r.Intn(len(roles))]})
		}
		in.relations = append(in.relations, rel)
	}
	return in
}

// ---- ring stitching (osm/polygons.go) ------------------------------------------------------------
//
//	rings nw (id nn node*)* nm member*   answer ok nl (n way*)* (n node*)*nl | err | panic
//
// the loops of groupWaysIntoLoops, then per loop the node IDs behind the vertices of waysToS2Loop's loop
// (read back through distinct node locations; S2 may have reversed the loop).

func ringsOp(c *hx.Ctx, ways []osm.Way, members []int64) {
	t := &tw{}
	t.n(len(ways))
	wm := osm.WayMap{}
	for _, w := range ways {
		t.i(int64(w.ID))
		t.n(len(w.Nodes))
		for _, n := range w.Nodes {
			t.i(int64(n))
		}
		wm[w.ID] = w
	}
	t.n(len(members))
	rel := &osm.Relation{ID: 1}
	for _, m := range members {
		t.i(m)
		rel.Members = append(rel.Members, osm.Member{Type: osm.ElementTypeWay, ID: osm.AnyID(m)})
	}
	locs := osm.LocationMap{}
	back := map[s2.Point]int64{}
	for _, w := range ways {
		for _, n := range w.Nodes {
			if _, ok := locs[n]; !ok {
				k := len(back) // a distinct location per node, in order of first appearance
				p := s2.PointFromLatLng(s2.LatLngFromDegrees(float64(k%160)-80, float64(k/160)*0.5-170))
				locs[n] = p
				back[p] = int64(n)
			}
		}
	}
	ans := hx.Recover(func() string {
		loops, err := osm.VerifGroupWaysIntoLoops(rel, wm)
		if err != nil {
			return "err"
		}
		o := &tw{}
		o.w("ok")
		o.n(len(loops))
		for _, l := range loops {
			o.n(len(l))
			for _, id := range l {
				o.i(int64(id))
			}
		}
		for _, l := range loops {
			loop, err := osm.VerifWaysToS2Loop(l, wm, locs)
			if err != nil {
				return "err"
			}
			vs := loop.Vertices()
			o.n(len(vs))
			for _, v := range vs {
				o.i(back[v])
			}
		}
		return o.String()
	})
	c.Op("rings "+t.String(), ans)
	c.Note("rings:" + strings.SplitN(ans, " ", 2)[0])
}

// genRings: node-disjoint cycles cut into ways of random direction, members shuffled; then, sometimes, a
// perturbation that leaves the class (a way removed, a spur, a repeated member, a missing or empty way).
func genRings(c *hx.Ctx) {
	r := c.Rand
	var ways []osm.Way
	var members []int64
	node := int64(1 + r.Intn(50))
	wid := int64(1 + r.Intn(50))
	ncycles := 1 + r.Intn(3)
	for k := 0; k < ncycles; k++ {
		nw := 1 + r.Intn(4) // ways in this cycle
		joints := make([]int64, nw)
		for i := range joints {
			joints[i] = node
			node += int64(1 + r.Intn(3))
		}
		for i := 0; i < nw; i++ {
			a, b := joints[i], joints[(i+1)%nw]
			nodes := []osm.NodeID{osm.NodeID(a)}
			inner := r.Intn(3)
			if nw == 1 && inner == 0 {
				inner = 2
			}
			for q := 0; q < inner; q++ {
				nodes = append(nodes, osm.NodeID(node))
				node++
			}
			nodes = append(nodes, osm.NodeID(b))
			if r.Bool() {
				for x, y := 0, len(nodes)-1; x < y; x, y = x+1, y-1 {
					nodes[x], nodes[y] = nodes[y], nodes[x]
				}
			}
			ways = append(ways, osm.Way{ID: osm.WayID(wid), Nodes: nodes})
			members = append(members, wid)
			wid += int64(1 + r.Intn(3))
		}
	}
	p := r.Perm(len(members))
	sh := make([]int64, len(members))
	for i, j := range p {
		sh[i] = members[j]
	}
	members = sh
	kind := "cycles"
	if r.Chance(1, 3) {
		switch r.Intn(6) {
		case 0: // a way of a cycle is not a member: open chain
			if len(members) > 1 {
				members = members[1:]
				kind = "member-removed"
			}
		case 1: // a spur at an existing joint: three way-ends at one node
			w := ways[r.Intn(len(ways))]
			ways = append(ways, osm.Way{ID: osm.WayID(wid), Nodes: []osm.NodeID{w.Nodes[0], osm.NodeID(node)}})
			members = append(members, wid)
			kind = "spur"
		case 2: // a member listed twice
			members = append(members, members[r.Intn(len(members))])
			kind = "member-twice"
		case 3: // a member that is not in the way map
			members = append(members, 9999)
			kind = "way-missing"
		case 4: // a way without nodes
			ways = append(ways, osm.Way{ID: osm.WayID(wid)})
			members = append(members, wid)
			kind = "way-empty"
		case 5: // two cycles touching in a node
			if len(ways) >= 2 {
				w := &ways[len(ways)-1]
				w.Nodes[0] = ways[0].Nodes[0]
				kind = "cycles-touch"
			}
		}
	}
	c.Note("rings-input:" + kind)
	ringsOp(c, ways, members)
}

func square(ids [4]int64, lat, lng float64) []osm.Node {
	return []osm.Node{
		{ID: osm.NodeID(ids[0]), Location: osm.LatLng{Lat: lat, Lng: lng}},
		{ID: osm.NodeID(ids[1]), Location: osm.LatLng{Lat: lat, Lng: lng + 0.001}},
		{ID: osm.NodeID(ids[2]), Location: osm.LatLng{Lat: lat + 0.001, Lng: lng + 0.001}},
		{ID: osm.NodeID(ids[3]), Location: osm.LatLng{Lat: lat + 0.001, Lng: lng}},
	}
}

func main() {
	log.SetOutput(io.Discard) // the compact builder logs its progress
	defer func() {
		if os.Getenv("C29_TIMING") != "" {
			for k, v := range timing {
				fmt.Fprintf(os.Stderr, "timing %s %v\n", k, v)
			}
		}
	}()
	hx.Main(hx.Family{
		Name:     "c29",
		Rule:     "OSM inputs (well formed: nodes on circles, open/closed ways either direction, multipolygon and plain relations over nodes/ways/relations present and missing, tag keys in and out of the mapping; and unconstrained ones with duplicate/extreme IDs and degenerate ways) through the feature source (memory and PBF, 1 and 3 goroutines) and the basic and compact world builders; non-trivial = a plain relation with a member that is a closed way or a multipolygon relation of the input",
		Quick:    2500,
		Thorough: 20000,
		Corpus: func(c *hx.Ctx) {
			// fixed (fixes/C29-relation-member-area-id.patch): a plain relation with a closed-way member and a
			// multipolygon member; before the fix both members got the path / relation ID
			in := &input{wf: true, compact: true}
			in.nodes = square([4]int64{1, 2, 3, 4}, 51.5, -0.1)
			in.ways = []osm.Way{{ID: 10, Nodes: []osm.NodeID{1, 2, 3, 4, 1}, Tags: osm.Tags{{Key: "building", Value: "yes"}}}}
			in.relations = []osm.Relation{
				{ID: 30, Members: []osm.Member{{Type: osm.ElementTypeWay, ID: 10, Role: "outer"}}, Tags: osm.Tags{{Key: "type", Value: "multipolygon"}}},
				{ID: 20, Members: []osm.Member{{Type: osm.ElementTypeWay, ID: 10, Role: "stop"}, {Type: osm.ElementTypeRelation, ID: 30, Role: ""}, {Type: osm.ElementTypeNode, ID: 1, Role: ""}},
					Tags: osm.Tags{{Key: "type", Value: "route"}}},
			}
			run(c, in)
			// the relation shares its ID with a closed way: before the fix *every* way member became an area
			in = &input{wf: true}
			in.nodes = square([4]int64{1, 2, 3, 4}, 10, 20)
			in.ways = []osm.Way{{ID: 20, Nodes: []osm.NodeID{1, 2, 3, 4, 1}}, {ID: 11, Nodes: []osm.NodeID{1, 3}, Tags: osm.Tags{{Key: "highway", Value: "path"}}}}
			in.relations = []osm.Relation{{ID: 20, Members: []osm.Member{{Type: osm.ElementTypeWay, ID: 11, Role: ""}}, Tags: osm.Tags{{Key: "type", Value: "route"}}}}
			run(c, in)
			// seeded C29-5: a closed way tagged exactly area=no (and others with tags that look like they should
			// matter) is still an area carrying the way's tags, and relation members point at it
			in = &input{wf: true}
			in.nodes = square([4]int64{1, 2, 3, 4}, 48.1, 11.5)
			in.ways = []osm.Way{
				{ID: 40, Nodes: []osm.NodeID{1, 2, 3, 4, 1}, Tags: osm.Tags{{Key: "area", Value: "no"}}},
				{ID: 41, Nodes: []osm.NodeID{1, 2, 3, 1}, Tags: osm.Tags{{Key: "highway", Value: "pedestrian"}, {Key: "area", Value: "no"}, {Key: "type", Value: "multipolygon"}}},
				{ID: 42, Nodes: []osm.NodeID{2, 3, 4, 2}, Tags: osm.Tags{{Key: "natural", Value: "coastline"}, {Key: "oneway", Value: "yes"}}},
				{ID: 43, Nodes: []osm.NodeID{1, 3}, Tags: osm.Tags{{Key: "area", Value: "yes"}, {Key: "type", Value: "multipolygon"}}},
			}
			in.relations = []osm.Relation{
				{ID: 50, Members: []osm.Member{{Type: osm.ElementTypeWay, ID: 40, Role: "outer"}, {Type: osm.ElementTypeWay, ID: 41, Role: "inner"}}, Tags: osm.Tags{{Key: "type", Value: "multipolygon"}, {Key: "area", Value: "no"}}},
				{ID: 51, Members: []osm.Member{{Type: osm.ElementTypeWay, ID: 40, Role: ""}, {Type: osm.ElementTypeWay, ID: 43, Role: ""}, {Type: osm.ElementTypeRelation, ID: 50, Role: ""}}, Tags: osm.Tags{{Key: "type", Value: "route"}, {Key: "area", Value: "no"}}},
			}
			run(c, in)
			// fixed (fixes/C29-reserved-geometry-keys.patch): OSM tags keyed point / path. Before the fix the open
			// way 18 (point=yes) was a "point" of length 1 for ValidatePath and missing from the world; the
			// node's point= and the way's path= values were overwritten by the geometry
			in = &input{wf: true}
			in.nodes = square([4]int64{1, 2, 3, 4}, -33.9, 18.4)
			in.nodes[0].Tags = osm.Tags{{Key: "point", Value: "trig"}, {Key: "path", Value: "x"}}
			in.ways = []osm.Way{
				{ID: 18, Nodes: []osm.NodeID{1, 2, 3}, Tags: osm.Tags{{Key: "highway", Value: "footway"}, {Key: "point", Value: "yes"}}},
				{ID: 19, Nodes: []osm.NodeID{1, 3, 4}, Tags: osm.Tags{{Key: "path", Value: "yes"}}},
				{ID: 21, Nodes: []osm.NodeID{1, 2, 3, 4, 1}, Tags: osm.Tags{{Key: "point", Value: "a"}, {Key: "path", Value: "b"}}},
			}
			run(c, in)
			c.NonTrivial()
		},
		Case: func(c *hx.Ctx) {
			r := c.Rand
			if r.Chance(1, 25) {
				for i := 0; i < 8; i++ {
					k := genKey(r)
					if r.Chance(1, 4) {
						k = k + string(rune('a'+r.Intn(3)))
					}
					c.Op("key "+hx.Hex([]byte(k)), hx.Hex([]byte(ingest.KeyForOSMKey(k))))
				}
				c.Note("keys")
				return
			}
			if r.Chance(1, 6) {
				for i := 0; i < 6; i++ {
					genRings(c)
				}
				return
			}
			var in *input
			if r.Chance(3, 5) {
				in = genWF(c)
				c.Note("input:well-formed")
			} else {
				in = genAny(c)
				c.Note("input:any")
			}
			run(c, in)
			// statistics + non-triviality
			closed, mp := map[int64]bool{}, map[int64]bool{}
			for _, w := range in.ways {
				if len(w.Nodes) > 0 && w.Nodes[0] == w.Nodes[len(w.Nodes)-1] {
					closed[int64(w.ID)] = true
				}
			}
			for _, rel := range in.relations {
				if t, ok := rel.Tag("type"); ok && t == "multipolygon" {
					mp[int64(rel.ID)] = true
				}
			}
			c.Note(fmt.Sprintf("closed-ways:%d", min(len(closed), 3)))
			c.Note(fmt.Sprintf("multipolygons:%d", min(len(mp), 3)))
			areaMember := false
			for _, rel := range in.relations {
				if mp[int64(rel.ID)] {
					continue
				}
				for _, m := range rel.Members {
					if m.Type == osm.ElementTypeWay && closed[int64(m.ID)] {
						areaMember = true
						c.Note("plain-relation-member:closed-way")
					} else if m.Type == osm.ElementTypeRelation && mp[int64(m.ID)] {
						areaMember = true
						c.Note("plain-relation-member:multipolygon")
					} else {
						c.Note("plain-relation-member:other")
					}
				}
			}
			if areaMember {
				c.NonTrivial()
			}
		},
	})
}
