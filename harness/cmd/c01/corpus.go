package main

import (
	"math"
	"strings"
)

// Fixed witnesses of the defects found with this check (run first, forever).

type witness struct {
	name string
	fs   []Feat
}

func pt(ns string, v uint64, lat, lng int32, extra ...Tag) Feat {
	ts := append([]Tag{}, extra...)
	ts = append(ts, Tag{K: "point", V: Val{Kind: 'p', P: LL{lat, lng}}})
	return Feat{ID: ID{0, ns, v}, Tags: ts}
}

func str(k, v string) Tag { return Tag{K: k, V: Val{Kind: 's', S: v}} }

func pathOf(ns string, v uint64, es []Elem, extra ...Tag) Feat {
	ts := append([]Tag{}, extra...)
	ts = append(ts, Tag{K: "path", V: Val{Kind: 'x', X: es}})
	return Feat{ID: ID{1, ns, v}, Tags: ts}
}

func ref(ns string, v uint64) Elem { return Elem{IsRef: true, R: ID{0, ns, v}} }
func ll(lat, lng int32) Elem       { return Elem{P: LL{lat, lng}} }

func sq(lat, lng, rad float64) [][2]float64 {
	return [][2]float64{{lat - rad, lng - rad}, {lat - rad, lng + rad}, {lat + rad, lng + rad}, {lat + rad, lng - rad}}
}

func tinyLoop(lat, lng float64) [][2]float64 {
	return [][2]float64{{lat + 1e-9, lng + 1e-9}, {lat + 1e-9, lng + 3e-9}, {lat + 3e-9, lng + 2e-9}}
}

func manyMembers(n int) []Member {
	ms := make([]Member, n)
	for i := range ms {
		ms[i] = Member{Role: roleVocab[i%3], ID: ID{0, nsNode, uint64(1 + i%2)}}
	}
	return ms
}

// offGrid is a square of the given size in metres whose corners are not on the E7 grid
func offGrid(lat, lng, metres float64) [][2]float64 {
	d := metres / 111320.0
	dl := d / math.Cos(lat*math.Pi/180)
	la, ln := lat+0.123456789e-3, lng+0.987654321e-3
	return [][2]float64{{la, ln}, {la, ln + dl}, {la + d, ln + dl}, {la + d, ln}}
}

func manyTags(n int) []Tag {
	ts := make([]Tag, 0, n+1)
	for i := 0; i < n; i++ {
		ts = append(ts, str(string(rune('a'+i%3)), string(rune('x'+i%3))))
	}
	return append(ts, Tag{K: "point", V: Val{Kind: 'p', P: LL{515500000, -1000000}}})
}

func corpus() []witness {
	square := []Feat{
		pt(nsNode, 1, 515000000, -1200000), pt(nsNode, 2, 515000000, -1100000),
		pt(nsNode, 3, 515100000, -1100000), pt(nsNode, 4, 515100000, -1200000),
	}
	with := func(fs ...Feat) []Feat { return append(append([]Feat{}, square...), fs...) }
	loop := pathOf(nsWay, 10, []Elem{ref(nsNode, 1), ref(nsNode, 2), ref(nsNode, 3), ref(nsNode, 4), ref(nsNode, 1)})
	tri := Poly{Loops: [][]LL{{{516000000, -1200000}, {516000000, -1100000}, {516100000, -1100000}}}}
	return []witness{
		// fromCompactValue appended a nil after every lat/lng of a mixed path: the path came back with 4
		// elements and building the search index panicked ("Expected a latlng") in a goroutine
		{"mixed-path", with(pathOf(nsWay, 11, []Elem{ref(nsNode, 1), ll(515050000, -1150000), ref(nsNode, 3)}, str("#highway", "path")))},
		// Area.FromFeature: PolygonGeometryReferences.FromPathIDs indexed an empty slice (fatal panic in a
		// goroutine) and the mixed geometry was never assigned to the area
		{"mixed-area", with(loop, Feat{ID: ID{2, nsWay, 10}, Tags: []Tag{str("#building", "yes")}, Polys: []Poly{{Paths: []ID{{1, nsWay, 10}}}, tri}})},
		{"mixed-area-loops-first", with(loop, Feat{ID: ID{2, "custom", 7}, Polys: []Poly{tri, {Paths: []ID{{1, nsWay, 10}}}}})},
		// relations of a relation: written against the OSM relation namespace, read against the block's
		{"relation-of-relation-custom-ns", with(
			Feat{ID: ID{3, "diagonal.works/test", 5}, Tags: []Tag{str("type", "route")}, Members: []Member{{"stop", ID{0, nsNode, 1}}}},
			Feat{ID: ID{3, "diagonal.works/test", 9}, Members: []Member{{"", ID{3, "diagonal.works/test", 5}}, {"x", ID{1, nsWay, 10}}}},
			Feat{ID: ID{3, nsRel, 77}, Members: []Member{{"sub", ID{3, "diagonal.works/test", 5}}}},
			loop)},
		// areas that belong to relations, in the OSM relation namespace and elsewhere (C02's repair)
		{"area-in-relation", with(loop,
			Feat{ID: ID{2, nsRel, 50}, Tags: []Tag{str("type", "multipolygon")}, Polys: []Poly{{Paths: []ID{{1, nsWay, 10}}}}},
			Feat{ID: ID{3, nsRel, 51}, Members: []Member{{"part", ID{2, nsRel, 50}}, {"", ID{0, nsNode, 2}}}})},
		// ids with the top bit set in blocks of one and two points (bucket bits 1, tag bits 2; C09's repair)
		{"top-bit-point-ids", []Feat{
			pt(nsNode, 1<<63+5, 515000000, -1200000, str("@name", "a")), pt("custom", 1<<64-1, 515000001, -1200001),
			pt("custom", 1<<63, -515000001, 1200001),
			pathOf("a/b/c", 1<<63, []Elem{ref(nsNode, 1<<63+5), ref("custom", 1<<64-1), ref("custom", 1<<63)})}},
		// lat/lng only path closed by coordinates under an area; clockwise reference loop (inverted)
		{"latlng-loop-area", with(
			pathOf("custom", 3, []Elem{ll(517000000, -1200000), ll(517000000, -1100000), ll(517100000, -1100000), ll(517000000, -1200000)}),
			Feat{ID: ID{2, "custom", 3}, Polys: []Poly{{Paths: []ID{{1, "custom", 3}}}}},
			pathOf(nsWay, 12, []Elem{ref(nsNode, 1), ref(nsNode, 4), ref(nsNode, 3), ref(nsNode, 2), ref(nsNode, 1)}),
			Feat{ID: ID{2, nsWay, 12}, Polys: []Poly{{Paths: []ID{{1, nsWay, 12}}}}})},
		// explicit polygons whose first / middle / last loop collapses to one point at E7 precision, one with a
		// hole: FromS2Polygon must drop exactly those loops and keep the boundaries of the others
		{"tiny-loops", with(
			Feat{ID: ID{2, "custom", 20}, Polys: []Poly{finishPoly(Poly{Raw: [][][2]float64{tinyLoop(51.7, -0.12), sq(51.7, -0.10, 0.0009), sq(51.7, -0.08, 0.0009)}})}},
			Feat{ID: ID{2, "custom", 21}, Polys: []Poly{finishPoly(Poly{Raw: [][][2]float64{sq(51.8, -0.12, 0.0009), tinyLoop(51.8, -0.10), sq(51.8, -0.08, 0.0009), sq(51.8, -0.08, 0.0003)}})}},
			Feat{ID: ID{2, "custom", 22}, Polys: []Poly{finishPoly(Poly{Raw: [][][2]float64{sq(51.9, -0.12, 0.0009), tinyLoop(51.9, -0.10)}}), {Paths: []ID{{1, nsWay, 10}}}}},
			loop)},
		// explicit polygons of 1 m, 6 m and 30 m whose vertices are off the E7 grid, near the equator, in London and in
		// the Arctic: the 0.01 % area tolerance of lastMarshalledLoopIsValid dropped them (Len() == 0)
		{"small-polygons", with(
			Feat{ID: ID{2, "custom", 30}, Polys: []Poly{finishPoly(Poly{Raw: [][][2]float64{offGrid(0.3, 36.8, 1)}})}},
			Feat{ID: ID{2, "custom", 31}, Polys: []Poly{finishPoly(Poly{Raw: [][][2]float64{offGrid(51.5, -0.1, 6)}}), finishPoly(Poly{Raw: [][][2]float64{offGrid(51.6, -0.1, 30)}})}},
			Feat{ID: ID{2, "custom", 32}, Polys: []Poly{finishPoly(Poly{Raw: [][][2]float64{offGrid(69.7, 18.9, 3), offGrid(69.71, 18.9, 10)}})}})},
		// a string longer than 64 KB (an item of the string table)
		{"heavy-string", with(pt(nsNode, 70, 515400000, -1000000, str("note", strings.Repeat("0123456789abcdef", 4400))))},
		// a point whose record is longer than 64 KB (34 000 short tags): the scratch bucket, the buffers of
		// combinePoints and the final record all cross 2^16
		{"heavy-point-record", with(Feat{ID: ID{0, nsNode, 71}, Tags: manyTags(34000)}, Feat{ID: ID{3, nsRel, 90}, Members: manyMembers(300)})},
		// KNOWN FINDING fid-tag-value: a tag whose value is a single feature id has no value type in the
		// index; reading it back panics while the search index is built (fatal)
		{"feature-id-tag-value", with(pt(nsNode, 9, 515200000, -1000000, Tag{K: "b6:ref", V: Val{Kind: 'f', F: ID{0, nsNode, 1}}}))},
		// KNOWN FINDING point-member-without-block: a relation with a point member in a namespace that has no
		// points at all (a member outside the extract): emitPoints reserves in a block that was never created
		// ("No builder for type point", fatal)
		{"point-member-without-block", with(Feat{ID: ID{3, nsRel, 5}, Members: []Member{{"stop", ID{0, "nowhere", 9}}}})},
		// KNOWN FINDING list-tag-on-non-path: a list valued tag on a point: toCompactValue has no geometry
		// encoding for it ("not implemented", fatal)
		{"list-tag-on-non-path", with(pt(nsNode, 8, 515300000, -1000000, Tag{K: "via", V: Val{Kind: 'x', X: []Elem{ll(1, 2)}}}))},
	}
}
