// C01 harness: generated feature sets → the real compact.BuildInMemory + compact.NewWorldFromData in a
// child process → canonical dump of the index (namespace table, string table, every feature block with
// its layout and every entry's record bytes) and of the loaded world (FindFeatureByID for every id of the
// source and some absent ones: tags with value kinds, path geometry through Reference/PointAt, area
// polygons through Feature/Polygon, relation members; EachFeature; FindRelationsByFeature).  The Lean
// driver rebuilds the index with the model from the `src` lines (using the implementation's string table
// as the string bijection), compares every line, and evaluates the round-trip predicate on the
// implementation's answers.
//
// compact.Build allocates 79 MB buffers per goroutine and pass and can die in a goroutine (fatal), so the
// builds run in child processes with the collector off (see harness/cmd/c02/wd for the measurements);
// a block of consecutive cases shares one child, a block whose child died is re-run one case per child.
package main

import (
	"fmt"
	"io"
	"log"
	"os"
	"os/exec"
	"runtime/pprof"
	"sort"
	"strconv"
	"strings"
	"sync"
	"time"

	"diagonal.works/b6"
	"diagonal.works/b6/encoding"
	"diagonal.works/b6/ingest"
	"diagonal.works/b6/ingest/compact"
	pb "diagonal.works/b6/proto"
	"github.com/golang/geo/s2"
	"verifharness/hx"
)

func init() { log.SetOutput(io.Discard) }

// ---- the case of a given number ------------------------------------------------------------------

func caseRand(seed uint64, no int) *hx.Rand {
	return hx.NewRand(seed*0x9e3779b97f4a7c15 ^ uint64(no)*0xd1342543de82ef95 ^ 0x5851f42d4c957f2d)
}

type testCase struct {
	fs    []Feat
	notes []string
	g     int // Options.Goroutines
}

func caseOf(seed uint64, no int, thorough bool) testCase {
	if no >= 1000000 {
		cs := corpus()
		k := no - 1000000
		if k >= len(cs) {
			k = 0
		}
		fs := cs[k].fs
		fillOracles(fs)
		return testCase{fs: fs, notes: []string{"corpus:" + cs[k].name}, g: 1}
	}
	r := caseRand(seed, no)
	fs, notes := generate(r, thorough)
	g := 1
	if r.Chance(1, 4) {
		g = 2 + r.Intn(2)
	}
	notes = append(notes, fmt.Sprintf("goroutines:%d", g))
	return testCase{fs: fs, notes: notes, g: g}
}

// ---- canonical words of what the loaded world returns ---------------------------------------------

func e7(ll s2.LatLng) LL { return LL{Lat: ll.Lat.E7(), Lng: ll.Lng.E7()} }

func exprWord(v b6.Expression) string {
	switch x := v.AnyExpression.(type) {
	case b6.StringExpression:
		return "s:" + hx8(string(x))
	case b6.PointExpression:
		return "p:" + llWord(e7(s2.LatLng(x)))
	case b6.FeatureIDExpression:
		return "f:" + idWord(fromB6(b6.FeatureID(x)))
	case b6.Expressions:
		ws := make([]string, len(x))
		for i, e := range x {
			switch y := e.(type) {
			case b6.FeatureIDExpression:
				ws[i] = "r" + idWord(fromB6(b6.FeatureID(y)))
			case b6.PointExpression:
				ws[i] = "p" + llWord(e7(s2.LatLng(y)))
			case nil:
				ws[i] = "nil"
			default:
				ws[i] = "?"
			}
		}
		return "x:" + strings.Join(ws, ";")
	case nil:
		return "nil"
	}
	return "?"
}

func b6TagsWord(ts b6.Tags) string {
	ws := make([]string, len(ts))
	for i, t := range ts {
		ws[i] = hx8(t.Key) + "=" + exprWord(t.Value)
	}
	return hx.List(ws)
}

func guard(f func() string) (ans string) {
	defer func() {
		if r := recover(); r != nil {
			ans = "panic"
		}
	}()
	return f()
}

// findWord is the canonical answer of FindFeatureByID(id).
func findWord(w b6.World, id b6.FeatureID) string {
	return guard(func() string {
		f := w.FindFeatureByID(id)
		if f == nil {
			return "none"
		}
		if f.FeatureID() != id {
			return "wrong-id:" + idWord(fromB6(f.FeatureID()))
		}
		tags := guard(func() string { return b6TagsWord(f.AllTags()) })
		switch id.Type {
		case b6.FeatureTypePoint:
			return "pt " + tags
		case b6.FeatureTypePath:
			p, ok := f.(b6.PhysicalFeature)
			if !ok {
				return "not-physical"
			}
			geom := guard(func() string {
				n := p.GeometryLen()
				ws := make([]string, n)
				for i := 0; i < n; i++ {
					if r := p.Reference(i).Source(); r.IsValid() {
						at := guard(func() string { return llWord(e7(s2.LatLngFromPoint(p.PointAt(i)))) })
						if at == "panic" {
							at = "?"
						}
						ws[i] = "r" + idWord(fromB6(r)) + "@" + at
					} else {
						ws[i] = guard(func() string { return "p" + llWord(e7(s2.LatLngFromPoint(p.PointAt(i)))) })
					}
				}
				return hx.List(ws)
			})
			return "pa " + tags + " " + geom
		case b6.FeatureTypeArea:
			a, ok := f.(b6.AreaFeature)
			if !ok {
				return "not-area"
			}
			polys := guard(func() string {
				ws := make([]string, a.Len())
				for i := 0; i < a.Len(); i++ {
					ws[i] = guard(func() string {
						if paths := a.Feature(i); paths != nil {
							ids := make([]string, len(paths))
							for j, p := range paths {
								ids[j] = idWord(fromB6(p.FeatureID()))
							}
							return "r:" + strings.Join(ids, ";")
						}
						poly := a.Polygon(i)
						ls := make([]string, poly.NumLoops())
						for j := 0; j < poly.NumLoops(); j++ {
							l := poly.Loop(j)
							vs := make([]string, l.NumVertices())
							for k := 0; k < l.NumVertices(); k++ {
								vs[k] = llWord(e7(s2.LatLngFromPoint(l.Vertex(k))))
							}
							ls[j] = strings.Join(vs, ";")
						}
						return "l:" + strings.Join(ls, "|")
					})
				}
				return hx.List(ws)
			})
			return "ar " + tags + " " + polys
		case b6.FeatureTypeRelation:
			r, ok := f.(b6.RelationFeature)
			if !ok {
				return "not-relation"
			}
			ms := guard(func() string {
				ws := make([]string, r.Len())
				for i := 0; i < r.Len(); i++ {
					m := r.Member(i)
					ws[i] = hx8(m.Role) + "@" + idWord(fromB6(m.ID))
				}
				return hx.List(ws)
			})
			return "re " + tags + " " + ms
		}
		return "?"
	})
}

// areaPathIDs: the path ids of an area's polygons as recorded in the index (without resolving them)
// is what Feature(i) needs the paths to exist for; areas over paths are only kept when they do.

func idLess(a, b ID) bool {
	if a.T != b.T {
		return a.T < b.T
	}
	if a.NS != b.NS {
		return a.NS < b.NS
	}
	return a.V < b.V
}

// probes: every id the source mentions (features, path points, area paths, members) + absent ones
func probes(fs []Feat) []ID {
	seen := map[ID]bool{}
	var out []ID
	add := func(id ID) {
		if id.NS != "" && !seen[id] {
			seen[id] = true
			out = append(out, id)
		}
	}
	for _, f := range fs {
		add(f.ID)
		for _, e := range pathElems(f) {
			if e.IsRef {
				add(e.R)
			}
		}
		for _, p := range f.Polys {
			for _, id := range p.Paths {
				add(id)
			}
		}
		for _, m := range f.Members {
			add(m.ID)
		}
		// the same value under the other types of the same namespace, and a neighbouring value
		for t := 0; t < 4; t++ {
			if t != f.ID.T && f.ID.V%7 == 0 {
				add(ID{T: t, NS: f.ID.NS, V: f.ID.V})
			}
		}
		if f.ID.V%5 == 0 {
			add(ID{T: f.ID.T, NS: f.ID.NS, V: f.ID.V + 1})
			add(ID{T: f.ID.T, NS: f.ID.NS, V: f.ID.V ^ (1 << 63)})
		}
	}
	add(ID{T: 0, NS: "absent/ns", V: 1})
	add(ID{T: 3, NS: nsRel, V: 987654321})
	sort.Slice(out, func(i, j int) bool { return idLess(out[i], out[j]) })
	return out
}

type transcript struct{ sb strings.Builder }

func (t *transcript) Op(op, ans string) { fmt.Fprintf(&t.sb, "O\t%s\t%s\n", op, ans) }
func (t *transcript) Note(b string)     { fmt.Fprintf(&t.sb, "N\t%s\n", b) }

// dump builds the index of one case and writes every observation.
func dump(tc testCase, t *transcript) {
	src := ingest.MemoryFeatureSource(toFeatures(tc.fs))
	o := compact.Options{Goroutines: tc.g, PointsScratchOutputType: compact.OutputTypeMemory}
	data, err := compact.BuildInMemory(src, &o)
	if err != nil {
		t.Op("build", "err")
		return
	}
	t.Op("build", "ok")

	var h compact.Header
	h.Unmarshal(data)
	var hp pb.CompactHeaderProto
	if err := compact.UnmarshalProto(data[h.HeaderProtoOffset:], &hp); err != nil {
		t.Op("nss", "err")
		return
	}
	nss := make([]string, len(hp.Namespaces))
	for i, ns := range hp.Namespaces {
		nss[i] = hx8(ns)
	}
	t.Op("nss", hx.List(nss))

	n := encoding.NewByteArrays(data[h.StringsOffset:]).NumItems()
	st := encoding.NewStringTable(data[h.StringsOffset:])
	ss := make([]string, n)
	for i := 0; i < n; i++ {
		ss[i] = hx8(st.Lookup(i))
	}
	t.Op("strs", hx.List(ss))

	var fbs compact.FeatureBlocks
	fbs.Unmarshal(data[h.BlockOffset:])
	for i, fb := range fbs {
		var es []string
		it := fb.Map.Begin()
		for it.Next() {
			for j := 0; j < it.Len(); j++ {
				es = append(es, fmt.Sprintf("%d:%d:%s", it.ID(), int(it.Tag(j)), hx.Hex(it.Data(j))))
			}
		}
		t.Op(fmt.Sprintf("blk %d t=%d nss=%d,%d,%d,%d bits=%d tagbits=%d", i, int(fb.FeatureType),
			fb.Namespaces[0], fb.Namespaces[1], fb.Namespaces[2], fb.Namespaces[3], fb.Map.Layout.BucketBits, fb.Map.Layout.TagBits),
			hx.List(es))
	}
	t.Op("blocks", strconv.Itoa(len(fbs)))

	w, err := compact.NewWorldFromData(data)
	if err != nil {
		t.Op("load", "err")
		return
	}
	t.Op("load", "ok")
	for _, id := range probes(tc.fs) {
		t.Op("find "+idWord(id), findWord(w, id.B6()))
	}
	// EachFeature with one goroutine: the ids in emission order
	each := guard(func() string {
		var ids []string
		err := w.EachFeature(func(f b6.Feature, _ int) error {
			ids = append(ids, idWord(fromB6(f.FeatureID())))
			return nil
		}, &b6.EachFeatureOptions{Goroutines: 1})
		if err != nil {
			return "err"
		}
		return hx.List(ids)
	})
	t.Op("each", each)
	// the relations a feature is recorded as a member of
	for _, id := range probes(tc.fs) {
		rels := guard(func() string {
			var ids []ID
			i := w.FindRelationsByFeature(id.B6())
			for i.Next() {
				if i.Feature() == nil {
					return "nil-relation"
				}
				ids = append(ids, fromB6(i.Feature().FeatureID()))
			}
			sort.Slice(ids, func(a, b int) bool { return idLess(ids[a], ids[b]) })
			ws := make([]string, len(ids))
			for k, x := range ids {
				ws[k] = idWord(x)
			}
			return hx.List(ws)
		})
		t.Op("rels "+idWord(id), rels)
	}
}

// ---- child / parent plumbing --------------------------------------------------------------------

// child argument: "seed tier first count"; answer: per case "CASE\t<no>\n" + transcript
func child(arg string) string {
	switch os.Getenv("C01_TEST") { // self test of the supervision in spawn (see selfTest)
	case "spin":
		for x := 0; ; x++ {
			_ = x
		}
	case "sleep":
		time.Sleep(time.Hour)
	case "slow": // a little CPU every second: alive, within budget, too slow for the wall clock
		for {
			t := time.Now()
			for time.Since(t) < 30*time.Millisecond {
			}
			time.Sleep(time.Second)
		}
	}
	if pf := os.Getenv("C01_CPUPROFILE"); pf != "" { // debugging aid: where does a child spend its time
		if fh, err := os.Create(pf); err == nil {
			pprof.StartCPUProfile(fh)
			defer pprof.StopCPUProfile()
		}
	}
	f := strings.Fields(arg)
	seed, _ := strconv.ParseUint(f[0], 10, 64)
	thorough := f[1] == "thorough"
	first, _ := strconv.Atoi(f[2])
	count, _ := strconv.Atoi(f[3])
	var sb strings.Builder
	for no := first; no < first+count; no++ {
		var t transcript
		tc := caseOf(seed, no, thorough)
		dump(tc, &t)
		fmt.Fprintf(&sb, "CASE\t%d\n%sD\n", no, t.sb.String())
		// partial results survive a crash in a later case of the block
		fmt.Print("HXRESULT " + sb.String())
		os.Stdout.Sync()
	}
	return sb.String()
}

// limits of one child build.  A build is called `hang` only on evidence that does not depend on how busy the
// machine is: it has burnt far more CPU than any legitimate build of its size (the heaviest generated shapes
// cost about 20 s), or it has made no CPU progress at all for minutes (it is blocked).  Running out of wall
// clock without either is `inconclusive-timeout`, which the driver counts but does not hold against the code.
type limits struct {
	cpu   time.Duration // CPU (user + system) the child may consume
	stall time.Duration // wall clock without any CPU progress
	wall  time.Duration // wall clock altogether
}

func limitsFor(heavy bool) limits {
	if heavy {
		return limits{cpu: 900 * time.Second, stall: 300 * time.Second, wall: 2 * time.Hour}
	}
	return limits{cpu: 400 * time.Second, stall: 300 * time.Second, wall: time.Hour}
}

// cpuOf reads utime + stime of a process (all threads) from /proc; ok = false when it cannot be read.
func cpuOf(pid int) (time.Duration, bool) {
	b, err := os.ReadFile(fmt.Sprintf("/proc/%d/stat", pid))
	if err != nil {
		return 0, false
	}
	s := string(b)
	i := strings.LastIndexByte(s, ')') // the command name may contain spaces
	if i < 0 {
		return 0, false
	}
	f := strings.Fields(s[i+1:])
	if len(f) < 13 {
		return 0, false
	}
	ut, err1 := strconv.ParseInt(f[11], 10, 64) // fields 14 and 15 of the line, in clock ticks (100 Hz)
	st, err2 := strconv.ParseInt(f[12], 10, 64)
	if err1 != nil || err2 != nil {
		return 0, false
	}
	return time.Duration(ut+st) * 10 * time.Millisecond, true
}

func spawn(arg string, lim limits) string {
	self, _ := os.Executable()
	cmd := exec.Command(self)
	cmd.Env = append(os.Environ(), "HX_CHILD=c01", "GOGC=off", "GOMAXPROCS=4")
	cmd.Stdin = strings.NewReader(arg)
	var sb strings.Builder
	cmd.Stdout = &sb
	if err := cmd.Start(); err != nil {
		return "crash"
	}
	done := make(chan error, 1)
	go func() { done <- cmd.Wait() }()
	start := time.Now()
	lastCPU, lastProgress := time.Duration(0), start
	tick := time.NewTicker(500 * time.Millisecond)
	defer tick.Stop()
	verdict := ""
loop:
	for {
		select {
		case <-done:
			break loop
		case now := <-tick.C:
			if cpu, ok := cpuOf(cmd.Process.Pid); ok {
				if cpu > lastCPU {
					lastCPU, lastProgress = cpu, now
				}
				if cpu > lim.cpu {
					verdict = "hang" // runaway: far beyond any legitimate build
				} else if now.Sub(lastProgress) > lim.stall {
					verdict = "hang" // blocked: no CPU consumed for minutes
				}
			}
			if verdict == "" && now.Sub(start) > lim.wall {
				verdict = "inconclusive-timeout"
			}
			if verdict != "" {
				cmd.Process.Kill()
				<-done
				return verdict
			}
		}
	}
	s := sb.String()
	if i := strings.LastIndex(s, "HXRESULT "); i >= 0 {
		return s[i+len("HXRESULT "):]
	}
	return "crash"
}

func splitCases(res string) map[int]string {
	out := map[int]string{}
	for _, part := range strings.Split(res, "CASE\t") {
		nl := strings.IndexByte(part, '\n')
		if nl < 0 {
			continue
		}
		no, err := strconv.Atoi(part[:nl])
		if err != nil {
			continue
		}
		out[no] = part[nl+1:]
	}
	return out
}

// runner hands out the transcripts of consecutive cases, running blocks of cases in child processes
// ahead of the consumer.
type runner struct {
	size, workers, ahead int
	mu                   sync.Mutex
	pending              map[int]chan map[int]string
	sem                  chan struct{}
	seed                 uint64
	tier                 string
}

func (b *runner) runBlock(blk int) map[int]string {
	first, count := blk*b.size, b.size
	if blk < 0 {
		first, count = 1000000, len(corpus())
	}
	out := map[int]string{}
	for no := first; no < first+count; no++ {
		heavy := no >= 1000000
		for _, n := range caseOf(b.seed, no, b.tier == "thorough").notes {
			heavy = heavy || strings.HasPrefix(n, "heavy:")
		}
		lim := limitsFor(heavy)
		arg := fmt.Sprintf("%d %s %d %d", b.seed, b.tier, no, 1)
		res := spawn(arg, lim)
		if tr := splitCases(res)[no]; complete(tr) {
			out[no] = tr
			continue
		}
		if res == "hang" || res == "inconclusive-timeout" {
			out[no] = "O\tbuild\t" + res + "\nN\ttimeout:" + res + "\n"
			continue
		}
		// the child died: once more, to tell a crash of the build from an accident of the machine
		res = spawn(arg, lim)
		if tr := splitCases(res)[no]; complete(tr) {
			out[no] = tr
		} else if res == "hang" || res == "inconclusive-timeout" {
			out[no] = "O\tbuild\t" + res + "\nN\ttimeout:" + res + "\n"
		} else {
			out[no] = "O\tbuild\tcrash\n"
		}
	}
	return out
}

func complete(tr string) bool { return strings.HasSuffix(tr, "D\n") }

func (b *runner) start(blk int) chan map[int]string {
	if ch, ok := b.pending[blk]; ok {
		return ch
	}
	ch := make(chan map[int]string, 1)
	b.pending[blk] = ch
	go func() {
		b.sem <- struct{}{}
		defer func() { <-b.sem }()
		ch <- b.runBlock(blk)
	}()
	return ch
}

func (b *runner) get(seed uint64, tier string, no int, total int) string {
	b.mu.Lock()
	if b.pending == nil {
		b.pending = map[int]chan map[int]string{}
		b.sem = make(chan struct{}, b.workers)
	}
	b.seed, b.tier = seed, tier
	blk := no / b.size
	if no >= 1000000 {
		blk = -1
	}
	ch := b.start(blk)
	last := (total - 1) / b.size
	from := blk + 1
	if blk < 0 {
		from = 0
	}
	for k := from; k <= blk+b.ahead && k <= last; k++ {
		b.start(k)
	}
	b.mu.Unlock()
	m := <-ch
	ch <- m // keep it for the other cases of the block
	if blk >= 0 && (no+1)%b.size == 0 {
		b.mu.Lock()
		delete(b.pending, blk)
		b.mu.Unlock()
	}
	if r, ok := m[no]; ok {
		return r
	}
	return "O\tbuild\tcrash\n"
}

func relay(c *hx.Ctx, tr string) {
	for _, l := range strings.Split(tr, "\n") {
		switch {
		case strings.HasPrefix(l, "O\t"):
			parts := strings.SplitN(l, "\t", 3)
			if len(parts) == 3 {
				c.Op(parts[1], parts[2])
			}
		case strings.HasPrefix(l, "N\t"):
			c.Note(l[2:])
		}
	}
}

// selfTest (C01_SELFTEST=1): a spinning child must be `hang` by CPU, a sleeping one `hang` by stall, a slow but
// living one `inconclusive-timeout`.
func selfTest() {
	lim := limits{cpu: 3 * time.Second, stall: 4 * time.Second, wall: 10 * time.Second}
	for _, k := range []string{"spin", "sleep", "slow"} {
		os.Setenv("C01_TEST", k)
		t := time.Now()
		fmt.Printf("%s => %s after %.1fs\n", k, spawn("1 quick 0 1", lim), time.Since(t).Seconds())
	}
	os.Unsetenv("C01_TEST")
}

func main() {
	hx.RegisterChild("c01", child)
	if os.Getenv("C01_SELFTEST") != "" && os.Getenv("HX_CHILD") == "" {
		selfTest()
		return
	}
	quick, thorough := 100, 600
	run := &runner{size: 1, workers: 12, ahead: 24}
	total := func(c *hx.Ctx) int {
		if c.Thorough() {
			return thorough
		}
		return quick
	}
	emit := func(c *hx.Ctx, no int) {
		tc := caseOf(c.Seed, no, c.Thorough())
		for _, n := range tc.notes {
			c.Note(n)
		}
		types := map[int]bool{}
		cross := false
		for _, f := range tc.fs {
			types[f.ID.T] = true
			for _, e := range pathElems(f) {
				cross = cross || e.IsRef
			}
			for _, p := range f.Polys {
				cross = cross || len(p.Paths) > 0
			}
			cross = cross || len(f.Members) > 0
			c.Op(srcLine(f), "-")
		}
		c.Note(fmt.Sprintf("features:%s", bucket(len(tc.fs))))
		if len(types) >= 2 && cross {
			c.NonTrivial()
		}
		relay(c, run.get(c.Seed, c.Tier, no, total(c)))
	}
	hx.Main(hx.Family{
		Name: "c01",
		Rule: "points/paths/areas/relations in 1-4 namespaces per type (OSM and custom, with '/'), ids from boundary values (0, 2^31±1, 2^32, 2^63-1, 2^63.., 2^64-1), blocks of 1-3 features and of hundreds; paths by reference / lat-lng / mixed, open, closed ccw / cw / self-crossing, with missing points; areas by path refs / explicit loops / mixed, over open, dropped and absent paths; explicit polygons of several loops with holes and with degenerate loops that collapse at E7 (first / middle / last; S2 oracle per loop); heavy features at a low rate (records > 64 KB, 300-3000 tags, 300-3000 path points, 300-70000 relation members, 300-3000 paths through one point); relation members of every type incl. relations and absent points; string and point tag values (a single feature-id value = finding class fid-tag-value, corpus only); source order by type / areas first / shuffled; 1-3 goroutines. Non-trivial = at least two feature types and at least one cross reference",
		Quick:    quick,
		Thorough: thorough,
		Corpus: func(c *hx.Ctx) {
			// every corpus witness is a case of its own block; hx numbers the corpus as one case, so the
			// witnesses are written one after the other with a `reset` line between them
			for k := range corpus() {
				if k > 0 {
					c.Op("reset", "-")
				}
				emit(c, 1000000+k)
			}
		},
		Case: func(c *hx.Ctx) { emit(c, c.CaseNo) },
	})
}

func bucket(n int) string {
	switch {
	case n <= 5:
		return "1-5"
	case n <= 12:
		return "6-12"
	case n <= 30:
		return "13-30"
	case n <= 100:
		return "31-100"
	default:
		return ">100"
	}
}
