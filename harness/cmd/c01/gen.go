package main

// Case generator of the C01 harness: a feature set as plain data (`Feat`), its conversion to
// ingest.Feature values, the `src` words handed to the Lean driver, and the S2 verdicts of closed
// paths (the oracle the model takes as input).

import (
	"encoding/hex"
	"fmt"
	"math"
	"os"
	"strings"

	"diagonal.works/b6"
	"diagonal.works/b6/ingest"
	"github.com/golang/geo/s2"
	"verifharness/hx"
)

type ID struct {
	T  int // b6.FeatureType: 0 point, 1 path, 2 area, 3 relation
	NS string
	V  uint64
}

func (i ID) B6() b6.FeatureID {
	return b6.FeatureID{Type: b6.FeatureType(i.T), Namespace: b6.Namespace(i.NS), Value: i.V}
}

func fromB6(id b6.FeatureID) ID { return ID{T: int(id.Type), NS: string(id.Namespace), V: id.Value} }

type LL struct{ Lat, Lng int32 } // E7

type Elem struct {
	IsRef bool
	R     ID
	P     LL
}

// Val is a tag value: 's' string, 'p' point, 'f' feature id, 'x' expressions (path geometry)
type Val struct {
	Kind byte
	S    string
	P    LL
	F    ID
	X    []Elem
}

type Tag struct {
	K string
	V Val
}

type Poly struct {
	Paths []ID   // non-nil: a polygon given by path ids
	Loops [][]LL // otherwise: explicit loops (E7 vertices, in the order S2 keeps them)
	// Raw, when set, are the loops handed to S2 in degrees (not necessarily E7 exact); Loops / Dropped are
	// then derived from the S2 polygon by finishPoly: Dropped[i] = the loop does not survive E7
	// quantisation (the oracle of FromS2Polygon's lastMarshalledLoopIsValid)
	Raw     [][][2]float64
	Dropped []bool
}

func (p Poly) s2Polygon() *s2.Polygon {
	var loops []*s2.Loop
	if p.Raw != nil {
		for _, l := range p.Raw {
			pts := make([]s2.Point, len(l))
			for k, q := range l {
				pts[k] = s2.PointFromLatLng(s2.LatLngFromDegrees(q[0], q[1]))
			}
			loops = append(loops, s2.LoopFromPoints(pts))
		}
	} else {
		for _, l := range p.Loops {
			pts := make([]s2.Point, len(l))
			for k, q := range l {
				pts[k] = s2.PointFromLatLng(s2ll(q))
			}
			loops = append(loops, s2.LoopFromPoints(pts))
		}
	}
	return s2.PolygonFromLoops(loops)
}

// finishPoly derives, for a polygon given by raw loops, what FromS2Polygon will see: the loops in S2's
// order with their vertices at E7, and for each whether it survives the quantisation (S2 says the
// quantised loop is valid and its area is within 1e-4 of the original's).
func finishPoly(p Poly) Poly {
	if p.Raw == nil {
		return p
	}
	poly := p.s2Polygon()
	p.Loops, p.Dropped = nil, nil
	for i := 0; i < poly.NumLoops(); i++ {
		l := poly.Loop(i)
		var e7s []LL
		var pts []s2.Point
		for j := 0; j < l.NumVertices(); j++ {
			ll := s2.LatLngFromPoint(l.Vertex(j))
			q := LL{Lat: ll.Lat.E7(), Lng: ll.Lng.E7()}
			e7s = append(e7s, q)
			pts = append(pts, s2.PointFromLatLng(s2ll(q)))
		}
		ul := s2.LoopFromPoints(pts)
		ok := ul.Validate() == nil
		if ok && !(math.Abs(1.0-(ul.Area()/l.Area())) < 0.0001) {
			// fixes/C01-small-polygon-area-tolerance.patch: the change quantisation can cause is allowed
			perimeter := 0.0
			for j := range pts {
				perimeter += float64(pts[j].Distance(pts[(j+1)%len(pts)]))
			}
			ok = math.Abs(ul.Area()-l.Area()) <= perimeter*(math.Pi/180.0*1e-7)
		}
		p.Loops = append(p.Loops, e7s)
		p.Dropped = append(p.Dropped, !ok)
	}
	return p
}

type Member struct {
	Role string
	ID   ID
}

type Feat struct {
	ID      ID
	Tags    []Tag
	Polys   []Poly   // areas
	Members []Member // relations
	Oracle  byte     // paths: 'n' no loop verdict needed, 'v' valid ccw loop, 'c' valid clockwise loop, 'i' invalid loop
}

// ---- words --------------------------------------------------------------------------------------

func hx8(s string) string {
	if s == "" {
		return "-"
	}
	return hex.EncodeToString([]byte(s))
}

func idWord(i ID) string { return fmt.Sprintf("%d:%s:%d", i.T, hx8(i.NS), i.V) }

func llWord(p LL) string { return fmt.Sprintf("%d,%d", p.Lat, p.Lng) }

func elemWord(e Elem) string {
	if e.IsRef {
		return "r" + idWord(e.R)
	}
	return "p" + llWord(e.P)
}

func valWord(v Val) string {
	switch v.Kind {
	case 's':
		return "s:" + hx8(v.S)
	case 'p':
		return "p:" + llWord(v.P)
	case 'f':
		return "f:" + idWord(v.F)
	case 'x':
		ws := make([]string, len(v.X))
		for i, e := range v.X {
			ws[i] = elemWord(e)
		}
		return "x:" + strings.Join(ws, ";")
	}
	return "?"
}

func tagsWord(ts []Tag) string {
	ws := make([]string, len(ts))
	for i, t := range ts {
		ws[i] = hx8(t.K) + "=" + valWord(t.V)
	}
	return hx.List(ws)
}

func polyWord(p Poly) string {
	if p.Paths != nil {
		ws := make([]string, len(p.Paths))
		for i, id := range p.Paths {
			ws[i] = idWord(id)
		}
		return "r:" + strings.Join(ws, ";")
	}
	ls := make([]string, len(p.Loops))
	for i, l := range p.Loops {
		ws := make([]string, len(l))
		for j, q := range l {
			ws[j] = llWord(q)
		}
		ls[i] = strings.Join(ws, ";")
		if p.Dropped != nil && p.Dropped[i] {
			ls[i] = "!" + ls[i] // oracle: this loop does not survive E7 quantisation
		}
	}
	return "l:" + strings.Join(ls, "|")
}

func polysWord(ps []Poly) string {
	ws := make([]string, len(ps))
	for i, p := range ps {
		ws[i] = polyWord(p)
	}
	return hx.List(ws)
}

func membersWord(ms []Member) string {
	ws := make([]string, len(ms))
	for i, m := range ms {
		ws[i] = hx8(m.Role) + "@" + idWord(m.ID)
	}
	return hx.List(ws)
}

func srcLine(f Feat) string {
	switch f.ID.T {
	case 0:
		return fmt.Sprintf("src pt %s %s", idWord(f.ID), tagsWord(f.Tags))
	case 1:
		return fmt.Sprintf("src pa %s %s %c", idWord(f.ID), tagsWord(f.Tags), f.Oracle)
	case 2:
		return fmt.Sprintf("src ar %s %s %s", idWord(f.ID), tagsWord(f.Tags), polysWord(f.Polys))
	default:
		return fmt.Sprintf("src re %s %s %s", idWord(f.ID), tagsWord(f.Tags), membersWord(f.Members))
	}
}

// ---- conversion to ingest features --------------------------------------------------------------

func s2ll(p LL) s2.LatLng { return s2.LatLngFromDegrees(float64(p.Lat)/1e7, float64(p.Lng)/1e7) }

func toExpr(v Val) b6.Expression {
	switch v.Kind {
	case 's':
		return b6.NewStringExpression(v.S)
	case 'p':
		return b6.NewPointExpressionFromLatLng(s2ll(v.P))
	case 'f':
		return b6.NewFeatureIDExpression(v.F.B6())
	default:
		es := make([]b6.AnyExpression, len(v.X))
		for i, e := range v.X {
			if e.IsRef {
				es[i] = b6.FeatureIDExpression(e.R.B6())
			} else {
				es[i] = b6.PointExpression(s2ll(e.P))
			}
		}
		return b6.NewExpressions(es)
	}
}

func toTags(ts []Tag) b6.Tags {
	out := make(b6.Tags, len(ts))
	for i, t := range ts {
		out[i] = b6.Tag{Key: t.K, Value: toExpr(t.V)}
	}
	return out
}

func toFeature(f Feat) ingest.Feature {
	switch f.ID.T {
	case 0, 1:
		return &ingest.GenericFeature{ID: f.ID.B6(), Tags: toTags(f.Tags)}
	case 2:
		a := ingest.NewAreaFeature(len(f.Polys))
		a.AreaID = b6.AreaID{Namespace: b6.Namespace(f.ID.NS), Value: f.ID.V}
		a.Tags = toTags(f.Tags)
		for i, p := range f.Polys {
			if p.Paths != nil {
				ids := make([]b6.FeatureID, len(p.Paths))
				for j, id := range p.Paths {
					ids[j] = id.B6()
				}
				a.SetPathIDs(i, ids)
			} else {
				a.SetPolygon(i, p.s2Polygon())
			}
		}
		return a
	default:
		r := ingest.NewRelationFeature(len(f.Members))
		r.RelationID = b6.RelationID{Namespace: b6.Namespace(f.ID.NS), Value: f.ID.V}
		r.Tags = toTags(f.Tags)
		for i, m := range f.Members {
			r.Members[i] = b6.RelationMember{ID: m.ID.B6(), Role: m.Role}
		}
		return r
	}
}

func toFeatures(fs []Feat) []ingest.Feature {
	out := make([]ingest.Feature, len(fs))
	for i, f := range fs {
		out[i] = toFeature(f)
	}
	return out
}

// ---- the S2 oracle for closed paths -------------------------------------------------------------

func pathElems(f Feat) []Elem {
	for _, t := range f.Tags {
		if t.K == "path" {
			if t.V.Kind == 'x' {
				return t.V.X
			}
			return nil
		}
	}
	return nil
}

// closedPath mirrors b6.Tags.ClosedPath on the plain data: the first element and the element at
// index (number of valid references - 1) are the same valid reference.
func closedPath(es []Elem) bool {
	refs := 0
	for _, e := range es {
		if e.IsRef && e.R.NS != "" {
			refs++
		}
	}
	if len(es) == 0 || refs == 0 || !es[0].IsRef || es[0].R.NS == "" {
		return false
	}
	j := refs - 1
	if j >= len(es) || !es[j].IsRef {
		return false
	}
	return es[j].R == es[0].R
}

// fillOracles computes, for every closed path all of whose points resolve, S2's verdict on the loop
// (exactly the calls ingest.ValidatePath makes); every other path gets 'n'.
func fillOracles(fs []Feat) {
	locs := map[ID]LL{}
	for _, f := range fs {
		if f.ID.T == 0 {
			for _, t := range f.Tags {
				if t.K == "point" && t.V.Kind == 'p' {
					locs[f.ID] = t.V.P
				}
			}
		}
	}
	for i := range fs {
		f := &fs[i]
		if f.ID.T != 1 {
			continue
		}
		f.Oracle = 'n'
		es := pathElems(*f)
		if len(es) < 2 || !closedPath(es) {
			continue
		}
		pts := make([]s2.Point, 0, len(es))
		ok := true
		for _, e := range es {
			if e.IsRef {
				ll, found := locs[e.R]
				if !found {
					ok = false
					break
				}
				pts = append(pts, s2.PointFromLatLng(s2ll(ll)))
			} else {
				pts = append(pts, s2.PointFromLatLng(s2ll(e.P)))
			}
		}
		if !ok {
			continue
		}
		loop := s2.LoopFromPoints(pts[0 : len(pts)-1])
		if loop.Validate() != nil {
			f.Oracle = 'i'
		} else if loop.Area() > 2.0*math.Pi {
			f.Oracle = 'c'
		} else {
			f.Oracle = 'v'
		}
	}
}

// ---- generator ----------------------------------------------------------------------------------

const (
	nsNode = "openstreetmap.org/node"
	nsWay  = "openstreetmap.org/way"
	nsRel  = "openstreetmap.org/relation"
)

var customNS = []string{"diagonal.works/test", "custom", "a/b/c", "zz.example/x/y", "diagonal.works/ns/shared", "0"}

var keyVocab = []string{"#amenity", "#highway", "@name", "name", "addr:street", "#building", "b6:colour", "ref", "k"}
var valVocab = []string{"yes", "cafe", "primary", "Lower Street", "a=b", "", "#x", "caf\xc3\xa9", "1"}
var roleVocab = []string{"", "outer", "inner", "stop", "via", "from"}

type gen struct {
	r      *hx.Rand
	fs     []Feat
	used   map[ID]bool
	points []ID // existing points (in generation order; position i is on the circle)
	locs   map[ID]LL
	paths  []ID
	loops  []ID // closed, counter-clockwise reference/ mixed paths that should validate
	areas  []ID
	rels   []ID
	notes  []string
	cx, cy int32
	nextLL int
}

func (g *gen) note(s string) { g.notes = append(g.notes, s) }

func (g *gen) idValue() uint64 {
	r := g.r
	switch r.Intn(10) {
	case 0, 1, 2:
		return uint64(1 + r.Intn(40))
	case 3:
		return []uint64{0, 1, 2, 1<<31 - 1, 1 << 31, 1<<31 + 1, 1<<32 - 1, 1 << 32, 1<<63 - 1, 1 << 63, 1<<63 + 1, 1<<64 - 2, 1<<64 - 1}[r.Intn(13)]
	case 4:
		return r.Uint64Edge()
	case 5:
		return 1<<63 + uint64(r.Intn(8)) // top bit, small low bits: the bucket header packing
	default:
		return uint64(r.Intn(4000))
	}
}

func (g *gen) freshID(t int, ns string) ID {
	for {
		id := ID{T: t, NS: ns, V: g.idValue()}
		if !g.used[id] {
			g.used[id] = true
			return id
		}
	}
}

// circle position k of n around the case's centre, E7; radius in 1e-7 degrees
func (g *gen) circle(k, n int, radius float64) LL {
	a := 2 * math.Pi * float64(k) / float64(n)
	return LL{Lat: g.cy + int32(math.Round(radius*math.Sin(a))), Lng: g.cx + int32(math.Round(radius*math.Cos(a)))}
}

func (g *gen) strTags(max int) []Tag {
	r := g.r
	n := r.Intn(max + 1)
	var ts []Tag
	seen := map[string]bool{}
	for i := 0; i < n; i++ {
		k := r.Pick(keyVocab)
		if r.Chance(1, 8) {
			k = fmt.Sprintf("k%d", r.Intn(50))
		}
		if seen[k] || k == "point" || k == "path" {
			continue
		}
		seen[k] = true
		v := Val{Kind: 's', S: r.Pick(valVocab)}
		if r.Chance(1, 6) {
			v.S = fmt.Sprintf("v%d", r.Intn(1000))
		}
		if r.Chance(1, 10) { // a point-valued tag that is not the geometry
			v = Val{Kind: 'p', P: LL{Lat: g.cy + int32(r.Intn(2000)) - 1000, Lng: g.cx - int32(r.Intn(2000))}}
			g.note("tag:point-value")
		}
		ts = append(ts, Tag{K: k, V: v})
	}
	return ts
}

func insertAt(ts []Tag, t Tag, i int) []Tag {
	out := make([]Tag, 0, len(ts)+1)
	out = append(out, ts[:i]...)
	out = append(out, t)
	return append(out, ts[i:]...)
}

func (g *gen) pick(ids []ID) ID { return ids[g.r.Intn(len(ids))] }

func generate(r *hx.Rand, thorough bool) ([]Feat, []string) {
	g := &gen{r: r, used: map[ID]bool{}, locs: map[ID]LL{}}
	g.cy = 515000000 + int32(r.Intn(2000000)) - 1000000
	g.cx = -1200000 + int32(r.Intn(2000000))
	if r.Chance(1, 6) { // southern / eastern hemisphere, negative zigzags
		g.cy = -g.cy
		g.cx = -g.cx
	}

	// namespaces
	pickNS := func(osm string) []string {
		switch r.Intn(6) {
		case 0, 1, 2:
			return []string{osm}
		case 3:
			return []string{r.Pick(customNS)}
		case 4:
			return []string{osm, r.Pick(customNS)}
		default:
			return []string{r.Pick(customNS), r.Pick(customNS)}
		}
	}
	ptNS, paNS, arNS, reNS := pickNS(nsNode), pickNS(nsWay), pickNS(nsWay), pickNS(nsRel)
	if r.Chance(1, 8) { // areas in the OSM relation namespace (multipolygons)
		arNS = append(arNS, nsRel)
	}

	// sizes
	big := r.Chance(1, 12)
	if thorough {
		big = r.Chance(1, 6)
	}
	small := func() int { return 1 + r.Intn(3) }
	nPoints := 3 + r.Intn(8)
	nPaths, nAreas, nRels := r.Intn(5), r.Intn(4), r.Intn(4)
	if big {
		nPoints = 150 + r.Intn(400)
		nPaths = 20 + r.Intn(150)
		nAreas = r.Intn(40)
		nRels = r.Intn(40)
		g.note("size:big")
	} else if r.Chance(1, 3) {
		nPoints, nPaths, nAreas, nRels = 2+small(), small(), r.Intn(3), r.Intn(3)
		g.note("size:tiny")
	} else {
		g.note("size:small")
	}

	// points
	for i := 0; i < nPoints; i++ {
		id := g.freshID(0, r.Pick(ptNS))
		ll := g.circle(i, nPoints, 100000)
		ts := g.strTags(2)
		ts = insertAt(ts, Tag{K: "point", V: Val{Kind: 'p', P: ll}}, r.Intn(len(ts)+1))
		g.fs = append(g.fs, Feat{ID: id, Tags: ts})
		g.points = append(g.points, id)
		g.locs[id] = ll
	}
	absentPoint := func() ID { return g.freshID(0, r.Pick(ptNS)) }

	// a lat/lng element on an outer circle, never coinciding with a point
	freshLL := func() LL {
		g.nextLL++
		return g.circle(g.nextLL, 977, 200000)
	}

	// paths
	for i := 0; i < nPaths; i++ {
		id := g.freshID(1, r.Pick(paNS))
		var es []Elem
		n := 2 + r.Intn(5)
		start := r.Intn(len(g.points))
		step := 1 + r.Intn(2)
		ref := func(k int) Elem {
			return Elem{IsRef: true, R: g.points[((start+k*step)%len(g.points)+len(g.points))%len(g.points)]}
		}
		kind := r.Intn(10)
		closed := false
		switch {
		case kind < 4: // references only
			for k := 0; k < n; k++ {
				es = append(es, ref(k))
			}
			g.note("path:refs")
		case kind < 6: // lat/lngs only
			for k := 0; k < n; k++ {
				es = append(es, Elem{P: freshLL()})
			}
			if r.Chance(1, 3) && n >= 3 { // closed by coordinates: a loop for areas, never inverted
				es = append(es, es[0])
				g.note("path:latlngs-closed")
			} else {
				g.note("path:latlngs")
			}
		default: // mixed
			for k := 0; k < n; k++ {
				if r.Bool() {
					es = append(es, ref(k))
				} else {
					es = append(es, Elem{P: freshLL()})
				}
			}
			es[r.Intn(len(es))] = ref(0)
			es[r.Intn(len(es))] = Elem{P: freshLL()}
			g.note("path:mixed")
		}
		// closed reference loops: increasing indices = counter-clockwise, decreasing = clockwise
		if kind < 4 && len(g.points) >= 3 && r.Chance(1, 2) {
			n = 3 + r.Intn(3)
			if n > len(g.points) {
				n = len(g.points)
			}
			es = es[:0]
			idx := r.Perm(len(g.points))[:n]
			sortInts(idx)
			cw := r.Chance(1, 3)
			scrambled := r.Chance(1, 8)
			if cw {
				for a, b := 0, len(idx)-1; a < b; a, b = a+1, b-1 {
					idx[a], idx[b] = idx[b], idx[a]
				}
			}
			if scrambled && n >= 4 {
				idx[1], idx[2] = idx[2], idx[1]
			}
			for _, k := range idx {
				es = append(es, Elem{IsRef: true, R: g.points[k]})
			}
			es = append(es, es[0])
			closed = true
			switch {
			case scrambled && n >= 4:
				g.note("path:loop-scrambled")
			case cw:
				g.note("path:loop-cw")
			default:
				g.note("path:loop-ccw")
			}
		}
		if r.Chance(1, 14) { // a reference to a point that is not in the source: the path is dropped
			es[r.Intn(len(es))] = Elem{IsRef: true, R: absentPoint()}
			g.note("path:missing-point")
			closed = false
		}
		if r.Chance(1, 30) {
			es = es[:1]
			g.note("path:one-point")
			closed = false
		}
		ts := g.strTags(2)
		ts = insertAt(ts, Tag{K: "path", V: Val{Kind: 'x', X: es}}, r.Intn(len(ts)+1))
		g.fs = append(g.fs, Feat{ID: id, Tags: ts})
		g.paths = append(g.paths, id)
		if closed || (len(es) >= 4 && !es[0].IsRef && es[0] == es[len(es)-1]) {
			g.loops = append(g.loops, id)
		}
	}

	// areas
	tri := 0
	var explicit func() Poly
	explicit = func() Poly {
		nl := 1
		var loops [][]LL
		for l := 0; l < nl; l++ {
			tri++
			c := g.circle(tri, 389, 400000)
			m := 3 + r.Intn(3)
			loop := make([]LL, m)
			for k := 0; k < m; k++ {
				a := 2 * math.Pi * float64(k) / float64(m)
				loop[k] = LL{Lat: c.Lat + int32(math.Round(900*math.Sin(a))), Lng: c.Lng + int32(math.Round(900*math.Cos(a)))}
			}
			loops = append(loops, loop)
		}
		return Poly{Loops: loops}
	}
	// an explicit polygon of several loops: shells, a hole inside a shell, and degenerate loops that collapse to
	// one point at E7 precision (dropped by FromS2Polygon) in first / middle / last position
	explicitMulti := func() Poly {
		tri++
		c := g.circle(tri, 389, 400000)
		deg := func(lat, lng int32) [2]float64 { return [2]float64{float64(lat) / 1e7, float64(lng) / 1e7} }
		square := func(clat, clng, rad int32) [][2]float64 {
			return [][2]float64{deg(clat-rad, clng-rad), deg(clat-rad, clng+rad), deg(clat+rad, clng+rad), deg(clat+rad, clng-rad)}
		}
		tiny := func(clat, clng int32) [][2]float64 {
			b := deg(clat, clng)
			return [][2]float64{{b[0] + 1e-9, b[1] + 1e-9}, {b[0] + 1e-9, b[1] + 3e-9}, {b[0] + 3e-9, b[1] + 2e-9}}
		}
		var raw [][][2]float64
		n := 2 + r.Intn(3)
		tinyAt := -1
		if r.Chance(3, 4) {
			tinyAt = r.Intn(n)
		}
		for k := 0; k < n; k++ {
			off := int32(k) * 40000
			switch {
			case k == tinyAt:
				raw = append(raw, tiny(c.Lat+off, c.Lng+off))
				switch {
				case k == 0:
					g.note("loop:tiny-first")
				case k == n-1:
					g.note("loop:tiny-last")
				default:
					g.note("loop:tiny-middle")
				}
			default:
				raw = append(raw, square(c.Lat+off, c.Lng+off, 9000))
				if r.Chance(1, 3) {
					raw = append(raw, square(c.Lat+off, c.Lng+off, 3000)) // nested: a hole
					g.note("loop:hole")
				}
				if r.Chance(1, 6) {
					raw = append(raw, tiny(c.Lat+off+20000, c.Lng+off)) // a second degenerate loop
				}
			}
		}
		g.note("area:loops-multi")
		return finishPoly(Poly{Raw: raw})
	}
	// a small polygon (1 m … 100 m) whose vertices are not on the E7 grid, at the case's latitude
	explicitSmall := func() Poly {
		tri++
		c := g.circle(tri, 389, 400000)
		sizes := []float64{1, 2, 3, 6, 10, 20, 30, 60, 100}
		size := sizes[r.Intn(len(sizes))]
		d := size / 111320.0
		lat0 := float64(c.Lat)/1e7 + float64(r.Intn(1000))*1.2345e-10
		lng0 := float64(c.Lng)/1e7 + float64(r.Intn(1000))*0.9876e-10
		dl := d / math.Cos(lat0*math.Pi/180)
		m := 3 + r.Intn(4)
		loop := make([][2]float64, m)
		for k := 0; k < m; k++ {
			a := 2 * math.Pi * float64(k) / float64(m)
			loop[k] = [2]float64{lat0 + d/2*math.Sin(a), lng0 + dl/2*math.Cos(a)}
		}
		g.note(fmt.Sprintf("area:small-polygon-%dm", int(size)))
		return finishPoly(Poly{Raw: [][][2]float64{loop}})
	}
	explicit1 := explicit
	explicit = func() Poly {
		switch r.Intn(8) {
		case 0, 1:
			return explicitMulti()
		case 2, 3:
			return explicitSmall()
		}
		return explicit1()
	}
	for i := 0; i < nAreas; i++ {
		ns := r.Pick(arNS)
		id := g.freshID(2, ns)
		np := 1 + r.Intn(3)
		kind := r.Intn(10)
		var ps []Poly
		byPaths := func() Poly {
			m := 1 + r.Intn(2)
			var ids []ID
			for k := 0; k < m; k++ {
				switch {
				case len(g.loops) > 0 && !r.Chance(1, 10):
					ids = append(ids, g.pick(g.loops))
				case len(g.paths) > 0 && r.Chance(1, 2):
					ids = append(ids, g.pick(g.paths)) // possibly open or dropped: the area is dropped
					g.note("area:over-any-path")
				default:
					ids = append(ids, g.freshID(1, r.Pick(paNS))) // a path that does not exist
					g.note("area:over-absent-path")
				}
			}
			return Poly{Paths: ids}
		}
		switch {
		case kind < 4:
			for k := 0; k < np; k++ {
				ps = append(ps, byPaths())
			}
			g.note("area:refs")
		case kind < 7:
			for k := 0; k < np; k++ {
				ps = append(ps, explicit())
			}
			g.note("area:loops")
		default:
			if np < 2 {
				np = 2
			}
			for k := 0; k < np; k++ {
				if k%2 == 0 {
					ps = append(ps, byPaths())
				} else {
					ps = append(ps, explicit())
				}
			}
			if r.Bool() {
				ps[0], ps[1] = ps[1], ps[0]
			}
			g.note("area:mixed")
		}
		g.fs = append(g.fs, Feat{ID: id, Tags: g.strTags(3), Polys: ps})
		g.areas = append(g.areas, id)
	}

	// relations
	for i := 0; i < nRels; i++ {
		id := g.freshID(3, r.Pick(reNS))
		g.rels = append(g.rels, id)
	}
	for _, id := range g.rels {
		nm := r.Intn(5)
		if big && r.Chance(1, 10) {
			nm = 20 + r.Intn(60)
		}
		var ms []Member
		for k := 0; k < nm; k++ {
			var m ID
			switch t := r.Intn(8); {
			case t < 2:
				m = g.pick(g.points)
				if r.Chance(1, 10) {
					m = absentPoint()
					g.note("member:absent-point")
				}
			case t < 4 && len(g.paths) > 0:
				m = g.pick(g.paths)
			case t < 6 && len(g.areas) > 0:
				m = g.pick(g.areas)
			case t < 8 && len(g.rels) > 0:
				m = g.pick(g.rels)
				g.note("member:relation")
			default:
				m = g.pick(g.points)
			}
			ms = append(ms, Member{Role: r.Pick(roleVocab), ID: m})
		}
		g.fs = append(g.fs, Feat{ID: id, Tags: g.strTags(3), Members: ms})
	}

	// heavy features: sizes that cross the 2^8 / 2^16 boundaries of length and offset fields
	heavyChance := 20
	if thorough {
		heavyChance = 8
	}
	if r.Chance(1, heavyChance) || os.Getenv("C01_HEAVY") != "" {
		g.heavy(thorough)
	}

	// (a tag whose value is a single feature id is the known finding class fid-tag-value: the generator
	// excludes exactly that class; its witness is in the corpus)

	// source order: by type / shuffled / areas first (the validator has to queue them)
	switch r.Intn(4) {
	case 0:
		g.note("order:by-type")
	case 1:
		var as, rest []Feat
		for _, f := range g.fs {
			if f.ID.T == 2 {
				as = append(as, f)
			} else {
				rest = append(rest, f)
			}
		}
		g.fs = append(as, rest...)
		g.note("order:areas-first")
	default:
		p := r.Perm(len(g.fs))
		out := make([]Feat, len(g.fs))
		for i, j := range p {
			out[i] = g.fs[j]
		}
		g.fs = out
		g.note("order:shuffled")
	}
	fillOracles(g.fs)
	nsSet := map[string]bool{}
	for _, f := range g.fs {
		nsSet[f.ID.NS] = true
	}
	g.note(fmt.Sprintf("namespaces:%d", len(nsSet)))
	return g.fs, g.notes
}

// heavy adds one feature (or family of features) whose record, scratch bucket or member / point / tag count is
// far beyond the usual: long values, thousands of tags, tens of thousands of points or members, thousands of
// paths through one point.
func (g *gen) heavy(thorough bool) {
	r := g.r
	big := thorough && r.Chance(1, 3)
	pick := func(small, large int) int {
		if big {
			return large
		}
		return small
	}
	p0 := g.points[0]
	kind := r.Intn(6)
	if dbg := os.Getenv("C01_HEAVY"); dbg != "" { // measuring aid: "<kind> <big 0|1>" forces the shape
		var b int
		fmt.Sscanf(dbg, "%d %d", &kind, &b)
		big = b == 1
	}
	switch kind {
	case 0: // a point with one very long string value (> 64 KB record)
		n := 66000 + r.Intn(140000)
		var sb strings.Builder
		for i := 0; i < n; i++ {
			sb.WriteByte(byte('a' + (i*7+i/13)%26))
		}
		id := g.freshID(0, p0.NS)
		g.fs = append(g.fs, Feat{ID: id, Tags: []Tag{{K: "note", V: Val{Kind: 's', S: sb.String()}}, {K: "point", V: Val{Kind: 'p', P: g.circle(7, 11, 300000)}}}})
		g.note("heavy:long-value")
	case 1: // a point with hundreds / thousands of tags
		if !big && r.Bool() { // a record of more than 64 KB out of three keys and values
			ts := manyTags(33000 + r.Intn(3000))
			ts[len(ts)-1].V.P = g.circle(5, 11, 300000)
			g.fs = append(g.fs, Feat{ID: g.freshID(0, p0.NS), Tags: ts})
			g.note("heavy:tags-34000-repeated")
			break
		}
		n := pick(300, 20000) // 20 000 distinct tags: a record of more than 64 KB
		ts := []Tag{{K: "point", V: Val{Kind: 'p', P: g.circle(5, 11, 300000)}}}
		for i := 0; i < n; i++ {
			ts = append(ts, Tag{K: fmt.Sprintf("key:%d", i), V: Val{Kind: 's', S: fmt.Sprintf("value number %d", i%97)}})
		}
		g.fs = append(g.fs, Feat{ID: g.freshID(0, p0.NS), Tags: ts})
		g.note(fmt.Sprintf("heavy:tags-%d", n))
	case 2: // a lat/lng path with very many points (reading a path back is quadratic in its length — every
		// PointAt(i) unmarshals the whole tag list — so 2^16 points would take hours; 1000 crosses 2^8 only)
		n := pick(300, 1000) // ≈ 15 s CPU at 1000 points (3000: > 2 min and 3 GB)
		es := make([]Elem, n)
		for i := range es {
			es[i] = Elem{P: LL{Lat: g.cy + 500000 + int32(i), Lng: g.cx + int32(2*i)}}
		}
		g.fs = append(g.fs, Feat{ID: g.freshID(1, nsWay), Tags: []Tag{{K: "path", V: Val{Kind: 'x', X: es}}}})
		g.note(fmt.Sprintf("heavy:path-points-%d", n))
	case 3: // a reference path that visits the same few points hundreds of times
		n := pick(300, 600) // quadratic too, and every PointAt resolves the point: ≈ 10 s CPU at 600
		es := make([]Elem, n)
		for i := range es {
			es[i] = Elem{IsRef: true, R: g.points[(i*7)%len(g.points)]}
		}
		if es[0] == es[n-1] {
			es[n-1] = Elem{IsRef: true, R: g.points[(n*7+1)%len(g.points)]}
		}
		g.fs = append(g.fs, Feat{ID: g.freshID(1, nsWay), Tags: []Tag{{K: "path", V: Val{Kind: 'x', X: es}}}})
		g.note(fmt.Sprintf("heavy:path-refs-%d", n))
	case 4: // a relation with very many members (the member points get > 64 KB of scratch entries)
		n := pick(5000, 70000)
		if !thorough {
			n = 300 + r.Intn(2)*21000
		}
		ms := make([]Member, n)
		for i := range ms {
			ms[i] = Member{Role: roleVocab[i%len(roleVocab)], ID: g.points[i%2]}
			if i%5 == 0 && len(g.paths) > 0 {
				ms[i].ID = g.paths[i%len(g.paths)]
			}
		}
		g.fs = append(g.fs, Feat{ID: g.freshID(3, nsRel), Members: ms})
		g.note(fmt.Sprintf("heavy:members-%d", n))
	default: // hundreds / thousands of paths through one point
		n := pick(300, 3000)
		for i := 0; i < n; i++ {
			g.fs = append(g.fs, Feat{ID: g.freshID(1, nsWay), Tags: []Tag{{K: "path", V: Val{Kind: 'x', X: []Elem{
				{IsRef: true, R: p0}, {IsRef: true, R: g.points[1+i%(len(g.points)-1)]}}}}}})
		}
		g.note(fmt.Sprintf("heavy:paths-through-point-%d", n))
	}
}

func sortInts(a []int) {
	for i := 1; i < len(a); i++ {
		for j := i; j > 0 && a[j] < a[j-1]; j-- {
			a[j], a[j-1] = a[j-1], a[j]
		}
	}
}
