// C30 harness: graph.ShortestPathSearch on small street networks built as real b6 worlds.
//
// Per case one world (basic or compact) is built from generated OSM nodes/ways (shared nodes, closed
// loops, repeated nodes, one-way tags, unusable highway kinds, tagged mid-way points). The world is
// wrapped so that Traverse returns its segments in a per-case deterministic order (b6's basic world
// orders them by Go map iteration). Lines:
//
//	world <kind> [points] [w=p,p,.. ...]       => [pt/seg/first/last/usable/weight ...]   real Traverse + Weights; paths
//	search <origin> <max> zu=<0|1> bf=[p:d..]  => [p:d:route ...]    NewShortestPathSearchFromPoint+ExpandSearch,
//	                                                                  PointDistances, AllRoutes, BuildPath
//	searchto <origin> <to> <max> zu=.. bf=[..] => [p:d:route ...]    ...+ExpandSearchTo (= ComputeShortestPath)
//	access <origin> <max> zu=.. bf=[..]        => [p:d ...] | [seg:n ...] | [q ...]   ComputeAccessibility: distances of the
//	                                              points the search reached, per-segment path counts, interpolated points
//
// bf = in-harness Bellman-Ford over the dumped Traverse adjacency (usable segments), no limit.
// zu = "some feature referencing the origin is usable" (the connectivity probe of
// NewShortestPathSearchFromPoint, evaluated with the same Weights) — an input of the model like the
// per-segment usable flags. The driver's predicate does not trust it: it derives "the origin is on the
// network" from the usable out-segments of the origin.
package main

import (
	"container/heap"
	"context"
	"fmt"
	"io"
	"log"
	"math"
	"sort"
	"strconv"
	"strings"

	"diagonal.works/b6"
	"diagonal.works/b6/graph"
	"diagonal.works/b6/ingest"
	"diagonal.works/b6/ingest/compact"
	"diagonal.works/b6/osm"
	"verifharness/hx"
)

// ---- weights -----------------------------------------------------------------------------------

// tableWeights: usability from the real tags exactly as graph.CarWeights decides it (highway kind,
// oneway direction); weight = integer from a per-case table keyed by the segment.
type tableWeights struct {
	salt      uint64
	mod       uint64
	symmetric bool
}

func mix(x uint64) uint64 {
	x += 0x9e3779b97f4a7c15
	x = (x ^ (x >> 30)) * 0xbf58476d1ce4e5b9
	x = (x ^ (x >> 27)) * 0x94d049bb133111eb
	return x ^ (x >> 31)
}

func (t tableWeights) IsUseable(s b6.Segment) bool { return graph.CarWeights{}.IsUseable(s) }

func (t tableWeights) Weight(s b6.Segment) float64 {
	first, last := uint64(s.First), uint64(s.Last)
	if t.symmetric && first > last {
		first, last = last, first
	}
	h := mix(t.salt ^ mix(s.Feature.FeatureID().Value*1000003+first*1009+last))
	return float64(h % t.mod)
}

// wayWeights: one explicit integer weight per way (every way of a fan network has two nodes, so a way is
// one edge, same weight in both directions); usability as above.
type wayWeights struct{ w map[uint64]float64 }

func (t wayWeights) IsUseable(s b6.Segment) bool { return graph.CarWeights{}.IsUseable(s) }
func (t wayWeights) Weight(s b6.Segment) float64 { return t.w[s.Feature.FeatureID().Value] }

// ---- deterministic Traverse --------------------------------------------------------------------

type orderedWorld struct {
	b6.World
	salt uint64
}

func segKey(s b6.Segment) uint64 {
	return s.Feature.FeatureID().Value*1000003 + uint64(s.First)*1009 + uint64(s.Last)
}

func (o orderedWorld) Traverse(id b6.FeatureID) b6.Segments {
	var segs []b6.Segment
	ss := o.World.Traverse(id)
	for ss.Next() {
		segs = append(segs, ss.Segment())
	}
	sort.SliceStable(segs, func(i, j int) bool {
		a, b := mix(o.salt^segKey(segs[i])), mix(o.salt^segKey(segs[j]))
		if a != b {
			return a < b
		}
		return segKey(segs[i]) < segKey(segs[j])
	})
	return ingest.NewSegmentIterator(segs)
}

// ---- naming ------------------------------------------------------------------------------------

func ptName(id b6.FeatureID) string {
	if id.Type == b6.FeatureTypePoint && id.Namespace == b6.NamespaceOSMNode {
		return fmt.Sprintf("n%d", id.Value)
	}
	return fmt.Sprintf("x%d.%d", int(id.Type), id.Value)
}

func segName(s b6.Segment) string {
	if s.Feature == nil {
		return "invalid"
	}
	return fmt.Sprintf("w%d.%d.%d", s.Feature.FeatureID().Value, s.First, s.Last)
}

func num(f float64) string {
	if math.IsInf(f, 1) {
		return "inf"
	}
	return strconv.FormatFloat(f, 'f', -1, 64)
}

// ---- network -----------------------------------------------------------------------------------

type network struct {
	nodes []osm.Node
	ways  []osm.Way
}

type edge struct {
	from, seg, first, last string
	usable                bool
	weight                float64
}

func buildWorld(n network, kind string) (b6.World, error) {
	o := &ingest.BuildOptions{Cores: 1}
	if kind == "basic" {
		return ingest.BuildWorldFromOSM(n.nodes, n.ways, nil, o)
	}
	src := ingest.MemoryOSMSource{Nodes: n.nodes, Ways: n.ways}
	source, err := ingest.NewFeatureSourceFromPBF(&src, o, context.Background())
	if err != nil {
		return nil, err
	}
	index, err := compact.BuildInMemory(source, &compact.Options{Goroutines: 1, PointsScratchOutputType: compact.OutputTypeMemory})
	if err != nil {
		return nil, err
	}
	w := compact.NewWorld()
	return w, w.Merge(index)
}

func dumpAdjacency(w b6.World, weights graph.Weights, pts []b6.FeatureID) ([]edge, string) {
	var es []edge
	var out []string
	for _, p := range pts {
		ss := w.Traverse(p)
		for ss.Next() {
			s := ss.Segment()
			e := edge{from: ptName(p), seg: segName(s), first: ptName(s.FirstFeatureID()), last: ptName(s.LastFeatureID()),
				usable: weights.IsUseable(s), weight: weights.Weight(s)}
			es = append(es, e)
			u := "0"
			if e.usable {
				u = "1"
			}
			out = append(out, strings.Join([]string{e.from, e.seg, e.first, e.last, u, num(e.weight)}, "/"))
		}
	}
	return es, hx.List(out)
}

// bellmanFord over the dumped adjacency, usable segments only, from one origin, no limit.
func bellmanFord(es []edge, origin string, npts int) map[string]float64 {
	d := map[string]float64{origin: 0}
	for round := 0; round <= npts+1; round++ {
		changed := false
		for _, e := range es {
			if !e.usable {
				continue
			}
			if du, ok := d[e.from]; ok {
				if dv, ok := d[e.last]; !ok || du+e.weight < dv {
					d[e.last] = du + e.weight
					changed = true
				}
			}
		}
		if !changed {
			break
		}
	}
	return d
}

func renderDist(d map[string]float64) string {
	ks := hx.SortedKeys(d)
	out := make([]string, len(ks))
	for i, k := range ks {
		out[i] = k + ":" + num(d[k])
	}
	return hx.List(out)
}

// renderSearch: every byPoint entry with its distance, route (AllRoutes) and segments (BuildPath).
func renderSearch(s *graph.ShortestPathSearch) string {
	dist := s.PointDistances()
	routes := s.AllRoutes()
	m := map[string]string{}
	for id, d := range dist {
		r := routes[id]
		path := s.BuildPath(id)
		parts := []string{ptName(r.Origin)}
		for i, st := range r.Steps {
			seg := "nopath"
			if i < len(path) {
				seg = segName(path[i])
				if path[i].Feature.FeatureID() != st.Via {
					seg = "viamismatch"
				}
			}
			parts = append(parts, seg+"-"+ptName(st.Destination)+"-"+num(st.Cost))
		}
		if len(path) != len(r.Steps) {
			parts = append(parts, "lenmismatch")
		}
		m[ptName(id)] = num(d) + ":" + strings.Join(parts, "/")
	}
	ks := hx.SortedKeys(m)
	out := make([]string, len(ks))
	for i, k := range ks {
		out[i] = k + ":" + m[k]
	}
	return hx.List(out)
}

// renderAccess: ComputeAccessibility's distances for exactly the points the search itself reached (the
// other keys of the map are interpolated mid-segment points, which have no weighted distance), and its
// segment counts (direction dropped, as the code does).
func renderAccess(o b6.FeatureID, max float64, weights graph.Weights, w b6.World) string {
	s := graph.NewShortestPathSearchFromPoint(o, weights, w)
	s.ExpandSearch(max, weights, graph.Points, w)
	reached := s.PointDistances()
	dist, counts := graph.ComputeAccessibility(o, max, weights, w)
	dm := map[string]string{}
	for id := range reached {
		if d, ok := dist[id]; ok {
			dm[ptName(id)] = num(d)
		} else {
			dm[ptName(id)] = "missing"
		}
	}
	var ds []string
	for _, k := range hx.SortedKeys(dm) {
		ds = append(ds, k+":"+dm[k])
	}
	cm := map[string]int{}
	for k, n := range counts {
		cm[fmt.Sprintf("w%d.%d.%d", k.ID.Value, k.First, k.Last)] += n
	}
	var cs []string
	for _, k := range hx.SortedKeys(cm) {
		cs = append(cs, fmt.Sprintf("%s:%d", k, cm[k]))
	}
	// the other keys of the map: mid-segment points that got an interpolated distance
	var interp []string
	for id := range dist {
		if _, ok := reached[id]; !ok {
			interp = append(interp, ptName(id))
		}
	}
	sort.Strings(interp)
	return hx.List(ds) + " | " + hx.List(cs) + " | " + hx.List(interp)
}

// zeroUsable mirrors the connectivity probe of NewShortestPathSearchFromPoint (after fix
// C30-origin-on-oneway-path): some referencing physical feature is usable — paths as their own forward
// segment (b6.ToSegment), other features as Segment{Feature: f}.
func zeroUsable(w b6.World, weights graph.Weights, p b6.FeatureID) bool {
	rs := w.FindReferences(p)
	for rs.Next() {
		f := w.FindFeatureByID(rs.FeatureID())
		if pf, ok := f.(b6.PhysicalFeature); ok {
			if pf.GeometryType() == b6.GeometryTypePath {
				if weights.IsUseable(b6.ToSegment(pf)) {
					return true
				}
			} else if weights.IsUseable(b6.Segment{Feature: pf}) {
				return true
			}
		}
	}
	return false
}

func b01(b bool) string {
	if b {
		return "1"
	}
	return "0"
}

// ---- one world, all its searches ---------------------------------------------------------------

type plan struct {
	kind       string
	net        network
	weights    graph.Weights
	mustOrigin int  // node that is always searched from (0 = none)
	wideLimits bool // limits that let everything be queued (fan networks)
	orderSalt  uint64
	allOrigins bool
	selfTo     bool // always include ExpandSearchTo towards the origin itself
}

func runWorld(c *hx.Ctx, p plan) {
	r := c.Rand
	base, err := buildWorld(p.net, p.kind)
	if err != nil || base == nil {
		c.Note("world:build-error")
		return
	}
	w := orderedWorld{World: base, salt: p.orderSalt}
	var pts []b6.FeatureID
	var names []string
	for _, n := range p.net.nodes {
		id := ingest.FromOSMNodeID(n.ID)
		if w.FindFeatureByID(id) == nil {
			continue
		}
		pts = append(pts, id)
		names = append(names, ptName(id))
	}
	es, adj := dumpAdjacency(w, p.weights, pts)
	// the point sequence of every path as the world has it (a builder may have inverted it)
	var paths []string
	for _, way := range p.net.ways {
		if f, ok := w.FindFeatureByID(ingest.FromOSMWayID(way.ID)).(b6.PhysicalFeature); ok && f != nil {
			var ns []string
			for i := 0; i < f.GeometryLen(); i++ {
				ns = append(ns, ptName(f.Reference(i).Source()))
			}
			paths = append(paths, fmt.Sprintf("w%d=%s", way.ID, strings.Join(ns, ",")))
		}
	}
	c.Op("world "+p.kind+" "+hx.List(names)+" "+hx.List(paths), adj)
	c.Note("world:" + p.kind)
	c.Note(fmt.Sprintf("points:%d", len(pts)))
	c.Note(fmt.Sprintf("edges:%d", len(es)/4*4))
	zeros, unus := 0, 0
	for _, e := range es {
		if e.usable && e.weight == 0 {
			zeros++
		}
		if !e.usable {
			unus++
		}
	}
	if zeros > 0 {
		c.Note("has:zero-weight-usable-edge")
	}
	if unus > 0 {
		c.Note("has:unusable-edge")
	}
	origins := pts
	if !p.allOrigins && len(pts) > 4 {
		perm := r.Perm(len(pts))
		origins = nil
		for _, i := range perm[:4] {
			origins = append(origins, pts[i])
		}
		if p.mustOrigin != 0 {
			origins[0] = ingest.FromOSMNodeID(osm.NodeID(p.mustOrigin))
		}
	}
	deepDecrease := false
	defer func() {
		if deepDecrease {
			c.Note("case:has-decrease-key-of-2+-levels")
		}
	}()
	for _, o := range origins {
		bf := bellmanFord(es, ptName(o), len(pts))
		var ds []float64
		for _, d := range bf {
			ds = append(ds, d)
		}
		sort.Float64s(ds)
		far := ds[len(ds)-1]
		// limits: one that equals a true distance (strictness of `<`), that + 1, and one of {0, 1, far+5, 1e6}
		tight := ds[r.Intn(len(ds))]
		if tight == 0 && r.Chance(3, 4) {
			tight = far
		}
		limits := []float64{tight, tight + 1, []float64{0, 1, far + 5, 1e6, far + 1, far + 1}[r.Intn(6)]}
		if p.wideLimits {
			limits = []float64{1e6, 5000, tight + 1}
		}
		zu := zeroUsable(w, p.weights, o)
		if !zu {
			c.Note("origin:not-connected")
		}
		if !zu && len(ds) == 1 { // isolated point: one search is enough
			limits = limits[2:]
		}
		for _, max := range limits {
			ans := hx.Recover(func() string {
				s := graph.NewShortestPathSearchFromPoint(o, p.weights, w)
				s.ExpandSearch(max, p.weights, graph.Points, w)
				return renderSearch(s)
			})
			c.Op(fmt.Sprintf("search %s %s zu=%s bf=%s", ptName(o), num(max), b01(zu), renderDist(bf)), ans)
			if zu {
				q, lv := heapStats(es, ptName(o), max)
				c.Note("heap:max-queue:" + bucketQ(q))
				c.Note(fmt.Sprintf("heap:max-decrease-levels:%d", lv))
				if lv >= 2 {
					deepDecrease = true
				}
			}
			reported := strings.Count(ans, ":") / 2
			c.Note(fmt.Sprintf("search:reported:%s", bucket(reported)))
			cut := 0
			for _, d := range ds {
				if !(d < max) {
					cut++
				}
			}
			if cut > 0 {
				c.Note("search:limit-cuts-some-point")
			}
			if reported >= 4 && strings.Count(ans, "/") > reported {
				c.NonTrivial()
			}
		}
		{ // ComputeAccessibility with one of the limits
			max := limits[r.Intn(len(limits))]
			ans := hx.Recover(func() string { return renderAccess(o, max, p.weights, w) })
			c.Op(fmt.Sprintf("access %s %s zu=%s bf=%s", ptName(o), num(max), b01(zu), renderDist(bf)), ans)
			c.Note("op:access")
		}
		// ExpandSearchTo / ComputeShortestPath towards two other points
		for k := 0; k < 2; k++ {
			to := pts[r.Intn(len(pts))]
			if k == 0 && (p.selfTo || r.Chance(1, 4)) {
				to = o // destination = origin (fix C30-expandsearchto-known-destination)
				c.Note("searchto:to-is-origin")
			}
			max := limits[r.Intn(len(limits))]
			if r.Chance(1, 3) {
				if d, ok := bf[ptName(to)]; ok {
					max = d + float64(r.Intn(2)) // exactly the true distance (must not be found) or one more
				}
			}
			ans := hx.Recover(func() string {
				s := graph.NewShortestPathSearchFromPoint(o, p.weights, w)
				s.ExpandSearchTo(to, max, p.weights, w)
				return renderSearch(s)
			})
			c.Op(fmt.Sprintf("searchto %s %s %s zu=%s bf=%s", ptName(o), ptName(to), num(max), b01(zu), renderDist(bf)), ans)
			if d, ok := bf[ptName(to)]; ok && d < max {
				c.Note("searchto:reachable")
			} else {
				c.Note("searchto:unreachable-or-too-far")
			}
		}
	}
}

func bucketQ(n int) string {
	switch {
	case n <= 3:
		return "1-3"
	case n <= 7:
		return "4-7"
	case n <= 15:
		return "8-15"
	default:
		return "16+"
	}
}

// ---- queue statistics ---------------------------------------------------------------------------
//
// heapStats replays the search on the dumped adjacency with Go's container/heap exactly as graph.go uses
// it (same Less/Swap/Push/Pop, same Traverse order) and reports the largest queue and the largest number
// of heap levels a decrease-key (heap.Fix) moved an entry up. Only used for the input histogram.

type simEntry struct {
	pt      string
	dist    float64
	visited bool
	index   int
}
type simHeap []*simEntry

func (h simHeap) Len() int           { return len(h) }
func (h simHeap) Less(i, j int) bool { return h[i].dist < h[j].dist }
func (h simHeap) Swap(i, j int)      { h[i], h[j] = h[j], h[i]; h[i].index = i; h[j].index = j }
func (h *simHeap) Push(x any)        { e := x.(*simEntry); e.index = len(*h); *h = append(*h, e) }
func (h *simHeap) Pop() any {
	old := *h
	e := old[len(old)-1]
	e.index = -1
	*h = old[:len(old)-1]
	return e
}

func level(i int) int {
	l := 0
	for i > 0 {
		i = (i - 1) / 2
		l++
	}
	return l
}

func heapStats(es []edge, origin string, max float64) (maxQueue int, maxLevels int) {
	adj := map[string][]edge{}
	for _, e := range es {
		adj[e.from] = append(adj[e.from], e)
	}
	by := map[string]*simEntry{}
	h := &simHeap{}
	o := &simEntry{pt: origin}
	by[origin] = o
	*h = append(*h, o)
	for h.Len() > 0 {
		if h.Len() > maxQueue {
			maxQueue = h.Len()
		}
		r := heap.Pop(h).(*simEntry)
		r.visited = true
		for _, e := range adj[r.pt] {
			if n, ok := by[e.last]; ok && n.visited {
				continue
			}
			if !e.usable || !(r.dist+e.weight < max) {
				continue
			}
			d := r.dist + e.weight
			if n, ok := by[e.last]; ok {
				if n.dist > d {
					before := level(n.index)
					n.dist = d
					heap.Fix(h, n.index)
					if lv := before - level(n.index); lv > maxLevels {
						maxLevels = lv
					}
				}
			} else {
				n := &simEntry{pt: e.last, dist: d}
				by[e.last] = n
				heap.Push(h, n)
			}
			if h.Len() > maxQueue {
				maxQueue = h.Len()
			}
		}
	}
	return
}

func bucket(n int) string {
	switch {
	case n == 0:
		return "0"
	case n == 1:
		return "1"
	case n <= 3:
		return "2-3"
	case n <= 6:
		return "4-6"
	default:
		return "7+"
	}
}

// ---- generator ---------------------------------------------------------------------------------

var highways = []string{"residential", "residential", "residential", "primary", "secondary", "service", "tertiary", "unclassified", "footway", "cycleway", ""}

func genNetwork(c *hx.Ctx) network {
	r := c.Rand
	n := 2 + r.Intn(11) // 2..12 nodes
	var net network
	for i := 1; i <= n; i++ {
		// distinct positions on a jittered grid (metres apart), so closed ways are real polygons
		lat := 51.5350 + float64(i/4)*0.0004 + float64(r.Intn(7))*0.00001
		lng := -0.1250 + float64(i%4)*0.0004 + float64(r.Intn(7))*0.00001
		node := osm.Node{ID: osm.NodeID(i), Location: osm.LatLng{Lat: lat, Lng: lng}}
		if r.Chance(1, 5) { // a tagged point is a graph node even in the middle of a way
			node.Tags = osm.Tags{{Key: "barrier", Value: "gate"}, {Key: "name", Value: "g"}}
			c.Note("node:tagged")
		}
		net.nodes = append(net.nodes, node)
	}
	m := 1 + r.Intn(3+n/2)
	for j := 1; j <= m; j++ {
		ln := 2 + r.Intn(4)
		if ln > n {
			ln = n
		}
		var ids []osm.NodeID
		if r.Chance(2, 3) {
			perm := r.Perm(n)
			for _, k := range perm[:ln] {
				ids = append(ids, osm.NodeID(k+1))
			}
		} else { // a run of consecutive nodes: long chains that share end nodes with other ways
			start := r.Intn(n)
			for k := 0; k < ln; k++ {
				ids = append(ids, osm.NodeID((start+k)%n+1))
			}
		}
		shape := r.Intn(10)
		switch {
		case shape == 0 && len(ids) >= 3: // closed loop
			ids = append(ids, ids[0])
			c.Note("way:closed-loop")
		case shape == 1 && len(ids) >= 3: // revisits an inner node (lollipop)
			ids = append(ids, ids[1])
			c.Note("way:revisits-node")
		}
		way := osm.Way{ID: osm.WayID(j), Nodes: ids}
		hw := r.Pick(highways)
		if hw != "" {
			way.Tags = append(way.Tags, osm.Tag{Key: "highway", Value: hw})
		}
		if hw == "footway" || hw == "cycleway" || hw == "" {
			c.Note("way:unusable-kind")
		}
		if r.Chance(1, 4) {
			way.Tags = append(way.Tags, osm.Tag{Key: "oneway", Value: "yes"})
			c.Note("way:oneway")
		}
		net.ways = append(net.ways, way)
	}
	return net
}

// genFan: a network built to stress the queue. Origin 1 has heavy direct ways to k leaves (all queued at once,
// 3..6 heap levels); a gateway (node 2) one cheap step from the origin has cheap ways to many leaves, so popping it
// decreases entries that sit deep in the heap to below the head (decrease-keys that climb 2..5 levels); cheap
// leaf-to-leaf ways make the improved points lie on the best routes of the entries they overtake, so a queue that
// is out of order finalises wrong distances.
func genFan(c *hx.Ctx) {
	r := c.Rand
	k := 8 + r.Intn(31) // leaves
	n := k + 2
	net := network{nodes: gridNodes(n)}
	weights := wayWeights{w: map[uint64]float64{}}
	res := [][2]string{{"highway", "residential"}}
	id := 0
	add := func(a, b int, w float64) {
		id++
		net.ways = append(net.ways, way(id, res, a, b))
		weights.w[uint64(id)] = w
	}
	add(1, 2, float64(1+r.Intn(5)))
	for l := 3; l <= n; l++ {
		add(1, l, float64(100+r.Intn(900)))
	}
	gates := 1 + r.Intn(2)
	for gi := 0; gi < gates; gi++ {
		g := 2
		if gi == 1 { // a second gateway behind one of the leaves
			g = 3 + r.Intn(k)
		}
		for l := 3; l <= n; l++ {
			if l != g && r.Chance(2, 5) {
				add(g, l, float64(1+r.Intn(60)))
			}
		}
	}
	for j := 0; j < k+r.Intn(k); j++ { // cheap leaf-to-leaf ways
		a, b := 3+r.Intn(k), 3+r.Intn(k)
		if a != b {
			add(a, b, float64(r.Intn(12)))
		}
	}
	c.Note("class:fan")
	c.Note(fmt.Sprintf("fan:leaves:%s", bucketQ(k)))
	runWorld(c, plan{kind: "basic", net: net, weights: weights, orderSalt: r.Uint64(), allOrigins: false,
		mustOrigin: 1, wideLimits: true})
}

func genCase(c *hx.Ctx) {
	r := c.Rand
	if r.Chance(1, 4) {
		genFan(c)
		return
	}
	c.Note("class:street")
	net := genNetwork(c)
	mods := []uint64{1, 2, 3, 4, 8, 20, 100}
	kind := "basic"
	if r.Chance(1, 300) { // a compact build costs seconds (fixed-size reservations), so it is sampled sparsely
		kind = "compact"
	}
	p := plan{
		kind:       kind,
		net:        net,
		weights:    tableWeights{salt: r.Uint64(), mod: mods[r.Intn(len(mods))], symmetric: r.Bool()},
		orderSalt:  r.Uint64(),
		allOrigins: true,
	}
	c.Note(fmt.Sprintf("weights:mod-%d", p.weights.(tableWeights).mod))
	runWorld(c, p)
}

func way(id int, tags [][2]string, nodes ...int) osm.Way {
	w := osm.Way{ID: osm.WayID(id)}
	for _, n := range nodes {
		w.Nodes = append(w.Nodes, osm.NodeID(n))
	}
	for _, t := range tags {
		w.Tags = append(w.Tags, osm.Tag{Key: t[0], Value: t[1]})
	}
	return w
}

func gridNodes(n int) []osm.Node {
	var ns []osm.Node
	for i := 1; i <= n; i++ {
		ns = append(ns, osm.Node{ID: osm.NodeID(i), Location: osm.LatLng{Lat: 51.5350 + float64(i/4)*0.0004 + float64(i%3)*0.00002, Lng: -0.1250 + float64(i%4)*0.0004}})
	}
	return ns
}

func corpus(c *hx.Ctx) {
	res := [][2]string{{"highway", "residential"}}
	one := [][2]string{{"highway", "residential"}, {"oneway", "yes"}}
	foot := [][2]string{{"highway", "footway"}}
	nets := []network{
		// diamond with a long direct way: the direct edge is recorded first and must be decreased
		{gridNodes(4), []osm.Way{way(1, res, 1, 4), way(2, res, 1, 2), way(3, res, 2, 3), way(4, res, 3, 4)}},
		// origin (node 1) lies only on a one-way street
		{gridNodes(3), []osm.Way{way(1, one, 1, 2, 3)}},
		// one-way ring plus a footway chord
		{gridNodes(5), []osm.Way{way(1, one, 1, 2, 3, 4, 5, 1), way(2, foot, 2, 5), way(3, res, 3, 5)}},
		// two ways joined at an end node, and an isolated way
		{gridNodes(6), []osm.Way{way(1, res, 1, 2), way(2, res, 2, 3), way(3, res, 5, 6)}},
	}
	for i, net := range nets {
		for _, mod := range []uint64{1, 3, 20} {
			kind := "basic"
			if mod == 3 && i == 2 {
				kind = "compact"
			}
			runWorld(c, plan{kind: kind, net: net, weights: tableWeights{salt: uint64(i)*77 + mod, mod: mod, symmetric: mod != 3},
				orderSalt: uint64(i) + mod, allOrigins: true, selfTo: true})
		}
	}
	c.NonTrivial()
}

func main() {
	log.SetOutput(io.Discard) // compact.Build logs every stage
	hx.Main(hx.Family{
		Name: "c30",
		Rule: "networks of 2..12 OSM nodes and 1..7 ways (random/consecutive node runs, closed loops, revisited nodes, " +
			"highway kinds incl. unusable ones, oneway=yes, tagged mid-way points) built as basic or compact worlds; " +
			"integer weights from a per-case table (mod 1..100, symmetric or directional); every point as origin, three " +
			"limits each (one equal to a true distance), two ExpandSearchTo targets; 1 case in 4 is a fan network (origin with heavy " +
			"ways to 8..38 leaves, cheap gateways and leaf-to-leaf ways: 8..40 queued entries, decrease-keys climbing 2+ heap " +
			"levels; queue size and climbed levels are measured by a container/heap replay); non-trivial = some search reports " +
			">= 4 points with at least one multi-step route; distinct = by hash of the op text",
		Quick:    450,
		Thorough: 8000,
		Corpus:   corpus,
		Case:     genCase,
	})
}
