// C12 harness: operation sequences (AddFeature / AddTag / RemoveTag, a few through Change values) on a
// real ingest.MutableOverlayWorld over a BasicMutableWorld root; after EVERY operation all reads for
// all ids of the universe (FindFeatureByID tags, HasFeatureWithID, every single-token FindFeatures,
// EachFeature) are dumped and compared by the driver with the Lean model and with the map spec.
package main

import (
	"fmt"

	"verifharness/cmd/c12/mw"
	"verifharness/hx"
)

func s(k, v string) mw.Tag { return mw.Tag{K: k, Kind: "s", S: v} }

func corpus(c *hx.Ctx) {
	// fixed: plain tag then searchable tag on a base point lost the plain tag (DESIGN §7)
	k := mw.NewCase(c)
	k.StandardRoot(hx.NewRand(1), false)
	k.World()
	k.Dump()
	k.AddTag(1, s("name", "plain"))
	k.AddTag(1, s("#amenity", "cafe"))
	// fixed: a plain tag added to a base feature could not be removed again
	k.AddTag(2, s("note", "x"))
	k.RemoveTag(2, "note")
	// fixed: a non-string value of a plain tag on a base feature was read back as a string
	k.AddTag(3, mw.Tag{K: "surface", Kind: "i", S: "7"})
	k.AddTag(3, mw.Tag{K: "#highway", Kind: "i", S: "7"})
	// plain removal recorded, then the feature is copied by a searchable removal / addition
	k.AddTag(1005, s("name", "ring"))
	k.RemoveTag(1005, "name")
	k.AddTag(1005, s("@lit", "yes"))
	k.AddTag(2006, s("note", "a"))
	k.AddTag(2006, s("#amenity", "pub"))
	k.RemoveTag(2006, "#amenity")
	c.NonTrivial()
}

func runCase(c *hx.Ctx) {
	r := c.Rand
	k := mw.NewCase(c)
	k.StandardRoot(r, true)
	k.World()
	k.Dump()
	nops := 4 + r.Intn(36)
	if c.Thorough() && r.Chance(1, 10) {
		nops = 40 + r.Intn(360)
	}
	plainOnBase := map[int]bool{}
	copiedAfterPlain := false
	for i := 0; i < nops; i++ {
		switch x := r.Intn(20); {
		case x < 9:
			id := k.RandID(r)
			t := mw.RandTag(r, r.Chance(2, 5))
			searchable := t.K[0] == '#' || t.K[0] == '@'
			if k.AddTag(id, t) == "ok" {
				if !searchable {
					plainOnBase[id] = true
				} else if plainOnBase[id] {
					copiedAfterPlain = true
				}
			}
			c.Note(fmt.Sprintf("op:addtag searchable=%v", searchable))
		case x < 14:
			id := k.RandID(r)
			key := r.Pick(mw.AllKeys())
			k.RemoveTag(id, key)
			if (key[0] == '#' || key[0] == '@') && plainOnBase[id] {
				copiedAfterPlain = true
			}
			c.Note("op:rmtag")
		case x < 19:
			f := k.RandFeature(r)
			ans := k.AddFeature(f)
			c.Note(fmt.Sprintf("op:addfeature kind=%d %s", f.Kind(), ans))
		default:
			var parts []mw.Part
			np := 1 + r.Intn(3)
			for j := 0; j < np; j++ {
				switch r.Intn(3) {
				case 0:
					parts = append(parts, mw.Part{Kind: "at", IDs: []int{k.RandID(r), k.RandID(r)}, Tags: []mw.Tag{mw.RandTag(r, r.Bool()), mw.RandTag(r, r.Bool())}})
				case 1:
					parts = append(parts, mw.Part{Kind: "rt", IDs: []int{k.RandID(r)}, Keys: []string{r.Pick(mw.AllKeys())}})
				default:
					parts = append(parts, mw.Part{Kind: "af", Feats: []mw.Feat{k.RandFeature(r)}})
				}
			}
			ans := k.Merged(parts)
			c.Note("op:merged " + ans)
		}
	}
	c.Note(fmt.Sprintf("ops:%d", (nops/10)*10))
	if copiedAfterPlain {
		c.NonTrivial()
	}
}

func main() {
	hx.Main(hx.Family{
		Name: "c12",
		Rule: "root = BasicMutableWorld with points 1-4, path 1005, area 2006 (varied) and random tags; 4-40 (thorough: up to 400) ops AddTag/RemoveTag/AddFeature/MergedChange over 12 ids (6 base, 5 overlay-only, 1 never existing), 3 searchable + 3 plain keys, string and int values; all reads dumped after every op; non-trivial = a searchable edit hit a base feature that already carried plain-tag modifications",
		Quick:    1500,
		Thorough: 12000,
		Corpus:   corpus,
		Case:     runCase,
	})
}
