// C12 harness: operation sequences (AddFeature / AddTag / RemoveTag, a few through Change values) on a
// real ingest.MutableOverlayWorld over a BasicMutableWorld root; after EVERY operation all reads for
// all ids of the universe (FindFeatureByID tags, HasFeatureWithID, every single-token FindFeatures,
// EachFeature) are dumped and compared by the driver with the Lean model and with the map spec.
package main

import (
	"fmt"

	"verifharness/cmd/c12/mw"
	"verifharness/hx"
)

func s(k, v string) mw.Tag { return mw.Tag{K: k, Kind: "s", S: v} }

func corpus(c *hx.Ctx) {
	// fixed: plain tag then searchable tag on a base point lost the plain tag (DESIGN §7)
	k := mw.NewCase(c)
	k.StandardRoot(hx.NewRand(1), false)
	k.World()
	k.Dump()
	k.AddTag(1, s("name", "plain"))
	k.AddTag(1, s("#amenity", "cafe"))
	// fixed: a plain tag added to a base feature could not be removed again
	k.AddTag(2, s("note", "x"))
	k.RemoveTag(2, "note")
	// fixed: a non-string value of a plain tag on a base feature was read back as a string
	k.AddTag(3, mw.Tag{K: "surface", Kind: "i", S: "7"})
	k.AddTag(3, mw.Tag{K: "#highway", Kind: "i", S: "7"})
	// plain removal recorded, then the feature is copied by a searchable removal / addition
	k.AddTag(1005, s("name", "ring"))
	k.RemoveTag(1005, "name")
	k.AddTag(1005, s("@lit", "yes"))
	k.AddTag(2006, s("note", "a"))
	k.AddTag(2006, s("#amenity", "pub"))
	k.RemoveTag(2006, "#amenity")
	// fixed: sortAndDiffTokens counted repeated tokens (ancestor cells of a covering with cells at mixed
	// levels are listed once per level they are reached from), so re-indexing a copied referrer dropped it
	// from ancestor postings it still belonged to: closed path 1005 = 1,2,7,1 and path 1009 = 1,2,7 in the
	// base; move point 2 (copies both paths); add points 3, 4; replace 1009 by 2,3,4 -> the spatial search
	// for what intersects 1005 missed 1009 (they share point 2). Found by A10 (C16), diagnosed with A5.
	w := mw.NewCase(c)
	w.RootFeature(mw.Feat{ID: 1, Lat: 515616868, Lng: -1541644})
	w.RootFeature(mw.Feat{ID: 2, Lat: 514980810, Lng: -1048810})
	w.RootFeature(mw.Feat{ID: 7, Lat: 515207330, Lng: -954316})
	w.RootFeature(mw.Feat{ID: 1005, Refs: []int{1, 2, 7, 1}})
	w.RootFeature(mw.Feat{ID: 1009, Refs: []int{1, 2, 7}})
	w.World()
	w.Dump()
	w.AddFeature(mw.Feat{ID: 2, Lat: 515391113, Lng: -1223991})
	w.AddFeature(mw.Feat{ID: 3, Lat: 515390629, Lng: -1584770})
	w.AddFeature(mw.Feat{ID: 4, Lat: 515306485, Lng: -1550824})
	w.AddFeature(mw.Feat{ID: 1009, Refs: []int{2, 3, 4}})
	c.NonTrivial()
}

// wideCase: points kilometres apart (coverings with cells at mixed levels), a closed and an open path over
// them in the base; rounds of "move a point (its referrers are copied into the overlay), then replace a
// copied referrer", with tag edits in between — the shape that exposed the repeated-token defect. The
// spatial line of every dump compares the search index with brute force.
// The driver decides loop orientation with planar integer predicates. At this scale they agree with S2
// only away from degenerate triangles (the planar / spherical distortion is about 0.2 % of the area), so
// the ring 1, 2, 7 of a wide case is always kept fat: |signed area| >= 10 % of its longest edge squared.
func fat(a, b, c [2]int) bool {
	cross := (b[1]-a[1])*(c[0]-a[0]) - (c[1]-a[1])*(b[0]-a[0])
	if cross < 0 {
		cross = -cross
	}
	d := func(p, q [2]int) int { return (p[0]-q[0])*(p[0]-q[0]) + (p[1]-q[1])*(p[1]-q[1]) }
	long := d(a, b)
	for _, x := range []int{d(b, c), d(a, c)} {
		if x > long {
			long = x
		}
	}
	return cross*10 >= long
}

func wideCase(c *hx.Ctx) {
	r := c.Rand
	k := mw.NewCase(c)
	rp := func() (int, int) { return 515365000 + r.Intn(800000) - 400000, -1245000 + r.Intn(800000) - 400000 }
	ringPt := map[int][2]int{}
	// a position for ring point `id` that keeps the ring fat
	ringPos := func(id int) (int, int, bool) {
		for try := 0; try < 50; try++ {
			lat, lng := rp()
			trial := map[int][2]int{1: ringPt[1], 2: ringPt[2], 7: ringPt[7]}
			trial[id] = [2]int{lat, lng}
			if len(ringPt) < 2 {
				return lat, lng, true // the first two points are free
			}
			if fat(trial[1], trial[2], trial[7]) {
				return lat, lng, true
			}
		}
		return 0, 0, false
	}
	for _, id := range []int{1, 2, 7} {
		lat, lng, _ := ringPos(id)
		ringPt[id] = [2]int{lat, lng}
		k.RootFeature(mw.Feat{ID: id, Lat: lat, Lng: lng, Tags: mw.RandTags(r, 1)})
	}
	ring := []int{1, 2, 7, 1}
	if k.Shadow.Shoelace(ring[:3]) < 0 {
		ring = []int{1, 7, 2, 1}
	}
	k.RootFeature(mw.Feat{ID: 1005, Refs: ring, Tags: mw.RandTags(r, 1)})
	k.RootFeature(mw.Feat{ID: 1009, Refs: []int{1, 2, 7}, Tags: mw.RandTags(r, 1)})
	k.World()
	k.Dump()
	pts := []int{1, 2, 7}
	for round, n := 0, 2+r.Intn(4); round < n; round++ {
		moved := pts[r.Intn(len(pts))]
		lat, lng := rp()
		if _, inRing := ringPt[moved]; inRing {
			var ok bool
			if lat, lng, ok = ringPos(moved); !ok {
				continue
			}
		}
		if k.AddFeature(mw.Feat{ID: moved, Lat: lat, Lng: lng, Tags: mw.RandTags(r, 1)}) == "ok" {
			if _, inRing := ringPt[moved]; inRing {
				ringPt[moved] = [2]int{lat, lng}
			}
		}
		for _, id := range []int{3, 4, 8} {
			if !k.Shadow.Exists[id] || r.Chance(1, 4) {
				lat, lng := rp()
				if k.AddFeature(mw.Feat{ID: id, Lat: lat, Lng: lng}) == "ok" && !contains(pts, id) {
					pts = append(pts, id)
				}
			}
		}
		if r.Bool() {
			k.AddTag(1009, mw.RandTag(r, r.Bool()))
		}
		perm := r.Perm(len(pts))
		m := 2 + r.Intn(2)
		var refs []int
		for i := 0; i < m && i < len(perm); i++ {
			refs = append(refs, pts[perm[i]])
		}
		ans := k.AddFeature(mw.Feat{ID: []int{1009, 1011}[r.Intn(2)], Refs: refs, Tags: mw.RandTags(r, 1)})
		c.Note("wide:replace-referrer " + ans)
	}
	c.Note("wide")
	c.NonTrivial()
}

func contains(xs []int, x int) bool {
	for _, y := range xs {
		if y == x {
			return true
		}
	}
	return false
}

func runCase(c *hx.Ctx) {
	r := c.Rand
	if r.Chance(1, 5) {
		wideCase(c)
		return
	}
	k := mw.NewCase(c)
	k.StandardRoot(r, true)
	k.World()
	k.Dump()
	nops := 4 + r.Intn(36)
	if c.Thorough() && r.Chance(1, 10) {
		nops = 40 + r.Intn(360)
	}
	plainOnBase := map[int]bool{}
	copiedAfterPlain := false
	for i := 0; i < nops; i++ {
		switch x := r.Intn(20); {
		case x < 9:
			id := k.RandID(r)
			t := mw.RandTag(r, r.Chance(2, 5))
			searchable := t.K[0] == '#' || t.K[0] == '@'
			if k.AddTag(id, t) == "ok" {
				if !searchable {
					plainOnBase[id] = true
				} else if plainOnBase[id] {
					copiedAfterPlain = true
				}
			}
			c.Note(fmt.Sprintf("op:addtag searchable=%v", searchable))
		case x < 14:
			id := k.RandID(r)
			key := r.Pick(mw.AllKeys())
			k.RemoveTag(id, key)
			if (key[0] == '#' || key[0] == '@') && plainOnBase[id] {
				copiedAfterPlain = true
			}
			c.Note("op:rmtag")
		case x < 19:
			f := k.RandFeature(r)
			ans := k.AddFeature(f)
			c.Note(fmt.Sprintf("op:addfeature kind=%d %s", f.Kind(), ans))
		default:
			var parts []mw.Part
			np := 1 + r.Intn(3)
			for j := 0; j < np; j++ {
				switch r.Intn(3) {
				case 0:
					parts = append(parts, mw.Part{Kind: "at", IDs: []int{k.RandID(r), k.RandID(r)}, Tags: []mw.Tag{mw.RandTag(r, r.Bool()), mw.RandTag(r, r.Bool())}})
				case 1:
					parts = append(parts, mw.Part{Kind: "rt", IDs: []int{k.RandID(r)}, Keys: []string{r.Pick(mw.AllKeys())}})
				default:
					parts = append(parts, mw.Part{Kind: "af", Feats: []mw.Feat{k.RandFeature(r)}})
				}
			}
			ans := k.Merged(parts)
			c.Note("op:merged " + ans)
		}
	}
	c.Note(fmt.Sprintf("ops:%d", (nops/10)*10))
	if copiedAfterPlain {
		c.NonTrivial()
	}
}

func main() {
	hx.Main(hx.Family{
		Name: "c12",
		Rule: "root = BasicMutableWorld with points 1-4, path 1005, area 2006 (varied) and random tags; 4-40 (thorough: up to 400) ops AddTag/RemoveTag/AddFeature/MergedChange over 12 ids (6 base, 5 overlay-only, 1 never existing), 3 searchable + 3 plain keys, string and int values; all reads dumped after every op; non-trivial = a searchable edit hit a base feature that already carried plain-tag modifications",
		Quick:    1500,
		Thorough: 12000,
		Corpus:   corpus,
		Case:     runCase,
	})
}
