// Package mw is shared by the C12 / C13 / C14 harnesses: a small universe of point / path / area
// features over ingest.MutableOverlayWorld, a textual encoding of features and operations, and the
// canonical observation dumps ("reads": what the per-feature map spec speaks about; "geom": the extra
// model-level observations — geometry skeletons, resolved coordinates, search hits as wrapped, the
// overlay's own feature set).
package mw

import (
	"fmt"
	"sort"
	"strconv"
	"strings"

	"diagonal.works/b6"
	"diagonal.works/b6/ingest"
	"github.com/golang/geo/s2"
	"verifharness/hx"
)

const NS = b6.Namespace("diagonal.works/ns/verif")

// Model ids: type*1000 + value with type 0 = point, 1 = path, 2 = area, 3 = relation, 5 = collection (the
// values of b6.FeatureType); their numeric order is
// FeatureID.Less within one namespace.
func FID(n int) b6.FeatureID {
	t := b6.FeatureTypePoint
	switch n / 1000 {
	case 1:
		t = b6.FeatureTypePath
	case 2:
		t = b6.FeatureTypeArea
	case 3:
		t = b6.FeatureTypeRelation
	case 5:
		t = b6.FeatureTypeCollection
	}
	return b6.FeatureID{Type: t, Namespace: NS, Value: uint64(n % 1000)}
}

func ModelID(id b6.FeatureID) int {
	switch id.Type {
	case b6.FeatureTypePoint:
		return int(id.Value)
	case b6.FeatureTypePath:
		return 1000 + int(id.Value)
	case b6.FeatureTypeArea:
		return 2000 + int(id.Value)
	case b6.FeatureTypeRelation:
		return 3000 + int(id.Value)
	case b6.FeatureTypeCollection:
		return 5000 + int(id.Value)
	}
	return 9000 + int(id.Value)
}

type Tag struct{ K, Kind, S string }

func (t Tag) Text() string { return t.K + "=" + t.Kind + ":" + t.S }

func (t Tag) B6() b6.Tag {
	if t.Kind == "i" {
		n, _ := strconv.Atoi(t.S)
		return b6.Tag{Key: t.K, Value: b6.NewIntExpression(n)}
	}
	return b6.Tag{Key: t.K, Value: b6.NewStringExpression(t.S)}
}

const (
	KPoint      = 0
	KPath       = 1
	KArea       = 2
	KRelation   = 3
	KCollection = 5
)

// Feat describes a feature to be added.
type Feat struct {
	ID       int
	Lat, Lng int   // E7, points
	Refs     []int // point ids of a path / path ids of an area / members of a relation / keys of a collection
	Tags     []Tag
}

func (f Feat) Kind() int { return f.ID / 1000 }

func ints(xs []int) string {
	ss := make([]string, len(xs))
	for i, x := range xs {
		ss[i] = strconv.Itoa(x)
	}
	return strings.Join(ss, ",")
}

// Text is the operation-line encoding: `<id> pt:<lat>:<lng>|path:<ids>|area:<ids> [k=kind:str …]`.
func (f Feat) Text() string {
	var g string
	switch f.Kind() {
	case KPoint:
		g = fmt.Sprintf("pt:%d:%d", f.Lat, f.Lng)
	case KPath:
		g = "path:" + ints(f.Refs)
	case KRelation:
		g = "rel:" + ints(f.Refs)
	case KCollection:
		g = "col:" + ints(f.Refs)
	default:
		g = "area:" + ints(f.Refs)
	}
	ts := make([]string, len(f.Tags))
	for i, t := range f.Tags {
		ts[i] = t.Text()
	}
	return fmt.Sprintf("%d %s %s", f.ID, g, hx.List(ts))
}

func (f Feat) Build() ingest.Feature {
	switch f.Kind() {
	case KPoint:
		g := &ingest.GenericFeature{ID: FID(f.ID), Tags: []b6.Tag{{Key: b6.PointTag,
			Value: b6.NewPointExpressionFromLatLng(s2.LatLngFromDegrees(float64(f.Lat)/1e7, float64(f.Lng)/1e7))}}}
		for _, t := range f.Tags {
			g.AddTag(t.B6())
		}
		return g
	case KPath:
		g := &ingest.GenericFeature{ID: FID(f.ID)}
		if len(f.Refs) == 0 {
			g.AddTag(b6.Tag{Key: b6.PathTag, Value: b6.NewExpressions([]b6.AnyExpression{})})
		}
		for i, p := range f.Refs {
			g.ModifyOrAddTagAt(b6.Tag{Key: b6.PathTag, Value: b6.NewFeatureIDExpression(FID(p))}, i)
		}
		for _, t := range f.Tags {
			g.AddTag(t.B6())
		}
		return g
	case KRelation:
		r := ingest.NewRelationFeature(len(f.Refs))
		r.RelationID = FID(f.ID).ToRelationID()
		for i, m := range f.Refs {
			r.Members[i] = b6.RelationMember{ID: FID(m), Role: "m"}
		}
		for _, t := range f.Tags {
			r.AddTag(t.B6())
		}
		return r
	case KCollection:
		c := &ingest.CollectionFeature{CollectionID: FID(f.ID).ToCollectionID()}
		for i, k := range f.Refs {
			c.Keys = append(c.Keys, FID(k))
			c.Values = append(c.Values, i)
		}
		for _, t := range f.Tags {
			c.AddTag(t.B6())
		}
		return c
	default:
		a := ingest.NewAreaFeature(1)
		a.AreaID = FID(f.ID).ToAreaID()
		ids := make([]b6.FeatureID, len(f.Refs))
		for i, p := range f.Refs {
			ids[i] = FID(p)
		}
		a.SetPathIDs(0, ids)
		for _, t := range f.Tags {
			a.AddTag(t.B6())
		}
		return a
	}
}

// ---- the universe ---------------------------------------------------------------------------

var PointIDs = []int{1, 2, 3, 4, 7, 8}
var PathIDs = []int{1005, 1009, 1011}
var AreaIDs = []int{2006, 2010}
var RelationIDs = []int{3012, 3013}
var CollectionIDs = []int{5014}
var AllIDs = []int{1, 2, 3, 4, 7, 8, 9, 1005, 1009, 1011, 2006, 2010, 3012, 3013, 5014} // 9 never exists

var SearchKeys = []string{"#amenity", "#highway", "@lit"}
var PlainKeys = []string{"name", "note", "surface"}
var Values = []Tag{{"", "s", "cafe"}, {"", "s", "pub"}, {"", "s", "5"}, {"", "i", "5"}, {"", "i", "7"}}

// Tok is a single-token query.
type Tok struct {
	Name  string
	Query b6.Query
}

// Tokens lists every tag token the universe can produce.
func Tokens() []Tok {
	var ts []Tok
	for _, k := range []string{"#amenity", "#highway"} {
		for _, v := range []string{"cafe", "pub", "5", "7"} {
			ts = append(ts, Tok{k[1:] + "=" + v, b6.Tagged{Key: k, Value: b6.NewStringExpression(v)}})
		}
	}
	ts = append(ts, Tok{"lit", b6.Keyed{Key: "@lit"}})
	return ts
}

// Positions: every point id has its own three candidate positions (E7); all distinct, irregular, so
// that no polygon over them is degenerate. Variant 0 of points 1..4 is a counter-clockwise quadrilateral.
var Positions = map[int][3][2]int{
	1: {{515370213, -1250817}, {515381931, -1262377}, {515364429, -1245561}},
	2: {{515360127, -1251339}, {515351893, -1259721}, {515366731, -1246893}},
	3: {{515359871, -1240433}, {515350667, -1231219}, {515365877, -1244767}},
	4: {{515371049, -1239671}, {515380711, -1230883}, {515363993, -1243859}},
	7: {{515365541, -1245323}, {515376113, -1255417}, {515355337, -1236101}},
	8: {{515362719, -1247981}, {515373517, -1234657}, {515357243, -1253629}},
}

// ---- observations ---------------------------------------------------------------------------

func valText(e b6.Expression) string {
	switch e.AnyExpression.(type) {
	case b6.StringExpression:
		return "s:" + e.String()
	case b6.IntExpression:
		return "i:" + e.String()
	case nil:
		return "nil:"
	}
	return "x:" + e.String()
}

func tagsText(f b6.Taggable) string {
	var xs []string
	for _, t := range f.AllTags() {
		if t.Key == b6.PointTag || t.Key == b6.PathTag {
			continue
		}
		xs = append(xs, t.Key+"="+valText(t.Value))
	}
	sort.Strings(xs)
	out := "{" + strings.Join(xs, ",") + "}"
	// Get(key) must agree with AllTags() for every key of the universe (a different code path:
	// modifyTag vs modifyTags)
	all := map[string]string{}
	for _, t := range f.AllTags() {
		if _, dup := all[t.Key]; !dup {
			all[t.Key] = valText(t.Value)
		}
	}
	for _, k := range AllKeys() {
		g := f.Get(k)
		want, ok := all[k]
		if g.IsValid() != ok || (ok && valText(g.Value) != want) {
			out += "!get:" + k
		}
	}
	return out
}

// geomText renders the skeleton and the coordinates the wrapper resolves.
func geomText(f b6.Feature) string {
	return hx.Recover(func() string {
		switch f.FeatureID().Type {
		case b6.FeatureTypePoint:
			p := f.(b6.PhysicalFeature)
			ll := s2.LatLngFromPoint(p.Point())
			return fmt.Sprintf("pt:%d:%d", ll.Lat.E7(), ll.Lng.E7())
		case b6.FeatureTypePath:
			p := f.(b6.PhysicalFeature)
			ids := make([]int, p.GeometryLen())
			for i := range ids {
				ids[i] = ModelID(p.Reference(i).Source())
			}
			pts := hx.Recover(func() string {
				var cs []string
				for i := 0; i < p.GeometryLen(); i++ {
					ll := s2.LatLngFromPoint(p.PointAt(i))
					cs = append(cs, fmt.Sprintf("%d:%d", ll.Lat.E7(), ll.Lng.E7()))
				}
				return strings.Join(cs, ";")
			})
			return "path:" + ints(ids) + "@" + pts
		case b6.FeatureTypeArea:
			a := f.(b6.AreaFeature)
			var ids []int
			for i := 0; i < a.Len(); i++ {
				for _, p := range a.Feature(i) {
					ids = append(ids, ModelID(p.FeatureID()))
				}
			}
			return "area:" + ints(ids)
		case b6.FeatureTypeRelation:
			r := f.(b6.RelationFeature)
			ids := make([]int, r.Len())
			for i := range ids {
				ids[i] = ModelID(r.Member(i).ID)
			}
			return "rel:" + ints(ids)
		case b6.FeatureTypeCollection:
			c := f.(b6.CollectionFeature)
			var ids []int
			it := c.BeginUntyped()
			for {
				ok, err := it.Next()
				if !ok || err != nil {
					break
				}
				if id, ok := it.Key().(b6.Identifiable); ok {
					ids = append(ids, ModelID(id.FeatureID()))
				}
			}
			return "col:" + ints(ids)
		}
		return "other"
	})
}

func searchIDs(w b6.World, q b6.Query) (ids []string, hits []string) {
	fs := w.FindFeatures(q)
	for fs.Next() {
		id := ModelID(fs.FeatureID())
		ids = append(ids, strconv.Itoa(id))
		f := fs.Feature()
		hits = append(hits, fmt.Sprintf("%d%s%s", id, tagsText(f), geomText(f)))
	}
	return
}

// Reads is the spec-level dump: per id found / tags / existence, per token the ids found, the ids
// EachFeature visits.
func Reads(w b6.World) string {
	return hx.Recover(func() string {
		var sb strings.Builder
		for i, n := range AllIDs {
			if i > 0 {
				sb.WriteByte(' ')
			}
			f := w.FindFeatureByID(FID(n))
			has := w.HasFeatureWithID(FID(n))
			if f == nil {
				fmt.Fprintf(&sb, "%d-", n)
			} else {
				fmt.Fprintf(&sb, "%d%s", n, tagsText(f))
			}
			if has != (f != nil) {
				sb.WriteString("!has")
			}
		}
		sb.WriteString(" |")
		for _, t := range Tokens() {
			ids, _ := searchIDs(w, t.Query)
			fmt.Fprintf(&sb, " %s:%s", t.Name, hx.List(ids))
		}
		var each []int
		w.EachFeature(func(f b6.Feature, _ int) error {
			each = append(each, ModelID(f.FeatureID()))
			return nil
		}, &b6.EachFeatureOptions{Goroutines: 1})
		sort.Ints(each)
		fmt.Fprintf(&sb, " | each:[%s]", strings.ReplaceAll(ints(each), ",", " "))
		return sb.String()
	})
}

// Geom is the model-level dump: skeleton + resolved coordinates per id, the hits of every token as the
// search wraps them, the tags EachFeature shows, and (for mutable worlds) the overlay's own features.
func Geom(w b6.World) string {
	return hx.Recover(func() string {
		var sb strings.Builder
		for i, n := range AllIDs {
			if i > 0 {
				sb.WriteByte(' ')
			}
			if f := w.FindFeatureByID(FID(n)); f != nil {
				fmt.Fprintf(&sb, "%d:%s", n, geomText(f))
			} else {
				fmt.Fprintf(&sb, "%d-", n)
			}
		}
		sb.WriteString(" |")
		for _, t := range Tokens() {
			_, hits := searchIDs(w, t.Query)
			fmt.Fprintf(&sb, " %s:%s", t.Name, hx.List(hits))
		}
		var each []string
		w.EachFeature(func(f b6.Feature, _ int) error {
			each = append(each, fmt.Sprintf("%05d%s", ModelID(f.FeatureID()), tagsText(f)))
			return nil
		}, &b6.EachFeatureOptions{Goroutines: 1})
		sort.Strings(each)
		for i := range each {
			each[i] = strings.TrimLeft(each[i], "0")
		}
		fmt.Fprintf(&sb, " | each:%s", hx.List(each))
		sb.WriteString(" | refs:")
		for i, n := range AllIDs {
			if i > 0 {
				sb.WriteByte(' ')
			}
			var rs []int
			it := w.FindReferences(FID(n))
			for it.Next() {
				rs = append(rs, ModelID(it.FeatureID()))
			}
			sort.Ints(rs)
			fmt.Fprintf(&sb, "%d<%s", n, ints(rs))
		}
		if m, ok := w.(ingest.MutableWorld); ok {
			var mod []int
			m.EachModifiedFeature(func(f b6.Feature, _ int) error {
				mod = append(mod, ModelID(f.FeatureID()))
				return nil
			}, &b6.EachFeatureOptions{Goroutines: 1})
			sort.Ints(mod)
			fmt.Fprintf(&sb, " | mod:[%s]", strings.ReplaceAll(ints(mod), ",", " "))
			var mt []string
			m.EachModifiedTag(func(t ingest.ModifiedTag, _ int) error {
				if t.Deleted {
					mt = append(mt, fmt.Sprintf("%05d:%s-", ModelID(t.ID), t.Tag.Key))
				} else {
					mt = append(mt, fmt.Sprintf("%05d:%s=%s", ModelID(t.ID), t.Tag.Key, valText(t.Tag.Value)))
				}
				return nil
			}, &b6.EachFeatureOptions{Goroutines: 1})
			sort.Strings(mt)
			for i := range mt {
				mt[i] = strings.TrimLeft(mt[i], "0")
			}
			fmt.Fprintf(&sb, " | mtags:%s", hx.List(mt))
		}
		return sb.String()
	})
}

// ---- a running case -------------------------------------------------------------------------

// Shadow is what the generator remembers to steer validity (never used as an oracle for answers).
type Shadow struct {
	Pos    map[int][2]int // current position of existing points
	Path   map[int][]int  // current point ids of existing paths
	Area   map[int][]int
	Exists map[int]bool
}

func NewShadow() *Shadow {
	return &Shadow{Pos: map[int][2]int{}, Path: map[int][]int{}, Area: map[int][]int{}, Exists: map[int]bool{}}
}

func (s *Shadow) Accept(f Feat) {
	s.Exists[f.ID] = true
	switch f.Kind() {
	case KPoint:
		s.Pos[f.ID] = [2]int{f.Lat, f.Lng}
	case KPath:
		s.Path[f.ID] = append([]int(nil), f.Refs...)
	case KArea:
		s.Area[f.ID] = append([]int(nil), f.Refs...)
	}
}

func (s *Shadow) Clone() *Shadow {
	c := NewShadow()
	for k, v := range s.Pos {
		c.Pos[k] = v
	}
	for k, v := range s.Path {
		c.Path[k] = v
	}
	for k, v := range s.Area {
		c.Area[k] = v
	}
	for k, v := range s.Exists {
		c.Exists[k] = v
	}
	return c
}

// Shoelace is twice the signed planar area (x = lng, y = lat) of the loop through the points.
func (s *Shadow) Shoelace(ids []int) int {
	sum := 0
	for i := range ids {
		a, b := s.Pos[ids[i]], s.Pos[ids[(i+1)%len(ids)]]
		sum += a[1]*b[0] - b[1]*a[0]
	}
	return sum
}

// Case drives one world: the root (a BasicMutableWorld), the live overlay and its snapshots.
type Case struct {
	C      *hx.Ctx
	Root   *ingest.BasicMutableWorld
	W      *ingest.MutableOverlayWorld
	Snaps  []b6.World
	Shadow *Shadow
}

func errAns(err error) string {
	if err != nil {
		if strings.HasPrefix(err.Error(), "change partially applied") {
			return "partial"
		}
		return "err"
	}
	return "ok"
}

func NewCase(c *hx.Ctx) *Case {
	return &Case{C: c, Root: ingest.NewBasicMutableWorld(), Shadow: NewShadow()}
}

func (k *Case) RootFeature(f Feat) {
	ans := hx.Recover(func() string { return errAns(k.Root.AddFeature(f.Build())) })
	if ans == "ok" {
		k.Shadow.Accept(f)
	}
	k.C.Op("root "+f.Text(), ans)
}

func (k *Case) World() {
	k.W = ingest.NewMutableOverlayWorld(k.Root)
	k.C.Op("world", "ok")
}

// Spatial compares, on one world, the answer of the search index with brute force (EachFeature + Matches)
// for IntersectsFeature{id} of every path and area of the universe, one cap and one cell. No model is
// involved: the Lean model carries tag tokens only. Each word is `<query>|<ids found>|<ids matching>`.
// Points that carry nothing but their location are left out of the brute-force side: TokensForFeature
// does not index them at all, by design.
func Spatial(w b6.World) string {
	return hx.Recover(func() string {
		type named struct {
			name string
			q    b6.Query
			self int // the queried feature itself is left out of both sides (Matches special-cases it)
		}
		var qs []named
		for _, id := range append(append([]int{}, PathIDs...), AreaIDs...) {
			if w.HasFeatureWithID(FID(id)) {
				qs = append(qs, named{fmt.Sprintf("f%d", id), b6.IntersectsFeature{ID: FID(id)}, id})
			}
		}
		c := Positions[7][0]
		centre := s2.PointFromLatLng(s2.LatLngFromDegrees(float64(c[0])/1e7, float64(c[1])/1e7))
		qs = append(qs, named{"cap", b6.NewIntersectsCap(s2.CapFromCenterAngle(centre, b6.MetersToAngle(60))), -1})
		qs = append(qs, named{"cell", b6.NewIntersectsCellID(s2.CellIDFromLatLng(s2.LatLngFromPoint(centre)).Parent(17)), -1})
		var words []string
		for _, n := range qs {
			var real, brute []int
			fs := w.FindFeatures(n.q)
			for fs.Next() {
				if id := ModelID(fs.FeatureID()); id != n.self {
					real = append(real, id)
				}
			}
			w.EachFeature(func(f b6.Feature, _ int) error {
				if f.FeatureID().Type == b6.FeatureTypePoint && len(f.AllTags()) == 1 {
					return nil
				}
				if ModelID(f.FeatureID()) == n.self {
					return nil
				}
				if n.q.Matches(f, w) {
					brute = append(brute, ModelID(f.FeatureID()))
				}
				return nil
			}, &b6.EachFeatureOptions{Goroutines: 1})
			sort.Ints(real)
			sort.Ints(brute)
			words = append(words, fmt.Sprintf("%s|%s|%s", n.name, ints(real), ints(brute)))
		}
		return strings.Join(words, " ")
	})
}

// Dump writes the reads, geom and spatial lines of the live world and of every snapshot.
func (k *Case) Dump() {
	k.C.Op("reads live", Reads(k.W))
	k.C.Op("geom live", Geom(k.W))
	k.C.Op("spatial live", Spatial(k.W))
	for i, s := range k.Snaps {
		k.C.Op(fmt.Sprintf("reads s%d", i+1), Reads(s))
		k.C.Op(fmt.Sprintf("geom s%d", i+1), Geom(s))
		k.C.Op(fmt.Sprintf("spatial s%d", i+1), Spatial(s))
	}
}

func (k *Case) AddFeature(f Feat) string {
	ans := hx.Recover(func() string { return errAns(k.W.AddFeature(f.Build())) })
	if ans == "ok" {
		k.Shadow.Accept(f)
	}
	k.C.Op("addfeature "+f.Text(), ans)
	k.Dump()
	return ans
}

func (k *Case) AddTag(id int, t Tag) string {
	ans := hx.Recover(func() string { return errAns(k.W.AddTag(FID(id), t.B6())) })
	k.C.Op(fmt.Sprintf("addtag %d %s", id, t.Text()), ans)
	k.Dump()
	return ans
}

func (k *Case) RemoveTag(id int, key string) string {
	ans := hx.Recover(func() string { return errAns(k.W.RemoveTag(FID(id), key)) })
	k.C.Op(fmt.Sprintf("rmtag %d %s", id, key), ans)
	k.Dump()
	return ans
}

func (k *Case) Snapshot() {
	s := k.W.Snapshot()
	k.Snaps = append(k.Snaps, s)
	k.C.Op("snapshot", fmt.Sprintf("h%d", len(k.Snaps)))
	k.Dump()
}

func refIDs(w b6.World, id int) string {
	var rs []int
	it := w.FindReferences(FID(id))
	for it.Next() {
		rs = append(rs, ModelID(it.FeatureID()))
	}
	sort.Ints(rs)
	return ints(rs)
}

// Part is one Change of a merged change.
type Part struct {
	Kind  string // af | at | rt
	Feats []Feat
	IDs   []int
	Tags  []Tag
	Keys  []string
}

func (k *Case) Merged(parts []Part) string {
	var mc ingest.MergedChange
	for _, p := range parts {
		k.C.Op("chg "+p.Kind, "ok")
		switch p.Kind {
		case "af":
			add := ingest.AddFeatures{}
			for _, f := range p.Feats {
				add = append(add, f.Build())
				k.C.Op("elt "+f.Text(), "ok")
			}
			mc = append(mc, &add)
		case "at":
			add := ingest.AddTags{}
			for i, id := range p.IDs {
				add = append(add, ingest.AddTag{ID: FID(id), Tag: p.Tags[i].B6()})
				k.C.Op(fmt.Sprintf("elt %d %s", id, p.Tags[i].Text()), "ok")
			}
			mc = append(mc, add)
		case "rt":
			rm := ingest.RemoveTags{}
			for i, id := range p.IDs {
				rm = append(rm, ingest.RemoveTag{ID: FID(id), Key: p.Keys[i]})
				k.C.Op(fmt.Sprintf("elt %d %s", id, p.Keys[i]), "ok")
			}
			mc = append(mc, rm)
		}
	}
	// Real-code counterpart of the hypothesis of C13's merged_atomic_of_refs, as far as it can be observed
	// without touching the world: a fresh overlay over the world (what MergedChange.Apply uses as its
	// canary) must name the same referrers as the world for every feature the change adds. Counted only.
	hx.Recover(func() string {
		canary := ingest.NewMutableOverlayWorld(k.W)
		agree := true
		for _, p := range parts {
			for _, f := range p.Feats {
				agree = agree && refIDs(canary, f.ID) == refIDs(k.W, f.ID)
			}
		}
		k.C.Note(fmt.Sprintf("merged:canary-refs-agree=%v", agree))
		return ""
	})
	ans := hx.Recover(func() string {
		_, err := mc.Apply(k.W)
		return errAns(err)
	})
	if ans == "ok" {
		for _, p := range parts {
			for _, f := range p.Feats {
				k.Shadow.Accept(f)
			}
		}
	}
	k.C.Op("mapply", ans)
	k.Dump()
	return ans
}

// ---- generators -----------------------------------------------------------------------------

func RandTag(r *hx.Rand, searchable bool) Tag {
	v := Values[r.Intn(len(Values))]
	if searchable {
		return Tag{r.Pick(SearchKeys), v.Kind, v.S}
	}
	return Tag{r.Pick(PlainKeys), v.Kind, v.S}
}

func RandTags(r *hx.Rand, max int) []Tag {
	n := r.Intn(max + 1)
	seen := map[string]bool{}
	var ts []Tag
	for i := 0; i < n; i++ {
		t := RandTag(r, r.Bool())
		if seen[t.K] {
			continue
		}
		seen[t.K] = true
		ts = append(ts, t)
	}
	return ts
}

// StandardRoot: points 1..4 (a counter-clockwise quadrilateral), closed path 1005 through them, area
// 2006 over the path; random tags. With `vary`, the path is sometimes open / the area missing.
func (k *Case) StandardRoot(r *hx.Rand, vary bool) {
	for _, p := range []int{1, 2, 3, 4} {
		pos := Positions[p][0]
		k.RootFeature(Feat{ID: p, Lat: pos[0], Lng: pos[1], Tags: RandTags(r, 2)})
	}
	open := vary && r.Chance(1, 5)
	refs := []int{1, 2, 3, 4, 1}
	if open {
		refs = []int{1, 2, 3, 4}
	}
	k.RootFeature(Feat{ID: 1005, Refs: refs, Tags: RandTags(r, 2)})
	if !open && !(vary && r.Chance(1, 6)) {
		k.RootFeature(Feat{ID: 2006, Refs: []int{1005}, Tags: RandTags(r, 2)})
	}
	if vary && r.Chance(1, 3) {
		pos := Positions[7][0]
		k.RootFeature(Feat{ID: 7, Lat: pos[0], Lng: pos[1], Tags: RandTags(r, 2)})
	}
	if vary && r.Chance(1, 3) {
		k.RootFeature(Feat{ID: 3012, Refs: []int{1005, 1}, Tags: RandTags(r, 2)})
		if r.Bool() {
			k.RootFeature(Feat{ID: 3013, Refs: []int{3012, 2}, Tags: RandTags(r, 2)})
		}
	}
	if vary && r.Chance(1, 4) {
		k.RootFeature(Feat{ID: 5014, Refs: []int{2, 1005}, Tags: RandTags(r, 2)})
	}
}

// RandPoint: a point feature at one of the id's own positions.
func (k *Case) RandPoint(r *hx.Rand, id int) Feat {
	pos := Positions[id][r.Intn(3)]
	if !k.Shadow.Exists[id] || r.Chance(1, 2) {
		pos = Positions[id][0]
		if cur, ok := k.Shadow.Pos[id]; ok && r.Chance(2, 3) {
			pos = cur
		}
	}
	return Feat{ID: id, Lat: pos[0], Lng: pos[1], Tags: RandTags(r, 3)}
}

// RandPath: mostly valid — existing points, distinct, counter-clockwise when closed.
func (k *Case) RandPath(r *hx.Rand, id int) Feat {
	var existing []int
	for _, p := range PointIDs {
		if k.Shadow.Exists[p] {
			existing = append(existing, p)
		}
	}
	n := 2 + r.Intn(4)
	if n > len(existing) {
		n = len(existing)
	}
	perm := r.Perm(len(existing))
	var refs []int
	for i := 0; i < n; i++ {
		refs = append(refs, existing[perm[i]])
	}
	if cur, ok := k.Shadow.Path[id]; ok && r.Chance(1, 2) {
		// a variation of the current path: drop the last point, reverse, or keep
		refs = append([]int(nil), cur...)
		switch r.Intn(4) {
		case 0:
			if len(refs) > 1 {
				refs = refs[:len(refs)-1]
			}
		case 1:
			for i, j := 0, len(refs)-1; i < j; i, j = i+1, j-1 {
				refs[i], refs[j] = refs[j], refs[i]
			}
		case 2:
			if len(refs) > 2 {
				i := 1 + r.Intn(len(refs)-2)
				refs = append(refs[:i:i], refs[i+1:]...)
			}
		}
	} else if len(refs) >= 3 && r.Chance(1, 2) {
		if k.Shadow.Shoelace(refs) < 0 && r.Chance(4, 5) {
			for i, j := 0, len(refs)-1; i < j; i, j = i+1, j-1 {
				refs[i], refs[j] = refs[j], refs[i]
			}
		}
		refs = append(refs, refs[0])
	}
	if r.Chance(1, 12) && len(refs) > 0 {
		refs[r.Intn(len(refs))] = 9 // a point that never exists
	}
	if r.Chance(1, 25) {
		refs = refs[:r.Intn(2)]
	}
	return Feat{ID: id, Refs: refs, Tags: RandTags(r, 3)}
}

func (k *Case) RandArea(r *hx.Rand, id int) Feat {
	var closed, other []int
	for _, p := range PathIDs {
		if cur, ok := k.Shadow.Path[p]; ok && len(cur) >= 4 && cur[0] == cur[len(cur)-1] {
			closed = append(closed, p)
		} else {
			other = append(other, p)
		}
	}
	var refs []int
	if len(closed) > 0 && r.Chance(5, 6) {
		refs = []int{closed[r.Intn(len(closed))]}
		if len(closed) > 1 && r.Chance(1, 3) {
			refs = append([]int(nil), closed...)
		}
	} else if len(other) > 0 {
		refs = []int{other[r.Intn(len(other))]}
	}
	return Feat{ID: id, Refs: refs, Tags: RandTags(r, 3)}
}

// RandMembers: members of a relation / keys of a collection — any ids, mostly existing ones, relations
// of relations (and now and then a relation containing itself or its container: reference cycles).
func (k *Case) RandMembers(r *hx.Rand) []int {
	n := r.Intn(4)
	var ms []int
	for i := 0; i < n; i++ {
		id := AllIDs[r.Intn(len(AllIDs))]
		if !k.Shadow.Exists[id] && r.Chance(3, 4) {
			id = []int{1, 2, 3, 4, 1005}[r.Intn(5)]
		}
		ms = append(ms, id)
	}
	return ms
}

func (k *Case) RandFeature(r *hx.Rand) Feat {
	switch x := r.Intn(12); {
	case x < 5:
		return k.RandPoint(r, PointIDs[r.Intn(len(PointIDs))])
	case x < 8:
		return k.RandPath(r, PathIDs[r.Intn(len(PathIDs))])
	case x < 10:
		return k.RandArea(r, AreaIDs[r.Intn(len(AreaIDs))])
	case x < 11:
		return Feat{ID: RelationIDs[r.Intn(len(RelationIDs))], Refs: k.RandMembers(r), Tags: RandTags(r, 3)}
	default:
		return Feat{ID: CollectionIDs[r.Intn(len(CollectionIDs))], Refs: k.RandMembers(r), Tags: RandTags(r, 3)}
	}
}

func (k *Case) RandID(r *hx.Rand) int {
	if r.Chance(1, 15) {
		return 9
	}
	return AllIDs[r.Intn(len(AllIDs))]
}

func AllKeys() []string { return append(append([]string{}, SearchKeys...), PlainKeys...) }

// TagsText / Geom1: the per-feature renderings, for harnesses with their own dump layout.
func TagsText(f b6.Taggable) string { return tagsText(f) }
func Geom1(f b6.Feature) string     { return geomText(f) }
