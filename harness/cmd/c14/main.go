// C14 harness: edit histories on a real ingest.MutableOverlayWorld (and, one case in five, on a
// MutableTagsOverlayWorld) interleaved with Snapshot() calls (up to three, nested); after EVERY later
// operation the complete observation dump of EVERY snapshot is taken again — lookups, tags, search
// hits with the coordinates their wrappers resolve, enumeration — and compared by the driver with the
// first dump of that snapshot, with the spec map frozen at that moment and with the Lean model.
package main

import (
	"fmt"
	"sort"
	"strings"

	"diagonal.works/b6"
	"diagonal.works/b6/ingest"
	"verifharness/cmd/c12/mw"
	"verifharness/hx"
)

func s(k, v string) mw.Tag { return mw.Tag{K: k, Kind: "s", S: v} }

func corpus(c *hx.Ctx) {
	// fixed: a path found by a search of the snapshot resolved its points through the live world
	k := mw.NewCase(c)
	k.StandardRoot(hx.NewRand(3), false)
	k.World()
	k.Dump()
	k.AddFeature(mw.Feat{ID: 1009, Refs: []int{1, 2}, Tags: []mw.Tag{s("#highway", "pub")}})
	k.Snapshot()
	p := mw.Positions[1][1]
	k.AddFeature(mw.Feat{ID: 1, Lat: p[0], Lng: p[1]})
	k.AddTag(1009, s("#highway", "cafe"))
	k.Snapshot()
	k.RemoveTag(1009, "#highway")
	k.AddTag(2, s("name", "x"))
	c.NonTrivial()
}

func treads(w b6.World) string {
	return hx.Recover(func() string {
		var sb strings.Builder
		for i, n := range mw.AllIDs {
			if i > 0 {
				sb.WriteByte(' ')
			}
			if f := w.FindFeatureByID(mw.FID(n)); f != nil {
				g := mw.Geom1(f)
				fmt.Fprintf(&sb, "%d%s%s", n, mw.TagsText(f), g)
			} else {
				fmt.Fprintf(&sb, "%d-", n)
			}
		}
		sb.WriteString(" |")
		for _, t := range mw.Tokens() {
			var hits []string
			fs := w.FindFeatures(t.Query)
			for fs.Next() {
				hits = append(hits, fmt.Sprintf("%d%s", mw.ModelID(fs.FeatureID()), mw.TagsText(fs.Feature())))
			}
			fmt.Fprintf(&sb, " %s:%s", t.Name, hx.List(hits))
		}
		return sb.String()
	})
}

func tagsWorldCase(c *hx.Ctx) {
	r := c.Rand
	k := mw.NewCase(c)
	k.StandardRoot(r, true)
	w := ingest.NewMutableTagsOverlayWorld(k.Root)
	c.Op("tworld", "ok")
	var snaps []b6.World
	dump := func() {
		c.Op("treads t", treads(w))
		for i, sn := range snaps {
			c.Op(fmt.Sprintf("treads ts%d", i+1), treads(sn))
		}
	}
	dump()
	for i, n := 0, 3+r.Intn(15); i < n; i++ {
		if len(snaps) < 3 && r.Chance(1, 5) {
			snaps = append(snaps, w.Snapshot())
			c.Op("tsnapshot", fmt.Sprintf("h%d", len(snaps)))
		} else {
			id := k.RandID(r)
			t := mw.RandTag(r, r.Chance(1, 4))
			w.AddTag(mw.FID(id), t.B6())
			c.Op(fmt.Sprintf("taddtag %d %s", id, t.Text()), "ok")
		}
		dump()
	}
	c.Note(fmt.Sprintf("tagsworld snaps=%d", len(snaps)))
	if len(snaps) > 0 {
		c.NonTrivial()
	}
}

func runCase(c *hx.Ctx) {
	r := c.Rand
	if r.Chance(1, 5) {
		tagsWorldCase(c)
		return
	}
	k := mw.NewCase(c)
	k.StandardRoot(r, true)
	k.World()
	k.Dump()
	nops := 4 + r.Intn(20)
	if c.Thorough() && r.Chance(1, 20) {
		nops = 30 + r.Intn(90)
	}
	editsAfter := 0
	for i := 0; i < nops; i++ {
		if len(k.Snaps) < 3 && r.Chance(1, 6) {
			k.Snapshot()
			continue
		}
		switch x := r.Intn(20); {
		case x < 7:
			k.AddTag(k.RandID(r), mw.RandTag(r, r.Chance(2, 5)))
		case x < 10:
			k.RemoveTag(k.RandID(r), r.Pick(mw.AllKeys()))
		case x < 14:
			// move or re-tag a point: the interesting edit for paths found through a snapshot's index
			var pts []int
			for _, p := range mw.PointIDs {
				if k.Shadow.Exists[p] {
					pts = append(pts, p)
				}
			}
			sort.Ints(pts)
			k.AddFeature(k.RandPoint(r, pts[r.Intn(len(pts))]))
		case x < 19:
			k.AddFeature(k.RandFeature(r))
		default:
			k.Merged([]mw.Part{{Kind: "at", IDs: []int{k.RandID(r)}, Tags: []mw.Tag{mw.RandTag(r, r.Bool())}},
				{Kind: "af", Feats: []mw.Feat{k.RandFeature(r)}}})
		}
		if len(k.Snaps) > 0 {
			editsAfter++
		}
	}
	c.Note(fmt.Sprintf("snaps=%d", len(k.Snaps)))
	c.Note(fmt.Sprintf("edits-after-first-snapshot:%d", (editsAfter/5)*5))
	if len(k.Snaps) > 0 && editsAfter > 0 {
		c.NonTrivial()
	}
}

func main() {
	hx.Main(hx.Family{
		Name: "c14",
		Rule: "root as in c12; 4-24 (thorough: up to 120) ops on the live world (AddTag/RemoveTag/AddFeature incl. moved points/MergedChange) interleaved with up to 3 nested Snapshot() calls; every snapshot is dumped again after every later op; 1 case in 5 uses MutableTagsOverlayWorld (AddTag + Snapshot); non-trivial = at least one edit after a snapshot",
		Quick:    1200,
		Thorough: 15000,
		Corpus:   corpus,
		Case:     runCase,
	})
}
