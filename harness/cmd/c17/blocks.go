// Child-process plumbing of the C17 harness (after harness/cmd/c02/wd, which other commands must not
// import). The cases run in a few long-lived children (see build() in main.go for why), `Size`
// consecutive case numbers per child and `Workers` children at a time. A child prints the transcript of
// every case as soon as it is finished, so that when a child dies (a fatal panic in a builder goroutine)
// or hangs, the finished cases are kept, the case it was working on is answered `crash` / `hang` (or
// `builder-crash` when it died between the marks `PHASE <no> building` and `PHASE <no> built`), and a new
// child continues after it.
package main

import (
	"fmt"
	"os"
	"os/exec"
	"strconv"
	"strings"
	"sync"
	"time"

	"verifharness/hx"
)

// spawn re-invokes this binary as hx child `name` and returns everything it printed and how it ended:
// "ok", "hang" (killed after the timeout) or "crash".
func spawn(name, arg string, timeout time.Duration, procs int) (string, string) {
	self, _ := os.Executable()
	cmd := exec.Command(self)
	cmd.Env = append(os.Environ(), "HX_CHILD="+name, "GOGC=off", fmt.Sprintf("GOMAXPROCS=%d", procs))
	cmd.Stdin = strings.NewReader(arg)
	var sb strings.Builder
	cmd.Stdout = &sb
	if err := cmd.Start(); err != nil {
		return "", "crash"
	}
	done := make(chan error, 1)
	go func() { done <- cmd.Wait() }()
	select {
	case err := <-done:
		if err != nil {
			return sb.String(), "crash"
		}
		return sb.String(), "ok"
	case <-time.After(timeout):
		cmd.Process.Kill()
		<-done
		return sb.String(), "hang"
	}
}

// CaseRand is the per-case PRNG exactly as hx.Main derives it, so that a child can regenerate case
// `no` from the seed alone.
func CaseRand(seed uint64, no int) *hx.Rand {
	return hx.NewRand(seed*0x9e3779b97f4a7c15 ^ uint64(no)*0xd1342543de82ef95 ^ 0x5851f42d4c957f2d)
}

type Blocks struct {
	Name    string
	Size    int
	Workers int
	Ahead   int
	Limit   int // blocks starting at or beyond this case number are not scheduled ahead
	Procs   int
	// Timeout of a child = Base + PerCase * number of cases it is given
	Base     time.Duration
	PerCase  time.Duration
	mu       sync.Mutex
	pending  map[int]chan map[int]string
	sem      chan struct{}
	seed     uint64
	tier     string
	lastDone map[int]string
	lastBlk  int
}

// finished returns the transcripts of the cases the child completed (`CASE\t<no>\n … END\t<no>\n`).
func finished(out string) map[int]string {
	res := map[int]string{}
	for _, part := range strings.Split(out, "CASE\t")[1:] {
		nl := strings.IndexByte(part, '\n')
		if nl < 0 {
			continue
		}
		no, err := strconv.Atoi(part[:nl])
		if err != nil {
			continue
		}
		end := fmt.Sprintf("END\t%d\n", no)
		if i := strings.Index(part, end); i >= 0 {
			res[no] = part[nl+1 : i]
		}
	}
	return res
}

// lastPhase returns the last `PHASE\t<no>\t<phase>` mark the child printed for case `no`.
func lastPhase(out string, no int) string {
	prefix := fmt.Sprintf("PHASE\t%d\t", no)
	i := strings.LastIndex(out, prefix)
	if i < 0 {
		return ""
	}
	rest := out[i+len(prefix):]
	if nl := strings.IndexByte(rest, '\n'); nl >= 0 {
		return rest[:nl]
	}
	return ""
}

func (b *Blocks) runBlock(blk int) map[int]string {
	first, count := blk*b.Size, b.Size
	if blk < 0 {
		first, count = 1000000, 1
	}
	res := map[int]string{}
	cur, end := first, first+count
	for cur < end {
		out, status := spawn(b.Name, fmt.Sprintf("%d %s %d %d", b.seed, b.tier, cur, end-cur), b.Base+time.Duration(end-cur)*b.PerCase, b.Procs)
		done := finished(out)
		next := cur
		for next < end {
			t, ok := done[next]
			if !ok {
				break
			}
			res[next] = t
			next++
		}
		if next >= end {
			break
		}
		switch {
		case status == "hang":
			res[next] = "hang"
		case lastPhase(out, next) == "building":
			res[next] = "builder-crash"
		default:
			res[next] = "crash"
		}
		cur = next + 1
	}
	return res
}

func (b *Blocks) start(blk int) chan map[int]string {
	if ch, ok := b.pending[blk]; ok {
		return ch
	}
	ch := make(chan map[int]string, 1)
	b.pending[blk] = ch
	go func() {
		b.sem <- struct{}{}
		defer func() { <-b.sem }()
		ch <- b.runBlock(blk)
	}()
	return ch
}

// Get returns the transcript of case `no` ("crash"/"hang" when its child died on it), scheduling the
// following blocks.
func (b *Blocks) Get(seed uint64, tier string, no int) string {
	b.mu.Lock()
	if b.pending == nil {
		b.pending = map[int]chan map[int]string{}
		b.sem = make(chan struct{}, b.Workers)
		b.lastBlk = -2
	}
	b.seed, b.tier = seed, tier
	blk := no / b.Size
	if no >= 1000000 {
		blk = -1
	}
	if blk == b.lastBlk {
		r, ok := b.lastDone[no]
		b.mu.Unlock()
		if !ok {
			return "crash"
		}
		return r
	}
	ch := b.start(blk)
	from := blk + 1
	if blk < 0 {
		from = 0
	}
	for k := from; k < from+b.Ahead; k++ {
		if b.Limit == 0 || k*b.Size < b.Limit {
			b.start(k)
		}
	}
	b.mu.Unlock()
	m := <-ch
	b.mu.Lock()
	delete(b.pending, blk)
	b.lastBlk, b.lastDone = blk, m
	b.mu.Unlock()
	if r, ok := m[no]; ok {
		return r
	}
	return "crash"
}

// Relay replays a child's transcript into the op stream: lines "O\t<op>\t<answer>", "N\t<bucket>", "T".
func Relay(c *hx.Ctx, transcript string) {
	for _, l := range strings.Split(transcript, "\n") {
		switch {
		case strings.HasPrefix(l, "O\t"):
			parts := strings.SplitN(l, "\t", 3)
			if len(parts) == 3 {
				c.Op(parts[1], parts[2])
			}
		case strings.HasPrefix(l, "N\t"):
			c.Note(l[2:])
		case l == "T":
			c.NonTrivial()
		case strings.HasPrefix(l, "#\t"):
			c.Comment(l[2:])
		}
	}
}

// Transcript accumulates a child's answer.
type Transcript struct{ sb strings.Builder }

func (t *Transcript) Op(op, ans string) { fmt.Fprintf(&t.sb, "O\t%s\t%s\n", op, ans) }
func (t *Transcript) Note(b string)     { fmt.Fprintf(&t.sb, "N\t%s\n", b) }
func (t *Transcript) NonTrivial()       { t.sb.WriteString("T\n") }
func (t *Transcript) Comment(s string) {
	fmt.Fprintf(&t.sb, "#\t%s\n", strings.ReplaceAll(s, "\n", " "))
}
func (t *Transcript) String() string { return t.sb.String() }
