// Child-process plumbing for the C17 harness (copied from harness/cmd/c02/wd, which other commands
// must not import): compact.Build allocates several 79 MB buffers per goroutine and per pass; in a
// long-lived process the garbage collector recycles them and every build spends seconds clearing
// memory. Cases are therefore built in fresh child processes with the collector off, which also
// contains fatal goroutine panics and hangs of the builders.
package main

import (
	"fmt"
	"os"
	"os/exec"
	"strconv"
	"strings"
	"sync"
	"time"

	"verifharness/hx"
)

// Spawn re-invokes this binary as hx child `name` (see hx.RegisterChild) and returns its answer,
// "hang" on timeout or "crash".
func Spawn(name, arg string, timeout time.Duration, procs int) string {
	self, _ := os.Executable()
	cmd := exec.Command(self)
	cmd.Env = append(os.Environ(), "HX_CHILD="+name, "GOGC=off", fmt.Sprintf("GOMAXPROCS=%d", procs))
	cmd.Stdin = strings.NewReader(arg)
	var sb strings.Builder
	cmd.Stdout = &sb
	if err := cmd.Start(); err != nil {
		return "crash"
	}
	done := make(chan error, 1)
	go func() { done <- cmd.Wait() }()
	select {
	case <-done:
	case <-time.After(timeout):
		cmd.Process.Kill()
		<-done
		return "hang"
	}
	s := sb.String()
	if i := strings.LastIndex(s, "HXRESULT "); i >= 0 {
		return s[i+len("HXRESULT "):]
	}
	return "crash"
}

// CaseRand is the per-case PRNG exactly as hx.Main derives it, so that a child (and the look-ahead)
// can regenerate case `no` from the seed alone.
func CaseRand(seed uint64, no int) *hx.Rand {
	return hx.NewRand(seed*0x9e3779b97f4a7c15 ^ uint64(no)*0xd1342543de82ef95 ^ 0x5851f42d4c957f2d)
}

// Blocks runs the cases of a family in child processes, `size` consecutive case numbers per child and
// `workers` children at a time, looking `ahead` blocks beyond the one being asked for. The child `name`
// gets "seed tier first count" and answers with one transcript per case, each introduced by a line
// "CASE\t<no>". The corpus case (no >= 1000000) is a block of its own.
type Blocks struct {
	Name     string
	Size     int
	Workers  int
	Ahead    int
	Procs    int
	Timeout  time.Duration
	// Run, when set, replaces the default (one Spawn of child Name per block)
	Run      func(seed uint64, tier string, first, count int) string
	mu       sync.Mutex
	pending  map[int]chan map[int]string
	sem      chan struct{}
	seed     uint64
	tier     string
	lastDone map[int]string
	lastBlk  int
}

func (b *Blocks) runBlock(blk int) map[int]string {
	first, count := blk*b.Size, b.Size
	if blk < 0 {
		first, count = 1000000, 1
	}
	var res string
	if b.Run != nil {
		res = b.Run(b.seed, b.tier, first, count)
	} else {
		res = Spawn(b.Name, fmt.Sprintf("%d %s %d %d", b.seed, b.tier, first, count), b.Timeout, b.Procs)
	}
	out := map[int]string{}
	if res == "crash" || res == "hang" {
		// find the culprit by running the block's cases one per child
		if count > 1 {
			for no := first; no < first+count; no++ {
				r1 := Spawn(b.Name, fmt.Sprintf("%d %s %d %d", b.seed, b.tier, no, 1), b.Timeout, b.Procs)
				if r1 == "crash" || r1 == "hang" {
					out[no] = r1
				} else {
					for k, v := range splitCases(r1) {
						out[k] = v
					}
				}
			}
			return out
		}
		out[first] = res
		return out
	}
	return splitCases(res)
}

func splitCases(res string) map[int]string {
	out := map[int]string{}
	for _, part := range strings.Split(res, "CASE\t") {
		nl := strings.IndexByte(part, '\n')
		if nl < 0 {
			continue
		}
		no, err := strconv.Atoi(part[:nl])
		if err != nil {
			continue
		}
		out[no] = part[nl+1:]
	}
	return out
}

func (b *Blocks) start(blk int) chan map[int]string {
	if ch, ok := b.pending[blk]; ok {
		return ch
	}
	ch := make(chan map[int]string, 1)
	b.pending[blk] = ch
	go func() {
		b.sem <- struct{}{}
		defer func() { <-b.sem }()
		ch <- b.runBlock(blk)
	}()
	return ch
}

// Get returns the transcript of case `no` ("crash"/"hang" when its child died), scheduling later blocks.
func (b *Blocks) Get(seed uint64, tier string, no int) string {
	b.mu.Lock()
	if b.pending == nil {
		b.pending = map[int]chan map[int]string{}
		b.sem = make(chan struct{}, b.Workers)
		b.lastBlk = -2
	}
	b.seed, b.tier = seed, tier
	blk := no / b.Size
	if no >= 1000000 {
		blk = -1
	}
	if blk == b.lastBlk {
		r := b.lastDone[no]
		b.mu.Unlock()
		return r
	}
	ch := b.start(blk)
	if blk >= 0 {
		for k := blk + 1; k <= blk+b.Ahead; k++ {
			b.start(k)
		}
	} else {
		for k := 0; k < b.Ahead; k++ {
			b.start(k)
		}
	}
	b.mu.Unlock()
	m := <-ch
	b.mu.Lock()
	delete(b.pending, blk)
	b.lastBlk, b.lastDone = blk, m
	b.mu.Unlock()
	if r, ok := m[no]; ok {
		return r
	}
	return "crash"
}

// Relay replays a child's transcript into the op stream: lines "O\t<op>\t<answer>", "N\t<bucket>", "T".
func Relay(c *hx.Ctx, transcript string) {
	for _, l := range strings.Split(transcript, "\n") {
		switch {
		case strings.HasPrefix(l, "O\t"):
			parts := strings.SplitN(l, "\t", 3)
			if len(parts) == 3 {
				c.Op(parts[1], parts[2])
			}
		case strings.HasPrefix(l, "N\t"):
			c.Note(l[2:])
		case l == "T":
			c.NonTrivial()
		case strings.HasPrefix(l, "#\t"):
			c.Comment(l[2:])
		}
	}
}

// Transcript accumulates a child's answer.
type Transcript struct{ sb strings.Builder }

func (t *Transcript) Op(op, ans string) { fmt.Fprintf(&t.sb, "O\t%s\t%s\n", op, ans) }
func (t *Transcript) Note(b string)     { fmt.Fprintf(&t.sb, "N\t%s\n", b) }
func (t *Transcript) NonTrivial()       { t.sb.WriteString("T\n") }
func (t *Transcript) Comment(s string)  { fmt.Fprintf(&t.sb, "#\t%s\n", strings.ReplaceAll(s, "\n", " ")) }
func (t *Transcript) String() string    { return t.sb.String() }
