// C17 harness: generated features partitioned into 2-4 compact index files (one namespace split across
// files, disjoint namespace sets, an overlay index built against a base world, deliberately duplicated
// ids), every file built with the real builder, parsed block by block and loaded alone; then all files
// merged into one compact.World in a generated load order and probed: lookup / existence / location
// for every id mentioned (and absent ones), EachFeature, searches in result order, point resolution of
// every path. The same questions are asked of the one-file build of the union of the features.
//
// Op lines (ids are `<type>/<namespace rank>/<value>`; ranks index the sorted list of the `nss` line):
//
//	nss [..]                                   the namespaces of the case in byte order
//	file k table=[ranks]                       the namespace table of file k, in encoded order
//	block k t nsenc=[e e e e] => [v:kind[:paths] ..]   one feature block of file k (entries in EachItem order;
//	                                           points: the paths recorded against them)
//	feat k id => content|nil                   file k loaded alone: FindFeatureByID
//	ploc k id => e7|err                        file k loaded alone: FindLocationByID
//	load [k..] => ok                           the merged world: files merged in this order
//	idx k q => [ids]                           the stream FindFeatures builds for the index of file k (hook)
//	find id => merged ## union                 (union answer `-` when the case has duplicated ids)
//	has id / hasid id / loc id / prefs id / pts id / each / search q    likewise
//	rels id / refs id / areas id / trav id     reference queries, sorted (no model answer: merged vs union)
//	chain [k..] [k..]; cfind id; cloc id       the first files as NewWorldWithBase of the others
//	istart cap=n; imerge k; iidx k q; ifind id; ihas id; ieach; isearch q   an incremental history: the same
//	                                           questions before the first merge and after every merge (small lookup cache)
//	src k t ns refs=[ns..] pts=[ns..]; build => builder-crash   a case the builder died on
//
// The Lean driver recomputes every merged answer from the per-file facts with B6.Model.Merged and
// evaluates the property on the implementation's answer (merged = single world of the union).
package main

import (
	"flag"
	"fmt"
	"io"
	"log"
	"math"
	"os"
	"sort"
	"strconv"
	"strings"
	"time"

	"diagonal.works/b6"
	"diagonal.works/b6/encoding"
	"diagonal.works/b6/ingest"
	"diagonal.works/b6/ingest/compact"
	pb "diagonal.works/b6/proto"
	"github.com/golang/geo/s2"
	"verifharness/hx"
)

func init() { log.SetOutput(io.Discard) }

// ---- generated data -------------------------------------------------------------------------------

type gfeat struct {
	id      b6.FeatureID
	loc     s2.LatLng
	noLoc   bool
	refs    []b6.FeatureID
	loops   []b6.FeatureID // areas: one polygon per entry, bounded by one closed path
	members []b6.RelationMember
	tags    []b6.Tag
}

type gfile struct {
	feats   []gfeat
	overlay bool // built with BuildOverlayInMemory against the world of the earlier files
}

type gcase struct {
	files []gfile
	order []int
	dup   bool
	shape []string
	extra []b6.FeatureID // additional probe ids
}

const (
	nsShared = b6.Namespace("mm.test/shared")
	nsAbsent = b6.Namespace("qq.test/none")
)

var ptNS = []b6.Namespace{b6.NamespaceOSMNode, "aa.test/pt", b6.NamespaceDiagonalAccessPoints, "zz.test/pt", nsShared}
var pathNS = []b6.Namespace{b6.NamespaceOSMWay, b6.NamespaceDiagonalAccessPaths, "zz.test/path", nsShared, "bb.test/way"}
var areaNS = []b6.Namespace{b6.NamespaceOSMWay, "bb.test/area", nsShared}
var relNS = []b6.Namespace{b6.NamespaceOSMRelation, "zz.test/rel", "aa.test/rel"}

func st(k, v string) b6.Tag { return b6.Tag{Key: k, Value: b6.NewStringExpression(v)} }

var ptTags = [][]b6.Tag{nil, nil, {st("#amenity", "cafe")}, {st("#amenity", "pub"), st("name", "x")}, {st("#barrier", "gate")}, {st("name", "y")}}
var pathTags = [][]b6.Tag{nil, {st("#highway", "path")}, {st("#highway", "primary"), st("name", "a_road")}, {st("#bridge", "yes"), st("#highway", "path")}, {st("#highway", "path"), st("#amenity", "cafe")}}
var areaTags = [][]b6.Tag{{st("#building", "yes")}, {st("#landuse", "grass")}, {st("#building", "yes"), st("#amenity", "pub")}}
var relTags = [][]b6.Tag{{st("#route", "bicycle"), st("type", "route")}, {st("type", "site")}, {st("#route", "bus")}}
var roles = []string{"", "outer", "stop", "forward"}

func cloneTags(t []b6.Tag) []b6.Tag { return append([]b6.Tag(nil), t...) }

func pickNS(r *hx.Rand, pool []b6.Namespace, n int) []b6.Namespace {
	p := r.Perm(len(pool))
	if n > len(pool) {
		n = len(pool)
	}
	out := make([]b6.Namespace, n)
	for i := 0; i < n; i++ {
		out[i] = pool[p[i]]
	}
	return out
}

// pointNS is the set of namespaces in which the features hold points or path points.
func pointNS(fs []gfeat) map[b6.Namespace]bool {
	out := map[b6.Namespace]bool{}
	for _, g := range fs {
		if g.id.Type == b6.FeatureTypePoint {
			out[g.id.Namespace] = true
		}
		for _, r := range g.refs {
			out[r.Namespace] = true
		}
	}
	return out
}

type nsChoice struct{ pt, path, area, rel []b6.Namespace }

func generate(r *hx.Rand, big bool) *gcase {
	c := &gcase{}
	nfiles := 2 + r.Intn(3)
	mode := r.Intn(4) // 0 same namespaces in every file, 1 disjoint per file, 2 mixed, 3 osm only
	c.shape = append(c.shape, []string{"ns:same", "ns:disjoint", "ns:mixed", "ns:osm"}[mode])
	overlayAt := -1
	if r.Chance(1, 2) {
		overlayAt = 1 + r.Intn(nfiles-1)
		c.shape = append(c.shape, "overlay")
	}
	c.dup = r.Chance(1, 6)
	if c.dup {
		c.shape = append(c.shape, "dup-ids")
	}
	common := nsChoice{pickNS(r, ptNS, 1+r.Intn(2)), pickNS(r, pathNS, 1+r.Intn(2)), pickNS(r, areaNS, 1), pickNS(r, relNS, 1)}
	used := map[b6.FeatureID]bool{}
	absent := map[b6.FeatureID]bool{}
	cell := 0
	var all []gfeat // everything generated so far (for members / duplicates)
	for k := 0; k < nfiles; k++ {
		var ch nsChoice
		switch mode {
		case 0:
			ch = common
		case 1:
			ch = nsChoice{[]b6.Namespace{ptNS[k%len(ptNS)]}, []b6.Namespace{pathNS[k%len(pathNS)]}, []b6.Namespace{areaNS[k%len(areaNS)]}, []b6.Namespace{relNS[k%len(relNS)]}}
		case 2:
			ch = nsChoice{pickNS(r, ptNS, 1+r.Intn(2)), pickNS(r, pathNS, 1+r.Intn(2)), pickNS(r, areaNS, 1), pickNS(r, relNS, 1)}
		default:
			ch = nsChoice{ptNS[:1], pathNS[:1], areaNS[:1], relNS[:1]}
		}
		f := gfile{overlay: k == overlayAt}
		fresh := func(t b6.FeatureType, nss []b6.Namespace) b6.FeatureID {
			for {
				v := uint64(1 + r.Intn(14))
				if r.Chance(1, 12) {
					v = r.Uint64Edge()
					if r.Bool() { // 32..63, 4096..8191, ..: value<<2 needs a byte more than value<<1 (combinePoints, fixed)
						v = uint64(1)<<uint(5+7*r.Intn(8)) + uint64(r.Intn(16))
					}
				}
				id := b6.FeatureID{Type: t, Namespace: nss[r.Intn(len(nss))], Value: v}
				if !used[id] {
					used[id] = true
					return id
				}
			}
		}
		// points
		np := 2 + r.Intn(5)
		if big {
			np = 6 + r.Intn(20)
		}
		var pts []gfeat
		for i := 0; i < np; i++ {
			p := gfeat{id: fresh(b6.FeatureTypePoint, ch.pt), tags: cloneTags(ptTags[r.Intn(len(ptTags))])}
			p.loc = s2.LatLngFromDegrees(51.5+0.0008*float64(cell%9)+0.00001*float64(r.Intn(20)), -0.12+0.0011*float64(cell/9)+0.00001*float64(r.Intn(20)))
			cell++
			pts = append(pts, p)
		}
		// points a path of this file may use: its own, and for an overlay also those of the base files
		if f.overlay && r.Chance(1, 3) { // an overlay that only adds paths over base points
			pts = nil
			c.shape = append(c.shape, "overlay:no-own-points")
		}
		avail := append([]gfeat(nil), pts...)
		if f.overlay {
			for _, g := range all {
				if g.id.Type == b6.FeatureTypePoint && !g.noLoc {
					avail = append(avail, g)
				}
			}
		}
		f.feats = append(f.feats, pts...)
		npaths := 1 + r.Intn(4)
		if big {
			npaths = 3 + r.Intn(10)
		}
		var closed []b6.FeatureID
		for i := 0; i < npaths; i++ {
			p := gfeat{id: fresh(b6.FeatureTypePath, ch.path), tags: cloneTags(pathTags[r.Intn(len(pathTags))])}
			n := 2 + r.Intn(4)
			if n > len(avail) {
				n = len(avail)
			}
			perm := r.Perm(len(avail))
			sel := make([]gfeat, n)
			for j := 0; j < n; j++ {
				sel[j] = avail[perm[j]]
			}
			if n >= 3 && r.Chance(2, 5) { // closed loop, ordered by angle about the centroid, either orientation
				var clat, clng float64
				for _, s := range sel {
					clat += s.loc.Lat.Degrees()
					clng += s.loc.Lng.Degrees()
				}
				clat, clng = clat/float64(n), clng/float64(n)
				sort.Slice(sel, func(a, b int) bool {
					return math.Atan2(sel[a].loc.Lat.Degrees()-clat, sel[a].loc.Lng.Degrees()-clng) < math.Atan2(sel[b].loc.Lat.Degrees()-clat, sel[b].loc.Lng.Degrees()-clng)
				})
				if r.Bool() {
					for a, b := 0, n-1; a < b; a, b = a+1, b-1 {
						sel[a], sel[b] = sel[b], sel[a]
					}
				}
				sel = append(sel, sel[0])
				closed = append(closed, p.id)
				c.shape = append(c.shape, "path:closed")
			} else {
				c.shape = append(c.shape, "path:open")
			}
			for _, s := range sel {
				p.refs = append(p.refs, s.id)
			}
			if f.overlay {
				for _, s := range sel {
					own := false
					for _, q := range pts {
						own = own || q.id == s.id
					}
					if !own {
						c.shape = append(c.shape, "path:base-point")
						break
					}
				}
			}
			if r.Chance(1, 15) && len(p.refs) > 0 { // a point nobody has: the builder drops the path
				// an id no file defines, now or later (thorough seed 1 case 2812: a random point value was 9000, so
				// the path was dropped by its own file but kept by the one-file build of the union)
				aid := b6.FeatureID{Type: b6.FeatureTypePoint, Namespace: ch.pt[0], Value: 9000 + uint64(r.Intn(3))}
				for used[aid] && !absent[aid] {
					aid.Value += 3
				}
				used[aid], absent[aid] = true, true
				p.refs[r.Intn(len(p.refs))] = aid
				c.shape = append(c.shape, "path:absent-point")
			}
			f.feats = append(f.feats, p)
		}
		if len(closed) > 0 && r.Chance(2, 3) {
			na := 1 + r.Intn(2)
			for i := 0; i < na; i++ {
				a := gfeat{id: fresh(b6.FeatureTypeArea, ch.area), tags: cloneTags(areaTags[r.Intn(len(areaTags))])}
				a.loops = []b6.FeatureID{closed[r.Intn(len(closed))]}
				if r.Chance(1, 4) {
					a.loops = append(a.loops, closed[r.Intn(len(closed))])
				}
				f.feats = append(f.feats, a)
				c.shape = append(c.shape, "area")
			}
		}
		nr := r.Intn(3)
		for i := 0; i < nr; i++ {
			rel := gfeat{id: fresh(b6.FeatureTypeRelation, ch.rel), tags: cloneTags(relTags[r.Intn(len(relTags))])}
			pool := append(append([]gfeat(nil), all...), f.feats...)
			nm := 1 + r.Intn(4)
			for j := 0; j < nm; j++ {
				m := b6.RelationMember{Role: roles[r.Intn(len(roles))]}
				if r.Chance(1, 8) {
					m.ID = b6.FeatureID{Type: b6.FeatureTypePath, Namespace: ch.path[0], Value: 9100}
				} else {
					m.ID = pool[r.Intn(len(pool))].id
					// The builder dies ("No builder for type point in namespace N", fatal in a reader
					// goroutine) on a relation whose point member is in a namespace of which the file has
					// neither points nor path points - the build of a file is C01's; not generated.
					if m.ID.Type == b6.FeatureTypePoint && !pointNS(f.feats)[m.ID.Namespace] {
						continue
					}
				}
				rel.members = append(rel.members, m)
			}
			f.feats = append(f.feats, rel)
			c.shape = append(c.shape, "relation")
		}
		if c.dup && k > 0 && len(all) > 0 { // the same id again, with other tags (and another place)
			nd := 1 + r.Intn(2)
			for i := 0; i < nd; i++ {
				src := all[r.Intn(len(all))]
				dupAlready := false
				for _, g := range f.feats {
					dupAlready = dupAlready || g.id == src.id
				}
				if dupAlready || src.id.Type == b6.FeatureTypeArea {
					continue
				}
				d := src
				d.tags = append(cloneTags(src.tags), st("#copy", strconv.Itoa(k)))
				switch d.id.Type {
				case b6.FeatureTypePoint:
					d.loc = s2.LatLngFromDegrees(51.49+0.0001*float64(r.Intn(50)), -0.13)
					if r.Chance(1, 4) {
						d.noLoc = true
						c.shape = append(c.shape, "dup:point-without-location")
					}
				case b6.FeatureTypePath:
					if len(pts) >= 2 {
						d.refs = []b6.FeatureID{pts[0].id, pts[1].id}
					} else {
						continue
					}
				case b6.FeatureTypeRelation: // see the note on point members above
					d.members = nil
					for _, m := range src.members {
						if m.ID.Type != b6.FeatureTypePoint || pointNS(f.feats)[m.ID.Namespace] {
							d.members = append(d.members, m)
						}
					}
				}
				f.feats = append(f.feats, d)
				c.shape = append(c.shape, "dup:"+d.id.Type.String())
			}
		}
		all = append(all, f.feats...)
		c.files = append(c.files, f)
	}
	// load order: any permutation (ReadWorld merges its files concurrently, in no fixed order)
	c.order = r.Perm(nfiles)
	if r.Chance(1, 3) {
		for i := range c.order {
			c.order[i] = i
		}
		c.shape = append(c.shape, "order:as-built")
	} else {
		c.shape = append(c.shape, "order:permuted")
	}
	return c
}

func (g *gfeat) feature() ingest.Feature {
	switch g.id.Type {
	case b6.FeatureTypePoint:
		f := &ingest.GenericFeature{ID: g.id}
		if !g.noLoc {
			f.Tags = append(f.Tags, b6.Tag{Key: b6.PointTag, Value: b6.NewPointExpressionFromLatLng(g.loc)})
		}
		f.Tags = append(f.Tags, cloneTags(g.tags)...)
		return f
	case b6.FeatureTypePath:
		f := &ingest.GenericFeature{ID: g.id}
		es := make([]b6.AnyExpression, len(g.refs))
		for i, r := range g.refs {
			es[i] = b6.FeatureIDExpression(r)
		}
		f.Tags = append(f.Tags, b6.Tag{Key: b6.PathTag, Value: b6.NewExpressions(es)})
		f.Tags = append(f.Tags, cloneTags(g.tags)...)
		return f
	case b6.FeatureTypeArea:
		a := ingest.NewAreaFeature(len(g.loops))
		a.AreaID = g.id.ToAreaID()
		a.Tags = cloneTags(g.tags)
		for i, l := range g.loops {
			a.SetPathIDs(i, []b6.FeatureID{l})
		}
		return a
	case b6.FeatureTypeRelation:
		rel := ingest.NewRelationFeature(len(g.members))
		rel.RelationID = g.id.ToRelationID()
		rel.Tags = cloneTags(g.tags)
		copy(rel.Members, g.members)
		return rel
	}
	panic("bad type")
}

func source(fs []gfeat) ingest.MemoryFeatureSource {
	out := make([]ingest.Feature, len(fs))
	for i := range fs {
		out[i] = fs[i].feature()
	}
	return ingest.MemoryFeatureSource(out)
}

// ---- corpus ---------------------------------------------------------------------------------------

func pt(ns b6.Namespace, v uint64, lat, lng float64, tags ...b6.Tag) gfeat {
	return gfeat{id: b6.FeatureID{Type: b6.FeatureTypePoint, Namespace: ns, Value: v}, loc: s2.LatLngFromDegrees(lat, lng), tags: tags}
}

func pth(ns b6.Namespace, v uint64, refs []b6.FeatureID, tags ...b6.Tag) gfeat {
	return gfeat{id: b6.FeatureID{Type: b6.FeatureTypePath, Namespace: ns, Value: v}, refs: refs, tags: tags}
}

const nCorpus = 7

func corpus(k int) *gcase {
	n := b6.NamespaceOSMNode
	w := b6.NamespaceOSMWay
	p1, p2, p3, p4 := pt(n, 1, 51.5, -0.12, st("#amenity", "cafe")), pt(n, 2, 51.501, -0.12), pt(n, 3, 51.501, -0.121, st("#amenity", "cafe")), pt(n, 4, 51.5, -0.121)
	switch k {
	case 0: // one namespace split over two files: the id is in the second block (hasFeatureWithID stopped at the first)
		return &gcase{files: []gfile{{feats: []gfeat{p1, p2, pth(w, 10, []b6.FeatureID{p1.id, p2.id}, st("#highway", "path"))}},
			{feats: []gfeat{p3, p4, pth(w, 11, []b6.FeatureID{p3.id, p4.id}, st("#highway", "path"))}}}, order: []int{0, 1}}
	case 1: // files with different namespace tables
		a1, a2 := pt("aa.test/pt", 1, 51.5, -0.12, st("#amenity", "cafe")), pt("aa.test/pt", 2, 51.501, -0.12)
		z1, z2 := pt("zz.test/pt", 1, 51.502, -0.12, st("#amenity", "cafe")), pt("zz.test/pt", 2, 51.503, -0.12)
		return &gcase{files: []gfile{{feats: []gfeat{a1, a2, pth("zz.test/path", 5, []b6.FeatureID{a1.id, a2.id}, st("#highway", "path"))}},
			{feats: []gfeat{z1, z2, pth(b6.NamespaceDiagonalAccessPaths, 5, []b6.FeatureID{z1.id, z2.id}, st("#highway", "path"))}},
			{feats: []gfeat{p1, p2, pth(w, 5, []b6.FeatureID{p1.id, p2.id}, st("#highway", "path"))}}}, order: []int{2, 0, 1}}
	case 2: // an overlay path over base points, loaded before its base
		return &gcase{files: []gfile{{feats: []gfeat{p1, p2, p3}},
			{overlay: true, feats: []gfeat{pth(b6.NamespaceDiagonalAccessPaths, 42, []b6.FeatureID{p1.id, p3.id}, st("#highway", "cycleway"))}}}, order: []int{1, 0}}
	case 3: // the same id in two files
		d := pt(n, 1, 51.49, -0.13, st("#amenity", "pub"))
		return &gcase{dup: true, files: []gfile{{feats: []gfeat{p1, p2}}, {feats: []gfeat{d, p3}}}, order: []int{0, 1}}
	case 4: // overlay with own points in the base's namespace plus a path mixing both
		q := pt(n, 7, 51.504, -0.12)
		return &gcase{files: []gfile{{feats: []gfeat{p1, p2}}, {feats: []gfeat{p3, p4}},
			{overlay: true, feats: []gfeat{q, pth(w, 12, []b6.FeatureID{p1.id, q.id, p4.id}, st("#highway", "path"))}}}, order: []int{0, 2, 1}}
	case 5: // a relation in one file over a path and a point of another: the members do not know (finding cross-file-referrer)
		rel := gfeat{id: b6.FeatureID{Type: b6.FeatureTypeRelation, Namespace: b6.NamespaceOSMRelation, Value: 50},
			members: []b6.RelationMember{{ID: b6.FeatureID{Type: b6.FeatureTypePath, Namespace: w, Value: 10}, Role: "forward"}, {ID: p1.id}, {ID: p3.id}}, tags: []b6.Tag{st("#route", "bus")}}
		return &gcase{files: []gfile{{feats: []gfeat{p1, p2, pth(w, 10, []b6.FeatureID{p1.id, p2.id}, st("#highway", "path"))}},
			{feats: []gfeat{p3, p4, rel}}}, order: []int{0, 1}}
	case 6: // an overlay whose only entry for a base point records way 40: value<<2 is a byte longer than value<<1 (combinePoints overflowed)
		return &gcase{files: []gfile{{feats: []gfeat{p1, p2, p3}},
			{overlay: true, feats: []gfeat{pth(w, 40, []b6.FeatureID{p1.id, p3.id}, st("#highway", "path"))}}}, order: []int{0, 1}}
	}
	return nil
}

// crashWitness is generated case 0 of every run: a relation whose point member is in a namespace of which its
// file has neither points nor path points. compact.Build dies on it (finding C01 point-member-without-block), which
// exercises the one builder crash the driver accepts.
func crashWitness() *gcase {
	n := b6.NamespaceOSMNode
	p1, p2 := pt(n, 1, 51.5, -0.12), pt(n, 2, 51.501, -0.12)
	rel := gfeat{id: b6.FeatureID{Type: b6.FeatureTypeRelation, Namespace: b6.NamespaceOSMRelation, Value: 50},
		members: []b6.RelationMember{{ID: b6.FeatureID{Type: b6.FeatureTypePoint, Namespace: "zz.test/pt", Value: 1}}}}
	return &gcase{files: []gfile{{feats: []gfeat{p1, p2}}, {feats: []gfeat{pt(n, 3, 51.502, -0.12), rel}}}, order: []int{0, 1}, shape: []string{"builder-crash-witness"}}
}

// caseFor is the case a run generates for number `no`.
func caseFor(seed uint64, thorough bool, no int) *gcase {
	if no == 0 {
		return crashWitness()
	}
	r := CaseRand(seed, no)
	return generate(r, thorough && r.Chance(1, 8))
}

// srcLines describes the source of a case the builder died on, for the driver's class predicates: per feature
// its file, type, namespace, the namespaces of its path points and of its point members.
func srcLines(c *gcase) []string {
	var out []string
	nsList := func(ids []b6.FeatureID) string {
		xs := make([]string, len(ids))
		for i, id := range ids {
			xs[i] = word(string(id.Namespace))
		}
		return hx.List(xs)
	}
	for k, f := range c.files {
		for _, g := range f.feats {
			var pts []b6.FeatureID
			for _, m := range g.members {
				if m.ID.Type == b6.FeatureTypePoint {
					pts = append(pts, m.ID)
				}
			}
			out = append(out, fmt.Sprintf("src %d %d %s refs=%s pts=%s", k, int(g.id.Type), word(string(g.id.Namespace)), nsList(g.refs), nsList(pts)))
		}
	}
	return out
}

// ---- rendering ------------------------------------------------------------------------------------

type ranks map[b6.Namespace]int

func (rk ranks) id(id b6.FeatureID) string {
	n, ok := rk[id.Namespace]
	if !ok {
		return fmt.Sprintf("%d/?%s/%d", int(id.Type), id.Namespace, id.Value)
	}
	return fmt.Sprintf("%d/%d/%d", int(id.Type), n, id.Value)
}

func e7(ll s2.LatLng) string {
	return fmt.Sprintf("%d,%d", int64(math.Round(ll.Lat.Degrees()*1e7)), int64(math.Round(ll.Lng.Degrees()*1e7)))
}

func word(s string) string {
	if s == "" {
		return "~"
	}
	var b strings.Builder
	for _, c := range s {
		switch c {
		case ' ', '[', ']', '=', '|', ';', '#', '\n', '\t':
			b.WriteByte('_')
		default:
			b.WriteRune(c)
		}
	}
	return b.String()
}

func guard(f func() string) (ans string) {
	defer func() {
		if r := recover(); r != nil {
			ans = "panic"
		}
	}()
	return f()
}

func tagsWord(t b6.Tags) string {
	var xs []string
	for _, tag := range t {
		if tag.Key == b6.PointTag || tag.Key == b6.PathTag {
			continue
		}
		xs = append(xs, word(tag.Key)+"="+word(tag.Value.String()))
	}
	if len(xs) == 0 {
		return "~"
	}
	return strings.Join(xs, ",")
}

// content renders what a feature says about itself without consulting the world it came from:
// kind | tags | point: location; path: references; area: polygon count; relation: members.
func (rk ranks) content(f b6.Feature) string {
	if f == nil {
		return "nil"
	}
	return guard(func() string {
		head := rk.id(f.FeatureID()) + "|" + tagsWord(f.AllTags()) + "|"
		switch x := f.(type) {
		case b6.AreaFeature:
			return head + fmt.Sprintf("area:%d", x.Len())
		case b6.RelationFeature:
			ms := make([]string, x.Len())
			for i := range ms {
				m := x.Member(i)
				ms[i] = rk.id(m.ID) + ":" + word(m.Role)
			}
			return head + "rel:" + strings.Join(ms, ";")
		case b6.PhysicalFeature:
			switch x.GeometryType() {
			case b6.GeometryTypePoint:
				return head + "pt:" + e7(s2.LatLngFromPoint(x.Point()))
			case b6.GeometryTypePath:
				xs := make([]string, x.GeometryLen())
				for i := range xs {
					if id := x.Reference(i).Source(); id.IsValid() {
						xs[i] = rk.id(id)
					} else {
						xs[i] = "@" + e7(s2.LatLngFromPoint(x.PointAt(i)))
					}
				}
				return head + "path:" + strings.Join(xs, ";")
			}
			return head + "nogeom"
		}
		return head + fmt.Sprintf("?%T", f)
	})
}

type namedQuery struct {
	name string
	q    b6.Query
}

func queries() []namedQuery {
	centre := s2.PointFromLatLng(s2.LatLngFromDegrees(51.502, -0.118))
	sv := b6.NewStringExpression
	return []namedQuery{
		{"all", b6.All{}},
		{"k:highway", b6.Keyed{Key: "#highway"}},
		{"t:highway=path", b6.Tagged{Key: "#highway", Value: sv("path")}},
		{"t:amenity=cafe", b6.Tagged{Key: "#amenity", Value: sv("cafe")}},
		{"k:amenity", b6.Keyed{Key: "#amenity"}},
		{"k:building", b6.Keyed{Key: "#building"}},
		{"k:copy", b6.Keyed{Key: "#copy"}},
		{"path+highway", b6.Typed{Type: b6.FeatureTypePath, Query: b6.Keyed{Key: "#highway"}}},
		{"point+all", b6.Typed{Type: b6.FeatureTypePoint, Query: b6.All{}}},
		{"area+amenity", b6.Typed{Type: b6.FeatureTypeArea, Query: b6.Keyed{Key: "#amenity"}}},
		{"route|barrier|bridge", b6.Union{b6.Keyed{Key: "#route"}, b6.Keyed{Key: "#barrier"}, b6.Keyed{Key: "#bridge"}}},
		{"path&bridge", b6.Intersection{b6.Tagged{Key: "#highway", Value: sv("path")}, b6.Keyed{Key: "#bridge"}}},
		{"amenity&highway", b6.Intersection{b6.Keyed{Key: "#amenity"}, b6.Keyed{Key: "#highway"}}},
		{"cap250", b6.NewIntersectsCap(s2.CapFromCenterAngle(centre, b6.MetersToAngle(250)))},
		{"cap250&highway", b6.Intersection{b6.Keyed{Key: "#highway"}, b6.NewIntersectsCap(s2.CapFromCenterAngle(centre, b6.MetersToAngle(250)))}},
		{"k:none", b6.Keyed{Key: "#none"}},
	}
}

// ---- reading a built file with the exported decoders ----------------------------------------------

type entry struct {
	v     uint64
	kind  string
	paths []compact.Reference // points: the paths recorded against the point
}

type block struct {
	typ     b6.FeatureType
	nsenc   compact.Namespaces
	entries []entry
}

func parseFile(data []byte) (table []b6.Namespace, blocks []block, indices int) {
	var h compact.Header
	h.Unmarshal(data)
	var hp pb.CompactHeaderProto
	if err := compact.UnmarshalProto(data[h.HeaderProtoOffset:], &hp); err != nil {
		panic(err)
	}
	for _, ns := range hp.Namespaces {
		table = append(table, b6.Namespace(ns))
	}
	offset := int(h.BlockOffset)
	for offset < len(data) {
		var bh compact.BlockHeader
		offset += bh.Unmarshal(data[offset:])
		switch bh.Type {
		case compact.BlockTypeFeatures:
			var fb compact.FeatureBlock
			fb.Unmarshal(data[offset:])
			b := block{typ: fb.FeatureType, nsenc: fb.Namespaces}
			fb.Map.EachItem(func(id uint64, tagged []encoding.Tagged, g int) error {
				kind := "x"
				var paths []compact.Reference
				if fb.FeatureType == b6.FeatureTypePoint {
					switch tagged[0].Tag {
					case compact.PointTagCommon:
						kind = "c"
						var p compact.CommonPoint
						p.Unmarshal(&fb.Namespaces, tagged[0].Data)
						paths = []compact.Reference{p.Path}
					case compact.PointTagFull:
						kind = "f"
						var p compact.FullPoint
						p.Unmarshal(&fb.Namespaces, tagged[0].Data)
						paths = append(paths, p.Paths...)
					case compact.PointTagReferencesOnly:
						kind = "r"
						var r compact.PointReferences
						r.Unmarshal(&fb.Namespaces, tagged[0].Data)
						paths = append(paths, r.Paths...)
					default:
						kind = "?"
					}
				}
				b.entries = append(b.entries, entry{id, kind, paths})
				return nil
			}, 1)
			blocks = append(blocks, b)
		case compact.BlockTypeSearchIndex:
			indices++
		}
		offset += int(bh.Length)
	}
	return
}

// ---- one case -------------------------------------------------------------------------------------

func featIDs(fs b6.Features) []b6.FeatureID {
	var ids []b6.FeatureID
	for fs.Next() {
		ids = append(ids, fs.FeatureID())
	}
	return ids
}

func (rk ranks) list(ids []b6.FeatureID) string {
	xs := make([]string, len(ids))
	for i, id := range ids {
		xs[i] = rk.id(id)
	}
	return hx.List(xs)
}

func runCase(t *Transcript, c *gcase, phase func(string)) {
	for _, s := range c.shape {
		t.Note(s)
	}
	// A child that dies between these two marks died inside the builder (C01's code, and outside this
	// property's domain: the files of a merged world are files the builder produced); see blocks.go.
	phase("building")
	datas := make([][]byte, len(c.files))
	for k := range c.files {
		var bases [][]byte
		if c.files[k].overlay {
			bases = datas[:k]
		}
		var ok bool
		if datas[k], ok = build(c, k, bases); !ok {
			t.Op(fmt.Sprintf("build %d", k), "err")
			return
		}
	}
	// the one-file build of the union
	var udata []byte
	if !c.dup {
		var ok bool
		if udata, ok = build(c, -1, nil); !ok {
			t.Op("union", "err")
			return
		}
	}
	phase("built")
	// namespaces of the case
	nss := map[b6.Namespace]bool{b6.NamespaceInvalid: true, nsAbsent: true}
	for _, ns := range b6.OSMNamespaces {
		nss[ns] = true
	}
	probes := map[b6.FeatureID]bool{}
	for _, f := range c.files {
		for _, g := range f.feats {
			probes[g.id] = true
			for _, r := range g.refs {
				probes[r] = true
			}
			for _, l := range g.loops {
				probes[l] = true
			}
			for _, m := range g.members {
				probes[m.ID] = true
			}
		}
	}
	type parsed struct {
		table  []b6.Namespace
		blocks []block
	}
	ps := make([]parsed, len(datas))
	for k, d := range datas {
		table, blocks, _ := parseFile(d)
		ps[k] = parsed{table, blocks}
		for _, ns := range table {
			nss[ns] = true
		}
	}
	for id := range probes {
		nss[id.Namespace] = true
	}
	sorted := make([]string, 0, len(nss))
	for ns := range nss {
		sorted = append(sorted, string(ns))
	}
	sort.Strings(sorted)
	rk := ranks{}
	shown := make([]string, len(sorted))
	for i, ns := range sorted {
		rk[b6.Namespace(ns)] = i
		shown[i] = word(ns)
	}
	t.Op("nss "+hx.List(shown), "-")
	// absent ids: a value nobody has in each (type, namespace) seen, an unknown namespace, a type beyond the table
	seenTN := map[[2]string]b6.FeatureID{}
	for id := range probes {
		seenTN[[2]string{id.Type.String(), string(id.Namespace)}] = id
	}
	for _, id := range seenTN {
		probes[b6.FeatureID{Type: id.Type, Namespace: id.Namespace, Value: 777}] = true
	}
	probes[b6.FeatureID{Type: b6.FeatureTypePoint, Namespace: nsAbsent, Value: 1}] = true
	probes[b6.FeatureID{Type: b6.FeatureTypePath, Namespace: nsAbsent, Value: 1}] = true
	probes[b6.FeatureID{Type: b6.FeatureTypeCollection, Namespace: b6.NamespaceOSMNode, Value: 1}] = true
	probes[b6.FeatureID{Type: b6.FeatureTypeInvalid, Namespace: b6.NamespaceOSMNode, Value: 1}] = true
	for _, id := range c.extra {
		probes[id] = true
	}
	ids := make([]b6.FeatureID, 0, len(probes))
	for id := range probes {
		ids = append(ids, id)
	}
	sort.Slice(ids, func(i, j int) bool { return ids[i].Less(ids[j]) })

	qs := queries()
	// every file alone
	for k, d := range datas {
		tb := make([]string, len(ps[k].table))
		for i, ns := range ps[k].table {
			tb[i] = strconv.Itoa(rk[ns])
		}
		kind := "plain"
		if c.files[k].overlay {
			kind = "overlay"
		}
		t.Op(fmt.Sprintf("file %d %s table=%s", k, kind, hx.List(tb)), "-")
		wk, err := compact.NewWorldFromData(d)
		if err != nil {
			t.Op(fmt.Sprintf("load-alone %d", k), "err")
			return
		}
		for _, b := range ps[k].blocks {
			es := make([]string, len(b.entries))
			for i, e := range b.entries {
				es[i] = fmt.Sprintf("%d:%s", e.v, e.kind)
				if len(e.paths) > 0 { // decoded through the file's own table, as findPathsByPoint does
					xs := make([]string, len(e.paths))
					for j, p := range e.paths {
						_, code := p.TypeAndNamespace.Split()
						xs[j] = "?"
						if int(code) < len(ps[k].table) {
							xs[j] = rk.id(b6.FeatureID{Type: b6.FeatureTypePath, Namespace: ps[k].table[code], Value: p.Value})
						}
					}
					es[i] += ":" + strings.Join(xs, ",")
				}
			}
			t.Op(fmt.Sprintf("block %d %d nsenc=[%d %d %d %d]", k, int(b.typ), b.nsenc[b6.FeatureTypePoint], b.nsenc[b6.FeatureTypePath], b.nsenc[b6.FeatureTypeArea], b.nsenc[b6.FeatureTypeRelation]), hx.List(es))
			ns := b6.NamespaceInvalid
			if e := int(b.nsenc[b.typ]); e < len(ps[k].table) {
				ns = ps[k].table[e]
			}
			for _, e := range b.entries {
				id := b6.FeatureID{Type: b.typ, Namespace: ns, Value: e.v}
				t.Op(fmt.Sprintf("feat %d %s", k, rk.id(id)), guard(func() string { return rk.content(wk.FindFeatureByID(id)) }))
				if b.typ == b6.FeatureTypePoint {
					t.Op(fmt.Sprintf("ploc %d %s", k, rk.id(id)), guard(func() string {
						ll, err := wk.FindLocationByID(id)
						if err != nil {
							return "err"
						}
						return e7(ll)
					}))
				}
			}
		}
	}
	// merged
	m := compact.NewWorld()
	byID := compact.NewFeaturesByID(compact.NewWorld())
	ord := make([]string, len(c.order))
	for i, k := range c.order {
		ord[i] = strconv.Itoa(k)
		if err := m.Merge(datas[k]); err != nil {
			t.Op("load "+hx.List(ord), "err")
			return
		}
		if err := byID.Merge(datas[k]); err != nil {
			t.Op("load "+hx.List(ord), "err")
			return
		}
	}
	if m.VerifNumIndices() != len(c.order) {
		t.Op("load "+hx.List(ord), fmt.Sprintf("indices=%d", m.VerifNumIndices()))
		return
	}
	t.Op("load "+hx.List(ord), "ok")
	// the per-index streams FindFeatures merges (index i belongs to the i-th merged file)
	for i, k := range c.order {
		for _, nq := range qs {
			t.Op(fmt.Sprintf("idx %d %s", k, nq.name), guard(func() string { return rk.list(featIDs(m.VerifFindFeaturesInIndex(i, nq.q))) }))
		}
	}
	var u *compact.World
	if !c.dup {
		var err error
		if u, err = compact.NewWorldFromData(udata); err != nil {
			t.Op("union", "load-err")
			return
		}
	}
	both := func(op string, f func(w b6.World) string) {
		a := guard(func() string { return f(m) })
		b := "-"
		if u != nil {
			b = guard(func() string { return f(u) })
		}
		t.Op(op, a+" ## "+b)
	}
	both("each", func(w b6.World) string {
		var ids []b6.FeatureID
		if err := w.EachFeature(func(f b6.Feature, g int) error {
			ids = append(ids, f.FeatureID())
			return nil
		}, &b6.EachFeatureOptions{Goroutines: 1}); err != nil {
			return "err"
		}
		if w != b6.World(m) {
			sort.Slice(ids, func(i, j int) bool { return ids[i].Less(ids[j]) })
		}
		return rk.list(ids)
	})
	for _, id := range ids {
		s := rk.id(id)
		both("find "+s, func(w b6.World) string { return rk.content(w.FindFeatureByID(id)) })
		both("has "+s, func(w b6.World) string { return fmt.Sprint(w.HasFeatureWithID(id)) })
		t.Op("hasid "+s, guard(func() string { return fmt.Sprint(byID.HasFeatureWithID(id)) }))
		// for ids of every type: FindLocationByID looks in the point blocks whatever the type of the id
		both("loc "+s, func(w b6.World) string {
			ll, err := w.FindLocationByID(id)
			if err != nil {
				return "err"
			}
			return e7(ll)
		})
		both("prefs "+s, func(w b6.World) string {
			ids := featIDs(w.FindReferences(id, b6.FeatureTypePath))
			if w != b6.World(m) {
				sort.Slice(ids, func(i, j int) bool { return ids[i].Less(ids[j]) })
			}
			return rk.list(ids)
		})
		srt := func(ids []b6.FeatureID) string {
			sort.Slice(ids, func(i, j int) bool { return ids[i].Less(ids[j]) })
			return rk.list(ids)
		}
		both("rels "+s, func(w b6.World) string {
			rs := w.FindRelationsByFeature(id)
			var out []b6.FeatureID
			for rs.Next() {
				out = append(out, rs.FeatureID())
			}
			return srt(out)
		})
		both("refs "+s, func(w b6.World) string { return srt(featIDs(w.FindReferences(id))) })
		if id.Type == b6.FeatureTypePoint {
			both("areas "+s, func(w b6.World) string {
				as := w.FindAreasByPoint(id)
				var out []b6.FeatureID
				for as.Next() {
					out = append(out, as.FeatureID())
				}
				return srt(out)
			})
			both("trav "+s, func(w b6.World) string {
				ss := b6.AllSegments(w.Traverse(id))
				xs := make([]string, len(ss))
				for i, sg := range ss {
					k := sg.ToKey()
					xs[i] = fmt.Sprintf("%s:%d>%d", rk.id(k.ID), k.First, k.Last)
				}
				sort.Strings(xs)
				return hx.List(xs)
			})
		}
		if id.Type == b6.FeatureTypePath {
			both("pts "+s, func(w b6.World) string {
				p, ok := w.FindFeatureByID(id).(b6.PhysicalFeature)
				if !ok || p == nil {
					return "nil"
				}
				xs := make([]string, p.GeometryLen())
				for i := range xs {
					xs[i] = e7(s2.LatLngFromPoint(p.PointAt(i)))
				}
				return hx.List(xs)
			})
		}
	}
	// a chain: the later files in a world of their own whose base is the world of the earlier ones
	if j := len(c.order) / 2; j >= 1 {
		base := compact.NewWorld()
		top := compact.NewWorldWithBase(base)
		var tops, bases []string
		okc := true
		for i, k := range c.order {
			if i < j {
				okc = okc && base.Merge(datas[k]) == nil
				bases = append(bases, strconv.Itoa(k))
			} else {
				okc = okc && top.Merge(datas[k]) == nil
				tops = append(tops, strconv.Itoa(k))
			}
		}
		t.Op("chain "+hx.List(tops)+" "+hx.List(bases), map[bool]string{true: "ok", false: "err"}[okc])
		if okc {
			for _, id := range ids {
				s := rk.id(id)
				t.Op("cfind "+s, guard(func() string { return rk.content(top.FindFeatureByID(id)) }))
				t.Op("cloc "+s, guard(func() string {
					ll, err := top.FindLocationByID(id)
					if err != nil {
						return "err"
					}
					return e7(ll)
				}))
			}
		}
	}
	for _, nq := range qs {
		both("search "+nq.name, func(w b6.World) string { return rk.list(featIDs(w.FindFeatures(nq.q))) })
	}
	// an incremental history: lookups, EachFeature and searches before the first merge and after every merge, in
	// a world whose lookup cache holds only `capacity` features (0: the default of 4000) - ids that only become
	// present with a later file, repeated lookups (cache hits) and more distinct paths than the cache holds
	capacity := []int{1, 2, 4, 0}[(ids[len(ids)/2].Value+uint64(len(ids)))%4]
	iw := compact.NewWorld()
	if capacity > 0 {
		iw.VerifSetCacheCapacity(capacity)
	}
	t.Op(fmt.Sprintf("istart cap=%d", capacity), "-")
	iqs := []namedQuery{qs[0], qs[1], qs[13]}
	for step := 0; step <= len(c.order); step++ {
		if step > 0 {
			k := c.order[step-1]
			st := "ok"
			if err := iw.Merge(datas[k]); err != nil {
				st = "err"
			}
			t.Op(fmt.Sprintf("imerge %d", k), st)
			if st != "ok" {
				break
			}
			for i := 0; i < step; i++ {
				for _, nq := range iqs {
					t.Op(fmt.Sprintf("iidx %d %s", c.order[i], nq.name), guard(func() string { return rk.list(featIDs(iw.VerifFindFeaturesInIndex(i, nq.q))) }))
				}
			}
		}
		for pass := 0; pass < 2; pass++ {
			for j, id := range ids {
				if pass == 1 && j%3 != 0 { // every third id again at once
					continue
				}
				s := rk.id(id)
				t.Op("ifind "+s, guard(func() string { return rk.content(iw.FindFeatureByID(id)) }))
				if pass == 0 {
					t.Op("ihas "+s, guard(func() string { return fmt.Sprint(iw.HasFeatureWithID(id)) }))
				}
			}
		}
		t.Op("ieach", guard(func() string {
			var out []b6.FeatureID
			if err := iw.EachFeature(func(f b6.Feature, g int) error {
				out = append(out, f.FeatureID())
				return nil
			}, &b6.EachFeatureOptions{Goroutines: 1}); err != nil {
				return "err"
			}
			return rk.list(out)
		}))
		for _, nq := range iqs {
			t.Op("isearch "+nq.name, guard(func() string {
				fs := iw.FindFeatures(nq.q)
				var xs []string
				for fs.Next() { // the id and whether the feature comes with it
					x := rk.id(fs.FeatureID())
					if fs.Feature() == nil {
						x += "!nil"
					}
					xs = append(xs, x)
				}
				return hx.List(xs)
			}))
		}
	}
	t.Note(fmt.Sprintf("cache-capacity:%d", capacity))
	t.Note(fmt.Sprintf("files:%d", len(c.files)))
	tables := map[string]bool{}
	for _, p := range ps {
		tables[fmt.Sprint(p.table)] = true
	}
	t.Note(fmt.Sprintf("distinct-tables:%d", len(tables)))
	if len(c.files) >= 2 {
		t.NonTrivial()
	}
}

// build builds file k of the case (k < 0: the one-file build of the union of all files) in this
// process. Every compact build allocates 6-10 buffers of 79 MB and touches a few bytes of each; the
// explicit runtime.GC() inside the builder frees them, the next build reuses and therefore clears
// them. A child process that runs many cases (collector otherwise off) pays for paging them in once.
func build(c *gcase, k int, bases [][]byte) ([]byte, bool) {
	if os.Getenv("C17_DEBUG") != "" { // replay aid: which build a child dies in, and on what
		fmt.Fprintf(os.Stderr, "build %d of %d files\n", k, len(c.files))
		if k >= 0 {
			for _, g := range c.files[k].feats {
				fmt.Fprintf(os.Stderr, "  %v refs=%v members=%v loops=%v\n", g.id, g.refs, g.members, g.loops)
			}
		}
	}
	o := compact.Options{Goroutines: 0, PointsScratchOutputType: compact.OutputTypeMemory}
	var data []byte
	var err error
	switch {
	case k < 0:
		var all []gfeat
		for _, f := range c.files {
			all = append(all, f.feats...)
		}
		data, err = compact.BuildInMemory(source(all), &o)
	case c.files[k].overlay:
		base := compact.NewWorld()
		for _, d := range bases {
			if err := base.Merge(d); err != nil {
				return nil, false
			}
		}
		data, err = compact.BuildOverlayInMemory(source(c.files[k].feats), &o, base)
	default:
		data, err = compact.BuildInMemory(source(c.files[k].feats), &o)
	}
	return data, err == nil
}

func caseChild(arg string) string {
	f := strings.Fields(arg)
	seed, _ := strconv.ParseUint(f[0], 10, 64)
	thorough := f[1] == "thorough"
	first, _ := strconv.Atoi(f[2])
	count, _ := strconv.Atoi(f[3])
	for no := first; no < first+count; no++ {
		var t Transcript
		phase := func(p string) { fmt.Printf("PHASE\t%d\t%s\n", no, p) }
		if no >= 1000000 {
			for k := 0; k < nCorpus; k++ {
				runCase(&t, corpus(k), phase)
				t.Op("reset", "-")
			}
		} else {
			runCase(&t, caseFor(seed, thorough, no), phase)
		}
		// printed as soon as the case is done: see blocks.go
		fmt.Printf("CASE\t%d\n%sEND\t%d\n", no, t.String(), no)
	}
	return ""
}

const (
	quick    = 1000
	thorough = 4000
)

func main() {
	hx.RegisterChild("c17case", caseChild)
	// one long-lived child per worker: see build()
	blocks := &Blocks{Name: "c17case", Size: 100, Workers: 8, Ahead: 8, Procs: 2, Base: 600 * time.Second, PerCase: 5 * time.Second}
	sized := false
	run := func(c *hx.Ctx) {
		if !sized { // one child per worker: the cases of the run split evenly
			total := quick
			if c.Thorough() {
				total = thorough
			}
			if f := flag.Lookup("n"); f != nil {
				if n, err := strconv.Atoi(f.Value.String()); err == nil && n > 0 {
					total = n
				}
			}
			blocks.Size = (total + blocks.Workers - 1) / blocks.Workers
			blocks.Limit = total
			if f := flag.Lookup("only-case"); f != nil { // replay of one case: a child of its own
				if n, err := strconv.Atoi(f.Value.String()); err == nil && n >= 0 {
					blocks.Size, blocks.Limit = 1, 1
				}
			}
			sized = true
		}
		res := blocks.Get(c.Seed, c.Tier, c.CaseNo)
		if res == "crash" || res == "hang" || res == "builder-crash" {
			if res == "builder-crash" && c.CaseNo < 1000000 { // what the builder was given, for the driver's class predicates
				for _, l := range srcLines(caseFor(c.Seed, c.Thorough(), c.CaseNo)) {
					c.Op(l, "-")
				}
			}
			c.Op("build", res)
			c.Note("child:" + res)
			return
		}
		Relay(c, res)
	}
	hx.Main(hx.Family{
		Name:     "c17",
		Rule:     "2-4 compact index files per case: points / open and closed paths / areas / relations with tags from a small pool, ids from small values plus edge values, namespaces either the same in every file, disjoint per file, mixed or OSM only (so that the per-file namespace tables differ), optionally one overlay file built against the earlier files with paths over base points, optionally duplicated ids (1 in 6); files merged in a generated order; every id mentioned plus absent ids probed. non-trivial = at least two files",
		Quick:    quick,
		Thorough: thorough,
		Corpus:   run,
		Case:     run,
	})
}
