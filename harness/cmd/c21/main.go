// C21 harness: programs generated type-directed from the builtin table of package lang, compiled and
// evaluated by the real api.Evaluate on constructed b6.Expression trees, in a persistent child
// process (a fatal error or hang there is the answer "crash" / "hang").
//
// ops:   compile <expr>  =>  [instr …] | err | panic        (api.VerifCompileDump, hook)
//
//	eval <expr>     =>  val <value> | err | panic | crash | hang
package main

import (
	"fmt"
	"strconv"
	"strings"

	"verifharness/cmd/c21/lang"
	"verifharness/hx"
)

// ---- corpus: witnesses of the defects found (fixed ones first, then the recorded finding) ------

func manyParams(n int) *lang.Node {
	ps := make([]string, n)
	as := make([]*lang.Node, n)
	for k := range ps {
		ps[k] = fmt.Sprintf("p%d", k)
		as[k] = lang.I(k)
	}
	return lang.C(lang.L(ps, lang.S(ps[n-1])), as...)
}

func corpus() []*lang.Node {
	S, I, C, L := lang.S, lang.I, lang.C, lang.L
	sub3 := L([]string{"a", "b", "c"}, C(S("sub"), C(S("sub"), S("a"), S("b")), S("c")))
	mk := L([]string{"a"}, L([]string{"b"}, C(S("sub"), S("a"), S("b"))))
	return []*lang.Node{
		// fixed C21-call-lambda-literal: calling a lambda literal panicked in compileCall
		C(L([]string{"a"}, C(S("add"), S("a"), S("a"))), I(1)),
		C(L(nil, I(7))),
		C(C(L([]string{"a", "b"}, C(S("sub"), S("a"), S("b"))), I(1)), I(5)),
		// fixed C21-partial-reapply: a partial call applied to too few arguments again panicked
		C(C(C(S("sub")), I(1)), I(2)),
		C(C(S("add"), I(1))),
		C(C(C(S("mix"), I(1)), I(2)), I(3)),
		C(C(C(sub3, I(1)), I(10)), I(100)),
		C(C(sub3, I(1)), I(10), I(100)),
		// fixed C21-call-non-callable: calling a non-function result panicked
		C(C(S("add"), I(1), I(2)), I(3)),
		// fixed C21-maxargs-off-by-one: the 33rd parameter overran VM.Args
		manyParams(32), manyParams(33), manyParams(34),
		// fixed C21-convert-interface-values: interface{} results rejected by int parameters
		C(S("add"), C(S("first"), C(S("pair"), I(1), I(2))), I(3)),
		C(L([]string{"x"}, C(S("add"), S("x"), I(1))), C(S("second"), C(S("pair"), I(1), I(4)))),
		// fixed C21-partial-expression-assert: partial call of a function value that came from a symbol
		C(C(C(L([]string{"f"}, S("f")), S("add")), I(1)), I(2)),
		// finding closure-registers: an escaping closure reads a register that was restored / overwritten
		C(C(C(L([]string{"a", "b"}, L([]string{"c"}, C(S("add"), S("a"), S("c")))), I(1)), I(2)), I(3)),
		C(L([]string{"mk"}, C(S("call1"), C(S("first"), C(S("pair"), C(S("call1"), S("mk"), I(1)), C(S("call1"), S("mk"), I(2)))), I(10))), mk),
		// finding closure-registers, re-entrance: no lambda uses an enclosing parameter, but g is the lambda
		// itself; the inner activation overwrites y, which the outer one reads after the call (7, not 6)
		C(L([]string{"f"}, C(S("call2"), S("f"), S("f"), I(1))),
			L([]string{"g", "y"}, C(S("add"), C(S("call2"), S("g"), L([]string{"a", "b"}, S("b")), C(S("add"), S("y"), I(1))), S("y")))),
		// the same shapes where the VM is right
		C(C(L([]string{"a"}, L([]string{"b"}, C(S("sub"), S("a"), S("b")))), I(1)), I(2)),
		C(S("call1"), L([]string{"a"}, C(S("call1"), L([]string{"b"}, C(S("add"), S("a"), S("b"))), I(10))), I(20)),
		// the variadic functions of the real table: complete with any number of arguments ≥ the fixed ones
		C(S("collection")), C(S("collection"), C(S("pair"), I(1), I(2)), C(S("pair"), I(3), S("add"))),
		C(S("collection"), I(1)), C(S("call")), C(S("call"), S("zero")), C(S("call"), S("add"), I(1), I(2)),
		C(C(S("call")), S("add"), I(1)), C(C(S("call")), S("add"), I(1), I(2)), C(S("call"), S("add"), I(1), I(2), I(3)),
		C(S("call1"), S("collection"), C(S("pair"), I(1), I(2))), C(S("call"), L([]string{"x"}, S("x")), I(5)),
		// seeded C21-4: the partial of a native higher-order builtin holds a lambda capturing x; the maker runs
		// again before the partial is completed (101, not 102)
		C(L([]string{"g"}, C(L([]string{"p1", "p2"}, C(S("call1"), S("p1"), S("force"))), C(S("call1"), S("g"), I(1)), C(S("call1"), S("g"), I(2)))),
			L([]string{"x"}, C(S("call1"), L(nil, C(S("add"), S("x"), I(100)))))),
		// fixed C21-convert-interface-query: a query out of a function returning interface{} used as a function
		C(S("call"), C(S("first"), C(S("pair"), lang.QL(&lang.Q{Op: "keyed", A: "a"}), I(1)))),
	}
}

// ---- worker side ---------------------------------------------------------------------------------

// program rebuilds the program a request names: "corpus <i>" or "gen <caseSeed>".
func program(req string) (*lang.Node, map[string]bool, string) {
	f := strings.Fields(req)
	switch f[0] {
	case "corpus":
		i, _ := strconv.Atoi(f[1])
		return corpus()[i], nil, ""
	case "gen":
		seed, _ := strconv.ParseUint(f[1], 10, 64)
		return generate(hx.NewRand(seed))
	}
	return nil, nil, ""
}

// nativePartialTemplate: a partial application of a NATIVE higher-order builtin (call1 / call2) whose bound
// argument is a lambda capturing the parameter x of the enclosing "maker" lambda; the maker is invoked 2..3
// times with different arguments, and only afterwards one (or two) of the partials are completed — with a
// native function (force, call1) or a lambda that ends up calling the captured lambda.  The registers the
// captured lambda reads are the snapshot partialCall.CallFromStack swaps in (seeded change C21-4).
func nativePartialTemplate(r *hx.Rand) (*lang.Node, map[string]bool) {
	S, I, C, L := lang.S, lang.I, lang.C, lang.L
	feat := map[string]bool{"native-partial-capture": true, "lambda": true, "nested-lambda": true, "partial": true}
	op := r.Pick([]string{"add", "sub"})
	k := r.Intn(9)
	var maker *lang.Node
	var complete func(p *lang.Node) *lang.Node
	switch r.Intn(4) {
	case 0: // (call1 {-> op x k}) … force
		feat["native-partial:call1-thunk-force"] = true
		maker = L([]string{"x"}, C(S("call1"), L(nil, C(S(op), S("x"), I(k)))))
		complete = func(p *lang.Node) *lang.Node { return C(S("call1"), p, S("force")) }
	case 1: // (call2 {y -> op y x} k) … call1
		feat["native-partial:call2-lambda-call1"] = true
		maker = L([]string{"x"}, C(S("call2"), L([]string{"y"}, C(S(op), S("y"), S("x"))), I(k)))
		complete = func(p *lang.Node) *lang.Node { return C(S("call1"), p, S("call1")) }
	case 2: // (call1 {y -> op x y}) … {h -> call1 h k}
		feat["native-partial:call1-lambda-lambda"] = true
		maker = L([]string{"x"}, C(S("call1"), L([]string{"y"}, C(S(op), S("x"), S("y")))))
		complete = func(p *lang.Node) *lang.Node {
			return C(S("call1"), p, L([]string{"h"}, C(S("call1"), S("h"), I(k))))
		}
	default: // (call2 {-> x} {y -> op y x}) … {t f -> call1 f (force t)}
		feat["native-partial:call2-two-lambdas"] = true
		maker = L([]string{"x"}, C(S("call2"), L(nil, S("x")), L([]string{"y"}, C(S(op), S("y"), S("x")))))
		complete = func(p *lang.Node) *lang.Node {
			return C(S("call1"), p, L([]string{"t", "f"}, C(S("call1"), S("f"), C(S("force"), S("t")))))
		}
	}
	n := 2 + r.Intn(2)
	ps := make([]string, n)
	made := make([]*lang.Node, n)
	base := r.Intn(20)
	for i := range ps {
		ps[i] = fmt.Sprintf("p%d", i+1)
		made[i] = C(S("call1"), S("g"), I(base+1+i*(1+r.Intn(3)))) // different arguments
	}
	var use *lang.Node
	switch r.Intn(3) {
	case 0:
		use = complete(S(ps[0])) // the earliest partial, completed after the later invocations
	case 1:
		use = complete(S(ps[r.Intn(n)]))
	default:
		use = C(S("pair"), complete(S(ps[r.Intn(n)])), complete(S(ps[r.Intn(n)])))
	}
	return C(L([]string{"g"}, C(L(ps, use), made...)), maker), feat
}

func generate(r *hx.Rand) (*lang.Node, map[string]bool, string) {
	g := &lang.Gen{R: r, Budget: 4 + r.Intn(22)}
	g.Variadic = r.Chance(1, 4) // the real variadic collection / call (Builtin.collection, Builtin.call)
	switch r.Intn(40) {
	case 0: // many parameters: the MaxArgs boundary
		n := 29 + r.Intn(7)
		g.Feat = map[string]bool{"many-params": true}
		p := manyParams(n)
		if r.Bool() { // split them over two nested lambdas
			k := 1 + r.Intn(n-1)
			inner := lang.L(p.Fn.Params[k:], p.Fn.Body)
			p = lang.C(lang.C(lang.L(p.Fn.Params[:k], inner), p.Args[:k]...), p.Args[k:]...)
		}
		return p, g.Feat, ""
	case 3: // partials of native higher-order builtins holding capturing lambdas, completed after re-entry
		p, feat := nativePartialTemplate(r)
		return p, feat, ""
	case 1, 2: // closures made by one lambda called several times, used afterwards
		g.Feat = map[string]bool{"closure-template": true, "lambda": true, "nested-lambda": true}
		op := r.Pick([]string{"add", "sub", "mix"})
		body := lang.C(lang.S(op), lang.S("a"), lang.S("b"))
		if op == "mix" {
			body = lang.C(lang.S(op), lang.S("a"), lang.S("b"), lang.S("a"))
		}
		mk := lang.L([]string{"a"}, lang.L([]string{"b"}, body))
		which := r.Pick([]string{"first", "second"})
		use := lang.C(lang.S("call1"), lang.C(lang.S(which), lang.C(lang.S("pair"),
			lang.C(lang.S("call1"), lang.S("mk"), lang.I(r.Intn(9))), lang.C(lang.S("call1"), lang.S("mk"), lang.I(r.Intn(9))))), lang.I(r.Intn(9)))
		return lang.C(lang.L([]string{"mk"}, use), mk), g.Feat, ""
	}
	if r.Chance(1, 25) { // a call without arguments of any builtin, at the root or as an argument
		p, feat := lang.NoargProgram(r, lang.AllBuiltins)
		return p, feat, ""
	}
	p := g.Program()
	mut := ""
	if r.Chance(1, 4) {
		mut = lang.Mutate(r, &p)
	}
	return p, g.Feat, mut
}

func serve(req string) string {
	p, _, _ := program(req)
	if p == nil {
		return "badreq"
	}
	return lang.Dump(p.ToB6()) + " ; " + lang.Outcome(p.ToB6())
}

// ---- parent side -----------------------------------------------------------------------------

var worker = &lang.Worker{}

func runProgram(c *hx.Ctx, req string, p *lang.Node, feat map[string]bool, mut string) {
	ans := worker.Ask(req)
	dump, outcome := "crash", ans
	if i := strings.Index(ans, " ; "); i >= 0 {
		dump, outcome = ans[:i], ans[i+3:]
	}
	text := p.Text()
	c.Op("compile "+text, dump)
	c.Op("eval "+text, outcome)
	for k := range feat {
		c.Note("feat:" + k)
	}
	if mut != "" {
		c.Note("mutation:" + mut)
	} else {
		c.Note("mutation:none")
	}
	c.Note(fmt.Sprintf("size:%02d-%02d", p.Size()/5*5, p.Size()/5*5+4))
	c.Note("outcome:" + strings.Fields(outcome)[0])
	if feat["lambda"] || feat["partial"] || feat["call-call"] || feat["many-params"] || feat["noarg-any"] {
		c.NonTrivial()
	}
}

func main() {
	if lang.ServeIfWorker(serve) {
		return
	}
	defer worker.Close()
	hx.Main(hx.Family{
		Name:     "c21",
		Rule:     "programs (<= ~25 nodes) generated type-directed over int/pair/higher-order builtins: calls, lambdas (nested, shadowing, called directly, passed, returned), partial applications at several levels, calls of calls, pipelines; 1 in 4 with the real variadic functions (collection values, call f args…); 1 in 25 a call without arguments of any builtin at the root / as an argument; 1 in 4 gets one ill-typing edit (replace / drop / add / swap argument, unbound symbol, literal as function); templates for the MaxArgs boundary, for closures outliving their activation, and for partial applications of native higher-order builtins that hold a capturing lambda and are completed after the enclosing lambda ran again. non-trivial = contains a lambda, a partial application, a call of a call or >= 29 parameters; distinct = by hash of the program text",
		Quick:    4000,
		Thorough: 60000,
		Corpus: func(c *hx.Ctx) {
			for i, p := range corpus() {
				runProgram(c, fmt.Sprintf("corpus %d", i), p, map[string]bool{"lambda": true}, "")
			}
		},
		Case: func(c *hx.Ctx) {
			seed := c.Rand.Uint64()
			p, feat, mut := generate(hx.NewRand(seed))
			runProgram(c, fmt.Sprintf("gen %d", seed), p, feat, mut)
		},
	})
}
