// Package lang is shared by the C21 and C22 harnesses: a small expression AST with the single-line
// text form of lean/B6/Model/Expr.lean, its conversion to real b6.Expression trees, the builtin
// table the programs are written against, and canonical rendering of evaluation results.
package lang

import (
	"fmt"
	"reflect"
	"strconv"
	"strings"

	"diagonal.works/b6"
	"diagonal.works/b6/api"
	"diagonal.works/b6/api/functions"
	"diagonal.works/b6/ingest"
)

type Kind int

const (
	Sym Kind = iota
	Int
	Str
	Query
	Call
	Lam
)

// Q mirrors B6.Model.Query.
type Q struct {
	Op   string // keyed tagged typed and or
	A, B string
	Qs   []*Q
}

type Node struct {
	Kind      Kind
	Name      string // Sym
	Int       int
	Str       string
	Q         *Q
	Fn        *Node
	Args      []*Node
	Pipelined bool
	Params    []string
	Body      *Node
}

func S(name string) *Node             { return &Node{Kind: Sym, Name: name} }
func I(n int) *Node                   { return &Node{Kind: Int, Int: n} }
func St(s string) *Node               { return &Node{Kind: Str, Str: s} }
func QL(q *Q) *Node                   { return &Node{Kind: Query, Q: q} }
func C(fn *Node, args ...*Node) *Node { return &Node{Kind: Call, Fn: fn, Args: args} }
func P(fn *Node, args ...*Node) *Node { return &Node{Kind: Call, Fn: fn, Args: args, Pipelined: true} }
func L(params []string, body *Node) *Node {
	return &Node{Kind: Lam, Params: params, Body: body}
}

func (q *Q) toks(out []string) []string {
	switch q.Op {
	case "keyed":
		return append(out, "(", "keyed", "s:"+q.A, ")")
	case "tagged":
		return append(out, "(", "tagged", "s:"+q.A, "s:"+q.B, ")")
	case "typed":
		out = append(out, "(", "typed", "s:"+q.A)
		out = q.Qs[0].toks(out)
		return append(out, ")")
	case "and", "or":
		out = append(out, "(", q.Op)
		for _, qq := range q.Qs {
			out = qq.toks(out)
		}
		return append(out, ")")
	}
	return append(out, "(", "other", "s:"+q.A, ")")
}

func (n *Node) toks(out []string) []string {
	switch n.Kind {
	case Sym:
		return append(out, n.Name)
	case Int:
		return append(out, strconv.Itoa(n.Int))
	case Str:
		return append(out, "s:"+n.Str)
	case Query:
		out = append(out, "(", "q")
		out = n.Q.toks(out)
		return append(out, ")")
	case Call:
		out = append(out, "(")
		if n.Pipelined {
			out = append(out, "|")
		}
		out = n.Fn.toks(out)
		for _, a := range n.Args {
			out = a.toks(out)
		}
		return append(out, ")")
	case Lam:
		out = append(out, "(", "\\", "(")
		out = append(out, n.Params...)
		out = append(out, ")")
		out = n.Body.toks(out)
		return append(out, ")")
	}
	panic("bad node")
}

// Text is the single-line form parsed by B6.Model.Expr.parse.
func (n *Node) Text() string { return strings.Join(n.toks(nil), " ") }

func (n *Node) Size() int {
	switch n.Kind {
	case Call:
		s := 1 + n.Fn.Size()
		for _, a := range n.Args {
			s += a.Size()
		}
		return s
	case Lam:
		return 1 + n.Body.Size()
	}
	return 1
}

func (n *Node) Clone() *Node {
	c := *n
	if n.Fn != nil {
		c.Fn = n.Fn.Clone()
	}
	if n.Body != nil {
		c.Body = n.Body.Clone()
	}
	if n.Args != nil {
		c.Args = make([]*Node, len(n.Args))
		for i, a := range n.Args {
			c.Args[i] = a.Clone()
		}
	}
	if n.Params != nil {
		c.Params = append([]string{}, n.Params...)
	}
	return &c
}

// Walk visits every node (pre-order) with a pointer to the slot holding it, so callers can replace it.
func Walk(slot **Node, f func(slot **Node)) {
	f(slot)
	n := *slot
	switch n.Kind {
	case Call:
		Walk(&n.Fn, f)
		for i := range n.Args {
			Walk(&n.Args[i], f)
		}
	case Lam:
		Walk(&n.Body, f)
	}
}

func (q *Q) ToB6() b6.Query {
	switch q.Op {
	case "keyed":
		return b6.Keyed{Key: q.A}
	case "tagged":
		return b6.Tagged{Key: q.A, Value: b6.NewStringExpression(q.B)}
	case "typed":
		return b6.Typed{Type: b6.FeatureTypeFromString(q.A), Query: q.Qs[0].ToB6()}
	case "and":
		r := make(b6.Intersection, len(q.Qs))
		for i, qq := range q.Qs {
			r[i] = qq.ToB6()
		}
		return r
	case "or":
		r := make(b6.Union, len(q.Qs))
		for i, qq := range q.Qs {
			r[i] = qq.ToB6()
		}
		return r
	}
	return b6.All{}
}

// ToB6 builds a fresh real expression tree (Simplify mutates its argument, so never share one).
func (n *Node) ToB6() b6.Expression {
	switch n.Kind {
	case Sym:
		return b6.NewSymbolExpression(n.Name)
	case Int:
		return b6.NewIntExpression(n.Int)
	case Str:
		return b6.NewStringExpression(n.Str)
	case Query:
		return b6.NewQueryExpression(n.Q.ToB6())
	case Call:
		args := make([]b6.Expression, len(n.Args))
		for i, a := range n.Args {
			args[i] = a.ToB6()
		}
		return b6.Expression{AnyExpression: b6.CallExpression{Function: n.Fn.ToB6(), Args: args, Pipelined: n.Pipelined}}
	case Lam:
		return b6.Expression{AnyExpression: b6.LambdaExpression{Args: append([]string{}, n.Params...), Expression: n.Body.ToB6()}}
	}
	panic("bad node")
}

func queryToks(q b6.Query, out []string) []string {
	return queryToksWith(q, out, func(s string) string { return "s:" + s })
}

// in values, strings can hold any bytes (reflect converts an int argument to a rune string): hex
func queryValueToks(q b6.Query, out []string) []string {
	return queryToksWith(q, out, func(s string) string { return fmt.Sprintf("x:%x", s) })
}

func queryToksWith(q b6.Query, out []string, str func(string) string) []string {
	switch q := q.(type) {
	case b6.Keyed:
		return append(out, "(", "keyed", str(q.Key), ")")
	case b6.Tagged:
		return append(out, "(", "tagged", str(q.Key), str(q.Value.String()), ")")
	case b6.Typed:
		out = append(out, "(", "typed", str(q.Type.String()))
		out = queryToksWith(q.Query, out, str)
		return append(out, ")")
	case b6.Intersection:
		out = append(out, "(", "and")
		for _, qq := range q {
			out = queryToksWith(qq, out, str)
		}
		return append(out, ")")
	case b6.Union:
		out = append(out, "(", "or")
		for _, qq := range q {
			out = queryToksWith(qq, out, str)
		}
		return append(out, ")")
	}
	return append(out, "(", "other", str(fmt.Sprintf("%T", q)), ")")
}

// ExprText renders a real expression tree in the same text form (used on Simplify's output).
func ExprText(e b6.Expression) string { return strings.Join(exprToks(e, nil), " ") }

func exprToks(e b6.Expression, out []string) []string {
	switch x := e.AnyExpression.(type) {
	case b6.SymbolExpression:
		return append(out, string(x))
	case b6.IntExpression:
		return append(out, strconv.Itoa(int(x)))
	case b6.StringExpression:
		return append(out, "s:"+string(x))
	case b6.QueryExpression:
		out = append(out, "(", "q")
		out = queryToks(x.Query, out)
		return append(out, ")")
	case b6.CallExpression:
		out = append(out, "(")
		if x.Pipelined {
			out = append(out, "|")
		}
		out = exprToks(x.Function, out)
		for _, a := range x.Args {
			out = exprToks(a, out)
		}
		return append(out, ")")
	case b6.LambdaExpression:
		out = append(out, "(", "\\", "(")
		out = append(out, x.Args...)
		out = append(out, ")")
		out = exprToks(x.Expression, out)
		return append(out, ")")
	case nil:
		return append(out, "o:nil:")
	}
	return append(out, fmt.Sprintf("o:%T:", e.AnyExpression))
}

// ---- the builtin table ------------------------------------------------------------------------

func wrapDiv(a, b int) int {
	if a == -1<<63 && b == -1 {
		return a
	}
	return a / b
}

// Functions is the function table the generated programs use. Integer, pair and higher-order
// functions are defined here with the Go parameter types that exercise ConvertWithContext
// (int, interface{}, api.Pair, api.Callable, func types served by the real adaptors); the query
// builders are the real ones.
func Functions() api.FunctionSymbols {
	real := functions.Functions()
	return api.FunctionSymbols{
		"zero": func(c *api.Context) (int, error) { return 0, nil },
		"add":  func(c *api.Context, a int, b int) (int, error) { return a + b, nil },
		"sub":  func(c *api.Context, a int, b int) (int, error) { return a - b, nil },
		"div": func(c *api.Context, a int, b int) (int, error) {
			if b == 0 {
				return 0, fmt.Errorf("division by zero")
			}
			return wrapDiv(a, b), nil
		},
		"mix":    func(c *api.Context, a int, b int, d int) (int, error) { return 100*a + 10*b + d, nil },
		"pair":   func(c *api.Context, a interface{}, b interface{}) (api.Pair, error) { return api.AnyAnyPair{a, b}, nil },
		"first":  func(c *api.Context, p api.Pair) (interface{}, error) { return p.First(), nil },
		"second": func(c *api.Context, p api.Pair) (interface{}, error) { return p.Second(), nil },
		"call1": func(c *api.Context, f api.Callable, x interface{}) (interface{}, error) {
			return c.VM.CallWithArgsAndExpressions(c, f, []api.StackFrame{{Value: reflect.ValueOf(x)}})
		},
		"call2": func(c *api.Context, f api.Callable, x interface{}, y interface{}) (interface{}, error) {
			return c.VM.CallWithArgsAndExpressions(c, f, []api.StackFrame{{Value: reflect.ValueOf(x)}, {Value: reflect.ValueOf(y)}})
		},
		"apply": func(c *api.Context, f func(*api.Context, interface{}) (interface{}, error), x interface{}) (interface{}, error) {
			return f(c, x)
		},
		"force":  func(c *api.Context, f func(*api.Context) (interface{}, error)) (interface{}, error) { return f(c) },
		"keyed":  real["keyed"],
		"tagged": real["tagged"],
		"typed":  real["typed"],
		"and":    real["and"],
		"or":     real["or"],
		// the two variadic functions of the real table (used by C22 only: the C21 models have no
		// variadic builtins): collection(pairs ...interface{}), call(f Callable, args ...interface{})
		"collection": real["collection"],
		"call":       real["call"],
	}
}

// AllBuiltins lists every function of the table the Lean models have (non-variadic ones).
var AllBuiltins = []string{"zero", "add", "sub", "div", "mix", "pair", "first", "second", "call1", "call2", "apply", "force",
	"keyed", "tagged", "typed", "and", "or", "collection", "call"}

// VariadicBuiltins: the real variadic functions of the table (in the models as Builtin.collection / call).
var VariadicBuiltins = []string{"collection", "call"}

func NewContext() *api.Context {
	return &api.Context{
		World:           ingest.NewBasicMutableWorld(),
		FunctionSymbols: Functions(),
		Adaptors:        functions.Adaptors(),
	}
}

func valueToks(v interface{}, out []string) []string {
	switch x := v.(type) {
	case int:
		return append(out, strconv.Itoa(x))
	case string:
		return append(out, fmt.Sprintf("x:%x", x))
	case api.Callable:
		return append(out, fmt.Sprintf("fn/%d", x.NumArgs()))
	case api.Pair:
		out = append(out, "(", "pair")
		out = valueToks(x.First(), out)
		out = valueToks(x.Second(), out)
		return append(out, ")")
	case b6.Query:
		out = append(out, "(", "q")
		out = queryValueToks(x, out)
		return append(out, ")")
	case b6.UntypedCollection:
		// one token, like the model's Val.other "coll" text: the items observed by cellToks
		var cells []string
		i := x.BeginUntyped()
		for n := 0; n < 64; n++ {
			ok, err := i.Next()
			if err != nil {
				cells = append(cells, "err")
				break
			}
			if !ok {
				break
			}
			cells = cellToks(i.Key(), cells)
			cells = cellToks(i.Value(), cells)
		}
		return append(out, "o:coll:"+strings.Join(cells, "_"))
	}
	return append(out, strings.ReplaceAll(fmt.Sprintf("o:%T:", v), " ", ""))
}

// cellToks mirrors B6.Model.Val.cellToks: how a key or value inside a collection is observed.
func cellToks(v interface{}, out []string) []string {
	switch x := v.(type) {
	case int:
		return append(out, strconv.Itoa(x))
	case string:
		return append(out, fmt.Sprintf("x:%x", x))
	case api.Callable:
		return append(out, fmt.Sprintf("fn/%d", x.NumArgs()))
	case api.Pair:
		out = append(out, "(", "pair")
		out = cellToks(x.First(), out)
		out = cellToks(x.Second(), out)
		return append(out, ")")
	case b6.Query:
		return append(out, "q")
	case b6.UntypedCollection:
		return append(out, "o:coll")
	}
	return append(out, strings.ReplaceAll(fmt.Sprintf("o:%T", v), " ", ""))
}

// FlattenQuery is the canonical form in which query *values* are compared by C22: nested
// intersections / unions spliced into their parent, also under Typed (lean: B6.Model.Query.canon).
func FlattenQuery(q b6.Query) b6.Query {
	switch q := q.(type) {
	case b6.Intersection:
		out := b6.Intersection{}
		for _, sub := range q {
			if f, ok := FlattenQuery(sub).(b6.Intersection); ok {
				out = append(out, f...)
			} else {
				out = append(out, FlattenQuery(sub))
			}
		}
		return out
	case b6.Union:
		out := b6.Union{}
		for _, sub := range q {
			if f, ok := FlattenQuery(sub).(b6.Union); ok {
				out = append(out, f...)
			} else {
				out = append(out, FlattenQuery(sub))
			}
		}
		return out
	case b6.Typed:
		return b6.Typed{Type: q.Type, Query: FlattenQuery(q.Query)}
	}
	return q
}

// OutcomeFlat is Outcome with query values flattened (at any depth inside pairs).
func OutcomeFlat(e b6.Expression) (ans string) {
	defer func() {
		if r := recover(); r != nil {
			ans = "panic"
		}
	}()
	v, err := api.Evaluate(e, NewContext())
	if err != nil {
		return "err"
	}
	return "val " + strings.Join(valueToks(flattenValue(v), nil), " ")
}

func flattenValue(v interface{}) interface{} {
	switch x := v.(type) {
	case api.Callable:
		return v
	case api.Pair:
		return api.AnyAnyPair{flattenValue(x.First()), flattenValue(x.Second())}
	case b6.Query:
		return FlattenQuery(x)
	}
	return v
}

// Outcome evaluates with the real VM and renders "val <v>" | "err" | "panic".
func Outcome(e b6.Expression) (ans string) {
	defer func() {
		if r := recover(); r != nil {
			ans = "panic"
		}
	}()
	v, err := api.Evaluate(e, NewContext())
	if err != nil {
		return "err"
	}
	return "val " + strings.Join(valueToks(v, nil), " ")
}

// Dump is the compiled instruction list "[i i i]" or "err" / "panic".
func Dump(e b6.Expression) (ans string) {
	defer func() {
		if r := recover(); r != nil {
			ans = "panic"
		}
	}()
	d, err := api.VerifCompileDump(e, Functions())
	if err != nil {
		return "err"
	}
	return "[" + strings.Join(d, " ") + "]"
}
