package lang

import (
	"fmt"

	"verifharness/hx"
)

// ---- types of the little language (generation only; the VM is dynamically typed) ---------------

type TK int

const (
	TInt TK = iota
	TStr
	TQuery
	TPair
	TFn
	TColl // the value of (collection …): only with Gen.Variadic
)

type Ty struct {
	K    TK
	A, B *Ty   // pair components
	Args []*Ty // function parameters, in call order
	Ret  *Ty
}

var (
	tInt   = &Ty{K: TInt}
	tStr   = &Ty{K: TStr}
	tQuery = &Ty{K: TQuery}
	tColl  = &Ty{K: TColl}
)

func pairTy(a, b *Ty) *Ty           { return &Ty{K: TPair, A: a, B: b} }
func fnTy(ret *Ty, args ...*Ty) *Ty { return &Ty{K: TFn, Args: args, Ret: ret} }

func (t *Ty) eq(u *Ty) bool {
	if t.K != u.K {
		return false
	}
	switch t.K {
	case TPair:
		return t.A.eq(u.A) && t.B.eq(u.B)
	case TFn:
		if len(t.Args) != len(u.Args) || !t.Ret.eq(u.Ret) {
			return false
		}
		for i := range t.Args {
			if !t.Args[i].eq(u.Args[i]) {
				return false
			}
		}
	}
	return true
}

type binding struct {
	name string
	ty   *Ty
}

// Gen generates programs type-directed from the builtin signatures.
type Gen struct {
	R        *hx.Rand
	Budget   int  // remaining nodes
	Queries  bool // allow strings / queries / query builders (C22)
	Variadic bool // allow the variadic functions collection / call (C22; outside the C21 models)
	env      []binding
	Feat     map[string]bool // features used, for the histogram
	names    int
}

var paramNames = []string{"a", "b", "c", "x", "y", "f", "g", "p"}
var shadowNames = []string{"add", "first", "pair", "call1", "keyed"}

func (g *Gen) feat(s string) {
	if g.Feat == nil {
		g.Feat = map[string]bool{}
	}
	g.Feat[s] = true
}

func (g *Gen) freshParams(n int) []string {
	ps := make([]string, n)
	for i := range ps {
		switch {
		case g.R.Chance(1, 25):
			ps[i] = g.R.Pick(shadowNames) // shadows a global function (value position only)
			g.feat("shadow-global")
		case len(g.env) > 0 && g.R.Chance(1, 5):
			ps[i] = g.env[g.R.Intn(len(g.env))].name // shadows an enclosing parameter
		case g.R.Chance(1, 3):
			ps[i] = g.R.Pick(paramNames) // may shadow an enclosing parameter
		default:
			g.names++
			ps[i] = fmt.Sprintf("v%d", g.names)
		}
		for j := 0; j < i; j++ { // distinct within one lambda
			if ps[j] == ps[i] {
				g.names++
				ps[i] = fmt.Sprintf("v%d", g.names)
			}
		}
	}
	return ps
}

func (g *Gen) randTy(depth int) *Ty {
	k := g.R.Intn(100)
	switch {
	case depth <= 0 || k < 55:
		if g.Variadic && g.R.Chance(1, 10) {
			return tColl
		}
		if g.Queries && g.R.Chance(1, 4) {
			if g.R.Bool() {
				return tStr
			}
			return tQuery
		}
		return tInt
	case k < 72:
		return pairTy(g.randTy(depth-1), g.randTy(depth-1))
	default:
		n := g.R.Intn(4)
		args := make([]*Ty, n)
		for i := range args {
			args[i] = g.randTy(depth - 1)
		}
		return fnTy(g.randTy(depth-1), args...)
	}
}

// visible returns the innermost binding of each visible name that has type t.
func (g *Gen) vars(t *Ty) []string {
	var out []string
	seen := map[string]bool{}
	for i := len(g.env) - 1; i >= 0; i-- {
		b := g.env[i]
		if seen[b.name] {
			continue
		}
		seen[b.name] = true
		if b.ty.eq(t) {
			out = append(out, b.name)
		}
	}
	return out
}

func (g *Gen) isParam(name string) bool {
	for _, b := range g.env {
		if b.name == name {
			return true
		}
	}
	return false
}

func (g *Gen) intLit() *Node {
	switch g.R.Intn(12) {
	case 0:
		return I(0)
	case 1:
		return I(-1)
	case 2:
		edges := []int{1<<63 - 1, -1 << 63, 1 << 31, -(1 << 31), 1<<62 + 1}
		return I(edges[g.R.Intn(len(edges))])
	default:
		return I(g.R.Intn(21) - 4)
	}
}

var strPool = []string{"", "a", "b", "name", "#amenity", "cafe", "highway", "point", "area", "path"}

func (g *Gen) query(depth int) *Q {
	switch k := g.R.Intn(8); {
	case depth <= 0 || k < 3:
		if g.R.Bool() {
			return &Q{Op: "keyed", A: g.R.Pick(strPool)}
		}
		return &Q{Op: "tagged", A: g.R.Pick(strPool), B: g.R.Pick(strPool)}
	case k < 4:
		return &Q{Op: "typed", A: g.R.Pick([]string{"point", "path", "area", "relation"}), Qs: []*Q{g.query(depth - 1)}}
	default:
		op := "and"
		if g.R.Bool() {
			op = "or"
		}
		n := g.R.Intn(4)
		qs := make([]*Q, n)
		for i := range qs {
			qs[i] = g.query(depth - 1)
		}
		return &Q{Op: op, Qs: qs}
	}
}

// builtinsOfType lists global function symbols whose (instantiated) signature is exactly t.
func (g *Gen) builtinsOfType(t *Ty) (out []string) {
	if t.K != TFn {
		return nil
	}
	defer func() { // a name shadowed by a parameter does not denote the global in value position
		kept := out[:0]
		for _, n := range out {
			if !g.isParam(n) {
				kept = append(kept, n)
			}
		}
		out = kept
	}()
	allInt := func(ts []*Ty) bool {
		for _, a := range ts {
			if a.K != TInt {
				return false
			}
		}
		return true
	}
	switch len(t.Args) {
	case 0:
		if t.Ret.K == TInt {
			out = append(out, "zero")
		}
	case 1:
		a := t.Args[0]
		if a.K == TPair && a.A.eq(t.Ret) {
			out = append(out, "first")
		}
		if a.K == TPair && a.B.eq(t.Ret) {
			out = append(out, "second")
		}
		if g.Queries && a.K == TStr && t.Ret.K == TQuery {
			out = append(out, "keyed")
		}
	case 2:
		if allInt(t.Args) && t.Ret.K == TInt {
			out = append(out, "add", "sub", "div")
		}
		if t.Ret.K == TPair && t.Ret.A.eq(t.Args[0]) && t.Ret.B.eq(t.Args[1]) {
			out = append(out, "pair")
		}
		if f := t.Args[0]; f.K == TFn && len(f.Args) == 1 && f.Args[0].eq(t.Args[1]) && f.Ret.eq(t.Ret) {
			out = append(out, "call1")
		}
		if g.Queries && t.Args[0].K == TQuery && t.Args[1].K == TQuery && t.Ret.K == TQuery {
			out = append(out, "and", "or")
		}
		if g.Queries && t.Args[0].K == TStr && t.Args[1].K == TStr && t.Ret.K == TQuery {
			out = append(out, "tagged")
		}
	case 3:
		if allInt(t.Args) && t.Ret.K == TInt {
			out = append(out, "mix")
		}
	}
	return out
}

// Expr generates an expression of type t.
func (g *Gen) Expr(t *Ty, depth int) *Node {
	g.Budget--
	small := g.Budget <= 0 || depth <= 0
	vs := g.vars(t)
	if len(vs) > 0 && g.R.Chance(1, 3) || small && len(vs) > 0 && g.R.Chance(2, 3) {
		g.feat("var")
		return S(g.R.Pick(vs))
	}
	if small {
		return g.terminal(t)
	}
	// application forms work for every type; introduction forms are type specific
	if g.R.Chance(2, 5) {
		return g.intro(t, depth)
	}
	return g.app(t, depth)
}

func (g *Gen) terminal(t *Ty) *Node {
	switch t.K {
	case TInt:
		return g.intLit()
	case TStr:
		return St(g.R.Pick(strPool))
	case TQuery:
		return QL(g.query(1))
	case TPair:
		return C(S("pair"), g.terminal(t.A), g.terminal(t.B))
	case TColl:
		return g.collection(0)
	default:
		if bs := g.builtinsOfType(t); len(bs) > 0 && g.R.Bool() {
			return S(g.R.Pick(bs))
		}
		ps := g.freshParams(len(t.Args))
		save := g.env
		for i, p := range ps {
			g.env = append(g.env, binding{p, t.Args[i]})
		}
		var body *Node
		if vs := g.vars(t.Ret); len(vs) > 0 && g.R.Chance(2, 3) {
			body = S(g.R.Pick(vs))
		} else {
			body = g.terminal(t.Ret)
		}
		g.env = save
		g.feat("lambda")
		return L(ps, body)
	}
}

func (g *Gen) intro(t *Ty, depth int) *Node {
	switch t.K {
	case TInt:
		switch g.R.Intn(5) {
		case 0:
			if g.R.Chance(1, 4) {
				g.feat("zero")
				return C(S("zero")) // a complete call without arguments
			}
			return g.intLit()
		case 1:
			return C(S("mix"), g.Expr(tInt, depth-1), g.Expr(tInt, depth-1), g.Expr(tInt, depth-1))
		default:
			return g.pipe(C(S(g.R.Pick([]string{"add", "sub", "sub", "div"})), g.Expr(tInt, depth-1), g.Expr(tInt, depth-1)))
		}
	case TStr:
		return St(g.R.Pick(strPool))
	case TQuery:
		switch g.R.Intn(6) {
		case 0:
			return QL(g.query(2))
		case 1:
			return C(S("keyed"), g.Expr(tStr, depth-1))
		case 2:
			return C(S("tagged"), g.Expr(tStr, depth-1), g.Expr(tStr, depth-1))
		case 3:
			return C(S("typed"), St(g.R.Pick([]string{"point", "path", "area", "relation", "bogus"})), g.Expr(tQuery, depth-1))
		default:
			return g.pipe(C(S(g.R.Pick([]string{"and", "or"})), g.Expr(tQuery, depth-1), g.Expr(tQuery, depth-1)))
		}
	case TPair:
		return C(S("pair"), g.Expr(t.A, depth-1), g.Expr(t.B, depth-1))
	case TColl:
		return g.collection(depth)
	default:
		return g.fnIntro(t, depth)
	}
}

// collection: (collection p…) with 0..3 pair arguments — half of them with none, the complete call of a
// variadic function without arguments.  Keys and values are ints (query values inside a collection
// would not be flattened by the outcome rendering).
func (g *Gen) collection(depth int) *Node {
	n := 0
	if depth > 0 && g.R.Bool() {
		n = 1 + g.R.Intn(3)
	}
	args := make([]*Node, n)
	for i := range args {
		args[i] = g.Expr(pairTy(tInt, tInt), depth-1)
	}
	g.feat("collection")
	g.feat(fmt.Sprintf("collection-args:%d", n))
	return C(S("collection"), args...)
}

func (g *Gen) pipe(n *Node) *Node {
	if len(n.Args) > 0 && g.R.Chance(1, 6) {
		n.Pipelined = true
		g.feat("pipelined")
	}
	return n
}

// fnIntro: a lambda, a global function, a zero-argument call of one, or a partial application.
func (g *Gen) fnIntro(t *Ty, depth int) *Node {
	bs := g.builtinsOfType(t)
	k := g.R.Intn(10)
	switch {
	case len(bs) > 0 && k < 2:
		g.feat("fn-symbol")
		return S(g.R.Pick(bs))
	case len(bs) > 0 && k < 3 && len(t.Args) > 0:
		g.feat("noarg-call")
		return C(S(g.R.Pick(bs))) // (add): a call with no arguments of a function that wants some
	case k < 5 && len(t.Args) < 3:
		// partial application: a function of more parameters applied to the trailing ones
		extra := 1 + g.R.Intn(3-len(t.Args))
		all := append([]*Ty{}, t.Args...)
		var trailing []*Ty
		for i := 0; i < extra; i++ {
			a := g.randTy(1)
			all = append(all, a)
			trailing = append(trailing, a)
		}
		f := g.Expr(fnTy(t.Ret, all...), depth-1)
		args := make([]*Node, extra)
		for i := range args {
			args[i] = g.Expr(trailing[i], depth-1)
		}
		g.feat("partial")
		return g.pipe(g.applyTo(f, args))
	default:
		ps := g.freshParams(len(t.Args))
		save := g.env
		for i, p := range ps {
			for _, b := range save {
				if b.name == p {
					g.feat("shadow-param")
				}
			}
			g.env = append(g.env, binding{p, t.Args[i]})
		}
		body := g.Expr(t.Ret, depth-1)
		g.env = save
		g.feat("lambda")
		if len(save) > 0 {
			g.feat("nested-lambda")
		}
		return L(ps, body)
	}
}

// applyTo builds the call of function expression f with args, respecting that only a global symbol,
// a lambda literal or a call may stand in function position.
func (g *Gen) applyTo(f *Node, args []*Node) *Node {
	direct := f.Kind == Lam || f.Kind == Call || (f.Kind == Sym && !g.isParam(f.Name))
	if g.Variadic && !g.isParam("call") && g.R.Chance(1, 8) { // the variadic call f args…, with 0..n args
		g.feat("call-variadic")
		g.feat(fmt.Sprintf("call-variadic-args:%d", len(args)))
		return C(S("call"), append([]*Node{f}, args...)...)
	}
	if direct && !g.R.Chance(1, 8) {
		switch f.Kind {
		case Lam:
			g.feat("call-lambda-literal")
		case Call:
			g.feat("call-call")
		}
		return C(f, args...)
	}
	switch len(args) {
	case 0:
		g.feat("force")
		return C(S("force"), f)
	case 1:
		g.feat("call1")
		return C(S("call1"), f, args[0])
	case 2:
		g.feat("call2")
		return C(S("call2"), f, args[0], args[1])
	default: // bind the trailing argument first, then the rest
		g.feat("call1")
		last := args[len(args)-1]
		return g.applyTo(C(S("call1"), f, last), args[:len(args)-1])
	}
}

// app: an elimination form producing a value of type t.
func (g *Gen) app(t *Ty, depth int) *Node {
	switch g.R.Intn(9) {
	case 0:
		other := g.randTy(1)
		if g.R.Bool() {
			return g.pipe(C(S("first"), g.Expr(pairTy(t, other), depth-1)))
		}
		return g.pipe(C(S("second"), g.Expr(pairTy(other, t), depth-1)))
	case 1:
		if t.K != TFn { // apply goes through the function adaptors, whose argument must be a literal kind
			g.feat("apply")
			return C(S("apply"), g.Expr(fnTy(t, tInt), depth-1), g.Expr(tInt, depth-1))
		}
		fallthrough
	case 2:
		g.feat("force")
		return C(S("force"), g.Expr(fnTy(t), depth-1))
	case 3, 4:
		// split application: ((f trailing…) leading…)
		n := 2 + g.R.Intn(2)
		as := make([]*Ty, n)
		for i := range as {
			as[i] = g.randTy(1)
		}
		f := g.Expr(fnTy(t, as...), depth-1)
		args := make([]*Node, n)
		for i := range args {
			args[i] = g.Expr(as[i], depth-1)
		}
		cut := 1 + g.R.Intn(n-1)
		g.feat("partial")
		inner := g.applyTo(f, args[cut:])
		if g.R.Chance(1, 4) && cut >= 2 { // three levels
			g.feat("partial-twice")
			return g.applyTo(g.applyTo(inner, args[cut-1:cut]), args[:cut-1])
		}
		return g.pipe(g.applyTo(inner, args[:cut]))
	default:
		n := g.R.Intn(4)
		as := make([]*Ty, n)
		for i := range as {
			as[i] = g.randTy(1)
		}
		f := g.Expr(fnTy(t, as...), depth-1)
		args := make([]*Node, n)
		for i := range args {
			args[i] = g.Expr(as[i], depth-1)
		}
		return g.pipe(g.applyTo(f, args))
	}
}

// Program generates one closed, well-typed program.
func (g *Gen) Program() *Node {
	g.env = nil
	t := g.randTy(2)
	return g.Expr(t, 3+g.R.Intn(3))
}

// ---- the error stream: one small edit of a well-typed program ---------------------------------

// Mutate applies one edit that typically produces an arity or type error, an unbound symbol or a
// literal in function position. It returns the kind of edit. Replacement terms are closed and
// first-order apart from `add` and the identity lambda, so no edit can introduce self-application.
func Mutate(r *hx.Rand, root **Node) string {
	var slots []**Node
	Walk(root, func(s **Node) { slots = append(slots, s) })
	var calls []**Node
	for _, s := range slots {
		if (*s).Kind == Call {
			calls = append(calls, s)
		}
	}
	kind := r.Intn(8)
	if len(calls) == 0 && kind >= 3 {
		kind = r.Intn(3)
	}
	switch kind {
	case 0, 1, 2:
		s := slots[r.Intn(len(slots))]
		reps := []*Node{I(7), C(S("pair"), I(1), I(2)), S("add"), L([]string{"z"}, S("z")), St("k")}
		*s = reps[r.Intn(len(reps))].Clone()
		return "replace"
	case 3:
		c := *calls[r.Intn(len(calls))]
		if len(c.Args) > 0 {
			c.Args = c.Args[:len(c.Args)-1]
			return "drop-arg"
		}
		c.Args = append(c.Args, I(3))
		return "add-arg"
	case 4:
		c := *calls[r.Intn(len(calls))]
		c.Args = append(c.Args, I(3))
		return "add-arg"
	case 5:
		c := *calls[r.Intn(len(calls))]
		if len(c.Args) >= 2 {
			i, j := r.Intn(len(c.Args)), r.Intn(len(c.Args))
			c.Args[i], c.Args[j] = c.Args[j], c.Args[i]
			return "swap-args"
		}
		c.Args = append(c.Args, I(3))
		return "add-arg"
	case 6:
		s := slots[r.Intn(len(slots))]
		*s = S("unbound")
		return "unbound"
	default:
		c := *calls[r.Intn(len(calls))]
		c.Fn = I(5)
		return "literal-fn"
	}
}

// NoargProgram: a call without arguments of one function of fns — whatever its arity, variadic or not —
// at the root of the program, as an argument, under a first/pair round trip, in a lambda body or passed
// to a lambda; optionally called again with arguments.
func NoargProgram(r *hx.Rand, fns []string) (*Node, map[string]bool) {
	f := fns[r.Intn(len(fns))]
	feat := map[string]bool{"noarg-any": true, "noarg:" + f: true}
	inner := C(S(f))
	if r.Chance(1, 6) {
		inner = C(inner) // ((f))
		feat["noarg-twice"] = true
	}
	k := I(r.Intn(9))
	switch r.Intn(7) {
	case 0:
		feat["noarg-pos:root"] = true
		return inner, feat
	case 1:
		feat["noarg-pos:arg"] = true
		return C(S("pair"), inner, k), feat
	case 2:
		feat["noarg-pos:arg"] = true
		return C(S("first"), C(S("pair"), inner, k)), feat
	case 3:
		feat["noarg-pos:lambda-body"] = true
		feat["lambda"] = true
		return C(L([]string{"x"}, C(S("pair"), S("x"), inner)), k), feat
	case 4:
		feat["noarg-pos:lambda-arg"] = true
		feat["lambda"] = true
		return C(L([]string{"x"}, C(S("pair"), S("x"), k)), inner), feat
	case 5:
		feat["noarg-pos:called"] = true
		return C(inner, I(r.Intn(9)), I(r.Intn(9))), feat
	default:
		feat["noarg-pos:call1"] = true
		feat["lambda"] = true
		return C(S("call1"), L([]string{"x"}, S("x")), inner), feat
	}
}
