package lang

import (
	"bufio"
	"fmt"
	"os"
	"os/exec"
	"strings"
	"time"
)

// A persistent child process evaluates every program, so that a fatal error (Go stack overflow) or a
// hang in the code under test costs one answer ("crash" / "hang"), not the run.

const workerEnv = "B6_LANG_WORKER"

// ServeIfWorker turns this process into a worker when it was started as one: one request line in,
// one answer line out.
func ServeIfWorker(handle func(req string) string) bool {
	if os.Getenv(workerEnv) == "" {
		return false
	}
	in := bufio.NewReaderSize(os.Stdin, 1<<20)
	out := bufio.NewWriter(os.Stdout)
	for {
		line, err := in.ReadString('\n')
		if err != nil {
			return true
		}
		ans := handle(strings.TrimRight(line, "\n"))
		fmt.Fprintln(out, strings.ReplaceAll(ans, "\n", " "))
		out.Flush()
	}
}

type Worker struct {
	Timeout time.Duration
	cmd     *exec.Cmd
	in      *bufio.Writer
	lines   chan string
	Crashes int
	Hangs   int
}

func (w *Worker) start() error {
	self, err := os.Executable()
	if err != nil {
		return err
	}
	w.cmd = exec.Command(self)
	w.cmd.Env = append(os.Environ(), workerEnv+"=1", "GOMEMLIMIT=2GiB")
	stdin, err := w.cmd.StdinPipe()
	if err != nil {
		return err
	}
	stdout, err := w.cmd.StdoutPipe()
	if err != nil {
		return err
	}
	if err := w.cmd.Start(); err != nil {
		return err
	}
	w.in = bufio.NewWriter(stdin)
	lines := make(chan string, 1)
	w.lines = lines
	go func() {
		r := bufio.NewReaderSize(stdout, 1<<20)
		for {
			line, err := r.ReadString('\n')
			if err != nil {
				close(lines)
				return
			}
			lines <- strings.TrimRight(line, "\n")
		}
	}()
	return nil
}

func (w *Worker) stop() {
	if w.cmd != nil {
		w.cmd.Process.Kill()
		w.cmd.Wait()
		w.cmd = nil
	}
}

// Close ends the worker.
func (w *Worker) Close() { w.stop() }

// Ask sends one request and returns the worker's answer, "crash" if it died, "hang" on timeout.
func (w *Worker) Ask(req string) string {
	if w.cmd == nil {
		if err := w.start(); err != nil {
			return "crash"
		}
	}
	if w.Timeout == 0 {
		w.Timeout = 20 * time.Second
	}
	fmt.Fprintln(w.in, req)
	if err := w.in.Flush(); err != nil {
		w.stop()
		w.Crashes++
		return "crash"
	}
	select {
	case line, ok := <-w.lines:
		if !ok {
			w.stop()
			w.Crashes++
			return "crash"
		}
		return line
	case <-time.After(w.Timeout):
		w.stop()
		w.Hangs++
		return "hang"
	}
}
