// C36 harness: one generated source built with 1..16 goroutines, as the in-memory world
// (ingest.NewWorldFromSource, Cores = g) and as a compact index (compact.BuildInMemory, Goroutines = g),
// from an ingest.MemoryFeatureSource whose Read hands the features to g goroutines.  The full
// observation dump of the 1-goroutine build is written out (`obs …`, checked against the model by the
// driver); every other build contributes the FNV-1a hash of its dump (`par … g=K`), which the driver
// compares with the hash it computes over the `obs` lines: the property predicate is "every dump equals
// the 1-goroutine dump".
//
// Every compact build runs in its own child process (see wd.Spawn): compact.Build allocates 79 MB per
// goroutine and pass, which is only cheap in a fresh address space.
package main

import (
	"fmt"
	"os"
	"strconv"
	"strings"
	"time"

	"diagonal.works/b6"
	"diagonal.works/b6/ingest"
	"diagonal.works/b6/osm"
	"verifharness/cmd/c02/wd"
	"verifharness/hx"
)

// source regenerates the feature list of case `no` (the same in the parent and in every child).
//
// One case in three (and the second corpus case) is a PBF-file case: the input is written with osm.Writer in
// blocks of 1-4 elements and both worlds are built from the file (ingest.PBFFilesOSMSource, whose reader
// decodes blobs on g goroutines, so that ways, relations and nodes arrive in varying order). `pbf` is then the
// file name (to be removed by the caller) and the features are those of the file read back.
func source(seed uint64, no int, thorough bool) (fs []ingest.Feature, shape []string, pbf string, reuse int, err error) {
	var in *wd.Input
	r := wd.CaseRand(seed, no)
	if no >= 1000000 {
		in = corpus()
	} else {
		in = wd.Generate(r, thorough && r.Chance(1, 8))
	}
	shape = append([]string(nil), in.Shape...)
	if no == 1000001 || (no < 1000000 && r.Chance(1, 3)) {
		pbf, err = wd.WritePBF(in, 1+r.Intn(4))
		if err != nil {
			return nil, nil, pbf, 0, err
		}
		back, err := wd.ReadBackPBF(pbf)
		if err != nil {
			return nil, nil, pbf, 0, err
		}
		fs, err = back.Features()
		return fs, append(shape, "source:pbf-file"), pbf, 0, err
	}
	// half of the remaining cases (and the third corpus input) read from a source that reuses one value per
	// kind and goroutine, as ingest/osm.go does: 1 = contiguous chunks per goroutine, 2 = interleaved
	if no == 1000002 {
		reuse = 1
	} else if no < 1000000 && r.Bool() {
		reuse = 1 + r.Intn(2)
	}
	if reuse > 0 {
		shape = append(shape, fmt.Sprintf("source:reusing-%d", reuse))
	} else {
		shape = append(shape, "source:memory")
	}
	fs, err = in.Features()
	if err != nil {
		return nil, nil, "", 0, err
	}
	// features an OSM source cannot produce: an area over an open (valid) path, an area over a path
	// that does not exist
	if no < 1000000 && r.Chance(1, 3) {
		for _, f := range fs {
			if f.FeatureID().Type == b6.FeatureTypePath && !f.AllTags().ClosedPath() && r.Chance(1, 2) {
				a := ingest.NewAreaFeature(1)
				a.AreaID = b6.AreaID{Namespace: b6.NamespaceOSMWay, Value: f.FeatureID().Value}
				a.SetPathIDs(0, []b6.FeatureID{f.FeatureID()})
				a.Tags = b6.Tags{{Key: "#landuse", Value: b6.NewStringExpression("open")}}
				fs = append(fs, a)
				shape = append(shape, "extra:area-over-open-path")
				break
			}
		}
		if r.Chance(1, 3) {
			a := ingest.NewAreaFeature(1)
			a.AreaID = b6.AreaID{Namespace: b6.NamespaceOSMWay, Value: 45}
			a.SetPathIDs(0, []b6.FeatureID{{Type: b6.FeatureTypePath, Namespace: b6.NamespaceOSMWay, Value: 45}})
			fs = append(fs, a)
			shape = append(shape, "extra:area-over-absent-path")
		}
	}
	// arrival order of a 1-goroutine read: as emitted / areas first (so that the validator has to queue
	// them) / shuffled
	order := r.Intn(3)
	if no == 1000002 || (reuse > 0 && r.Bool()) {
		order = 1 // a reusing source is most telling when areas come before their paths
	}
	switch order {
	case 0:
		shape = append(shape, "order:source")
	case 1:
		var areas, rest []ingest.Feature
		for _, f := range fs {
			if f.FeatureID().Type == b6.FeatureTypeArea {
				areas = append(areas, f)
			} else {
				rest = append(rest, f)
			}
		}
		fs = append(areas, rest...)
		shape = append(shape, "order:areas-first")
	default:
		p := r.Perm(len(fs))
		out := make([]ingest.Feature, len(fs))
		for i, j := range p {
			out[i] = fs[j]
		}
		fs = out
		shape = append(shape, "order:shuffled")
	}
	return fs, shape, "", reuse, nil
}

func corpus() *wd.Input {
	n := func(id int, lat, lng float64, tags ...osm.Tag) osm.Node {
		return osm.Node{ID: osm.NodeID(id), Location: osm.LatLng{Lat: lat, Lng: lng}, Tags: tags}
	}
	w := func(id int, nodes []int, tags ...osm.Tag) osm.Way {
		ns := make([]osm.NodeID, len(nodes))
		for i, x := range nodes {
			ns[i] = osm.NodeID(x)
		}
		return osm.Way{ID: osm.WayID(id), Nodes: ns, Tags: tags}
	}
	return &wd.Input{
		Nodes: []osm.Node{n(1, 51.500, -0.120), n(2, 51.500, -0.118), n(3, 51.502, -0.118), n(4, 51.502, -0.120), n(5, 51.498, -0.122, osm.Tag{Key: "barrier", Value: "gate"}), n(6, 51.504, -0.116)},
		Ways: []osm.Way{w(10, []int{1, 2, 3, 4, 1}, osm.Tag{Key: "building", Value: "yes"}), w(11, []int{4, 3, 2, 1, 4}), w(12, []int{5, 1, 6}, osm.Tag{Key: "highway", Value: "path"}), w(13, []int{1, 2, 9, 1})},
		Relations: []osm.Relation{
			{ID: 50, Members: []osm.Member{{Type: osm.ElementTypeWay, ID: 10, Role: "outer"}, {Type: osm.ElementTypeWay, ID: 11, Role: "inner"}}, Tags: []osm.Tag{{Key: "type", Value: "multipolygon"}}},
			{ID: 51, Members: []osm.Member{{Type: osm.ElementTypeWay, ID: 12}, {Type: osm.ElementTypeNode, ID: 5}}, Tags: []osm.Tag{{Key: "type", Value: "route"}}},
		}}
}

// goroutine counts of the compact builds of a case besides 1 (the in-memory world is built with all of 2..16)
func compactGs(seed uint64, no int, thorough bool) []int {
	if no == 1000001 || no == 1000002 {
		return []int{2, 3, 5, 8, 16}
	}
	if no >= 1000000 {
		gs := make([]int, 15)
		for i := range gs {
			gs[i] = i + 2
		}
		return gs
	}
	r := wd.CaseRand(seed^0x5bd1e995, no)
	n := 2
	seen := map[int]bool{}
	var gs []int
	if thorough {
		n = 4
		seen[16] = true
		gs = append(gs, 16)
	}
	for i := 0; i < n; i++ {
		g := 2 + r.Intn(15)
		if !seen[g] {
			seen[g] = true
			gs = append(gs, g)
		}
	}
	return gs
}

func parseArg(arg string) (seed uint64, thorough bool, no int, rest []string) {
	f := strings.Fields(arg)
	seed, _ = strconv.ParseUint(f[0], 10, 64)
	thorough = f[1] == "thorough"
	no, _ = strconv.Atoi(f[2])
	return seed, thorough, no, f[3:]
}

// basicChild: source lines, the full dump of the 1-goroutine builds' in-memory world, and the hashes of
// the in-memory worlds built with 2..16 goroutines.
func basicChild(arg string) string {
	seed, thorough, no, _ := parseArg(arg)
	var t wd.Transcript
	fs, shape, pbf, reuse, err := source(seed, no, thorough)
	if pbf != "" {
		defer os.Remove(pbf)
	}
	if err != nil {
		t.Op("build", "features-err")
		return t.String()
	}
	for _, s := range shape {
		t.Note(s)
	}
	for _, l := range wd.SrcLines(fs) {
		t.Op("src "+l, "-")
	}
	t.Op("build", "-")
	probes := wd.Probes(fs)
	types := map[byte]bool{}
	for _, f := range fs {
		types[wd.ID(f.FeatureID())[0]] = true
	}
	for g := 1; g <= 16; g++ {
		var w b6.World
		var err error
		if pbf != "" {
			w, err = wd.BuildBasicFromPBF(pbf, g)
		} else if reuse > 0 {
			w, err = wd.BuildBasicFromReusing(fs, reuse == 2, g)
		} else {
			w, err = wd.BuildBasicFromFeatures(fs, g)
		}
		if err != nil {
			t.Op(fmt.Sprintf("par basic g=%d", g), "err")
			continue
		}
		d := wd.Dump(w, probes, true, wd.TagQueries(fs)...)
		if g == 1 {
			for _, o := range d {
				t.Op("obs basic "+o.Key, o.Val)
			}
		} else {
			t.Op(fmt.Sprintf("par basic g=%d", g), fmt.Sprintf("%016x", wd.Hash(d)))
		}
	}
	t.Note(fmt.Sprintf("features:%d", len(fs)/5*5))
	if len(types) >= 3 {
		t.NonTrivial()
	}
	return t.String()
}

// compactChild: one compact build with g goroutines.
func compactChild(arg string) string {
	seed, thorough, no, rest := parseArg(arg)
	g, _ := strconv.Atoi(rest[0])
	var t wd.Transcript
	fs, _, pbf, reuse, err := source(seed, no, thorough)
	if pbf != "" {
		defer os.Remove(pbf)
	}
	if err != nil {
		return t.String()
	}
	var w b6.World
	if pbf != "" {
		w, err = wd.BuildCompactFromPBF(pbf, g)
	} else if reuse > 0 {
		w, err = wd.BuildCompactFromReusing(fs, reuse == 2, g)
	} else {
		w, err = wd.BuildCompactFromFeatures(fs, g)
	}
	if err != nil {
		t.Op(fmt.Sprintf("par compact g=%d", g), "err")
		return t.String()
	}
	d := wd.Dump(w, wd.Probes(fs), true, wd.TagQueries(fs)...)
	if g == 1 {
		for _, o := range d {
			t.Op("obs compact "+o.Key, o.Val)
		}
	} else {
		t.Op(fmt.Sprintf("par compact g=%d", g), fmt.Sprintf("%016x", wd.Hash(d)))
	}
	t.Note(fmt.Sprintf("compact-g:%d", g))
	return t.String()
}

func main() {
	hx.RegisterChild("c36basic", basicChild)
	hx.RegisterChild("c36compact", compactChild)
	const timeout = 300 * time.Second
	runCase := func(seed uint64, tier string, no int) string {
		arg := fmt.Sprintf("%d %s %d", seed, tier, no)
		var sb strings.Builder
		res := wd.Spawn("c36basic", arg, timeout, 8)
		if res == "crash" || res == "hang" {
			fmt.Fprintf(&sb, "O\tpar basic g=all\t%s\n", res)
		} else {
			sb.WriteString(res)
		}
		for _, g := range append([]int{1}, compactGs(seed, no, tier == "thorough")...) {
			res := wd.Spawn("c36compact", fmt.Sprintf("%s %d", arg, g), timeout, 8)
			if res == "crash" || res == "hang" {
				fmt.Fprintf(&sb, "O\tpar compact g=%d\t%s\n", g, res)
			} else {
				sb.WriteString(res)
			}
		}
		return sb.String()
	}
	blocks := &wd.Blocks{Size: 1, Workers: 5, Ahead: 10,
		Run: func(seed uint64, tier string, first, count int) string {
			out := fmt.Sprintf("CASE\t%d\n", first) + runCase(seed, tier, first)
			if first == 1000000 { // the corpus has a second input: the same features from a PBF file
				out += "O\treset\t-\n" + runCase(seed, tier, 1000001)
				out += "O\treset\t-\n" + runCase(seed, tier, 1000002) // … and from a source that reuses its values
			}
			return out
		}}
	run := func(c *hx.Ctx) {
		wd.Relay(c, blocks.Get(c.Seed, c.Tier, c.CaseNo))
	}
	hx.Main(hx.Family{
		Name:     "c36",
		Rule:     "features of a generated OSM-shaped input (see c02) plus areas over open / absent paths, in source order, areas first or shuffled, read from an ingest.MemoryFeatureSource; one case in three instead written to a PBF file in blocks of 1-4 elements and read by ingest.PBFFilesOSMSource (parallel blob decoding); half of the others read from a harness source that reuses one value per kind and goroutine like ingest/osm.go (contiguous or interleaved shares, areas first half of the time); in-memory world built with 1..16 cores, compact index with 1 and two sampled counts from 2..16 (thorough: 16 and four sampled; corpus: all of 2..16), each compact build in its own process; non-trivial = at least three feature types",
		Quick:    120,
		Thorough: 400,
		Corpus:   run,
		Case:     run,
	})
}
