// C19 harness: random client requests (pb.NodeProto trees with every literal kind and query trees) are sent through
// the real wire format and ExpressionFromProto / Expression.ToProto twice; server-side expressions (including the
// constructors the client cannot produce) go through ToProto / FromProto / ToProto. Everything is printed as
// canonical S-expressions (see lean/B6/Driver/C19.lean); floats by bit pattern.
package main

import (
	"encoding/hex"
	"fmt"
	"math"
	"sort"
	"strings"

	"diagonal.works/b6"
	pb "diagonal.works/b6/proto"
	"github.com/golang/geo/s2"
	"google.golang.org/protobuf/proto"
	"verifharness/hx"
)

// ---------------------------------------------------------------------------------------------
// printing

func xs(s string) string  { return "x" + hex.EncodeToString([]byte(s)) }
func fb(f float64) string { return fmt.Sprintf("f%016x", math.Float64bits(f)) }
func b01(b bool) string {
	if b {
		return "1"
	}
	return "0"
}
func paren(xs ...string) string { return "(" + strings.Join(xs, " ") + ")" }

func pPoints(ps []*pb.PointProto) []string {
	out := make([]string, 0, 2*len(ps))
	for _, p := range ps {
		out = append(out, fmt.Sprint(p.GetLatE7()), fmt.Sprint(p.GetLngE7()))
	}
	return out
}

// rawGeometry switches the canonical form of polygon loops off (used to see whether a second conversion
// changes the orientation or order of the loops, which the canonical form hides)
var rawGeometry = false

// canonLoop rotates a ring to start at its smallest (lat, lng) vertex and walks it towards the smaller of
// the two neighbours: the same vertex cycle in either orientation and from any start prints alike.
func canonLoop(pts [][2]int64) [][2]int64 {
	n := len(pts)
	if n == 0 || rawGeometry {
		return pts
	}
	less := func(a, b [2]int64) bool { return a[0] < b[0] || (a[0] == b[0] && a[1] < b[1]) }
	m := 0
	for i := range pts {
		if less(pts[i], pts[m]) {
			m = i
		}
	}
	next, prev := pts[(m+1)%n], pts[(m+n-1)%n]
	out := make([][2]int64, n)
	for i := 0; i < n; i++ {
		if less(prev, next) {
			out[i] = pts[((m-i)%n+n)%n]
		} else {
			out[i] = pts[(m+i)%n]
		}
	}
	return out
}

// canonPoly prints the loops of a polygon in canonical form, sorted
func canonPoly(loops [][][2]int64) string {
	strs := make([]string, len(loops))
	for i, l := range loops {
		words := []string{"loop"}
		for _, p := range canonLoop(l) {
			words = append(words, fmt.Sprint(p[0]), fmt.Sprint(p[1]))
		}
		strs[i] = paren(words...)
	}
	if !rawGeometry {
		sort.Strings(strs)
	}
	return paren(append([]string{"poly"}, strs...)...)
}

func pMulti(m *pb.MultiPolygonProto) []string {
	out := []string{}
	for _, poly := range m.GetPolygons() {
		loops := [][][2]int64{}
		for _, l := range poly.GetLoops() {
			pts := [][2]int64{}
			for _, p := range l.GetPoints() {
				pts = append(pts, [2]int64{int64(p.GetLatE7()), int64(p.GetLngE7())})
			}
			loops = append(loops, pts)
		}
		out = append(out, canonPoly(loops))
	}
	return out
}

func pID(tag string, id *pb.FeatureIDProto) string {
	return paren(tag, fmt.Sprint(int32(id.GetType())), xs(id.GetNamespace()), fmt.Sprint(id.GetValue()))
}

func pQuery(q *pb.QueryProto) string {
	switch v := q.GetQuery().(type) {
	case nil:
		return "unset"
	case *pb.QueryProto_All:
		return "all"
	case *pb.QueryProto_Empty:
		return "empty"
	case *pb.QueryProto_IsValid:
		return "isvalid"
	case *pb.QueryProto_Keyed:
		return paren("keyed", xs(v.Keyed))
	case *pb.QueryProto_Tagged:
		return paren("tagged", xs(v.Tagged.GetKey()), xs(v.Tagged.GetValue()))
	case *pb.QueryProto_Typed:
		if v.Typed.GetQuery() == nil {
			return paren("typed", fmt.Sprint(int32(v.Typed.GetType())))
		}
		return paren("typed", fmt.Sprint(int32(v.Typed.GetType())), pQuery(v.Typed.GetQuery()))
	case *pb.QueryProto_Intersection:
		out := []string{"and"}
		for _, c := range v.Intersection.GetQueries() {
			out = append(out, pQuery(c))
		}
		return paren(out...)
	case *pb.QueryProto_Union:
		out := []string{"or"}
		for _, c := range v.Union.GetQueries() {
			out = append(out, pQuery(c))
		}
		return paren(out...)
	case *pb.QueryProto_IntersectsCap:
		return paren("cap", fmt.Sprint(v.IntersectsCap.GetCenter().GetLatE7()), fmt.Sprint(v.IntersectsCap.GetCenter().GetLngE7()), fb(v.IntersectsCap.GetRadiusMeters()))
	case *pb.QueryProto_IntersectsFeature:
		return pID("feat", v.IntersectsFeature)
	case *pb.QueryProto_IntersectsPoint:
		return paren("qpt", fmt.Sprint(v.IntersectsPoint.GetLatE7()), fmt.Sprint(v.IntersectsPoint.GetLngE7()))
	case *pb.QueryProto_IntersectsPolyline:
		return paren(append([]string{"qline"}, pPoints(v.IntersectsPolyline.GetPoints())...)...)
	case *pb.QueryProto_IntersectsMultiPolygon:
		return paren(append([]string{"qarea"}, pMulti(v.IntersectsMultiPolygon)...)...)
	case *pb.QueryProto_IntersectsCells:
		out := []string{"cells"}
		for _, id := range v.IntersectsCells.GetS2CellIDs() {
			out = append(out, fmt.Sprint(id))
		}
		return paren(out...)
	case *pb.QueryProto_MightIntersect:
		out := []string{"might"}
		for _, id := range v.MightIntersect.GetS2CellIDs() {
			out = append(out, fmt.Sprint(id))
		}
		return paren(out...)
	}
	return "unknown-query"
}

func pLit(l *pb.LiteralNodeProto) string {
	switch v := l.GetValue().(type) {
	case nil:
		return "unset"
	case *pb.LiteralNodeProto_NilValue:
		return "nil"
	case *pb.LiteralNodeProto_PairValue:
		return "pair"
	case *pb.LiteralNodeProto_FeatureValue:
		return "feature"
	case *pb.LiteralNodeProto_AppliedChangeValue:
		return "applied"
	case *pb.LiteralNodeProto_BoolValue:
		return paren("bool", b01(v.BoolValue))
	case *pb.LiteralNodeProto_StringValue:
		return paren("str", xs(v.StringValue))
	case *pb.LiteralNodeProto_IntValue:
		return paren("int", fmt.Sprint(v.IntValue))
	case *pb.LiteralNodeProto_FloatValue:
		return paren("float", fb(v.FloatValue))
	case *pb.LiteralNodeProto_CollectionValue:
		ks, vs := v.CollectionValue.GetKeys(), v.CollectionValue.GetValues()
		n := len(ks)
		if len(vs) < n {
			n = len(vs)
		}
		out := []string{"coll", fmt.Sprint(len(ks) - n), fmt.Sprint(len(vs) - n)}
		for i := 0; i < n; i++ {
			out = append(out, paren(pLit(ks[i]), pLit(vs[i])))
		}
		return paren(out...)
	case *pb.LiteralNodeProto_QueryValue:
		return paren("query", pQuery(v.QueryValue))
	case *pb.LiteralNodeProto_FeatureIDValue:
		return pID("id", v.FeatureIDValue)
	case *pb.LiteralNodeProto_PointValue:
		return paren("pt", fmt.Sprint(v.PointValue.GetLatE7()), fmt.Sprint(v.PointValue.GetLngE7()))
	case *pb.LiteralNodeProto_PathValue:
		return paren(append([]string{"path"}, pPoints(v.PathValue.GetPoints())...)...)
	case *pb.LiteralNodeProto_AreaValue:
		return paren(append([]string{"area"}, pMulti(v.AreaValue)...)...)
	case *pb.LiteralNodeProto_GeoJSONValue:
		return paren("geojson", "x")
	case *pb.LiteralNodeProto_TagValue:
		return paren("tag", xs(v.TagValue.GetKey()), xs(v.TagValue.GetValue()))
	case *pb.LiteralNodeProto_RouteValue:
		out := []string{"route", pID("id", v.RouteValue.GetOrigin())}
		for _, s := range v.RouteValue.GetSteps() {
			out = append(out, paren("step", pID("id", s.GetDestination()), pID("id", s.GetVia()), fb(s.GetCost())))
		}
		return paren(out...)
	}
	return "unknown-literal"
}

func pNode(n *pb.NodeProto) string {
	var kind string
	switch v := n.GetNode().(type) {
	case nil:
		kind = "unset"
	case *pb.NodeProto_Symbol:
		kind = paren("sym", xs(v.Symbol))
	case *pb.NodeProto_Literal:
		kind = paren("lit", pLit(v.Literal))
	case *pb.NodeProto_Call:
		out := []string{"call", b01(v.Call.GetPipelined()), pNode(v.Call.GetFunction())}
		for _, a := range v.Call.GetArgs() {
			out = append(out, pNode(a))
		}
		kind = paren(out...)
	case *pb.NodeProto_Lambda_:
		args := make([]string, len(v.Lambda_.GetArgs()))
		for i, a := range v.Lambda_.GetArgs() {
			args[i] = xs(a)
		}
		kind = paren("lam", paren(args...), pNode(v.Lambda_.GetNode()))
	}
	return paren("N", xs(n.GetName()), fmt.Sprint(n.GetBegin()), fmt.Sprint(n.GetEnd()), kind)
}

func e7(p s2.Point) (string, string) {
	ll := s2.LatLngFromPoint(p)
	return fmt.Sprint(ll.Lat.E7()), fmt.Sprint(ll.Lng.E7())
}

func ePoints(ps []s2.Point) []string {
	out := make([]string, 0, 2*len(ps))
	for _, p := range ps {
		a, b := e7(p)
		out = append(out, a, b)
	}
	return out
}

func ePolygons(ps []*s2.Polygon) []string {
	out := []string{}
	for _, p := range ps {
		loops := [][][2]int64{}
		for _, l := range p.Loops() {
			pts := [][2]int64{}
			for _, v := range l.Vertices() {
				ll := s2.LatLngFromPoint(v)
				pts = append(pts, [2]int64{int64(ll.Lat.E7()), int64(ll.Lng.E7())})
			}
			loops = append(loops, pts)
		}
		out = append(out, canonPoly(loops))
	}
	return out
}

func eID(tag string, id b6.FeatureID) string {
	return paren(tag, id.Type.String(), xs(string(id.Namespace)), fmt.Sprint(id.Value))
}

func eTagVal(v b6.Expression) string {
	if s, ok := v.AnyExpression.(b6.StringExpression); ok {
		return paren("s", xs(string(s)))
	}
	return paren("o", xs(v.String()))
}

func eQuery(q b6.Query) string {
	switch v := q.(type) {
	case b6.All:
		return "all"
	case b6.Empty:
		return "empty"
	case b6.IsValid:
		return "isvalid"
	case b6.Keyed:
		return paren("keyed", xs(v.Key))
	case b6.Tagged:
		return paren("tagged", xs(v.Key), eTagVal(v.Value))
	case b6.Typed:
		return paren("typed", v.Type.String(), eQuery(v.Query))
	case b6.Intersection:
		out := []string{"and"}
		for _, c := range v {
			out = append(out, eQuery(c))
		}
		return paren(out...)
	case b6.Union:
		out := []string{"or"}
		for _, c := range v {
			out = append(out, eQuery(c))
		}
		return paren(out...)
	case *b6.IntersectsCap:
		// the cap itself is unexported; its observable content is what ToProto reports
		p, _ := v.ToProto()
		c := p.GetIntersectsCap()
		return paren("cap", fmt.Sprint(c.GetCenter().GetLatE7()), fmt.Sprint(c.GetCenter().GetLngE7()), fb(c.GetRadiusMeters()))
	case b6.IntersectsFeature:
		return eID("feat", v.ID)
	case b6.IntersectsPoint:
		a, b := e7(v.Point)
		return paren("qpt", a, b)
	case b6.IntersectsPolyline:
		return paren(append([]string{"qline"}, ePoints(*v.Polyline)...)...)
	case b6.IntersectsMultiPolygon:
		return paren(append([]string{"qarea"}, ePolygons(v.MultiPolygon)...)...)
	case b6.IntersectsCells:
		out := []string{"cells"}
		for _, c := range v.Cells {
			out = append(out, fmt.Sprint(uint64(c.ID())))
		}
		return paren(out...)
	}
	return fmt.Sprintf("unknown-query-%T", q)
}

func eNative(v interface{}) string {
	if v == nil {
		return "absent"
	}
	if q, ok := v.(b6.Query); ok {
		return paren("query", eQuery(q))
	}
	l, err := b6.FromLiteral(v)
	if err != nil {
		return fmt.Sprintf("bad-native-%T", v)
	}
	return eAny(l.AnyLiteral)
}

func eAny(a b6.AnyExpression) string {
	switch v := a.(type) {
	case nil:
		return "absent"
	case b6.NilExpression:
		return "nil"
	case b6.FeatureExpression:
		return "feature"
	case b6.SymbolExpression:
		return paren("sym", xs(string(v)))
	case b6.IntExpression:
		return paren("int", fmt.Sprint(int(v)))
	case b6.FloatExpression:
		return paren("float", fb(float64(v)))
	case b6.BoolExpression:
		return paren("bool", b01(bool(v)))
	case b6.StringExpression:
		return paren("str", xs(string(v)))
	case b6.FeatureIDExpression:
		return eID("id", b6.FeatureID(v))
	case b6.TagExpression:
		return paren("tag", xs(v.Key), eTagVal(v.Value))
	case b6.PointExpression:
		return paren("pt", fmt.Sprint(s2.LatLng(v).Lat.E7()), fmt.Sprint(s2.LatLng(v).Lng.E7()))
	case b6.PathExpression:
		return paren(append([]string{"path"}, ePoints(*v.Path.Polyline())...)...)
	case b6.AreaExpression:
		return paren(append([]string{"area"}, ePolygons(b6.AreaToS2Polygons(v.Area))...)...)
	case b6.QueryExpression:
		return paren("query", eQuery(v.Query))
	case b6.GeoJSONExpression:
		return paren("geojson", "x")
	case b6.RouteExpression:
		out := []string{"route", eID("id", v.Origin)}
		for _, s := range v.Steps {
			out = append(out, paren("step", eID("id", s.Destination), eID("id", s.Via), fb(s.Cost)))
		}
		return paren(out...)
	case b6.CollectionExpression:
		out := []string{"coll"}
		i := v.UntypedCollection.BeginUntyped()
		for {
			ok, err := i.Next()
			if err != nil || !ok {
				break
			}
			out = append(out, paren(eNative(i.Key()), eNative(i.Value())))
		}
		return paren(out...)
	case b6.CallExpression:
		out := []string{"call", b01(v.Pipelined), eNode(v.Function)}
		for _, a := range v.Args {
			out = append(out, eNode(a))
		}
		return paren(out...)
	case b6.LambdaExpression:
		args := make([]string, len(v.Args))
		for i, a := range v.Args {
			args[i] = xs(a)
		}
		return paren("lam", paren(args...), eNode(v.Expression))
	}
	return fmt.Sprintf("unknown-expression-%T", a)
}

func eNode(e b6.Expression) string {
	return paren("E", xs(e.Name), fmt.Sprint(e.Begin), fmt.Sprint(e.End), eAny(e.AnyExpression))
}

// ---------------------------------------------------------------------------------------------
// generating client requests

var strs = []string{"", "a", "find", "#amenity", "cafe", "@name", "x y", "é", "a\"b", "日本", "\n", "pair", "collection", "0"}
var nss = []string{"openstreetmap.org/node", "openstreetmap.org/way", "a/b/c", "", "diagonal.works/ns/ui"}

type gen struct {
	c *hx.Ctx
	// bad enables shapes the server rejects or crashes on (unknown enum numbers, nil literal, unsupported queries …)
	bad bool
}

func (g *gen) str() string { return g.c.Rand.Pick(strs) }

func (g *gen) enum() pb.FeatureType {
	if g.bad && g.c.Rand.Chance(1, 12) {
		g.c.Note("shape:bad-enum")
		return pb.FeatureType(7 + g.c.Rand.Intn(3))
	}
	return pb.FeatureType(g.c.Rand.Intn(7))
}

func (g *gen) id() *pb.FeatureIDProto {
	return &pb.FeatureIDProto{Type: g.enum(), Namespace: g.c.Rand.Pick(nss), Value: g.c.Rand.Uint64Edge()}
}

func (g *gen) float() float64 {
	r := g.c.Rand
	switch r.Intn(4) {
	case 0:
		return []float64{0, math.Copysign(0, -1), 1, -1, 0.1, math.MaxFloat64, math.SmallestNonzeroFloat64, math.Inf(1), math.Inf(-1), math.NaN(), 1e-7, 123456.789}[r.Intn(12)]
	case 1:
		return math.Float64frombits(r.Uint64())
	default:
		return float64(int64(r.Uint64Edge()>>uint(r.Intn(40)))) / 100
	}
}

func (g *gen) int64() int64 {
	r := g.c.Rand
	if r.Chance(1, 4) {
		return []int64{0, 1, -1, math.MaxInt64, math.MinInt64, math.MaxInt32, math.MinInt32, 1 << 53}[r.Intn(8)]
	}
	return int64(r.Uint64Edge())
}

func (g *gen) pos() int32 {
	r := g.c.Rand
	if r.Chance(1, 10) {
		return []int32{math.MaxInt32, math.MinInt32, -1}[r.Intn(3)]
	}
	return int32(r.Intn(200))
}

// a point anywhere, the poles and the antimeridian included (point literals keep lat/lng)
func (g *gen) anyPoint() *pb.PointProto {
	r := g.c.Rand
	if r.Chance(1, 5) {
		return &pb.PointProto{LatE7: []int32{900000000, -900000000, 0, 515000000}[r.Intn(4)], LngE7: []int32{1800000000, -1800000000, 0, -1000000}[r.Intn(4)]}
	}
	return g.point()
}

// a point for geometry that is held as s2.Point: anywhere, the poles and the antimeridian included
func (g *gen) point() *pb.PointProto {
	r := g.c.Rand
	if r.Chance(1, 6) {
		g.c.Note("geometry:pole-or-antimeridian")
		return &pb.PointProto{LatE7: []int32{900000000, -900000000, 899999999, 10, 0, -899999990}[r.Intn(6)],
			LngE7: []int32{1800000000, -1800000000, 1799999999, 123, -1799999990, 0}[r.Intn(6)]}
	}
	return &pb.PointProto{LatE7: int32(r.Intn(1780000000)) - 890000000, LngE7: int32(r.Intn(3580000000)) - 1790000000}
}

func (g *gen) polyline() *pb.PolylineProto {
	n := 2 + g.c.Rand.Intn(4)
	p := &pb.PolylineProto{LengthMeters: g.float()}
	base := g.point()
	for i := 0; i < n; i++ {
		clamp := func(v, lo, hi int64) int32 {
			if v < lo {
				return int32(lo)
			}
			if v > hi {
				return int32(hi)
			}
			return int32(v)
		}
		p.Points = append(p.Points, &pb.PointProto{
			LatE7: clamp(int64(base.LatE7)+int64(g.c.Rand.Intn(20000))-10000, -900000000, 900000000),
			LngE7: clamp(int64(base.LngE7)+int64(g.c.Rand.Intn(20000))-10000, -1800000000, 1800000000)})
	}
	return p
}

// one loop per polygon: a small convex ring around a centre, either orientation
func (g *gen) multipolygon() *pb.MultiPolygonProto {
	r := g.c.Rand
	m := &pb.MultiPolygonProto{}
	for i := 0; i < 1+r.Intn(2); i++ {
		c := &pb.PointProto{LatE7: int32(r.Intn(1600000000)) - 800000000, LngE7: int32(r.Intn(3400000000)) - 1700000000}
		n := 3 + r.Intn(4)
		loop := &pb.LoopProto{}
		radius := float64(1000 + r.Intn(100000))
		for j := 0; j < n; j++ {
			a := 2 * math.Pi * float64(j) / float64(n)
			loop.Points = append(loop.Points, &pb.PointProto{LatE7: c.LatE7 + int32(radius*math.Sin(a)), LngE7: c.LngE7 + int32(radius*math.Cos(a))})
		}
		reverse := func(l *pb.LoopProto) {
			for a, b := 0, len(l.Points)-1; a < b; a, b = a+1, b-1 {
				l.Points[a], l.Points[b] = l.Points[b], l.Points[a]
			}
		}
		if r.Bool() {
			reverse(loop)
		}
		loops := []*pb.LoopProto{loop}
		if r.Chance(1, 3) {
			// a hole: a smaller ring around the same centre, in either orientation, before or after the shell
			g.c.Note("geometry:polygon-with-hole")
			hole := &pb.LoopProto{}
			hn := 3 + r.Intn(3)
			for j := 0; j < hn; j++ {
				a := 2*math.Pi*float64(j)/float64(hn) + 0.3
				hole.Points = append(hole.Points, &pb.PointProto{LatE7: c.LatE7 + int32(radius/3*math.Sin(a)), LngE7: c.LngE7 + int32(radius/3*math.Cos(a))})
			}
			if r.Bool() {
				reverse(hole)
			}
			if r.Chance(1, 4) {
				loops = []*pb.LoopProto{hole, loop}
			} else {
				loops = append(loops, hole)
			}
		}
		m.Polygons = append(m.Polygons, &pb.PolygonProto{Loops: loops})
	}
	return m
}

// capRadius returns a radius that the meters -> angle -> chord angle -> meters conversion reproduces
func (g *gen) capRadius(center *pb.PointProto) float64 {
	r := float64(1+g.c.Rand.Intn(50000)) + float64(g.c.Rand.Intn(100))/100
	if g.c.Rand.Chance(1, 3) {
		// what a client would type; not necessarily reproduced by the float conversion
		g.c.Note("cap:radius-raw")
		return []float64{500, 1000, 250.5, 100, 1609.344, r}[g.c.Rand.Intn(6)]
	}
	pt := s2.PointFromLatLng(b6.PointProtoToS2LatLng(center))
	for i := 0; i < 20; i++ {
		next := b6.AngleToMeters(s2.CapFromCenterAngle(pt, b6.MetersToAngle(r)).Radius())
		if next == r {
			g.c.Note("cap:radius-fixed-point")
			return r
		}
		r = next
	}
	g.c.Note("cap:radius-no-fixed-point")
	return r
}

func (g *gen) query(depth int) *pb.QueryProto {
	r := g.c.Rand
	k := r.Intn(13)
	if depth <= 0 && (k == 4 || k == 5 || k == 6) {
		k = r.Intn(4)
	}
	if g.bad && r.Chance(1, 6) {
		g.c.Note("shape:unsupported-query")
		switch r.Intn(6) {
		case 0:
			return &pb.QueryProto{Query: &pb.QueryProto_Empty{Empty: &pb.EmptyQueryProto{}}}
		case 1:
			return &pb.QueryProto{Query: &pb.QueryProto_IsValid{IsValid: &pb.IsValidQueryProto{}}}
		case 2:
			return &pb.QueryProto{Query: &pb.QueryProto_IntersectsCells{IntersectsCells: &pb.S2CellIDsProto{S2CellIDs: []uint64{r.Uint64()}}}}
		case 3:
			return &pb.QueryProto{Query: &pb.QueryProto_MightIntersect{MightIntersect: &pb.S2CellIDsProto{S2CellIDs: []uint64{r.Uint64(), 5}}}}
		case 4:
			return &pb.QueryProto{}
		default:
			return &pb.QueryProto{Query: &pb.QueryProto_Typed{Typed: &pb.TypedQueryProto{Type: g.enum()}}}
		}
	}
	g.c.Note(fmt.Sprintf("query-kind:%d", k))
	switch k {
	case 0:
		return &pb.QueryProto{Query: &pb.QueryProto_All{All: &pb.AllQueryProto{}}}
	case 1:
		return &pb.QueryProto{Query: &pb.QueryProto_Keyed{Keyed: g.str()}}
	case 2, 3:
		return &pb.QueryProto{Query: &pb.QueryProto_Tagged{Tagged: &pb.TagProto{Key: g.str(), Value: g.str()}}}
	case 4:
		return &pb.QueryProto{Query: &pb.QueryProto_Typed{Typed: &pb.TypedQueryProto{Type: g.enum(), Query: g.query(depth - 1)}}}
	case 5, 6:
		qs := &pb.QueriesProto{}
		for i := 0; i < r.Intn(4); i++ {
			qs.Queries = append(qs.Queries, g.query(depth-1))
		}
		if k == 5 {
			return &pb.QueryProto{Query: &pb.QueryProto_Intersection{Intersection: qs}}
		}
		return &pb.QueryProto{Query: &pb.QueryProto_Union{Union: qs}}
	case 7:
		c := g.point()
		return &pb.QueryProto{Query: &pb.QueryProto_IntersectsCap{IntersectsCap: &pb.CapProto{Center: c, RadiusMeters: g.capRadius(c)}}}
	case 8:
		return &pb.QueryProto{Query: &pb.QueryProto_IntersectsFeature{IntersectsFeature: g.id()}}
	case 9:
		return &pb.QueryProto{Query: &pb.QueryProto_IntersectsPoint{IntersectsPoint: g.point()}}
	case 10:
		return &pb.QueryProto{Query: &pb.QueryProto_IntersectsPolyline{IntersectsPolyline: g.polyline()}}
	default:
		return &pb.QueryProto{Query: &pb.QueryProto_IntersectsMultiPolygon{IntersectsMultiPolygon: g.multipolygon()}}
	}
}

// literal: inColl restricts to what a collection literal may hold for a stable reply (no query) unless g.bad
func (g *gen) literal(depth int, inColl bool) *pb.LiteralNodeProto {
	r := g.c.Rand
	if g.bad && r.Chance(1, 8) {
		g.c.Note("shape:unsupported-literal")
		switch r.Intn(6) {
		case 0:
			return &pb.LiteralNodeProto{Value: &pb.LiteralNodeProto_NilValue{NilValue: true}}
		case 1:
			return &pb.LiteralNodeProto{}
		case 2:
			return &pb.LiteralNodeProto{Value: &pb.LiteralNodeProto_PairValue{PairValue: &pb.PairProto{}}}
		case 3:
			return &pb.LiteralNodeProto{Value: &pb.LiteralNodeProto_FeatureValue{FeatureValue: &pb.FeatureProto{}}}
		case 4:
			return &pb.LiteralNodeProto{Value: &pb.LiteralNodeProto_AppliedChangeValue{AppliedChangeValue: &pb.AppliedChangeProto{}}}
		default:
			return &pb.LiteralNodeProto{Value: &pb.LiteralNodeProto_GeoJSONValue{GeoJSONValue: []byte{1, 2}}}
		}
	}
	k := r.Intn(13)
	if depth <= 0 && k == 11 {
		k = r.Intn(5)
	}
	if inColl && k == 10 && !g.bad {
		k = 0
	}
	g.c.Note(fmt.Sprintf("literal-kind:%d", k))
	switch k {
	case 0:
		return &pb.LiteralNodeProto{Value: &pb.LiteralNodeProto_IntValue{IntValue: g.int64()}}
	case 1:
		return &pb.LiteralNodeProto{Value: &pb.LiteralNodeProto_FloatValue{FloatValue: g.float()}}
	case 2:
		return &pb.LiteralNodeProto{Value: &pb.LiteralNodeProto_StringValue{StringValue: g.str()}}
	case 3:
		return &pb.LiteralNodeProto{Value: &pb.LiteralNodeProto_BoolValue{BoolValue: r.Bool()}}
	case 4:
		return &pb.LiteralNodeProto{Value: &pb.LiteralNodeProto_FeatureIDValue{FeatureIDValue: g.id()}}
	case 5:
		return &pb.LiteralNodeProto{Value: &pb.LiteralNodeProto_TagValue{TagValue: &pb.TagProto{Key: g.str(), Value: g.str()}}}
	case 6:
		return &pb.LiteralNodeProto{Value: &pb.LiteralNodeProto_PointValue{PointValue: g.anyPoint()}}
	case 7:
		return &pb.LiteralNodeProto{Value: &pb.LiteralNodeProto_PathValue{PathValue: g.polyline()}}
	case 8:
		return &pb.LiteralNodeProto{Value: &pb.LiteralNodeProto_AreaValue{AreaValue: g.multipolygon()}}
	case 9:
		route := &pb.RouteProto{Origin: g.id()}
		for i := 0; i < r.Intn(3); i++ {
			route.Steps = append(route.Steps, &pb.StepProto{Destination: g.id(), Via: g.id(), Cost: g.float()})
		}
		return &pb.LiteralNodeProto{Value: &pb.LiteralNodeProto_RouteValue{RouteValue: route}}
	case 10, 12:
		return &pb.LiteralNodeProto{Value: &pb.LiteralNodeProto_QueryValue{QueryValue: g.query(3)}}
	default:
		coll := &pb.CollectionProto{}
		n := r.Intn(4)
		for i := 0; i < n; i++ {
			coll.Keys = append(coll.Keys, g.literal(depth-1, true))
			coll.Values = append(coll.Values, g.literal(depth-1, true))
		}
		if g.bad && r.Chance(1, 5) {
			g.c.Note("shape:collection-length-mismatch")
			if r.Bool() {
				coll.Keys = append(coll.Keys, g.literal(0, true))
			} else {
				coll.Values = append(coll.Values, g.literal(0, true))
			}
		}
		return &pb.LiteralNodeProto{Value: &pb.LiteralNodeProto_CollectionValue{CollectionValue: coll}}
	}
}

func (g *gen) node(depth int) *pb.NodeProto {
	r := g.c.Rand
	n := &pb.NodeProto{Begin: g.pos(), End: g.pos()}
	if r.Chance(1, 4) {
		n.Name = g.str()
	}
	k := r.Intn(10)
	if depth <= 0 && k >= 6 {
		k = r.Intn(6)
	}
	if g.bad && r.Chance(1, 25) {
		g.c.Note("shape:unset-node")
		return n
	}
	switch {
	case k < 2:
		g.c.Note("node:symbol")
		n.Node = &pb.NodeProto_Symbol{Symbol: g.str()}
	case k < 6:
		g.c.Note("node:literal")
		n.Node = &pb.NodeProto_Literal{Literal: g.literal(2, false)}
	case k < 9:
		g.c.Note("node:call")
		call := &pb.CallNodeProto{Function: g.node(depth - 1), Pipelined: r.Chance(1, 3)}
		for i := 0; i < r.Intn(4); i++ {
			call.Args = append(call.Args, g.node(depth-1))
		}
		n.Node = &pb.NodeProto_Call{Call: call}
	default:
		g.c.Note("node:lambda")
		l := &pb.LambdaNodeProto{Node: g.node(depth - 1)}
		for i := 0; i < r.Intn(3); i++ {
			l.Args = append(l.Args, g.str())
		}
		n.Node = &pb.NodeProto_Lambda_{Lambda_: l}
	}
	return n
}

// overWire marshals and unmarshals, as the request would travel
func overWire(n *pb.NodeProto) (*pb.NodeProto, bool) {
	b, err := proto.Marshal(n)
	if err != nil {
		return nil, false
	}
	var out pb.NodeProto
	if err := proto.Unmarshal(b, &out); err != nil {
		return nil, false
	}
	return &out, true
}

type stageResult struct {
	text string
	ok   bool
}

func fromProto(n *pb.NodeProto) (e b6.Expression, res stageResult) {
	defer func() {
		if r := recover(); r != nil {
			res = stageResult{"panic", false}
		}
	}()
	e, err := b6.ExpressionFromProto(n)
	if err != nil {
		return e, stageResult{"err", false}
	}
	return e, stageResult{eNode(e), true}
}

func toProto(e b6.Expression) (n *pb.NodeProto, res stageResult) {
	defer func() {
		if r := recover(); r != nil {
			n, res = nil, stageResult{"panic", false}
		}
	}()
	p, err := e.ToProto()
	if err != nil {
		return nil, stageResult{"err", false}
	}
	w, ok := overWire(p)
	if !ok {
		return nil, stageResult{"err", false}
	}
	return w, stageResult{pNode(w), true}
}

func equal(a, b b6.Expression) string {
	return hx.Recover(func() string { return b01(a.Equal(b)) })
}

func opRT(c *hx.Ctx, p *pb.NodeProto) {
	w, ok := overWire(p)
	if !ok {
		c.Note("rt:not-marshallable")
		return
	}
	// E | P' | E' | P'' | Equal(E, E') | P'' == P' with the loops of polygons as they are (not canonicalised)
	fields := []string{"-", "-", "-", "-", "-", "-"}
	e, r1 := fromProto(w)
	fields[0] = r1.text
	if r1.ok {
		p2, r2 := toProto(e)
		fields[1] = r2.text
		if r2.ok {
			e2, r3 := fromProto(p2)
			fields[2] = r3.text
			if r3.ok {
				p3, r4 := toProto(e2)
				fields[3] = r4.text
				fields[4] = equal(e, e2)
				if r4.ok {
					rawGeometry = true
					fields[5] = b01(pNode(p2) == pNode(p3))
					rawGeometry = false
				}
			}
		}
	}
	c.Note("rt:first-stage:" + map[bool]string{true: "ok", false: r1.text}[r1.ok])
	c.Op("rt "+pNode(w), strings.Join(fields, " | "))
}

func opEX(c *hx.Ctx, e b6.Expression) {
	text := hx.Recover(func() string { return eNode(e) })
	if text == "panic" || strings.Contains(text, "unknown-") || strings.Contains(text, "bad-native") {
		c.Note("ex:unprintable")
		return
	}
	fields := []string{"-", "-", "-", "-"}
	p, r1 := toProto(e)
	fields[0] = r1.text
	if r1.ok {
		e2, r2 := fromProto(p)
		fields[1] = r2.text
		if r2.ok {
			_, r3 := toProto(e2)
			fields[2] = r3.text
			fields[3] = equal(e, e2)
		}
	}
	c.Note("ex:first-stage:" + map[bool]string{true: "ok", false: r1.text}[r1.ok])
	c.Op("ex "+text, strings.Join(fields, " | "))
}

// ---------------------------------------------------------------------------------------------
// server-side expressions, including what a client cannot send

func (g *gen) eID() b6.FeatureID {
	ts := []b6.FeatureType{b6.FeatureTypePoint, b6.FeatureTypePath, b6.FeatureTypeArea, b6.FeatureTypeRelation, b6.FeatureTypeInvalid, b6.FeatureTypeCollection, b6.FeatureTypeExpression}
	return b6.FeatureID{Type: ts[g.c.Rand.Intn(7)], Namespace: b6.Namespace(g.c.Rand.Pick(nss)), Value: g.c.Rand.Uint64Edge()}
}

func (g *gen) eTagValue() b6.Expression {
	r := g.c.Rand
	if g.bad && r.Chance(1, 3) {
		g.c.Note("shape:non-string-tag-value")
		switch r.Intn(3) {
		case 0:
			return b6.NewIntExpression(r.Intn(100))
		case 1:
			return b6.NewFeatureIDExpression(g.eID())
		default:
			return b6.NewSymbolExpression(g.str())
		}
	}
	return b6.NewStringExpression(g.str())
}

func (g *gen) eQuery(depth int) b6.Query {
	r := g.c.Rand
	if g.bad && r.Chance(1, 5) {
		g.c.Note("shape:unsupported-query")
		switch r.Intn(3) {
		case 0:
			return b6.Empty{}
		case 1:
			return b6.IsValid{}
		default:
			return b6.IntersectsCells{Cells: []s2.Cell{s2.CellFromCellID(s2.CellIDFromLatLng(s2.LatLngFromDegrees(51.5, -0.1)).Parent(10 + r.Intn(10)))}}
		}
	}
	k := r.Intn(8)
	if depth <= 0 && k >= 4 && k <= 6 {
		k = r.Intn(4)
	}
	switch k {
	case 0:
		return b6.All{}
	case 1:
		return b6.Keyed{Key: g.str()}
	case 2, 3:
		return b6.Tagged{Key: g.str(), Value: g.eTagValue()}
	case 4:
		return b6.Typed{Type: g.eID().Type, Query: g.eQuery(depth - 1)}
	case 5:
		var qs b6.Intersection
		for i := 0; i < r.Intn(3); i++ {
			qs = append(qs, g.eQuery(depth-1))
		}
		return qs
	case 6:
		var qs b6.Union
		for i := 0; i < r.Intn(3); i++ {
			qs = append(qs, g.eQuery(depth-1))
		}
		return qs
	default:
		return b6.IntersectsFeature{ID: g.eID()}
	}
}

func (g *gen) eLiteral(depth int) b6.AnyExpression {
	r := g.c.Rand
	if g.bad && r.Chance(1, 8) {
		g.c.Note("shape:nil-literal")
		return b6.NilExpression{}
	}
	k := r.Intn(9)
	if depth <= 0 && k == 8 {
		k = r.Intn(8)
	}
	switch k {
	case 0:
		return b6.IntExpression(int(g.int64()))
	case 1:
		return b6.FloatExpression(g.float())
	case 2:
		return b6.StringExpression(g.str())
	case 3:
		return b6.BoolExpression(r.Bool())
	case 4:
		return b6.FeatureIDExpression(g.eID())
	case 5:
		return b6.TagExpression(b6.Tag{Key: g.str(), Value: g.eTagValue()})
	case 6:
		return b6.QueryExpression{Query: g.eQuery(2)}
	case 7:
		p := g.anyPoint()
		return b6.PointExpression(b6.PointProtoToS2LatLng(p))
	default:
		coll := b6.ArrayCollection[interface{}, interface{}]{}
		for i := 0; i < r.Intn(3); i++ {
			for j := 0; j < 2; j++ {
				var v interface{}
				switch r.Intn(5) {
				case 0:
					v = int(g.int64())
				case 1:
					v = g.str()
				case 2:
					v = g.eID()
				case 3:
					v = g.float()
				default:
					if g.bad && r.Chance(1, 3) {
						g.c.Note("shape:query-in-collection")
						v = b6.Query(b6.All{})
					} else if g.bad && r.Chance(1, 3) {
						g.c.Note("shape:nil-in-collection")
						v = nil
					} else {
						v = r.Bool()
					}
				}
				if j == 0 {
					coll.Keys = append(coll.Keys, v)
				} else {
					coll.Values = append(coll.Values, v)
				}
			}
		}
		return b6.CollectionExpression{UntypedCollection: b6.Collection[any, any]{AnyCollection: coll}}
	}
}

func (g *gen) eNode(depth int) b6.Expression {
	r := g.c.Rand
	e := b6.Expression{Begin: int(g.pos()), End: int(g.pos())}
	if r.Chance(1, 4) {
		e.Name = g.str()
	}
	if g.bad && r.Chance(1, 30) {
		g.c.Note("shape:position-beyond-int32")
		e.End = int(int64(1)<<31) + r.Intn(1000)
	}
	k := r.Intn(10)
	if depth <= 0 && k >= 6 {
		k = r.Intn(6)
	}
	switch {
	case k < 2:
		e.AnyExpression = b6.SymbolExpression(g.str())
	case k < 6:
		e.AnyExpression = g.eLiteral(2)
	case k < 9:
		call := b6.CallExpression{Function: g.eNode(depth - 1), Pipelined: r.Chance(1, 3)}
		call.Args = []b6.Expression{}
		for i := 0; i < r.Intn(4); i++ {
			call.Args = append(call.Args, g.eNode(depth-1))
		}
		e.AnyExpression = call
	default:
		l := b6.LambdaExpression{Expression: g.eNode(depth - 1)}
		for i := 0; i < r.Intn(3); i++ {
			l.Args = append(l.Args, g.str())
		}
		e.AnyExpression = l
	}
	return e
}

func lit(v interface{}) *pb.NodeProto {
	l := &pb.LiteralNodeProto{}
	switch v := v.(type) {
	case int:
		l.Value = &pb.LiteralNodeProto_IntValue{IntValue: int64(v)}
	case float64:
		l.Value = &pb.LiteralNodeProto_FloatValue{FloatValue: v}
	case string:
		l.Value = &pb.LiteralNodeProto_StringValue{StringValue: v}
	case *pb.QueryProto:
		l.Value = &pb.LiteralNodeProto_QueryValue{QueryValue: v}
	case nil:
		l.Value = &pb.LiteralNodeProto_NilValue{NilValue: true}
	}
	return &pb.NodeProto{Node: &pb.NodeProto_Literal{Literal: l}}
}

func corpus(c *hx.Ctx) {
	// what the Python client builds: find(intersection(tagged, typed)) | lambda
	tagged := &pb.QueryProto{Query: &pb.QueryProto_Tagged{Tagged: &pb.TagProto{Key: "#amenity", Value: "cafe"}}}
	typed := &pb.QueryProto{Query: &pb.QueryProto_Typed{Typed: &pb.TypedQueryProto{Type: pb.FeatureType_FeatureTypeArea, Query: &pb.QueryProto{Query: &pb.QueryProto_Keyed{Keyed: "#building"}}}}}
	and := &pb.QueryProto{Query: &pb.QueryProto_Intersection{Intersection: &pb.QueriesProto{Queries: []*pb.QueryProto{tagged, typed}}}}
	find := &pb.NodeProto{Name: "root", End: 61, Node: &pb.NodeProto_Call{Call: &pb.CallNodeProto{
		Function:  &pb.NodeProto{Node: &pb.NodeProto_Symbol{Symbol: "find"}, End: 4},
		Args:      []*pb.NodeProto{lit(and), {Node: &pb.NodeProto_Lambda_{Lambda_: &pb.LambdaNodeProto{Args: []string{"x"}, Node: lit(1.5)}}}},
		Pipelined: true}}}
	opRT(c, find)
	for _, v := range []interface{}{0, math.MinInt64, math.NaN(), math.Copysign(0, -1), "", "é"} {
		opRT(c, lit(v))
	}
	// shapes outside the domain (kept as witnesses; the model reproduces the error / panic)
	opRT(c, lit(nil))
	for _, q := range []*pb.QueryProto{
		{Query: &pb.QueryProto_Empty{Empty: &pb.EmptyQueryProto{}}},
		{Query: &pb.QueryProto_IsValid{IsValid: &pb.IsValidQueryProto{}}},
		{Query: &pb.QueryProto_IntersectsCells{IntersectsCells: &pb.S2CellIDsProto{S2CellIDs: []uint64{1}}}},
		{Query: &pb.QueryProto_MightIntersect{MightIntersect: &pb.S2CellIDsProto{S2CellIDs: []uint64{1}}}},
		{Query: &pb.QueryProto_Typed{Typed: &pb.TypedQueryProto{Type: pb.FeatureType_FeatureTypePoint}}},
		{},
	} {
		opRT(c, lit(q))
	}
	opRT(c, &pb.NodeProto{Node: &pb.NodeProto_Literal{Literal: &pb.LiteralNodeProto{Value: &pb.LiteralNodeProto_CollectionValue{CollectionValue: &pb.CollectionProto{
		Keys: []*pb.LiteralNodeProto{lit(0).GetLiteral()}, Values: []*pb.LiteralNodeProto{lit(&pb.QueryProto{Query: &pb.QueryProto_All{All: &pb.AllQueryProto{}}}).GetLiteral()}}}}}})
	// finding cap-radius-drift: this radius moves by an ulp or two on every round trip
	opRT(c, lit(&pb.QueryProto{Query: &pb.QueryProto_IntersectsCap{IntersectsCap: &pb.CapProto{
		Center: &pb.PointProto{LatE7: 752781571, LngE7: 1481745808}, RadiusMeters: math.Float64frombits(0x40cc7de147ae149a)}}}))
	opRT(c, lit(&pb.QueryProto{Query: &pb.QueryProto_IntersectsCap{IntersectsCap: &pb.CapProto{
		Center: &pb.PointProto{LatE7: 515000000, LngE7: -1000000}, RadiusMeters: 500}}}))
	// fixes/C19-loop-proto-normalize.patch: a square with a square hole, the hole clockwise (WKT order) and
	// counter-clockwise, and listed before the shell
	ring := func(xs ...int32) *pb.LoopProto {
		l := &pb.LoopProto{}
		for i := 0; i < len(xs); i += 2 {
			l.Points = append(l.Points, &pb.PointProto{LatE7: xs[i], LngE7: xs[i+1]})
		}
		return l
	}
	shell := ring(0, 0, 0, 1000000, 1000000, 1000000, 1000000, 0)
	holeCW := ring(250000, 250000, 750000, 250000, 750000, 750000, 250000, 750000)
	holeCCW := ring(250000, 250000, 250000, 750000, 750000, 750000, 750000, 250000)
	for _, loops := range [][]*pb.LoopProto{{shell, holeCW}, {shell, holeCCW}, {holeCCW, shell}} {
		m := &pb.MultiPolygonProto{Polygons: []*pb.PolygonProto{{Loops: loops}}}
		opRT(c, &pb.NodeProto{Node: &pb.NodeProto_Literal{Literal: &pb.LiteralNodeProto{Value: &pb.LiteralNodeProto_AreaValue{AreaValue: m}}}})
		opRT(c, lit(&pb.QueryProto{Query: &pb.QueryProto_IntersectsMultiPolygon{IntersectsMultiPolygon: m}}))
	}
	opEX(c, b6.Expression{AnyExpression: b6.NilExpression{}})
	opEX(c, b6.Expression{})
	opEX(c, b6.Expression{AnyExpression: b6.QueryExpression{Query: b6.Empty{}}})
	opEX(c, b6.Expression{AnyExpression: b6.TagExpression(b6.Tag{Key: "k", Value: b6.NewIntExpression(5)})})
	opEX(c, b6.Expression{AnyExpression: b6.QueryExpression{Query: b6.Tagged{Key: "k", Value: b6.NewIntExpression(5)}}})
	opEX(c, b6.Expression{AnyExpression: b6.IntExpression(1), End: 1 << 31})
	c.NonTrivial()
}

func main() {
	hx.Main(hx.Family{
		Name: "c19",
		Rule: "2 client requests per case (random NodeProto trees of depth <= 5 over symbols, calls, lambdas, 11 literal kinds incl. nested collections, routes, geometry at E7 incl. poles / antimeridian and polygons with holes in either orientation, and query trees of depth <= 3 over 11 query kinds; every fourth case also draws shapes the server rejects: nil / unset / unsupported literals and queries, unknown enum numbers, collection length mismatch) sent over the real wire encoding, plus 1 server-side expression (every fourth with nil literals, non-string tag values, Empty/IsValid/IntersectsCells, queries or nil inside collections, positions beyond int32); non-trivial = the request has depth >= 3 and contains a query or collection literal",
		Quick:    2500,
		Thorough: 120000,
		Corpus:   corpus,
		Case: func(c *hx.Ctx) {
			g := &gen{c: c, bad: c.Rand.Chance(1, 4)}
			if g.bad {
				c.Note("case:with-rejected-shapes")
			} else {
				c.Note("case:client-sendable")
			}
			p := g.node(2 + c.Rand.Intn(4))
			opRT(c, p)
			opRT(c, g.node(1+c.Rand.Intn(3)))
			opEX(c, g.eNode(1+c.Rand.Intn(4)))
			text := pNode(p)
			if strings.Count(text, "(N ") >= 4 && (strings.Contains(text, "(query ") || strings.Contains(text, "(coll ")) {
				c.NonTrivial()
			}
		},
	})
}
