// Geometry and feature generators shared in spirit with cmd/c04 (copied: every harness is its own package).
package main

import (
	"math"
	"strconv"

	"diagonal.works/b6"
	"diagonal.works/b6/ingest"
	"github.com/golang/geo/r3"
	"github.com/golang/geo/s2"
	"verifharness/hx"
)

type site struct {
	c    s2.Point
	u, v r3.Vector
}

func newSite(c s2.Point) site {
	u := c.Ortho()
	v := c.Cross(u).Normalize()
	return site{c: c, u: u, v: v}
}

// at is the point at angular distance d (radians) from the centre in direction theta.
func (s site) at(d, theta float64) s2.Point {
	dir := s.u.Mul(math.Cos(theta)).Add(s.v.Mul(math.Sin(theta)))
	return s2.Point{Vector: s.c.Mul(math.Cos(d)).Add(dir.Mul(math.Sin(d))).Normalize()}
}

func logUniform(r *hx.Rand, lo, hi float64) float64 {
	t := float64(r.Intn(1<<20)) / float64(1<<20)
	return math.Exp(math.Log(lo) + t*(math.Log(hi)-math.Log(lo)))
}

func unit(r *hx.Rand) float64 { return float64(r.Intn(1<<24)) / float64(1<<24) }

func randomPoint(r *hx.Rand) s2.Point {
	z := 2*unit(r) - 1
	phi := 2 * math.Pi * unit(r)
	s := math.Sqrt(1 - z*z)
	return s2.Point{Vector: r3.Vector{X: s * math.Cos(phi), Y: s * math.Sin(phi), Z: z}}
}

// starLoop is a star-shaped (generally non-convex) counter-clockwise loop of n vertices around s.c.
func starLoop(r *hx.Rand, s site, n int, rmin, rmax float64) *s2.Loop {
	pts := make([]s2.Point, n)
	phase := 2 * math.Pi * unit(r)
	for i := range pts {
		theta := phase + 2*math.Pi*(float64(i)+0.6*unit(r))/float64(n)
		d := rmin + (rmax-rmin)*unit(r)
		pts[i] = s.at(d, theta)
	}
	return s2.LoopFromPoints(pts)
}

var vertexCounts = []int{3, 4, 4, 5, 6, 8, 12, 16, 17, 18, 24, 40}

func starPolygon(r *hx.Rand, centre s2.Point, size float64) *s2.Polygon {
	s := newSite(centre)
	n := vertexCounts[r.Intn(len(vertexCounts))]
	loops := []*s2.Loop{starLoop(r, s, n, 0.5*size, size)}
	if r.Chance(1, 3) {
		loops = append(loops, starLoop(r, s, vertexCounts[r.Intn(6)], 0.1*size, 0.4*size))
	}
	return s2.PolygonFromLoops(loops)
}

// ---- worlds ------------------------------------------------------------------------------------

type feat struct {
	id   b6.FeatureID
	kind byte // p l a r
	f    ingest.Feature
	unix bool // not indexed by rule: a point whose only tag is its location
	over bool // lives in the overlay layer of an overlay world
	pts  []s2.Point
}

const ns = b6.Namespace("verif")

func tagged(r *hx.Rand, f ingest.Feature) {
	f.AddTag(b6.Tag{Key: "#k", Value: b6.NewStringExpression("v" + strconv.Itoa(r.Intn(2)))})
}

func newPoint(r *hx.Rand, n uint64, p s2.Point, index bool) feat {
	f := &ingest.GenericFeature{ID: b6.FeatureID{Type: b6.FeatureTypePoint, Namespace: ns, Value: n}}
	f.ModifyOrAddTag(b6.Tag{Key: b6.PointTag, Value: b6.NewPointExpressionFromLatLng(s2.LatLngFromPoint(p))})
	if index {
		tagged(r, f)
	}
	return feat{id: f.FeatureID(), kind: 'p', f: f, unix: !index, pts: []s2.Point{p}}
}

func newPath(r *hx.Rand, n uint64, pts []s2.Point) feat {
	f := &ingest.GenericFeature{ID: b6.FeatureID{Type: b6.FeatureTypePath, Namespace: ns, Value: n}}
	es := make([]b6.AnyExpression, len(pts))
	for i, p := range pts {
		es[i] = b6.PointExpression(s2.LatLngFromPoint(p))
	}
	f.ModifyOrAddTag(b6.Tag{Key: b6.PathTag, Value: b6.NewExpressions(es)})
	tagged(r, f)
	return feat{id: f.FeatureID(), kind: 'l', f: f, pts: pts}
}

func newArea(r *hx.Rand, n uint64, ps []*s2.Polygon) feat {
	a := ingest.NewAreaFeature(len(ps))
	a.AreaID = b6.AreaID{Namespace: ns, Value: n}
	var pts []s2.Point
	for i, p := range ps {
		a.SetPolygon(i, p)
		for _, l := range p.Loops() {
			pts = append(pts, l.Vertices()...)
		}
	}
	tagged(r, a)
	return feat{id: a.FeatureID(), kind: 'a', f: a, pts: pts}
}

func newRelation(r *hx.Rand, n uint64, member b6.FeatureID) feat {
	rel := ingest.NewRelationFeature(1)
	rel.RelationID = b6.RelationID{Namespace: ns, Value: n}
	rel.Members[0] = b6.RelationMember{ID: member}
	tagged(r, rel)
	return feat{id: rel.FeatureID(), kind: 'r', f: rel}
}
