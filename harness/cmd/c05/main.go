// C05 harness: for a generated (query, feature) pair evaluate with S2 itself every primitive the predicate
// could call (the primitive table), and record Go's Matches answer.  The Lean driver recomputes the decision
// from the table (model of the code) and the executable spec ("some part meets").  `pip` ops cross-check
// S2's point-in-polygon against exact integer arithmetic on small E7 polygons (exploration).
package main

import (
	"fmt"
	"math"
	"strconv"
	"strings"

	"diagonal.works/b6"
	"diagonal.works/b6/geometry"
	"diagonal.works/b6/ingest"
	"github.com/golang/geo/s1"
	"github.com/golang/geo/s2"
	"verifharness/hx"
)

// ---- table text ------------------------------------------------------------------------------------

type stats struct{ t, f int }

func bit(b bool, st *stats) string {
	if b {
		st.t++
		return "1"
	}
	st.f++
	return "0"
}

func bits(bs []bool, st *stats) string {
	if len(bs) == 0 {
		return "-"
	}
	var sb strings.Builder
	for _, b := range bs {
		sb.WriteString(bit(b, st))
	}
	return sb.String()
}

func rows(rs [][]bool, st *stats) string {
	if len(rs) == 0 {
		return "-"
	}
	xs := make([]string, len(rs))
	for i, r := range rs {
		if len(r) == 0 {
			xs[i] = "e"
		} else {
			xs[i] = bits(r, st)
		}
	}
	return strings.Join(xs, ";")
}

func boolAns(f func() bool) string {
	return hx.Recover(func() string { return strconv.FormatBool(f()) })
}

// ---- primitive tables ----------------------------------------------------------------------------------

func polygonsOf(f b6.Feature) []*s2.Polygon {
	a := f.(b6.AreaFeature)
	ps := make([]*s2.Polygon, a.Len())
	for i := range ps {
		ps[i] = a.Polygon(i)
	}
	return ps
}

func geomKind(f b6.Feature) string {
	if g, ok := f.(b6.Geometry); ok {
		switch g.GeometryType() {
		case b6.GeometryTypePoint:
			return "point"
		case b6.GeometryTypePath:
			return "path"
		case b6.GeometryTypeArea:
			return "area"
		}
	}
	return "other"
}

var tolerance = b6.MetersToAngle(0.001)

func cellsTable(cells []s2.Cell, f b6.Feature, st *stats) string {
	switch geomKind(f) {
	case "point":
		p := f.(b6.Geometry).Point()
		hs := make([]bool, len(cells))
		for i, c := range cells {
			hs[i] = c.ContainsPoint(p)
		}
		return "point " + bits(hs, st)
	case "path":
		pl := f.(b6.Geometry).Polyline()
		hs := make([]bool, len(cells))
		for i, c := range cells {
			hs[i] = pl.IntersectsCell(c)
		}
		return "path " + bits(hs, st)
	case "area":
		var rs [][]bool
		for _, p := range polygonsOf(f) {
			hs := make([]bool, len(cells))
			for i, c := range cells {
				hs[i] = p.IntersectsCell(c)
			}
			rs = append(rs, hs)
		}
		return "area " + rows(rs, st)
	}
	return "other"
}

var capCoverer = s2.RegionCoverer{MaxLevel: 22, MaxCells: 4} // as in b6.NewIntersectsCap

func capPolyTable(cap s2.Cap, interior, exterior s2.CellUnion, p *s2.Polygon, st *stats) string {
	nv0 := 0
	if p.NumLoops() > 0 {
		nv0 = p.Loop(0).NumVertices()
	}
	in := make([]bool, len(interior))
	for i, id := range interior {
		in[i] = p.IntersectsCell(s2.CellFromCellID(id))
	}
	ex := make([]bool, len(exterior))
	for i, id := range exterior {
		ex[i] = p.IntersectsCell(s2.CellFromCellID(id))
	}
	var dummy stats
	loops := "-"
	if p.NumLoops() > 0 {
		ls := make([]string, p.NumLoops())
		for i := 0; i < p.NumLoops(); i++ {
			loop := p.Loop(i)
			var sb strings.Builder
			for j := 0; j < loop.NumEdges(); j++ {
				e := loop.Edge(j)
				d := 0
				if cap.ContainsPoint(s2.Project(cap.Center(), e.V0, e.V1)) {
					d += 2
					st.t++
				} else {
					st.f++
				}
				if s2.Sign(cap.Center(), e.V0, e.V1) {
					d++
				}
				sb.WriteByte(byte('0' + d))
			}
			if sb.Len() == 0 {
				sb.WriteByte('e')
			}
			ls[i] = sb.String()
		}
		loops = strings.Join(ls, "/")
	}
	return fmt.Sprintf("%d,%s,%s,%s,%s", nv0, bits(in, &dummy), bits(ex, &dummy), bit(p.ContainsPoint(cap.Center()), st), loops)
}

func capTable(cap s2.Cap, f b6.Feature, st *stats) string {
	switch geomKind(f) {
	case "point":
		return "point " + bit(cap.ContainsPoint(f.(b6.Geometry).Point()), st)
	case "path":
		proj, _ := f.(b6.Geometry).Polyline().Project(cap.Center())
		return "path " + bit(cap.ContainsPoint(proj), st)
	case "area":
		interior, exterior := capCoverer.InteriorCovering(cap), capCoverer.Covering(cap)
		var ps []string
		for _, p := range polygonsOf(f) {
			ps = append(ps, capPolyTable(cap, interior, exterior, p, st))
		}
		if len(ps) == 0 {
			return "area -"
		}
		return "area " + strings.Join(ps, "|")
	}
	return "other"
}

func pointTable(q s2.Point, f b6.Feature, st *stats) string {
	switch geomKind(f) {
	case "point":
		return "point " + bit(f.(b6.Geometry).Point() == q, st)
	case "path":
		proj, _ := f.(b6.Geometry).Polyline().Project(q)
		return "path " + bit(proj.Distance(q) < tolerance, st)
	case "area":
		var cs []bool
		for _, p := range polygonsOf(f) {
			cs = append(cs, p.ContainsPoint(q))
		}
		return "area " + bits(cs, st)
	}
	return "other"
}

func lineTable(q *s2.Polyline, f b6.Feature, st *stats) string {
	switch geomKind(f) {
	case "point":
		p := f.(b6.Geometry).Point()
		if len(*q) == 0 {
			return "point 0" // nothing to project onto; the entry cannot be evaluated
		}
		proj, _ := q.Project(p)
		return "point " + bit(proj.Distance(p) < tolerance, st)
	case "path":
		return "path " + bit(f.(b6.Geometry).Polyline().Intersects(q), st)
	case "area":
		var rs [][]bool
		for _, p := range polygonsOf(f) {
			r := make([]bool, len(*q))
			for i, v := range *q {
				r[i] = p.ContainsPoint(v)
			}
			rs = append(rs, r)
		}
		return "area " + rows(rs, st)
	}
	return "other"
}

func mpTable(q geometry.MultiPolygon, f b6.Feature, st *stats) string {
	switch geomKind(f) {
	case "point":
		p := f.(b6.Geometry).Point()
		cs := make([]bool, len(q))
		for i, poly := range q {
			cs[i] = poly.ContainsPoint(p)
		}
		return "point " + bits(cs, st)
	case "path":
		pl := f.(b6.Geometry).Polyline()
		var rs [][]bool
		for _, poly := range q {
			r := make([]bool, len(*pl))
			for i, v := range *pl {
				r[i] = poly.ContainsPoint(v)
			}
			rs = append(rs, r)
		}
		return "path " + rows(rs, st)
	case "area":
		var rs [][]bool
		for _, a := range polygonsOf(f) {
			r := make([]bool, len(q))
			for i, b := range q {
				r[i] = a.Intersects(b)
			}
			rs = append(rs, r)
		}
		return "area " + rows(rs, st)
	}
	return "other"
}

// ---- worlds and queries -------------------------------------------------------------------------------

type world struct {
	w     b6.World
	feats []feat
	s     site
	R     float64
}

func (w *world) get(f feat) b6.Feature { return w.w.FindFeatureByID(f.id) }

func buildWorld(c *hx.Ctx) *world {
	r := c.Rand
	bounds := [][2]float64{{1e-7, 1e-5}, {1e-5, 1e-3}, {1e-3, 0.05}, {0.05, 1.0}}
	k := r.Intn(4)
	c.Note("scale:" + []string{"tiny", "small", "medium", "huge"}[k])
	R := logUniform(r, bounds[k][0], bounds[k][1])
	var centre s2.Point
	if r.Chance(1, 3) {
		centre = s2.PointFromLatLng(s2.LatLngFromDegrees(51.5+0.1*unit(r), -0.1+0.1*unit(r)))
	} else {
		centre = randomPoint(r)
	}
	s := newSite(centre)
	place := func() s2.Point { return s.at(R*unit(r), 2*math.Pi*unit(r)) }
	var feats []feat
	n := 2 + r.Intn(5)
	for i := 0; i < n; i++ {
		id := uint64(i + 1)
		switch r.Intn(8) {
		case 0, 1:
			feats = append(feats, newPoint(r, id, place(), true))
		case 2, 3:
			nv := 2 + r.Intn(6)
			fs := newSite(place())
			size := R * (0.05 + unit(r))
			pts := make([]s2.Point, nv)
			theta := 2 * math.Pi * unit(r)
			for j := range pts {
				pts[j] = fs.at(size*(float64(j)/float64(nv-1)-0.5)*2*(0.5+0.5*unit(r)), theta+0.8*(unit(r)-0.5))
			}
			feats = append(feats, newPath(r, id, pts))
		case 4:
			if len(feats) > 0 && r.Bool() {
				feats = append(feats, newRelation(r, id, feats[r.Intn(len(feats))].id))
				break
			}
			fallthrough
		default:
			np := 1
			if r.Chance(2, 5) {
				np = 2 + r.Intn(3)
			}
			ps := make([]*s2.Polygon, np)
			for j := range ps {
				if np > 1 && r.Chance(1, 12) {
					ps[j] = s2.PolygonFromLoops(nil) // a polygon without loops (what InvalidArea.Polygon returns)
					c.Note("area:empty-polygon")
					continue
				}
				ps[j] = starPolygon(r, place(), R*(0.05+0.6*unit(r)))
			}
			feats = append(feats, newArea(r, id, ps))
		}
	}
	w := &world{feats: feats, s: s, R: R}
	if r.Bool() {
		m := ingest.NewBasicMutableWorld()
		for _, f := range feats {
			if err := m.AddFeature(f.f); err != nil {
				panic("add: " + err.Error())
			}
		}
		w.w = m
	} else {
		fs := make([]ingest.Feature, len(feats))
		for i, f := range feats {
			fs[i] = f.f
		}
		b, err := ingest.NewWorldFromSource(ingest.MemoryFeatureSource(fs), &ingest.BuildOptions{Cores: 1, FailInvalidFeatures: true})
		if err != nil {
			panic("build: " + err.Error())
		}
		w.w = b
	}
	return w
}

// inside returns a point inside polygon part j of an area feature built by starPolygon: on the segment from the
// star's centre towards a vertex (star-shaped => inside the shell; it may fall into the hole).
func insideStar(r *hx.Rand, p *s2.Polygon) (s2.Point, bool) {
	if p.NumLoops() == 0 {
		return s2.Point{}, false
	}
	shell := p.Loop(0)
	c := shell.Centroid()
	if c.Norm() == 0 {
		return s2.Point{}, false
	}
	centre := s2.Point{Vector: c.Normalize()}
	v := shell.Vertex(r.Intn(shell.NumVertices()))
	t := 0.3 + 0.65*unit(r)
	return s2.Point{Vector: centre.Mul(1 - t).Add(v.Mul(t)).Normalize()}, true
}

// target picks a location related to feature f: a vertex, a point inside one of its polygons, a point on it.
func (w *world) target(r *hx.Rand, f feat) s2.Point {
	wf := w.get(f)
	switch geomKind(wf) {
	case "point":
		return wf.(b6.Geometry).Point()
	case "path":
		pl := *wf.(b6.Geometry).Polyline()
		k := r.Intn(len(pl) - 1)
		t := unit(r)
		if r.Chance(1, 3) {
			t = 0
		}
		return s2.Point{Vector: pl[k].Mul(1 - t).Add(pl[k+1].Mul(t)).Normalize()}
	case "area":
		ps := polygonsOf(wf)
		// prefer later polygons of a multipolygon
		j := len(ps) - 1 - r.Intn((len(ps)+1)/2)
		if p, ok := insideStar(r, ps[j]); ok && r.Chance(3, 4) {
			return p
		}
		if len(f.pts) > 0 {
			return f.pts[r.Intn(len(f.pts))]
		}
	}
	return w.s.at(w.R*unit(r), 2*math.Pi*unit(r))
}

func (w *world) anywhere(r *hx.Rand) s2.Point { return w.s.at(w.R*1.2*unit(r), 2*math.Pi*unit(r)) }

func note(c *hx.Ctx, kind string, table string, ans string, st stats) {
	c.Note("op:" + kind + "-" + strings.SplitN(table, " ", 2)[0])
	c.Note("ans:" + ans)
	if st.t > 0 && st.f > 0 {
		c.NonTrivial()
		c.Note("table:mixed")
	} else if st.t > 0 {
		c.Note("table:all-true")
	} else {
		c.Note("table:all-false")
	}
}

func (w *world) pairOps(c *hx.Ctx) {
	r := c.Rand
	f := w.feats[r.Intn(len(w.feats))]
	wf := w.get(f)
	var st stats
	if r.Chance(1, 25) { // MightIntersect: Matches is constantly true
		q := b6.MightIntersect{Region: s2.CapFromCenterAngle(w.anywhere(r), s1.Angle(w.R*unit(r)))}
		ans := boolAns(func() bool { return q.Matches(wf, w.w) })
		c.Op("might", ans)
		c.Note("op:might")
		return
	}
	switch r.Intn(7) {
	case 0: // cells
		n := 1 + r.Intn(4)
		cells := make([]s2.Cell, n)
		for i := range cells {
			p := w.anywhere(r)
			if r.Chance(2, 3) {
				p = w.target(r, f)
			}
			lvl := r.Intn(31)
			// levels around the feature's size are the interesting ones
			if r.Bool() {
				lvl = int(math.Max(0, math.Min(30, math.Log2(1.5/w.R)+float64(r.Intn(7))-3)))
			}
			id := s2.CellFromPoint(p).ID().Parent(lvl)
			if r.Chance(1, 4) {
				id = id.EdgeNeighbors()[r.Intn(4)]
			}
			cells[i] = s2.CellFromCellID(id)
		}
		q := b6.IntersectsCells{Cells: cells}
		t := cellsTable(cells, wf, &st)
		ans := boolAns(func() bool { return q.Matches(wf, w.w) })
		c.Op("cells "+t, ans)
		note(c, "cells", t, ans, st)
	case 1, 2: // cap
		centre := w.anywhere(r)
		if r.Chance(3, 4) {
			centre = w.target(r, f)
		}
		var rad float64
		switch r.Intn(4) {
		case 0:
			rad = w.R * 1e-4 * unit(r)
		case 1:
			rad = w.R * 0.05 * unit(r)
		case 2:
			rad = w.R * unit(r)
		default:
			rad = logUniform(r, 1e-10, 2)
		}
		cap := s2.CapFromCenterAngle(centre, s1.Angle(rad))
		q := b6.NewIntersectsCap(cap)
		t := capTable(cap, wf, &st)
		ans := boolAns(func() bool { return q.Matches(wf, w.w) })
		c.Op("cap "+t, ans)
		note(c, "cap", t, ans, st)
	case 3: // point
		p := w.anywhere(r)
		if r.Chance(4, 5) {
			p = w.target(r, f)
		}
		if geomKind(wf) == "path" && r.Bool() { // sub-millimetre offsets around the 1 mm rule
			ps := newSite(p)
			p = ps.at(float64(b6.MetersToAngle([]float64{0.0003, 0.0009, 0.0011, 0.003}[r.Intn(4)])), 2*math.Pi*unit(r))
		}
		q := b6.IntersectsPoint{Point: p}
		t := pointTable(p, wf, &st)
		ans := boolAns(func() bool { return q.Matches(wf, w.w) })
		c.Op("point "+t, ans)
		note(c, "point", t, ans, st)
	case 4: // polyline
		n := 2 + r.Intn(4)
		if r.Chance(1, 10) {
			n = r.Intn(2) // a query polyline without vertices, or with a single one
		}
		pl := make(s2.Polyline, n)
		for i := range pl {
			if r.Bool() {
				pl[i] = w.target(r, f)
			} else {
				pl[i] = w.anywhere(r)
			}
			if i > 0 && pl[i] == pl[i-1] {
				pl[i] = w.anywhere(r)
			}
		}
		q := b6.IntersectsPolyline{Polyline: &pl}
		t := lineTable(&pl, wf, &st)
		ans := boolAns(func() bool { return q.Matches(wf, w.w) })
		c.Op(fmt.Sprintf("line n=%d %s", n, t), ans)
		note(c, "line", t, ans, st)
		if n < 2 {
			c.Note(fmt.Sprintf("line:query-vertices=%d", n))
		}
	case 5: // multipolygon, 1-4 parts; the part that meets the feature is usually not the first
		n := 1 + r.Intn(4)
		mp := make(geometry.MultiPolygon, n)
		hit := r.Intn(n)
		if n > 1 && r.Bool() {
			hit = 1 + r.Intn(n-1)
		}
		for i := range mp {
			centre := w.anywhere(r)
			if i == hit || r.Chance(1, 5) {
				centre = w.target(r, f)
			}
			mp[i] = starPolygon(r, centre, w.R*(0.02+0.5*unit(r)))
		}
		q := b6.IntersectsMultiPolygon{MultiPolygon: mp}
		t := mpTable(mp, wf, &st)
		ans := boolAns(func() bool { return q.Matches(wf, w.w) })
		c.Op("mp "+t, ans)
		note(c, "mp", t, ans, st)
		c.Note(fmt.Sprintf("mp:parts=%d", n))
	default: // intersects-feature
		named := w.feats[r.Intn(len(w.feats))]
		if r.Chance(1, 5) {
			named = f
		}
		wn := w.get(named)
		q := b6.IntersectsFeature{ID: named.id}
		same := "0"
		if named.id == f.id {
			same = "1"
		}
		var t string
		switch geomKind(wn) {
		case "point":
			t = "point " + pointTable(wn.(b6.Geometry).Point(), wf, &st)
		case "path":
			t = "line " + lineTable(wn.(b6.Geometry).Polyline(), wf, &st)
		case "area":
			t = "mp " + mpTable(wn.(b6.AreaFeature).MultiPolygon(), wf, &st)
		default:
			t = "empty"
		}
		ans := boolAns(func() bool { return q.Matches(wf, w.w) })
		c.Op("feat "+same+" "+t, ans)
		note(c, "feat", t, ans, st)
	}
}

// ---- exploration: S2 point-in-polygon against exact integer arithmetic ------------------------------------

type ipt struct{ x, y int64 } // x = lng E7, y = lat E7

func (p ipt) s2() s2.Point {
	return s2.PointFromLatLng(s2.LatLngFromDegrees(float64(p.y)/1e7, float64(p.x)/1e7))
}

func intStar(r *hx.Rand, cx, cy int64, n int, rmin, rmax float64) []ipt {
	pts := make([]ipt, n)
	phase := 2 * math.Pi * unit(r)
	for i := range pts {
		theta := phase + 2*math.Pi*(float64(i)+0.5*unit(r))/float64(n)
		d := rmin + (rmax-rmin)*unit(r)
		pts[i] = ipt{cx + int64(math.Round(d*math.Cos(theta))), cy + int64(math.Round(d*math.Sin(theta)))}
	}
	return pts
}

func pipOp(c *hx.Ctx) {
	r := c.Rand
	cy := int64(r.Intn(1400000000)) - 700000000 // |lat| <= 70 degrees
	cx := int64(r.Intn(3580000000)) - 1790000000
	size := 300 + 50000*unit(r) // up to ~550 m
	loops := [][]ipt{intStar(r, cx, cy, 3+r.Intn(10), 0.5*size, size)}
	if r.Chance(1, 3) {
		loops = append(loops, intStar(r, cx, cy, 3+r.Intn(5), 0.1*size, 0.4*size))
	}
	var s2loops []*s2.Loop
	var ltxt []string
	for _, l := range loops {
		ps := make([]s2.Point, len(l))
		vs := make([]string, len(l))
		for i, p := range l {
			ps[i] = p.s2()
			vs[i] = fmt.Sprintf("%d,%d", p.x, p.y)
		}
		s2loops = append(s2loops, s2.LoopFromPoints(ps))
		ltxt = append(ltxt, strings.Join(vs, ";"))
	}
	poly := s2.PolygonFromLoops(s2loops)
	for i := 0; i < 4; i++ {
		var p ipt
		switch r.Intn(3) {
		case 0: // anywhere in the bounding square
			p = ipt{cx + int64((2*unit(r)-1)*1.1*size), cy + int64((2*unit(r)-1)*1.1*size)}
		case 1: // towards a vertex: inside the shell, maybe inside the hole
			l := loops[r.Intn(len(loops))]
			v := l[r.Intn(len(l))]
			t := unit(r) * 1.3
			p = ipt{cx + int64(t*float64(v.x-cx)), cy + int64(t*float64(v.y-cy))}
		default: // a few hundred units off an edge
			l := loops[r.Intn(len(loops))]
			k := r.Intn(len(l))
			a, b := l[k], l[(k+1)%len(l)]
			t := unit(r)
			p = ipt{a.x + int64(t*float64(b.x-a.x)) + int64(r.Intn(801)) - 400, a.y + int64(t*float64(b.y-a.y)) + int64(r.Intn(801)) - 400}
		}
		ans := boolAns(func() bool { return poly.ContainsPoint(p.s2()) })
		c.Op(fmt.Sprintf("pip %s %d,%d", strings.Join(ltxt, "|"), p.x, p.y), ans)
		c.Note("op:pip")
		c.Note("pip:" + ans)
	}
	c.NonTrivial()
}

// ---- corpus ---------------------------------------------------------------------------------------

func ll(lat, lng float64) s2.Point { return s2.PointFromLatLng(s2.LatLngFromDegrees(lat, lng)) }

func square(lat, lng, d float64) *s2.Polygon {
	return s2.PolygonFromLoops([]*s2.Loop{s2.LoopFromPoints([]s2.Point{ll(lat, lng), ll(lat, lng+d), ll(lat+d, lng+d), ll(lat+d, lng)})})
}

func corpus(c *hx.Ctx) {
	r := c.Rand
	var st stats
	// fixed (C05-multipolygon-point-any-polygon): two squares, the point inside the second
	{
		mp := geometry.MultiPolygon{square(51.0, 0.0, 0.01), square(51.0, 0.02, 0.01)}
		p := newPoint(r, 1, ll(51.005, 0.025), true)
		m := ingest.NewBasicMutableWorld()
		m.AddFeature(p.f)
		wf := m.FindFeatureByID(p.id)
		q := b6.IntersectsMultiPolygon{MultiPolygon: mp}
		c.Op("mp "+mpTable(mp, wf, &st), boolAns(func() bool { return q.Matches(wf, m) }))
		// the same through intersects-feature naming an area with two polygons
		a := newArea(r, 2, []*s2.Polygon{mp[0], mp[1]})
		m.AddFeature(a.f)
		wa := m.FindFeatureByID(a.id)
		qf := b6.IntersectsFeature{ID: a.id}
		c.Op("feat 0 mp "+mpTable(wa.(b6.AreaFeature).MultiPolygon(), wf, &st), boolAns(func() bool { return qf.Matches(wf, m) }))
	}
	// fixed (C05-cap-polygon-centre-containment): L-shaped area, 10 m cap deep inside the upper arm
	{
		l := s2.PolygonFromLoops([]*s2.Loop{s2.LoopFromPoints([]s2.Point{ll(51.0, 0.0), ll(51.0, 0.02), ll(51.01, 0.02), ll(51.01, 0.01), ll(51.02, 0.01), ll(51.02, 0.0)})})
		if l.Area() > 2*math.Pi {
			l.Invert()
		}
		a := newArea(r, 3, []*s2.Polygon{l})
		// and an area whose first polygon has no loops: p.Loop(0) panicked
		e := newArea(r, 4, []*s2.Polygon{s2.PolygonFromLoops(nil), square(51.0, 0.0, 0.01)})
		m := ingest.NewBasicMutableWorld()
		m.AddFeature(a.f)
		m.AddFeature(e.f)
		cap := s2.CapFromCenterAngle(ll(51.015, 0.005), b6.MetersToAngle(10))
		q := b6.NewIntersectsCap(cap)
		wa := m.FindFeatureByID(a.id)
		c.Op("cap "+capTable(cap, wa, &st), boolAns(func() bool { return q.Matches(wa, m) }))
		cap2 := s2.CapFromCenterAngle(ll(51.005, 0.005), b6.MetersToAngle(10))
		q2 := b6.NewIntersectsCap(cap2)
		we := m.FindFeatureByID(e.id)
		c.Op("cap "+capTable(cap2, we, &st), boolAns(func() bool { return q2.Matches(we, m) }))
	}
	// fixed (C05-empty-polyline-query): a query polyline without vertices against a point feature panicked
	{
		p := newPoint(r, 5, ll(51.005, 0.005), true)
		m := ingest.NewBasicMutableWorld()
		m.AddFeature(p.f)
		wf := m.FindFeatureByID(p.id)
		pl := s2.Polyline{}
		q := b6.IntersectsPolyline{Polyline: &pl}
		c.Op("line n=0 "+lineTable(&pl, wf, &st), boolAns(func() bool { return q.Matches(wf, m) }))
	}
	// fixed (C04-intersects-feature-without-geometry): a relation named by the query does not intersect itself
	{
		p := newPoint(r, 6, ll(51.005, 0.025), true)
		rel := newRelation(r, 7, p.id)
		m := ingest.NewBasicMutableWorld()
		m.AddFeature(p.f)
		m.AddFeature(rel.f)
		wr := m.FindFeatureByID(rel.id)
		q := b6.IntersectsFeature{ID: rel.id}
		c.Op("feat 1 empty", boolAns(func() bool { return q.Matches(wr, m) }))
	}
	c.NonTrivial()
}

func main() {
	hx.Main(hx.Family{
		Name:     "c05",
		Rule:     "cases 0,1,2 mod 4: a generated world (mutable or basic; 2-6 features: points, paths, star-shaped non-convex areas with holes and 1-4 polygons, occasionally a polygon without loops, relations; extent 0.6 m .. 6000 km) and 6 (query, feature) pairs: cells / cap / point / polyline / multipolygon (1-4 parts, the part that meets the feature usually not the first) / intersects-feature / might-intersect, query polylines with 0 or 1 vertex in 10 % of the polyline ops, queries aimed at vertices, interiors (off-centre, inside spikes and holes) and sub-millimetre neighbourhoods of the feature; the op carries the S2 primitive table, the answer is Go's Matches. cases 3 mod 4: 4 `pip` ops on an E7-integer star polygon (<= 550 m, |lat| <= 70, optional hole). non-trivial = a table with both true and false entries, or a pip case; distinct = by hash of the op text",
		Quick:    2400,
		Thorough: 60000,
		Corpus:   corpus,
		Case: func(c *hx.Ctx) {
			if c.CaseNo%4 == 3 {
				pipOp(c)
				return
			}
			w := buildWorld(c)
			for i := 0; i < 6; i++ {
				w.pairOps(c)
			}
		},
	})
}
