package main

// Small worlds for the sweep: an empty base and a little OSM town (streets with a junction grid,
// buildings with entrances, a multipolygon, a route relation, amenities). The service wraps the base
// in a MutableOverlayWorld per root (ingest.MutableWorlds), exactly as cmd/b6 does; the "overlay"
// variant first sends a few change requests so that the overlay layer is not empty.

import (
	"fmt"

	"diagonal.works/b6"
	"diagonal.works/b6/ingest"
	"diagonal.works/b6/osm"
)

const (
	baseLat = 51.5350
	baseLng = -0.1250
	step    = 0.0010 // ~110 m north-south, ~70 m east-west
)

const gridN = 4

func nodeID(i, j int) osm.NodeID { return osm.NodeID(100 + i*10 + j) }

func tags(kv ...string) osm.Tags {
	t := osm.Tags{}
	for i := 0; i+1 < len(kv); i += 2 {
		t = append(t, osm.Tag{Key: kv[i], Value: kv[i+1]})
	}
	return t
}

type worldInfo struct {
	name      string
	base      b6.World
	points    []uint64 // osm node ids present
	paths     []uint64
	areas     []uint64
	relations []uint64
}

func townOSM() ([]osm.Node, []osm.Way, []osm.Relation) {
	var nodes []osm.Node
	var ways []osm.Way
	for i := 0; i < gridN; i++ {
		for j := 0; j < gridN; j++ {
			n := osm.Node{ID: nodeID(i, j), Location: osm.LatLng{Lat: baseLat + float64(i)*step, Lng: baseLng + float64(j)*step}}
			if i == 1 && j == 1 {
				n.Tags = tags("highway", "crossing", "name", "The Cross")
			}
			if i == 3 && j == 3 {
				n.Tags = tags("amenity", "cafe", "name", "Corner Cafe", "capacity", "12")
			}
			nodes = append(nodes, n)
		}
	}
	// east-west streets
	for i := 0; i < gridN; i++ {
		w := osm.Way{ID: osm.WayID(200 + i), Tags: tags("highway", "residential", "name", fmt.Sprintf("Row %d", i), "maxspeed", "20")}
		for j := 0; j < gridN; j++ {
			w.Nodes = append(w.Nodes, nodeID(i, j))
		}
		if i == 2 {
			w.Tags = tags("highway", "primary", "oneway", "yes", "lanes", "2")
		}
		ways = append(ways, w)
	}
	// north-south streets
	for j := 0; j < gridN; j++ {
		w := osm.Way{ID: osm.WayID(210 + j), Tags: tags("highway", "footway")}
		for i := 0; i < gridN; i++ {
			w.Nodes = append(w.Nodes, nodeID(i, j))
		}
		if j == 3 {
			w.Tags = tags("highway", "cycleway", "bicycle", "designated")
		}
		ways = append(ways, w)
	}
	// buildings inside the blocks, with an entrance joined to the street
	b := 0
	for i := 0; i < gridN-1; i++ {
		for j := 0; j < gridN-1; j += 2 {
			lat := baseLat + float64(i)*step + step*0.3
			lng := baseLng + float64(j)*step + step*0.3
			ids := []osm.NodeID{osm.NodeID(300 + b*10), osm.NodeID(301 + b*10), osm.NodeID(302 + b*10), osm.NodeID(303 + b*10)}
			nodes = append(nodes,
				osm.Node{ID: ids[0], Location: osm.LatLng{Lat: lat, Lng: lng}, Tags: tags("entrance", "main")},
				osm.Node{ID: ids[1], Location: osm.LatLng{Lat: lat, Lng: lng + step*0.4}},
				osm.Node{ID: ids[2], Location: osm.LatLng{Lat: lat + step*0.4, Lng: lng + step*0.4}},
				osm.Node{ID: ids[3], Location: osm.LatLng{Lat: lat + step*0.4, Lng: lng}},
			)
			t := tags("building", "yes", "building:levels", fmt.Sprintf("%d", 1+b), "name", fmt.Sprintf("House %d", b))
			if b == 1 {
				t = tags("building", "school", "amenity", "school", "height", "7.5")
			}
			ways = append(ways, osm.Way{ID: osm.WayID(400 + b), Nodes: []osm.NodeID{ids[0], ids[1], ids[2], ids[3], ids[0]}, Tags: t})
			// a path from the entrance to the street corner
			ways = append(ways, osm.Way{ID: osm.WayID(450 + b), Nodes: []osm.NodeID{ids[0], nodeID(i, j)}, Tags: tags("highway", "path")})
			b++
		}
	}
	// a park as a multipolygon with a hole
	outer := []osm.NodeID{500, 501, 502, 503}
	inner := []osm.NodeID{510, 511, 512, 513}
	plat, plng := baseLat+float64(gridN)*step, baseLng
	for k, d := range [][2]float64{{0, 0}, {0, 3}, {1.5, 3}, {1.5, 0}} {
		nodes = append(nodes, osm.Node{ID: outer[k], Location: osm.LatLng{Lat: plat + d[0]*step, Lng: plng + d[1]*step}})
	}
	for k, d := range [][2]float64{{0.5, 1}, {1, 1}, {1, 2}, {0.5, 2}} {
		nodes = append(nodes, osm.Node{ID: inner[k], Location: osm.LatLng{Lat: plat + d[0]*step, Lng: plng + d[1]*step}})
	}
	ways = append(ways,
		osm.Way{ID: 600, Nodes: append(append([]osm.NodeID{}, outer...), outer[0])},
		osm.Way{ID: 601, Nodes: append(append([]osm.NodeID{}, inner...), inner[0])},
		// unclosed, untagged way and a single-tag barrier
		osm.Way{ID: 602, Nodes: []osm.NodeID{outer[0], nodeID(3, 0)}, Tags: tags("barrier", "fence")},
	)
	rels := []osm.Relation{
		{ID: 700, Tags: tags("type", "multipolygon", "leisure", "park", "name", "The Park"), Members: []osm.Member{
			{Type: osm.ElementTypeWay, ID: 600, Role: "outer"}, {Type: osm.ElementTypeWay, ID: 601, Role: "inner"}}},
		{ID: 701, Tags: tags("type", "route", "route", "bus", "ref", "73"), Members: []osm.Member{
			{Type: osm.ElementTypeWay, ID: 200}, {Type: osm.ElementTypeWay, ID: 213}, {Type: osm.ElementTypeNode, ID: osm.AnyID(nodeID(1, 1)), Role: "stop"}}},
	}
	return nodes, ways, rels
}

func buildWorlds() []*worldInfo {
	o := &ingest.BuildOptions{Cores: 1}
	empty, err := ingest.BuildWorldFromOSM(nil, nil, nil, o)
	if err != nil {
		panic("c23: empty world: " + err.Error())
	}
	nodes, ways, rels := townOSM()
	town, err := ingest.BuildWorldFromOSM(nodes, ways, rels, o)
	if err != nil {
		panic("c23: town world: " + err.Error())
	}
	ti := &worldInfo{name: "town", base: town}
	for _, n := range nodes {
		ti.points = append(ti.points, uint64(n.ID))
	}
	for _, w := range ways {
		if len(w.Nodes) > 2 && w.Nodes[0] == w.Nodes[len(w.Nodes)-1] {
			ti.areas = append(ti.areas, uint64(w.ID))
		}
		ti.paths = append(ti.paths, uint64(w.ID))
	}
	ti.areas = append(ti.areas, 700)
	for _, r := range rels {
		ti.relations = append(ti.relations, uint64(r.ID))
	}
	return []*worldInfo{{name: "empty", base: empty}, ti}
}
