package main

// Expression trees of the sweep. A tree is turned directly into the wire form a client sends
// (pb.NodeProto); its single-line text (the replay shown in the evidence and parsed by the Lean driver)
// follows the grammar of lean/B6/Model/Expr.lean: symbols, ints, s:WORD strings, ( q QUERY ) for the
// query constructors the model knows, and o:KIND:TEXT for every other literal kind.

import (
	"encoding/hex"
	"fmt"
	"math"
	"strconv"
	"strings"

	pb "diagonal.works/b6/proto"
)

type kind int

const (
	kSym kind = iota
	kLit
	kCall
	kLam
)

type Node struct {
	Kind      kind
	Name      string               // kSym
	Toks      []string             // kLit: text tokens
	Lit       *pb.LiteralNodeProto // kLit
	Fn        *Node
	Args      []*Node
	Pipelined bool
	Params    []string
	Body      *Node
}

func S(name string) *Node             { return &Node{Kind: kSym, Name: name} }
func C(fn *Node, args ...*Node) *Node { return &Node{Kind: kCall, Fn: fn, Args: args} }
func F(name string, args ...*Node) *Node {
	return &Node{Kind: kCall, Fn: S(name), Args: args}
}
func L(params []string, body *Node) *Node { return &Node{Kind: kLam, Params: params, Body: body} }
func lit(l *pb.LiteralNodeProto, toks ...string) *Node {
	return &Node{Kind: kLit, Lit: l, Toks: toks}
}

func (n *Node) toks(out []string) []string {
	switch n.Kind {
	case kSym:
		return append(out, n.Name)
	case kLit:
		return append(out, n.Toks...)
	case kCall:
		out = append(out, "(")
		if n.Pipelined {
			out = append(out, "|")
		}
		out = n.Fn.toks(out)
		for _, a := range n.Args {
			out = a.toks(out)
		}
		return append(out, ")")
	case kLam:
		out = append(out, "(", "\\", "(")
		out = append(out, n.Params...)
		out = append(out, ")")
		out = n.Body.toks(out)
		return append(out, ")")
	}
	panic("bad node")
}

func (n *Node) Text() string { return strings.Join(n.toks(nil), " ") }

func (n *Node) Size() int {
	switch n.Kind {
	case kCall:
		s := 1 + n.Fn.Size()
		for _, a := range n.Args {
			s += a.Size()
		}
		return s
	case kLam:
		return 1 + n.Body.Size()
	}
	return 1
}

// Walk visits every node, pre-order.
func (n *Node) Walk(f func(*Node)) {
	f(n)
	switch n.Kind {
	case kCall:
		n.Fn.Walk(f)
		for _, a := range n.Args {
			a.Walk(f)
		}
	case kLam:
		n.Body.Walk(f)
	}
}

// Proto builds a fresh request tree.
func (n *Node) Proto() *pb.NodeProto {
	switch n.Kind {
	case kSym:
		return &pb.NodeProto{Node: &pb.NodeProto_Symbol{Symbol: n.Name}}
	case kLit:
		return &pb.NodeProto{Node: &pb.NodeProto_Literal{Literal: n.Lit}}
	case kCall:
		c := &pb.CallNodeProto{Function: n.Fn.Proto(), Pipelined: n.Pipelined}
		for _, a := range n.Args {
			c.Args = append(c.Args, a.Proto())
		}
		return &pb.NodeProto{Node: &pb.NodeProto_Call{Call: c}}
	case kLam:
		return &pb.NodeProto{Node: &pb.NodeProto_Lambda_{Lambda_: &pb.LambdaNodeProto{Args: append([]string{}, n.Params...), Node: n.Body.Proto()}}}
	}
	panic("bad node")
}

// ---- literals ------------------------------------------------------------------------------------

func wordSafe(s string) bool {
	for _, c := range s {
		if c <= ' ' || c > '~' {
			return false
		}
	}
	return true
}

func I(i int) *Node {
	return lit(&pb.LiteralNodeProto{Value: &pb.LiteralNodeProto_IntValue{IntValue: int64(i)}}, strconv.Itoa(i))
}

func Str(s string) *Node {
	l := &pb.LiteralNodeProto{Value: &pb.LiteralNodeProto_StringValue{StringValue: s}}
	if wordSafe(s) {
		return lit(l, "s:"+s)
	}
	return lit(l, "o:strx:"+hex.EncodeToString([]byte(s)))
}

func Fl(f float64) *Node {
	return lit(&pb.LiteralNodeProto{Value: &pb.LiteralNodeProto_FloatValue{FloatValue: f}}, "o:float:"+strconv.FormatFloat(f, 'g', -1, 64))
}

func Bo(b bool) *Node {
	return lit(&pb.LiteralNodeProto{Value: &pb.LiteralNodeProto_BoolValue{BoolValue: b}}, fmt.Sprintf("o:bool:%v", b))
}

func Nil() *Node {
	return lit(&pb.LiteralNodeProto{Value: &pb.LiteralNodeProto_NilValue{NilValue: true}}, "o:nil:")
}

var ftNames = map[pb.FeatureType]string{
	pb.FeatureType_FeatureTypePoint: "point", pb.FeatureType_FeatureTypePath: "path", pb.FeatureType_FeatureTypeArea: "area",
	pb.FeatureType_FeatureTypeRelation: "relation", pb.FeatureType_FeatureTypeCollection: "collection",
	pb.FeatureType_FeatureTypeExpression: "expression", pb.FeatureType_FeatureTypeInvalid: "invalid",
}

func ftName(t pb.FeatureType) string {
	if s, ok := ftNames[t]; ok {
		return s
	}
	return fmt.Sprintf("type%d", int32(t))
}

func fidProto(t pb.FeatureType, ns string, v uint64) *pb.FeatureIDProto {
	return &pb.FeatureIDProto{Type: t, Namespace: ns, Value: v}
}

func fidText(p *pb.FeatureIDProto) string {
	ns := p.Namespace
	if !wordSafe(ns) {
		ns = "x" + hex.EncodeToString([]byte(ns))
	}
	return fmt.Sprintf("/%s/%s/%d", ftName(p.Type), ns, p.Value)
}

func FID(t pb.FeatureType, ns string, v uint64) *Node {
	p := fidProto(t, ns, v)
	return lit(&pb.LiteralNodeProto{Value: &pb.LiteralNodeProto_FeatureIDValue{FeatureIDValue: p}}, "o:fid:"+fidText(p))
}

func Tag(k, v string) *Node {
	l := &pb.LiteralNodeProto{Value: &pb.LiteralNodeProto_TagValue{TagValue: &pb.TagProto{Key: k, Value: v}}}
	if wordSafe(k) && wordSafe(v) && !strings.Contains(k, "=") {
		return lit(l, "o:tag:"+k+"="+v)
	}
	return lit(l, "o:tagx:"+hex.EncodeToString([]byte(k))+"="+hex.EncodeToString([]byte(v)))
}

type pt struct{ lat, lng int32 } // E7

func (p pt) proto() *pb.PointProto { return &pb.PointProto{LatE7: p.lat, LngE7: p.lng} }
func (p pt) text() string          { return fmt.Sprintf("%d,%d", p.lat, p.lng) }

func ptsText(ps []pt) string {
	xs := make([]string, len(ps))
	for i, p := range ps {
		xs[i] = p.text()
	}
	return strings.Join(xs, ";")
}

func ptsProto(ps []pt) []*pb.PointProto {
	xs := make([]*pb.PointProto, len(ps))
	for i, p := range ps {
		xs[i] = p.proto()
	}
	return xs
}

func Point(p pt) *Node {
	return lit(&pb.LiteralNodeProto{Value: &pb.LiteralNodeProto_PointValue{PointValue: p.proto()}}, "o:point:"+p.text())
}

func Path(ps []pt) *Node {
	return lit(&pb.LiteralNodeProto{Value: &pb.LiteralNodeProto_PathValue{PathValue: &pb.PolylineProto{Points: ptsProto(ps)}}}, "o:path:"+ptsText(ps))
}

// polygons[i][j] = loop j of polygon i
func mpProto(polygons [][][]pt) *pb.MultiPolygonProto {
	mp := &pb.MultiPolygonProto{}
	for _, poly := range polygons {
		pp := &pb.PolygonProto{}
		for _, loop := range poly {
			pp.Loops = append(pp.Loops, &pb.LoopProto{Points: ptsProto(loop)})
		}
		mp.Polygons = append(mp.Polygons, pp)
	}
	return mp
}

func mpText(polygons [][][]pt) string {
	ps := make([]string, len(polygons))
	for i, poly := range polygons {
		ls := make([]string, len(poly))
		for j, loop := range poly {
			ls[j] = ptsText(loop)
		}
		ps[i] = "[" + strings.Join(ls, "|") + "]"
	}
	return strings.Join(ps, "")
}

func Area(polygons [][][]pt) *Node {
	return lit(&pb.LiteralNodeProto{Value: &pb.LiteralNodeProto_AreaValue{AreaValue: mpProto(polygons)}}, "o:area:"+mpText(polygons))
}

func Route(origin *pb.FeatureIDProto, steps []*pb.StepProto) *Node {
	t := "o:route:"
	if origin != nil {
		t += fidText(origin)
	}
	for _, s := range steps {
		t += ">"
		if s.Destination != nil {
			t += fidText(s.Destination)
		}
		t += "@" + strconv.FormatFloat(s.Cost, 'g', -1, 64)
	}
	return lit(&pb.LiteralNodeProto{Value: &pb.LiteralNodeProto_RouteValue{RouteValue: &pb.RouteProto{Origin: origin, Steps: steps}}}, t)
}

func GeoJSONLit(b []byte) *Node {
	return lit(&pb.LiteralNodeProto{Value: &pb.LiteralNodeProto_GeoJSONValue{GeoJSONValue: b}}, "o:geojsonbytes:"+hex.EncodeToString(b))
}

func PairLit() *Node {
	return lit(&pb.LiteralNodeProto{Value: &pb.LiteralNodeProto_PairValue{PairValue: &pb.PairProto{}}}, "o:pairproto:")
}

func FeatureLit() *Node {
	return lit(&pb.LiteralNodeProto{Value: &pb.LiteralNodeProto_FeatureValue{FeatureValue: &pb.FeatureProto{}}}, "o:featureproto:")
}

func AppliedChangeLit() *Node {
	return lit(&pb.LiteralNodeProto{Value: &pb.LiteralNodeProto_AppliedChangeValue{AppliedChangeValue: &pb.AppliedChangeProto{}}}, "o:appliedchangeproto:")
}

func EmptyLit() *Node { return lit(&pb.LiteralNodeProto{}, "o:unset:") }

// Coll is a literal collection; keys and values are literal nodes (the lengths may differ on purpose).
func Coll(keys, values []*Node) *Node {
	c := &pb.CollectionProto{}
	ks := make([]string, len(keys))
	vs := make([]string, len(values))
	for i, k := range keys {
		c.Keys = append(c.Keys, k.Lit)
		ks[i] = strings.Join(k.Toks, "_")
	}
	for i, v := range values {
		c.Values = append(c.Values, v.Lit)
		vs[i] = strings.Join(v.Toks, "_")
	}
	return lit(&pb.LiteralNodeProto{Value: &pb.LiteralNodeProto_CollectionValue{CollectionValue: c}},
		"o:coll:["+strings.Join(ks, ",")+"]["+strings.Join(vs, ",")+"]")
}

// ---- queries ---------------------------------------------------------------------------------------

type Q struct {
	P    *pb.QueryProto
	Toks []string
}

func qOther(p *pb.QueryProto, text string) *Q {
	return &Q{P: p, Toks: []string{"(", "other", "s:" + text, ")"}}
}

func QKeyed(k string) *Q {
	q := &Q{P: &pb.QueryProto{Query: &pb.QueryProto_Keyed{Keyed: k}}}
	if wordSafe(k) {
		q.Toks = []string{"(", "keyed", "s:" + k, ")"}
	} else {
		q.Toks = []string{"(", "other", "s:keyedx:" + hex.EncodeToString([]byte(k)), ")"}
	}
	return q
}

func QTagged(k, v string) *Q {
	q := &Q{P: &pb.QueryProto{Query: &pb.QueryProto_Tagged{Tagged: &pb.TagProto{Key: k, Value: v}}}}
	if wordSafe(k) && wordSafe(v) {
		q.Toks = []string{"(", "tagged", "s:" + k, "s:" + v, ")"}
	} else {
		q.Toks = []string{"(", "other", "s:taggedx:" + hex.EncodeToString([]byte(k+"\x00"+v)), ")"}
	}
	return q
}

func QTyped(t pb.FeatureType, c *Q) *Q {
	tq := &pb.TypedQueryProto{Type: t}
	if c == nil { // a typed query without its child (wire-reachable)
		return qOther(&pb.QueryProto{Query: &pb.QueryProto_Typed{Typed: tq}}, "typed-nochild:"+ftName(t))
	}
	tq.Query = c.P
	q := &Q{P: &pb.QueryProto{Query: &pb.QueryProto_Typed{Typed: tq}}}
	q.Toks = append([]string{"(", "typed", "s:" + ftName(t)}, c.Toks...)
	q.Toks = append(q.Toks, ")")
	return q
}

func qMany(op string, cs []*Q) *Q {
	qs := &pb.QueriesProto{}
	toks := []string{"(", op}
	for _, c := range cs {
		qs.Queries = append(qs.Queries, c.P)
		toks = append(toks, c.Toks...)
	}
	toks = append(toks, ")")
	if op == "and" {
		return &Q{P: &pb.QueryProto{Query: &pb.QueryProto_Intersection{Intersection: qs}}, Toks: toks}
	}
	return &Q{P: &pb.QueryProto{Query: &pb.QueryProto_Union{Union: qs}}, Toks: toks}
}

func QAnd(cs ...*Q) *Q { return qMany("and", cs) }
func QOr(cs ...*Q) *Q  { return qMany("or", cs) }
func QAll() *Q         { return qOther(&pb.QueryProto{Query: &pb.QueryProto_All{All: &pb.AllQueryProto{}}}, "all") }
func QEmpty() *Q {
	return qOther(&pb.QueryProto{Query: &pb.QueryProto_Empty{Empty: &pb.EmptyQueryProto{}}}, "empty")
}
func QIsValid() *Q {
	return qOther(&pb.QueryProto{Query: &pb.QueryProto_IsValid{IsValid: &pb.IsValidQueryProto{}}}, "is-valid")
}
func QUnset() *Q { return qOther(&pb.QueryProto{}, "unset") }
func QCap(center *pt, r float64) *Q {
	c := &pb.CapProto{RadiusMeters: r}
	t := "cap:-"
	if center != nil {
		c.Center = center.proto()
		t = "cap:" + center.text()
	}
	return qOther(&pb.QueryProto{Query: &pb.QueryProto_IntersectsCap{IntersectsCap: c}}, t+":"+strconv.FormatFloat(r, 'g', -1, 64))
}
func QFeature(id *pb.FeatureIDProto) *Q {
	return qOther(&pb.QueryProto{Query: &pb.QueryProto_IntersectsFeature{IntersectsFeature: id}}, "feature:"+fidText(id))
}
func QPoint(p pt) *Q {
	return qOther(&pb.QueryProto{Query: &pb.QueryProto_IntersectsPoint{IntersectsPoint: p.proto()}}, "point:"+p.text())
}
func QPolyline(ps []pt) *Q {
	return qOther(&pb.QueryProto{Query: &pb.QueryProto_IntersectsPolyline{IntersectsPolyline: &pb.PolylineProto{Points: ptsProto(ps)}}}, "polyline:"+ptsText(ps))
}
func QMultiPolygon(polygons [][][]pt) *Q {
	return qOther(&pb.QueryProto{Query: &pb.QueryProto_IntersectsMultiPolygon{IntersectsMultiPolygon: mpProto(polygons)}}, "multipolygon:"+mpText(polygons))
}
func QCells(cells []uint64) *Q {
	xs := make([]string, len(cells))
	for i, c := range cells {
		xs[i] = strconv.FormatUint(c, 16)
	}
	return qOther(&pb.QueryProto{Query: &pb.QueryProto_IntersectsCells{IntersectsCells: &pb.S2CellIDsProto{S2CellIDs: cells}}}, "cells:"+strings.Join(xs, ","))
}
func QMight(cells []uint64) *Q {
	xs := make([]string, len(cells))
	for i, c := range cells {
		xs[i] = strconv.FormatUint(c, 16)
	}
	return qOther(&pb.QueryProto{Query: &pb.QueryProto_MightIntersect{MightIntersect: &pb.S2CellIDsProto{S2CellIDs: cells}}}, "might:"+strings.Join(xs, ","))
}

func QL(q *Q) *Node {
	toks := append([]string{"(", "q"}, q.Toks...)
	toks = append(toks, ")")
	return lit(&pb.LiteralNodeProto{Value: &pb.LiteralNodeProto_QueryValue{QueryValue: q.P}}, toks...)
}

var nan = math.NaN()
