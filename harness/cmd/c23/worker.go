package main

// A persistent child process evaluates the requests (copied from harness/cmd/c21/lang/worker.go, plus
// capture of the child's stderr so that a fatal error - a panic on another goroutine, a Go stack
// overflow, out of memory - can be attributed to a site). One request line in, one answer line out: the
// request being processed when the child dies is the one that killed it.

import (
	"bufio"
	"fmt"
	"os"
	"os/exec"
	"regexp"
	"strings"
	"sync"
	"syscall"
	"time"
)

const workerEnv = "B6_C23_WORKER"

func ServeIfWorker(handle func(req string) string) bool {
	if os.Getenv(workerEnv) == "" {
		return false
	}
	// address-space cap: a runaway allocation ends this child, not the machine
	lim := syscall.Rlimit{Cur: 12 << 30, Max: 12 << 30}
	syscall.Setrlimit(syscall.RLIMIT_AS, &lim)
	in := bufio.NewReaderSize(os.Stdin, 1<<20)
	out := bufio.NewWriter(os.Stdout)
	for {
		line, err := in.ReadString('\n')
		if err != nil {
			return true
		}
		ans := handle(strings.TrimRight(line, "\n"))
		fmt.Fprintln(out, strings.ReplaceAll(ans, "\n", " "))
		out.Flush()
	}
}

type tailBuf struct {
	mu sync.Mutex
	b  []byte
}

func (t *tailBuf) Write(p []byte) (int, error) {
	t.mu.Lock()
	t.b = append(t.b, p...)
	if len(t.b) > 1<<17 {
		t.b = append([]byte{}, t.b[:1<<16]...) // keep the head: the first goroutine trace is the crashing one
	}
	t.mu.Unlock()
	return len(p), nil
}

func (t *tailBuf) String() string {
	t.mu.Lock()
	defer t.mu.Unlock()
	return string(t.b)
}

type Worker struct {
	Timeout time.Duration
	cmd     *exec.Cmd
	in      *bufio.Writer
	lines   chan string
	stderr  *tailBuf
	Crashes int
	Hangs   int
}

func (w *Worker) start() error {
	self, err := os.Executable()
	if err != nil {
		return err
	}
	w.cmd = exec.Command(self)
	w.cmd.Env = append(os.Environ(), workerEnv+"=1", "GOMEMLIMIT=3GiB", "GOTRACEBACK=single")
	w.stderr = &tailBuf{}
	w.cmd.Stderr = w.stderr
	stdin, err := w.cmd.StdinPipe()
	if err != nil {
		return err
	}
	stdout, err := w.cmd.StdoutPipe()
	if err != nil {
		return err
	}
	if err := w.cmd.Start(); err != nil {
		return err
	}
	w.in = bufio.NewWriter(stdin)
	lines := make(chan string, 1)
	w.lines = lines
	go func() {
		r := bufio.NewReaderSize(stdout, 1<<20)
		for {
			line, err := r.ReadString('\n')
			if err != nil {
				close(lines)
				return
			}
			lines <- strings.TrimRight(line, "\n")
		}
	}()
	return nil
}

func (w *Worker) stop() {
	if w.cmd != nil {
		w.cmd.Process.Kill()
		w.cmd.Wait()
		w.cmd = nil
	}
}

func (w *Worker) Close() { w.stop() }

var frameRe = regexp.MustCompile(`(?m)^(diagonal\.works/b6[^\s(]*)\(`)

// crashSite names the first b6 frame of the dying goroutine's trace.
func crashSite(stderr string) string {
	kind := "fatal"
	if strings.Contains(stderr, "panic: ") {
		kind = "goroutine-panic"
	}
	if strings.Contains(stderr, "stack overflow") || strings.Contains(stderr, "goroutine stack exceeds") {
		kind = "stack-overflow"
	} else if strings.Contains(stderr, "out of memory") || strings.Contains(stderr, "cannot allocate memory") {
		kind = "out-of-memory"
	} else if strings.Contains(stderr, "concurrent map") {
		kind = "concurrent-map"
	} else if strings.Contains(stderr, "all goroutines are asleep") {
		kind = "deadlock"
	}
	site := "?"
	for _, m := range frameRe.FindAllStringSubmatch(stderr, -1) {
		if strings.Contains(m[1], "verifharness") {
			continue
		}
		site = shortFunc(m[1])
		break
	}
	return site + " " + kind
}

// Ask sends one request and returns the worker's answer, "crash <site> <kind>" if it died, "hang" on timeout.
func (w *Worker) Ask(req string) string {
	if w.cmd == nil {
		if err := w.start(); err != nil {
			return "crash ? start"
		}
	}
	if w.Timeout == 0 {
		w.Timeout = 20 * time.Second
	}
	fmt.Fprintln(w.in, req)
	if err := w.in.Flush(); err != nil {
		w.stop()
		w.Crashes++
		return "crash ? write"
	}
	select {
	case line, ok := <-w.lines:
		if !ok {
			w.cmd.Wait()
			site := crashSite(w.stderr.String())
			w.cmd = nil
			w.Crashes++
			return "crash " + site
		}
		return line
	case <-time.After(w.Timeout):
		w.stop()
		w.Hangs++
		return "hang"
	}
}

// shortFunc turns "diagonal.works/b6/api/functions.(*x).Next" into "api/functions.(*x).Next"
func shortFunc(f string) string {
	f = strings.TrimPrefix(f, "diagonal.works/b6/")
	f = strings.TrimPrefix(f, "diagonal.works/")
	if i := strings.Index(f, "["); i >= 0 { // generic instantiation
		if j := strings.LastIndex(f, "]"); j > i {
			f = f[:i] + f[j+1:]
		}
	}
	return strings.ReplaceAll(f, " ", "")
}
