package main

import (
	pb "diagonal.works/b6/proto"
)

// corpus: fixed witnesses of the defects found by the sweep (repaired ones first, then one per recorded
// finding class), each evaluated on a fresh town world. mut "ov" = with the overlay layer filled.
func corpus() []witness {
	osmNode := func(v uint64) *Node { return FID(pb.FeatureType_FeatureTypePoint, "openstreetmap.org/node", v) }
	way := func(v uint64) *Node { return FID(pb.FeatureType_FeatureTypePath, "openstreetmap.org/way", v) }
	p0 := pt{515367000, -1230000}
	square := [][][]pt{{{{515350000, -1250000}, {515350000, -1240000}, {515360000, -1240000}, {515360000, -1250000}}}}
	noCentre := QCap(nil, 156.75)
	return []witness{
		// ---- repaired by other builders' patches; anchors of this property
		{"top-empty", F("top", F("collection"), I(3)), "-"},
		{"take-negative", F("count", F("take", Coll([]*Node{I(0), I(1)}, []*Node{I(5), I(6)}), I(-1))), "-"},
		{"call-lambda-literal", C(L([]string{"a"}, F("add-ints", S("a"), S("a"))), I(1)), "-"},
		{"call-non-callable", C(F("add-ints", I(1), I(2)), I(3)), "-"},
		{"partial-reapply", C(C(F("clamp", I(1)), I(2)), I(3)), "-"},
		// ---- repaired by fixes/C23-*.patch
		{"feature-type-from-proto", lit(&pb.LiteralNodeProto{Value: &pb.LiteralNodeProto_FeatureIDValue{FeatureIDValue: fidProto(pb.FeatureType(9), "openstreetmap.org/node", 127)}}, "o:fid:/type9/openstreetmap.org/node/127"), "-"},
		{"feature-type-from-proto-typed", F("find", QL(QTyped(pb.FeatureType(9), QAll()))), "-"},
		{"point-proto-nil", QL(noCentre), "-"},
		{"point-proto-nil-find", F("find", QL(QAnd(noCentre, QKeyed("#building")))), "-"},
		{"expression-from-proto-nil-request", Str("main"), "no-request"},
		{"expression-from-proto-nil-function", F("add-ints", I(1), I(2)), "clear:0"},
		{"expression-from-proto-nil-lambda-body", L([]string{"x"}, S("x")), "clear:0"},
		{"geojson-literal-from-proto", F("pair", Nil(), GeoJSONLit([]byte("{}"))), "-"},
		{"histogram-error-before-use", F("histogram", F("map", Coll([]*Node{I(0)}, []*Node{I(1)}), S("get"))), "-"},
		{"histogram-error-before-use-filter", F("histogram-with-id", F("filter", Coll([]*Node{I(0), I(1)}, []*Node{I(1), I(2)}), L([]string{"x"}, F("divide", S("x"), Str("a")))),
			FID(pb.FeatureType_FeatureTypeCollection, "diagonal.works/ns/c23", 7)), "-"},
		{"histogram-mixed-values", F("histogram", Coll([]*Node{I(0), I(1)}, []*Node{I(1), Fl(2.5)})), "-"},
		{"histogram-mixed-values-tag", F("histogram", Coll([]*Node{I(0), I(1), I(2)}, []*Node{I(4), I(2), Tag("k", "v")})), "-"},
		{"count-unhashable-values", F("count-values", Coll([]*Node{I(0)}, []*Node{Coll(nil, nil)})), "-"},
		{"count-unhashable-keys", F("count-keys", Coll([]*Node{Area(square)}, []*Node{I(1)})), "-"},
		{"count-unhashable-valid-keys", F("count-valid-keys", Coll([]*Node{Route(nil, nil)}, []*Node{osmNode(111)})), "-"},
		{"count-unhashable-sum-by-key", F("sum-by-key", Coll([]*Node{Coll(nil, nil), I(1)}, []*Node{I(1), I(2)})), "-"},
		{"count-unhashable-histogram", F("histogram", Coll([]*Node{I(0), I(1)}, []*Node{Coll(nil, nil), I(2)})), "-"},
		{"convert-nil-interface", F("points", F("find-collection", FID(pb.FeatureType_FeatureTypeCollection, "", 2))), "-"},
		{"sample-points-distance-zero", F("sample-points", Path([]pt{{515350000, -1250000}, {515360000, -1240000}}), Fl(0)), "-"},
		{"sample-points-distance-negative", F("sample-points", Path([]pt{{515350000, -1250000}, {515360000, -1240000}}), Fl(-44.75)), "-"},
		{"sample-points-distance-nan", F("sample-points-along-paths", Coll([]*Node{way(200)}, []*Node{Path([]pt{{515350000, -1250000}, {515360000, -1240000}})}), Fl(nan)), "-"},
		{"validate-feature-representation-relation", F("add-point", Point(p0), FID(pb.FeatureType_FeatureTypeRelation, "openstreetmap.org/relation", 700), Coll([]*Node{I(0)}, []*Node{Tag("path", "zz")})), "ov"},
		{"validate-feature-representation-area", F("add-expression", FID(pb.FeatureType_FeatureTypeArea, "diagonal.works/ns/c23", 726414917505418541), Coll(nil, nil), S("changes-to-file")), "-"},
		{"validate-feature-representation-collection", F("add-point", Point(p0), FID(pb.FeatureType_FeatureTypeCollection, "diagonal.works/ns/c23", 2), Coll(nil, nil)), "-"},
		{"divide-int-by-zero", F("divide", I(31), I(0)), "-"},
		{"divide-int-by-zero-count", F("divide", I(7), F("count", F("collection"))), "-"},
		{"zero-collection", F("accessible-routes", FID(pb.FeatureType_FeatureTypeInvalid, "openstreetmap.org/node", 343), QL(QAll()), Fl(-1), Coll([]*Node{Str("maxspeed")}, []*Node{I(1)})), "-"},
		{"zero-collection-count", F("count", F("accessible-routes", osmNode(999), QL(QAll()), Fl(100), Coll(nil, nil))), "-"},
		{"nil-value-lambda-argument", F("call", L([]string{"va"}, S("va")), F("find-relation", FID(pb.FeatureType_FeatureTypeRelation, "openstreetmap.org/relation", 999))), "-"},
		{"nil-value-literal-argument", C(L([]string{"a"}, S("a")), Nil()), "-"},
		{"nil-value-literal-to-function", F("first", F("pair", Nil(), I(1))), "-"},
		{"nil-value-in-collection-map", F("map", Coll([]*Node{I(0)}, []*Node{Nil()}), L([]string{"x"}, S("x"))), "-"},
		{"nil-value-in-collection-filter", F("count", F("filter", Coll([]*Node{I(0), I(1)}, []*Node{Nil(), I(2)}), L([]string{"x"}, F("gt", S("x"), I(1))))), "-"},
		{"nil-value-in-collection-map-items", F("map-items", Coll([]*Node{I(0)}, []*Node{Nil()}), S("first")), "-"},
		{"nil-value-in-collection-map-parallel", F("map-parallel", Coll([]*Node{I(0)}, []*Node{Nil()}), L([]string{"x"}, S("x"))), "-"},
		// ---- guards that exist; kept as witnesses for mutations of them
		{"collection-literal-fewer-values", F("count", Coll([]*Node{I(0), I(1)}, []*Node{I(5)})), "-"},
		{"collection-literal-fewer-keys", F("count", Coll([]*Node{I(0)}, []*Node{I(5), I(6)})), "-"},
		{"no-root", F("add-ints", I(1), I(2)), "no-root"},
		{"extra-argument", F("add-ints", I(1), I(2), I(3)), "-"},
		{"too-many-arguments-to-lambda", C(L(nil, I(5)), I(1)), "-"},
		{"too-many-arguments-to-lambda-2", C(L([]string{"a"}, F("add-ints", S("a"), I(1))), I(1), I(2)), "-"},
		{"too-few-arguments-to-lambda", C(C(L([]string{"a", "b"}, F("add-ints", S("a"), S("b"))), I(1)), I(2)), "-"},
		{"too-many-arguments-to-partial", C(F("add-ints", I(1)), I(2), I(3)), "-"},
		// ---- recorded findings (KNOWN_FINDINGS.txt), one or two witnesses per class
		{"finding-geometry-kind-join", F("join", Point(p0), Point(pt{})), "-"},
		{"finding-geometry-kind-length", F("length", Area(nil)), "-"},
		{"finding-geometry-kind-interpolate", F("interpolate", Point(p0), Fl(0)), "-"},
		{"finding-geometry-kind-sightline", F("sightline", Path(nil), Fl(314)), "-"},
		{"finding-geometry-kind-to-geojson", F("to-geojson", Area([][][]pt{{}})), "-"},
		{"finding-nil-feature-tile-ids", F("tile-ids", F("find-collection", FID(pb.FeatureType_FeatureTypeCollection, "diagonal.works/ns/c23", 2))), "-"},
		{"finding-nil-feature-degree", F("degree", F("find-feature", osmNode(999))), "-"},
		{"finding-nil-feature-options", F("accessible-routes", FID(pb.FeatureType_FeatureTypePoint, "openstreetmap.org/node", 111), QL(QAll()), Fl(260), F("find-collection", FID(pb.FeatureType_FeatureTypeCollection, "diagonal.works/ns/c23", 2))), "-"},
		{"finding-unliterable-item", F("count-keys", F("map-items", Coll([]*Node{I(4)}, []*Node{QL(QKeyed("name"))}), L([]string{"va"}, F("pair", I(1), S("va"))))), "-"},
		{"finding-typed-query-type", F("find", QL(QTyped(pb.FeatureType_FeatureTypeExpression, QKeyed("point")))), "-"},
		{"finding-closure-registers", C(C(C(L([]string{"a", "b"}, L([]string{"c"}, F("add-ints", S("a"), S("c")))), I(1)), I(2)), I(3)), "-"},
	}
}
