package main

import (
	pb "diagonal.works/b6/proto"
)

// corpus: fixed witnesses of the defects found by the sweep (repaired ones first, then the recorded
// findings), each evaluated on a fresh town world.
func corpus() []witness {
	osmNode := func(v uint64) *Node { return FID(pb.FeatureType_FeatureTypePoint, "openstreetmap.org/node", v) }
	_ = osmNode
	return []witness{
		// fixed by other builders' patches, kept here because they are this property's anchors
		{"top-empty", F("top", F("collection"), I(3)), "-"},
		{"take-negative", F("count", F("take", Coll([]*Node{I(0), I(1)}, []*Node{I(5), I(6)}), I(-1))), "-"},
		{"call-lambda-literal", C(L([]string{"a"}, F("add-ints", S("a"), S("a"))), I(1)), "-"},
		{"call-non-callable", C(F("add-ints", I(1), I(2)), I(3)), "-"},
		{"partial-reapply", C(C(F("clamp", I(1)), I(2)), I(3)), "-"},
	}
}
