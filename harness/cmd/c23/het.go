package main

// The systematic part of the sweep: heterogeneous collections and callbacks of the wrong kind.
//
// The random generator's collections are (nearly) always homogeneous, so code that looks at the first
// item to decide how to treat the rest (top, histogram, percentiles, the collection adaptors) was hardly
// exercised. Here every parameter of collection type of every table function is given, for every
// (key kind, value kind) of the first items (6 x 6), collections whose later items keep the key kind and
// take each of the 6 value kinds, and collections whose later items keep the value kind and take each of
// the 6 key kinds (e.g. id -> id first, then id -> string: the origin-destination histogram); and every
// parameter of function type is given a lambda returning each kind (and one that fails). The cases with the lowest numbers are these, in a fixed
// order (the other arguments still come from the case's PRNG); the random cases follow.

import (
	"fmt"

	pb "diagonal.works/b6/proto"
)

var hetKinds = []string{"int", "float", "string", "fid", "pair", "nil"}

// kinds a callback can return
var retKinds = []string{"int", "float", "string", "fid", "pair", "nil", "bool", "coll", "tag", "point", "query", "error"}

type sysSpec struct {
	f     *fn
	param int
	a, b  string // collection specs: key kind and value kind of the FIRST item
	fnArg bool   // a function-typed parameter: one request per retKind
}

var sysSpecs []sysSpec

func systematic() []sysSpec {
	if sysSpecs != nil {
		return sysSpecs
	}
	loadTable()
	for _, f := range table {
		for p, s := range f.params {
			if s.k == sCollection {
				for _, a := range hetKinds {
					for _, b := range hetKinds {
						sysSpecs = append(sysSpecs, sysSpec{f: f, param: p, a: a, b: b})
					}
				}
			}
		}
	}
	for _, f := range table {
		for p, s := range f.params {
			if s.k == sCallable {
				sysSpecs = append(sysSpecs, sysSpec{f: f, param: p, fnArg: true})
			}
		}
	}
	return sysSpecs
}

// hetElem is an expression of the given kind; i varies the value.
func (g *Gen) hetElem(kind string, i int) *Node {
	w := g.W
	switch kind {
	case "int":
		return I([]int{3, 1, 7, -2, 0, 12}[i%6])
	case "float":
		return Fl([]float64{1.5, 0.25, 7, -2.5, 1e9, 3}[i%6])
	case "string":
		// "5" and "12" are numerical for the histogram's bucketing; depending on the position the first
		// string of a collection is one of them or not
		return Str([]string{"a", "5", "b", "12", "#highway", ""}[i%6])
	case "fid":
		if len(w.points) > 0 {
			return FID(pb.FeatureType_FeatureTypePoint, "openstreetmap.org/node", w.points[(i*7)%len(w.points)])
		}
		return FID(pb.FeatureType_FeatureTypePoint, "openstreetmap.org/node", uint64(100+i))
	case "pair":
		g.use("pair")
		return F("pair", I(i), Str("p"))
	case "nil":
		g.use("find-feature")
		return F("find-feature", FID(pb.FeatureType_FeatureTypePoint, "diagonal.works/ns/c23", uint64(900+i)))
	case "bool":
		return Bo(i%2 == 0)
	case "tag":
		return Tag("#highway", "primary")
	case "point":
		return Point(pt{515367000 + int32(i)*1000, -1230000})
	case "query":
		return QL(QKeyed("#building"))
	case "coll":
		return Coll([]*Node{I(0), I(1)}, []*Node{I(4 + i), I(2)})
	}
	return I(i)
}

func literalKind(k string) bool { return k != "pair" && k != "nil" }

// hetCollection: n items, the first j of kinds (ka, va), the rest of kinds (kb, vb). A literal collection
// (b6.ArrayCollection) when every kind has a literal form and the coin says so, `collection (pair k v) …`
// (pairCollection) otherwise.
func (g *Gen) hetCollection(ka, kb, va, vb string) *Node {
	r := g.R
	n := 2 + r.Intn(3)
	j := 1 + r.Intn(n-1)
	ks, vs := make([]*Node, n), make([]*Node, n)
	for i := 0; i < n; i++ {
		k, v := ka, va
		if i >= j {
			k, v = kb, vb
		}
		ks[i], vs[i] = g.hetElem(k, i), g.hetElem(v, i+1+len(ka)%2)
	}
	if literalKind(ka) && literalKind(kb) && literalKind(va) && literalKind(vb) && r.Bool() {
		return Coll(ks, vs)
	}
	g.use("collection")
	g.use("pair")
	args := make([]*Node, n)
	for i := range args {
		args[i] = F("pair", ks[i], vs[i])
	}
	return F("collection", args...)
}

// strictCallable: a well-formed callback of one parameter, for the collection specs
func (g *Gen) strictCallable(arity int) *Node {
	r := g.R
	if arity < 0 {
		arity = 1
	}
	ps := make([]string, arity)
	for i := range ps {
		ps[i] = g.param()
	}
	g.note("lambda")
	if arity == 0 {
		return L(ps, I(1))
	}
	x := S(ps[0])
	switch r.Intn(7) {
	case 0:
		return L(ps, x)
	case 1:
		return L(ps, I(1))
	case 2:
		return L(ps, Bo(true))
	case 3:
		g.use("pair")
		return L(ps, F("pair", x, x))
	case 4:
		g.use("gt")
		return L(ps, F("gt", x, I(1)))
	case 5:
		g.use("add")
		return L(ps, F("add", x, I(1)))
	default:
		g.use("first")
		return L(ps, F("first", x))
	}
}

// sysCall builds the call of s.f with `special` at s.param and well-formed, tame other arguments.
func (g *Gen) sysCall(s sysSpec, special *Node, elemKind string) *Node {
	f := s.f
	g.use(f.name)
	g.tame++
	g.strict = true
	defer func() { g.tame--; g.strict = false }()
	var args []*Node
	for i, p := range f.params {
		if i == s.param {
			args = append(args, special)
			continue
		}
		if f.variadic && i == len(f.params)-1 {
			break
		}
		switch p.k {
		case sCallable:
			args = append(args, g.strictCallable(p.arity))
		case sInt:
			args = append(args, I(1+g.R.Intn(5))) // (zero, negative and huge counts are the random part's)
		case sCollection:
			// a plain, valid collection of the values the callback / function is most likely to accept
			args = append(args, Coll([]*Node{I(0), I(1), I(2)}, []*Node{g.hetElem(elemKind, 0), g.hetElem(elemKind, 1), g.hetElem(elemKind, 2)}))
		default:
			args = append(args, g.expr(p, nil, 1))
		}
	}
	return F(f.name, args...)
}

// sysCase builds the requests of systematic case number no.
func sysCase(no int, g func() *Gen) []*request {
	s := systematic()[no]
	var reqs []*request
	add := func(gen *Gen, p *Node, bucket string) {
		gen.note("systematic")
		reqs = append(reqs, &request{prog: p, mut: "-", direct: gen.R.Chance(1, 4), feat: gen.Feat, used: gen.Used, bucket: bucket})
	}
	if s.fnArg {
		for _, rk := range retKinds {
			gen := g()
			p := gen.param()
			var body *Node
			if rk == "error" {
				gen.use("first")
				body = F("first", I(1)) // "expected api.Pair, found int"
			} else {
				body = gen.hetElem(rk, 1)
			}
			arity := s.f.params[s.param].arity
			var lam *Node
			if arity == 0 {
				lam = L(nil, body)
			} else {
				ps := []string{p}
				for k := 1; k < arity; k++ {
					ps = append(ps, gen.param())
				}
				lam = L(ps, body)
			}
			gen.note("lambda")
			elem := []string{"int", "float", "fid", "point", "tag"}[gen.R.Intn(5)]
			add(gen, gen.sysCall(s, lam, elem), fmt.Sprintf("ret:%s:%s", s.f.name, rk))
		}
		return reqs
	}
	// first item (s.a, s.b) = (key kind, value kind); later items keep the key kind and change the value
	// kind (6 requests), or keep the value kind and change the key kind (6 requests): the cross product
	// that matters for code choosing a path by looking at the first item only
	for _, vb := range hetKinds {
		gen := g()
		add(gen, gen.sysCall(s, gen.hetCollection(s.a, s.a, s.b, vb), "int"), fmt.Sprintf("het:%s/%d:first=%s,%s", s.f.name, s.param, s.a, s.b))
		gen.note("het-change:v:" + s.b + ">" + vb)
	}
	for _, kb := range hetKinds {
		gen := g()
		add(gen, gen.sysCall(s, gen.hetCollection(s.a, kb, s.b, s.b), "int"), fmt.Sprintf("het:%s/%d:first=%s,%s", s.f.name, s.param, s.a, s.b))
		gen.note("het-change:k:" + s.a + ">" + kb)
	}
	return reqs
}
