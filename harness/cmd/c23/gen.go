package main

// Type-directed generator over the WHOLE registered function table. The table is read by reflection
// (functions.Functions()): every Go parameter and result type is mapped to a "sort"; an argument of a
// wanted sort is a literal of that sort (edge values included), a call of any table function whose
// result can feed it, a lambda parameter in scope, or - with a small probability - something of a wrong
// sort. Nothing is listed by hand except literals per sort: a function added to the table is swept too.

import (
	"math"
	"reflect"
	"sort"
	"strings"

	"diagonal.works/b6"
	"diagonal.works/b6/api"
	"diagonal.works/b6/api/functions"
	"diagonal.works/b6/geojson"
	"diagonal.works/b6/ingest"
	pb "diagonal.works/b6/proto"

	"verifharness/hx"
)

type sortKind int

const (
	sAny sortKind = iota
	sInt
	sFloat
	sString
	sBool
	sNumber
	sPair
	sCallable
	sQuery
	sGeometry
	sArea
	sFeature
	sIdentifiable
	sFeatureID
	sTag
	sCollection
	sChange
	sGeoJSON
	sExpression
	sRoute
	sOther
	nSorts
)

var sortNames = [...]string{"any", "int", "float", "string", "bool", "number", "pair", "callable", "query", "geometry", "area",
	"feature", "identifiable", "featureid", "tag", "collection", "change", "geojson", "expression", "route", "other"}

// srt is a sort with what the generator needs to know beyond it.
type srt struct {
	k     sortKind
	ft    pb.FeatureType // sFeature / sFeatureID / sIdentifiable: preferred feature type (Invalid = any)
	arity int            // sCallable: wanted arity (-1 = unknown)
	key   *srt           // sCollection
	val   *srt
}

var (
	tInt          = reflect.TypeOf(int(0))
	tFloat        = reflect.TypeOf(float64(0))
	tString       = reflect.TypeOf("")
	tBool         = reflect.TypeOf(false)
	tAny          = reflect.TypeOf((*interface{})(nil)).Elem()
	tNumber       = reflect.TypeOf((*b6.Number)(nil)).Elem()
	tPair         = reflect.TypeOf((*api.Pair)(nil)).Elem()
	tCallable     = reflect.TypeOf((*api.Callable)(nil)).Elem()
	tQuery        = reflect.TypeOf((*b6.Query)(nil)).Elem()
	tGeometry     = reflect.TypeOf((*b6.Geometry)(nil)).Elem()
	tArea         = reflect.TypeOf((*b6.Area)(nil)).Elem()
	tFeature      = reflect.TypeOf((*b6.Feature)(nil)).Elem()
	tAreaFeature  = reflect.TypeOf((*b6.AreaFeature)(nil)).Elem()
	tRelFeature   = reflect.TypeOf((*b6.RelationFeature)(nil)).Elem()
	tCollFeature  = reflect.TypeOf((*b6.CollectionFeature)(nil)).Elem()
	tPhysFeature  = reflect.TypeOf((*b6.PhysicalFeature)(nil)).Elem()
	tIdentifiable = reflect.TypeOf((*b6.Identifiable)(nil)).Elem()
	tFeatureID    = reflect.TypeOf(b6.FeatureID{})
	tAreaID       = reflect.TypeOf(b6.AreaID{})
	tRelationID   = reflect.TypeOf(b6.RelationID{})
	tCollectionID = reflect.TypeOf(b6.CollectionID{})
	tTag          = reflect.TypeOf(b6.Tag{})
	tUntyped      = reflect.TypeOf((*b6.UntypedCollection)(nil)).Elem()
	tChange       = reflect.TypeOf((*ingest.Change)(nil)).Elem()
	tGeoJSON      = reflect.TypeOf((*geojson.GeoJSON)(nil)).Elem()
	tExpression   = reflect.TypeOf(b6.Expression{})
	tRoute        = reflect.TypeOf(b6.Route{})
)

// sortOf maps a Go type of the function table to a sort.
func sortOf(t reflect.Type) *srt {
	switch t {
	case tInt:
		return &srt{k: sInt}
	case tFloat:
		return &srt{k: sFloat}
	case tString:
		return &srt{k: sString}
	case tBool:
		return &srt{k: sBool}
	case tAny:
		return &srt{k: sAny}
	case tNumber:
		return &srt{k: sNumber}
	case tPair:
		return &srt{k: sPair}
	case tCallable:
		return &srt{k: sCallable, arity: -1}
	case tQuery:
		return &srt{k: sQuery}
	case tGeometry:
		return &srt{k: sGeometry}
	case tArea:
		return &srt{k: sArea}
	case tFeature, tPhysFeature:
		return &srt{k: sFeature}
	case tAreaFeature:
		return &srt{k: sFeature, ft: pb.FeatureType_FeatureTypeArea}
	case tRelFeature:
		return &srt{k: sFeature, ft: pb.FeatureType_FeatureTypeRelation}
	case tCollFeature:
		return &srt{k: sFeature, ft: pb.FeatureType_FeatureTypeCollection}
	case tIdentifiable:
		return &srt{k: sIdentifiable}
	case tFeatureID:
		return &srt{k: sFeatureID}
	case tAreaID:
		return &srt{k: sFeatureID, ft: pb.FeatureType_FeatureTypeArea}
	case tRelationID:
		return &srt{k: sFeatureID, ft: pb.FeatureType_FeatureTypeRelation}
	case tCollectionID:
		return &srt{k: sFeatureID, ft: pb.FeatureType_FeatureTypeCollection}
	case tTag:
		return &srt{k: sTag}
	case tChange:
		return &srt{k: sChange}
	case tGeoJSON:
		return &srt{k: sGeoJSON}
	case tExpression:
		return &srt{k: sExpression}
	case tRoute:
		return &srt{k: sRoute}
	case tUntyped:
		return &srt{k: sCollection, key: &srt{k: sAny}, val: &srt{k: sAny}}
	}
	if t.Kind() == reflect.Func {
		return &srt{k: sCallable, arity: t.NumIn() - 1}
	}
	if t.Kind() == reflect.Slice && t.Elem() == tAny {
		return &srt{k: sAny}
	}
	if t.Implements(tUntyped) && t.Kind() == reflect.Struct {
		// b6.Collection[K,V]: read K and V from the Begin() method's iterator
		if m, ok := t.MethodByName("Begin"); ok && m.Type.NumOut() == 1 {
			it := m.Type.Out(0)
			if km, ok := it.MethodByName("Key"); ok {
				if vm, ok := it.MethodByName("Value"); ok {
					return &srt{k: sCollection, key: sortOf(km.Type.Out(0)), val: sortOf(vm.Type.Out(0))}
				}
			}
		}
		return &srt{k: sCollection, key: &srt{k: sAny}, val: &srt{k: sAny}}
	}
	return &srt{k: sOther}
}

type fn struct {
	name     string
	params   []*srt
	variadic bool
	result   *srt
	ptypes   []string
}

var (
	table   []*fn            // sorted by name
	byName  map[string]*fn   //
	bySort  [nSorts][]*fn    // producers by result sort
	collFns []*fn            // functions taking a collection first (pipelines)
)

func loadTable() {
	if table != nil {
		return
	}
	byName = map[string]*fn{}
	fs := functions.Functions()
	names := make([]string, 0, len(fs))
	for n := range fs {
		names = append(names, n)
	}
	sort.Strings(names)
	for _, n := range names {
		t := reflect.TypeOf(fs[n])
		if t.Kind() != reflect.Func || t.NumIn() < 1 {
			continue
		}
		f := &fn{name: n, variadic: t.IsVariadic()}
		for i := 1; i < t.NumIn(); i++ {
			f.params = append(f.params, sortOf(t.In(i)))
			f.ptypes = append(f.ptypes, t.In(i).String())
		}
		if t.NumOut() > 0 {
			f.result = sortOf(t.Out(0))
		} else {
			f.result = &srt{k: sOther}
		}
		table = append(table, f)
		byName[n] = f
		bySort[f.result.k] = append(bySort[f.result.k], f)
		if len(f.params) > 0 && f.params[0].k == sCollection {
			collFns = append(collFns, f)
		}
	}
}

// feeds lists, per wanted sort, the result sorts that ConvertWithContext can (sometimes) turn into it.
var feeds = map[sortKind][]sortKind{
	sInt:          {sInt, sInt, sInt, sFloat, sTag, sNumber, sAny},
	sFloat:        {sFloat, sFloat, sFloat, sInt, sTag, sNumber, sAny},
	sString:       {sString, sString, sString, sTag, sInt, sAny},
	sBool:         {sBool, sBool, sAny},
	sNumber:       {sInt, sFloat, sNumber, sAny},
	sPair:         {sPair, sPair, sAny},
	sCallable:     {sCallable, sCallable, sQuery, sAny},
	sQuery:        {sQuery, sQuery, sQuery, sAny, sOther},
	sGeometry:     {sGeometry, sGeometry, sArea, sFeature, sAny},
	sArea:         {sArea, sArea, sFeature, sAny},
	sFeature:      {sFeature, sFeature, sFeature, sAny},
	sIdentifiable: {sFeatureID, sFeature, sIdentifiable, sAny},
	sFeatureID:    {sFeatureID, sFeatureID, sFeature, sAny},
	sTag:          {sTag, sTag, sAny},
	sCollection:   {sCollection, sCollection, sCollection, sFeature, sAny},
	sChange:       {sChange, sChange, sAny},
	sGeoJSON:      {sGeoJSON, sGeoJSON, sAny},
	sExpression:   {sCallable, sExpression},
	sRoute:        {sRoute, sAny},
}

type binding struct {
	name string
	s    *srt
}

// heavy names the functions whose running time and memory grow without bound in a numeric argument
// (cell level, sampling distance, zoom) or in the extent of a geometry: finding `unbounded-work`. In a
// subtree under one of them the generator keeps to small levels, distances of metres and geometry near
// the town (`tame`), except with probability 1/untameDen, so that the sweep spends its time elsewhere.
var heavy = map[string]bool{"s2-grid": true, "s2-covering": true, "s2-points": true, "sample-points": true,
	"sample-points-along-paths": true, "tile-paths": true}

var untameDen = 60

type Gen struct {
	strict bool // systematic cases: no wrong sorts, no dropped / extra / swapped arguments
	tame   int
	R      *hx.Rand
	W      *worldInfo
	Budget int
	nextP  int
	Feat   map[string]bool
	Used   map[string]bool // function names used
}

func (g *Gen) note(f string) {
	if g.Feat == nil {
		g.Feat = map[string]bool{}
	}
	g.Feat[f] = true
}

func (g *Gen) use(name string) {
	if g.Used == nil {
		g.Used = map[string]bool{}
	}
	g.Used[name] = true
}

// ---- literal pools -------------------------------------------------------------------------------

var intEdges = []int{0, 1, -1, 2, 3, 5, 7, 10, 15, 16, 20, 24, 30, 31, 32, 64, 100, 1000, -2, -30, 1 << 31, -(1 << 31), 1<<31 - 1,
	1 << 32, 1 << 53, 1 << 62, -(1 << 62), math.MaxInt64, math.MinInt64, math.MaxInt64 - 1, math.MinInt64 + 1}

var floatEdges = []float64{0, math.Copysign(0, -1), 1, -1, 0.5, 0.25, 2, 10, 50, 100, 200, 500, 1000, 1e-9, -1e-9, 1e-300, 5e-324, 1e6, 1e9, 1e18,
	1e19, -1e19, 1e300, math.MaxFloat64, -math.MaxFloat64, nan, math.Inf(1), math.Inf(-1), 0.999999, 1.000001, 90, 180, 360, -90}

var stringPool = []string{"", "a", "b", "highway", "#highway", "#building", "building", "#amenity", "amenity", "name", "@name", "maxspeed",
	"building:levels", "height", "capacity", "primary", "residential", "footway", "yes", "no", "cafe", "5", "12", "-3", "1.5", "12a", "1e400",
	"point", "path", "area", "relation", "collection", "expression", "invalid", "bus", "walk", "cycle", "car", "entrance", "main",
	"487604c", "487604b44", "4876", "X", "0", "ffffffffffffffff", "zz", "1", "3/4/5", "a b", "ünï", "\x00", "\xff\xfe",
	"/point/openstreetmap.org/node/111", "/area/openstreetmap.org/way/400", "/nonexistent/c23/file", "", "diagonal.works/ns/c23",
	`{"type":"Point","coordinates":[-0.1245,51.5355]}`,
	`{"type":"LineString","coordinates":[[-0.125,51.535],[-0.124,51.536]]}`,
	`{"type":"Polygon","coordinates":[[[-0.125,51.535],[-0.124,51.535],[-0.124,51.536],[-0.125,51.535]]]}`,
	`{"type":"Feature","geometry":{"type":"Point","coordinates":[-0.1245,51.5355]},"properties":{"name":"x","n":3}}`,
	`{"type":"FeatureCollection","features":[{"type":"Feature","geometry":{"type":"Polygon","coordinates":[[[-0.125,51.535],[-0.124,51.535],[-0.124,51.536],[-0.125,51.535]]]},"properties":{}},{"type":"Feature","geometry":null,"properties":null}]}`,
	`{"type":"FeatureCollection","features":[]}`, `{"type":"FeatureCollection"}`, `{"type":"Feature"}`, `{"type":"Polygon","coordinates":[]}`,
	`{"type":"Polygon","coordinates":[[]]}`, `{"type":"MultiPolygon","coordinates":[[[[0,0],[1,0],[1,1],[0,0]]],[]]}`,
	`{"type":"GeometryCollection","geometries":[]}`, `{"type":"Point","coordinates":[]}`, `{"type":"Point"}`, `{"type":"LineString","coordinates":[[1]]}`,
	`{}`, `[]`, `null`, `{"type":`, `{"type":"Nope","coordinates":[1,2]}`,
}

var tagPool = [][2]string{{"", ""}, {"#highway", "primary"}, {"#highway", "footway"}, {"highway", "path"}, {"maxspeed", "30"}, {"height", "3.5"},
	{"building:levels", "2"}, {"#building", "yes"}, {"name", "a b"}, {"n", "-7"}, {"x", "1e999"}, {"x", "nan"}, {"", "v"}, {"k", ""},
	{"@name", "x"}, {"#amenity", "cafe"}, {"point", "51.5355,-0.1245"}, {"path", "zz"}, {"b6", "histogram"}, {"bucket:0", "z"}, {"capacity", "12"}}

func (g *Gen) genInt() int {
	r := g.R
	if g.tame > 0 {
		return r.Intn(20) - 1
	}
	switch r.Intn(4) {
	case 0:
		return r.Intn(8)
	case 1:
		return r.Intn(40) - 8
	case 2:
		return intEdges[r.Intn(len(intEdges))]
	default:
		return int(r.Uint64Edge())
	}
}

func (g *Gen) genFloat() float64 {
	r := g.R
	if g.tame > 0 {
		return float64(2+r.Intn(1200)) / 2
	}
	switch r.Intn(4) {
	case 0:
		return float64(r.Intn(600))
	case 1:
		return float64(r.Intn(2000)-500) / 8
	case 2:
		return floatEdges[r.Intn(len(floatEdges))]
	default:
		return math.Float64frombits(r.Uint64Edge())
	}
}

func (g *Gen) genString() string {
	r := g.R
	if g.tame == 0 && r.Chance(1, 40) {
		return strings.Repeat(stringPool[1+r.Intn(8)], 1+r.Intn(3000))
	}
	return stringPool[r.Intn(len(stringPool))]
}

func (g *Gen) genPt() pt {
	r := g.R
	k := r.Intn(10)
	if g.tame > 0 {
		k = 3
	}
	switch k {
	case 0: // far away
		return pt{lat: int32(r.Intn(1800000000) - 900000000), lng: int32(r.Intn(3600000000) - 1800000000)}
	case 1: // out of range / poles / antimeridian
		e := []int32{900000000, -900000000, 900000001, 1800000000, -1800000000, math.MaxInt32, math.MinInt32, 0}
		return pt{lat: e[r.Intn(len(e))], lng: e[r.Intn(len(e))]}
	case 2:
		return pt{}
	default: // inside or near the town
		lat := baseLat + (float64(r.Intn(70))-10)/10*step
		lng := baseLng + (float64(r.Intn(50))-10)/10*step
		return pt{lat: int32(math.Round(lat * 1e7)), lng: int32(math.Round(lng * 1e7))}
	}
}

func (g *Gen) genPts() []pt {
	r := g.R
	n := []int{0, 1, 2, 2, 3, 3, 4, 5, 8}[r.Intn(9)]
	ps := make([]pt, n)
	for i := range ps {
		ps[i] = g.genPt()
	}
	if n > 1 && r.Chance(1, 5) {
		ps[n-1] = ps[0] // closed / duplicate
	}
	if n > 1 && r.Chance(1, 8) {
		ps[1] = ps[0] // zero-length edge
	}
	if n > 1 && g.tame == 0 && r.Chance(1, 12) { // antipodal pair
		ps[1] = pt{lat: -ps[0].lat, lng: ps[0].lng - 1800000000}
	}
	return ps
}

func (g *Gen) genLoop() []pt {
	r := g.R
	switch r.Intn(8) {
	case 0:
		return g.genPts()
	case 1:
		return nil
	}
	// a small rectangle (either orientation) near the town
	c := g.genPt()
	d := int32(1000 + r.Intn(20000))
	loop := []pt{{c.lat, c.lng}, {c.lat, c.lng + d}, {c.lat + d, c.lng + d}, {c.lat + d, c.lng}}
	if r.Chance(1, 3) {
		loop[0], loop[2] = loop[2], loop[0]
	}
	if r.Chance(1, 6) {
		loop = append(loop, loop[0]) // explicitly closed
	}
	if r.Chance(1, 10) {
		loop = loop[:2+r.Intn(2)] // degenerate
	}
	return loop
}

func (g *Gen) genPolygons() [][][]pt {
	r := g.R
	np := []int{0, 1, 1, 1, 1, 2, 3}[r.Intn(7)]
	out := make([][][]pt, np)
	for i := range out {
		nl := []int{0, 1, 1, 1, 2}[r.Intn(5)]
		for j := 0; j < nl; j++ {
			out[i] = append(out[i], g.genLoop())
		}
	}
	return out
}

var allFeatureTypes = []pb.FeatureType{pb.FeatureType_FeatureTypePoint, pb.FeatureType_FeatureTypePath, pb.FeatureType_FeatureTypeArea,
	pb.FeatureType_FeatureTypeRelation, pb.FeatureType_FeatureTypeCollection, pb.FeatureType_FeatureTypeExpression, pb.FeatureType_FeatureTypeInvalid}

func (g *Gen) genFIDProto(ft pb.FeatureType) *pb.FeatureIDProto {
	r := g.R
	if ft == pb.FeatureType_FeatureTypeInvalid || r.Chance(1, 8) {
		ft = allFeatureTypes[r.Intn(len(allFeatureTypes))]
	}
	switch r.Intn(30) {
	case 0: // nothing at all
		return &pb.FeatureIDProto{}
	case 1: // a type the enum does not know
		return fidProto(pb.FeatureType(7+r.Intn(3)), "openstreetmap.org/node", uint64(100+r.Intn(40)))
	case 2: // missing feature
		return fidProto(ft, "diagonal.works/ns/c23", r.Uint64Edge())
	case 3:
		return fidProto(ft, "", uint64(r.Intn(3)))
	}
	pick := func(xs []uint64, dflt uint64) uint64 {
		if len(xs) == 0 || r.Chance(1, 20) {
			return dflt + uint64(r.Intn(5))
		}
		return xs[r.Intn(len(xs))]
	}
	w := g.W
	switch ft {
	case pb.FeatureType_FeatureTypePoint:
		return fidProto(ft, "openstreetmap.org/node", pick(w.points, 100))
	case pb.FeatureType_FeatureTypePath:
		return fidProto(ft, "openstreetmap.org/way", pick(w.paths, 200))
	case pb.FeatureType_FeatureTypeArea:
		v := pick(w.areas, 400)
		if v == 700 {
			return fidProto(ft, "openstreetmap.org/relation", v)
		}
		return fidProto(ft, "openstreetmap.org/way", v)
	case pb.FeatureType_FeatureTypeRelation:
		return fidProto(ft, "openstreetmap.org/relation", pick(w.relations, 700))
	case pb.FeatureType_FeatureTypeCollection:
		return fidProto(ft, "diagonal.works/ns/c23", uint64(r.Intn(3)))
	case pb.FeatureType_FeatureTypeExpression:
		return fidProto(ft, "diagonal.works/ns/c23", uint64(r.Intn(3)))
	}
	return fidProto(ft, "openstreetmap.org/node", pick(w.points, 100))
}

func (g *Gen) genQ(depth int) *Q {
	r := g.R
	n := 16
	if depth <= 0 {
		n = 12
	}
	switch r.Intn(n) {
	case 0:
		return QKeyed(g.genString())
	case 1, 2:
		t := tagPool[r.Intn(len(tagPool))]
		return QTagged(t[0], t[1])
	case 3:
		return QAll()
	case 4:
		if r.Chance(1, 8) {
			return QEmpty() // not decodable: the whole request is refused
		}
		return QKeyed([]string{"#highway", "#building", "#amenity", "name"}[r.Intn(4)])
	case 5:
		if r.Chance(1, 5) {
			return QCap(nil, g.genFloat())
		}
		p := g.genPt()
		return QCap(&p, g.genFloat())
	case 6:
		return QFeature(g.genFIDProto(pb.FeatureType_FeatureTypeInvalid))
	case 7:
		return QPoint(g.genPt())
	case 8:
		return QPolyline(g.genPts())
	case 9:
		return QMultiPolygon(g.genPolygons())
	case 10:
		switch r.Intn(12) {
		case 0:
			return QIsValid()
		case 1:
			return QUnset()
		case 2, 3, 4:
			return QCells(g.genCells())
		case 5, 6, 7:
			return QMight(g.genCells())
		default:
			t := tagPool[r.Intn(len(tagPool))]
			return QTagged(t[0], t[1])
		}
	case 11:
		return QKeyed([]string{"#highway", "#building", "#amenity", "name"}[r.Intn(4)])
	case 12:
		if r.Chance(1, 6) {
			return QTyped(allFeatureTypes[r.Intn(len(allFeatureTypes))], nil)
		}
		ft := allFeatureTypes[r.Intn(len(allFeatureTypes))]
		if r.Chance(1, 10) {
			ft = pb.FeatureType(9)
		}
		return QTyped(ft, g.genQ(depth-1))
	default:
		k := []int{0, 1, 2, 2, 3}[r.Intn(5)]
		cs := make([]*Q, k)
		for i := range cs {
			cs[i] = g.genQ(depth - 1)
		}
		if r.Bool() {
			return QAnd(cs...)
		}
		return QOr(cs...)
	}
}

func (g *Gen) genCells() []uint64 {
	r := g.R
	n := r.Intn(4)
	cs := make([]uint64, n)
	for i := range cs {
		switch r.Intn(3) {
		case 0:
			cs[i] = r.Uint64Edge()
		case 1:
			cs[i] = 0x487604c000000000 >> uint(r.Intn(8)) << uint(r.Intn(8))
		default:
			cs[i] = 0x48761b0000000000 | 1<<uint(r.Intn(40))
		}
	}
	return cs
}

// leaf is a literal (or a tiny call) of the wanted sort; nil when the sort has none.
func (g *Gen) leaf(s *srt) *Node {
	r := g.R
	switch s.k {
	case sInt:
		return I(g.genInt())
	case sFloat:
		return Fl(g.genFloat())
	case sString:
		return Str(g.genString())
	case sBool:
		return Bo(r.Bool())
	case sNumber:
		if r.Bool() {
			return I(g.genInt())
		}
		return Fl(g.genFloat())
	case sTag:
		t := tagPool[r.Intn(len(tagPool))]
		return Tag(t[0], t[1])
	case sFeatureID, sIdentifiable:
		p := g.genFIDProto(s.ft)
		return lit(&pb.LiteralNodeProto{Value: &pb.LiteralNodeProto_FeatureIDValue{FeatureIDValue: p}}, "o:fid:"+fidText(p))
	case sFeature:
		p := g.genFIDProto(s.ft)
		id := lit(&pb.LiteralNodeProto{Value: &pb.LiteralNodeProto_FeatureIDValue{FeatureIDValue: p}}, "o:fid:"+fidText(p))
		name := "find-feature"
		switch s.ft {
		case pb.FeatureType_FeatureTypeArea:
			name = "find-area"
		case pb.FeatureType_FeatureTypeRelation:
			name = "find-relation"
		case pb.FeatureType_FeatureTypeCollection:
			name = "find-collection"
		}
		if r.Chance(1, 6) {
			name = []string{"find-feature", "find-area", "find-relation", "find-collection"}[r.Intn(4)]
		}
		g.use(name)
		return F(name, id)
	case sGeometry:
		switch r.Intn(5) {
		case 0, 1:
			return Point(g.genPt())
		case 2, 3:
			return Path(g.genPts())
		default:
			return Area(g.genPolygons())
		}
	case sArea:
		return Area(g.genPolygons())
	case sQuery:
		return QL(g.genQ(2))
	case sRoute:
		n := r.Intn(3)
		steps := make([]*pb.StepProto, n)
		for i := range steps {
			steps[i] = &pb.StepProto{Cost: g.genFloat()}
			if r.Chance(3, 4) {
				steps[i].Destination = g.genFIDProto(pb.FeatureType_FeatureTypePoint)
			}
			if r.Chance(3, 4) {
				steps[i].Via = g.genFIDProto(pb.FeatureType_FeatureTypePath)
			}
		}
		var origin *pb.FeatureIDProto
		if r.Chance(3, 4) {
			origin = g.genFIDProto(pb.FeatureType_FeatureTypePoint)
		}
		return Route(origin, steps)
	case sCollection:
		if r.Chance(1, 4) { // first items of one kind, later items of another (values, keys or both)
			g.note("het-collection")
			k := func() string { return hetKinds[r.Intn(len(hetKinds))] }
			switch r.Intn(3) {
			case 0:
				return g.hetCollection("int", "int", k(), k())
			case 1:
				return g.hetCollection(k(), k(), "int", "int")
			default:
				return g.hetCollection(k(), k(), k(), k())
			}
		}
		return g.collLit(s)
	case sPair:
		g.use("pair")
		return F("pair", g.leaf(&srt{k: sAny}), g.leaf(&srt{k: sAny}))
	case sGeoJSON:
		g.use("parse-geojson")
		return F("parse-geojson", Str(stringPool[len(stringPool)-25+r.Intn(25)]))
	case sChange:
		g.use("add-tag")
		t := tagPool[r.Intn(len(tagPool))]
		return F("add-tag", g.leaf(&srt{k: sFeatureID}), Tag(t[0], t[1]))
	case sCallable, sExpression:
		if r.Chance(1, 3) {
			return QL(g.genQ(1))
		}
		f := table[r.Intn(len(table))]
		g.use(f.name)
		return S(f.name)
	case sAny:
		switch r.Intn(40) {
		case 0:
			return Nil()
		case 1:
			return Bo(r.Bool())
		case 2:
			return g.leaf(&srt{k: sRoute})
		case 3:
			switch r.Intn(6) {
			case 0:
				return GeoJSONLit([]byte("{}"))
			case 1:
				return PairLit()
			case 2:
				return FeatureLit()
			case 3:
				return AppliedChangeLit()
			case 4:
				return EmptyLit()
			default:
				return Nil()
			}
		default:
			ks := []sortKind{sInt, sFloat, sString, sTag, sFeatureID, sGeometry, sArea, sQuery, sCollection, sFeature}
			return g.leaf(&srt{k: ks[r.Intn(len(ks))]})
		}
	}
	return nil
}

// litLeaf is a leaf that is a literal node (for collection literals).
func (g *Gen) litLeaf(s *srt) *Node {
	for i := 0; i < 8; i++ {
		k := s
		if s.k == sAny || s.k == sIdentifiable || s.k == sFeature || s.k == sPair || s.k == sGeoJSON || s.k == sChange || s.k == sCallable || s.k == sOther || s.k == sExpression {
			ks := []sortKind{sInt, sFloat, sString, sTag, sFeatureID, sGeometry, sArea, sQuery, sBool, sInt, sFeatureID, sRoute}
			k = &srt{k: ks[g.R.Intn(len(ks))], ft: s.ft}
			if s.k == sIdentifiable || s.k == sFeature {
				k = &srt{k: sFeatureID, ft: s.ft}
			}
		}
		if k.k == sCollection {
			if g.R.Chance(1, 2) {
				k = &srt{k: sInt}
			} else {
				n := g.collLit(&srt{k: sCollection, key: &srt{k: sInt}, val: &srt{k: sInt}})
				return n
			}
		}
		if n := g.leaf(k); n != nil && n.Kind == kLit {
			return n
		}
	}
	return I(0)
}

func (g *Gen) collLit(s *srt) *Node {
	r := g.R
	n := []int{0, 0, 1, 2, 3, 3, 4, 6, 9}[r.Intn(9)]
	ks, vs := make([]*Node, n), make([]*Node, n)
	key, val := s.key, s.val
	if key == nil {
		key = &srt{k: sAny}
	}
	if val == nil {
		val = &srt{k: sAny}
	}
	mixed := r.Chance(1, 6)
	var k0, v0 *srt
	if key.k == sAny {
		k0 = &srt{k: []sortKind{sInt, sInt, sString, sFeatureID, sFloat, sTag}[r.Intn(6)]}
	} else {
		k0 = key
	}
	if val.k == sAny {
		v0 = &srt{k: []sortKind{sInt, sInt, sFloat, sString, sFeatureID, sTag, sGeometry, sBool, sCollection, sQuery}[r.Intn(10)]}
	} else {
		v0 = val
	}
	for i := 0; i < n; i++ {
		if mixed && r.Chance(1, 3) {
			ks[i], vs[i] = g.litLeaf(&srt{k: sAny}), g.litLeaf(&srt{k: sAny})
			continue
		}
		if k0.k == sInt && r.Chance(3, 4) {
			ks[i] = I(i)
		} else {
			ks[i] = g.litLeaf(k0)
		}
		vs[i] = g.litLeaf(v0)
		if i > 0 && r.Chance(1, 5) {
			vs[i] = vs[r.Intn(i)] // duplicates
		}
		if i > 0 && r.Chance(1, 8) {
			ks[i] = ks[r.Intn(i)]
		}
	}
	if n > 0 && r.Chance(1, 60) {
		vs = vs[:n-1] // a client can send this
	}
	return Coll(ks, vs)
}

// ---- trees ---------------------------------------------------------------------------------------

func (g *Gen) param() string {
	g.nextP++
	return "v" + string(rune('a'+(g.nextP-1)%26)) + func() string {
		if g.nextP > 26 {
			return "x"
		}
		return ""
	}()
}

// lambda of n parameters whose body wants the sort `res`
func (g *Gen) lambda(n int, ps []*srt, res *srt, env []binding, depth int) *Node {
	g.note("lambda")
	names := make([]string, n)
	env2 := append([]binding{}, env...)
	for i := range names {
		names[i] = g.param()
		s := &srt{k: sAny}
		if i < len(ps) && ps[i] != nil {
			s = ps[i]
		}
		env2 = append(env2, binding{names[i], s})
	}
	if n > 1 && g.R.Chance(1, 30) {
		names[1] = names[0]
	}
	if res == nil {
		res = &srt{k: sAny}
	}
	return L(names, g.expr(res, env2, depth-1))
}

func (g *Gen) callable(s *srt, env []binding, depth int, elem *srt) *Node {
	r := g.R
	if g.strict {
		return g.strictCallable(s.arity)
	}
	n := s.arity
	if n < 0 {
		n = 1
		if r.Chance(1, 8) {
			n = r.Intn(4)
		}
	}
	if r.Chance(1, 12) { // wrong arity
		g.note("wrong-arity")
		n = n + []int{-1, 1, 2}[r.Intn(3)]
		if n < 0 {
			n = 0
		}
	}
	switch r.Intn(10) {
	case 0, 1: // a global function of (about) that arity
		var cands []*fn
		for _, f := range table {
			if len(f.params) == n || (r.Chance(1, 10) && len(f.params) > 0) {
				cands = append(cands, f)
			}
		}
		if len(cands) > 0 {
			f := cands[r.Intn(len(cands))]
			g.use(f.name)
			g.note("fn-value")
			return S(f.name)
		}
	case 2: // a partial application leaving n parameters
		var cands []*fn
		for _, f := range table {
			if len(f.params) > n && !f.variadic {
				cands = append(cands, f)
			}
		}
		if len(cands) > 0 && depth > 0 {
			f := cands[r.Intn(len(cands))]
			g.use(f.name)
			g.note("partial")
			k := len(f.params) - n
			args := make([]*Node, k)
			for i := 0; i < k; i++ { // trailing parameters are bound
				args[i] = g.expr(f.params[n+i], env, depth-1)
			}
			return F(f.name, args...)
		}
	case 3:
		if n == 1 {
			g.note("query-as-fn")
			return QL(g.genQ(1))
		}
	}
	ps := make([]*srt, n)
	for i := range ps {
		ps[i] = elem
	}
	var res *srt
	if r.Chance(2, 3) {
		ks := []sortKind{sInt, sBool, sFloat, sGeometry, sTag, sCollection, sPair, sAny, sFeature, sString, sChange}
		res = &srt{k: ks[r.Intn(len(ks))], key: &srt{k: sAny}, val: &srt{k: sAny}}
	}
	return g.lambda(n, ps, res, env, depth)
}

// call of table function f with generated arguments
func (g *Gen) call(f *fn, env []binding, depth int) *Node {
	r := g.R
	g.use(f.name)
	if heavy[f.name] && !r.Chance(1, untameDen) {
		g.tame++
		defer func() { g.tame-- }()
	}
	np := len(f.params)
	var args []*Node
	var elem *srt
	for i := 0; i < np; i++ {
		p := f.params[i]
		if f.variadic && i == np-1 {
			k := []int{0, 1, 2, 3, 5}[r.Intn(5)]
			for j := 0; j < k; j++ {
				if f.name == "collection" && r.Chance(7, 8) {
					g.use("pair")
					args = append(args, F("pair", g.expr(&srt{k: sAny}, env, depth-2), g.expr(&srt{k: sAny}, env, depth-2)))
				} else {
					args = append(args, g.expr(&srt{k: sAny}, env, depth-1))
				}
			}
			break
		}
		if p.k == sCallable {
			args = append(args, g.callable(p, env, depth-1, elem))
			continue
		}
		a := g.expr(p, env, depth-1)
		if p.k == sCollection && p.val != nil {
			elem = p.val
		}
		args = append(args, a)
	}
	if g.strict {
	} else if len(args) > 0 && r.Chance(1, 30) {
		g.note("dropped-arg")
		args = args[:len(args)-1]
	} else if r.Chance(1, 50) {
		g.note("extra-arg")
		args = append(args, g.expr(&srt{k: sAny}, env, 0))
	} else if len(args) > 1 && r.Chance(1, 50) {
		g.note("swapped-args")
		i := r.Intn(len(args) - 1)
		args[i], args[i+1] = args[i+1], args[i]
	}
	n := F(f.name, args...)
	if len(args) > 0 && r.Chance(1, 5) {
		// x | f a  ==  f x a  (the shell's pipeline form)
		n = &Node{Kind: kCall, Fn: F(f.name, args[1:]...), Args: args[:1], Pipelined: true}
		g.note("pipelined")
	}
	return n
}

func (g *Gen) producers(s *srt) []*fn {
	r := g.R
	fk := feeds[s.k]
	if len(fk) == 0 {
		return table
	}
	k := fk[r.Intn(len(fk))]
	return bySort[k]
}

// expr generates an expression meant to produce a value of sort s.
func (g *Gen) expr(s *srt, env []binding, depth int) *Node {
	r := g.R
	g.Budget--
	if !g.strict && r.Chance(1, 30) { // a wrong sort on purpose
		g.note("wrong-sort")
		s = &srt{k: sortKind(r.Intn(int(nSorts))), arity: -1, key: &srt{k: sAny}, val: &srt{k: sAny}}
	}
	// a lambda parameter in scope
	if len(env) > 0 && r.Chance(1, 3) {
		var cands []binding
		for _, b := range env {
			if b.s.k == s.k || b.s.k == sAny || s.k == sAny || r.Chance(1, 12) {
				cands = append(cands, b)
			}
		}
		if len(cands) > 0 {
			g.note("param-use")
			return S(cands[r.Intn(len(cands))].name)
		}
	}
	if s.k == sCallable && (depth > 0 || r.Bool()) {
		return g.callable(s, env, depth, nil)
	}
	if depth <= 0 || g.Budget <= 0 || r.Chance(2, 5) {
		if n := g.leaf(s); n != nil {
			return n
		}
	}
	ps := g.producers(s)
	if len(ps) == 0 {
		if n := g.leaf(s); n != nil {
			return n
		}
		ps = table
	}
	f := ps[r.Intn(len(ps))]
	n := g.call(f, env, depth)
	// results declared interface{} or of a broad sort can be unwrapped / re-wrapped
	if r.Chance(1, 25) {
		g.use("first")
		g.use("pair")
		n = F("first", F("pair", n, I(0)))
	}
	if r.Chance(1, 40) && depth > 0 { // a call of a call / of a lambda literal
		g.note("call-of-call")
		g.use("call")
		n = F("call", L(nil, n))
	}
	return n
}

// fragInt generates an int-valued program inside the fragment the Lean model evaluates (C21's VM model,
// C22's Simplify model): add-ints, pairs, lambdas (nested, shadowing, called directly), partial
// applications, with an occasional ill-typed or mis-counted argument. env = lambda parameters in scope.
func (g *Gen) fragInt(env []string, d int) *Node {
	r := g.R
	if d <= 0 || r.Chance(1, 4) {
		if len(env) > 0 && r.Bool() {
			return S(env[r.Intn(len(env))])
		}
		if r.Chance(1, 6) {
			return I(intEdges[r.Intn(len(intEdges))])
		}
		return I(r.Intn(20) - 5)
	}
	sub := func() *Node { return g.fragInt(env, d-1) }
	switch r.Intn(12) {
	case 0, 1, 2:
		return F("add-ints", sub(), sub())
	case 3:
		return F("first", F("pair", sub(), g.fragAny(env, d-1)))
	case 4:
		return F("second", F("pair", g.fragAny(env, d-1), sub()))
	case 5, 6: // a lambda literal called on the spot
		p := g.param()
		if len(env) > 0 && r.Chance(1, 8) {
			p = env[r.Intn(len(env))] // shadowing
		}
		return C(L([]string{p}, g.fragInt(append(append([]string{}, env...), p), d-1)), sub())
	case 7: // partial application of a global, then the rest
		return C(F("add-ints", sub()), sub())
	case 8: // a two-parameter lambda applied in two steps (trailing parameter first)
		p, q := g.param(), g.param()
		body := g.fragInt(append(append([]string{}, env...), p, q), d-1)
		return C(C(L([]string{p, q}, body), sub()), sub())
	case 9: // a function value passed through a pair
		return C(F("first", F("pair", S("add-ints"), I(0))), sub(), sub())
	case 10: // ill-typed or mis-counted on purpose
		switch r.Intn(4) {
		case 0:
			return F("add-ints", sub(), Str("x"))
		case 1:
			return F("add-ints", sub(), sub(), sub())
		case 2:
			return F("first", sub())
		default:
			return C(sub(), sub())
		}
	default: // a query builder's result where an int is wanted / as a whole result
		return F("add-ints", sub(), F("first", F("pair", sub(), F("keyed", Str("k")))))
	}
}

func (g *Gen) fragAny(env []string, d int) *Node {
	r := g.R
	switch r.Intn(6) {
	case 0:
		return Str([]string{"a", "#highway", "primary", "", "point"}[r.Intn(5)])
	case 1:
		return F("tagged", Str("#highway"), Str([]string{"primary", "path"}[r.Intn(2)]))
	case 2:
		return F("and", F("keyed", Str("#building")), QL(QOr(QKeyed("a"), QAnd(QKeyed("b"), QTagged("k", "v")))))
	case 3:
		return F("typed", Str([]string{"point", "area", "nope"}[r.Intn(3)]), F("keyed", Str("name")))
	default:
		return g.fragInt(env, d)
	}
}

// Program generates one request expression: a call of a uniformly chosen table function in half of
// the cases (so every function is a root equally often), an expression of a random sort otherwise.
func (g *Gen) Program() *Node {
	r := g.R
	depth := 1 + r.Intn(4)
	if r.Chance(1, 12) {
		g.note("model-fragment")
		g.note("lambda")
		for _, n := range []string{"add-ints", "pair", "first", "second"} {
			g.use(n)
		}
		if r.Chance(1, 5) {
			return g.fragAny(nil, 2+r.Intn(3))
		}
		return g.fragInt(nil, 2+r.Intn(4))
	}
	switch r.Intn(10) {
	case 0, 1, 2, 3, 4:
		f := table[r.Intn(len(table))]
		return g.call(f, nil, depth)
	case 5, 6: // a collection pipeline: source | f | f ...
		n := g.expr(&srt{k: sCollection, key: &srt{k: sAny}, val: &srt{k: sAny}}, nil, depth-1)
		k := 1 + r.Intn(3)
		for i := 0; i < k; i++ {
			f := collFns[r.Intn(len(collFns))]
			c := g.call(f, nil, 1)
			if c.Pipelined {
				c.Args[0] = n
			} else if len(c.Args) > 0 {
				c.Args[0] = n
			}
			n = c
		}
		g.note("pipeline")
		return n
	case 7: // applied lambda / direct lambda call
		k := r.Intn(3)
		args := make([]*Node, k)
		for i := range args {
			args[i] = g.expr(&srt{k: sAny}, nil, depth-1)
		}
		g.note("lambda-call")
		np := k
		if r.Chance(1, 6) { // more or fewer parameters than arguments
			np = k + []int{-1, 1, 1, 2}[r.Intn(4)]
			if np < 0 {
				np = 0
			}
			g.note("lambda-call-arity")
		}
		return C(g.lambda(np, nil, nil, nil, depth), args...)
	default:
		return g.expr(&srt{k: sortKind(r.Intn(int(nSorts))), arity: -1, key: &srt{k: sAny}, val: &srt{k: sAny}}, nil, depth)
	}
}
