// C23 harness: the sweep. Expression trees over the whole registered function table
// (functions.Functions(), read by reflection), sent as wire-format requests through the real
// grpc service.Evaluate (decode -> Simplify -> api.Evaluate -> apply change -> literal -> proto) and, for
// the same tree, through api.Evaluate with functions.NewContext, in a persistent CHILD process with
// recover() around each evaluation. A panic, a fatal error (child died) or a timeout is the answer.
//
// ops:   grpc <world> <mut> <expr>    =>  val <kind> [text] | err | panic <site> <kind> | crash <site> <kind> | hang
//        direct <world> - <expr>      =>  (same)
package main

import (
	"context"
	"encoding/hex"
	"fmt"
	"os"
	"reflect"
	"runtime"
	"sort"
	"strconv"
	"strings"
	"sync"
	"time"

	"diagonal.works/b6"
	"diagonal.works/b6/api"
	"diagonal.works/b6/api/functions"
	bgrpc "diagonal.works/b6/grpc"
	"diagonal.works/b6/ingest"
	pb "diagonal.works/b6/proto"
	"google.golang.org/protobuf/proto"
	"google.golang.org/protobuf/reflect/protoreflect"

	"verifharness/hx"
)

// ---- a case: a world, optionally some changes applied first, then 1-4 requests on the same service ----

type request struct {
	prog   *Node
	mut    string // "-" or a description of the wire-level damage
	direct bool
	feat   map[string]bool
	used   map[string]bool
	bucket string // systematic cases: het:<fn>/<param>:first=<kA>,<vA> or ret:<fn>:<kind>
}

type caseSpec struct {
	world   int
	overlay bool
	reqs    []*request
}

var worlds []*worldInfo

func setup() {
	loadTable()
	if worlds == nil {
		worlds = buildWorlds()
	}
}

func genCase(seed uint64, caseNo int) *caseSpec {
	setup()
	r := hx.NewRand(seed)
	if caseNo >= 0 && caseNo < len(systematic()) {
		cs := &caseSpec{world: 1, overlay: r.Chance(1, 4)}
		cs.reqs = sysCase(caseNo, func() *Gen { return &Gen{R: r, W: worlds[1], Budget: 6} })
		return cs
	}
	cs := &caseSpec{world: 1}
	if r.Chance(1, 6) {
		cs.world = 0
	}
	cs.overlay = r.Chance(1, 3)
	n := 1 + r.Intn(4)
	for i := 0; i < n; i++ {
		g := &Gen{R: r, W: worlds[cs.world], Budget: 6 + r.Intn(24)}
		p := g.Program()
		rq := &request{prog: p, mut: "-", direct: r.Chance(1, 2), feat: g.Feat, used: g.Used}
		if r.Chance(1, 12) {
			rq.mut = mutations[r.Intn(len(mutations))]
			if strings.HasPrefix(rq.mut, "clear") {
				rq.mut = fmt.Sprintf("clear:%d", r.Intn(64))
			}
			rq.direct = false
		}
		cs.reqs = append(cs.reqs, rq)
	}
	return cs
}

var mutations = []string{"clear", "clear", "clear", "clear", "clear", "no-request", "no-root", "root-invalid", "root-other",
	"version-empty", "version-major", "version-garbage", "version-prerelease"}

// corpus: fixed witnesses, each evaluated on a fresh town world.
type witness struct {
	name string
	prog *Node
	mut  string
}

func (c *caseSpec) worldName() string {
	n := worlds[c.world].name
	if c.overlay {
		n += "+ov"
	}
	return n
}

// ---- worker side ---------------------------------------------------------------------------------

type sut struct {
	worlds *ingest.MutableWorlds
	lock   sync.RWMutex
	svc    pb.B6Server
	root   *pb.FeatureIDProto
}

func newSUT(cs *caseSpec) *sut {
	s := &sut{worlds: &ingest.MutableWorlds{Base: worlds[cs.world].base}}
	s.svc = bgrpc.NewB6Service(s.worlds, api.Options{Cores: 2}, &s.lock)
	s.root = &pb.FeatureIDProto{Type: pb.FeatureType_FeatureTypeCollection, Namespace: "diagonal.works/world", Value: 0}
	if cs.overlay {
		for _, p := range overlayChanges() {
			s.grpc(p, "-")
		}
	}
	return s
}

// overlayChanges fill the overlay layer: a tag edit on a base feature, a removed tag, a new point, a
// collection feature and an expression feature.
func overlayChanges() []*Node {
	osmNode := func(v uint64) *Node { return FID(pb.FeatureType_FeatureTypePoint, "openstreetmap.org/node", v) }
	return []*Node{
		F("add-tag", osmNode(111), Tag("#amenity", "bench")),
		F("remove-tag", FID(pb.FeatureType_FeatureTypePath, "openstreetmap.org/way", 200), Str("maxspeed")),
		F("add-point", Point(pt{515361000, -1241000}), FID(pb.FeatureType_FeatureTypePoint, "diagonal.works/ns/c23", 1), Coll([]*Node{I(0)}, []*Node{Tag("#shop", "kiosk")})),
		F("add-collection", FID(pb.FeatureType_FeatureTypeCollection, "diagonal.works/ns/c23", 0), Coll([]*Node{I(0)}, []*Node{Tag("name", "c0")}),
			Coll([]*Node{osmNode(111), osmNode(133)}, []*Node{I(3), I(5)})),
		F("add-collection", FID(pb.FeatureType_FeatureTypeCollection, "diagonal.works/ns/c23", 1), Coll(nil, nil),
			Coll([]*Node{Str("a"), Str("b"), Str("a")}, []*Node{osmNode(111), Fl(2.5), Tag("k", "v")})),
		F("add-expression", FID(pb.FeatureType_FeatureTypeExpression, "diagonal.works/ns/c23", 0), Coll(nil, nil), L([]string{"x"}, F("add-ints", S("x"), I(1)))),
	}
}

func panicKind(r interface{}) string {
	msg := fmt.Sprint(r)
	if _, ok := r.(runtime.Error); ok {
		switch {
		case strings.Contains(msg, "nil pointer") || strings.Contains(msg, "nil map"):
			return "nil"
		case strings.Contains(msg, "out of range") || strings.Contains(msg, "slice bounds"):
			return "bounds"
		case strings.Contains(msg, "interface conversion"):
			return "assert"
		case strings.Contains(msg, "divide by zero"):
			return "divzero"
		case strings.Contains(msg, "unhashable"):
			return "unhashable"
		case strings.Contains(msg, "makeslice") || strings.Contains(msg, "makechan") || strings.Contains(msg, "out of memory"):
			return "alloc"
		case strings.Contains(msg, "comparing uncomparable"):
			return "uncomparable"
		}
		return "runtime"
	}
	if strings.HasPrefix(msg, "reflect") {
		return "reflect"
	}
	return "explicit"
}

func panicSite() string {
	pcs := make([]uintptr, 96)
	n := runtime.Callers(3, pcs)
	frames := runtime.CallersFrames(pcs[:n])
	for {
		f, more := frames.Next()
		if strings.HasPrefix(f.Function, "diagonal.works/b6") {
			return shortFunc(f.Function)
		}
		if !more {
			break
		}
	}
	return "?"
}

var debugPanics = os.Getenv("C23_DEBUG") != ""
var errLog = os.Getenv("C23_ERRS") != ""

func guarded(f func() string) (ans string) {
	defer func() {
		if r := recover(); r != nil {
			ans = "panic " + panicSite() + " " + panicKind(r)
			if debugPanics {
				buf := make([]byte, 1<<14)
				buf = buf[:runtime.Stack(buf, false)]
				fmt.Fprintf(os.Stderr, "PANIC %v\n%s\n", r, buf)
			}
		}
	}()
	return f()
}

func resultText(n *pb.NodeProto) string {
	l := n.GetLiteral()
	if l == nil {
		return "val non-literal"
	}
	switch v := l.Value.(type) {
	case *pb.LiteralNodeProto_IntValue:
		return "val int " + strconv.FormatInt(v.IntValue, 10)
	case *pb.LiteralNodeProto_StringValue:
		return "val str x:" + hex.EncodeToString([]byte(v.StringValue))
	case nil:
		return "val unset"
	}
	t := reflect.TypeOf(l.Value).Elem().Name()
	t = strings.TrimSuffix(strings.TrimPrefix(t, "LiteralNodeProto_"), "Value")
	return "val " + strings.ToLower(t)
}

// damage applies the wire-level mutation to the request.
func damage(req *pb.EvaluateRequestProto, mut string) {
	switch {
	case mut == "-":
	case mut == "no-request":
		req.Request = nil
	case mut == "no-root":
		req.Root = nil
	case mut == "root-invalid":
		req.Root = &pb.FeatureIDProto{}
	case mut == "root-other":
		req.Root = &pb.FeatureIDProto{Type: pb.FeatureType_FeatureTypePoint, Namespace: "x", Value: 7}
	case mut == "version-empty":
		req.Version = ""
	case mut == "version-major":
		req.Version = "1.0.0"
	case mut == "version-garbage":
		req.Version = "\xff.2.3"
	case mut == "version-prerelease":
		req.Version = "0.2.3-alpha+x"
	case strings.HasPrefix(mut, "clear:"):
		k, _ := strconv.Atoi(mut[6:])
		// every populated message-valued field (oneof members included) below the request node
		type slot struct {
			path string
			m    protoreflect.Message
			fd   protoreflect.FieldDescriptor
		}
		var slots []slot
		var walk func(m protoreflect.Message, path string)
		walk = func(m protoreflect.Message, path string) {
			m.Range(func(fd protoreflect.FieldDescriptor, v protoreflect.Value) bool {
				if fd.Kind() == protoreflect.MessageKind {
					p := fmt.Sprintf("%s/%03d", path, fd.Number())
					if fd.IsList() {
						l := v.List()
						for i := 0; i < l.Len(); i++ {
							walk(l.Get(i).Message(), fmt.Sprintf("%s[%03d]", p, i))
						}
					} else if !fd.IsMap() {
						slots = append(slots, slot{p, m, fd})
						walk(v.Message(), p)
					}
				}
				return true
			})
		}
		if req.Request != nil {
			walk(req.Request.ProtoReflect(), "")
		}
		if len(slots) > 0 {
			sort.Slice(slots, func(i, j int) bool { return slots[i].path < slots[j].path })
			s := slots[k%len(slots)]
			s.m.Clear(s.fd)
		}
	}
}

func (s *sut) grpc(p *Node, mut string) string {
	return guarded(func() string {
		req := &pb.EvaluateRequestProto{Request: p.Proto(), Version: b6.ApiVersion, Root: s.root}
		damage(req, mut)
		wire, err := proto.Marshal(req)
		if err != nil {
			return "unmarshalable" // not something a client can send
		}
		var onWire pb.EvaluateRequestProto
		if err := proto.Unmarshal(wire, &onWire); err != nil {
			return "unmarshalable"
		}
		resp, err := s.svc.Evaluate(context.Background(), &onWire)
		if err != nil {
			if errLog {
				fmt.Fprintf(os.Stderr, "ERR %s\n", err.Error())
			}
			return "err"
		}
		if resp == nil || resp.Result == nil {
			return "val none"
		}
		return resultText(resp.Result)
	})
}

func (s *sut) direct(p *Node) string {
	return guarded(func() string {
		e, err := b6.ExpressionFromProto(p.Proto())
		if err != nil {
			return "err"
		}
		w := s.worlds.FindOrCreateWorld(b6.NewFeatureIDFromProto(s.root))
		s.lock.RLock()
		defer s.lock.RUnlock()
		ctx := functions.NewContext(w)
		// what service.Evaluate fills in besides: without Worlds add-world-with-change dereferences nil,
		// and with Cores = 0 accessible-all has nobody to hand its origins to and blocks forever - both
		// are ways of building a Context, not requests, and are noted in notes/C23.md only
		ctx.Worlds = s.worlds
		ctx.Cores = 2
		v, err := api.Evaluate(e, ctx)
		if err != nil {
			return "err"
		}
		if _, ok := v.(ingest.Change); ok {
			return "val change"
		}
		l, err := b6.FromLiteral(v)
		if err != nil {
			return "err"
		}
		n, err := l.ToProto()
		if err != nil {
			return "err"
		}
		return resultText(n)
	})
}

type state struct {
	no   int
	seed uint64
	cs   *caseSpec
	s    *sut
	next int
}

var cur *state

func (st *state) eval(j int) string {
	rq := st.cs.reqs[j]
	d := "-"
	if rq.direct {
		d = st.s.direct(rq.prog)
	}
	return d + " ; " + st.s.grpc(rq.prog, rq.mut)
}

// serve handles "<seed> <j> <skipmask>" (generated case) or "w <i>" (corpus witness i).
func serve(req string) string {
	setup()
	if baseGoroutines < 0 {
		baseGoroutines = runtime.NumGoroutine()
	}
	f := strings.Fields(req)
	if len(f) == 2 && f[0] == "w" {
		i, _ := strconv.Atoi(f[1])
		w := corpus()[i]
		s := newSUT(&caseSpec{world: 1, overlay: w.mut == "ov"})
		mut := w.mut
		if mut == "ov" {
			mut = "-"
		}
		d := "-"
		if mut == "-" {
			d = s.direct(w.prog)
		}
		return d + " ; " + s.grpc(w.prog, mut)
	}
	if len(f) != 4 {
		return "badreq"
	}
	seed, _ := strconv.ParseUint(f[0], 10, 64)
	j, _ := strconv.Atoi(f[1])
	skip, _ := strconv.ParseUint(f[2], 10, 64)
	caseNo, _ := strconv.Atoi(f[3])
	if cur == nil || cur.seed != seed || cur.no != caseNo || cur.next != j {
		cs := genCase(seed, caseNo)
		cur = &state{seed: seed, no: caseNo, cs: cs, s: newSUT(cs)}
		for i := 0; i < j && i < len(cs.reqs); i++ {
			if skip&(1<<uint(i)) == 0 {
				cur.eval(i)
			}
		}
		cur.next = j
	}
	if j >= len(cur.cs.reqs) {
		return "badreq"
	}
	ans := cur.eval(j)
	cur.next = j + 1
	return ans + leakSuffix()
}

var baseGoroutines = -1

// leakSuffix reports goroutines that outlive the request (checked for up to ~60 ms): they would distort
// the timing of the following requests, so the parent restarts the child.
func leakSuffix() string {
	if baseGoroutines < 0 {
		return ""
	}
	n := runtime.NumGoroutine()
	for i := 0; i < 6 && n > baseGoroutines; i++ {
		time.Sleep(10 * time.Millisecond)
		n = runtime.NumGoroutine()
	}
	if n > baseGoroutines {
		return fmt.Sprintf(" +leak%d", n-baseGoroutines)
	}
	return ""
}

// ---- parent side ---------------------------------------------------------------------------------

// Cases are evaluated by a small pool of persistent children. hx hands out cases one at a time, so the
// parent computes the seeds of the cases to come (hx's per-case PRNG derivation, replicated in
// caseSeedFor) and evaluates them ahead; a result is looked up by case seed, and computed on the spot
// when it is not there, so a change of hx's derivation costs speed, never correctness.

const nWorkers = 4
const lookahead = 24

var slowLog = os.Getenv("C23_SLOW") != ""
var timeout = 10 * time.Second

type job struct {
	seed uint64
	done chan []string
}

var (
	pool    chan *Worker
	pending = map[uint64]*job{}
	workers []*Worker
)

func initPool() {
	pool = make(chan *Worker, nWorkers)
	for i := 0; i < nWorkers; i++ {
		w := &Worker{Timeout: timeout}
		workers = append(workers, w)
		pool <- w
	}
}

func closePool() {
	for _, w := range workers {
		w.Close()
	}
}

// evalCase runs all requests of the case on one worker, in order.
func evalCase(w *Worker, seed uint64, no int, n int) []string {
	out := make([]string, n)
	var skip uint64
	for j := 0; j < n; j++ {
		t0 := time.Now()
		ans := w.Ask(fmt.Sprintf("%d %d %d %d", seed, j, skip, no))
		if i := strings.Index(ans, " +leak"); i >= 0 {
			ans = ans[:i] + " +leak"
			w.stop()
		}
		if d := time.Since(t0); slowLog && d > 500*time.Millisecond {
			fmt.Fprintf(os.Stderr, "SLOW %v case %d req %d => %s\n", d, seed, j, ans)
		}
		if strings.HasPrefix(ans, "crash") || ans == "hang" {
			skip |= 1 << uint(j)
		}
		out[j] = ans
	}
	return out
}

func submit(seed uint64, no int) *job {
	if j, ok := pending[seed]; ok {
		return j
	}
	j := &job{seed: seed, done: make(chan []string, 1)}
	pending[seed] = j
	n := len(genCase(seed, no).reqs)
	go func() {
		w := <-pool
		j.done <- evalCase(w, seed, no, n)
		pool <- w
	}()
	return j
}

// caseSeedFor replicates hx.Main's per-case PRNG and the first draw runCase makes from it.
func caseSeedFor(runSeed uint64, no int) uint64 {
	return hx.NewRand(runSeed*0x9e3779b97f4a7c15 ^ uint64(no)*0xd1342543de82ef95 ^ 0x5851f42d4c957f2d).Uint64()
}

func classOf(ans string) string {
	f := strings.Fields(ans)
	if len(f) == 0 {
		return "none"
	}
	return f[0]
}

func emit(c *hx.Ctx, world string, rq *request, ans string) {
	if strings.HasSuffix(ans, " +leak") {
		ans = strings.TrimSuffix(ans, " +leak")
		c.Note("goroutines-outlive-request")
	}
	d, g := "-", ans
	if i := strings.Index(ans, " ; "); i >= 0 {
		d, g = ans[:i], ans[i+3:]
	}
	// (when the child died or hung the single answer is attributed to the service path; the direct path
	// ran first, so it may have been the one - the replay is the same expression either way)
	text := rq.prog.Text()
	if d != "-" {
		c.Op("direct "+world+" - "+text, d)
		c.Note("outcome-direct:" + classOf(d))
	}
	c.Op("grpc "+world+" "+rq.mut+" "+text, g)
	c.Note("outcome-grpc:" + classOf(g))
	for _, a := range []string{d, g} {
		switch classOf(a) {
		case "panic", "crash", "hang":
			c.Note("FAIL:" + a)
		}
	}
}

func notes(c *hx.Ctx, rq *request) {
	if rq.bucket != "" {
		c.Note(rq.bucket)
	}
	for k := range rq.feat {
		c.Note("feat:" + k)
	}
	for k := range rq.used {
		c.Note("fn:" + k)
	}
	if rq.prog.Kind == kCall && rq.prog.Fn.Kind == kSym {
		c.Note("root:" + rq.prog.Fn.Name)
	}
	sz := rq.prog.Size()
	c.Note(fmt.Sprintf("size:%02d-%02d", sz/5*5, sz/5*5+4))
	if rq.mut != "-" {
		m := rq.mut
		if strings.HasPrefix(m, "clear") {
			m = "clear"
		}
		c.Note("wire-damage:" + m)
	}
}

var total int

func runCase(c *hx.Ctx) {
	seed := c.Rand.Uint64()
	for k := 1; k <= lookahead && c.CaseNo+k < total; k++ {
		submit(caseSeedFor(c.Seed, c.CaseNo+k), c.CaseNo+k)
	}
	j := submit(seed, c.CaseNo)
	answers := <-j.done
	delete(pending, seed)
	cs := genCase(seed, c.CaseNo)
	world := cs.worldName()
	c.Note("world:" + world)
	c.Note(fmt.Sprintf("requests:%d", len(cs.reqs)))
	for i, rq := range cs.reqs {
		emit(c, world, rq, answers[i])
		notes(c, rq)
		if len(rq.used) >= 2 || rq.feat["lambda"] {
			c.NonTrivial()
		}
	}
}

const quickRandom, thoroughRandom = 1000, 11000 // random cases after the systematic ones

func main() {
	if ServeIfWorker(serve) {
		return
	}
	if many := os.Getenv("C23_MANY"); many != "" { // debugging aid: evaluate cases 0..n-1 of seed 1 in-process
		n, _ := strconv.Atoi(many)
		for no := 0; no < n; no++ {
			seed := caseSeedFor(1, no)
			cs := genCase(seed, no)
			for j := range cs.reqs {
				serve(fmt.Sprintf("%d %d 0 %d", seed, j, no))
			}
		}
		return
	}
	if one := os.Getenv("C23_ONE"); one != "" { // debugging aid: "<runSeed> <caseNo> <j>" evaluated in-process
		var rs uint64
		var no, j int
		fmt.Sscan(one, &rs, &no, &j)
		seed := caseSeedFor(rs, no)
		cs := genCase(seed, no)
		fmt.Println(cs.worldName(), cs.reqs[j].mut, cs.reqs[j].prog.Text())
		var skip uint64
		fmt.Sscan(os.Getenv("C23_SKIP"), &skip)
		fmt.Println(serve(fmt.Sprintf("%d %d %d %d", seed, j, skip, no)))
		return
	}
	if t := os.Getenv("C23_TIMEOUT_S"); t != "" {
		n, _ := strconv.Atoi(t)
		timeout = time.Duration(n) * time.Second
	}
	initPool()
	defer closePool()
	// how many cases this run has (hx parses the flags itself; the lookahead only needs an upper bound)
	setup()
	quickCases, thoroughCases := len(systematic())+quickRandom, len(systematic())+thoroughRandom
	total = quickCases
	for i, a := range os.Args {
		if (a == "--tier" || a == "-tier") && i+1 < len(os.Args) && os.Args[i+1] == "thorough" {
			total = thoroughCases
		}
		if a == "--tier=thorough" || a == "-tier=thorough" {
			total = thoroughCases
		}
	}
	for i, a := range os.Args {
		if (a == "--n" || a == "-n") && i+1 < len(os.Args) {
			if n, err := strconv.Atoi(os.Args[i+1]); err == nil && n > 0 {
				total = n
			}
		}
		if (a == "--only-case" || a == "-only-case") && i+1 < len(os.Args) {
			total = 0
		}
	}
	hx.Main(hx.Family{
		Name: "c23",
		Rule: "the first 1704 cases are systematic (het.go): every collection-typed parameter of every table function x every (key kind, value kind) of the first items over int/float/string/feature-id/pair/nil (6x6) gets 12 collections: later items keeping the key kind with each of the 6 value kinds, and keeping the value kind with each of the 6 key kinds, literal or built with collection(pair..) (buckets het:<fn>/<param>:first=<kA>,<vA> and het-change:<v|k>:<A>><B>), and every function-typed parameter gets a lambda returning each of 11 kinds or failing (buckets ret:<fn>:<kind>), other arguments well-formed; then random cases: 1-4 requests per case on one service instance (empty world 1/6, OSM town otherwise; 1/3 with a non-empty overlay layer); each request is an expression tree over the whole registered function table (read by reflection): a call of a uniformly chosen function with arguments generated per Go parameter type (literals with edge values: negative/huge ints, NaN/Inf floats, invalid/missing/mistyped feature IDs, empty and degenerate geometries, queries of every constructor, literal collections incl. mixed/duplicate/unhashable entries, 1/4 with first items of one kind and later items of another; calls of any function whose result feeds the type; lambdas, partial applications, function symbols and queries for function types, 1/12 with a wrong arity; 1/30 an argument of a wrong sort; dropped/extra/swapped arguments), collection pipelines, lambda calls (1/6 with more or fewer arguments than parameters), 1/12 programs inside the fragment the Lean model evaluates (add-ints, pairs, nested lambdas, partial applications, ill-typed arguments); 1/12 requests damaged at the wire level (a message field cleared, no request, bad root, bad version). Every request goes through proto.Marshal/Unmarshal and the real grpc service.Evaluate; half also through api.Evaluate with functions.NewContext. non-trivial = a request uses >= 2 library functions or a lambda; distinct = by hash of the case text",
		Quick:    quickCases,
		Thorough: thoroughCases,
		Corpus: func(c *hx.Ctx) {
			setup()
			for i, w := range corpus() {
				wk := <-pool
				ans := wk.Ask(fmt.Sprintf("w %d", i))
				pool <- wk
				world := "town"
				mut := w.mut
				if mut == "ov" {
					world, mut = "town+ov", "-"
				}
				emit(c, world, &request{prog: w.prog, mut: mut}, ans)
				c.Note("corpus:" + w.name)
			}
		},
		Case: runCase,
	})
}
