// C35 harness (exploration): concurrent query drivers and parallel builds under the race detector.
//
// Every case generates a feature set (grid points, open paths, closed paths drawn clockwise or anticlockwise,
// areas over the closed paths, relations), then runs workloads in a worker child built with -race
// (GORACE=halt_on_error=1): a data-race report kills the worker and becomes the answer `race` (the report's
// stacks are written as a comment line — that is the replay), a fatal runtime error `fatal`, a hang `hang`.
//
//   workload build-basic cores=K n=N       parallel ingest.NewWorldFromSource (validate / index stages of
//                                          BasicWorldBuilder.Finish, invertPoints on clockwise paths under
//                                          areas); the dump must equal the one of the cores=1 build
//   workload build-compact cores=K n=N     parallel compact.BuildInMemory + NewWorldFromData; same comparison
//   workload parse g=G                     api.ParseExpression (goyacc parser, package-level state) from G goroutines,
//                                          valid and invalid inputs, results compared with the sequential pass
//   workload query-<world> g=G n=N q=Q     G goroutines run the Q queries (lookups by ID through the LRU cache,
//                                          Polyline / Polygon / Feature of shared cached objects, searches,
//                                          references, areas-by-point, traversal, EachFeature) in different
//                                          orders, twice, on a basic / compact / mutable-overlay world with no
//                                          writer; every answer must equal the answer of the sequential pass
// answers: ok | mismatch:<query> | race | fatal | hang | crash
package main

import (
	"bufio"
	"context"
	"encoding/json"
	"fmt"
	"io"
	"log"
	"os"
	"sort"
	"strings"
	"sync"
	"time"

	"diagonal.works/b6"
	"diagonal.works/b6/api"
	"diagonal.works/b6/ingest"
	"diagonal.works/b6/ingest/compact"
	"github.com/golang/geo/s2"
	"verifharness/hx"
)

const ns = "v"

type Spec struct {
	Seed     uint64 `json:"seed"`
	Grid     int    `json:"grid"`     // grid x grid points
	Open     int    `json:"open"`     // open paths
	Squares  int    `json:"squares"`  // closed paths (unit squares of the grid), each with an area
	CWEvery  int    `json:"cw"`       // every n-th square is drawn clockwise (0 = none)
	Rels     int    `json:"rels"`     // relations
	Workload string `json:"workload"` // build-basic | build-compact | query-basic | query-compact | query-overlay
	Cores    int    `json:"cores"`
	G        int    `json:"g"`
}

func pointID(i int) b6.FeatureID { return b6.FeatureID{Type: b6.FeatureTypePoint, Namespace: ns, Value: uint64(i)} }
func pathID(i int) b6.FeatureID  { return b6.FeatureID{Type: b6.FeatureTypePath, Namespace: ns, Value: uint64(i)} }

func features(sp Spec) []ingest.Feature {
	r := hx.NewRand(sp.Seed)
	var fs []ingest.Feature
	n := sp.Grid
	for y := 0; y < n; y++ {
		for x := 0; x < n; x++ {
			p := &ingest.GenericFeature{ID: pointID(y*n + x)}
			p.ModifyOrAddTag(b6.Tag{Key: b6.PointTag, Value: b6.NewPointExpressionFromLatLng(s2.LatLngFromDegrees(51.5+float64(y)*0.001, -0.1+float64(x)*0.001))})
			if r.Chance(1, 4) {
				p.ModifyOrAddTag(b6.Tag{Key: "#amenity", Value: b6.NewStringExpression(r.Pick([]string{"cafe", "pub", "bench"}))})
			}
			fs = append(fs, p)
		}
	}
	refs := func(ids ...int) b6.Expression {
		xs := make([]b6.AnyExpression, len(ids))
		for i, id := range ids {
			xs[i] = b6.FeatureIDExpression(pointID(id))
		}
		return b6.NewExpressions(xs)
	}
	next := 0
	for i := 0; i < sp.Open; i++ {
		a := r.Intn(n * n)
		ids := []int{a}
		for len(ids) < 2+r.Intn(3) {
			b := r.Intn(n * n)
			if b != ids[len(ids)-1] && b != ids[0] {
				ids = append(ids, b)
			}
		}
		p := &ingest.GenericFeature{ID: pathID(next)}
		p.ModifyOrAddTag(b6.Tag{Key: b6.PathTag, Value: refs(ids...)})
		p.ModifyOrAddTag(b6.Tag{Key: "#highway", Value: b6.NewStringExpression(r.Pick([]string{"path", "footway", "primary"}))})
		fs = append(fs, p)
		next++
	}
	for i := 0; i < sp.Squares && n >= 2; i++ {
		x, y := r.Intn(n-1), r.Intn(n-1)
		sw, se, ne, nw := y*n+x, y*n+x+1, (y+1)*n+x+1, (y+1)*n+x
		ids := []int{sw, se, ne, nw, sw} // anticlockwise
		if sp.CWEvery > 0 && i%sp.CWEvery == 0 {
			ids = []int{sw, nw, ne, se, sw} // clockwise: inverted in place by ValidatePath
		}
		p := &ingest.GenericFeature{ID: pathID(next)}
		p.ModifyOrAddTag(b6.Tag{Key: b6.PathTag, Value: refs(ids...)})
		fs = append(fs, p)
		a := ingest.NewAreaFeature(1)
		a.AreaID = b6.MakeAreaID(ns, uint64(i))
		a.SetPathIDs(0, []b6.FeatureID{pathID(next)})
		a.AddTag(b6.Tag{Key: "#building", Value: b6.NewStringExpression("yes")})
		fs = append(fs, a)
		next++
	}
	for i := 0; i < sp.Rels && next > 0; i++ {
		rel := ingest.NewRelationFeature(0)
		rel.RelationID = b6.MakeRelationID(ns, uint64(i))
		rel.AddTag(b6.Tag{Key: "#route", Value: b6.NewStringExpression("bus")})
		for j := 0; j < 1+r.Intn(3); j++ {
			rel.Members = append(rel.Members, b6.RelationMember{ID: pathID(r.Intn(next))})
		}
		fs = append(fs, rel)
	}
	return fs
}

func cloneAll(fs []ingest.Feature) ingest.MemoryFeatureSource {
	out := make([]ingest.Feature, len(fs))
	for i, f := range fs {
		out[i] = f.Clone()
	}
	return ingest.MemoryFeatureSource(out)
}

func buildBasic(fs []ingest.Feature, cores int) (b6.World, error) {
	return ingest.NewWorldFromSource(cloneAll(fs), &ingest.BuildOptions{Cores: cores})
}

// compact builds reserve ~80 MB per goroutine (maxEncodedFeatureSize) and take 15-30 s under the race
// detector: compact workloads draw their feature set from a small pool (compactSpec) and the worker keeps the
// worlds it has built
var compactCache = map[uint64][]byte{}

// sharedCompact returns a FRESH world (empty caches) over the index built once per feature set
func sharedCompact(sp Spec, fs []ingest.Feature) (b6.World, error) {
	idx, ok := compactCache[sp.Seed]
	if !ok {
		var err error
		idx, err = compact.BuildInMemory(cloneAll(fs), &compact.Options{Goroutines: 2, PointsScratchOutputType: compact.OutputTypeMemory})
		if err != nil {
			return nil, err
		}
		compactCache[sp.Seed] = idx
	}
	return compact.NewWorldFromData(idx)
}

func buildCompact(fs []ingest.Feature, cores int) (b6.World, error) {
	if cores > 3 {
		cores = 3
	}
	idx, err := compact.BuildInMemory(cloneAll(fs), &compact.Options{Goroutines: cores, PointsScratchOutputType: compact.OutputTypeMemory})
	if err != nil {
		return nil, err
	}
	return compact.NewWorldFromData(idx)
}

// ---- queries ------------------------------------------------------------------------------------

type query struct {
	name string
	run  func(w b6.World) string
}

func idList(ids []b6.FeatureID) string {
	xs := make([]string, len(ids))
	for i, id := range ids {
		xs[i] = id.String()
	}
	sort.Strings(xs)
	return strings.Join(xs, ",")
}

func e7(ll s2.LatLng) string {
	return fmt.Sprintf("%d/%d", int64(ll.Lat.Degrees()*1e7+0.5), int64(ll.Lng.Degrees()*1e7-0.5))
}

func queries(sp Spec, fs []ingest.Feature) []query {
	var qs []query
	for _, f := range fs {
		id := f.FeatureID()
		qs = append(qs, query{"byid " + id.String(), func(w b6.World) string {
			g := w.FindFeatureByID(id)
			if g == nil {
				return "absent"
			}
			ts := []string{}
			for _, t := range g.AllTags() {
				if t.Key != b6.PointTag && t.Key != b6.PathTag {
					ts = append(ts, t.Key+"="+t.Value.String())
				}
			}
			sort.Strings(ts)
			return strings.Join(ts, ",")
		}})
		switch id.Type {
		case b6.FeatureTypePath:
			qs = append(qs, query{"polyline " + id.String(), func(w b6.World) string {
				g, ok := w.FindFeatureByID(id).(b6.PhysicalFeature)
				if !ok || g == nil {
					return "absent"
				}
				pl := g.Polyline()
				xs := make([]string, len(*pl))
				for i, p := range *pl {
					xs[i] = e7(s2.LatLngFromPoint(p))
				}
				return strings.Join(xs, " ")
			}})
		case b6.FeatureTypeArea:
			qs = append(qs, query{"polygon " + id.String(), func(w b6.World) string {
				a := b6.FindAreaByID(id.ToAreaID(), w)
				if a == nil {
					return "absent"
				}
				out := []string{}
				for i := 0; i < a.Len(); i++ {
					p := a.Polygon(i)
					nv := 0
					for l := 0; l < p.NumLoops(); l++ {
						nv += p.Loop(l).NumVertices()
					}
					out = append(out, fmt.Sprintf("loops=%d vertices=%d", p.NumLoops(), nv))
					ids := []b6.FeatureID{}
					for _, pf := range a.Feature(i) {
						ids = append(ids, pf.FeatureID())
					}
					out = append(out, idList(ids))
				}
				return strings.Join(out, ";")
			}})
		case b6.FeatureTypePoint:
			if id.Value%3 == 0 {
				qs = append(qs, query{"refs " + id.String(), func(w b6.World) string {
					var ids []b6.FeatureID
					i := w.FindReferences(id, b6.FeatureTypePath)
					for i.Next() {
						ids = append(ids, i.FeatureID())
					}
					return idList(ids)
				}}, query{"areas " + id.String(), func(w b6.World) string {
					var ids []b6.FeatureID
					i := w.FindAreasByPoint(id)
					for i.Next() {
						ids = append(ids, i.FeatureID())
					}
					return idList(ids)
				}}, query{"traverse " + id.String(), func(w b6.World) string {
					var xs []string
					i := w.Traverse(id)
					for i.Next() {
						s := i.Segment()
						xs = append(xs, fmt.Sprintf("%s[%d-%d]", s.Feature.FeatureID().String(), s.First, s.Last))
					}
					sort.Strings(xs)
					return strings.Join(xs, ",")
				}})
			}
		}
	}
	for _, key := range []string{"#highway", "#building", "#amenity", "#route"} {
		key := key
		qs = append(qs, query{"find " + key, func(w b6.World) string {
			var ids []b6.FeatureID
			i := w.FindFeatures(b6.Keyed{Key: key})
			for i.Next() {
				ids = append(ids, i.FeatureID())
			}
			return idList(ids)
		}})
	}
	qs = append(qs, query{"each", func(w b6.World) string {
		var mu sync.Mutex
		count := 0
		w.EachFeature(func(f b6.Feature, g int) error {
			mu.Lock()
			count++
			mu.Unlock()
			return nil
		}, &b6.EachFeatureOptions{Goroutines: 2})
		return fmt.Sprintf("%d", count)
	}})
	return qs
}

func dumpAll(w b6.World, qs []query) []string {
	out := make([]string, len(qs))
	for i, q := range qs {
		out[i] = hx.Recover(func() string { return q.run(w) })
	}
	return out
}

// ---- worker --------------------------------------------------------------------------------------

var parseInputs = []string{
	`find [#building] | map {b -> get b "building:levels"}`,
	`add-tag /point/v/1 #amenity=cafe`,
	`find (intersecting 19.4008, -99.1663)`,
	`{"motorway": 36.0, "primary": 32.0}`,
	`all-areas | filter | highlight`,
	`find [#building=yes & [#shop=supermarket | #shop=convenience]]`,
	`map (tag "name") (all-areas)`,
	`add-tag /point/v/1`, `find [`, `{a -> }`, `1 2 3 |`, `pair 55.6, -2.8 /area/openstreetmap.org/way/1`, // some fail: the error path
}

func parseOne(e string) string {
	ex, err := api.ParseExpression(e)
	if err != nil {
		return "err:" + err.Error()
	}
	if u, ok := api.UnparseExpression(ex); ok {
		return u
	}
	return "parsed"
}

// parseWorkload: api.ParseExpression from G goroutines (the UI's EvaluateString path parses inside concurrent
// HTTP requests); every result must equal the sequential one
func parseWorkload(sp Spec) string {
	var wg sync.WaitGroup
	got := make([][]string, sp.G)
	for g := 0; g < sp.G; g++ {
		wg.Add(1)
		go func(g int) {
			defer wg.Done()
			r := hx.NewRand(sp.Seed*17 + uint64(g))
			for round := 0; round < 3; round++ {
				for _, i := range r.Perm(len(parseInputs)) {
					got[g] = append(got[g], fmt.Sprintf("%d\x00%s", i, hx.Recover(func() string { return parseOne(parseInputs[i]) })))
				}
			}
		}(g)
	}
	wg.Wait()
	want := make([]string, len(parseInputs))
	for i, e := range parseInputs {
		want[i] = fmt.Sprintf("%d\x00%s", i, hx.Recover(func() string { return parseOne(e) }))
	}
	for g := range got {
		for _, a := range got[g] {
			var i int
			fmt.Sscanf(a, "%d", &i)
			if a != want[i] {
				return fmt.Sprintf("mismatch:parse_%d", i)
			}
		}
	}
	return "ok"
}

func runSpec(sp Spec) string {
	if sp.Workload == "parse" {
		return parseWorkload(sp)
	}
	fs := features(sp)
	qs := queries(sp, fs)
	switch sp.Workload {
	case "build-basic", "build-compact":
		build := buildBasic
		if sp.Workload == "build-compact" {
			build = buildCompact
		}
		w1, err1 := build(fs, 1)
		wk, errk := build(fs, sp.Cores)
		if (err1 != nil) != (errk != nil) {
			return "mismatch:build-error"
		}
		if err1 != nil {
			return "ok"
		}
		a, b := dumpAll(w1, qs), dumpAll(wk, qs)
		for i := range a {
			if a[i] != b[i] {
				return "mismatch:" + strings.ReplaceAll(qs[i].name, " ", "_")
			}
		}
		return "ok"
	}
	var w b6.World
	var err error
	switch sp.Workload {
	case "query-basic":
		w, err = buildBasic(fs, 2)
	case "query-compact":
		w, err = sharedCompact(sp, fs)
	case "query-overlay":
		var base b6.World
		if sp.Seed >= 1000000 {
			base, err = buildBasic(fs, 2)
		} else {
			base, err = sharedCompact(sp, fs) // feature sets of the compact pool
		}
		if err == nil {
			m := ingest.NewMutableOverlayWorld(base)
			// a few edits before the concurrent phase (no writer during it)
			m.AddTag(pointID(0), b6.Tag{Key: "#amenity", Value: b6.NewStringExpression("library")})
			m.AddTag(pathID(0), b6.Tag{Key: "name", Value: b6.NewStringExpression("edited")})
			p := &ingest.GenericFeature{ID: pointID(100000)}
			p.ModifyOrAddTag(b6.Tag{Key: b6.PointTag, Value: b6.NewPointExpressionFromLatLng(s2.LatLngFromDegrees(51.49, -0.11))})
			m.AddFeature(p)
			w = m
		}
	}
	if err != nil {
		return "ok" // nothing to query; build failures are C37's subject
	}
	// the concurrent phase comes first, on a world whose lazily filled fields and LRU are still empty; the
	// sequential pass that provides the expected answers runs afterwards
	var wg sync.WaitGroup
	got := make([][]string, sp.G)
	order := make([][]int, sp.G)
	for g := 0; g < sp.G; g++ {
		wg.Add(1)
		go func(g int) {
			defer wg.Done()
			r := hx.NewRand(sp.Seed*31 + uint64(g))
			for round := 0; round < 2; round++ {
				for _, i := range r.Perm(len(qs)) {
					order[g] = append(order[g], i)
					got[g] = append(got[g], hx.Recover(func() string { return qs[i].run(w) }))
				}
			}
		}(g)
	}
	done := make(chan struct{})
	go func() { wg.Wait(); close(done) }()
	select {
	case <-done:
	case <-time.After(60 * time.Second):
		return "HANG"
	}
	want := dumpAll(w, qs)
	for g := range got {
		for k, i := range order[g] {
			if got[g][k] != want[i] {
				return "mismatch:" + strings.ReplaceAll(qs[i].name, " ", "_")
			}
		}
	}
	return "ok"
}

func workerLoop() {
	log.SetOutput(io.Discard)
	in := bufio.NewReaderSize(os.Stdin, 1<<20)
	out := bufio.NewWriter(os.Stdout)
	for {
		line, err := in.ReadString('\n')
		if line != "" {
			var sps []Spec
			if e := json.Unmarshal([]byte(line), &sps); e != nil {
				panic(e)
			}
			for _, sp := range sps {
				a := runSpec(sp)
				fmt.Fprintln(out, a)
				out.Flush()
				if a == "HANG" {
					select {}
				}
			}
			fmt.Fprintln(out, "END")
			out.Flush()
		}
		if err != nil {
			return
		}
	}
}

// ---- parent --------------------------------------------------------------------------------------

var theWorker *worker

func opText(sp Spec, nq int) string {
	n := sp.Grid*sp.Grid + sp.Open + 2*sp.Squares + sp.Rels
	if strings.HasPrefix(sp.Workload, "build") {
		return fmt.Sprintf("workload %s cores=%d n=%d cw=%d seed=%d", sp.Workload, sp.Cores, n, sp.CWEvery, sp.Seed)
	}
	if sp.Workload == "parse" {
		return fmt.Sprintf("workload parse g=%d n=%d q=%d seed=%d", sp.G, len(parseInputs), 3*len(parseInputs), sp.Seed)
	}
	return fmt.Sprintf("workload %s g=%d n=%d q=%d seed=%d", sp.Workload, sp.G, n, nq, sp.Seed)
}

func execute(c *hx.Ctx, sps []Spec) {
	if theWorker == nil {
		theWorker = startWorker()
	}
	b, _ := json.Marshal(sps)
	answers, ok, stderr := theWorker.run(string(b), 180*time.Second)
	if !ok {
		theWorker = nil
		if stderr != "" {
			c.Comment("worker stderr: " + firstLines(stderr, 60))
		}
	}
	for i, a := range answers {
		if i >= len(sps) {
			break
		}
		nq := 0
		if !strings.HasPrefix(sps[i].Workload, "build") && sps[i].Workload != "parse" {
			nq = len(queries(sps[i], features(sps[i])))
		}
		c.Op(opText(sps[i], nq), a)
		c.Note("workload:" + sps[i].Workload)
		c.Note("answer:" + strings.SplitN(a, ":", 2)[0])
	}
}

func firstLines(s string, n int) string {
	ls := strings.Split(s, "\n")
	if len(ls) > n {
		ls = ls[:n]
	}
	return strings.Join(ls, " | ")
}

var workloads = []string{"build-basic", "build-compact", "query-basic", "query-compact", "query-overlay"}

// compactSpec: the k-th feature set of the pool for compact worlds (shape fixed by the seed)
func compactSpec(c *hx.Ctx, k int) Spec {
	seed := c.Seed*1000 + uint64(k)
	r := hx.NewRand(seed)
	return Spec{Seed: seed, Grid: 4 + r.Intn(3), Open: 4 + r.Intn(6), Squares: 3 + r.Intn(4), CWEvery: 1 + r.Intn(2), Rels: 1 + r.Intn(3)}
}

func poolSize(c *hx.Ctx) int {
	if c.Thorough() {
		return 4
	}
	return 1
}

func runCase(c *hx.Ctx) {
	r := c.Rand
	sp := Spec{Seed: 1000000 + r.Uint64()%1000000, Grid: 3 + r.Intn(4), Open: 2 + r.Intn(8), Squares: 1 + r.Intn(6), Rels: r.Intn(4)}
	if r.Chance(2, 3) {
		sp.CWEvery = 1 + r.Intn(3)
	}
	cs := compactSpec(c, r.Intn(poolSize(c)))
	var sps []Spec
	for _, wl := range workloads {
		if r.Chance(1, 2) && len(sps) > 0 {
			continue
		}
		s := sp
		if wl == "build-compact" {
			if !c.Thorough() || !r.Chance(1, 10) {
				continue
			}
			s = cs
		}
		if wl == "query-compact" || (wl == "query-overlay" && r.Bool()) {
			s = cs
		}
		s.Workload = wl
		s.Cores = 2 + r.Intn(7)
		s.G = 2 + r.Intn(7)
		sps = append(sps, s)
		c.Note(fmt.Sprintf("cores-or-g:%d", map[bool]int{true: s.Cores, false: s.G}[strings.HasPrefix(wl, "build")]))
	}
	if r.Chance(1, 3) {
		s := sp
		s.Workload, s.G = "parse", 2+r.Intn(7)
		sps = append(sps, s)
	}
	execute(c, sps)
	if sp.CWEvery > 0 && sp.Squares >= 2 {
		c.NonTrivial()
	}
	_ = context.Background
}

func corpus(c *hx.Ctx) {
	// many clockwise squares under areas, many cores: the scenario of DESIGN §7 (in-place inversion while
	// another worker validates an area over the path) — a race before fixes/C37-finish-validate-paths-before-areas
	base := Spec{Seed: 1000007, Grid: 6, Open: 4, Squares: 12, CWEvery: 1, Rels: 2}
	var sps []Spec
	for _, wl := range workloads {
		s := base
		if wl == "build-compact" {
			if !c.Thorough() {
				continue
			}
			s = compactSpec(c, 0)
		}
		if wl == "query-compact" {
			s = compactSpec(c, 0)
		}
		s.Workload = wl
		s.Cores, s.G = 8, 8
		sps = append(sps, s)
	}
	ps := base
	ps.Workload, ps.G = "parse", 8
	sps = append(sps, ps)
	execute(c, sps)
	c.NonTrivial()
}

func main() {
	if os.Getenv(workerEnv) != "" {
		workerLoop()
		return
	}
	hx.Main(hx.Family{
		Name:     "c35",
		Rule:     "a generated feature set (9-36 grid points, 2-9 open paths, 1-6 closed unit squares each under an area, 2/3 of the cases with clockwise squares that ValidatePath reverses in place, 0-3 relations) and 1-5 workloads on it: parallel basic / compact builds with 2-8 cores compared with the 1-core build, and 2-8 goroutines running all queries (by-ID through the LRU, Polyline/Polygon/Feature on shared cached objects, searches, references, areas-by-point, traversal, EachFeature) twice in different orders on a basic / compact / mutable-overlay world, compared with the sequential pass; all in a -race worker. non-trivial = at least two squares, some clockwise",
		Quick:    40,
		Thorough: 400,
		Corpus:   corpus,
		Case:     runCase,
	})
	if theWorker != nil {
		theWorker.kill()
	}
}
